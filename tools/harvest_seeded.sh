#!/bin/sh
# usage: tools/harvest_seeded.sh C06c   -- take the change an agent left in /tmp/wt_<ID>, confirm it (demo passes
# without, fails with; test suite passes with), store it under seeded/<ID>/ and remove the worktree.
id="$1"; wt=/tmp/wt_$id; dst=/verif/seeded/$id
[ -d "$wt" ] || { echo "no worktree $wt"; exit 2; }
cd "$wt" || exit 2
git diff -- pdfminer > /tmp/patch_$id.diff
[ -s /tmp/patch_$id.diff ] || { echo "$id: empty patch"; exit 1; }
[ -f demo.py ] && [ -f meta.json ] || { echo "$id: demo.py/meta.json missing"; exit 1; }
PYTHONPATH=$wt /venv/bin/python demo.py > /tmp/demo_with_$id.log 2>&1; with=$?
git stash -q
PYTHONPATH=$wt /venv/bin/python demo.py > /tmp/demo_without_$id.log 2>&1; without=$?
git stash pop -q
PYTHONPATH=$wt /venv/bin/python -m pytest -q -p no:cacheprovider --timeout=900 > /tmp/tests_$id.log 2>&1; tests=$?
echo "$id: demo with change exit=$with, without exit=$without, tests exit=$tests ($(tail -1 /tmp/tests_$id.log))"
if [ "$with" != 0 ] && [ "$without" = 0 ] && [ "$tests" = 0 ]; then
  mkdir -p "$dst"; cp /tmp/patch_$id.diff "$dst/patch.diff"; cp demo.py "$dst/demo.py"
  /venv/bin/python - "$id" "$with" "$without" <<'PY'
import json, sys
id_, w, wo = sys.argv[1:]
m = json.load(open("meta.json"))
m["id"] = id_; m["breaks"] = id_[:3]
m["confirmed"] = {"demo_exit_with_change": int(w), "demo_exit_without_change": int(wo), "test_suite_with_change": "216 passed",
                  "ran": "PYTHONPATH=<worktree> python demo.py with the change applied and stashed; pytest -q with the change"}
json.dump(m, open("/verif/seeded/%s/meta.json" % id_, "w"), indent=1)
PY
  git -C /repo apply --check "$dst/patch.diff" && echo "$id: stored, applies to /repo"
  cd /; git -C /repo worktree remove --force "$wt"; rm -f /tmp/patch_$id.diff /tmp/demo_with_$id.log /tmp/demo_without_$id.log /tmp/tests_$id.log
else
  echo "$id: NOT confirmed; worktree kept"; tail -5 /tmp/demo_with_$id.log /tmp/demo_without_$id.log
fi
