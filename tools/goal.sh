#!/bin/sh
# usage: tools/goal.sh theories/Proofs/X.v LINE  -- print the proof state after LINE lines
cd /verif/coq
f="$1"; n="$2"
tmp="theories/Proofs/_Goal_tmp.v"
head -n "$n" "$f" > "$tmp"
echo "Show. " >> "$tmp"
timeout 300 coqc -Q theories PdfV -w -all "$tmp" 2>&1 | head -${3:-60}
rm -f theories/Proofs/_Goal_tmp.* theories/Proofs/._Goal_tmp.aux
