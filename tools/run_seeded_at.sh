#!/bin/sh
# usage: tools/run_seeded_at.sh REPO_COPY ID...   -- like run_seeded.sh with ONLY=1, but against a scratch copy of the
# repository (VERIF_REPO) and from whatever copy of /verif this script lives in (so it can run under `vp run
# --with-repo` while /verif and /repo are being edited).  Prints one line per change; touches neither /repo nor RESULTS.md.
here="$(cd "$(dirname "$0")/.." && pwd)"; cd "$here" || exit 2
repo="$1"; shift
export VERIF_REPO="$repo"
[ -d coq/theories/Gen ] && [ -f coq/Makefile ] || ./setup.sh > .work_setup.log 2>&1
mkdir -p .work
for id in "$@"; do
  p=seeded/$id/patch.diff; c=$(echo $id | cut -c1-3)
  git -C "$repo" apply "$here/$p" || { echo "$id: patch does not apply"; continue; }
  ./check $c --tier quick > .work/seeded_$id.log 2>&1; rc=$?
  git -C "$repo" checkout -- .
  if grep -q '^VIOLATION' .work/seeded_$id.log; then echo "$id CAUGHT by $c: $(grep -m1 '^VIOLATION' .work/seeded_$id.log)"; else echo "$id MISSED by $c (exit $rc)"; fi
done
