#!/usr/bin/env python3
"""One-off: write the reference tables used by harness/c06.py's oracle (spec/agl.txt, spec/latin.txt, spec/std14.txt).
They were produced once from the reviewed tree (after the WinAnsi 173 repair) and are committed; the checks never
regenerate them.  agl.txt is in the format of Adobe's glyphlist.txt (name;XXXX XXXX)."""
import sys
sys.path.insert(0, "/repo")
from pdfminer.glyphlist import glyphname2unicode
from pdfminer.latin_enc import ENCODING
from pdfminer.fontmetrics import FONT_METRICS

with open("/verif/spec/agl.txt", "w") as f:
    for k in sorted(glyphname2unicode):
        f.write("%s;%s\n" % (k, " ".join("%04X" % ord(c) for c in glyphname2unicode[k])))
tabs = {"std": {}, "mac": {}, "win": {}, "pdf": {}}
for name, std, mac, win, pdf in ENCODING:
    for t, c in (("std", std), ("mac", mac), ("win", win), ("pdf", pdf)):
        if c:
            tabs[t][c] = name
with open("/verif/spec/latin.txt", "w") as f:
    for t in ("std", "mac", "win", "pdf"):
        for c in sorted(tabs[t]):
            f.write("%s %d %s\n" % (t, c, tabs[t][c]))
with open("/verif/spec/std14.txt", "w") as f:
    for fn in sorted(FONT_METRICS):
        for ch, w in sorted(FONT_METRICS[fn][1].items()):
            f.write("%s %s %d\n" % (fn, "_".join("%04X" % ord(c) for c in ch), w))
