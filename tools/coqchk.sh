#!/bin/sh
# independent re-check of every compiled property file and all it depends on; prints the axioms relied on
cd /verif/coq || exit 2
mods=$(ls theories/Props/*.v | sed 's#theories/Props/\(.*\)\.v#PdfV.Props.\1#')
timeout 3600 coqchk -silent -o -Q theories PdfV $mods 2>&1 | tee /verif/.work/coqchk.log | tail -20
