#!/bin/sh
# usage: tools/run_thorough.sh [ID ...] -- thorough tier of every (or the given) property, one after the other
cd /verif || exit 2
ids="$*"; [ -z "$ids" ] && ids="C01 C02 C03 C04 C05 C06 C07 C08 C09 C10 C11 C12 C13 C14 C15 C16 C17 C18 C19 C20"
for c in $ids; do
  s=$(date +%s)
  ./check $c --tier thorough > .work/thorough_$c.log 2>&1
  echo "$c rc=$? $(( $(date +%s) - s ))s $(grep -c '^VIOLATION' .work/thorough_$c.log) $(tail -1 .work/thorough_$c.log | cut -c1-120)"
done
