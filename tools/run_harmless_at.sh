#!/bin/sh
# usage: tools/run_harmless_at.sh REPO_COPY [ID ...] -- like run_harmless.sh (targeted property only), against a scratch
# copy of the repository and from whatever copy of /verif this script lives in; prints one line per refactoring.
here="$(cd "$(dirname "$0")/.." && pwd)"; cd "$here" || exit 2
repo="$1"; shift
export VERIF_REPO="$repo"
[ -d coq/theories/Gen ] && [ -f coq/Makefile ] || ./setup.sh > .work_setup.log 2>&1
mkdir -p .work
ids="$*"; [ -z "$ids" ] && ids=$(ls seeded/harmless | grep '^C' | sort)
for id in $ids; do
  p=seeded/harmless/$id/patch.diff
  git -C "$repo" apply "$here/$p" || { echo "$id: patch does not apply"; continue; }
  ./check $id --tier quick > .work/harmless_$id.log 2>&1; rc=$?
  git -C "$repo" checkout -- .
  if grep -q '^VIOLATION' .work/harmless_$id.log; then echo "$id FALSE ALARM: $(grep -m1 '^VIOLATION' .work/harmless_$id.log)"; else echo "$id silent (exit $rc)"; fi
done
