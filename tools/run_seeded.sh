#!/bin/sh
# usage: tools/run_seeded.sh [ID ...]   -- apply each seeded/<ID>/patch.diff to /repo, run the quick check of every
# property (or only of ID with ONLY=1), restore /repo.  Writes seeded/RESULTS.md.  /repo must be clean.
cd /verif || exit 2
[ -n "$(git -C /repo status --porcelain)" ] && { echo "/repo is not clean"; exit 2; }
ids="$*"; [ -z "$ids" ] && ids=$(ls seeded | grep '^C' | sort)
all="C01 C02 C03 C04 C05 C06 C07 C08 C09 C10 C11 C12 C13 C14 C15 C16 C17 C18 C19 C20"
out=seeded/RESULTS.md
[ -f "$out" ] || printf '# Seeded changes: which quick checks report a violation\n\n| change | summary | caught by |\n|---|---|---|\n' > "$out"
for id in $ids; do
  p=seeded/$id/patch.diff
  [ -f "$p" ] || continue
  git -C /repo apply "$PWD/$p" || { echo "$id: patch does not apply"; continue; }
  caught=""
  targets="$all"; [ -n "$ONLY" ] && targets=$(echo $id | cut -c1-3)
  for c in $targets; do
    ./check $c --tier quick > .work/seeded_$c.log 2>&1
    if grep -q '^VIOLATION' .work/seeded_$c.log; then caught="$caught $c"; fi
  done
  git -C /repo checkout -- .
  summary=$(python3 -c "import json,sys; print(json.load(open('seeded/$id/meta.json')).get('summary','').replace('\n',' ').replace('|','/')[:160])" 2>/dev/null)
  grep -v "^| $id |" "$out" > "$out.tmp"; mv "$out.tmp" "$out"
  echo "| $id | $summary | ${caught:-NONE} |" >> "$out"
  echo "$id caught by:${caught:- NONE}"
done
