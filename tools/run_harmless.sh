#!/bin/sh
# usage: tools/run_harmless.sh [ID ...] -- apply each behaviour-preserving refactoring seeded/harmless/<ID>/patch.diff to
# /repo, run the quick check of the targeted property and of every property whose model reads a touched file, restore
# /repo.  An alarm here is a false alarm of the machinery (unless the refactoring is not behaviour-preserving after all).
cd /verif || exit 2
[ -n "$(git -C /repo status --porcelain)" ] && { echo "/repo is not clean"; exit 2; }
ids="$*"; [ -z "$ids" ] && ids=$(ls seeded/harmless | grep '^C' | sort)
out=seeded/harmless/RESULTS.md
[ -f "$out" ] || printf '# Behaviour-preserving refactorings: which quick checks alarm (should be none)\n\n| refactoring | files | checks run | alarms |\n|---|---|---|---|\n' > "$out"
checks_for() {
  case "$1" in
    *psparser.py) echo "C01 C14 C02 C05";; *pdfparser.py) echo "C01 C02";; *pdfdocument.py) echo "C02 C10 C17 C13";;
    *pdftypes.py) echo "C03 C13 C12";; *utils.py) echo "C20 C03 C08 C09 C16 C17";; *pdfpage.py) echo "C04 C13";;
    *pdfinterp.py) echo "C05 C16 C12 C13 C18 C04";; *pdfdevice.py) echo "C05";; *encodingdb.py) echo "C06 C12";;
    *pdffont.py) echo "C06 C07 C12";; *cmapdb.py) echo "C07 C15 C12";; *layout.py) echo "C08 C09";;
    *converter.py) echo "C11 C16";; *data_structures.py) echo "C17";; *image.py) echo "C18 C15";; *ccitt.py) echo "C19";;
    *high_level.py) echo "C11 C12";; *lzw.py|*ascii85.py|*runlength.py) echo "C03";; *) echo "";;
  esac
}
for id in $ids; do
  p=seeded/harmless/$id/patch.diff
  [ -f "$p" ] || continue
  files=$(grep '^+++ b/' $p | sed 's#+++ b/##' | tr '\n' ' ')
  targets="$id"
  for f in $files; do targets="$targets $(checks_for $f)"; done
  targets=$(echo $targets | tr ' ' '\n' | sort -u | tr '\n' ' ')
  git -C /repo apply "$PWD/$p" || { echo "$id: patch does not apply"; continue; }
  alarms=""
  for c in $targets; do
    ./check $c --tier quick > .work/harmless_${id}_$c.log 2>&1
    if grep -q '^VIOLATION' .work/harmless_${id}_$c.log; then alarms="$alarms $c"; fi
  done
  git -C /repo checkout -- .
  grep -v "^| $id |" "$out" > "$out.tmp"; mv "$out.tmp" "$out"
  echo "| $id | $files | $targets | ${alarms:-none} |" >> "$out"
  echo "$id alarms:${alarms:- none}"
done
