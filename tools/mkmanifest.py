#!/usr/bin/env python3
"""Write /verif/MANIFEST.json from the per-property metadata in harness/cXX.py (MANIFEST_ENTRY dicts) and
validate it (python3-vt has jsonschema).  Properties without a harness module are listed under not_applicable
with the reason given in NOT_CLAIMED below."""
import ast
import glob
import json
import os
import sys

VERIF = os.path.dirname(os.path.dirname(os.path.abspath(__file__)))

NOT_CLAIMED = {
}

DEFAULT_REASON = ("no check is registered for this property yet: its Coq model, theorems and correspondence harness "
                  "(DESIGN.md section 3) are not built in the committed tree, so nothing is claimed")


def module_meta(path):
    """read PROP and MANIFEST_ENTRY (literal dict) from a harness module without importing it"""
    tree = ast.parse(open(path).read())
    out = {}
    for node in tree.body:
        if isinstance(node, ast.Assign) and len(node.targets) == 1 and isinstance(node.targets[0], ast.Name):
            if node.targets[0].id in ("PROP", "MANIFEST_ENTRY"):
                out[node.targets[0].id] = ast.literal_eval(node.value)
    return out


def main():
    props = [json.loads(l)["id"] for l in open(os.path.join(VERIF, "properties.jsonl"))]
    checks, claimed = [], set()
    for path in sorted(glob.glob(os.path.join(VERIF, "harness", "c[0-9][0-9].py"))):
        meta = module_meta(path)
        if "MANIFEST_ENTRY" not in meta:
            continue
        pid, e = meta["PROP"], meta["MANIFEST_ENTRY"]
        claimed.add(pid)
        checks.append({
            "property_id": pid,
            "quick_cmd": "./check %s --tier quick" % pid,
            "thorough_cmd": "./check %s --tier thorough" % pid,
            "evidence_file": "evidence/%s.json" % pid,
            "replay_cmd_template": "./check %s --replay {path}" % pid,
            "engine": "coq-proof+correspondence",
            "level_claimed": {"category": e.get("category", "proof"), "text": e["text"],
                              "design_ref": e.get("design_ref", "DESIGN.md 3." + pid)},
            "level_note": e["note"],
            "technique": e["technique"],
        })
    na = [{"property_id": p, "reason": NOT_CLAIMED.get(p, DEFAULT_REASON)} for p in props if p not in claimed]
    man = {
        "version": 1,
        "setup_cmd": "./setup.sh",
        "hooks": {
            "guard": "PDFMINER_SIX_VERIF",
            "enable": "no hooks are needed: checks import /repo's working tree directly (PYTHONPATH=/repo) and use only "
                      "public attributes (PSBaseParser.BUFSIZ), sys.addaudithook and sys.settrace",
            "baseline_off_cmd": "cd /repo && /venv/bin/python -m pytest -ra -q -p no:cacheprovider --timeout=900 "
                                "--continue-on-collection-errors",
            "source_commits": [],
            "add_only": True,
        },
        "engines": [{
            "name": "coq-proof+correspondence", "path": "coq/ translator/ harness/ ocaml/",
            "serves_properties": sorted(claimed),
            "kind_free_text": "Coq 8.16.1 theorems about executable Gallina models; pure arithmetic/tables regenerated from "
                              "/repo's Python AST on every run (translator/), loop-heavy code modelled by hand and tied "
                              "by differential runs of the model (vm_compute / extracted OCaml) against the implementation",
        }],
        "checks": checks,
        "not_applicable": na,
        "notes": "See DESIGN.md.  ./check Cxx re-runs the translator on /repo's working tree, rebuilds the Coq targets of the "
                 "property (full .vo), re-runs the model/implementation correspondence and the property oracle, applies "
                 "known_findings.json and rewrites evidence/Cxx.json.",
    }
    path = os.path.join(VERIF, "MANIFEST.json")
    with open(path, "w") as f:
        json.dump(man, f, indent=1)
        f.write("\n")
    try:
        import jsonschema
        jsonschema.validate(man, json.load(open("/root/.vp/MANIFEST.schema.json")))
        print("MANIFEST.json valid: %d checks, %d not claimed" % (len(checks), len(na)))
    except ImportError:
        print("MANIFEST.json written (jsonschema not importable here; run with python3-vt to validate)")


if __name__ == "__main__":
    sys.exit(main())
