#!/bin/sh
# MANIFEST.setup_cmd: regenerate the translated Gallina from /repo, build the whole Coq development (full .vo)
# and the extracted OCaml model drivers.  Offline; everything comes from files on disk.
set -e
HERE="$(cd "$(dirname "$0")" && pwd)"
cd "$HERE"
export PYTHONHASHSEED=0 PYTHONDONTWRITEBYTECODE=1
mkdir -p .work .build coq/extracted coq/theories/Gen replays evidence
/venv/bin/python translator/genall.py "${VERIF_REPO:-/repo}" || echo "setup: translator fail-closed (checks will report it)"
/venv/bin/python - <<'PY'
import sys; sys.path.insert(0, "harness")
import common
common.make_coqproject()
PY
( cd coq && timeout 3000 make -j"${VERIF_JOBS:-16}" -k ) || echo "setup: some Coq files do not build (checks will report which)"
/venv/bin/python - <<'PY'
import sys, glob, os; sys.path.insert(0, "harness")
import common
for d in sorted(glob.glob(os.path.join(common.VERIF, "ocaml", "*_driver.ml"))):
    name = os.path.basename(d)[:-len("_driver.ml")]
    ok, out = common.build_driver(name)
    print("driver", name, "ok" if ok else "FAILED\n" + out[-800:])
PY
echo "setup done"
