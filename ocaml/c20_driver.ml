(* C20 driver.  Rationals travel as "n/d" in hex.
   M <fn> <args...>                          matrix helper on rationals
   P x0 y0 x1 y1 g ; op ; op ...             plane history; ops: A id x0 y0 x1 y1 | R id | F x0 y0 x1 y1 | I | L *)
let q_of_string (s : string) : q =
  match String.split_on_char '/' s with
  | [n; d] -> (match z_of_hex d with Zpos p -> { qnum = z_of_hex n; qden = p } | _ -> failwith "den")
  | [n] -> { qnum = z_of_hex n; qden = XH }
  | _ -> failwith "q"
let string_of_q (x : q) : string = hex_of_z x.qnum ^ "/" ^ hex_of_pos x.qden

let m6 = function [a;b;c;d;e;f] -> (((((a,b),c),d),e),f) | _ -> failwith "m6"
let str6 (((((a,b),c),d),e),f) = String.concat " " (List.map string_of_q [a;b;c;d;e;f])
let r4 = function [a;b;c;d] -> (((a,b),c),d) | _ -> failwith "r4"
let str4 (((a,b),c),d) = String.concat " " (List.map string_of_q [a;b;c;d])
let p2 = function [a;b] -> (a,b) | _ -> failwith "p2"
let str2 (a,b) = String.concat " " (List.map string_of_q [a;b])
let rec take n l = if n = 0 then [] else match l with x :: r -> x :: take (n-1) r | [] -> failwith "take"
let rec drop n l = if n = 0 then l else match l with _ :: r -> drop (n-1) r | [] -> failwith "drop"

let matrix_case (toks : string list) : string =
  match toks with
  | fn :: args ->
    let qs = List.map q_of_string args in
    (match fn with
     | "mult" -> str6 (q_mult_matrix (m6 (take 6 qs)) (m6 (drop 6 qs)))
     | "translate" -> str6 (q_translate_matrix (m6 (take 6 qs)) (p2 (drop 6 qs)))
     | "pt" -> str2 (q_apply_matrix_pt (m6 (take 6 qs)) (p2 (drop 6 qs)))
     | "rect" -> str4 (q_apply_matrix_rect (m6 (take 6 qs)) (r4 (drop 6 qs)))
     | "norm" -> str2 (q_apply_matrix_norm (m6 (take 6 qs)) (p2 (drop 6 qs)))
     | _ -> failwith "fn")
  | [] -> failwith "empty"

let ids (l : obj list) : string =
  "[" ^ String.concat "," (List.map (fun o -> string_of_int (int_of_nat o.oid)) l) ^ "]"

let plane_case (body : string) : string =
  match String.split_on_char ';' body with
  | hd :: ops ->
    let h = split_ws hd in
    let qs = List.map q_of_string (take 4 h) in
    let g = z_of_hex (List.nth h 4) in
    let (((x0,y0),x1),y1) = r4 qs in
    let p = ref (plane_init (q_mkPlaneB x0 y0 x1 y1 g)) in
    let objs : (int, obj) Hashtbl.t = Hashtbl.create 16 in
    let out = Buffer.create 64 in
    List.iter (fun op ->
      match split_ws op with
      | "A" :: id :: rest ->
        let i = int_of_string id in
        let o = { oid = nat_of_int i; obox = r4 (List.map q_of_string rest) } in
        Hashtbl.replace objs i o; p := plane_add !p o
      | ["R"; id] ->
        let o = Hashtbl.find objs (int_of_string id) in
        (match plane_remove !p o with
         | Some p' -> p := p'
         | None -> Buffer.add_string out "KeyError ")
      | "F" :: rest ->
        Buffer.add_string out ("F" ^ ids (plane_find !p (r4 (List.map q_of_string rest))) ^ " ")
      | ["I"] -> Buffer.add_string out ("I" ^ ids (plane_iter !p) ^ " ")
      | ["L"] -> Buffer.add_string out ("L" ^ string_of_int (int_of_nat (plane_len !p)) ^ " ")
      | [] -> ()
      | _ -> failwith "op") ops;
    String.trim (Buffer.contents out)
  | [] -> failwith "plane"

let () = iter_lines (fun line ->
  let res = try
      (match line.[0] with
       | 'M' -> matrix_case (split_ws (String.sub line 1 (String.length line - 1)))
       | 'P' -> plane_case (String.sub line 1 (String.length line - 1))
       | _ -> "ERR unknown")
    with e -> "ERR " ^ Printexc.to_string e in
  print_string res; print_newline ())
