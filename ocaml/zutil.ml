(* Shared conversion helpers between the line protocol and the extracted
   inductive numbers (positive / z / nat / q).  Textually appended after the
   extracted module, before the per-property driver.  Numbers travel in
   hexadecimal so that no bignum arithmetic is needed here. *)
let hexval c = match c with
  | '0'..'9' -> Char.code c - 48 | 'a'..'f' -> Char.code c - 87 | 'A'..'F' -> Char.code c - 55
  | _ -> failwith "hex"

(* bits most-significant first *)
let bits_of_hex (s : string) : bool list =
  let l = ref [] in
  String.iter (fun c -> let v = hexval c in
    l := ((v land 1) <> 0) :: ((v land 2) <> 0) :: ((v land 4) <> 0) :: ((v land 8) <> 0) :: !l) s;
  let rec strip = function false :: r -> strip r | x -> x in
  strip (List.rev !l)

let pos_of_bits_msb (bits : bool list) : positive =
  match bits with
  | [] -> failwith "pos_of_bits: zero"
  | _ :: rest -> List.fold_left (fun p b -> if b then XI p else XO p) XH rest

let z_of_hex (s : string) : z =
  let neg, body = if String.length s > 0 && s.[0] = '-' then true, String.sub s 1 (String.length s - 1) else false, s in
  match bits_of_hex body with
  | [] -> Z0
  | bits -> let p = pos_of_bits_msb bits in if neg then Zneg p else Zpos p

let hex_of_pos (p : positive) : string =
  let rec bits p acc = match p with XH -> true :: acc | XO q -> bits q (false :: acc) | XI q -> bits q (true :: acc) in
  (* bits returns msb first *)
  let bl = bits p [] in
  let n = List.length bl in
  let pad = (4 - n mod 4) mod 4 in
  let bl = (List.init pad (fun _ -> false)) @ bl in
  let buf = Buffer.create 16 in
  let rec go = function
    | a :: b :: c :: d :: r ->
      let v = (if a then 8 else 0) + (if b then 4 else 0) + (if c then 2 else 0) + (if d then 1 else 0) in
      Buffer.add_char buf "0123456789abcdef".[v]; go r
    | [] -> ()
    | _ -> failwith "hex_of_pos" in
  go bl; Buffer.contents buf

let hex_of_z (x : z) : string = match x with
  | Z0 -> "0" | Zpos p -> hex_of_pos p | Zneg p -> "-" ^ hex_of_pos p

let z_of_int (i : int) : z = z_of_hex (if i < 0 then Printf.sprintf "-%x" (-i) else Printf.sprintf "%x" i)
let int_of_z (x : z) : int = let s = hex_of_z x in
  if s.[0] = '-' then - (int_of_string ("0x" ^ String.sub s 1 (String.length s - 1))) else int_of_string ("0x" ^ s)

let rec nat_of_int (i : int) : nat = if i <= 0 then O else S (nat_of_int (i - 1))
let int_of_nat (n : nat) : int = let rec go n acc = match n with O -> acc | S m -> go m (acc + 1) in go n 0

(* bytes: hex string <-> list of z in 0..255 *)
let zbytes_of_hex (s : string) : z list =
  let n = String.length s / 2 in
  List.init n (fun i -> z_of_int (hexval s.[2*i] * 16 + hexval s.[2*i+1]))
let hex_of_zbytes (l : z list) : string =
  let buf = Buffer.create 64 in
  List.iter (fun b -> Buffer.add_string buf (Printf.sprintf "%02x" (int_of_z b))) l;
  if Buffer.length buf = 0 then "-" else Buffer.contents buf
let hex_arg (s : string) : string = if s = "-" then "" else s

let split_ws (s : string) : string list =
  List.filter (fun x -> x <> "") (String.split_on_char ' ' s)

let iter_lines (f : string -> unit) : unit =
  (try while true do f (input_line stdin) done with End_of_file -> ()); flush stdout
