From Coq Require Extraction ExtrOcamlBasic.
From Coq Require Import ZArith QArith List.
From PdfV Require Import Base.Num Gen.Geom Model.Plane.
Extraction Language OCaml.
Set Extraction KeepSingleton.

Definition q_mult_matrix := @mult_matrix Q QOps.
Definition q_translate_matrix := @translate_matrix Q QOps.
Definition q_apply_matrix_pt := @apply_matrix_pt Q QOps.
Definition q_apply_matrix_rect := @apply_matrix_rect Q QOps.
Definition q_apply_matrix_norm := @apply_matrix_norm Q QOps.
Definition q_mkPlaneB := @mkPlaneB Q.

Extraction "extracted/c20.ml" q_mult_matrix q_translate_matrix q_apply_matrix_pt q_apply_matrix_rect
  q_apply_matrix_norm q_mkPlaneB plane_init plane_add plane_remove plane_find plane_iter plane_len mkObj.
