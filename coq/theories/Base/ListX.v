(* List lemmas missing from the 8.16 standard library *)
From Coq Require Import List.
Import ListNotations.

Lemma NoDup_app_l {A} (a b : list A) : NoDup (a ++ b) -> NoDup a.
Proof.
  induction a as [|x a IH]; cbn; intros H; [constructor|].
  inversion H; subst. constructor; [|apply IH; assumption].
  intros Hin. apply H2. apply in_or_app. left. exact Hin.
Qed.

Lemma NoDup_app_r {A} (a b : list A) : NoDup (a ++ b) -> NoDup b.
Proof. induction a as [|x a IH]; cbn; intros H; [exact H|]. inversion H; subst. apply IH. assumption. Qed.

Lemma NoDup_app_disj {A} (a b : list A) x : NoDup (a ++ b) -> In x a -> In x b -> False.
Proof.
  induction a as [|y a IH]; cbn; intros H Ha Hb; [contradiction|].
  inversion H; subst. destruct Ha as [E|Ha].
  - subst. apply H2. apply in_or_app. right. exact Hb.
  - apply IH; assumption.
Qed.

Lemma NoDup_app_intro {A} (a b : list A) :
  NoDup a -> NoDup b -> (forall x, In x a -> In x b -> False) -> NoDup (a ++ b).
Proof.
  induction a as [|x a IH]; cbn; intros Ha Hb Hd; [exact Hb|].
  inversion Ha; subst. constructor.
  - intros Hin. apply in_app_or in Hin. destruct Hin as [Hin|Hin]; [contradiction|].
    apply (Hd x); [left; reflexivity|exact Hin].
  - apply IH; [assumption|assumption|]. intros y Hy1 Hy2. apply (Hd y); [right; exact Hy1|exact Hy2].
Qed.

Lemma firstn_add_skipn {A} (a b : nat) (l : list A) : firstn (a + b) l = firstn a l ++ firstn b (skipn a l).
Proof.
  revert l. induction a as [|a IH]; intros l; [reflexivity|].
  destruct l as [|x r]; [cbn; destruct b; reflexivity|]. cbn. f_equal. apply IH.
Qed.

Lemma skipn_add {A} (a b : nat) (l : list A) : skipn a (skipn b l) = skipn (b + a) l.
Proof.
  revert l. induction b as [|b IH]; intros l; [reflexivity|].
  destruct l as [|x r]; [cbn; destruct a; reflexivity|]. cbn. apply IH.
Qed.
