(* Number-type abstraction used by every translator-generated definition.
   The generated text is parametric in a [NumOps R]; it is instantiated at Q
   (execution, lra proofs), at Z (lia proofs) and at an abstract commutative
   ring (ring proofs of the algebraic laws). *)
From Coq Require Import ZArith QArith Qround Bool.

Record NumOps (R : Type) := mkNumOps {
  nadd : R -> R -> R;
  nsub : R -> R -> R;
  nmul : R -> R -> R;
  ndiv : R -> R -> R;
  nopp : R -> R;
  nle : R -> R -> bool;
  nlt : R -> R -> bool;
  neqb : R -> R -> bool;
  nofZ : Z -> R;
  ntrunc : R -> Z;   (* Python int(): truncation toward zero *)
  nfloor : R -> Z    (* math.floor *)
}.
Arguments nadd {R} _ _ _. Arguments nsub {R} _ _ _. Arguments nmul {R} _ _ _.
Arguments ndiv {R} _ _ _. Arguments nopp {R} _ _. Arguments nle {R} _ _ _.
Arguments nlt {R} _ _ _. Arguments neqb {R} _ _ _. Arguments nofZ {R} _ _.
Arguments ntrunc {R} _ _. Arguments nfloor {R} _ _.

(* Python's min/max on two arguments: min(a,b) = b if b < a else a;
   max(a,b) = b if b > a else a.  n-ary calls are folded left to right. *)
Definition nmin {R} (o : NumOps R) (a b : R) : R := if nlt o b a then b else a.
Definition nmax {R} (o : NumOps R) (a b : R) : R := if nlt o a b then b else a.
Definition nabs {R} (o : NumOps R) (a : R) : R := if nlt o a (nofZ o 0%Z) then nopp o a else a.

Definition Qltb (a b : Q) : bool := negb (Qle_bool b a).
Definition Qtrunc (q : Q) : Z := Z.quot (Qnum q) (Zpos (Qden q)).

Definition QOps : NumOps Q :=
  mkNumOps Q Qplus Qminus Qmult Qdiv Qopp Qle_bool Qltb Qeq_bool inject_Z Qtrunc Qfloor.

Definition ZOps : NumOps Z :=
  mkNumOps Z Z.add Z.sub Z.mul Z.div Z.opp Z.leb Z.ltb Z.eqb (fun z => z) (fun z => z) (fun z => z).

Lemma Qltb_lt a b : Qltb a b = true <-> (a < b)%Q.
Proof.
  unfold Qltb. rewrite negb_true_iff. split; intro H.
  - apply Qnot_le_lt. intro Hle. apply Qle_bool_iff in Hle. congruence.
  - destruct (Qle_bool b a) eqn:E; auto. apply Qle_bool_iff in E.
    exfalso. apply (Qlt_not_le _ _ H E).
Qed.

Lemma Qltb_ge a b : Qltb a b = false <-> (b <= a)%Q.
Proof.
  unfold Qltb. rewrite negb_false_iff. apply Qle_bool_iff.
Qed.

Lemma Qleb_le a b : Qle_bool a b = true <-> (a <= b)%Q.
Proof. apply Qle_bool_iff. Qed.

Lemma Qleb_gt a b : Qle_bool a b = false <-> (b < a)%Q.
Proof.
  split; intro H.
  - apply Qnot_le_lt. intro Hle. apply Qle_bool_iff in Hle. congruence.
  - destruct (Qle_bool a b) eqn:E; auto. apply Qle_bool_iff in E.
    exfalso. apply (Qlt_not_le _ _ H E).
Qed.

(* Case analysis helper: destruct a boolean comparison over Q and turn the
   equation into the Prop inequality, ready for lra. *)
Ltac qcmp_destruct :=
  match goal with
  | |- context [Qltb ?a ?b] =>
      let E := fresh "E" in destruct (Qltb a b) eqn:E;
      [apply Qltb_lt in E | apply Qltb_ge in E]
  | |- context [Qle_bool ?a ?b] =>
      let E := fresh "E" in destruct (Qle_bool a b) eqn:E;
      [apply Qleb_le in E | apply Qleb_gt in E]
  end.
