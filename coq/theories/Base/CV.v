(* Canonical values: the common currency of the model/implementation
   correspondence.  The harness prints the implementation's observable result
   as a [cv] literal; the comparison with the model's result is evaluated by
   vm_compute inside Coq ([mismatches]); [show] renders the model's value for
   the replay file when they differ. *)
From Coq Require Import ZArith List String Ascii Bool.
Import ListNotations.
Open Scope Z_scope.

Inductive cv := CZ (z : Z) | CB (b : list Z) | CL (l : list cv).

Fixpoint zs_eqb (a b : list Z) : bool :=
  match a, b with
  | [], [] => true
  | x :: a', y :: b' => Z.eqb x y && zs_eqb a' b'
  | _, _ => false
  end.

Fixpoint cv_eqb (a b : cv) {struct a} : bool :=
  match a, b with
  | CZ x, CZ y => Z.eqb x y
  | CB x, CB y => zs_eqb x y
  | CL x, CL y =>
      (fix go (x y : list cv) : bool :=
         match x, y with
         | [], [] => true
         | u :: x', v :: y' => cv_eqb u v && go x' y'
         | _, _ => false
         end) x y
  | _, _ => false
  end.

(* hex text -> bytes; characters that are not hex digits are skipped *)
Definition nib (c : ascii) : option Z :=
  let n := Z.of_N (N_of_ascii c) in
  if (48 <=? n) && (n <=? 57) then Some (n - 48)
  else if (97 <=? n) && (n <=? 102) then Some (n - 87)
  else if (65 <=? n) && (n <=? 70) then Some (n - 55)
  else None.

Fixpoint hx_go (s : string) (hi : option Z) : list Z :=
  match s with
  | EmptyString => []
  | String c r =>
      match nib c with
      | None => hx_go r hi
      | Some v => match hi with
                  | None => hx_go r (Some v)
                  | Some h => (16 * h + v) :: hx_go r None
                  end
      end
  end.
Definition hx (s : string) : list Z := hx_go s None.

(* rendering *)
Definition hexdigit (v : Z) : ascii :=
  ascii_of_N (Z.to_N (if v <? 10 then 48 + v else 87 + v)).

Fixpoint show_bytes (l : list Z) : string :=
  match l with
  | [] => EmptyString
  | b :: r => String (hexdigit (b / 16)) (String (hexdigit (b mod 16)) (show_bytes r))
  end.

Fixpoint show_pos_go (fuel : nat) (n : Z) (acc : string) : string :=
  match fuel with
  | O => acc
  | S f => let acc' := String (hexdigit (n mod 10)) acc in
           if n / 10 =? 0 then acc' else show_pos_go f (n / 10) acc'
  end.
Definition show_Z (z : Z) : string :=
  if z <? 0 then String "-"%char (show_pos_go (S (Z.to_nat (Z.log2 (- z)))) (- z) EmptyString)
  else show_pos_go (S (Z.to_nat (Z.log2 z))) z EmptyString.

Fixpoint show (v : cv) : string :=
  match v with
  | CZ z => show_Z z
  | CB b => String "x"%char (show_bytes b)
  | CL l => String "["%char
              ((fix go (l : list cv) : string :=
                  match l with
                  | [] => "]"%string
                  | [a] => (show a ++ "]")%string
                  | a :: r => (show a ++ "," ++ go r)%string
                  end) l)
  end.

Definition cvb (b : bool) : cv := CZ (if b then 1 else 0).
Definition cvo {A} (f : A -> cv) (o : option A) : cv :=
  match o with None => CL [] | Some a => CL [f a] end.
Definition cvn (n : nat) : cv := CZ (Z.of_nat n).

(* indices of the cases on which model and implementation differ *)
Fixpoint mismatches_go {A} (f : A -> cv) (cs : list (A * cv)) (i : nat) : list nat :=
  match cs with
  | [] => []
  | (a, want) :: r =>
      if cv_eqb (f a) want then mismatches_go f r (S i) else i :: mismatches_go f r (S i)
  end.
Definition mismatches {A} (f : A -> cv) (cs : list (A * cv)) : list nat := mismatches_go f cs O.

Definition show_at {A} (f : A -> cv) (cs : list (A * cv)) (i : nat) : string :=
  match nth_error cs i with Some (a, _) => show (f a) | None => "?"%string end.
