(* C15 -- Filesystem confinement: documents cannot steer file access outside allowed directories.
   Property theorems only.  Model/Paths.v mirrors cmapdb.CMapDB._load_data and
   image.ImageWriter._create_unique_image_name over a model of POSIX os.path.join / basename and of path resolution.
   That no OTHER code path opens files is not a theorem: the harness observes the interpreter's audit events. *)
From Coq Require Import ZArith List Bool.
From PdfV Require Import Model.Paths Proofs.PathProofs2.
Import ListNotations.
Open Scope Z_scope.

(* a plain file name joined to a directory resolves to a direct child of that directory *)
Theorem C15_join_child : forall d f, no_slash f -> f <> [] -> f <> DOT -> f <> DOTDOT -> d <> [] ->
  normpath (join d f) = normpath d ++ [f].
Proof. exact join_child. Qed.

(* every path the CMap loader may open for ANY document-supplied name (encoding name, usecmap operand,
   registry-ordering) is a direct child of one of the resource directories; other names are refused *)
Theorem C15_cmap_confined : forall dirs name p, Forall (fun d => d <> []) dirs -> In p (cmap_paths dirs name) ->
  exists d, In d dirs /\ normpath p = normpath d ++ [remove_nul name ++ s_pickle_gz].
Proof. exact cmap_confined. Qed.

(* every exported image is created as a direct child of the output directory, whatever its resource name *)
Theorem C15_image_confined : forall outdir name ext, outdir <> [] -> no_slash ext -> (3 <= length ext)%nat ->
  normpath (image_path outdir name ext) = normpath outdir ++ [sanitize name ++ ext].
Proof. exact image_confined. Qed.

Print Assumptions C15_join_child.
Print Assumptions C15_cmap_confined.
Print Assumptions C15_image_confined.

(* non-vacuity: a hostile name is refused by the CMap loader and neutralised by the image writer *)
Example C15_ex :
  cmap_paths [[47; 117]] [46; 46; 47; 120] = [] /\
  cmap_paths [[47; 117]] [72] = [[47; 117; 47; 72] ++ s_pickle_gz] /\
  normpath (image_path [47; 111] [46; 46; 47; 46; 46; 47; 120] [46; 98; 109; 112]) = [[111]; [46; 46; 95; 46; 46; 95; 120; 46; 98; 109; 112]].
Proof. vm_compute. repeat split. Qed.
