(* C18 -- Images: exported files and inline image data reproduce the samples exactly.
   Property theorems only.  Model/Images.v mirrors image.BMPWriter / ImageWriter (format choice, _save_bmp, unique
   names) and pdfinterp.PDFContentParser.get_inline_data; [bmp_read] is a plain BMP decoder written from the format
   description, standing for "a standard reader".  JPEG data is written through unchanged (checked byte for byte by
   the harness); lossless filter chains are C03's. *)
From Coq Require Import ZArith List Bool.
From PdfV Require Import Model.Images Proofs.ImageProofs.
Import ListNotations.
Open Scope Z_scope.

(* the exported BMP decodes to the stored geometry and, row by row, exactly the stored sample bytes:
   8-bit gray, 8-bit RGB (24 bits per pixel) and 1-bit images of every width and height below 32768 *)
Theorem C18_bmp_roundtrip : forall bits width height data,
  (bits = 1 \/ bits = 8 \/ bits = 24) -> 0 < width < 32768 -> 0 <= height < 32768 ->
  let bpl := (width * bits + 7) / 8 in
  length data = Z.to_nat (bpl * height) ->
  exists f, bmp_file bits width height bpl data = Some f /\
            bmp_read f = Some (mkImage width height bits (row_slices data bpl height)).
Proof. exact bmp_roundtrip. Qed.

Theorem C18_row_roundtrip : forall bits width d,
  (bits = 1 \/ bits = 8 \/ bits = 24) -> 0 <= width ->
  length d = Z.to_nat ((width * bits + 7) / 8) ->
  let stored := bmp_row bits width d in
  length stored = Z.to_nat (linesize bits width) /\
  (let e := firstn (Z.to_nat ((width * bits + 7) / 8)) stored in if bits =? 24 then swap_rgb e else e) = d.
Proof. exact row_roundtrip. Qed.

(* names: an existing file is never chosen, and successive exports get distinct names *)
Theorem C18_name_fresh : forall existing base ext n, unique_name existing base ext = Some n -> exists_in existing n = false.
Proof. exact unique_name_fresh. Qed.
Theorem C18_names_distinct : forall existing base ext base2 ext2 n1 n2,
  unique_name existing base ext = Some n1 -> unique_name (n1 :: existing) base2 ext2 = Some n2 -> n1 <> n2.
Proof. exact successive_names_differ. Qed.

(* inline images: data in which "EI"+white space does not occur (counting the end-of-line that precedes EI) is
   captured up to the removal of one end-of-line sequence, and the scan resumes right after the terminator *)
Theorem C18_inline_capture : forall data ws rest, is_space ws = true -> has_marker (data ++ [10]) = false ->
  inline_data (data ++ [10] ++ [69; 73; ws] ++ rest) = (strip_eol (data ++ [10]), rest).
Proof. exact inline_capture. Qed.
Theorem C18_inline_exact : forall data ws rest, is_space ws = true -> has_marker (data ++ [10]) = false ->
  (forall d, data <> d ++ [13]) ->
  inline_data (data ++ [10] ++ [69; 73; ws] ++ rest) = (data, rest).
Proof. exact inline_exact. Qed.
(* FULL STATEMENT: the same for every data.  It is FALSE of the code when the data ends in CR: *)
Theorem C18_inline_cr_refuted : exists data rest,
  has_marker (data ++ [10]) = false /\ inline_data (data ++ [10] ++ [69; 73; 32] ++ rest) <> (data, rest).
Proof. exists [1; 13], [81]. split; [reflexivity|]. vm_compute. discriminate. Qed.

Print Assumptions C18_bmp_roundtrip.
Print Assumptions C18_row_roundtrip.
Print Assumptions C18_name_fresh.
Print Assumptions C18_names_distinct.
Print Assumptions C18_inline_capture.
Print Assumptions C18_inline_exact.
Print Assumptions C18_inline_cr_refuted.

(* non-vacuity: a 3x2 RGB image *)
Example C18_ex :
  match bmp_file 24 3 2 9 (map Z.of_nat (seq 1 18)) with
  | Some f => bmp_read f = Some (mkImage 3 2 24 [[1;2;3;4;5;6;7;8;9]; [10;11;12;13;14;15;16;17;18]]) /\ length f = 78%nat
  | None => False
  end.
Proof. vm_compute. split; reflexivity. Qed.
