(* C16 -- Painted paths become shapes with the right points, class and graphics state.
   Property theorems only (Model/Interp.v: path, paint and colour operators; Model/PathPaint.v:
   PDFLayoutAnalyzer.paint_path and the LTLine / LTRect / LTCurve constructors).
   q/Q restoring the graphics state is C05_qQ_restores (same model).  Known finding C16-csreset:
   cs/CS keep the previous colour (the model mirrors that; the harness oracle applies ISO). *)
From Coq Require Import ZArith QArith List Bool.
From PdfV Require Import Base.Num Base.CV Gen.Geom Model.Interp Model.PathPaint Model.InterpRun
  Proofs.InterpProofs Proofs.PathProofs.
Import ListNotations.

(* paths ended -- painted or not -- leave no residue for the next path *)
Theorem C16_no_residue : forall res run_form k s, path_ender k = true ->
  curpath (apply_op res run_form k [] s) = [].
Proof. exact no_residue. Qed.

(* a path of k subpaths with at least one segment each: exactly k shapes, subpath by subpath *)
Theorem C16_one_shape_per_subpath : forall g st fi eo c subs, Forall subpath_ok subs -> subs <> [] ->
  paint_path g st fi eo c (concat subs) = flat_map (paint_single g st fi eo c) subs /\
  length (paint_path g st fi eo c (concat subs)) = length subs.
Proof. exact one_shape_per_subpath. Qed.

(* every shape carries the paint flags and the graphics state handed to paint_path ... *)
Theorem C16_state : forall g st fi eo c path,
  Forall (fun sh => sstroke sh = st /\ sfill sh = fi /\ sevenodd sh = eo /\ slinewidth sh = glinewidth g /\
                    sdash sh = gdash g /\ sscolor sh = gscolor g /\ sncolor sh = gncolor g)
         (paint_path g st fi eo c path).
Proof. exact shapes_state. Qed.

(* ... which is the state in force at the painting operator, with the device matrix of that moment *)
Theorem C16_paint_event : forall res run_form s,
  out (apply_op res run_form KB [] s) = EPath (gs s) true true false (curpath s) (devctm s) :: out s /\
  out (apply_op res run_form Kfstar [] s) = EPath (gs s) false true true (curpath s) (devctm s) :: out s /\
  out (apply_op res run_form Ks [] s) = EPath (gs s) true false false (close_path (curpath s)) (devctm s) :: out s /\
  out (apply_op res run_form Kn [] s) = out s.
Proof. exact paint_event. Qed.

(* closing a subpath that is already closed (h after h or re; s, b, b* after them) adds nothing *)
Theorem C16_close_idempotent : forall p, close_path (close_path p) = close_path p.
Proof. exact close_path_idem. Qed.
Theorem C16_close_closed : forall p, ends_closed p = true -> close_path p = p.
Proof. exact close_path_closed. Qed.

(* one straight segment under any matrix: a line between the transformed end points *)
Theorem C16_line : forall g st fi eo c x0 y0 x1 y1 (close : bool),
  let path := [SegM x0 y0; SegL x1 y1] ++ (if close then [SegH] else []) in
  exists sh, paint_path g st fi eo c path = [sh] /\ skind_ sh = KLine /\
             spts sh = [mpt c (x0, y0); mpt c (x1, y1)].
Proof. intros. apply line_class. Qed.

(* x y w h re under an axis-preserving matrix, not degenerate in height: one rectangle *)
Theorem C16_rectangle : forall g st fi eo a d e f x y w h, ~ (d * h == 0)%Q ->
  let c : M6 := (a, 0, 0, d, e, f)%Q in
  let path := [SegM x y; SegL (x + w) y; SegL (x + w) (y + h); SegL x (y + h); SegH]%Q in
  exists sh, paint_path g st fi eo c path = [sh] /\ skind_ sh = KRect /\
             spts sh = [(fst (mpt c (x, y)), snd (mpt c (x, y))); (fst (mpt c (x + w, y + h)), snd (mpt c (x, y)));
                        (fst (mpt c (x + w, y + h)), snd (mpt c (x + w, y + h))); (fst (mpt c (x, y)), snd (mpt c (x + w, y + h)))]%Q.
Proof. exact re_is_rect_axis. Qed.

Open Scope Z_scope.
(* non-vacuity: two subpaths (an open triangle and a rectangle via re) under a scaling matrix, painted with b*:
   the closing h concerns the last subpath only, and that one is already closed (re): it stays a rectangle *)
Example C16_nonvacuous :
  let prog := [IOpnd (ONum 2); IOpnd (ONum 0); IOpnd (ONum 0); IOpnd (ONum 3); IOpnd (ONum 5); IOpnd (ONum 7); IOp Kcm;
               IOpnd (ONum (1#2)); IOp Kw; IOpnd (ONum 1); IOpnd (ONum 0); IOpnd (ONum 0); IOp KRG;
               IOpnd (ONum 0); IOpnd (ONum 0); IOp Km; IOpnd (ONum 10); IOpnd (ONum 0); IOp Kl;
               IOpnd (ONum 10); IOpnd (ONum 10); IOp Kl;
               IOpnd (ONum 20); IOpnd (ONum 20); IOpnd (ONum 5); IOpnd (ONum 4); IOp Kre; IOp Kbstar] in
  map (fun sh => (match skind_ sh with KLine => 0 | KRect => 1 | KCurve => 2 end, length (spts sh), sstroke sh, sevenodd sh))
      (flat_map shapes_of_event (run_page 2 ident (Res [] [] []) prog))
  = [(2, 3%nat, true, true); (1, 4%nat, true, true)].
Proof. vm_compute. reflexivity. Qed.

Print Assumptions C16_no_residue.
Print Assumptions C16_one_shape_per_subpath.
Print Assumptions C16_state.
Print Assumptions C16_paint_event.
Print Assumptions C16_line.
Print Assumptions C16_rectangle.
Print Assumptions C16_nonvacuous.

Print Assumptions C16_close_idempotent.
Print Assumptions C16_close_closed.
