(* C14 -- Tokenizer is total, makes progress and is buffer-size independent on
   all bytes.  Property theorems only.  [tokenize b pos data] is the model of
   PSBaseParser reading [data] through buffers of b bytes (one function per
   _parse_* method, the nexttoken loop with explicit fuel 3n+3 per buffer, the
   EOF flush); its result type has no error outcome other than running out of
   fuel (None).  [lex] is the buffer-free byte automaton. *)
From Coq Require Import ZArith List Bool String.
From PdfV Require Import Base.CV Gen.LexClasses Model.Lexer Model.LexerRun Proofs.LexerProofs Proofs.LexerInv.
Import ListNotations.
Open Scope Z_scope.
Open Scope string_scope.

(* terminates within the fuel for every byte string and every buffer size, and the
   tokens are those of the buffer-free automaton *)
Theorem C14_total : forall (b : nat) (pos : Z) (data : list Z), (0 < b)%nat ->
  tokenize b pos data = Some (lex pos data).
Proof. exact tokenize_lex. Qed.

Theorem C14_bufsize_independent : forall (b1 b2 : nat) (pos : Z) (data : list Z),
  (0 < b1)%nat -> (0 < b2)%nat -> tokenize b1 pos data = tokenize b2 pos data.
Proof. exact tokenize_bufsize_independent. Qed.

(* positions are non-decreasing and lie inside the input *)
Theorem C14_positions : forall (pos : Z) (data : list Z),
  sorted_asc (map fst (lex pos data)) /\
  forall pt, In pt (lex pos data) -> pos <= fst pt < pos + len data.
Proof. exact lex_positions. Qed.

(* the absolute offset only shifts the reported positions *)
Theorem C14_offset : forall (pos : Z) (data : list Z),
  lex pos data = map (shiftp pos) (lex 0 data).
Proof. exact lex_offset. Qed.

(* non-vacuity: one input with every token kind, an escape-laden string split by
   every small buffer size *)
Example C14_nonvacuous :
  let data := hx "2f41233432202d31322e35202b37203c3c3e3e5b747275655d28615c0d0a625c3737375c28293c3430313e25250a6e756c6c" in
  forallb (fun b => cv_eqb (run_tokenize (b, data)) (run_lex data)) [1; 2; 3; 4; 5; 7; 4096]%nat = true
  /\ run_lex data = (CL [(CL [(CZ 0); (CL [(CZ 4); (CB (hx "4142"))])]); (CL [(CZ 6); (CL [(CZ 1); (CB (hx "2d31322e35"))])]); (CL [(CZ 12); (CL [(CZ 0); (CZ 7)])]); (CL [(CZ 15); (CL [(CZ 3); (CB (hx "3c3c"))])]); (CL [(CZ 17); (CL [(CZ 3); (CB (hx "3e3e"))])]); (CL [(CZ 19); (CL [(CZ 3); (CB (hx "5b"))])]); (CL [(CZ 20); (CL [(CZ 2); (CZ 1)])]); (CL [(CZ 24); (CL [(CZ 3); (CB (hx "5d"))])]); (CL [(CZ 25); (CL [(CZ 5); (CB (hx "6162ff28"))])]); (CL [(CZ 38); (CL [(CZ 5); (CB (hx "4001"))])]); (CL [(CZ 46); (CL [(CZ 3); (CB (hx "6e756c6c"))])])]).
Proof. split; vm_compute; reflexivity. Qed.

Print Assumptions C14_total.
Print Assumptions C14_bufsize_independent.
Print Assumptions C14_positions.
Print Assumptions C14_offset.
Print Assumptions C14_nonvacuous.
