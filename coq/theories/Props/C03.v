(* C03 -- Stream payloads and filter chains decode to exactly the original bytes.
   Property theorems only.  Decoders: Model/Filters.v (mirrors runlength.py, ascii85.py, lzw.py,
   utils.apply_png_predictor / apply_tiff_predictor and the loop of PDFStream.decode;
   paeth_predictor and the filter-name tables are regenerated from source).
   LZW: C03_lzw_codes (code level: the codes of ANY admissible factorisation of the data into phrases -- single bytes
   or dictionary entries, greedy or not, including the entry the decoder has not built yet -- decode to the data) and
   C03_lzw (bit level: a byte string carrying, most significant bit first and in the widths the decoder expects under
   early change, clear-table, those codes, optionally end-of-data, decodes to the data; C03_lzw_segments: any number of
   such segments, each introduced by a clear-table code, as an encoder writes when its table is full).
   NOT PROVED HERE (covered by differential runs only, see evidence): the Flate stage (zlib is an oracle: in C03_chain
   any stage only has to satisfy [stage_inverts]). *)
From Coq Require Import ZArith List Bool.
From PdfV Require Import Base.CV Base.Num Gen.FilterGen Model.Filters Model.FiltersRun
  Proofs.FilterProofs Proofs.A85Proofs Proofs.LZWProofs Proofs.LZWBits.
Import ListNotations.
Open Scope Z_scope.

Theorem C03_runlength : forall runs tail, Forall run_ok runs -> rl_tail tail ->
  rldecode (flat_map run_enc runs ++ tail) = FOk (flat_map run_den runs).
Proof. exact rl_roundtrip. Qed.

Theorem C03_asciihex : forall d t, HexSp d t ->
  asciihexdecode t = FOk d /\ forall junk, asciihexdecode (t ++ 62 :: junk) = FOk d.
Proof. exact ahx_roundtrip. Qed.

Theorem C03_asciihex_odd : forall d t b h1 ws junk,
  HexSp d t -> byte b -> b mod 16 = 0 -> hexdigit_of h1 (b / 16) -> forallb is_ws ws = true ->
  asciihexdecode (t ++ [h1] ++ ws ++ 62 :: junk) = FOk (d ++ [b]).
Proof. exact ahx_odd_final. Qed.

Theorem C03_ascii85 : forall items f body,
  Forall item_ok items -> final_ok f ->
  Inter (flat_map item_digits items ++ final_digits f) body ->
  clean_start body -> clean_end body ->
  ascii85decode (body ++ [126; 62]) = FOk (flat_map item_bytes items ++ final_bytes f) /\
  ascii85decode (60 :: 126 :: body ++ [126; 62]) = FOk (flat_map item_bytes items ++ final_bytes f).
Proof. exact a85_roundtrip. Qed.

Theorem C03_png : forall colors columns rows, 1 <= colors -> 1 <= columns ->
  Forall (row_ok (Z.to_nat (colors * columns))) rows ->
  apply_png_predictor colors columns 8
    (png_encode colors rows (repeat 0 (Z.to_nat (colors * columns))))
  = FOk (List.concat (map snd rows)).
Proof. exact png_roundtrip. Qed.

Theorem C03_tiff : forall colors columns rows, 1 <= colors -> 1 <= columns ->
  Forall (fun raw => length raw = Z.to_nat (columns * colors) /\ Forall byte raw) rows ->
  apply_tiff_predictor colors columns 8 (flat_map (tiff_enc_row colors) rows) = FOk (List.concat rows).
Proof. exact tiff_roundtrip. Qed.

Theorem C03_lzw_codes : forall ws ks, length ks = length ws -> (forall t, (t < length ws)%nat -> phrase ws t <> []) ->
  (forall t, (t < length ws)%nat -> code_ok ws t (nth t ks 0)) ->
  feed_all lzw_init (256 :: ks) = Some (List.concat ws).
Proof. exact lzw_codes_decode. Qed.

Theorem C03_lzw : forall data ws ks (eod : bool), Forall LZWBits.byte data ->
  length ks = length ws -> (forall t, (t < length ws)%nat -> phrase ws t <> []) ->
  (forall t, (t < length ws)%nat -> code_ok ws t (nth t ks 0)) ->
  carries (mkB data 0 8) lzw_init (256 :: ks ++ (if eod then [257] else [])) ->
  lzwdecode data = FOk (List.concat ws).
Proof. exact lzw_stream_decodes. Qed.

Theorem C03_lzw_segments : forall data segs (eod : bool), Forall LZWBits.byte data -> Forall seg_ok segs ->
  carries (mkB data 0 8) lzw_init (flat_map (fun seg => 256 :: snd seg) segs ++ (if eod then [257] else [])) ->
  lzwdecode data = FOk (List.concat (flat_map fst segs)).
Proof. exact lzw_segmented_stream_decodes. Qed.

(* readbits takes the next w bits, most significant first, for every stream position *)
Theorem C03_readbits : forall fuel b w v, wfb b -> 0 <= w <= blen b -> w <= (8 - bpos b) + 8 * (Z.of_nat fuel - 1) -> (1 <= fuel)%nat ->
  exists b', readbits fuel b w v = Some (v * 2 ^ w + top b w, b') /\ wfb b' /\ blen b' = blen b - w /\
             bval b' = bval b mod 2 ^ (blen b - w).
Proof. exact readbits_spec. Qed.

Example C03_lzw_nonvacuous :
  let data := [128; 11; 96; 80; 34; 12; 12; 133; 1] in
  let ws := [[45]; [45; 45]; [45; 45]; [65]; [45; 45; 45]; [66]] in
  let ks := [45; 258; 258; 65; 259; 66] in
  (Forall LZWBits.byte data /\ length ks = length ws /\ (forall t, (t < length ws)%nat -> phrase ws t <> []) /\
   (forall t, (t < length ws)%nat -> code_ok ws t (nth t ks 0)) /\
   carries (mkB data 0 8) lzw_init (256 :: ks ++ [257])) /\
  lzwdecode data = FOk [45; 45; 45; 45; 45; 65; 45; 45; 45; 66].
Proof. exact lzw_iso_example. Qed.

Theorem C03_chain : forall inflate stages encs x,
  Forall2 (stage_inverts inflate) stages encs ->
  decode_chain inflate stages (encode_chain encs x) = FOk x.
Proof. exact chain_roundtrip. Qed.

From Coq Require Import String.
Open Scope string_scope.
(* non-vacuity: concrete encodings (the LZW and ASCII85 vectors of the repository's own tests) *)
Example C03_nonvacuous :
  run_lzw (hx "800b6050220c0c8501") = (CL [(CZ 0); (CB (hx "2d2d2d2d2d412d2d2d42"))]) /\
  run_a85 (hx "396a716f5e426c62442d426c654231444a2b2a2b4628662c717e3e") = (CL [(CZ 0); (CB (hx "4d616e2069732064697374696e67756973686564"))]) /\
  run_rl (hx "05123456789abcfa6302aabbcc80") = (CL [(CZ 0); (CB (hx "123456789abc63636363636363aabbcc"))]) /\
  run_png (3, 2, 8, (hx "000102030405060209090909090904010101010101")) = (CL [(CZ 0); (CB (hx "0102030405060a0b0c0d0e0f0b0c0d0e0f10"))]).
Proof. repeat split; vm_compute; reflexivity. Qed.

Print Assumptions C03_runlength.
Print Assumptions C03_asciihex.
Print Assumptions C03_asciihex_odd.
Print Assumptions C03_ascii85.
Print Assumptions C03_png.
Print Assumptions C03_tiff.
Print Assumptions C03_chain.
Print Assumptions C03_lzw_codes.
Print Assumptions C03_lzw.
Print Assumptions C03_lzw_segments.
Print Assumptions C03_readbits.
Print Assumptions C03_lzw_nonvacuous.
Print Assumptions C03_nonvacuous.
