(* C02 -- Cross-reference resolution: newest definition wins, in every physical form.
   Property theorems only (Model/Xref.v mirrors PDFXRefStream.get_pos / get_objids, PDFXRef.load's
   line handling, the xrefs chain of PDFDocument.getobj with object-stream members, and
   PSBaseParser.nextline / revreadlines with PDFDocument.find_xref).
   The correspondence between sections and the bytes of whole files, caching on/off and the
   fallback scan after a damaged startxref/table are covered by differential runs (evidence). *)
From Coq Require Import ZArith List Bool.
From PdfV Require Import Base.CV Model.Xref Model.XrefRun Proofs.XrefProofs.
Import ListNotations.
Open Scope Z_scope.

(* every read-buffer size: the line the tokenizer-level reader returns is the specified one,
   however the file is cut into buffers *)
Theorem C02_nextline : forall cur rest,
  match spec_nextline (cur ++ concat rest) with
  | None => nextline cur rest = None
  | Some (l, t) => exists cur' rest', nextline cur rest = Some (l, cur', rest') /\ cur' ++ concat rest' = t
  end.
Proof. exact nextline_chunk_independent. Qed.

Theorem C02_revreadlines : forall b data, (0 < b)%nat -> revreadlines b data = rev_spec (rev data) [].
Proof. exact revreadlines_spec. Qed.

Theorem C02_find_xref : forall b1 b2 data, (0 < b1)%nat -> (0 < b2)%nat ->
  find_xref b1 data = find_xref b2 data.
Proof. exact find_xref_bufsize_independent. Qed.

(* cross-reference streams: every W, every /Index partition *)
Theorem C02_stream_fields : forall ranges (w1 w2 w3 : nat) es x,
  Forall (fun sc => 0 <= snd sc) ranges -> Forall (ent_fits w1 w2 w3) es ->
  length es = length (flat_map range_ids ranges) ->
  xs_get_pos (mkXS ranges (Z.of_nat w1) (Z.of_nat w2) (Z.of_nat w3) (flat_map (enc_ent w1 w2 w3) es)) x =
  match find_index x (flat_map range_ids ranges) 0 with
  | None => None
  | Some i => match nth_error es i with
              | Some (t, a, b) =>
                  let t' := fieldval w1 1 t in
                  if t' =? 1 then Some (EDirect (fieldval w2 0 a) (fieldval w3 0 b))
                  else if t' =? 2 then Some (EInStm (fieldval w2 0 a) (fieldval w3 0 b)) else None
              | None => None
              end
  end.
Proof. exact xs_get_pos_spec. Qed.

Theorem C02_objids : forall ranges (w1 w2 w3 : nat) es,
  Forall (fun sc => 0 <= snd sc) ranges -> Forall (ent_fits w1 w2 w3) es -> (0 < w1 + w2 + w3)%nat ->
  length es = length (flat_map range_ids ranges) ->
  xs_get_objids (mkXS ranges (Z.of_nat w1) (Z.of_nat w2) (Z.of_nat w3) (flat_map (enc_ent w1 w2 w3) es)) =
  map fst (filter (fun p => inuse w1 (snd p)) (combine (flat_map range_ids ranges) es)).
Proof. exact xs_get_objids_spec. Qed.

(* classic table entries, three line endings *)
Theorem C02_table_entry : forall pos gen e,
  0 <= pos < 10 ^ 10 -> 0 <= gen < 10 ^ 5 -> ent_eol_ok e ->
  table_entry (pad 10 pos ++ [32] ++ pad 5 gen ++ [32; 110] ++ e) = TOk (Some (pos, gen)) /\
  table_entry (pad 10 pos ++ [32] ++ pad 5 gen ++ [32; 102] ++ e) = TOk None.
Proof. exact table_entry_roundtrip. Qed.

(* newest definition wins: sections are consulted in order (newest first) *)
Theorem C02_newest_wins : forall fuel secs c objid, no_compressed secs objid ->
  getobj (S fuel) secs c objid = match first_valid secs c objid with Some v => GFound v | None => GNotFound end.
Proof. exact getobj_direct. Qed.

Theorem C02_objstm_member : forall fuel s r c objid stm k n objs v,
  sec_get_pos s objid = Some (EInStm stm k) ->
  getobj fuel (s :: r) c stm = GFound (OStm n objs) ->
  0 <= n * 2 + k -> nth_error objs (Z.to_nat (n * 2 + k)) = Some v ->
  getobj (S fuel) (s :: r) c objid = GFound (OPlain v).
Proof. exact getobj_compressed. Qed.

From Coq Require Import String.
Open Scope string_scope.
(* non-vacuity: an update overriding object 4 in an xref stream with two /Index ranges, W = [1 2 1];
   object 7 lives in object stream 9 *)
Example C02_nonvacuous :
  let new := SStream (mkXS [(4, 1); (7, 3)] 1 2 1 (hx "01 0200 00  02 0009 01  00 0000 ff  01 0300 00")) in
  let old := STable [(4, (100, 0)); (5, (150, 0))] in
  let c := content_of [(512, (4, OPlain 44)); (100, (4, OPlain 40)); (150, (5, OPlain 50));
                       (768, (9, OStm 2 [6; 0; 7; 10; 60; 70]))] in
  map (fun n => canon_gres (getobj 5 [new; old] c n)) [4; 5; 7; 8; 9]
  = [CL [CZ 0; CZ 44]; CL [CZ 0; CZ 50]; CL [CZ 0; CZ 70]; CL [CZ 2]; CL [CZ 1; CZ 2]]
  /\ xs_get_objids (mkXS [(4, 1); (7, 3)] 1 2 1 (hx "01 0200 00  02 0009 01  00 0000 ff  01 0300 00")) = [4; 7; 9]
  /\ run_find_xref (3%nat, hx "2525454f460a737461727478726566 0d0a 313233 0d0a 2525454f46 0a") = CL [CZ 123].
Proof. cbv zeta. repeat split; vm_compute; reflexivity. Qed.

Print Assumptions C02_nextline.
Print Assumptions C02_revreadlines.
Print Assumptions C02_find_xref.
Print Assumptions C02_stream_fields.
Print Assumptions C02_objids.
Print Assumptions C02_table_entry.
Print Assumptions C02_newest_wins.
Print Assumptions C02_objstm_member.
Print Assumptions C02_nonvacuous.
