From PdfV Require Import Model.Xref.
