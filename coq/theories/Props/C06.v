(* C06 -- Simple fonts: code -> Unicode / width follow encoding, glyph names, ToUnicode.
   Property theorems only.  Model/Fonts.v mirrors encodingdb.name2unicode / EncodingDB and
   pdffont.PDFSimpleFont / PDFType1Font / PDFType3Font / PDFFont.char_width; the glyph list, the four base
   encodings' rows and the standard-14 widths are regenerated from the source on every run (Gen/FontTables.v). *)
From Coq Require Import ZArith QArith List Bool.
From PdfV Require Import Gen.FontTables Model.Fonts Proofs.FontProofs.
Import ListNotations.
Open Scope Z_scope.

(* ---- the Adobe Glyph List algorithm, component level ------------------------------------------------------ *)
Theorem C06_listed : forall name v, assoc name GLYPHLIST = Some v -> n2u_component name = Some v.
Proof. exact listed_names. Qed.

(* "uni" + k >= 1 groups of four hexadecimal digits: the k code points; no value when one is a surrogate *)
Theorem C06_uni : forall gs, gs <> [] -> Forall (fun g => length g = 4%nat /\ forallb is_hex g = true) gs ->
  n2u_component (s_uni ++ concat gs) = if existsb bad_unicode (map hexnum gs) then None else Some (map hexnum gs).
Proof. exact uni_names. Qed.

(* "u" + 4..6 hexadecimal digits: that code point; no value for surrogates and above 10FFFF *)
Theorem C06_u : forall d, forallb is_hex d = true -> (4 <= length d <= 6)%nat ->
  n2u_component (117 :: d) = if bad_unicode (hexnum d) then None else Some [hexnum d].
Proof. exact u_names. Qed.

(* nothing else has a value: wrong digit counts, non-hexadecimal characters, repeated prefixes, ... *)
Theorem C06_otherwise : forall name, assoc name GLYPHLIST = None -> uni_form name = false -> u_form name = false ->
  n2u_component name = None.
Proof. exact other_names. Qed.

(* the numeral: most significant digit first, value in [0, 16^n) *)
Theorem C06_hex_value : forall a b c d, hexnum [a; b; c; d] = 4096 * hexval a + 256 * hexval b + 16 * hexval c + hexval d.
Proof. exact hexnum_4. Qed.
Theorem C06_hex_range : forall s, forallb is_hex s = true -> 0 <= hexnum s < 16 ^ Z.of_nat (length s).
Proof. exact hexnum_range. Qed.

(* ---- whole names: dot suffixes dropped, underscore-joined components ------------------------------------------ *)
Theorem C06_suffix_dropped : forall comp s, free_of 46 comp = true -> free_of 95 comp = true -> dot_suffix s ->
  name2unicode (comp ++ s) = n2u_component comp.
Proof. exact single_component. Qed.

Theorem C06_components : forall comps s, (2 <= length comps)%nat ->
  Forall (fun c => free_of 46 c = true) comps -> Forall (fun c => free_of 95 c = true) comps -> dot_suffix s ->
  name2unicode (join 95 comps ++ s) = concat_opt (map n2u_component comps).
Proof. exact compound_name. Qed.

(* ---- which text a code gets: ToUnicode, else the encoding, else the placeholder ------------------------------ *)
Theorem C06_tounicode_wins : forall f m code s, ftounicode f = Some m -> zassoc code m = Some s -> to_unichr f code = Some s.
Proof. exact tounicode_wins. Qed.
Theorem C06_tounicode_miss : forall f m code, ftounicode f = Some m -> zassoc code m = None -> to_unichr f code = cid2unicode f code.
Proof. exact tounicode_miss. Qed.
Theorem C06_no_tounicode : forall f code, ftounicode f = None -> to_unichr f code = cid2unicode f code.
Proof. exact no_tounicode. Qed.
Theorem C06_placeholder : forall f code, to_unichr f code = None ->
  char_text f code = [40; 99; 105; 100; 58] ++ decimal code ++ [41].
Proof. exact placeholder. Qed.
Theorem C06_encoding_source : forall f code,
  cid2unicode f code =
    match fenc f with
    | Some (nm, diff) => get_encoding nm diff code
    | None => match fkind_ f, fbuiltin f with
              | KType1, Some items => builtin_get items code None
              | _, _ => enc_base EStd code
              end
    end.
Proof. exact encoding_source. Qed.

(* ---- Differences: ISO 32000-1 Table 114 ---------------------------------------------------------------------------- *)
Theorem C06_differences : forall nm diff code,
  get_encoding nm diff code =
    match last_assigned code (assignments diff 0) None with
    | Some n => name2unicode_obj n
    | None => enc_base (sel_of_name nm) code
    end.
Proof. exact get_encoding_spec. Qed.
Theorem C06_differences_run : forall k c names,
  assignments (DInt c :: map DName names) k = combine (map (fun i => c + Z.of_nat i) (seq 0 (length names))) names.
Proof. exact differences_run. Qed.

(* ---- advances ------------------------------------------------------------------------------------------------------- *)
Theorem C06_width_widths : forall f l code w, fwidths f = Some l -> 0 <= code - ffirst f ->
  nth_error l (Z.to_nat (code - ffirst f)) = Some (WNum w) -> char_width f code = (w * hscale f)%Q.
Proof. exact width_from_widths. Qed.
Theorem C06_width_missing : forall f l code, fwidths f = Some l ->
  (code - ffirst f < 0 \/ nth_error l (Z.to_nat (code - ffirst f)) = None \/ nth_error l (Z.to_nat (code - ffirst f)) = Some WBad) ->
  char_width f code = (match fdescriptor f with Some (mw, _) => mw | None => 0%Q end * hscale f)%Q.
Proof. exact width_missing. Qed.
Theorem C06_width_std14 : forall f n m code, fkind_ f = KType1 -> basefont f = Some n ->
  assoc (match assoc n FONT_ALIASES with Some t => t | None => n end) FONT_METRICS = Some m -> fwidths f = None ->
  char_width f code =
    match to_unichr f code with
    | Some s => match assoc s m with Some w => (inject_Z w * (1 # 1000))%Q | None => 0%Q end
    | None => 0%Q
    end.
Proof. exact width_std14. Qed.
Theorem C06_scale_type3 : forall f, fkind_ f = KType3 -> hscale f = fmatrix_a f.
Proof. exact scale_type3. Qed.
Theorem C06_scale_other : forall f, fkind_ f = KType1 -> hscale f = (1 # 1000)%Q.
Proof. exact scale_type1. Qed.

(* ---- the shipped tables (finite facts, by computation over the generated tables) ---------------------------- *)
Theorem C06_glyphlist_never_shadows_grammar : forallb (fun e => negb (uni_form (fst e) || u_form (fst e))) GLYPHLIST = true.
Proof. exact glyphlist_no_forms. Qed.
Theorem C06_encoding_rows_mapped : forallb (fun r => is_some (name2unicode (fst r))) ENCODING = true.
Proof. exact encoding_rows_mapped. Qed.
Theorem C06_glyphlist_values_ok : forallb (fun e => negb (existsb bad_unicode (snd e))) GLYPHLIST = true.
Proof. exact glyphlist_values_ok. Qed.

Print Assumptions C06_listed.
Print Assumptions C06_uni.
Print Assumptions C06_u.
Print Assumptions C06_otherwise.
Print Assumptions C06_hex_value.
Print Assumptions C06_hex_range.
Print Assumptions C06_suffix_dropped.
Print Assumptions C06_components.
Print Assumptions C06_tounicode_wins.
Print Assumptions C06_tounicode_miss.
Print Assumptions C06_no_tounicode.
Print Assumptions C06_placeholder.
Print Assumptions C06_encoding_source.
Print Assumptions C06_differences.
Print Assumptions C06_differences_run.
Print Assumptions C06_width_widths.
Print Assumptions C06_width_missing.
Print Assumptions C06_width_std14.
Print Assumptions C06_scale_type3.
Print Assumptions C06_scale_other.
Print Assumptions C06_glyphlist_never_shadows_grammar.
Print Assumptions C06_encoding_rows_mapped.
Print Assumptions C06_glyphlist_values_ok.

(* non-vacuity: concrete names and a concrete font meet the hypotheses *)
Example C06_ex_uni : name2unicode [117;110;105;50;48;65;67;48;51;48;56] = Some [8364; 776].   (* uni20AC0308 *)
Proof. vm_compute. reflexivity. Qed.
Example C06_ex_compound : name2unicode [102;95;102;95;105;46;97;108;116] = Some [102; 102; 105].   (* f_f_i.alt *)
Proof. vm_compute. reflexivity. Qed.
Example C06_ex_surrogate : name2unicode [117;68;56;48;48] = None.   (* uD800 *)
Proof. vm_compute. reflexivity. Qed.
Example C06_ex_font :
  let f := mkFont KType1 (Some [70;111;111]) (Some (s_WinAnsiEncoding, [DInt 65; DName (Some [66]); DName (Some [102;111;111])]))
                  (Some [(67, [8226])]) (Some (500 # 1, None)) (Some [WNum (600 # 1); WBad]) 65 (1 # 1000) in
  map (char_text f) [65; 66; 67; 68] = [[66]; [40;99;105;100;58;54;54;41]; [8226]; [68]] /\
  map (fun c => Qred (char_width f c)) [65; 66; 67] = [3 # 5; 1 # 2; 1 # 2]%Q.
Proof. vm_compute. split; reflexivity. Qed.
