(* C20 -- Geometry helpers obey affine algebra; spatial index equals brute-force
   search.  Property theorems only: each is closed by [exact <lemma>] and
   followed by Print Assumptions.  The matrix helpers, drange and the cell
   clamp are the translator-generated text of Gen/Geom.v (re-generated from
   pdfminer/utils.py on every run). *)
From Coq Require Import ZArith QArith List Ring.
From PdfV Require Import Base.Num Gen.Geom Model.Plane Proofs.GeomLaws Proofs.PlaneProofs.
Import ListNotations.

Section AnyCommutativeRing.
  Variable R : Type.
  Variables (rO rI : R) (radd rmul rsub : R -> R -> R) (ropp : R -> R).
  Variable Rth : ring_theory rO rI radd rmul rsub ropp (@eq R).
  Variables (dv : R -> R -> R) (le lt eqb : R -> R -> bool) (ofz : Z -> R) (tr fl : R -> Z).
  Let o : NumOps R := mkNumOps R radd rsub rmul dv ropp le lt eqb ofz tr fl.
  Notation idm := (rI, rO, rO, rI, rO, rO).

  Theorem C20_mult_assoc : forall m2 m1 m0,
    mult_matrix o m2 (mult_matrix o m1 m0) = mult_matrix o (mult_matrix o m2 m1) m0.
  Proof. exact (mult_assoc R rO rI radd rmul rsub ropp Rth dv le lt eqb ofz tr fl). Qed.

  Theorem C20_mult_id_l : forall m, mult_matrix o idm m = m.
  Proof. exact (mult_id_l R rO rI radd rmul rsub ropp Rth dv le lt eqb ofz tr fl). Qed.

  Theorem C20_mult_id_r : forall m, mult_matrix o m idm = m.
  Proof. exact (mult_id_r R rO rI radd rmul rsub ropp Rth dv le lt eqb ofz tr fl). Qed.

  (* applying a composed matrix = applying its factors in turn *)
  Theorem C20_apply_mult : forall m1 m0 p,
    apply_matrix_pt o (mult_matrix o m1 m0) p = apply_matrix_pt o m0 (apply_matrix_pt o m1 p).
  Proof. exact (apply_mult R rO rI radd rmul rsub ropp Rth dv le lt eqb ofz tr fl). Qed.

  Theorem C20_apply_id : forall p, apply_matrix_pt o idm p = p.
  Proof. exact (apply_id R rO rI radd rmul rsub ropp Rth dv le lt eqb ofz tr fl). Qed.

  (* translation inside the projection: pre-composition with a translation *)
  Theorem C20_translate_as_mult : forall m v,
    translate_matrix o m v = mult_matrix o (rI, rO, rO, rI, fst v, snd v) m.
  Proof. exact (translate_as_mult R rO rI radd rmul rsub ropp Rth dv le lt eqb ofz tr fl). Qed.

  Theorem C20_translate_apply : forall m v p,
    apply_matrix_pt o (translate_matrix o m v) p
    = apply_matrix_pt o m (radd (fst p) (fst v), radd (snd p) (snd v)).
  Proof. exact (translate_apply R rO rI radd rmul rsub ropp Rth dv le lt eqb ofz tr fl). Qed.

  Theorem C20_norm : forall m v,
    apply_matrix_norm o m v
    = (rsub (fst (apply_matrix_pt o m v)) (fst (apply_matrix_pt o m (rO, rO))),
       rsub (snd (apply_matrix_pt o m v)) (snd (apply_matrix_pt o m (rO, rO)))).
  Proof. exact (norm_is_difference R rO rI radd rmul rsub ropp Rth dv le lt eqb ofz tr fl). Qed.
End AnyCommutativeRing.

(* the box of a transformed rectangle is the tight hull of its four corners *)
Theorem C20_rect_hull : forall (m : Q * Q * Q * Q * Q * Q) (r : Q * Q * Q * Q),
  let '(X0, Y0, X1, Y1) := apply_matrix_rect QOps m r in
  let cs := List.map (apply_matrix_pt QOps m) (corners r) in
  (forall p, List.In p cs -> X0 <= fst p /\ fst p <= X1 /\ Y0 <= snd p /\ snd p <= Y1)%Q
  /\ (exists p, List.In p cs /\ fst p = X0) /\ (exists p, List.In p cs /\ fst p = X1)
  /\ (exists p, List.In p cs /\ snd p = Y0) /\ (exists p, List.In p cs /\ snd p = Y1).
Proof. exact rect_hull. Qed.

(* After ANY sequence of insertions of fresh well-formed objects and removals of
   live ones, for ANY well-formed query box, find returns exactly the live
   objects whose boxes strictly overlap it, each once -- whatever the plane
   bounds (objects on, across and outside them) and the grid size. *)
Theorem C20_find_bruteforce : forall pb ops qb,
  wf_bounds pb -> valid_ops (plane_init pb) ops -> wf_box qb ->
  exists p, plane_run (plane_init pb) ops = Some p /\
    NoDup (map oid (plane_find p qb)) /\
    forall o, In o (plane_find p qb) <->
              In o (pseq p) /\ In (oid o) (plive p) /\ overlaps (obox o) qb.
Proof. exact find_after_ops. Qed.

(* iteration yields the inserted objects that were not removed, in insertion
   order, each once *)
Theorem C20_iter : forall pb ops,
  wf_bounds pb -> valid_ops (plane_init pb) ops ->
  exists p, plane_run (plane_init pb) ops = Some p /\
    plane_iter p = filter (fun o => negb (mem_nat (oid o) (removed ops))) (inserted ops) /\
    NoDup (map oid (plane_iter p)).
Proof. exact iter_after_ops. Qed.

(* non-vacuity: a concrete history meets the hypotheses, with an object outside
   the bounds and one inside (-1,0) under negative bounds *)
Example C20_nonvacuous :
  let pb := mkPlaneB (-10) (-10) 100 100 50%Z in
  let o1 := mkObj 1 (-20, -20, -12, -12)%Q in
  let o2 := mkObj 2 (-(9#10), -(9#10), -(1#2), -(1#2))%Q in
  let o3 := mkObj 3 (10, 10, 60, 60)%Q in
  let ops := [PAdd o1; PAdd o2; PAdd o3; PRemove o3] in
  wf_bounds pb /\ valid_ops (plane_init pb) ops /\
  option_map (fun p => map oid (plane_find p (-30, -30, 0, 0)%Q)) (plane_run (plane_init pb) ops)
  = Some [1; 2]%nat.
Proof.
  cbv zeta. split; [|split].
  - cbv. repeat split; discriminate.
  - cbn. repeat split; try (cbv; intuition discriminate); auto.
    all: cbn; intuition (try discriminate; auto).
  - vm_compute. reflexivity.
Qed.

Print Assumptions C20_mult_assoc.
Print Assumptions C20_mult_id_l.
Print Assumptions C20_mult_id_r.
Print Assumptions C20_apply_mult.
Print Assumptions C20_apply_id.
Print Assumptions C20_translate_as_mult.
Print Assumptions C20_translate_apply.
Print Assumptions C20_norm.
Print Assumptions C20_rect_hull.
Print Assumptions C20_find_bruteforce.
Print Assumptions C20_iter.
Print Assumptions C20_nonvacuous.
