From PdfV Require Import Model.Interp.
