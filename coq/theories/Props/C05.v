(* C05 -- Text model: each glyph gets the position, advance and state PDF assigns.
   Property theorems only.  Model/Interp.v mirrors PDFPageInterpreter.execute and its do_*
   methods, PDFTextDevice.render_string_horizontal and PDFLayoutAnalyzer.render_char; the
   arithmetic of Td/TD/T*, of render_string's parameters and of LTChar.adv is regenerated from
   pdfinterp.py / pdfdevice.py / layout.py on every run (Gen/TextOps.v).
   FULL STATEMENT: for every program the glyph list equals that of the ISO 9.3-9.4 machine.
   PROVED: every state transition of the model that touches the text position IS the ISO
   transition (C05_Td .. C05_displacement, for every commutative ring), the glyph loop places
   glyphs at the running sum of ISO displacements (C05_glyph_positions), forms and ill-typed
   operators are neutral, q/Q restores.  The assembly of these step lemmas into one simulation
   theorem over whole programs is not carried out; whole programs are covered by the differential
   runs against the implementation and against the harness's ISO reference machine. *)
From Coq Require Import ZArith QArith List Bool Ring.
From PdfV Require Import Base.Num Base.CV Gen.Geom Gen.TextOps Model.Lexer Model.Interp Model.InterpRun
  Proofs.LexerProofs Proofs.TextLaws Proofs.InterpProofs.
Import ListNotations.

Section AnyCommutativeRing.
  Variable R : Type.
  Variables (rO rI : R) (radd rmul rsub : R -> R -> R) (ropp : R -> R).
  Variable Rth : ring_theory rO rI radd rmul rsub ropp (@eq R).
  Variables (dv : R -> R -> R) (le lt eqb : R -> R -> bool) (ofz : Z -> R) (tr fl : R -> Z).
  Let o : NumOps R := mkNumOps R radd rsub rmul dv ropp le lt eqb ofz tr fl.
  Notation T tx ty := (rI, rO, rO, rI, tx, ty).
  Notation Tm_of := (Tm_of R radd rmul rsub ropp dv le lt eqb ofz tr fl).

  (* Td: Tlm := [1 0 0 1 tx ty] x Tlm, Tm := Tlm *)
  Theorem C05_Td : forall tx ty m,
    do_Td_matrix o tx ty m = mult_matrix o (T tx ty) m /\
    Tm_of (do_Td_matrix o tx ty m) (rO, rO) = mult_matrix o (T tx ty) m.
  Proof. exact (Td_is_iso R rO rI radd rmul rsub ropp Rth dv le lt eqb ofz tr fl). Qed.

  Theorem C05_TD : forall tx ty m, do_TD_matrix o tx ty m = mult_matrix o (T tx ty) m.
  Proof. exact (TD_is_iso R rO rI radd rmul rsub ropp Rth dv le lt eqb ofz tr fl). Qed.

  (* T* = 0 -TL Td, with the stored leading l = -TL *)
  Theorem C05_Tstar : forall l m,
    do_T_a_matrix o l m = mult_matrix o (T rO l) m /\ do_T_a_matrix o l m = do_Td_matrix o rO l m.
  Proof. exact (Tstar_is_iso R rO rI radd rmul rsub ropp Rth dv le lt eqb ofz tr fl). Qed.

  (* advancing by tx inside the line: Tm := [1 0 0 1 tx 0] x Tm *)
  Theorem C05_advance : forall m x y tx,
    Tm_of m (radd x tx, y) = mult_matrix o (T tx rO) (Tm_of m (x, y)).
  Proof. exact (advance_is_iso R rO rI radd rmul rsub ropp Rth dv le lt eqb ofz tr fl). Qed.

  (* the matrix reported with a glyph is Tm x CTM *)
  Theorem C05_glyph_matrix : forall tm ctm x y,
    translate_matrix o (mult_matrix o tm ctm) (x, y) = mult_matrix o (Tm_of tm (x, y)) ctm.
  Proof. exact (glyph_matrix_is_iso R rO rI radd rmul rsub ropp Rth dv le lt eqb ofz tr fl). Qed.

  (* tx = (w0 * Tfs + Tc + Tw) * Th *)
  Theorem C05_displacement : forall w0 fs th tc tw,
    radd (ltchar_adv o w0 fs th) (rmul tc th) = rmul (radd (rmul w0 fs) tc) th /\
    radd (radd (ltchar_adv o w0 fs th) (rmul tc th)) (rmul tw th) = rmul (radd (radd (rmul w0 fs) tc) tw) th.
  Proof. exact (displacement_is_iso R rO rI radd rmul rsub ropp Rth dv le lt eqb ofz tr fl). Qed.
End AnyCommutativeRing.

(* every string, every width table: glyph k sits at the sum of the ISO displacements before it *)
Theorem C05_glyph_positions : forall f fs tc tw th rise m nc cids x y o,
  let '(x', o') := show_cids f fs th (tc * th) (tw * th) rise m nc cids x y o in
  Forall2 Qeq (model_positions f fs th (tc * th) (tw * th) cids x) (iso_positions f fs tc tw th cids x) /\
  o' = rev (map (fun cx => EGlyph (fst cx) (translate_matrix QOps m (snd cx, y))
                                  (ltchar_adv QOps (fwidth f (fst cx)) fs th) (fid f) fs rise (fdescent f) nc)
                (combine cids (model_positions f fs th (tc * th) (tw * th) cids x))) ++ o.
Proof. exact show_cids_iso. Qed.

(* invoking a form XObject changes nothing in the caller's state, whatever the form does *)
Theorem C05_form_neutral : forall res run_form s n matrix own body,
  sync s -> assocZ n (res_xobjs res) = Some (XForm matrix own body) ->
  same_state (apply_op res run_form KDo [OName n] s) s /\
  out (apply_op res run_form KDo [OName n] s) =
    EEndFig n :: run_form (mmul matrix (ctm s)) (match own with Some r => r | None => res end) body
                          (EBeginFig n (mmul matrix (devctm s)) :: out s).
Proof. exact form_neutral. Qed.

(* ... and [sync] holds in every reachable state *)
Theorem C05_sync_invariant : forall res run_form prog s, sync s -> sync (run_items res run_form s prog).
Proof. intros res run_form prog. exact (run_sync res run_form prog). Qed.

(* operators whose operands are not numbers, or are missing, affect nothing but the operand stack *)
Theorem C05_illtyped_noop : forall res run_form k args s, numeric_op k = true -> length args = nargs k ->
  all_floats args = None -> apply_op res run_form k args s = s.
Proof. exact illtyped_noop. Qed.

Theorem C05_missing_operands : forall res run_form k s, (0 < nargs k)%nat -> (length (argstack s) < nargs k)%nat ->
  step res run_form s (IOp k) = set_args s [].
Proof. exact missing_operands_noop. Qed.

Theorem C05_qQ_restores : forall res run_form prog s, balanced prog 0 = true ->
  let s' := run_items res run_form s (IOp Kq :: prog ++ [IOp KQ]) in
  ctm s' = ctm s /\ devctm s' = ctm s /\ ts s' = ts s /\ gs s' = gs s /\ gstack s' = gstack s.
Proof. exact qQ_restores. Qed.

(* splitting the content across streams (the tokenizer simply continues with the next stream's
   buffers): the state after all buffers is that of the byte automaton on the concatenation *)
Theorem C05_split_streams : forall (streams : list (list Z)) (st : lst),
  feed_chunks st streams = Some (run st (concat streams)).
Proof. intros. apply feed_chunks_ok. Qed.

Open Scope Z_scope.
(* non-vacuity: a program with Tc, Tw, Tz, TJ numbers, a form with a Matrix, an ill-typed Tm *)
Example C05_nonvacuous :
  let f := font_of 7 [(65, 1#2); (32, 1#4)] (3#5) (-(1#5)) in
  let form := XForm (1, 0, 0, 1, 10, 20)%Q None [IOp KBT; IOpnd (OName 20); IOpnd (ONum 10); IOp KTf; IOpnd (OStr [65]); IOp KTj] in
  let res := Res [(20, f)] [] [(30, form)] in
  let prog := [IOp KBT; IOpnd (OName 20); IOpnd (ONum 10); IOp KTf; IOpnd (ONum 2); IOp KTc;
               IOpnd (ONum 50); IOp KTz; IOpnd (OName 9); IOpnd (ONum 1); IOp KTm;
               IOpnd (OStr [65; 32]); IOp KTj; IOpnd (OName 30); IOp KDo;
               IOpnd (OArr [ONum (-1000); OStr [65]]); IOp KTJ] in
  map (fun e => match e with EGlyph c (_, _, _, _, x, y) _ _ _ _ _ _ => Some (c, Qred x, Qred y) | _ => None end)
      (run_page 3 ident res prog)
  = [Some (65, 0%Q, 0%Q); Some (32, (7 # 2)%Q, 0%Q); None; Some (65, 10%Q, 20%Q); None; Some (65, (43 # 4)%Q, 0%Q)].
Proof. vm_compute. reflexivity. Qed.

Print Assumptions C05_Td.
Print Assumptions C05_TD.
Print Assumptions C05_Tstar.
Print Assumptions C05_advance.
Print Assumptions C05_glyph_matrix.
Print Assumptions C05_displacement.
Print Assumptions C05_glyph_positions.
Print Assumptions C05_form_neutral.
Print Assumptions C05_sync_invariant.
Print Assumptions C05_illtyped_noop.
Print Assumptions C05_missing_operands.
Print Assumptions C05_qQ_restores.
Print Assumptions C05_split_streams.
Print Assumptions C05_nonvacuous.
