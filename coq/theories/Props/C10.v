(* C10 -- Decryption: either password opens the document to exactly the original content.
   Property theorems only.  Model/Crypt.v mirrors arcfour.Arcfour and
   pdfdocument.PDFStandardSecurityHandler / V4 / V5.  MD5, SHA-2 (the revision 5/6 password hash) and the AES block
   cipher are parameters of the model: every theorem below holds for EVERY function in their place.
   What no theorem can state: that a wrong password is rejected (it is accepted exactly when the 16/32 hash bytes
   collide); the model proves instead that acceptance implies Algorithm 6, and the harness tests rejection. *)
From Coq Require Import ZArith List Bool.
From PdfV Require Import Model.Crypt Proofs.CryptProofs.
From PdfV Require Import Model.Fonts Model.CMaps Model.CryptR6 Proofs.CryptR6Proofs.
Import ListNotations.
Open Scope Z_scope.

(* RC4 decryption inverts RC4 encryption for every key and every data *)
Theorem C10_rc4_involution : forall key d, rc4 key (rc4 key d) = d.
Proof. exact rc4_involution. Qed.
Theorem C10_rc4_length : forall key d, length (rc4 key d) = length d.
Proof. exact rc4_length. Qed.

(* per-object keys: same object number and generation, same key; so strings and streams come back exactly *)
Theorem C10_object_rc4 : forall md5 key objid genno data,
  decrypt_rc4 md5 key objid genno (decrypt_rc4 md5 key objid genno data) = data.
Proof. exact object_rc4_roundtrip. Qed.

(* the owner password recovers the (padded) user password from O written by ISO Algorithm 3: revisions 2, 3, 4 *)
Theorem C10_owner_recovers_user : forall md5 pr owner user,
  owner_recover md5 (with_o pr (spec_compute_o md5 pr owner user)) owner = pad32 user.
Proof. exact owner_recovers_user. Qed.

(* either password yields the same file key when O and U were written by Algorithms 3 and 4/5 *)
Theorem C10_either_password : forall md5 pr0 owner user,
  let pr := with_o pr0 (spec_compute_o md5 pr0 owner user) in
  (if revision pr =? 2 then uval pr = compute_u md5 pr (compute_encryption_key md5 pr user)
   else firstn 16 (uval pr) = firstn 16 (compute_u md5 pr (compute_encryption_key md5 pr user))) ->
  authenticate md5 pr user = Some (compute_encryption_key md5 pr user) /\
  exists k, authenticate md5 pr owner = Some k /\
            (authenticate_user md5 pr owner = None -> k = compute_encryption_key md5 pr user).
Proof. exact either_password. Qed.

(* nothing is accepted that does not pass Algorithm 6 *)
Theorem C10_accepted_only_if_verified : forall md5 pr pw k, authenticate md5 pr pw = Some k ->
  verify_encryption_key md5 pr k = true.
Proof. exact accepted_only_if_verified. Qed.

(* AES: CBC decryption inverts CBC encryption for every invertible block cipher; the padding is removed exactly *)
Theorem C10_cbc : forall block_dec block_enc : bytes -> bytes -> bytes,
  (forall k b, length b = 16%nat -> block_dec k (block_enc k b) = b) ->
  (forall k b, length b = 16%nat -> length (block_enc k b) = 16%nat) ->
  forall key ps iv, length iv = 16%nat -> Forall (fun p => length p = 16%nat) ps ->
  cbc_decrypt block_dec key iv (cbc_encrypt block_enc key iv ps) = ps.
Proof. exact cbc_roundtrip. Qed.
Theorem C10_unpad : forall d, unpad (pkcs_pad d) = d.
Proof. exact unpad_pad. Qed.
Theorem C10_aes : forall (cbc : bytes -> bytes -> bytes -> bytes) key iv ct d,
  length iv = 16%nat -> cbc key iv ct = pkcs_pad d -> decrypt_aes cbc key (iv ++ ct) = d.
Proof. exact aes_roundtrip. Qed.

(* revisions 5 and 6: the owner entry is tried first, then the user entry; otherwise rejected *)
Theorem C10_auth5_owner : forall pwhash cbc0 pr pw,
  bytes_eqb (pwhash pw (firstn 8 (skipn 32 (o5 pr))) (u5 pr)) (firstn 32 (o5 pr)) = true ->
  authenticate5 pwhash cbc0 pr pw = Some (cbc0 (pwhash pw (skipn 40 (o5 pr)) (u5 pr)) (oe5 pr)).
Proof. exact auth5_owner. Qed.
Theorem C10_auth5_user : forall pwhash cbc0 pr pw,
  bytes_eqb (pwhash pw (firstn 8 (skipn 32 (o5 pr))) (u5 pr)) (firstn 32 (o5 pr)) = false ->
  bytes_eqb (pwhash pw (firstn 8 (skipn 32 (u5 pr))) []) (firstn 32 (u5 pr)) = true ->
  authenticate5 pwhash cbc0 pr pw = Some (cbc0 (pwhash pw (skipn 40 (u5 pr)) []) (ue5 pr)).
Proof. exact auth5_user. Qed.
Theorem C10_auth5_reject : forall pwhash cbc0 pr pw,
  bytes_eqb (pwhash pw (firstn 8 (skipn 32 (o5 pr))) (u5 pr)) (firstn 32 (o5 pr)) = false ->
  bytes_eqb (pwhash pw (firstn 8 (skipn 32 (u5 pr))) []) (firstn 32 (u5 pr)) = false ->
  authenticate5 pwhash cbc0 pr pw = None.
Proof. exact auth5_reject. Qed.

(* permissions are reported as stored *)
Theorem C10_permissions : forall p, - 2147483648 <= p < 2147483648 ->
  is_printable (uint32 p) = Z.testbit p 2 /\ is_modifiable (uint32 p) = Z.testbit p 3 /\ is_extractable (uint32 p) = Z.testbit p 4.
Proof. exact permissions_as_stored. Qed.

(* ---- revision 6: the password hash (ISO 32000-2 Algorithm 2.B), Model/CryptR6.v -------------------------------- *)
(* the selector computed as a sum of residues is the big-endian number modulo 3, for a byte string of any length *)
Theorem C10_r6_selector : forall l, bytes_mod_3 l = nunpack l mod 3.
Proof. exact bytes_mod_3_spec. Qed.

(* for EVERY hash functions and cipher (whose output is bytes) the loop ends within the model's fuel ... *)
Theorem C10_r6_terminates : forall (sha256 sha384 sha512 : bytes -> bytes) (aes_rep : bytes -> bytes -> bytes -> bytes),
  (forall k iv d, Forall (fun b => 0 <= b <= 255) (aes_rep k iv d)) ->
  forall pw salt vec, r6_password sha256 sha384 sha512 aes_rep pw salt vec <> None.
Proof. exact r6_password_total. Qed.

(* ... after at least 64 and at most 288 rounds ... *)
Theorem C10_r6_rounds : forall (sha256 sha384 sha512 : bytes -> bytes) (aes_rep : bytes -> bytes -> bytes -> bytes),
  (forall k iv d, Forall (fun b => 0 <= b <= 255) (aes_rep k iv d)) ->
  forall pw salt vec out n,
  r6_password_rounds sha256 sha384 sha512 aes_rep pw salt vec = Some (out, n) -> 64 <= n <= 288.
Proof. exact r6_password_rounds_range. Qed.

(* ... and returns the first 32 bytes of K_m for the FIRST round m >= 64 whose E ends in a byte <= m - 32, where
   K_0 = SHA-256(password ++ salt ++ vector) and each round turns K_(i-1) into K_i as 2.B prescribes *)
Theorem C10_r6_is_algorithm_2B : forall (sha256 sha384 sha512 : bytes -> bytes) (aes_rep : bytes -> bytes -> bytes -> bytes),
  forall pw salt vec out n,
  r6_password_rounds sha256 sha384 sha512 aes_rep pw salt vec = Some (out, n) ->
  exists m, n = Z.of_nat m /\
            out = firstn 32 (fst (k_seq sha256 sha384 sha512 aes_rep pw vec (sha256 (pw ++ salt ++ vec)) m)) /\
            stops sha256 sha384 sha512 aes_rep pw vec (sha256 (pw ++ salt ++ vec)) m /\
            forall j, (j < m)%nat -> ~ stops sha256 sha384 sha512 aes_rep pw vec (sha256 (pw ++ salt ++ vec)) j.
Proof. exact r6_password_iso. Qed.

Print Assumptions C10_rc4_involution.
Print Assumptions C10_rc4_length.
Print Assumptions C10_object_rc4.
Print Assumptions C10_owner_recovers_user.
Print Assumptions C10_either_password.
Print Assumptions C10_accepted_only_if_verified.
Print Assumptions C10_cbc.
Print Assumptions C10_unpad.
Print Assumptions C10_aes.
Print Assumptions C10_auth5_owner.
Print Assumptions C10_auth5_user.
Print Assumptions C10_auth5_reject.
Print Assumptions C10_permissions.
Print Assumptions C10_r6_selector.
Print Assumptions C10_r6_terminates.
Print Assumptions C10_r6_rounds.
Print Assumptions C10_r6_is_algorithm_2B.

(* non-vacuity: RC4 test vector (key "Key", plaintext "Plaintext" -> BBF316E8D940AF0AD3) and a padded block *)
Example C10_ex_rc4 : rc4 [75; 101; 121] [80; 108; 97; 105; 110; 116; 101; 120; 116] = [187; 243; 22; 232; 217; 64; 175; 10; 211].
Proof. vm_compute. reflexivity. Qed.
Example C10_ex_pad : unpad (pkcs_pad [1; 2; 3]) = [1; 2; 3] /\ length (pkcs_pad (repeat 7 16)) = 32%nat.
Proof. vm_compute. split; reflexivity. Qed.
(* the round loop on toy primitives: a cipher whose output ends in 200 keeps the loop going until round 232 *)
Example C10_ex_r6 :
  r6_password_rounds (fun d => firstn 32 (d ++ repeat 7 32)) (fun d => firstn 48 (d ++ repeat 8 48)) (fun d => firstn 64 (d ++ repeat 9 64))
                     (fun k iv blk => k ++ iv ++ blk ++ [200]) [1; 2] [3; 4; 5; 6; 7; 8; 9; 10] []
  = Some ([1; 2; 3; 4; 5; 6; 7; 8; 9; 10] ++ repeat 7 22, 232).
Proof. vm_compute. reflexivity. Qed.
