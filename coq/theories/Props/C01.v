(* C01 -- Object syntax: every conformant spelling of a value reads back as that
   value.  Property theorems only.
   Layers: bytes --(Model/Lexer: chunked scanners = byte automaton, C14)--> tokens
           --(Model/StackParser: nextobject + do_keyword)--> values.
   FULL STATEMENT (the property): for every value v, every ISO-conformant byte
   spelling s of v, every BUFSIZ and offset, reading s yields v.
   PROVED HERE, about the model: the full statement for the following family of spellings
   (C01_value_bytes_read_back, C01_indirect_object_bytes_read_back, C01_every_value_has_a_spelling):
   a value's tokens, each in ANY of its admissible spellings - literal strings (raw bytes, balanced unescaped
   parentheses to any depth, named escapes, 1-3 digit octal escapes, line continuations with LF / CR / CRLF, ignored
   backslashes), hexadecimal strings (either case,
   white space anywhere, even digit count), names (raw regular bytes and #xx), integers (sign, leading zeros), reals
   ([sign] digits . digits), true / false / null / R / obj / endobj, [ ] << >> - separated by ANY amount of white
   space (including NUL) and comments, or by nothing where a delimiter follows (minimal delimiters, including the
   pending '>' after a hexadecimal string); for every BUFSIZ and offset (C01_bufsize_offset_independent, from C14).
   Layers: (a) object layer for every value tree of any depth over the token sequence (C01_object_layer, ...);
   (b) byte layer per token kind (C01_*_any_spelling, C01_*_in_context); (c) C01_token_sequence: a spelled token
   sequence is tokenized into exactly its tokens from any state between tokens.
   NOT in the statement: the numeric VALUE of a real (the token carries the spelling; float() is Python's; the
   harness compares dyadic values).  Excluded because pdfminer
   deviates (known findings): odd digit count in hexadecimal strings, raw CR / CRLF inside literal strings. *)
From Coq Require Import ZArith List Bool String.
From PdfV Require Import Base.CV Gen.LexClasses Model.Lexer Model.StackParser Model.StackRun
  Proofs.LexerProofs Proofs.LexerInv Proofs.StackProofs Proofs.SpellingProofs Proofs.SpellingProofs2 Proofs.SpellingSeq
  Proofs.SpellingValues.
Import ListNotations.
Open Scope Z_scope.
Open Scope string_scope.

(* any value tree, any depth, inside any open container (or anywhere in a PDFParser):
   reading its tokens pushes exactly the value (null-valued entries absent, last key wins) *)
Theorem C01_object_layer : forall (fl : flavour) (v : value), wfv v ->
  forall s rest, stable fl s ->
    run_toks fl s (tprint v ++ rest) = run_toks fl (push (norm v) s) rest.
Proof. exact reads_back_all. Qed.

Theorem C01_stream_toplevel : forall v, wfv v -> (forall n, v <> VRef n) ->
  parse_all PStream (tprint v) = Ok [norm v].
Proof. exact stream_toplevel. Qed.

Theorem C01_pdf_indirect_object : forall n g v, wfv v ->
  parse_all PPdf ([TInt n; TInt g; TKw K_obj] ++ tprint v ++ [TKw K_endobj])
  = Ok [VInt n; VInt g; VKw K_obj; norm v].
Proof. exact pdf_indirect_object. Qed.

Theorem C01_ref_any_generation : forall fl n g s rest, stable fl s ->
  run_toks fl s ([TInt n; TInt g; TKw K_R] ++ rest) = run_toks fl (push (VRef n) s) rest.
Proof. exact ref_any_generation. Qed.

(* the tokens handed to the object layer do not depend on BUFSIZ or on the offset *)
Theorem C01_bufsize_offset_independent : forall (b : nat) (pos : Z) (data : list Z), (0 < b)%nat ->
  option_map (map snd) (tokenize b pos data) = Some (map snd (lex 0 data)).
Proof.
  intros b pos data Hb. rewrite tokenize_lex by exact Hb. cbn [option_map]. f_equal.
  rewrite lex_offset, map_map. apply map_ext. intros [p t]. reflexivity.
Qed.

(* literal strings, byte level: ( spelling ) is read, for every BUFSIZ and offset, as the one token carrying the bytes *)
Theorem C01_literal_string_any_spelling : forall (b : nat) (pos : Z) (ps : list piece), (0 < b)%nat -> seq_ok ANone ps ->
  tokenize b pos (40 :: flat_map render ps ++ [41]) = Some [(pos, TStr (flat_map pvalue ps))].
Proof. intros b pos ps Hb Hok. rewrite tokenize_lex by exact Hb. f_equal. exact (literal_string_lex pos ps Hok). Qed.

(* ... and in context: after anything that leaves the tokenizer between tokens, it adds exactly that token *)
Theorem C01_literal_string_in_context : forall st ps, lmode st = MMain -> seq_ok ANone ps ->
  let fin := run st (40 :: flat_map render ps ++ [41]) in
  lmode fin = MMain /\ toks fin = (apos st, TStr (flat_map pvalue ps)) :: toks st.
Proof. exact literal_string_token. Qed.

Theorem C01_every_string_has_a_spelling : forall v, Forall (fun b => 0 <= b < 256) v ->
  exists ps, seq_ok ANone ps /\ flat_map pvalue ps = v.
Proof. exact every_string_has_a_spelling. Qed.

Example C01_literal_string_nonvacuous :
  let ps := [PRaw 65; PEsc 110 10; POct [48; 49]; PRaw 57; POct [49; 50; 51]; PRaw 52; PCont [13]; PRaw 66; PCont [13; 10];
             PIgn 113; PEsc 40 40; POct [55]; PCont [10]; POpen; PRaw 66; POpen; PClose; POct [55]; PClose] in
  seq_ok ANone ps /\ flat_map pvalue ps = [65; 10; 1; 57; 83; 52; 66; 113; 40; 7; 40; 66; 40; 41; 7; 41].
Proof. exact spelling_example. Qed.

(* hexadecimal strings: < digits in any case with white space anywhere > *)
Theorem C01_hex_string_any_spelling : forall (b : nat) (pos : Z) (ps : list hpiece), (0 < b)%nat -> Forall hwf ps ->
  tokenize b pos (60 :: flat_map hrender ps ++ [62]) = Some [(pos, TStr (flat_map hvalue ps))].
Proof. intros b pos ps Hb Hok. rewrite tokenize_lex by exact Hb. f_equal. exact (hex_string_lex pos ps Hok). Qed.
Theorem C01_hex_string_in_context : forall st ps, lmode st = MMain -> Forall hwf ps ->
  let fin := run st (60 :: flat_map hrender ps ++ [62]) in
  lmode fin = MWClose /\ toks fin = (apos st, TStr (flat_map hvalue ps)) :: toks st.
Proof. exact hex_string_token. Qed.
Theorem C01_every_string_has_a_hex_spelling : forall v, Forall (fun b => 0 <= b < 256) v ->
  exists ps, Forall hwf ps /\ flat_map hvalue ps = v.
Proof. exact every_string_has_a_hex_spelling. Qed.

(* names: / raw regular bytes and #xx escapes, up to any delimiter *)
Theorem C01_name_any_spelling : forall (b : nat) (pos : Z) (ps : list npiece), (0 < b)%nat -> Forall nwf ps ->
  tokenize b pos (47 :: flat_map nrender ps) = Some [(pos, TLit (flat_map nvalue ps))].
Proof. intros b pos ps Hb Hok. rewrite tokenize_lex by exact Hb. f_equal. exact (name_lex pos ps Hok). Qed.
Theorem C01_name_in_context : forall st ps d, lmode st = MMain -> Forall nwf ps -> ndelim d ->
  exists st', lmode st' = MMain /\ toks st' = (apos st, TLit (flat_map nvalue ps)) :: toks st /\
              run st (47 :: flat_map nrender ps ++ [d]) = step st' d.
Proof. exact name_token. Qed.
Theorem C01_every_name_has_a_spelling : forall v, Forall (fun b => 0 <= b < 256) v ->
  exists ps, Forall nwf ps /\ flat_map nvalue ps = v.
Proof. exact every_name_has_a_spelling. Qed.

(* integers: optional sign, any number of leading zeros *)
Theorem C01_integer_any_spelling : forall (b : nat) (pos : Z) s ds, (0 < b)%nat -> ds <> [] -> forallb isdigit ds = true ->
  tokenize b pos (sign_bytes s ++ ds) = Some [(pos, TInt (sign_apply s (digits_val ds)))].
Proof. intros b pos s ds Hb Hne Hd. rewrite tokenize_lex by exact Hb. f_equal. exact (integer_lex pos s ds Hne Hd). Qed.
Theorem C01_integer_in_context : forall st s ds d, lmode st = MMain -> ds <> [] -> forallb isdigit ds = true -> idelim d ->
  exists st', lmode st' = MMain /\ toks st' = (apos st, TInt (sign_apply s (digits_val ds))) :: toks st /\
              run st (sign_bytes s ++ ds ++ [d]) = step st' d.
Proof. exact integer_token. Qed.
Theorem C01_every_integer_has_a_spelling : forall z,
  exists s ds, ds <> [] /\ forallb isdigit ds = true /\ sign_apply s (digits_val ds) = z.
Proof. exact every_integer_has_a_spelling. Qed.
Theorem C01_leading_zeros : forall ds, digits_val (48 :: ds) = digits_val ds.
Proof. exact digits_val_zero. Qed.

Example C01_scalar_spellings_nonvacuous :
  tokenize 3 7 (hx "3c342061200a34413e") = Some [(7, TStr [74; 74])] /\
  tokenize 2 0 (hx "2f4123343223323042") = Some [(0, TLit [65; 66; 32; 66])] /\
  tokenize 1 5 (hx "2d30303137") = Some [(5, TInt (-17))].
Proof. vm_compute. auto. Qed.

(* token sequences: any admissible spelling of each token, any white space / comments / minimal delimiters between *)
Theorem C01_token_sequence : forall ts bytes, spelled ts bytes -> forall st, gap st ->
  tks (run st (bytes ++ [10])%list) = (rev ts ++ tks st)%list.
Proof. exact spelled_tokens. Qed.

(* END TO END: every such byte spelling of a value reads back as the value *)
Theorem C01_value_bytes_read_back : forall v bytes, wfv v -> (forall n, v <> VRef n) -> spelled (tprint v) bytes ->
  parse_bytes PStream bytes = Ok [norm v].
Proof. exact value_bytes_read_back. Qed.
Theorem C01_indirect_object_bytes_read_back : forall n g v bytes, wfv v ->
  spelled ([TInt n; TInt g; TKw K_obj] ++ tprint v ++ [TKw K_endobj])%list bytes ->
  parse_bytes PPdf bytes = Ok [VInt n; VInt g; VKw K_obj; norm v].
Proof. exact indirect_object_bytes_read_back. Qed.
Theorem C01_every_value_has_a_spelling : forall v, wfv v -> bwf v -> exists bytes, spelled (tprint v) bytes.
Proof. exact every_value_has_a_spelling. Qed.

(* non-vacuity: a nested value with escapes, spelled with minimal delimiters and comments *)
Example C01_nonvacuous :
  (* [/A#42(<\(()>\101\<LF>)<</K[1 -2.5]/N null/R 3 0 R>>%c<LF><4 1<LF>4a>true] *)
  run_parse_stream (hx "5b2f41233432283c5c2828293e5c3130315c0a293c3c2f4b5b31202d322e355d2f4e206e756c6c2f522033203020523e3e25630a3c3420310a34613e747275655d")
  = (CL [(CZ 0); (CL [(CL [(CZ 6); (CL [(CL [(CZ 4); (CB (hx "4142"))]); (CL [(CZ 5); (CB (hx "3c2828293e41"))]); (CL [(CZ 7); (CL [(CL [(CB (hx "4b")); (CL [(CZ 6); (CL [(CL [(CZ 2); (CZ 1)]); (CL [(CZ 3); (CZ (-5)); (CZ 2)])])])]); (CL [(CB (hx "52")); (CL [(CZ 8); (CZ 3)])])])]); (CL [(CZ 5); (CB (hx "414a"))]); (CL [(CZ 1); (CZ 1)])])])])]).
Proof. vm_compute. reflexivity. Qed.

Print Assumptions C01_object_layer.
Print Assumptions C01_stream_toplevel.
Print Assumptions C01_pdf_indirect_object.
Print Assumptions C01_ref_any_generation.
Print Assumptions C01_bufsize_offset_independent.
Print Assumptions C01_nonvacuous.
Print Assumptions C01_literal_string_any_spelling.
Print Assumptions C01_literal_string_in_context.
Print Assumptions C01_every_string_has_a_spelling.
Print Assumptions C01_literal_string_nonvacuous.
Print Assumptions C01_hex_string_any_spelling.
Print Assumptions C01_hex_string_in_context.
Print Assumptions C01_every_string_has_a_hex_spelling.
Print Assumptions C01_name_any_spelling.
Print Assumptions C01_name_in_context.
Print Assumptions C01_every_name_has_a_spelling.
Print Assumptions C01_integer_any_spelling.
Print Assumptions C01_integer_in_context.
Print Assumptions C01_every_integer_has_a_spelling.
Print Assumptions C01_leading_zeros.
Print Assumptions C01_scalar_spellings_nonvacuous.
Print Assumptions C01_token_sequence.
Print Assumptions C01_value_bytes_read_back.
Print Assumptions C01_indirect_object_bytes_read_back.
Print Assumptions C01_every_value_has_a_spelling.
