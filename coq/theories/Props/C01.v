(* C01 -- Object syntax: every conformant spelling of a value reads back as that
   value.  Property theorems only.
   Layers: bytes --(Model/Lexer: chunked scanners = byte automaton, C14)--> tokens
           --(Model/StackParser: nextobject + do_keyword)--> values.
   FULL STATEMENT (the property): for every value v, every ISO-conformant byte
   spelling s of v, every BUFSIZ and offset, reading s yields v.
   PROVED HERE: (a) the object layer for every value tree of any depth over the
   token sequence of v (C01_object_layer, C01_stream_toplevel, C01_pdf_indirect_object,
   C01_ref_any_generation); (b) independence of BUFSIZ and offset for every byte
   string (C01_bufsize_offset_independent, from C14).  The passage from byte
   spellings to tokens is proved per scalar kind in Props/C01Tokens.v when present;
   the composition for whole composite spellings is covered by correspondence only --
   hence the suffix _partial on the end-to-end claim. *)
From Coq Require Import ZArith List Bool String.
From PdfV Require Import Base.CV Gen.LexClasses Model.Lexer Model.StackParser Model.StackRun
  Proofs.LexerProofs Proofs.LexerInv Proofs.StackProofs.
Import ListNotations.
Open Scope Z_scope.
Open Scope string_scope.

(* any value tree, any depth, inside any open container (or anywhere in a PDFParser):
   reading its tokens pushes exactly the value (null-valued entries absent, last key wins) *)
Theorem C01_object_layer : forall (fl : flavour) (v : value), wfv v ->
  forall s rest, stable fl s ->
    run_toks fl s (tprint v ++ rest) = run_toks fl (push (norm v) s) rest.
Proof. exact reads_back_all. Qed.

Theorem C01_stream_toplevel : forall v, wfv v -> (forall n, v <> VRef n) ->
  parse_all PStream (tprint v) = Ok [norm v].
Proof. exact stream_toplevel. Qed.

Theorem C01_pdf_indirect_object : forall n g v, wfv v ->
  parse_all PPdf ([TInt n; TInt g; TKw K_obj] ++ tprint v ++ [TKw K_endobj])
  = Ok [VInt n; VInt g; VKw K_obj; norm v].
Proof. exact pdf_indirect_object. Qed.

Theorem C01_ref_any_generation : forall fl n g s rest, stable fl s ->
  run_toks fl s ([TInt n; TInt g; TKw K_R] ++ rest) = run_toks fl (push (VRef n) s) rest.
Proof. exact ref_any_generation. Qed.

(* the tokens handed to the object layer do not depend on BUFSIZ or on the offset *)
Theorem C01_bufsize_offset_independent : forall (b : nat) (pos : Z) (data : list Z), (0 < b)%nat ->
  option_map (map snd) (tokenize b pos data) = Some (map snd (lex 0 data)).
Proof.
  intros b pos data Hb. rewrite tokenize_lex by exact Hb. cbn [option_map]. f_equal.
  rewrite lex_offset, map_map. apply map_ext. intros [p t]. reflexivity.
Qed.

(* non-vacuity: a nested value with escapes, spelled with minimal delimiters and comments *)
Example C01_nonvacuous :
  (* [/A#42(<\(()>\101\<LF>)<</K[1 -2.5]/N null/R 3 0 R>>%c<LF><4 1<LF>4a>true] *)
  run_parse_stream (hx "5b2f41233432283c5c2828293e5c3130315c0a293c3c2f4b5b31202d322e355d2f4e206e756c6c2f522033203020523e3e25630a3c3420310a34613e747275655d")
  = (CL [(CZ 0); (CL [(CL [(CZ 6); (CL [(CL [(CZ 4); (CB (hx "4142"))]); (CL [(CZ 5); (CB (hx "3c2828293e41"))]); (CL [(CZ 7); (CL [(CL [(CB (hx "4b")); (CL [(CZ 6); (CL [(CL [(CZ 2); (CZ 1)]); (CL [(CZ 3); (CZ (-5)); (CZ 2)])])])]); (CL [(CB (hx "52")); (CL [(CZ 8); (CZ 3)])])])]); (CL [(CZ 5); (CB (hx "414a"))]); (CL [(CZ 1); (CZ 1)])])])])]).
Proof. vm_compute. reflexivity. Qed.

Print Assumptions C01_object_layer.
Print Assumptions C01_stream_toplevel.
Print Assumptions C01_pdf_indirect_object.
Print Assumptions C01_ref_any_generation.
Print Assumptions C01_bufsize_offset_independent.
Print Assumptions C01_nonvacuous.
