From PdfV Require Import Model.StackParser.
