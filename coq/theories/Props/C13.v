(* C13 -- Damaged input: errors stay in the library's family and work stays bounded.
   Property theorems only, about the guards that bound the work (Model/Guards.v mirrors pdftypes.resolve1, the
   path-guarded descents of do_Do / NumberTree._parse / lookup_name, and the range limits of CMapParser and
   get_widths); termination of the page-tree walk, the outline search, the xref chain and layout analysis are
   C04, C17, C02 and C08.  Which exception CLASSES escape is not a theorem about a model: the harness enumerates
   single structural faults over seed documents and classifies every outcome. *)
From Coq Require Import ZArith List Bool.
From PdfV Require Import Model.Guards Proofs.GuardProofs.
Import ListNotations.
Open Scope Z_scope.

Theorem C13_resolve_follows : forall st d x n v, chain st x n v -> (n <= 100)%nat -> resolve1 st d x = OVal v.
Proof. exact resolve1_follows. Qed.
(* any reference cycle, of any length: the default after a bounded number of hops, never a hang *)
Theorem C13_resolve_cycle : forall st d, (forall i, exists j, st i = Some (ORef j)) -> forall i, resolve1 st d (ORef i) = d.
Proof. exact resolve1_cycle. Qed.

(* guarded descents (forms drawing forms, Kids of number and name trees) terminate on every finite object graph,
   cyclic or not, within a recursion depth of one more than the number of objects *)
Theorem C13_descent_terminates : forall kids U, (forall n, In n U -> incl (kids n) U) ->
  forall fuel path n, NoDup path -> incl path U -> In n U ->
  (length U - length path < fuel)%nat -> exists r, descend kids fuel path n = Some r.
Proof. exact descend_terminates. Qed.
Theorem C13_descent_total : forall kids U, (forall n, In n U -> incl (kids n) U) ->
  forall n, In n U -> exists r, descend kids (S (length U)) [] n = Some r.
Proof. exact descend_total. Qed.

(* the chain of cross-reference sections (/XRefStm, then /Prev, from startxref): on ANY graph of links between a finite
   set of sections the reader terminates within a recursion depth of one more than their number, reads no section
   twice, and reads nothing it was not sent to *)
Theorem C13_xref_chain_terminates : forall links U, (forall n, In n U -> incl (links n) U) ->
  forall fuel vis start, In start U -> (unv U vis < fuel)%nat ->
  exists res, xread links fuel vis start = Some res /\ good U vis res.
Proof. exact xread_terminates. Qed.
Theorem C13_xref_chain_total : forall links U, (forall n, In n U -> incl (links n) U) ->
  forall start, In start U -> exists vis o, xread links (S (length U)) [] start = Some (vis, o) /\ NoDup o /\ incl o U.
Proof. exact xread_total. Qed.

(* no range is expanded into more than 65536 steps, and legitimate ranges are not shortened *)
Theorem C13_cmap_range_bounded : forall s e, 0 <= cmap_range_steps s e <= 65536.
Proof. exact cmap_range_bounded. Qed.
Theorem C13_width_range_bounded : forall c1 c2, 0 <= width_range_steps c1 c2 <= 65536.
Proof. exact width_range_bounded. Qed.
Theorem C13_cmap_range_exact : forall s e, s <= e -> e - s < 65536 -> cmap_range_steps s e = e - s + 1.
Proof. exact cmap_range_exact. Qed.
Theorem C13_width_range_exact : forall c1 c2, 0 <= c1 <= c2 -> c2 <= 65535 -> width_range_steps c1 c2 = c2 - c1 + 1.
Proof. exact width_range_exact. Qed.

Print Assumptions C13_resolve_follows.
Print Assumptions C13_resolve_cycle.
Print Assumptions C13_descent_terminates.
Print Assumptions C13_descent_total.
Print Assumptions C13_cmap_range_bounded.
Print Assumptions C13_width_range_bounded.
Print Assumptions C13_xref_chain_terminates.
Print Assumptions C13_xref_chain_total.
Print Assumptions C13_cmap_range_exact.
Print Assumptions C13_width_range_exact.

(* non-vacuity: a two-cycle of references, and a form graph with a cycle *)
Example C13_ex :
  resolve1 (fun i => if i =? 9 then Some (ORef 10) else if i =? 10 then Some (ORef 9) else None) (OVal 0) (ORef 9) = OVal 0 /\
  descend (fun n => if n =? 1 then [2; 3] else if n =? 2 then [1; 3] else []) 4 [] 1 = Some [1; 2; 3; 3] /\
  (* three sections: 900 -> (XRefStm 700, Prev 500), 700 -> Prev 900 (a cycle), 500 -> Prev 500 (itself) *)
  xread (fun n => if n =? 900 then [700; 500] else if n =? 700 then [900] else if n =? 500 then [500] else []) 4 [] 900
  = Some ([500; 700; 900], [900; 700; 500]).
Proof. vm_compute. repeat split; reflexivity. Qed.
