(* C19 -- CCITT Group 4 decoding inverts a conforming encoder for every bitmap.
   Property theorems only.  MODE / WHITE / BLACK are regenerated from every BitParser.add call of
   pdfminer/ccitt.py (Gen/CCITTTables.v); Spec/T6Tables.v holds the ITU-T T.4 / T.6 tables typed
   from the Recommendations; Model/CCITT.v mirrors BitParser and CCITTG4Parser.
   PROVED: the whole chain from bytes to rows, for every bitmap, every admissible encoding, either polarity, with and
   without EncodedByteAlign.
   (a) code layer: tables = Recommendations, prefix-freeness, trie walk, run lengths as sums of make-up and
   terminating codes, bit packing; (b) mode layer (C19_row, C19_page): for every bitmap of any width and height and
   EVERY admissible choice of pass / vertical / horizontal elements (T.6 2.2: b1, b2 on the reference row, a1, a2 on
   the coding row, stated declaratively and independently of the decoder's search loops), executing the decoder's
   reaction to each element rebuilds exactly the rows, in order; (c) glue (C19_element_bits, C19_bytes,
   C19_bytes_eofb): the bit string of an element - mode code, and for horizontal elements ANY make-up/terminating
   decomposition of the two run lengths - drives the bit-level parser to that reaction, so the bytes of any such
   encoding, padded with up to seven zero bits or followed by EOFB and anything, make ccittfaxdecode return the rows
   packed by output_line; (d) C19_bytes_aligned: with EncodedByteAlign every row starts at a byte boundary and the
   up to seven bits after a row's last element are skipped whatever they are (needs: no proper prefix of a row's bits
   stops the parser); (e) C19_every_bitmap_round_trips(_aligned): every bitmap has such an encoding.
   NOT MODELLED: uncompressed mode (an extension T.6 leaves optional) and the wrapper PDFStream applies around the
   decoder (parameters /K, /Columns, /BlackIs1 are read by code covered by C03's chain correspondence). *)
From Coq Require Import ZArith List Bool.
From PdfV Require Import Base.CV Gen.CCITTTables Spec.T6Tables Model.CCITT Model.CCITTRun Proofs.CCITTProofs
  Proofs.CCITTModeProofs Proofs.CCITTGlueProofs Proofs.CCITTEncode Proofs.CCITTAlignProofs.
Import ListNotations.
Open Scope Z_scope.

(* the tables in the code are the tables of the Recommendations (pdfminer's MODE additionally lists the
   uncompressed-mode entry code and the extension codes, which T.6 reserves) *)
Theorem C19_tables :
  subset_z WHITE T4_WHITE && subset_z T4_WHITE WHITE = true /\
  subset_z BLACK T4_BLACK && subset_z T4_BLACK BLACK = true /\
  forallb (fun e => existsb (mentry_eqb e) T6_MODE) (filter is_core_mode MODE)
  && forallb (fun e => existsb (mentry_eqb e) MODE) T6_MODE = true.
Proof. exact (conj tables_white (conj tables_black tables_mode)). Qed.

Theorem C19_prefix_free :
  prefix_free MODE = true /\ prefix_free WHITE = true /\ prefix_free BLACK = true.
Proof. exact (conj pf_mode (conj pf_white pf_black)). Qed.

(* walking the trie: after the bits of a code the walk is at that code's leaf, before that at an inner node *)
Theorem C19_walk : forall (A : Type) (t : list (A * list bool)) v code,
  prefix_free t = true -> functional t -> In (v, code) t ->
  trie_at t code = WLeaf v /\ forall p s, code = p ++ s -> s <> [] -> trie_at t p = WNode.
Proof. exact @trie_walk. Qed.

(* every run length: any make-up codes followed by a terminating code are read as their sum *)
Theorem C19_runlength : forall (mk : list (Z * list bool)) s t tcode,
  gacc s = AH1 -> gbits s = [] -> gtab s = colour_table (gcolor s) ->
  Forall (fun e => In e (table_of s) /\ 64 <= fst e /\ snd e <> []) mk ->
  In (t, tcode) (table_of s) -> t < 64 -> tcode <> [] ->
  feed_bits s (flat_map snd mk ++ tcode) =
  BCont (goto (set_color s (1 - gcolor s)) (colour_table (1 - gcolor s)) AH2
              (gn1 s + fold_right (fun e a => fst e + a) 0 mk + t) 0).
Proof. exact run_length_h1. Qed.

(* rows are packed most-significant bit first *)
Theorem C19_pack_byte : forall b7 b6 b5 b4 b3 b2 b1 b0 r,
  pack_bits (b7 :: b6 :: b5 :: b4 :: b3 :: b2 :: b1 :: b0 :: r) 0 0 =
  (let v x := if x =? 0 then 0 else 1 in
   128 * v b7 + 64 * v b6 + 32 * v b5 + 16 * v b4 + 8 * v b3 + 4 * v b2 + 2 * v b1 + v b0) :: pack_bits r 0 0.
Proof. exact pack_byte. Qed.

(* the decoder's search loops find b1 and b2 as T.6 defines them (first changing element of the reference row to the
   right of a0 with the opposite colour; the next changing element after it) *)
Theorem C19_b1_b2 : forall ref c a0, 0 < wid ref -> -1 <= a0 < wid ref -> (c = 0 \/ c = 1) ->
  let b1 := find_b1 (S (length ref)) ref c (a0 + 1) in
  is_b1 ref a0 c b1 /\ is_b2 ref c b1 (find_b2 (S (length ref)) ref c b1).
Proof. exact decoder_b1_b2. Qed.

(* one row: any admissible sequence of pass / vertical / horizontal elements, decoded against the reference row,
   rebuilds the row *)
Theorem C19_row : forall ref row, length ref = length row -> 0 < wid row -> bin row ->
  forall ops s, rowinv ref row s -> coding ref row (gcurpos s) (gcolor s) ops ->
  let s' := fold_left apply_op ops s in
  curline s' = row /\ gcurpos s' = wid row /\ refline s' = ref /\ gwidth s' = gwidth s /\ lines s' = lines s /\
  galign s' = galign s.
Proof. exact row_decodes. Qed.

(* a page: each row coded against the one before it; from the decoder's initial state the collected lines are the rows *)
Theorem C19_page : forall w align rows ops, 0 < w -> page_coding (white_line w) rows ops ->
  rev (lines (fold_left apply_flush ops (g4_init w align))) = rows.
Proof. exact page_from_init. Qed.

Theorem C19_every_page_has_a_coding : forall rows ref,
  Forall (fun r => length r = length ref /\ bin r) rows -> 0 < wid ref -> exists ops, page_coding ref rows ops.
Proof. exact every_page_has_a_coding. Qed.

Example C19_modes_nonvacuous :
  let ref := [1; 1; 0; 0; 0; 1; 1; 1] in let row := [1; 0; 0; 0; 1; 1; 0; 1] in
  let ops := [OVert (-1); OVert (-1); OHoriz 2 1; OVert 0] in
  curline (fold_left apply_op ops (mkG4 8 false ref (white_line 8) (-1) 1 [] TMode AMode [] 0 0)) = row.
Proof. exact coding_example. Qed.

(* glue: the bits of one element, read from a state between elements, produce the decoder's reaction to it *)
Theorem C19_element_bits : forall s o bits, ready s -> galign s = false -> elem_code (gcolor s) o bits ->
  exists x, feed_bits s bits = BCont x /\ ready x /\ core x = core (apply_flush s o).
Proof. exact elem_feeds. Qed.

(* the chain down to bytes: any admissible coding, any code decomposition, zero padding to the byte boundary *)
Theorem C19_bytes : forall w rows ops bits data k reversed, 0 < w ->
  page_coding (white_line w) rows ops -> ops_bits (g4_init w false) ops bits ->
  flat_map bits_of_byte data = bits ++ repeat false k -> (k <= 7)%nat ->
  ccittfaxdecode data w false reversed = DOk (flat_map (output_line reversed) rows).
Proof. exact g4_bytes_decode. Qed.

Theorem C19_bytes_eofb : forall w rows ops bits data eofb junk reversed, 0 < w ->
  page_coding (white_line w) rows ops -> ops_bits (g4_init w false) ops bits ->
  In (ME, eofb) MODE -> flat_map bits_of_byte data = bits ++ eofb ++ junk ->
  ccittfaxdecode data w false reversed = DOk (flat_map (output_line reversed) rows).
Proof. exact g4_bytes_decode_eofb. Qed.

(* EncodedByteAlign: rows as whole bytes, arbitrary fill bits *)
Theorem C19_bytes_aligned : forall w rows data reversed, 0 < w ->
  page_bytes (g4_init w true) (white_line w) rows data ->
  ccittfaxdecode data w true reversed = DOk (flat_map (output_line reversed) rows).
Proof. exact g4_bytes_decode_aligned. Qed.

Theorem C19_every_bitmap_round_trips_aligned : forall w rows reversed, 0 < w ->
  Forall (fun r => length r = Z.to_nat w /\ bin r) rows ->
  exists data, ccittfaxdecode data w true reversed = DOk (flat_map (output_line reversed) rows).
Proof. exact every_bitmap_round_trips_aligned. Qed.

Theorem C19_every_bitmap_round_trips : forall w rows reversed, 0 < w ->
  Forall (fun r => length r = Z.to_nat w /\ bin r) rows ->
  exists data, ccittfaxdecode data w false reversed = DOk (flat_map (output_line reversed) rows).
Proof. exact every_bitmap_round_trips. Qed.

From Coq Require Import String.
Open Scope string_scope.
(* non-vacuity: a 2560+64+58-pixel white run needs two make-up codes; and a two-row bitmap through the decoder *)
Example C19_nonvacuous :
  (let s := mkG4 3000 false (white_line 3000) (white_line 3000) (-1) 1 [] TWhite AH1 [] 0 0 in
   exists s', feed_bits s (flat_map snd [(2560, [false;false;false;false;false;false;false;true;true;true;true;true]);
                                         (64, [true;true;false;true;true])]
                           ++ [false;true;false;true;true;false;true;true]) = BCont s' /\ gn1 s' = 2682 /\ gacc s' = AH2) /\
  run_g4 (hx "26ba8a80080080", 5, false, false) = CL [CZ 0; CB (hx "30e0")].
Proof.
  split.
  - eexists. split; [vm_compute; reflexivity|split; reflexivity].
  - vm_compute. reflexivity.
Qed.

Print Assumptions C19_tables.
Print Assumptions C19_prefix_free.
Print Assumptions C19_walk.
Print Assumptions C19_runlength.
Print Assumptions C19_pack_byte.
Print Assumptions C19_nonvacuous.
Print Assumptions C19_b1_b2.
Print Assumptions C19_row.
Print Assumptions C19_page.
Print Assumptions C19_every_page_has_a_coding.
Print Assumptions C19_modes_nonvacuous.
Print Assumptions C19_element_bits.
Print Assumptions C19_bytes.
Print Assumptions C19_every_bitmap_round_trips.
Print Assumptions C19_bytes_eofb.
Print Assumptions C19_bytes_aligned.
Print Assumptions C19_every_bitmap_round_trips_aligned.
