(* C19 -- CCITT Group 4 decoding inverts a conforming encoder for every bitmap.
   Property theorems only.  MODE / WHITE / BLACK are regenerated from every BitParser.add call of
   pdfminer/ccitt.py (Gen/CCITTTables.v); Spec/T6Tables.v holds the ITU-T T.4 / T.6 tables typed
   from the Recommendations; Model/CCITT.v mirrors BitParser and CCITTG4Parser.
   FULL STATEMENT (C19_line / C19_page): decoding any admissible encoding of a row against its
   reference row returns the row.  NOT PROVED: the mode layer (pass / vertical against the
   reference line); it is covered by exhaustive small bitmaps and random large ones, against the
   implementation and against this model.  PROVED: the layers below it. *)
From Coq Require Import ZArith List Bool.
From PdfV Require Import Base.CV Gen.CCITTTables Spec.T6Tables Model.CCITT Model.CCITTRun Proofs.CCITTProofs.
Import ListNotations.
Open Scope Z_scope.

(* the tables in the code are the tables of the Recommendations (pdfminer's MODE additionally lists the
   uncompressed-mode entry code and the extension codes, which T.6 reserves) *)
Theorem C19_tables :
  subset_z WHITE T4_WHITE && subset_z T4_WHITE WHITE = true /\
  subset_z BLACK T4_BLACK && subset_z T4_BLACK BLACK = true /\
  forallb (fun e => existsb (mentry_eqb e) T6_MODE) (filter is_core_mode MODE)
  && forallb (fun e => existsb (mentry_eqb e) MODE) T6_MODE = true.
Proof. exact (conj tables_white (conj tables_black tables_mode)). Qed.

Theorem C19_prefix_free :
  prefix_free MODE = true /\ prefix_free WHITE = true /\ prefix_free BLACK = true.
Proof. exact (conj pf_mode (conj pf_white pf_black)). Qed.

(* walking the trie: after the bits of a code the walk is at that code's leaf, before that at an inner node *)
Theorem C19_walk : forall (A : Type) (t : list (A * list bool)) v code,
  prefix_free t = true -> functional t -> In (v, code) t ->
  trie_at t code = WLeaf v /\ forall p s, code = p ++ s -> s <> [] -> trie_at t p = WNode.
Proof. exact @trie_walk. Qed.

(* every run length: any make-up codes followed by a terminating code are read as their sum *)
Theorem C19_runlength : forall (mk : list (Z * list bool)) s t tcode,
  gacc s = AH1 -> gbits s = [] -> gtab s = colour_table (gcolor s) ->
  Forall (fun e => In e (table_of s) /\ 64 <= fst e /\ snd e <> []) mk ->
  In (t, tcode) (table_of s) -> t < 64 -> tcode <> [] ->
  feed_bits s (flat_map snd mk ++ tcode) =
  BCont (goto (set_color s (1 - gcolor s)) (colour_table (1 - gcolor s)) AH2
              (gn1 s + fold_right (fun e a => fst e + a) 0 mk + t) 0).
Proof. exact run_length_h1. Qed.

(* rows are packed most-significant bit first *)
Theorem C19_pack_byte : forall b7 b6 b5 b4 b3 b2 b1 b0 r,
  pack_bits (b7 :: b6 :: b5 :: b4 :: b3 :: b2 :: b1 :: b0 :: r) 0 0 =
  (let v x := if x =? 0 then 0 else 1 in
   128 * v b7 + 64 * v b6 + 32 * v b5 + 16 * v b4 + 8 * v b3 + 4 * v b2 + 2 * v b1 + v b0) :: pack_bits r 0 0.
Proof. exact pack_byte. Qed.

From Coq Require Import String.
Open Scope string_scope.
(* non-vacuity: a 2560+64+58-pixel white run needs two make-up codes; and a two-row bitmap through the decoder *)
Example C19_nonvacuous :
  (let s := mkG4 3000 false (white_line 3000) (white_line 3000) (-1) 1 [] TWhite AH1 [] 0 0 in
   exists s', feed_bits s (flat_map snd [(2560, [false;false;false;false;false;false;false;true;true;true;true;true]);
                                         (64, [true;true;false;true;true])]
                           ++ [false;true;false;true;true;false;true;true]) = BCont s' /\ gn1 s' = 2682 /\ gacc s' = AH2) /\
  run_g4 (hx "26ba8a80080080", 5, false, false) = CL [CZ 0; CB (hx "30e0")].
Proof.
  split.
  - eexists. split; [vm_compute; reflexivity|split; reflexivity].
  - vm_compute. reflexivity.
Qed.

Print Assumptions C19_tables.
Print Assumptions C19_prefix_free.
Print Assumptions C19_walk.
Print Assumptions C19_runlength.
Print Assumptions C19_pack_byte.
Print Assumptions C19_nonvacuous.
