(* C04 -- Page tree: order, inheritance, rotation/box normalisation, page selection.
   Property theorems only.  [dfs] mirrors PDFPage.create_pages.depth_first_search,
   [select] the loop of PDFPage.get_pages (Model/PageTree.v); process_page_ctm,
   begin_page_box and rotate_norm are regenerated from pdfinterp.py, converter.py and
   pdfpage.py on every run (Gen/PageGeom.v). *)
From Coq Require Import ZArith QArith List Bool.
From PdfV Require Import Base.Num Base.CV Gen.Geom Gen.PageGeom Model.PageTree Model.PageRun
  Proofs.PageTreeProofs Proofs.PageGeomProofs.
Import ListNotations.
Open Scope Z_scope.

(* every honest tree, any shape and depth: pages in depth-first Kids order, each with its own
   attribute or else its nearest ancestor's (and the visited set grows by exactly the tree) *)
Theorem C04_order_inherit : forall (st : store) (t : tree), describes st t ->
  forall fuel visited inh,
    (depth t <= fuel)%nat -> (forall i, In i (ids t) -> ~ In i visited) -> NoDup (ids t) ->
    dfs fuel st visited (tid t) inh = Some (spec_pages t inh, rev (ids t) ++ visited).
Proof. exact dfs_tree. Qed.

(* every finite store whatsoever (cycles, repeated kids, dangling references): the traversal
   terminates within the fuel and no page id is produced twice *)
Theorem C04_terminates_once : forall (st : store) (fuel : nat) (visited : list Z) (i : Z) (parent : attrs),
  (unvisited st visited < fuel)%nat ->
  exists ps v', dfs fuel st visited i parent = Some (ps, v') /\ dfs_post visited ps v'.
Proof. exact dfs_total. Qed.

Theorem C04_pages_total : forall st root cat,
  exists ps, pages st root cat = Some ps /\ (ps = fallback st \/ NoDup (map fst ps)).
Proof. exact pages_total. Qed.

(* page_numbers / maxpages: exactly the selected indices below the limit, in order *)
Theorem C04_select : forall (A : Type) (ps : list A) (pagenos : list nat) (maxpages : nat),
  select ps 0 pagenos maxpages = spec_select ps pagenos maxpages.
Proof. exact @select_is_spec. Qed.

(* Rotate reduced to 0..359, congruent to the stored value *)
Theorem C04_rotate_range : forall (r : Z),
  0 <= rotate_norm QOps r < 360 /\ (rotate_norm QOps r - r) mod 360 = 0.
Proof. exact (rotate_range QOps). Qed.

(* the MediaBox lands on a box with origin (0,0), sides swapped for the quarter turns *)
Theorem C04_box : forall s (x0 y0 x1 y1 : Q), (x0 < x1)%Q -> (y0 < y1)%Q ->
  (let '(b0, b1, b2, b3) := box_of s x0 y0 x1 y1 0 in b0 = 0 /\ b1 = 0 /\ (b2 == x1 - x0)%Q /\ (b3 == y1 - y0)%Q) /\
  (let '(b0, b1, b2, b3) := box_of s x0 y0 x1 y1 90 in b0 = 0 /\ b1 = 0 /\ (b2 == y1 - y0)%Q /\ (b3 == x1 - x0)%Q) /\
  (let '(b0, b1, b2, b3) := box_of s x0 y0 x1 y1 180 in b0 = 0 /\ b1 = 0 /\ (b2 == x1 - x0)%Q /\ (b3 == y1 - y0)%Q) /\
  (let '(b0, b1, b2, b3) := box_of s x0 y0 x1 y1 270 in b0 = 0 /\ b1 = 0 /\ (b2 == y1 - y0)%Q /\ (b3 == x1 - x0)%Q).
Proof.
  intros s x0 y0 x1 y1 Hx Hy. split; [|split; [|split]].
  - exact (box_rot0 s x0 y0 x1 y1 Hx Hy).
  - exact (box_rot90 s x0 y0 x1 y1 Hx Hy).
  - exact (box_rot180 s x0 y0 x1 y1 Hx Hy).
  - exact (box_rot270 s x0 y0 x1 y1 Hx Hy).
Qed.

(* ... turned clockwise by Rotate: images of three MediaBox corners under the page ctm *)
Theorem C04_clockwise : forall s (x0 y0 x1 y1 : Q),
  let W := (x1 - x0)%Q in let H := (y1 - y0)%Q in
  ((let p := pt_of s x0 y0 x1 y1 0 (x0, y0) in fst p == 0 /\ snd p == 0) /\
   (let p := pt_of s x0 y0 x1 y1 90 (x0, y0) in fst p == 0 /\ snd p == W) /\
   (let p := pt_of s x0 y0 x1 y1 180 (x0, y0) in fst p == W /\ snd p == H) /\
   (let p := pt_of s x0 y0 x1 y1 270 (x0, y0) in fst p == H /\ snd p == 0) /\
   (let p := pt_of s x0 y0 x1 y1 0 (x0, y1) in fst p == 0 /\ snd p == H) /\
   (let p := pt_of s x0 y0 x1 y1 90 (x0, y1) in fst p == H /\ snd p == W) /\
   (let p := pt_of s x0 y0 x1 y1 180 (x0, y1) in fst p == W /\ snd p == 0) /\
   (let p := pt_of s x0 y0 x1 y1 270 (x0, y1) in fst p == 0 /\ snd p == 0) /\
   (let p := pt_of s x0 y0 x1 y1 0 (x1, y0) in fst p == W /\ snd p == 0) /\
   (let p := pt_of s x0 y0 x1 y1 90 (x1, y0) in fst p == 0 /\ snd p == 0) /\
   (let p := pt_of s x0 y0 x1 y1 180 (x1, y0) in fst p == 0 /\ snd p == H) /\
   (let p := pt_of s x0 y0 x1 y1 270 (x1, y0) in fst p == H /\ snd p == W))%Q.
Proof. exact corners_rot. Qed.

(* non-vacuity: a three-level tree with inheritance at two levels satisfies the hypotheses of
   C04_order_inherit, and a cyclic store is handled *)
Example C04_nonvacuous :
  let t := TPages 3 [Some 1; None; None; Some 90]
             [TPage 4 [None; Some 7; None; None];
              TPages 5 [None; Some 8; None; Some (-90)] [TPage 6 no_attrs; TPage 7 [Some 2; None; None; None]]] in
  let st := [(3, mkNode NPages (Some [4; 5]) [Some 1; None; None; Some 90]);
             (4, mkNode NPage None [None; Some 7; None; None]);
             (5, mkNode NPages (Some [6; 7]) [None; Some 8; None; Some (-90)]);
             (6, mkNode NPage None no_attrs); (7, mkNode NPage None [Some 2; None; None; None])] in
  describes st t /\ NoDup (ids t) /\
  pages st 3 no_attrs = Some (spec_pages t no_attrs) /\
  spec_pages t no_attrs = [(4, [Some 1; Some 7; None; Some 90]); (6, [Some 1; Some 8; None; Some (-90)]);
                           (7, [Some 2; Some 8; None; Some (-90)])] /\
  run_pages ([(3, mkNode NPages (Some [4; 3; 4; 9]) no_attrs); (4, mkNode NPage (Some [3]) no_attrs)], 3, no_attrs)
  = CL [CL [CZ 4; CL []; CL []; CL []; CZ 0]].
Proof.
  cbv zeta. split; [|split; [|split; [|split]]].
  - cbn. repeat split.
  - cbn. repeat constructor; cbn; intuition discriminate.
  - vm_compute. reflexivity.
  - vm_compute. reflexivity.
  - vm_compute. reflexivity.
Qed.

Print Assumptions C04_order_inherit.
Print Assumptions C04_terminates_once.
Print Assumptions C04_pages_total.
Print Assumptions C04_select.
Print Assumptions C04_rotate_range.
Print Assumptions C04_box.
Print Assumptions C04_clockwise.
Print Assumptions C04_nonvacuous.
