(* C08 -- Layout analysis conserves content and keeps its hierarchy well-formed.
   Property theorems only.  Model/Layout.v mirrors layout.LTLayoutContainer.group_objects / group_textlines /
   group_textboxes / analyze with LTTextLine*.add, find_neighbors and the analyze passes; the spatial index is the
   model of C20 (Model/Plane.v, its clamp and cell arithmetic regenerated from utils.py). *)
From Coq Require Import ZArith QArith List Bool Permutation.
From PdfV Require Import Base.Num Gen.Geom Model.Plane Model.Layout Proofs.PlaneProofs
                         Proofs.LayoutProofs Proofs.LayoutGroupProofs Proofs.LayoutBoxProofs.
Import ListNotations.

(* glyphs -> lines: the lines, read in order, are the input glyph sequence: nothing lost, duplicated, altered or
   reordered, for ALL parameter values and ALL boxes (off-page, empty, inverted) *)
Theorem C08_lines_conserve : forall p gs, flat_map line_glyphs (group_objects p gs) = gs.
Proof. exact group_objects_conserves. Qed.
Theorem C08_line_boxes : forall p gs, Forall wf_line (group_objects p gs).
Proof. exact line_boxes_are_unions. Qed.
Theorem C08_lines_nonempty : forall p gs, Forall (fun l => line_glyphs l <> []) (group_objects p gs).
Proof. exact lines_nonempty. Qed.
Theorem C08_line_break : forall l,
  lelems (line_analyze l) = lelems l ++ [EAnno [10%Z]] /\ line_glyphs (line_analyze l) = line_glyphs l.
Proof. exact analyzed_line_ends_in_break. Qed.
Theorem C08_line_text : forall l, line_text (line_analyze l) = line_text l ++ [10%Z].
Proof. exact analyzed_line_text. Qed.

(* lines -> boxes, for any neighbour relation in which a line is its own neighbour: every line is a member of exactly
   one box in use *)
Theorem C08_boxes_partition : forall nb n, (forall i, In i (nb i)) ->
  (forall i, (i < n)%nat -> forall m, In m (nb i) -> (m < n)%nat) ->
  let st := gt_run nb n in
  Permutation (flat_map (members_of st) (yield_ids st (seq 0 n) [])) (seq 0 n).
Proof. exact textlines_conserved. Qed.
(* ... and the documented neighbour relation is such a relation whenever line_margin >= 0: *)
Theorem C08_self_neighbour : forall p pb lines i l,
  wf_bounds pb -> Forall good_line lines -> (0 <= line_margin p)%Q -> nth_error lines i = Some l ->
  In i (neighbors p (make_plane pb (line_objs lines)) lines i).
Proof. exact self_is_neighbour. Qed.
Theorem C08_textlines_conserve : forall p pb lines,
  wf_bounds pb -> Forall good_line lines -> (0 <= line_margin p)%Q ->
  let pl := make_plane pb (line_objs lines) in
  let st := gt_run (neighbors p pl lines) (length lines) in
  Permutation (flat_map (members_of st) (yield_ids st (seq 0 (length lines)) [])) (seq 0 (length lines)).
Proof. exact group_textlines_conserves. Qed.

(* boxes -> groups: the loop terminates within its fuel for EVERY input and EVERY tie-breaking order, and the
   leaves of the resulting hierarchy are the boxes, each exactly once *)
Theorem C08_groups_conserve_and_terminate : forall rank pb boxes,
  exists trees amb, group_textboxes rank pb boxes = Some (trees, amb) /\
                    Permutation (flat_map leaves trees) (seq 0 (length boxes)).
Proof. exact group_textboxes_conserves. Qed.
Theorem C08_numbering_visits_all : forall bf boxes t, Permutation (tree_order bf boxes t) (leaves t).
Proof. exact tree_order_perm. Qed.

(* ordering inside a box; sorting never loses a line *)
Theorem C08_box_lines_ordered : forall lines b,
  Permutation (box_lines_sorted lines b) (blines b) /\
  sorted_le (fun m1 m2 => pair_le (line_key lines b m1) (line_key lines b m2)) (box_lines_sorted lines b).
Proof. exact box_lines_ordered. Qed.

(* boxes_flow = None: numbered 0..n-1 in output order *)
Theorem C08_flat_numbering : forall rank p pb gs l, gs <> [] -> boxes_flow p = None -> analyze rank p pb gs = Some l ->
  map oindex (oboxes l) = map Z.of_nat (seq 0 (length (oboxes l))).
Proof. exact flat_numbering. Qed.

Print Assumptions C08_lines_conserve.
Print Assumptions C08_line_boxes.
Print Assumptions C08_lines_nonempty.
Print Assumptions C08_line_break.
Print Assumptions C08_line_text.
Print Assumptions C08_boxes_partition.
Print Assumptions C08_self_neighbour.
Print Assumptions C08_textlines_conserve.
Print Assumptions C08_groups_conserve_and_terminate.
Print Assumptions C08_numbering_visits_all.
Print Assumptions C08_box_lines_ordered.
Print Assumptions C08_flat_numbering.

(* non-vacuity: two words on one line, a second line below, analysed *)
Example C08_ex :
  let g i x0 y0 x1 y1 c := mkG i (x0, y0, x1, y1) [c] in
  let gs := [g 0%nat 10 100 16 110 97%Z; g 1%nat 16 100 22 110 98%Z; g 2%nat 30 100 36 110 99%Z;
             g 3%nat 10 88 16 98 100%Z] in
  let p := mkLA (1 # 2) 2 (1 # 2) (1 # 8) (Some (1 # 2)) false in
  match analyze Z.of_nat p (mkPlaneB 0 0 612 792 50%Z) gs with
  | Some l => map (fun b => (oindex b, map line_text (olines b))) (oboxes l)
              = [(0%Z, [[97; 98; 32; 99; 10]; [100; 10]]%Z)]
  | None => False
  end.
Proof. vm_compute. reflexivity. Qed.
