(* C07 -- Composite fonts: segmentation, CID, Unicode follow CMap, ToUnicode, W/DW.
   Property theorems only.  Model/CMaps.v mirrors cmapdb.CMap.decode / IdentityCMap / IdentityCMapByte,
   CMapParser's bfchar / bfrange / cidchar / cidrange sections with FileUnicodeMap.add_cid2unichr,
   pdffont.get_widths / get_widths2 and PDFCIDFont's width and displacement lookup.
   Not modelled in Coq (checked by the harness against platform codecs and a table writer only): the
   contents of the pickled predefined CMaps and TrueTypeFont.create_unicode_map. *)
From Coq Require Import ZArith QArith List Bool.
From PdfV Require Import Gen.FontTables Model.Fonts Model.Labels Model.CMaps Proofs.LabelsProofs Proofs.FontProofs Proofs.CMapProofs.
Import ListNotations.
Open Scope Z_scope.

(* ---- segmentation ---------------------------------------------------------------------------------------------- *)
(* any string that is a concatenation of codes of the CMap (root-to-leaf paths of its trie, of mixed lengths)
   decodes to exactly the CIDs of those codes, in order *)
Theorem C07_segmentation : forall root cs, Forall (fun c => tget root (fst c) = Some (TLeaf (snd c))) cs ->
  cmap_decode root (concat (map fst cs)) = map snd cs.
Proof. exact segmentation. Qed.
Theorem C07_unknown_byte : forall root i rest, tlookup i root = None -> cmap_decode root (i :: rest) = cmap_decode root rest.
Proof. exact unknown_byte_skipped. Qed.
(* Identity-H/V: two bytes per code, big-endian; a dangling last byte is no code *)
Theorem C07_identity : forall cids, identity_decode (flat_map be2 cids) = cids.
Proof. exact identity_two_bytes. Qed.
Theorem C07_identity_pair : forall hi lo rest, identity_decode (hi :: lo :: rest) = (256 * hi + lo) :: identity_decode rest.
Proof. exact identity_pair. Qed.
Theorem C07_identity_odd : forall cids b, identity_decode (flat_map be2 cids ++ [b]) = cids.
Proof. exact identity_odd_tail. Qed.
Theorem C07_identity_byte : forall code, identity_byte_decode code = code.
Proof. exact identity_one_byte. Qed.

(* ---- ToUnicode ----------------------------------------------------------------------------------------------------- *)
(* a UTF-16BE target (one or many characters, surrogate pairs included) is stored as its code points *)
Theorem C07_target : forall m cid cps, Forall scalar cps -> cps <> [160] ->
  add_cid2unichr m cid (TBytes (flat_map enc16 cps)) = UOk ((cid, cps) :: m).
Proof. exact add_bytes. Qed.
Theorem C07_bfchar : forall m code cps rest, Forall scalar cps -> cps <> [160] ->
  bfchar m ((TBytes code, TBytes (flat_map enc16 cps)) :: rest) = bfchar ((nunpack code, cps) :: m) rest.
Proof. exact bfchar_entry. Qed.
Theorem C07_lookup_newest : forall m cid u, umap_get ((cid, u) :: m) cid = Some u.
Proof. exact get_newest. Qed.
Theorem C07_lookup_other : forall m cid c u, c <> cid -> umap_get ((c, u) :: m) cid = umap_get m cid.
Proof. exact get_other. Qed.
(* bfrange, increment form: the i-th target is the first with its last byte increased by i (no overflow) *)
Theorem C07_bfrange_increment : forall p lo i, bytes_ok (p ++ [lo]) -> 0 <= i -> lo + i < 256 ->
  let c := p ++ [lo] in
  match pack_tail (nunpack (lastn 4 c) + i) (length (lastn 4 c)) with
  | Some t => butlastn 4 c ++ t = p ++ [lo + i]
  | None => False
  end.
Proof. exact bfrange_target. Qed.
Theorem C07_bfrange_array : forall m cid n v vs m', add_cid2unichr m cid v = UOk m' ->
  range_array m cid (S n) (v :: vs) = range_array m' (cid + 1) n vs.
Proof. exact bfrange_array_step. Qed.

(* ---- advances --------------------------------------------------------------------------------------------------------- *)
(* horizontal: the last W entry (c [w...] or cfirst clast w, CIDs within 0..65535) covering the CID, else DW *)
Theorem C07_widths : forall es dw w2 dw2 cid, Forall entry_ok es ->
  cid_width (mkCID false (flat_map encode_entry es) dw w2 dw2) cid = match iso_w es cid with Some w => w | None => dw end.
Proof. exact cid_width_iso. Qed.
(* vertical *)
Theorem C07_vertical_default : forall w dw dw2 cid,
  cid_width (mkCID true w dw [] dw2) cid = snd dw2 /\ cid_disp (mkCID true w dw [] dw2) cid = (None, fst dw2).
Proof. exact vertical_defaults. Qed.
Theorem C07_vertical_w2 : forall c w vx vy dw2 wd dw,
  let f := mkCID true wd dw [WN (zq c) true; WL [WN w false; WN vx false; WN vy false]] dw2 in
  cid_width f c = w /\ cid_disp f c = (Some vx, vy).
Proof. exact vertical_w2_run. Qed.

Print Assumptions C07_segmentation.
Print Assumptions C07_unknown_byte.
Print Assumptions C07_identity.
Print Assumptions C07_identity_pair.
Print Assumptions C07_identity_odd.
Print Assumptions C07_identity_byte.
Print Assumptions C07_target.
Print Assumptions C07_bfchar.
Print Assumptions C07_lookup_newest.
Print Assumptions C07_lookup_other.
Print Assumptions C07_bfrange_increment.
Print Assumptions C07_bfrange_array.
Print Assumptions C07_widths.
Print Assumptions C07_vertical_default.
Print Assumptions C07_vertical_w2.

(* non-vacuity *)
Example C07_ex_trie :
  let root := [(65, TLeaf 1); (129, TNode [(64, TLeaf 500); (65, TNode [(1, TLeaf 9)])])] in
  cmap_decode root [129; 64; 65; 7; 129; 65; 1; 129] = [500; 1; 9].
Proof. reflexivity. Qed.
Example C07_ex_bfrange :
  run_sections [] [SBfRange [TBytes [65]; TBytes [67]; TBytes [0; 97]; TBytes [70]; TBytes [71]; TList [TBytes [0;102;0;105]; TBytes [216;61;222;0]]]]
  = UOk [(71, [128512]); (70, [102; 105]); (67, [99]); (66, [98]); (65, [97])].
Proof. vm_compute. reflexivity. Qed.
Example C07_ex_w :
  let f := mkCID false (flat_map encode_entry [WRun 10 [500#1; 600#1]; WRange 11 20 (250#1)]) (1000#1) [] (880#1, (-1000)#1) in
  map (cid_width f) [9; 10; 11; 20; 21] = [1000#1; 500#1; 250#1; 250#1; 1000#1]%Q.
Proof. vm_compute. reflexivity. Qed.
