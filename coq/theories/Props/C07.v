(* C07 -- Composite fonts: segmentation, CID, Unicode follow CMap, ToUnicode, W/DW.
   Property theorems only.  Model/CMaps.v mirrors cmapdb.CMap.decode / IdentityCMap / IdentityCMapByte,
   CMapParser's bfchar / bfrange / cidchar / cidrange sections with FileUnicodeMap.add_cid2unichr,
   pdffont.get_widths / get_widths2 and PDFCIDFont's width and displacement lookup.
   Model/TrueType.v mirrors pdffont.TrueTypeFont: the table directory, the cmap header and subtable records, the
   platform filter, subtable formats 0, 2 and 4, unknown formats, reads past the end, and the inversion into
   cid2unichr (tied by differential runs on generated font programs, whole and truncated).
   Not modelled in Coq (checked by the harness against platform codecs only): the contents of the pickled
   predefined CMaps. *)
From Coq Require Import ZArith QArith List Bool.
From PdfV Require Import Gen.FontTables Model.Fonts Model.Labels Model.CMaps Proofs.LabelsProofs Proofs.FontProofs Proofs.CMapProofs.
From PdfV Require Import Model.TrueType Proofs.TrueTypeProofs.
Import ListNotations.
Open Scope Z_scope.

(* ---- segmentation ---------------------------------------------------------------------------------------------- *)
(* any string that is a concatenation of codes of the CMap (root-to-leaf paths of its trie, of mixed lengths)
   decodes to exactly the CIDs of those codes, in order *)
Theorem C07_segmentation : forall root cs, Forall (fun c => tget root (fst c) = Some (TLeaf (snd c))) cs ->
  cmap_decode root (concat (map fst cs)) = map snd cs.
Proof. exact segmentation. Qed.
Theorem C07_unknown_byte : forall root i rest, tlookup i root = None -> cmap_decode root (i :: rest) = cmap_decode root rest.
Proof. exact unknown_byte_skipped. Qed.
(* Identity-H/V: two bytes per code, big-endian; a dangling last byte is no code *)
Theorem C07_identity : forall cids, identity_decode (flat_map be2 cids) = cids.
Proof. exact identity_two_bytes. Qed.
Theorem C07_identity_pair : forall hi lo rest, identity_decode (hi :: lo :: rest) = (256 * hi + lo) :: identity_decode rest.
Proof. exact identity_pair. Qed.
Theorem C07_identity_odd : forall cids b, identity_decode (flat_map be2 cids ++ [b]) = cids.
Proof. exact identity_odd_tail. Qed.
Theorem C07_identity_byte : forall code, identity_byte_decode code = code.
Proof. exact identity_one_byte. Qed.

(* ---- ToUnicode ----------------------------------------------------------------------------------------------------- *)
(* a UTF-16BE target (one or many characters, surrogate pairs included) is stored as its code points *)
Theorem C07_target : forall m cid cps, Forall scalar cps -> cps <> [160] ->
  add_cid2unichr m cid (TBytes (flat_map enc16 cps)) = UOk ((cid, cps) :: m).
Proof. exact add_bytes. Qed.
Theorem C07_bfchar : forall m code cps rest, Forall scalar cps -> cps <> [160] ->
  bfchar m ((TBytes code, TBytes (flat_map enc16 cps)) :: rest) = bfchar ((nunpack code, cps) :: m) rest.
Proof. exact bfchar_entry. Qed.
Theorem C07_lookup_newest : forall m cid u, umap_get ((cid, u) :: m) cid = Some u.
Proof. exact get_newest. Qed.
Theorem C07_lookup_other : forall m cid c u, c <> cid -> umap_get ((c, u) :: m) cid = umap_get m cid.
Proof. exact get_other. Qed.
(* bfrange, increment form: the i-th target is the first with its last byte increased by i (no overflow) *)
Theorem C07_bfrange_increment : forall p lo i, bytes_ok (p ++ [lo]) -> 0 <= i -> lo + i < 256 ->
  let c := p ++ [lo] in
  match pack_tail (nunpack (lastn 4 c) + i) (length (lastn 4 c)) with
  | Some t => butlastn 4 c ++ t = p ++ [lo + i]
  | None => False
  end.
Proof. exact bfrange_target. Qed.
Theorem C07_bfrange_array : forall m cid n v vs m', add_cid2unichr m cid v = UOk m' ->
  range_array m cid (S n) (v :: vs) = range_array m' (cid + 1) n vs.
Proof. exact bfrange_array_step. Qed.

(* ---- advances --------------------------------------------------------------------------------------------------------- *)
(* horizontal: the last W entry (c [w...] or cfirst clast w, CIDs within 0..65535) covering the CID, else DW *)
Theorem C07_widths : forall es dw w2 dw2 cid, Forall entry_ok es ->
  cid_width (mkCID false (flat_map encode_entry es) dw w2 dw2) cid = match iso_w es cid with Some w => w | None => dw end.
Proof. exact cid_width_iso. Qed.
(* vertical *)
Theorem C07_vertical_default : forall w dw dw2 cid,
  cid_width (mkCID true w dw [] dw2) cid = snd dw2 /\ cid_disp (mkCID true w dw [] dw2) cid = (None, fst dw2).
Proof. exact vertical_defaults. Qed.
Theorem C07_vertical_w2 : forall c w vx vy dw2 wd dw,
  let f := mkCID true wd dw [WN (zq c) true; WL [WN w false; WN vx false; WN vy false]] dw2 in
  cid_width f c = w /\ cid_disp f c = (Some vx, vy).
Proof. exact vertical_w2_run. Qed.

(* ---- embedded TrueType cmap (Model/TrueType.v) ---------------------------------------------------------------- *)
(* a format-4 segment without idRangeOffset gives exactly the characters sc..ec the glyph (c + idDelta) mod 65536
   and leaves every other character as it was *)
Theorem C07_ttf_delta_segment : forall sc ec idd d c,
  dget (seg_delta sc ec idd d) c = if covers sc ec c then Some ((c + idd) mod 65536) else dget d c.
Proof. exact seg_delta_get. Qed.

(* a segment with idRangeOffset gives the k-th character the k-th entry of its glyph array, plus idDelta modulo
   65536 unless the entry is 0 (missing glyph) *)
Theorem C07_ttf_range_segment : forall idd gl sc d c,
  dget (seg_glyphs (zseq sc (length gl)) gl idd d) c =
  if (sc <=? c) && (c <? sc + Z.of_nat (length gl))
  then Some (glyph_of (nth (Z.to_nat (c - sc)) gl 0) idd) else dget d c.
Proof. exact seg_glyphs_get. Qed.

(* the whole segment loop of a format-4 subtable, for ANY four arrays and any bytes: if it completes, the segments
   it saw are segs_of (those with a range offset with the glyph array found at pos + 2i + idRangeOffset), and every
   character has the glyph of the LAST segment covering it, or what it had before when none does *)
Theorem C07_ttf_format4 : forall f pos ecs scs idds idrs d d' c,
  fmt4_segs f pos 0 ecs scs idds idrs d = Some d' ->
  exists segs, segs_of f pos 0 ecs scs idds idrs = Some segs /\ dget d' c = segs_val segs c (dget d c).
Proof. exact fmt4_segs_spec. Qed.

(* the byte layout: a subtable body written as segCountX2, three search fields, end codes, a reserved word, start
   codes, deltas, range offsets, glyph arrays (ISO/IEC 14496-22 cmap format 4), anywhere in a program, is taken apart
   into exactly those four arrays, the range offsets counting from pos = start + 8 + 6 segCount + 2 *)
Theorem C07_ttf_format4_layout : forall pre x1 x2 x3 pad ecs scs idds idrs tail d,
  length scs = length ecs -> length idds = length ecs -> length idrs = length ecs ->
  forallb is_u16 ecs = true -> forallb is_u16 scs = true -> forallb is_u16 idds = true -> forallb is_u16 idrs = true ->
  2 * Z.of_nat (length ecs) < 65536 ->
  let f := (pre ++ fmt4_body x1 x2 x3 pad ecs scs idds idrs tail)%list in
  let p := Z.of_nat (length pre) in
  fmt4 f p d = fmt4_segs f (p + 8 + 6 * Z.of_nat (length ecs) + 2) 0 ecs scs idds idrs d.
Proof. exact fmt4_layout. Qed.

(* 16-bit big-endian arrays (end codes, start codes, deltas, range offsets, glyph indices) are read back as written,
   wherever in the program they stand *)
Theorem C07_ttf_array_read_back : forall pre l post, forallb is_u16 l = true ->
  u16s_at (pre ++ flat_map be16 l ++ post) (Z.of_nat (length pre)) (length l) = Some l.
Proof. exact u16s_at_written. Qed.

(* cid2unichr: what is reported for a glyph is a character the table maps to it; every mapped glyph is reported;
   a glyph with a single character gets exactly that character *)
Theorem C07_ttf_inversion_sound : forall d g u,
  umap_get (invert d) g = Some u -> exists c, In (c, g) d /\ u = [c].
Proof. exact invert_sound. Qed.
Theorem C07_ttf_inversion_complete : forall d c g, In (c, g) d -> umap_get (invert d) g <> None.
Proof. intros d c g. exact (invert_complete d [] c g). Qed.
Theorem C07_ttf_inversion_unique : forall d c g,
  In (c, g) d -> (forall c', In (c', g) d -> c' = c) -> umap_get (invert d) g = Some [c].
Proof. exact invert_unique. Qed.

Print Assumptions C07_segmentation.
Print Assumptions C07_unknown_byte.
Print Assumptions C07_identity.
Print Assumptions C07_identity_pair.
Print Assumptions C07_identity_odd.
Print Assumptions C07_identity_byte.
Print Assumptions C07_target.
Print Assumptions C07_bfchar.
Print Assumptions C07_lookup_newest.
Print Assumptions C07_lookup_other.
Print Assumptions C07_bfrange_increment.
Print Assumptions C07_bfrange_array.
Print Assumptions C07_widths.
Print Assumptions C07_vertical_default.
Print Assumptions C07_vertical_w2.
Print Assumptions C07_ttf_delta_segment.
Print Assumptions C07_ttf_range_segment.
Print Assumptions C07_ttf_format4.
Print Assumptions C07_ttf_format4_layout.
Print Assumptions C07_ttf_array_read_back.
Print Assumptions C07_ttf_inversion_sound.
Print Assumptions C07_ttf_inversion_complete.
Print Assumptions C07_ttf_inversion_unique.

(* non-vacuity *)
Example C07_ex_trie :
  let root := [(65, TLeaf 1); (129, TNode [(64, TLeaf 500); (65, TNode [(1, TLeaf 9)])])] in
  cmap_decode root [129; 64; 65; 7; 129; 65; 1; 129] = [500; 1; 9].
Proof. reflexivity. Qed.
Example C07_ex_bfrange :
  run_sections [] [SBfRange [TBytes [65]; TBytes [67]; TBytes [0; 97]; TBytes [70]; TBytes [71]; TList [TBytes [0;102;0;105]; TBytes [216;61;222;0]]]]
  = UOk [(71, [128512]); (70, [102; 105]); (67, [99]); (66, [98]); (65, [97])].
Proof. vm_compute. reflexivity. Qed.
Example C07_ex_w :
  let f := mkCID false (flat_map encode_entry [WRun 10 [500#1; 600#1]; WRange 11 20 (250#1)]) (1000#1) [] (880#1, (-1000)#1) in
  map (cid_width f) [9; 10; 11; 20; 21] = [1000#1; 500#1; 250#1; 250#1; 1000#1]%Q.
Proof. vm_compute. reflexivity. Qed.

From Coq Require Import String.
From PdfV Require Import Base.CV.
Open Scope string_scope.
(* a complete font program: directory, cmap with a (3,1) format-4 subtable of two segments (delta; range offset with
   a missing glyph), read from its bytes: U+0041..0042 -> glyphs 4, 5; U+0061 -> glyph 9, U+0062 has no glyph *)
Example C07_ex_ttf :
  let f := hx "00010000 0001 0000 0000 0000  636d6170 00000000 0000001c 00000038
               0000 0001  0003 0001 0000000c
               0004 002c 0000  0006 0000 0000 0000  0042 0062 ffff 0000  0041 0061 ffff  ffc3 0000 0001  0000 0004 0000  0009 0000" in
  match create_unicode_map f with
  | Some m => map (umap_get m) [4; 5; 9; 0; 7]
  | None => []
  end = [Some [65]; Some [66]; Some [97]; Some [65535]; None].
Proof. vm_compute. reflexivity. Qed.
