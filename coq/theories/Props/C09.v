(* C09 -- Layout grouping follows the documented margins; result is scale-invariant.
   Property theorems only (model: Model/Layout.v, see Props/C08.v).  The scale theorem covers the stage that is pure
   arithmetic (glyphs -> lines, word spaces) for EVERY positive rational factor; for the later stages, whose member
   order can depend on the fixed 50-unit grid of the spatial index, the harness checks powers of two. *)
From Coq Require Import ZArith QArith List Bool.
From PdfV Require Import Base.Num Gen.Geom Model.Plane Model.Layout Proofs.LayoutScaleProofs.
Import ListNotations.
Open Scope Q_scope.

Theorem C09_halign_rule : forall p a b,
  halign p a b = true <->
  is_voverlap a b = true /\ qmin (height a) (height b) * line_overlap p < voverlap a b /\
  hdistance a b < qmax (width a) (width b) * char_margin p.
Proof. exact halign_rule. Qed.
Theorem C09_valign_rule : forall p a b,
  valign p a b = true <->
  detect_vertical p = true /\ is_hoverlap a b = true /\ qmin (width a) (width b) * line_overlap p < hoverlap a b /\
  vdistance a b < qmax (height a) (height b) * char_margin p.
Proof. exact valign_rule. Qed.

(* consecutive glyphs are joined exactly when aligned *)
Theorem C09_joined_iff : forall p g0 g1 l r, is_h l = true ->
  go_loop p g0 (Some l) (g1 :: r) =
    if halign p (gbox g0) (gbox g1) then go_loop p g1 (Some (line_add p l g1)) r else l :: go_loop p g1 None r.
Proof. exact joined_iff_aligned. Qed.
Theorem C09_pair_joined_iff : forall p g0 g1 r, detect_vertical p = false ->
  go_loop p g0 None (g1 :: r) =
    if halign p (gbox g0) (gbox g1) then go_loop p g1 (Some (line_add p (line_add p (new_line OH) g0) g1)) r
    else line_add p (new_line OH) g0 :: go_loop p g1 None r.
Proof. exact pair_joined_iff. Qed.

(* a space exactly when the gap exceeds word_margin (relative to the new glyph's larger side) *)
Theorem C09_space_rule : forall p l g x1, lori l = OH -> llast l = Some x1 ->
  needs_space p l g = true <->
  ~ word_margin p == 0 /\ x1 < bx0 (gbox g) - word_margin p * qmax (width (gbox g)) (height (gbox g)).
Proof. exact space_rule. Qed.
Theorem C09_first_glyph_no_space : forall p o g, needs_space p (new_line o) g = false.
Proof. exact first_glyph_no_space. Qed.

(* scaling the page by any k > 0 leaves the lines and their spaces unchanged *)
Theorem C09_alignment_scale_free : forall k, 0 < k -> forall p a b,
  halign p (sb k a) (sb k b) = halign p a b /\ valign p (sb k a) (sb k b) = valign p a b.
Proof. intros k Hk p a b. split; [exact (halign_scale k Hk p a b)|exact (valign_scale k Hk p a b)]. Qed.
Theorem C09_lines_scale_invariant : forall k, 0 < k -> forall p gs,
  group_objects p (map (sg k) gs) = map (sl k) (group_objects p gs).
Proof. exact group_objects_scale. Qed.

Print Assumptions C09_halign_rule.
Print Assumptions C09_valign_rule.
Print Assumptions C09_joined_iff.
Print Assumptions C09_pair_joined_iff.
Print Assumptions C09_space_rule.
Print Assumptions C09_first_glyph_no_space.
Print Assumptions C09_alignment_scale_free.
Print Assumptions C09_lines_scale_invariant.

(* non-vacuity: a gap just below / just above the word margin *)
Example C09_ex :
  let p := mkLA (1 # 2) 2 (1 # 2) (1 # 8) (Some (1 # 2)) false in
  let g i x0 x1 := mkG i (x0, 100, x1, 108) [97%Z] in
  map line_text (group_objects p [g 0%nat 10 18; g 1%nat 19 27]) = [[97; 97]%Z] /\
  map line_text (group_objects p [g 0%nat 10 18; g 1%nat (153 # 8) (217 # 8)]) = [[97; 32; 97]%Z].
Proof. vm_compute. split; reflexivity. Qed.
