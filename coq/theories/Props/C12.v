(* C12 -- Extraction is a pure function: deterministic, cache- and history-independent.
   Property theorems only.  Model/Purity.v models the three ways one extraction could reach another: shared
   dictionaries handed out by EncodingDB.get_encoding (heap with aliasing), look-up-else-compute caches, and the
   interleaving of independent iterators.  The flags in Gen/Purity.v are read off the source on every run, together
   with the complete inventory of process-wide mutable containers (a new one makes the generator fail closed).
   What is NOT a theorem: that the rest of the library has no other hidden state (observed by the harness through
   call histories), and that the cached computations are functions of the document bytes. *)
From Coq Require Import ZArith List Bool.
From PdfV Require Import Gen.Purity Model.Purity Proofs.PurityProofs.
Import ListNotations.
Open Scope Z_scope.

(* copy-on-write: for the code as it is (the flag is generated from get_encoding's body), no sequence of fonts with
   any Differences changes a shared encoding table *)
Theorem C12_shared_tables_unchanged : forall specs h n, (n <= length h)%nat ->
  firstn n (fst (run_fonts encoding_copy_before_mutation h specs)) = firstn n h.
Proof. exact (shared_tables_unchanged_src eq_refl). Qed.
(* the statement is sensitive: without the copy it is false *)
Theorem C12_no_copy_refuted : exists h specs, firstn 1 (fst (run_fonts false h specs)) <> firstn 1 h.
Proof. exact no_copy_refuted. Qed.

(* caches: object cache, font cache, CMap caches, interned names -- answers do not depend on the cache being on, on
   its contents, or on the order of earlier requests *)
Theorem C12_cache_transparent : forall (K V : Type) (keqb : K -> K -> bool) (compute : K -> V),
  (forall a b, keqb a b = true -> a = b) ->
  forall caching ks c, sound K V keqb compute c -> cruns K V keqb compute caching c ks = map compute ks.
Proof. exact cache_transparent. Qed.
Theorem C12_caching_on_equals_off : forall (K V : Type) (keqb : K -> K -> bool) (compute : K -> V),
  (forall a b, keqb a b = true -> a = b) ->
  forall ks, cruns K V keqb compute true [] ks = cruns K V keqb compute false [] ks.
Proof. exact caching_on_equals_off. Qed.
(* the caches of the code are written only under their guards, and the font cache is keyed by the font dictionary's
   object number -- the hypothesis "the key determines the value" of C12_cache_transparent (read off the source) *)
Theorem C12_cache_guards : font_cache_guarded = true /\ object_cache_guarded = true /\ use_cmap_copies = true /\
                           type0_subspec_copied = true /\ font_cache_key_is_objid = true.
Proof. repeat split; reflexivity. Qed.

(* interleaving the page iterators of two documents changes nothing for either *)
Theorem C12_interleaving : forall (S1 S2 O1 O2 : Type) (step1 : S1 -> S1 * O1) (step2 : S2 -> S2 * O2) sched s1 s2,
  irun S1 S2 O1 O2 step1 step2 sched s1 s2 = (run1 S1 O1 step1 (count true sched) s1, run2 S2 O2 step2 (count false sched) s2).
Proof. exact interleaving_irrelevant. Qed.

Print Assumptions C12_shared_tables_unchanged.
Print Assumptions C12_no_copy_refuted.
Print Assumptions C12_cache_transparent.
Print Assumptions C12_caching_on_equals_off.
Print Assumptions C12_cache_guards.
Print Assumptions C12_interleaving.

(* non-vacuity *)
Example C12_ex :
  let h := [[(65, Some 65)]; []; []; []] in
  let r := run_fonts true h [(0%nat, [(65, Some 66)]); (0%nat, [])] in
  map (fun a => font_lookup (fst r) a 65) (snd r) = [Some 66; Some 65].
Proof. reflexivity. Qed.
