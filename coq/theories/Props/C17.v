(* C17 -- Page labels, outlines and named destinations follow their tree definitions;
   text strings decode per byte-order mark.  Property theorems only (Model/Labels.v mirrors
   data_structures.NumberTree, pdfdocument.PageLabels / lookup_name / get_outlines and
   utils.format_int_roman / format_int_alpha / decode_text; PDFDocEncoding and the roman digit
   tables are regenerated from utils.py). *)
From Coq Require Import ZArith List Bool Permutation.
From PdfV Require Import Base.CV Gen.TextTables Model.Labels Model.LabelsRun Proofs.LabelsProofs Proofs.TreeLookupProofs.
Import ListNotations.
Open Scope Z_scope.

(* number trees of any shape: the values are exactly the leaf entries, sorted by key *)
Theorem C17_numbertree : forall (V : Type) (t : numtree V),
  Permutation (nt_parse t) (nt_values t) /\ sortedk V (nt_values t).
Proof. exact numtree_values. Qed.

(* page labels: for ranges sorted by start with page 0 first, the k-th label produced is
   prefix ++ numeral(St + (k - start)) of the last range starting at or before k, for EVERY k *)
Theorem C17_label : forall ranges ld k, sorted_starts ((0, ld) :: ranges) -> 0 <= k ->
  label_at ((0, ld) :: ranges) k = spec_label ((0, ld) :: ranges) k.
Proof. exact label_at_iso. Qed.

Theorem C17_roman : forall n, 0 < n < 4000 -> format_int_roman n = Some (spec_roman n).
Proof. exact roman_all. Qed.

Theorem C17_roman_outside : forall n, n <= 0 \/ 4000 <= n -> format_int_roman n = None.
Proof. exact roman_outside. Qed.

(* FULL STATEMENT (ISO 12.4.2): forall n > 0, format_int_alpha n = Some (spec_alpha n).
   It is FALSE of the code (known finding C17-alpha27, pinned by tests/test_utils.py): *)
Theorem C17_alpha_refuted : exists n, 0 < n /\ format_int_alpha n <> Some (spec_alpha n).
Proof. exact alpha_refuted. Qed.
(* what holds: the first 26 values *)
Theorem C17_alpha_partial : forall n, 0 < n <= 26 -> format_int_alpha n = Some (spec_alpha n).
Proof. exact alpha_first26. Qed.

(* named destinations: on every well-formed name tree (Limits bound their subtrees, sibling
   subtrees separated by their Limits, leaves functional, truthy values), of any shape, a present
   name yields its destination and an absent one the not-found error *)
Theorem C17_nametree : forall (k : key) (t : nametree), wf_nm t -> nlimits t = None ->
  (forall v, In (k, v) (nm_entries t) -> nm_lookup k t = Found v) /\
  ((forall v, ~ In (k, v) (nm_entries t)) -> nm_lookup k t = KeyErr).
Proof. exact nm_lookup_root. Qed.

(* outlines: on every honest forest the entries come in document (pre)order with their levels *)
Theorem C17_outline : forall st fuel sibs level, odescs st sibs -> (fsize sibs < fuel)%nat ->
  match head_id sibs with
  | Some i => osearch fuel st i level = Some (flat_map (spec_outline level) sibs)
  | None => True
  end.
Proof. exact osearch_forest. Qed.

(* text strings *)
Theorem C17_textstring_utf16 : forall cps, Forall scalar cps ->
  decode_text (254 :: 255 :: flat_map enc16 cps) = cps.
Proof. exact decode_utf16. Qed.

Theorem C17_textstring_pdfdoc : forall s, (forall r, s <> 254 :: 255 :: r) ->
  decode_text s = map (fun c => nth (Z.to_nat c) PDFDocEncoding 0) s.
Proof. exact decode_pdfdoc. Qed.

(* non-vacuity *)
Example C17_nonvacuous :
  (* a two-level name tree (ISO-conformant Limits), with a hit and a miss *)
  let t := NM None None (Some [NM (Some ([97], [98])) (Some [([97], 11); ([98], 12)]) None;
                               NM (Some ([99], [100; 1])) None
                                  (Some [NM (Some ([99], [99])) (Some [([99], 13)]) None;
                                         NM (Some ([100], [100; 1])) (Some [([100], 14); ([100; 1], 15)]) None])]) in
  (nm_lookup [100; 1] t = Found 15 /\ nm_lookup [98; 0] t = KeyErr) /\
  (* labels: i ii iii 1 2 A-7 A-8 ... *)
  (let ranges := [(0, mkLD Sr [] 1); (3, mkLD SD [] 1); (5, mkLD SD [65; 45] 7)] in
   sorted_starts ranges /\ map (label_at ranges) [0; 2; 3; 4; 5; 100]
   = [Some (Label [105]); Some (Label [105; 105; 105]); Some (Label [49]); Some (Label [50]);
      Some (Label [65; 45; 55]); Some (Label [65; 45; 49; 48; 50])]) /\
  (* an outline forest with a nested child *)
  (let st := [(5, mkO None false (Some 6) (Some 8) None); (6, mkO (Some 60) true (Some 7) (Some 7) (Some 8));
              (7, mkO (Some 70) true None None None); (8, mkO (Some 80) false None None None)] in
   odescs st [OT 6 60 true [OT 7 70 true []]; OT 8 80 false []] /\
   osearch 10 st 6 1 = Some [(1, 60); (2, 70)]).
Proof.
  cbv zeta. repeat split; try (vm_compute; reflexivity); try (vm_compute; intuition congruence).
Qed.

Print Assumptions C17_numbertree.
Print Assumptions C17_label.
Print Assumptions C17_roman.
Print Assumptions C17_roman_outside.
Print Assumptions C17_alpha_refuted.
Print Assumptions C17_alpha_partial.
Print Assumptions C17_nametree.
Print Assumptions C17_outline.
Print Assumptions C17_textstring_utf16.
Print Assumptions C17_textstring_pdfdoc.
Print Assumptions C17_nonvacuous.
