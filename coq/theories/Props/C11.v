(* C11 -- Converters: text output is the tree's text; XML is well-formed and faithful.
   Property theorems only.  Model/Convert.v mirrors utils.enc, TextConverter.receive_layout and
   XMLConverter.receive_layout / write_text / header / footer.  Number formatting ("%.3f", "%d") and the codecs are
   Python's; they are exercised by the harness, not modelled. *)
From Coq Require Import ZArith List Bool.
From PdfV Require Import Model.Convert Proofs.ConvertProofs.
Import ListNotations.
Open Scope Z_scope.

(* the plain-text output is the in-order concatenation of the tree's text: one line break after each text box,
   one form feed after each page *)
Theorem C11_text_pages : forall p ps, text_output (p :: ps) = page_text p ++ text_output ps.
Proof. exact text_of_pages. Qed.
Theorem C11_text_page : forall p, page_text p = flat_map item_text (pitems p) ++ [12].
Proof. exact text_of_page. Qed.
Theorem C11_text_box : forall b, item_text (IBox b) = flat_map line_text (tblines b) ++ [10].
Proof. exact text_of_box. Qed.
Theorem C11_text_line : forall l, item_text (ILine l) = flat_map elem_text (tlelems l).
Proof. exact text_of_line. Qed.
Theorem C11_text_figure : forall n bb kids, item_text (IFigure n bb kids) = flat_map item_text kids.
Proof. exact text_of_figure. Qed.

(* escaping: no markup character survives, and a reader decoding the entities recovers EVERY string exactly *)
Theorem C11_escape_safe : forall s, Forall (fun c => c <> 60 /\ c <> 62 /\ c <> 34 /\ c <> 39) (escape s).
Proof. exact escape_safe. Qed.
Theorem C11_escape_roundtrip : forall s fuel, (length (escape s) <= fuel)%nat -> unescape fuel (escape s) = s.
Proof. exact unescape_escape. Qed.
Theorem C11_strip_control : forall s, Forall (fun c => is_control c = false) (strip_control s).
Proof. exact strip_control_clean. Qed.
Theorem C11_strip_keeps : forall s, Forall (fun c => is_control c = false) s -> strip_control s = s.
Proof. exact strip_control_keeps. Qed.

(* the XML element structure is well nested for every document: pages, figures nested to any depth, boxes, lines,
   glyphs, the layout group hierarchy *)
Theorem C11_xml_well_nested : forall strip pages, nest (body_tokens strip pages) [] = Some [].
Proof. exact xml_well_nested. Qed.

(* faithful: glyph text and document-controlled names come back from the output *)
Theorem C11_glyph_data : forall c,
  unescape (length (xml_write_text false (ctext c))) (xml_write_text false (ctext c)) = ctext c.
Proof. exact glyph_data_roundtrip. Qed.
Theorem C11_glyph_data_stripped : forall c,
  unescape (length (xml_write_text true (ctext c))) (xml_write_text true (ctext c)) = strip_control (ctext c) /\
  Forall (fun ch => is_control ch = false) (strip_control (ctext c)).
Proof. exact glyph_data_stripped. Qed.
Theorem C11_names : forall name : str,
  unescape (length (escape name)) (escape name) = name /\ Forall (fun c => c <> 60 /\ c <> 62 /\ c <> 34 /\ c <> 39) (escape name).
Proof. exact name_attribute_roundtrip. Qed.

Print Assumptions C11_text_pages.
Print Assumptions C11_text_page.
Print Assumptions C11_text_box.
Print Assumptions C11_text_line.
Print Assumptions C11_text_figure.
Print Assumptions C11_escape_safe.
Print Assumptions C11_escape_roundtrip.
Print Assumptions C11_strip_control.
Print Assumptions C11_strip_keeps.
Print Assumptions C11_xml_well_nested.
Print Assumptions C11_glyph_data.
Print Assumptions C11_glyph_data_stripped.
Print Assumptions C11_names.

(* non-vacuity *)
Example C11_ex_escape : escape [97; 60; 38; 34; 39; 62] = [97] ++ s_lt ++ s_amp ++ s_quot ++ s_apos ++ s_gt.
Proof. reflexivity. Qed.
Example C11_ex_text :
  let c t := mkChr [70] [] [] [] [] t in
  text_output [mkPage [49] [] [48] [IBox (mkTBox [48] [] false [mkTLine [] [LChar (c [72]); LChar (c [105]); LAnno [10]]]);
                                   IFigure [88] [] [IChar (c [33])]] None]
  = [72; 105; 10; 10; 33; 12].
Proof. reflexivity. Qed.
