(* C19 with EncodedByteAlign: every row starts on a byte boundary; the bits between the end of a row's last element
   and the next byte boundary are skipped, whatever they are. *)
From Coq Require Import ZArith List Bool Lia ZifyBool.
From PdfV Require Import Gen.CCITTTables Spec.T6Tables Model.CCITT Proofs.CCITTProofs Proofs.CCITTModeProofs
  Proofs.CCITTGlueProofs Proofs.CCITTEncode.
Import ListNotations.
Open Scope Z_scope.

(* ---------- no early stop: proper prefixes of a code keep the parser going ---------------------------------- *)
Definition cur_walk (s : g4) (acc : list bool) : bool :=
  match gacc s with
  | AMode => match trie_at MODE acc with WNode => true | _ => false end
  | _ => match trie_at (table_of s) acc with WNode => true | _ => false end
  end.

Lemma parse_bit_cont s b : cur_walk s (gbits s ++ [b]) = true -> parse_bit s b = BCont (with_bits s (gbits s ++ [b])).
Proof.
  unfold cur_walk, parse_bit, table_of, with_bits. destruct (gacc s).
  - destruct (trie_at MODE (gbits s ++ [b])); try discriminate. reflexivity.
  - destruct (trie_at _ (gbits s ++ [b])); try discriminate. reflexivity.
  - destruct (trie_at _ (gbits s ++ [b])); try discriminate. reflexivity.
Qed.

Lemma cur_walk_bits s q acc : cur_walk (with_bits s q) acc = cur_walk s acc.
Proof. reflexivity. Qed.

Lemma walk_prefix : forall p s pre, gbits s = pre ->
  (forall p1 p2, p = p1 ++ p2 -> p1 <> [] -> cur_walk s (pre ++ p1) = true) ->
  feed_bits s p = BCont (with_bits s (pre ++ p)).
Proof.
  induction p as [|b p IH]; intros s pre Hb H.
  - cbn [feed_bits]. rewrite app_nil_r. f_equal. destruct s; cbn in *; subst; reflexivity.
  - cbn [feed_bits]. rewrite parse_bit_cont by (rewrite Hb; apply (H [b] p eq_refl); discriminate). rewrite Hb.
    rewrite (IH (with_bits s (pre ++ [b])) (pre ++ [b]) eq_refl).
    + unfold with_bits. cbn [gwidth galign refline curline gcurpos gcolor lines gtab gacc gn1 gn2]. rewrite <- app_assoc. reflexivity.
    + intros p1 p2 Hp Hne. rewrite cur_walk_bits, <- app_assoc. apply (H (b :: p1) p2); [cbn; rewrite Hp; reflexivity|discriminate].
Qed.

Definition steady (s : g4) (bits : list bool) : Prop :=
  forall p q, bits = p ++ q -> q <> [] -> exists y, feed_bits s p = BCont y.

Lemma app_eq_app_cases {A} (a b p q : list A) : a ++ b = p ++ q ->
  (exists l, a = p ++ l /\ q = l ++ b) \/ (exists l, p = a ++ l /\ b = l ++ q).
Proof.
  revert p. induction a as [|x a IH]; intros p H.
  - right. exists p. auto.
  - destruct p as [|y p]; [left; exists (x :: a); cbn in *; auto|].
    cbn in H. inversion H; subst. destruct (IH p H2) as [(l & E1 & E2)|(l & E1 & E2)].
    + left. exists l. subst. auto.
    + right. exists l. subst. auto.
Qed.

Lemma steady_app s a b y : steady s a -> feed_bits s a = BCont y -> steady y b -> steady s (a ++ b).
Proof.
  intros Sa Fa Sb p q H Hq. destruct (app_eq_app_cases a b p q H) as [(l & E1 & E2)|(l & E1 & E2)].
  - destruct l as [|x l].
    + rewrite app_nil_r in E1. subst p. exists y. exact Fa.
    + apply (Sa p (x :: l) E1). discriminate.
  - subst p. rewrite (feed_bits_app _ _ _ _ Fa). apply (Sb l q E2 Hq).
Qed.

Lemma steady_nil s : steady s [].
Proof. intros p q H Hq. destruct p; [|discriminate]. destruct q; [congruence|discriminate]. Qed.

(* a complete code, read from a state with no pending bits *)
Lemma code_steady_mode s m code : gacc s = AMode -> gbits s = [] -> In (m, code) MODE -> steady s code.
Proof.
  intros Ha Hb Hin p q Hc Hq. exists (with_bits s ([] ++ p)). apply walk_prefix; [exact Hb|].
  intros p1 p2 Hp Hne. unfold cur_walk. rewrite Ha. cbn [app].
  destruct (trie_walk MODE m code pf_mode fn_mode Hin) as [_ Hnode].
  rewrite (Hnode p1 (p2 ++ q)); [reflexivity| |destruct p2; [exact Hq|discriminate]].
  rewrite Hc, Hp, <- app_assoc. reflexivity.
Qed.
Lemma code_steady_run s n code : gacc s <> AMode -> gbits s = [] -> In (n, code) (table_of s) -> steady s code.
Proof.
  intros Ha Hb Hin p q Hc Hq. exists (with_bits s ([] ++ p)). apply walk_prefix; [exact Hb|].
  intros p1 p2 Hp Hne. unfold cur_walk. destruct (table_facts s) as [Hpf Hfn].
  destruct (trie_walk (table_of s) n code Hpf Hfn Hin) as [_ Hnode].
  assert (W : trie_at (table_of s) ([] ++ p1) = WNode).
  { cbn [app]. apply (Hnode p1 (p2 ++ q)); [rewrite Hc, Hp, <- app_assoc; reflexivity|destruct p2; [exact Hq|discriminate]]. }
  destruct (gacc s); [congruence|rewrite W; reflexivity|rewrite W; reflexivity].
Qed.

(* ---------- elements, with or without alignment ------------------------------------------------------------------- *)
Definition flushes (x : g4) : bool := gwidth x <=? gcurpos x.

Lemma after_coding_cases x : exists x', ready x' /\ core x' = core (fst (flush_line x)) /\
  after_coding x = if flushes x && galign x then BSkip x' else BCont x'.
Proof.
  unfold after_coding, flush_line, flushes. destruct (gwidth x <=? gcurpos x).
  - destruct (galign x); eexists; (split; [|split]); [| |cbn [andb]; reflexivity| | |cbn [andb]; reflexivity];
      try (split; reflexivity); reflexivity.
  - eexists. (split; [|split]); [| |cbn [andb]; reflexivity]; try (split; reflexivity); reflexivity.
Qed.

Definition outcome (stop : bool) (x : g4) : bres := if stop then BSkip x else BCont x.

Lemma run_steady_h1 : forall (mk : list (Z * list bool)) s t tcode,
  gacc s = AH1 -> gbits s = [] -> gtab s = colour_table (gcolor s) ->
  Forall (fun e => In e (table_of s) /\ 64 <= fst e /\ snd e <> []) mk ->
  In (t, tcode) (table_of s) -> steady s (flat_map snd mk ++ tcode).
Proof.
  induction mk as [|[m mcode] mk IH]; intros s t tcode Ha Hb Ht Hmk Hin.
  - cbn [flat_map app]. apply (code_steady_run s t tcode); [congruence|exact Hb|exact Hin].
  - inversion Hmk as [|? ? (Hm & Hge & Hmne) Hmk']; subst. cbn [fst snd] in *.
    cbn [flat_map]. rewrite <- app_assoc.
    assert (Es : s = with_bits s []) by (destruct s; cbn in *; subst; reflexivity).
    pose proof (walk_h1 s m mcode Ha Hm Hmne [] mcode eq_refl Hmne) as Hw. rewrite <- Es in Hw.
    unfold accept_h1 in Hw. assert (E64 : (m <? 64) = false) by (apply Z.ltb_ge; lia). rewrite E64 in Hw.
    apply (steady_app s mcode _ _ (code_steady_run s m mcode ltac:(congruence) Hb Hm) Hw).
    set (s1 := goto s (colour_table (gcolor s)) AH1 (gn1 s + m) (gn2 s)).
    assert (Htab : table_of s1 = table_of s) by (unfold table_of, s1; cbn [gtab goto]; rewrite <- Ht; reflexivity).
    apply (IH s1 t tcode); try reflexivity; rewrite Htab; assumption.
Qed.

(* second run: result with alignment taken into account, and steadiness *)
Lemma run_length_h2_al : forall (mk : list (Z * list bool)) s t tcode,
  gacc s = AH2 -> gbits s = [] -> gtab s = colour_table (gcolor s) ->
  Forall (fun e => In e (table_of s) /\ 64 <= fst e /\ snd e <> []) mk ->
  In (t, tcode) (table_of s) -> t < 64 -> tcode <> [] ->
  let y := do_horizontal (set_color s (1 - gcolor s)) (gn1 s) (gn2 s + sum_mk mk + t) in
  steady s (flat_map snd mk ++ tcode) /\
  exists x, feed_bits s (flat_map snd mk ++ tcode) = outcome (flushes y && galign s) x /\ ready x /\
            core x = core (fst (flush_line y)).
Proof.
  induction mk as [|[m mcode] mk IH]; intros s t tcode Ha Hb Ht Hmk Hin Hlt Hne; cbv zeta.
  - cbn [flat_map app sum_mk fold_right]. split; [apply (code_steady_run s t tcode); [congruence|exact Hb|exact Hin]|].
    assert (Es : s = with_bits s []) by (destruct s; cbn in *; subst; reflexivity).
    assert (W : feed_bits s tcode = accept_h2 s t)
      by (rewrite Es at 1; apply (walk_h2 s t tcode Ha Hin Hne [] tcode eq_refl Hne)).
    rewrite W. unfold accept_h2. apply Z.ltb_lt in Hlt. rewrite Hlt.
    replace (gn2 s + 0 + t) with (gn2 s + t) by lia.
    set (y := do_horizontal (set_color s (1 - gcolor s)) (gn1 s) (gn2 s + t)).
    destruct (after_coding_cases y) as (x & Rx & Cx & E).
    assert (Hal : galign y = galign s) by reflexivity. rewrite Hal in E.
    exists x. rewrite E. unfold outcome. auto.
  - inversion Hmk as [|? ? (Hm & Hge & Hmne) Hmk']; subst. cbn [fst snd] in *.
    cbn [flat_map]. rewrite <- app_assoc.
    assert (Es : s = with_bits s []) by (destruct s; cbn in *; subst; reflexivity).
    pose proof (walk_h2 s m mcode Ha Hm Hmne [] mcode eq_refl Hmne) as Hw. rewrite <- Es in Hw.
    unfold accept_h2 in Hw. assert (E64 : (m <? 64) = false) by (apply Z.ltb_ge; lia). rewrite E64 in Hw.
    set (s1 := goto s (colour_table (gcolor s)) AH2 (gn1 s) (gn2 s + m)) in *.
    assert (Htab : table_of s1 = table_of s) by (unfold table_of, s1; cbn [gtab goto]; rewrite <- Ht; reflexivity).
    destruct (IH s1 t tcode) as (St & x & Ex & Rx & Cx); try reflexivity; try assumption;
      [rewrite Htab; exact Hmk'|rewrite Htab; exact Hin|]. cbv zeta in *.
    split.
    + apply (steady_app s mcode _ _ (code_steady_run s m mcode ltac:(congruence) Hb Hm) Hw St).
    + rewrite (feed_bits_app _ _ _ _ Hw).
      assert (Earg : gn2 s1 + sum_mk mk + t = gn2 s + sum_mk ((m, mcode) :: mk) + t)
        by (subst s1; cbn [gn2 goto]; unfold sum_mk; cbn [fold_right fst]; lia).
      rewrite Earg in *.
      set (y1 := do_horizontal (set_color s1 (1 - gcolor s1)) (gn1 s1) (gn2 s + sum_mk ((m, mcode) :: mk) + t)) in *.
      set (y := do_horizontal (set_color s (1 - gcolor s)) (gn1 s) (gn2 s + sum_mk ((m, mcode) :: mk) + t)).
      assert (Ey : core y1 = core y) by reflexivity.
      assert (Ef : flushes y1 = flushes y) by reflexivity.
      assert (Ea : galign s1 = galign s) by reflexivity.
      exists x. rewrite Ex, Ef, Ea. split; [reflexivity|]. split; [exact Rx|]. rewrite Cx.
      subst y1 y. apply core_horiz_flush; reflexivity.
Qed.

Theorem elem_feeds_al s o bits : ready s -> elem_code (gcolor s) o bits ->
  steady s bits /\
  exists x, feed_bits s bits = outcome (flushes (apply_op s o) && galign s) x /\ ready x /\ core x = core (apply_flush s o).
Proof.
  intros Hr He. pose proof (ready_with_bits s Hr) as Es. destruct Hr as [Ha Hb].
  destruct He as [code Hin|d code Hin|n1 n2 hcode b1 b2 Hin R1 R2].
  - pose proof (mode_code_nonempty _ _ Hin) as Hne. split; [apply (code_steady_mode s MP code Ha Hb Hin)|].
    assert (W : feed_bits s code = accept_mode s MP)
      by (rewrite Es at 1; apply (walk_mode s MP code Ha Hin Hne I [] code eq_refl Hne)).
    rewrite W. cbn [accept_mode apply_op].
    destruct (after_coding_cases (do_pass s)) as (x & Rx & Cx & E).
    assert (Hal : galign (do_pass s) = galign s) by reflexivity. rewrite Hal in E.
    exists x. rewrite E. unfold outcome, apply_flush. auto.
  - pose proof (mode_code_nonempty _ _ Hin) as Hne. split; [apply (code_steady_mode s (MV d) code Ha Hb Hin)|].
    assert (W : feed_bits s code = accept_mode s (MV d))
      by (rewrite Es at 1; apply (walk_mode s (MV d) code Ha Hin Hne I [] code eq_refl Hne)).
    rewrite W. cbn [accept_mode apply_op].
    destruct (after_coding_cases (do_vertical s d)) as (x & Rx & Cx & E).
    assert (Hal : galign (do_vertical s d) = galign s) by reflexivity. rewrite Hal in E.
    exists x. rewrite E. unfold outcome, apply_flush. auto.
  - pose proof (mode_code_nonempty _ _ Hin) as Hne.
    assert (W : feed_bits s hcode = BCont (goto s (colour_table (gcolor s)) AH1 0 (gn2 s))).
    { rewrite Es at 1. rewrite (walk_mode s MH hcode Ha Hin Hne I [] hcode eq_refl Hne). reflexivity. }
    set (s1 := goto s (colour_table (gcolor s)) AH1 0 (gn2 s)) in *.
    destruct R1 as (mk1 & t1 & tc1 & F1 & I1 & L1 & N1 & B1 & S1).
    destruct R2 as (mk2 & t2 & tc2 & F2 & I2 & L2 & N2 & B2 & S2).
    assert (T1 : table_of s1 = ctable (gcolor s)) by reflexivity.
    pose proof (run_length_h1 mk1 s1 t1 tc1 eq_refl eq_refl eq_refl) as H1.
    rewrite T1 in H1. specialize (H1 F1 I1 L1 N1). rewrite <- B1 in H1.
    assert (St1 : steady s1 b1).
    { rewrite B1. apply (run_steady_h1 mk1 s1 t1 tc1); try reflexivity; rewrite T1; assumption. }
    set (s2 := goto (set_color s1 (1 - gcolor s1)) (colour_table (1 - gcolor s1)) AH2
                    (gn1 s1 + fold_right (fun e a => fst e + a) 0 mk1 + t1) 0) in *.
    assert (T2 : table_of s2 = ctable (1 - gcolor s)) by reflexivity.
    destruct (run_length_h2_al mk2 s2 t2 tc2 eq_refl eq_refl eq_refl) as (St2 & x & Ex & Rx & Cx);
      [rewrite T2; exact F2|rewrite T2; exact I2|exact L2|exact N2|]. cbv zeta in *.
    rewrite <- B2 in Ex, St2.
    split.
    + apply (steady_app s hcode _ _ (code_steady_mode s MH hcode Ha Hb Hin) W).
      apply (steady_app s1 b1 _ _ St1 H1 St2).
    + rewrite (feed_bits_app _ _ _ _ W), (feed_bits_app _ _ _ _ H1).
      set (y2 := do_horizontal (set_color s2 (1 - gcolor s2)) (gn1 s2) (gn2 s2 + sum_mk mk2 + t2)) in *.
      assert (Ecore : core y2 = core (do_horizontal s n1 n2)).
      { subst y2 s2 s1. unfold do_horizontal, set_line, set_color, goto, core.
        cbn [gwidth galign refline curline gcurpos gcolor lines gtab gacc gbits gn1 gn2].
        replace (1 - (1 - gcolor s)) with (gcolor s) by lia.
        replace (0 + fold_right (fun e a => fst e + a) 0 mk1 + t1) with n1 by (unfold sum_mk in S1; lia).
        replace (0 + sum_mk mk2 + t2) with n2 by lia. reflexivity. }
      assert (Ef : flushes y2 = flushes (do_horizontal s n1 n2)).
      { exact (f_equal (fun c : Z * bool * list Z * list Z * Z * Z * list (list Z) => match c with (w, _, _, _, p, _, _) => w <=? p end) Ecore). }
      assert (Ea : galign s2 = galign s) by reflexivity.
      exists x. rewrite Ex, Ef, Ea. cbn [apply_op]. split; [reflexivity|]. split; [exact Rx|]. rewrite Cx.
      unfold apply_flush. cbn [apply_op]. clearbody y2.
      set (y := do_horizontal s n1 n2) in *. clearbody y.
      destruct y2 as [xw xa xr xc xp xk xl xt xac xb xn1 xn2], y as [yw ya yr yc yp yk yl yt yac yb yn1 yn2].
      unfold core in Ecore. cbn [gwidth galign refline curline gcurpos gcolor lines] in Ecore.
      inversion Ecore; subst. unfold flush_line, core. cbn [gwidth galign refline curline gcurpos gcolor lines].
      match goal with |- context [if ?c then _ else _] => destruct c end; reflexivity.
Qed.

(* ---------- a whole row ----------------------------------------------------------------------------------------------- *)
Lemma core_apply_op x y o : core x = core y -> core (apply_op x o) = core (apply_op y o).
Proof.
  destruct x as [xw xa xr xc xp xk xl xt xac xb xn1 xn2], y as [yw ya yr yc yp yk yl yt yac yb yn1 yn2]. unfold core.
  cbn [gwidth galign refline curline gcurpos gcolor lines]. intros H. inversion H; subst.
  destruct o; reflexivity.
Qed.
Lemma flushes_core x y : core x = core y -> flushes x = flushes y.
Proof.
  intros H. exact (f_equal (fun c : Z * bool * list Z * list Z * Z * Z * list (list Z) => match c with (w, _, _, _, p, _, _) => w <=? p end) H).
Qed.

Section RowAl.
Variables ref row : list Z.
Hypothesis Hlen : length ref = length row.
Hypothesis HW : 0 < wid row.
Hypothesis Hbin : bin row.

Lemma step_any s o ops : rowinv ref row s -> gcurpos s < wid row -> coding ref row (gcurpos s) (gcolor s) (o :: ops) ->
  rowinv ref row (apply_op s o) /\ coding ref row (gcurpos (apply_op s o)) (gcolor (apply_op s o)) ops.
Proof.
  intros I Hp C. inversion C as [c E|a0 c b1 b2 a1 ops0 Hp0 Hb1 Hb2 Ha1 Hlt C0|a0 c b1 a1 d ops0 Hp0 Hb1 Ha1 Hd Hr C0|a0 c a1 a2 ops0 Hp0 Ha1 Ha2 C0]; subst; cbn [apply_op].
  - destruct (step_pass ref row Hlen HW s b1 b2 a1 I Hp Hb1 Hb2 Ha1 Hlt) as (I' & P' & C'). rewrite P', C'. auto.
  - destruct (step_vert ref row Hlen HW Hbin s b1 (b1 + d) d I Hp Hb1 Ha1 eq_refl) as (I' & P' & C'). rewrite P', C'. auto.
  - destruct (step_horiz ref row Hlen HW Hbin s a1 a2 I Hp Ha1 Ha2) as (I' & P' & C'). cbv zeta in *. rewrite P', C'. auto.
Qed.

Lemma elem_bits_nonempty c o b : elem_code c o b -> b <> [].
Proof.
  intros H. destruct H as [code Hin|d code Hin|n1 n2 hcode b1 b2 Hin R1 R2].
  - apply (mode_code_nonempty _ _ Hin).
  - apply (mode_code_nonempty _ _ Hin).
  - pose proof (mode_code_nonempty _ _ Hin) as Hne. destruct hcode; [congruence|discriminate].
Qed.

Theorem row_feeds_al : forall ops s bits x, rowinv ref row s -> gcurpos s < wid row ->
  coding ref row (gcurpos s) (gcolor s) ops -> ops_bits s ops bits -> ready x -> core x = core s ->
  bits <> [] /\ steady x bits /\
  exists x', feed_bits x bits = outcome (galign s) x' /\ ready x' /\ core x' = core (fold_left apply_flush ops s).
Proof.
  induction ops as [|o ops IH]; intros s bits x I Hp C B Rx Cx.
  - inversion C; subst. lia.
  - inversion B as [|s0 o0 ops0 b bs He Hrest]; subst.
    destruct (step_any s o ops I Hp C) as (I1 & C1).
    assert (Hcol : gcolor x = gcolor s) by (apply core_color; exact Cx).
    rewrite <- Hcol in He.
    destruct (elem_feeds_al x o b Rx He) as (Sb & x1 & E1 & R1 & K1).
    assert (Kop : core (apply_op x o) = core (apply_op s o)) by (apply core_apply_op; exact Cx).
    assert (Kfl : core x1 = core (apply_flush s o)) by (rewrite K1; apply core_apply_flush; exact Cx).
    rewrite (flushes_core _ _ Kop), (core_align x s Cx) in E1.
    pose proof (elem_bits_nonempty _ _ _ He) as Hbne.
    pose proof (ri_pos _ _ _ I1) as Pp. pose proof (ri_w _ _ _ I1) as Pw.
    split; [destruct b; [congruence|discriminate]|].
    destruct (Z_lt_le_dec (gcurpos (apply_op s o)) (wid row)) as [Hm|Hge].
    + assert (Ef : flushes (apply_op s o) = false) by (unfold flushes; lia). rewrite Ef in E1. cbn [andb outcome] in E1.
      assert (Eaf : apply_flush s o = apply_op s o).
      { unfold apply_flush. rewrite (flush_mid ref row _ I1 Hm). reflexivity. }
      rewrite Eaf in *.
      destruct (IH (apply_op s o) bs x1 I1 Hm C1 Hrest R1 Kfl) as (_ & Sbs & x2 & E2 & R2 & K2).
      split; [apply (steady_app x b bs x1 Sb E1 Sbs)|].
      exists x2. rewrite (feed_bits_app _ _ _ _ E1), E2. cbn [fold_left]. rewrite Eaf.
      assert (Hal : galign (apply_op s o) = galign s) by (destruct o; reflexivity). rewrite Hal. auto.
    + assert (Hq : gcurpos (apply_op s o) = wid row) by lia.
      rewrite Hq in C1. apply coding_end in C1. subst ops. inversion Hrest; subst. rewrite app_nil_r.
      assert (Ef : flushes (apply_op s o) = true) by (unfold flushes; lia). rewrite Ef in E1. cbn [andb] in E1.
      split; [exact Sb|]. exists x1. cbn [fold_left]. auto.
Qed.
End RowAl.

(* ---------- bytes: a row's bits, padded with fewer than eight arbitrary bits, as whole bytes ------------------- *)
Lemma length_bits_of_byte byte : length (bits_of_byte byte) = 8%nat.
Proof. reflexivity. Qed.

Lemma steady_tail s a b y : steady s (a ++ b) -> feed_bits s a = BCont y -> steady y b.
Proof.
  intros S Fa p q H Hq. destruct (S (a ++ p) q) as (z & Ez); [rewrite H, app_assoc; reflexivity|exact Hq|].
  rewrite (feed_bits_app _ _ _ _ Fa) in Ez. exists z. exact Ez.
Qed.

Lemma feedbytes_row : forall rb x bits pad x' rest, bits <> [] -> steady x bits -> feed_bits x bits = BSkip x' ->
  flat_map bits_of_byte rb = bits ++ pad -> (length pad <= 7)%nat ->
  feedbytes x (rb ++ rest) = feedbytes x' rest.
Proof.
  induction rb as [|byte r IH]; intros x bits pad x' rest Hne St F Hd Hp.
  - cbn in Hd. destruct bits; [congruence|discriminate].
  - cbn [flat_map] in Hd. cbn [app feedbytes].
    pose proof (length_bits_of_byte byte) as L8.
    destruct (Nat.le_gt_cases (length bits) 8) as [Hle|Hgt].
    + (* the row ends inside this byte: it is the last byte *)
      assert (Hr : r = []).
      { apply (f_equal (@length bool)) in Hd. rewrite !app_length, L8 in Hd.
        destruct r as [|b2 r2]; [reflexivity|]. cbn [flat_map] in Hd. rewrite app_length, (length_bits_of_byte b2) in Hd. lia. }
      subst r. cbn [flat_map] in Hd. rewrite app_nil_r in Hd.
      rewrite Hd, feed_bits_app_cases, F. reflexivity.
    + (* the byte is a proper prefix of the row's bits *)
      assert (Hsplit : exists tl, bits = bits_of_byte byte ++ tl /\ tl <> [] /\ flat_map bits_of_byte r = tl ++ pad).
      { exists (skipn 8 bits). assert (E8 : firstn 8 bits = bits_of_byte byte).
        { apply (f_equal (firstn 8)) in Hd. rewrite firstn_app, L8 in Hd. replace (8 - 8)%nat with 0%nat in Hd by lia.
          rewrite firstn_O, app_nil_r in Hd. rewrite <- L8 in Hd at 1. rewrite firstn_all in Hd.
          rewrite firstn_app in Hd. replace (8 - length bits)%nat with 0%nat in Hd by lia. rewrite firstn_O, app_nil_r in Hd.
          symmetry. exact Hd. }
        split; [rewrite <- E8; symmetry; apply firstn_skipn|].
        split.
        - intros Hs. apply (f_equal (@length bool)) in Hs. rewrite skipn_length in Hs. cbn in Hs. lia.
        - rewrite <- (firstn_skipn 8 bits) in Hd at 1. rewrite E8, <- app_assoc in Hd. apply app_inv_head in Hd. exact Hd. }
      destruct Hsplit as (tl & Eb & Htl & Hd').
      destruct (St (bits_of_byte byte) tl Eb Htl) as (y & Ey). rewrite Ey.
      rewrite Eb in St, F. rewrite (feed_bits_app _ _ _ _ Ey) in F.
      apply (IH y tl pad x' rest Htl (steady_tail x _ tl y St Ey) F Hd' Hp).
Qed.

(* ---------- pages ------------------------------------------------------------------------------------------------------ *)
(* the encoded rows of a byte-aligned page: for each row its element bits, arbitrary padding, packed into bytes *)
Inductive page_bytes : g4 -> list Z -> list (list Z) -> list Z -> Prop :=
| pb_nil : forall s ref, page_bytes s ref [] []
| pb_row : forall s ref row rows ops bits pad rb data, length ref = length row -> bin row ->
    coding ref row (-1) 1 ops -> ops_bits s ops bits ->
    flat_map bits_of_byte rb = bits ++ pad -> (length pad <= 7)%nat ->
    page_bytes (fold_left apply_flush ops s) row rows data ->
    page_bytes s ref (row :: rows) (rb ++ data).

Theorem page_feeds_al : forall s ref rows data, page_bytes s ref rows data -> 0 < wid ref -> row_start_state s ref ->
  galign s = true -> forall x, ready x -> core x = core s ->
  exists x', feedbytes x data = GOk x' /\ lines x' = rev rows ++ lines s.
Proof.
  intros s ref rows data P. induction P as [s ref|s ref row rows ops bits pad rb data Hl Hb C B Hd Hp P IH];
    intros HW St Hal x Rx Cx.
  - exists x. cbn [feedbytes rev app]. split; [reflexivity|apply core_lines; exact Cx].
  - destruct St as (S1 & S2 & S3 & S4 & S5).
    assert (Hwe : wid ref = wid row) by (unfold wid; rewrite Hl; reflexivity).
    assert (I : rowinv ref row s) by (apply row_start; try assumption; rewrite <- Hwe; assumption).
    assert (Hpos : gcurpos s < wid row) by lia.
    assert (C' : coding ref row (gcurpos s) (gcolor s) ops) by (rewrite S4, S5; exact C).
    destruct (row_feeds_al ref row Hl ltac:(lia) Hb ops s bits x I Hpos C' B Rx Cx) as (Hne & Sb & x1 & E1 & R1 & K1).
    rewrite Hal in E1. cbn [outcome] in E1.
    rewrite (feedbytes_row rb x bits pad x1 data Hne Sb E1 Hd Hp).
    destruct (row_decodes_flush ref row Hl ltac:(lia) Hb ops s I Hpos C') as (T1 & T2 & T3). cbv zeta in *.
    destruct (IH ltac:(lia) T1 ltac:(rewrite T3; exact Hal) x1 R1 K1) as (x2 & E2 & L2).
    exists x2. split; [exact E2|]. rewrite L2, T2. cbn [rev]. rewrite <- app_assoc. reflexivity.
Qed.

Theorem g4_bytes_decode_aligned w rows data reversed : 0 < w ->
  page_bytes (g4_init w true) (white_line w) rows data ->
  ccittfaxdecode data w true reversed = DOk (flat_map (output_line reversed) rows).
Proof.
  intros Hw P. unfold ccittfaxdecode.
  assert (Hwid : wid (white_line w) = w) by (unfold wid, white_line; rewrite repeat_length; lia).
  destruct (page_feeds_al _ _ rows data P ltac:(lia)) with (x := g4_init w true) as (x' & E & L).
  - unfold row_start_state, g4_init. cbn. rewrite Hwid. auto.
  - reflexivity.
  - split; reflexivity.
  - reflexivity.
  - rewrite E. f_equal. f_equal. rewrite L. cbn [g4_init lines]. rewrite app_nil_r, rev_involutive. reflexivity.
Qed.

(* every bitmap has a byte-aligned encoding, and it decodes to the bitmap *)
Lemma page_bytes_exists : forall rows ref s, Forall (fun r => length r = length ref /\ bin r) rows -> 0 < wid ref ->
  exists data, page_bytes s ref rows data.
Proof.
  induction rows as [|row rows IH]; intros ref s H HW; [exists []; constructor|].
  inversion H as [|? ? [Hl Hb] Hrest]; subst.
  assert (HWr : 0 < wid row) by (unfold wid in *; rewrite Hl; exact HW).
  destruct (every_row_has_a_coding ref row Hb HWr) as (ops & C).
  set (bits := enc_ops s ops).
  destruct (pack_spec (length bits) bits (le_n _)) as (k & Hk & E).
  destruct (IH row (fold_left apply_flush ops s)) as (data & P); [|exact HWr|].
  - apply Forall_forall. intros r Hr. rewrite Forall_forall in Hrest. destruct (Hrest r Hr) as [E1 B]. split; [congruence|exact B].
  - exists (pack (length bits) bits ++ data).
    apply (pb_row s ref row rows ops bits (repeat false k) _ data); try assumption.
    + symmetry. exact Hl.
    + apply enc_ops_ok. apply (coding_ops_ok _ _ _ _ _ C).
    + rewrite repeat_length. exact Hk.
Qed.

Theorem every_bitmap_round_trips_aligned w rows reversed : 0 < w ->
  Forall (fun r => length r = Z.to_nat w /\ bin r) rows ->
  exists data, ccittfaxdecode data w true reversed = DOk (flat_map (output_line reversed) rows).
Proof.
  intros Hw Hrows.
  assert (Hwl : length (white_line w) = Z.to_nat w) by (unfold white_line; apply repeat_length).
  destruct (page_bytes_exists rows (white_line w) (g4_init w true)) as (data & P).
  - apply Forall_forall. intros r Hr. rewrite Forall_forall in Hrows. destruct (Hrows r Hr) as [E B]. split; [congruence|exact B].
  - unfold wid. rewrite Hwl. lia.
  - exists data. apply g4_bytes_decode_aligned; assumption.
Qed.
