(* C05 / C16: structural theorems about the interpreter model (Model/Interp.v). *)
From Coq Require Import ZArith QArith List Bool Lia.
From PdfV Require Import Base.Num Gen.Geom Gen.TextOps Model.Interp.
Import ListNotations.

Ltac break_match :=
  match goal with
  | |- context [match ?x with _ => _ end] => destruct x eqn:?
  end.

(* ---------- frame lemmas: what the helpers leave alone --------------------------------------- *)
Lemma do_TJ_frame s v :
  ctm (do_TJ s v) = ctm s /\ devctm (do_TJ s v) = devctm s /\ gs (do_TJ s v) = gs s /\
  gstack (do_TJ s v) = gstack s /\ curpath (do_TJ s v) = curpath s /\ argstack (do_TJ s v) = argstack s /\
  scs (do_TJ s v) = scs s /\ ncs (do_TJ s v) = ncs s.
Proof.
  unfold do_TJ. destruct (tfont (ts s)); [|repeat split]. destruct v; try (repeat split; reflexivity).
  destruct (render_params QOps _ _ _ _ _ _) as [[[[? ?] ?] ?] ?].
  destruct (show_seq _ _ _ _ _ _ _ _ _ _ _ _ _). repeat split.
Qed.

Lemma do_Tstar_frame s :
  ctm (do_Tstar s) = ctm s /\ devctm (do_Tstar s) = devctm s /\ gs (do_Tstar s) = gs s /\
  gstack (do_Tstar s) = gstack s /\ curpath (do_Tstar s) = curpath s /\ argstack (do_Tstar s) = argstack s /\
  scs (do_Tstar s) = scs s /\ ncs (do_Tstar s) = ncs s /\ out (do_Tstar s) = out s.
Proof. unfold do_Tstar. repeat split. Qed.

Lemma do_setcolor_frame b s :
  ctm (do_setcolor b s) = ctm s /\ devctm (do_setcolor b s) = devctm s /\ ts (do_setcolor b s) = ts s /\
  gstack (do_setcolor b s) = gstack s /\ curpath (do_setcolor b s) = curpath s /\
  scs (do_setcolor b s) = scs s /\ ncs (do_setcolor b s) = ncs s /\ out (do_setcolor b s) = out s.
Proof.
  unfold do_setcolor. repeat break_match; repeat split.
Qed.

Section WithRes.
  Variable res : resources.
  Variable run_form : M6 -> resources -> list item -> list event -> list event.

  Definition sync (s : istate) : Prop := devctm s = ctm s.

  (* between operators the shared device carries the interpreter's own matrix *)
  Lemma apply_op_sync k args s : sync s -> sync (apply_op res run_form k args s).
  Proof.
    unfold sync. intros H.
    destruct k; cbn [apply_op]; repeat break_match; subst;
      unfold set_ctm, set_path, set_out, set_ts, set_gs, set_ncs, set_scs, set_args, set_color in *;
      cbn [devctm ctm]; try exact H; try reflexivity;
      try (destruct (do_TJ_frame s o) as (A & B & _); rewrite A, B; exact H);
      try (match goal with |- context [do_TJ ?x ?y] =>
             destruct (do_TJ_frame x y) as (A & B & _); rewrite A, B end;
           try (match goal with |- context [do_Tstar ?x] =>
                  destruct (do_Tstar_frame x) as (A' & B' & _); rewrite A', B' end);
           cbn [devctm ctm set_ts]; exact H);
      try (match goal with |- context [do_setcolor ?b ?x] =>
             destruct (do_setcolor_frame b x) as (A & B & _); rewrite A, B end; exact H);
      try (match goal with |- context [do_Tstar ?x] =>
             destruct (do_Tstar_frame x) as (A & B & _); rewrite A, B end; exact H).
  Qed.

  Lemma step_sync s it : sync s -> sync (step res run_form s it).
  Proof.
    intros H. destruct it as [v|k]; [exact H|]. unfold step.
    destruct k; try exact H; cbn [nargs];
      try (apply apply_op_sync; exact H);
      (match goal with |- context [Nat.eqb ?a ?b] => destruct (Nat.eqb a b) end;
       [apply apply_op_sync; exact H|exact H]).
  Qed.

  Lemma run_sync prog : forall s, sync s -> sync (run_items res run_form s prog).
  Proof. induction prog as [|it r IH]; intros s H; [exact H|]. cbn. apply IH, step_sync, H. Qed.

  (* everything of the state except the events produced so far *)
  Definition same_state (a b : istate) : Prop :=
    ctm a = ctm b /\ devctm a = devctm b /\ ts a = ts b /\ gs a = gs b /\ gstack a = gstack b /\
    curpath a = curpath b /\ argstack a = argstack b /\ scs a = scs b /\ ncs a = ncs b.

  (* C05: invoking a form XObject (whatever it contains) leaves the caller's state untouched *)
  Theorem form_neutral s n matrix own body :
    sync s -> assocZ n (res_xobjs res) = Some (XForm matrix own body) ->
    same_state (apply_op res run_form KDo [OName n] s) s /\
    out (apply_op res run_form KDo [OName n] s) =
      EEndFig n :: run_form (mmul matrix (ctm s)) (match own with Some r => r | None => res end) body
                            (EBeginFig n (mmul matrix (devctm s)) :: out s).
  Proof.
    intros Hs Hx. cbn [apply_op]. rewrite Hx. unfold same_state. cbn. unfold sync in Hs.
    repeat split; auto.
  Qed.

  (* an undefined XObject name: nothing happens *)
  Theorem do_missing s n : assocZ n (res_xobjs res) = None -> apply_op res run_form KDo [OName n] s = s.
  Proof. intros H. cbn [apply_op]. rewrite H. reflexivity. Qed.

  (* ---------- ill-typed and missing operands ------------------------------------------------------ *)
  (* operators whose operands must all be numbers *)
  Definition numeric_op (k : opname) : bool :=
    match k with
    | Kcm | Kw | Km | Kl | Kc | Kv | Ky | Kre | KG | Kg | KRG | Krg | KK | Kk
    | KTc | KTw | KTz | KTL | KTs | KTd | KTD | KTm => true
    | _ => false
    end.

  Lemma all_floats_none_cases l : all_floats l = None ->
    match l with
    | [a] => sfloat a = None
    | [a; b] => sfloat a = None \/ sfloat b = None
    | _ => True
    end.
  Proof.
    destruct l as [|a [|b [|c r]]]; cbn; auto.
    - destruct (sfloat a); [discriminate|auto].
    - destruct (sfloat a); [|auto]. destruct (sfloat b); [discriminate|auto].
  Qed.

  (* C05: given the right NUMBER of operands, one of which is not a number, the operator does nothing *)
  Theorem illtyped_noop k args s : numeric_op k = true -> length args = nargs k ->
    all_floats args = None -> apply_op res run_form k args s = s.
  Proof.
    intros Hk Hl Hn.
    destruct k; try discriminate; cbn [nargs] in Hl; cbn [apply_op]; try (rewrite Hn; reflexivity);
      (* one- and two-operand operators written with explicit patterns *)
      repeat (destruct args as [|? args]; cbn [length] in Hl; try discriminate);
      cbn [all_floats] in Hn;
      repeat match goal with
             | |- context [sfloat ?v] => destruct (sfloat v) eqn:?
             end; try reflexivity; try discriminate.
  Qed.

  (* C05: with too few operands the operator only consumes what is there *)
  Theorem missing_operands_noop k s : (0 < nargs k)%nat -> (length (argstack s) < nargs k)%nat ->
    step res run_form s (IOp k) = set_args s [].
  Proof.
    intros Hn Hl. unfold step. destruct k; cbn [nargs] in *; try lia.
    all: unfold lastn, droplast;
         match goal with |- context [(length (argstack ?x) - ?n)%nat] =>
           replace (length (argstack x) - n)%nat with 0%nat by lia end;
         cbn [skipn firstn];
         match goal with |- context [Nat.eqb ?a ?b] =>
           let E := fresh in assert (E : Nat.eqb a b = false) by (apply Nat.eqb_neq; lia); rewrite E end;
         reflexivity.
  Qed.

  (* ---------- q ... Q ------------------------------------------------------------------------------- *)
  (* nesting depth after each item never drops below zero and ends at zero *)
  Fixpoint balanced (prog : list item) (d : nat) : bool :=
    match prog with
    | [] => Nat.eqb d 0
    | IOp Kq :: r => balanced r (S d)
    | IOp KQ :: r => match d with O => false | S d' => balanced r d' end
    | _ :: r => balanced r d
    end.

  Lemma step_gstack_other s it : (forall k, it = IOp k -> k <> Kq /\ k <> KQ) ->
    gstack (step res run_form s it) = gstack s.
  Proof.
    intros Hk. destruct it as [v|k]; [reflexivity|]. destruct (Hk k eq_refl) as [Hq HQ].
    unfold step. destruct k; try reflexivity; try congruence; cbn [nargs];
      try (match goal with |- context [Nat.eqb ?a ?b] => destruct (Nat.eqb a b) end; [|reflexivity]);
      cbn [apply_op]; repeat break_match; subst;
      unfold set_ctm, set_path, set_out, set_ts, set_gs, set_ncs, set_scs, set_args, set_color in *;
      cbn [gstack]; try reflexivity;
      try (match goal with |- context [do_TJ ?x ?y] =>
             destruct (do_TJ_frame x y) as (_ & _ & _ & A & _); rewrite A end;
           try (match goal with |- context [do_Tstar ?x] =>
                  destruct (do_Tstar_frame x) as (_ & _ & _ & A' & _); rewrite A' end); reflexivity);
      try (match goal with |- context [do_setcolor ?b ?x] =>
             destruct (do_setcolor_frame b x) as (_ & _ & _ & A & _); rewrite A end; reflexivity);
      try (match goal with |- context [do_Tstar ?x] =>
             destruct (do_Tstar_frame x) as (_ & _ & _ & A & _); rewrite A end; reflexivity).
  Qed.

  Lemma run_balanced : forall prog d s base new,
    balanced prog d = true -> gstack s = new ++ base -> length new = d ->
    gstack (run_items res run_form s prog) = base.
  Proof.
    induction prog as [|it r IH]; intros d s base new Hb Hg Hl.
    - cbn in Hb. apply Nat.eqb_eq in Hb. subst d. destruct new; [exact Hg|discriminate].
    - cbn [run_items fold_left]. destruct it as [v|k].
      + cbn [balanced] in Hb. apply (IH d _ base new Hb); [|exact Hl]. exact Hg.
      + destruct k eqn:Ek; cbn [balanced] in Hb;
          try (apply (IH d _ base new Hb); [|exact Hl];
               rewrite step_gstack_other; [exact Hg|intros k' E'; inversion E'; subst; split; discriminate]).
        * (* q *) apply (IH (S d) _ base ((ctm s, ts s, gs s) :: new) Hb); [|cbn; lia].
          unfold step. cbn [nargs apply_op gstack]. rewrite Hg. reflexivity.
        * (* Q *) destruct d as [|d']; [discriminate|]. destruct new as [|[[c t] g] new']; [discriminate|].
          apply (IH d' _ base new' Hb); [|cbn in Hl; lia].
          unfold step. cbn [nargs apply_op]. rewrite Hg. cbn [app gstack]. reflexivity.
  Qed.

  (* C05/C16: q P Q, with P balanced, restores the matrix, the text state and the graphics state *)
  Theorem qQ_restores prog s : balanced prog 0 = true ->
    let s' := run_items res run_form s (IOp Kq :: prog ++ [IOp KQ]) in
    ctm s' = ctm s /\ devctm s' = ctm s /\ ts s' = ts s /\ gs s' = gs s /\ gstack s' = gstack s.
  Proof.
    intros Hb. cbn zeta. cbn [run_items fold_left]. unfold run_items in *. rewrite fold_left_app. cbn [fold_left].
    set (s1 := step res run_form s (IOp Kq)).
    set (s2 := fold_left (step res run_form) prog s1).
    assert (Hg1 : gstack s1 = (ctm s, ts s, gs s) :: gstack s) by reflexivity.
    (* P leaves the saved entry on top: run P on the stack [saved] ++ rest with depth 0 ... *)
    assert (Hg2 : gstack s2 = (ctm s, ts s, gs s) :: gstack s).
    { apply (run_balanced prog 0 s1 ((ctm s, ts s, gs s) :: gstack s) [] Hb); [exact Hg1|reflexivity]. }
    assert (Hs3 : step res run_form s2 (IOp KQ) =
                  mkI (ctm s) (ctm s) (ts s) (gs s) (gstack s) (curpath s2) (argstack s2) (scs s2) (ncs s2) (out s2)).
    { unfold step. cbn [nargs apply_op]. rewrite Hg2. reflexivity. }
    rewrite Hs3. cbn. repeat split.
  Qed.
End WithRes.

(* ---------- the glyph loop: positions follow the ISO displacement ------------------------------------- *)
Open Scope Q_scope.

(* ISO 32000-1 9.4.4: tx = (w0 * Tfs + Tc + Tw) * Th, Tw for the single-byte code 32 only *)
Definition iso_tx (f : font) (fs tc tw th : Q) (cid : Z) : Q :=
  (fwidth f cid * fs + tc + (if Z.eqb cid 32 then tw else 0)) * th.

Fixpoint iso_positions (f : font) (fs tc tw th : Q) (cids : list Z) (x : Q) : list Q :=
  match cids with [] => [] | c :: r => x :: iso_positions f fs tc tw th r (x + iso_tx f fs tc tw th c) end.

(* the x offsets at which the model places the glyphs of one string *)
Fixpoint model_positions (f : font) (fs scaling charspace wordspace : Q) (cids : list Z) (x : Q) : list Q :=
  match cids with
  | [] => []
  | cid :: r =>
      let x1 := x + ltchar_adv QOps (fwidth f cid) fs scaling + charspace in
      let x2 := if Z.eqb cid 32 && negb (Qeq_bool wordspace 0) then x1 + wordspace else x1 in
      x :: model_positions f fs scaling charspace wordspace r x2
  end.

Lemma show_cids_events f fs sc cs ws rise m nc : forall cids x y o,
  snd (show_cids f fs sc cs ws rise m nc cids x y o) =
  rev (map (fun cx => EGlyph (fst cx) (translate_matrix QOps m (snd cx, y))
                             (ltchar_adv QOps (fwidth f (fst cx)) fs sc) (fid f) fs rise (fdescent f) nc)
           (combine cids (model_positions f fs sc cs ws cids x))) ++ o.
Proof.
  induction cids as [|c r IH]; intros x y o; [reflexivity|].
  cbn [show_cids model_positions combine map rev]. rewrite IH. rewrite <- app_assoc. reflexivity.
Qed.

Lemma positions_eq f fs tc tw th : forall cids x x',
  x == x' ->
  Forall2 Qeq (model_positions f fs th (tc * th) (tw * th) cids x) (iso_positions f fs tc tw th cids x').
Proof.
  induction cids as [|c r IH]; intros x x' Hx; [constructor|].
  cbn [model_positions iso_positions]. constructor; [exact Hx|]. apply IH.
  unfold iso_tx, ltchar_adv. cbn [nmul QOps].
  destruct (Z.eqb c 32) eqn:E; cbn [andb].
  - destruct (Qeq_bool (tw * th) 0) eqn:Ez; cbn [negb].
    + apply Qeq_bool_iff in Ez. rewrite Hx.
      setoid_replace ((fwidth f c * fs + tc + tw) * th) with (fwidth f c * fs * th + tc * th + tw * th) by ring.
      rewrite Ez. ring.
    + rewrite Hx. ring.
  - rewrite Hx. ring.
Qed.

(* C05: the glyphs of a string are placed at the running sum of the ISO displacements, and the
   position after the string is that sum *)
Theorem show_cids_iso f fs tc tw th rise m nc cids x y o :
  let '(x', o') := show_cids f fs th (tc * th) (tw * th) rise m nc cids x y o in
  Forall2 Qeq (model_positions f fs th (tc * th) (tw * th) cids x) (iso_positions f fs tc tw th cids x) /\
  o' = rev (map (fun cx => EGlyph (fst cx) (translate_matrix QOps m (snd cx, y))
                                  (ltchar_adv QOps (fwidth f (fst cx)) fs th) (fid f) fs rise (fdescent f) nc)
                (combine cids (model_positions f fs th (tc * th) (tw * th) cids x))) ++ o.
Proof.
  pose proof (show_cids_events f fs th (tc * th) (tw * th) rise m nc cids x y o) as H.
  destruct (show_cids f fs th (tc * th) (tw * th) rise m nc cids x y o) as [x' o']. cbn [snd] in H.
  split; [apply positions_eq; reflexivity|exact H].
Qed.
