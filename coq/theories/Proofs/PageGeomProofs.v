(* Page coordinate set-up: theorems about the definitions regenerated from
   pdfinterp.process_page, converter.begin_page and PDFPage.__init__ (Gen/PageGeom.v). *)
From Coq Require Import ZArith QArith Lqa Lia List Bool.
From PdfV Require Import Base.Num Gen.Geom Gen.PageGeom Proofs.GeomLaws.
Open Scope Z_scope.

(* Rotate is reduced to 0..359 and stays congruent to the stored value, for every integer *)
Lemma rotate_range {R} (o : NumOps R) (r : Z) :
  0 <= rotate_norm o r < 360 /\ (rotate_norm o r - r) mod 360 = 0.
Proof.
  unfold rotate_norm. split.
  - apply Z.mod_pos_bound. lia.
  - pose proof (Z.div_mod (r + 360) 360 ltac:(lia)) as H.
    replace ((r + 360) mod 360 - r) with (360 * (1 - (r + 360) / 360)) by lia.
    rewrite Z.mul_comm. apply Z.mod_mul. lia.
Qed.

Lemma rotate_fixed {R} (o : NumOps R) (r : Z) : 0 <= r < 360 -> rotate_norm o r = r.
Proof.
  intros H. unfold rotate_norm.
  replace (r + 360) with (r + 1 * 360) by lia. rewrite Z.mod_add by lia. apply Z.mod_small. lia.
Qed.

Local Open Scope Q_scope.

Lemma nabs_Q_spec a : (0 <= a -> nabs QOps a == a) /\ (a <= 0 -> nabs QOps a == - a).
Proof.
  unfold nabs. cbn [nlt nofZ nopp QOps].
  destruct (Qltb a (inject_Z 0)) eqn:E; [apply Qltb_lt in E|apply Qltb_ge in E];
    change (inject_Z 0) with 0 in E; split; intros H; lra.
Qed.

Definition box_of (s : Z) (x0 y0 x1 y1 : Q) (rot : Z) : Z * Z * Q * Q :=
  let page := mkPageRec (x0, y0, x1, y1) rot in
  begin_page_box QOps s page (process_page_ctm QOps s page).

Definition ctm_of (s : Z) (x0 y0 x1 y1 : Q) (rot : Z) : Q * Q * Q * Q * Q * Q :=
  process_page_ctm QOps s (mkPageRec (x0, y0, x1, y1) rot).

Ltac open_box :=
  unfold box_of, begin_page_box, process_page_ctm;
  cbn [PageRec_mediabox PageRec_rotate Z.eqb Pos.eqb];
  unfold apply_matrix_rect, apply_matrix_pt;
  cbn [nadd nmul nopp nsub nofZ QOps].


Ltac box_dim :=
  match goal with
  | |- nabs QOps (nmin QOps (nmin QOps (nmin QOps ?a ?b) ?c) ?d
                  - nmax QOps (nmax QOps (nmax QOps ?a' ?b') ?c') ?d') == _ =>
      let A1 := fresh in let A2 := fresh in let A3 := fresh in let A4 := fresh in let A5 := fresh in
      let C1 := fresh in let C2 := fresh in let C3 := fresh in let C4 := fresh in let C5 := fresh in
      let E1 := fresh in let E2 := fresh in let Hn := fresh in
      let m := fresh "m" in let M := fresh "M" in
      destruct (min4_spec a b c d) as [(A1 & A2 & A3 & A4) A5];
      destruct (max4_spec a' b' c' d') as [(C1 & C2 & C3 & C4) C5];
      cbv zeta in *;
      destruct (nabs_Q_spec (nmin QOps (nmin QOps (nmin QOps a b) c) d
                             - nmax QOps (nmax QOps (nmax QOps a' b') c') d')) as [_ Hn];
      set (m := nmin QOps (nmin QOps (nmin QOps a b) c) d) in *;
      set (M := nmax QOps (nmax QOps (nmax QOps a' b') c') d') in *;
      clearbody m M; unfold inject_Z in *; cbn [Z.opp] in *;
      rewrite Hn by lra;
      destruct A5 as [E1|[E1|[E1|E1]]]; destruct C5 as [E2|[E2|[E2|E2]]]; subst m M; lra
  end.

(* the page box is (0, 0, W, H), swapped for the quarter turns *)
Lemma box_rot0 s x0 y0 x1 y1 : x0 < x1 -> y0 < y1 ->
  let '(b0, b1, b2, b3) := box_of s x0 y0 x1 y1 0 in
  b0 = 0%Z /\ b1 = 0%Z /\ b2 == x1 - x0 /\ b3 == y1 - y0.
Proof. intros. open_box. repeat split; box_dim. Qed.

Lemma box_rot90 s x0 y0 x1 y1 : x0 < x1 -> y0 < y1 ->
  let '(b0, b1, b2, b3) := box_of s x0 y0 x1 y1 90 in
  b0 = 0%Z /\ b1 = 0%Z /\ b2 == y1 - y0 /\ b3 == x1 - x0.
Proof. intros. open_box. repeat split; box_dim. Qed.

Lemma box_rot180 s x0 y0 x1 y1 : x0 < x1 -> y0 < y1 ->
  let '(b0, b1, b2, b3) := box_of s x0 y0 x1 y1 180 in
  b0 = 0%Z /\ b1 = 0%Z /\ b2 == x1 - x0 /\ b3 == y1 - y0.
Proof. intros. open_box. repeat split; box_dim. Qed.

Lemma box_rot270 s x0 y0 x1 y1 : x0 < x1 -> y0 < y1 ->
  let '(b0, b1, b2, b3) := box_of s x0 y0 x1 y1 270 in
  b0 = 0%Z /\ b1 = 0%Z /\ b2 == y1 - y0 /\ b3 == x1 - x0.
Proof. intros. open_box. repeat split; box_dim. Qed.

(* where the MediaBox corners go: a clockwise turn by Rotate.  pt_of gives the image of a
   point under the page's ctm. *)
Definition pt_of (s : Z) (x0 y0 x1 y1 : Q) (rot : Z) (p : Q * Q) : Q * Q :=
  apply_matrix_pt QOps (ctm_of s x0 y0 x1 y1 rot) p.

Ltac open_pt :=
  unfold pt_of, ctm_of, process_page_ctm;
  cbn [PageRec_mediabox PageRec_rotate Z.eqb Pos.eqb];
  unfold apply_matrix_pt; cbn [nadd nmul nopp nsub nofZ QOps fst snd]; unfold inject_Z; cbn [Z.opp].

(* lower-left corner: stays (rot 0), goes to the upper-left (90), upper-right (180), lower-right (270)
   of the new box; and an upward step of the page becomes a step to the right/down/left *)
Lemma corners_rot s x0 y0 x1 y1 (W := x1 - x0) (H := y1 - y0) :
  (let p := pt_of s x0 y0 x1 y1 0 (x0, y0) in fst p == 0 /\ snd p == 0) /\
  (let p := pt_of s x0 y0 x1 y1 90 (x0, y0) in fst p == 0 /\ snd p == W) /\
  (let p := pt_of s x0 y0 x1 y1 180 (x0, y0) in fst p == W /\ snd p == H) /\
  (let p := pt_of s x0 y0 x1 y1 270 (x0, y0) in fst p == H /\ snd p == 0) /\
  (* upper-left corner of the MediaBox *)
  (let p := pt_of s x0 y0 x1 y1 0 (x0, y1) in fst p == 0 /\ snd p == H) /\
  (let p := pt_of s x0 y0 x1 y1 90 (x0, y1) in fst p == H /\ snd p == W) /\
  (let p := pt_of s x0 y0 x1 y1 180 (x0, y1) in fst p == W /\ snd p == 0) /\
  (let p := pt_of s x0 y0 x1 y1 270 (x0, y1) in fst p == 0 /\ snd p == 0) /\
  (* lower-right corner of the MediaBox *)
  (let p := pt_of s x0 y0 x1 y1 0 (x1, y0) in fst p == W /\ snd p == 0) /\
  (let p := pt_of s x0 y0 x1 y1 90 (x1, y0) in fst p == 0 /\ snd p == 0) /\
  (let p := pt_of s x0 y0 x1 y1 180 (x1, y0) in fst p == 0 /\ snd p == H) /\
  (let p := pt_of s x0 y0 x1 y1 270 (x1, y0) in fst p == H /\ snd p == W).
Proof. subst W H. repeat split; open_pt; lra. Qed.
