(* Object layer: reading the token sequence of ANY value tree gives the value back. *)
From Coq Require Import ZArith List Bool Lia.
From PdfV Require Import Gen.LexClasses Model.Lexer Model.StackParser.
Import ListNotations.
Open Scope Z_scope.

(* induction principle for the nested inductive [value] *)
Section ValueInd.
  Variable P : value -> Prop.
  Hypothesis HNull : P VNull.
  Hypothesis HBool : forall b, P (VBool b).
  Hypothesis HInt : forall z, P (VInt z).
  Hypothesis HReal : forall sp, P (VReal sp).
  Hypothesis HName : forall n, P (VName n).
  Hypothesis HStr : forall s, P (VStr s).
  Hypothesis HArr : forall l, Forall P l -> P (VArr l).
  Hypothesis HDict : forall d, Forall (fun kv => P (snd kv)) d -> P (VDict d).
  Hypothesis HRef : forall n, P (VRef n).
  Hypothesis HKw : forall k, P (VKw k).
  Fixpoint value_ind2 (v : value) : P v :=
    match v with
    | VNull => HNull | VBool b => HBool b | VInt z => HInt z | VReal sp => HReal sp
    | VName n => HName n | VStr s => HStr s
    | VArr l => HArr l ((fix go (l : list value) : Forall P l :=
                           match l with [] => Forall_nil _ | x :: r => Forall_cons _ (value_ind2 x) (go r) end) l)
    | VDict d => HDict d ((fix go (d : list (list Z * value)) : Forall (fun kv => P (snd kv)) d :=
                             match d with
                             | [] => Forall_nil _
                             | kv :: r => Forall_cons _ (value_ind2 (snd kv)) (go r)
                             end) d)
    | VRef n => HRef n | VKw k => HKw k
    end.
End ValueInd.

(* values a PDF file can spell: no bare keywords *)
Fixpoint wfv (v : value) : Prop :=
  match v with
  | VKw _ => False
  | VArr l => (fix go (l : list value) : Prop := match l with [] => True | x :: r => wfv x /\ go r end) l
  | VDict d => (fix go (d : list (list Z * value)) : Prop :=
                  match d with [] => True | kv :: r => wfv (snd kv) /\ go r end) d
  | _ => True
  end.

Lemma wfv_arr l : wfv (VArr l) <-> Forall wfv l.
Proof.
  induction l as [|x r IH]; cbn; [split; auto|].
  split; intros H.
  - destruct H as [Hx Hr]. constructor; [exact Hx|]. apply IH. exact Hr.
  - inversion H; subst. split; [assumption|]. apply IH. assumption.
Qed.
Lemma wfv_dict d : wfv (VDict d) <-> Forall (fun kv => wfv (snd kv)) d.
Proof.
  induction d as [|x r IH]; cbn; [split; auto|].
  split; intros H.
  - destruct H as [Hx Hr]. constructor; [exact Hx|]. apply IH. exact Hr.
  - inversion H; subst. split; [assumption|]. apply IH. assumption.
Qed.

(* the parser is inside a container, or it is a PDFParser (which never flushes) *)
Definition stable (fl : flavour) (s : pst) : Prop :=
  match fl with PPdf => True | PStream => ctx s <> [] end.

Lemma after_stable fl s : stable fl s -> after_token fl s = s.
Proof.
  destruct fl; unfold stable, after_token; intros H.
  - destruct (ctx s); [exfalso; apply H; reflexivity|reflexivity].
  - destruct (ctx s); reflexivity.
Qed.

Lemma stable_push fl v s : stable fl s -> stable fl (push v s).
Proof. destruct fl; cbn; auto. Qed.

Definition pushes (vs : list value) (s : pst) : pst :=
  mkP (ctx s) (curtype s) (curstack s ++ vs) (results s).

Lemma pushes_nil s : pushes [] s = s.
Proof. destruct s; unfold pushes; cbn. rewrite app_nil_r. reflexivity. Qed.
Lemma pushes_cons v vs s : pushes (v :: vs) s = pushes vs (push v s).
Proof. unfold pushes, push. cbn. rewrite <- app_assoc. reflexivity. Qed.
Lemma stable_pushes fl vs s : stable fl s -> stable fl (pushes vs s).
Proof. destruct fl; cbn; auto. Qed.

Definition reads_back (fl : flavour) (v : value) : Prop :=
  forall s rest, stable fl s ->
    run_toks fl s (tprint v ++ rest) = run_toks fl (push (norm v) s) rest.

Lemma run_step fl s t s' rest :
  tok_step fl s t = Ok s' -> run_toks fl s (t :: rest) = run_toks fl (after_token fl s') rest.
Proof. intros H. cbn [run_toks]. rewrite H. reflexivity. Qed.

Lemma run_scalar fl s t v rest :
  stable fl s -> tok_step fl s t = Ok (push v s) ->
  run_toks fl s (t :: rest) = run_toks fl (push v s) rest.
Proof.
  intros Hs Ht. cbn [run_toks]. rewrite Ht. rewrite after_stable by (apply stable_push; exact Hs). reflexivity.
Qed.

Lemma reads_back_list fl l :
  Forall (reads_back fl) l ->
  forall s rest, stable fl s ->
    run_toks fl s (flat_map tprint l ++ rest) = run_toks fl (pushes (map norm l) s) rest.
Proof.
  induction 1 as [|x r Hx Hr IH]; intros s rest Hs.
  - cbn. rewrite pushes_nil. reflexivity.
  - cbn [flat_map map]. rewrite <- app_assoc. rewrite Hx by exact Hs.
    rewrite IH by (apply stable_push; exact Hs). rewrite pushes_cons. reflexivity.
Qed.

Definition kvnorm (kv : list Z * value) : list Z * value := match kv with (k, x) => (k, norm x) end.

Lemma reads_back_pairs fl d :
  Forall (fun kv => reads_back fl (snd kv)) d ->
  forall s rest, stable fl s ->
    run_toks fl s (flat_map (fun kv => TLit (fst kv) :: tprint (snd kv)) d ++ rest)
    = run_toks fl (pushes (flat_map (fun kv => [VName (fst kv); norm (snd kv)]) d) s) rest.
Proof.
  induction 1 as [|[k x] r Hx Hr IH]; intros s rest Hs.
  - cbn. rewrite pushes_nil. reflexivity.
  - cbn [flat_map fst snd app]. rewrite <- app_assoc.
    rewrite (run_scalar fl s (TLit k) (VName k)) by (auto; reflexivity).
    cbn [snd] in Hx. rewrite Hx by (apply stable_push; exact Hs).
    rewrite IH by (apply stable_push, stable_push; exact Hs).
    rewrite !pushes_cons. reflexivity.
Qed.

Lemma chop_pairs_flat : forall d fuel, (2 * length d <= fuel)%nat ->
  chop_pairs fuel (flat_map (fun kv => [VName (fst kv); norm (snd kv)]) d) = Some (map kvnorm d).
Proof.
  induction d as [|[k x] r IH]; intros fuel Hf.
  - destruct fuel; reflexivity.
  - destruct fuel as [|f]; [cbn in Hf; lia|].
    cbn [flat_map app fst snd chop_pairs]. rewrite IH by (cbn [length] in Hf; lia). reflexivity.
Qed.

Lemma flat_pairs_length d :
  length (flat_map (fun kv : list Z * value => [VName (fst kv); norm (snd kv)]) d) = (2 * length d)%nat.
Proof. induction d as [|kv r IH]; cbn [flat_map length app]; [reflexivity|]. rewrite IH. lia. Qed.

Lemma even_double n : Nat.even (2 * n) = true.
Proof. rewrite Nat.even_mul. reflexivity. Qed.

(* every value tree of any depth reads back as the value it denotes *)
Lemma reads_back_all fl : forall v, wfv v -> reads_back fl v.
Proof.
  induction v using value_ind2; intros Hwf st rest Hs.
  - (* null *) apply run_scalar; [exact Hs|]. destruct fl; reflexivity.
  - apply run_scalar; [exact Hs|reflexivity].
  - apply run_scalar; [exact Hs|reflexivity].
  - apply run_scalar; [exact Hs|reflexivity].
  - apply run_scalar; [exact Hs|reflexivity].
  - apply run_scalar; [exact Hs|reflexivity].
  - (* array *)
    apply wfv_arr in Hwf.
    assert (HF : Forall (reads_back fl) l).
    { rewrite Forall_forall in *. intros x Hx. apply H; [exact Hx|]. apply Hwf. exact Hx. }
    cbn [tprint app]. rewrite (run_step fl st (TKw [91]) (start_type CTa st)) by reflexivity.
    assert (Hst : stable fl (start_type CTa st)) by (destruct fl; cbn; [discriminate|exact I]).
    rewrite after_stable by exact Hst.
    rewrite <- app_assoc. rewrite (reads_back_list fl l HF) by exact Hst.
    cbn [app]. destruct st as [cx ct cs rs].
    rewrite (run_step fl _ (TKw [93]) (push (VArr (map norm l)) (mkP cx ct cs rs))) by reflexivity.
    rewrite after_stable by (apply stable_push; exact Hs). reflexivity.
  - (* dictionary *)
    apply wfv_dict in Hwf.
    assert (HF : Forall (fun kv => reads_back fl (snd kv)) d).
    { rewrite Forall_forall in *. intros x Hx. apply H; [exact Hx|]. apply Hwf. exact Hx. }
    cbn [tprint app]. rewrite (run_step fl st (TKw [60; 60]) (start_type CTd st)) by reflexivity.
    assert (Hst : stable fl (start_type CTd st)) by (destruct fl; cbn; [discriminate|exact I]).
    rewrite after_stable by exact Hst.
    rewrite <- app_assoc. rewrite (reads_back_pairs fl d HF) by exact Hst.
    cbn [app]. destruct st as [cx ct cs rs].
    assert (Hstep : tok_step fl (pushes (flat_map (fun kv => [VName (fst kv); norm (snd kv)]) d)
                                        (start_type CTd (mkP cx ct cs rs))) (TKw [62; 62])
                    = Ok (push (norm (VDict d)) (mkP cx ct cs rs))).
    { unfold tok_step. cbn [kw_eqb bytes_eqb Z.eqb andb Pos.eqb].
      unfold end_type, pushes, start_type. cbn [curtype ctx curstack results ctype_eqb app].
      rewrite flat_pairs_length, even_double, chop_pairs_flat by lia.
      cbn [norm]. reflexivity. }
    rewrite (run_step _ _ _ _ _ Hstep). rewrite after_stable by (apply stable_push; exact Hs). reflexivity.
  - (* reference: n g R inside the current context *)
    cbn [tprint app]. rewrite (run_scalar fl st (TInt n) (VInt n)) by (auto; reflexivity).
    rewrite (run_scalar fl _ (TInt 0) (VInt 0)) by (try apply stable_push; auto; reflexivity).
    assert (Hstep : tok_step fl (push (VInt 0) (push (VInt n) st)) (TKw K_R) = Ok (push (VRef n) st)).
    { destruct st as [cx ct cs rs]. unfold tok_step.
      cbn [kw_eqb bytes_eqb K_R Z.eqb andb Pos.eqb].
      unfold do_keyword. cbn [kw_eqb bytes_eqb K_R K_xref K_startxref K_endobj K_null Z.eqb andb orb Pos.eqb].
      unfold push. cbn [curstack ctx curtype results].
      assert (Hlen : (2 <=? length ((cs ++ [VInt n]) ++ [VInt 0]))%nat = true).
      { apply Nat.leb_le. rewrite !app_length. cbn [length]. lia. }
      assert (Hr : do_R (mkP cx ct ((cs ++ [VInt n]) ++ [VInt 0]) rs) = Ok (mkP cx ct (cs ++ [VRef n]) rs)).
      { unfold do_R, droplast. cbn [curstack ctx curtype results].
        rewrite !app_length. cbn [length].
        replace (length cs + 1 + 1 - 2)%nat with (length cs) by lia.
        rewrite <- app_assoc. rewrite app_nth2 by lia. rewrite Nat.sub_diag. cbn [nth app safe_int].
        rewrite firstn_app, firstn_all, Nat.sub_diag. cbn [firstn]. rewrite app_nil_r.
        unfold push. cbn. reflexivity. }
      destruct fl; rewrite Hlen; exact Hr. }
    rewrite (run_step _ _ _ _ _ Hstep). rewrite after_stable by (apply stable_push; exact Hs). reflexivity.
  - (* bare keyword: excluded *) contradiction.
Qed.

(* top level, PDFStreamParser: one spelled value (not a bare reference) gives exactly that value *)
Theorem stream_toplevel : forall v, wfv v -> (forall n, v <> VRef n) ->
  parse_all PStream (tprint v) = Ok [norm v].
Proof.
  intros v Hwf Hnr. unfold parse_all.
  destruct v; try (cbn; reflexivity).
  - (* array *)
    apply wfv_arr in Hwf.
    assert (HF : Forall (reads_back PStream) l).
    { rewrite Forall_forall in *. intros x Hx. apply reads_back_all. apply Hwf. exact Hx. }
    cbn [tprint]. rewrite (run_step PStream pinit (TKw [91]) (start_type CTa pinit)) by reflexivity.
    assert (Hst : stable PStream (start_type CTa pinit)) by (cbn; discriminate).
    rewrite after_stable by exact Hst.
    rewrite (reads_back_list PStream l HF) by exact Hst. cbn. reflexivity.
  - (* dictionary *)
    apply wfv_dict in Hwf.
    assert (HF : Forall (fun kv => reads_back PStream (snd kv)) d).
    { rewrite Forall_forall in *. intros x Hx. apply reads_back_all. apply Hwf. exact Hx. }
    cbn [tprint]. rewrite (run_step PStream pinit (TKw [60; 60]) (start_type CTd pinit)) by reflexivity.
    assert (Hst : stable PStream (start_type CTd pinit)) by (cbn; discriminate).
    rewrite after_stable by exact Hst.
    rewrite (reads_back_pairs PStream d HF) by exact Hst.
    cbn [run_toks]. unfold tok_step. cbn [kw_eqb bytes_eqb Z.eqb andb Pos.eqb].
    unfold end_type, pushes, start_type, pinit. cbn [curtype ctx curstack results ctype_eqb app].
    rewrite flat_pairs_length, even_double, chop_pairs_flat by lia. cbn. reflexivity.
  - exfalso. apply (Hnr n). reflexivity.
  - contradiction.
Qed.

(* PDFParser: `n g obj <value> endobj` yields the four results n, g, obj, value *)
Theorem pdf_indirect_object : forall n g v, wfv v ->
  parse_all PPdf ([TInt n; TInt g; TKw K_obj] ++ tprint v ++ [TKw K_endobj])
  = Ok [VInt n; VInt g; VKw K_obj; norm v].
Proof.
  intros n g v Hwf. unfold parse_all. cbn [app].
  rewrite (run_step PPdf pinit (TInt n) (push (VInt n) pinit)) by reflexivity.
  rewrite after_stable by exact I.
  rewrite (run_step PPdf _ (TInt g) (push (VInt g) (push (VInt n) pinit))) by reflexivity.
  rewrite after_stable by exact I.
  rewrite (run_step PPdf _ (TKw K_obj) (push (VKw K_obj) (push (VInt g) (push (VInt n) pinit)))) by reflexivity.
  rewrite after_stable by exact I.
  rewrite (reads_back_all PPdf v Hwf) by exact I. cbn. reflexivity.
Qed.

(* a reference may carry any generation number; pdfminer keeps the object number *)
Lemma ref_any_generation fl n g s rest : stable fl s ->
  run_toks fl s ([TInt n; TInt g; TKw K_R] ++ rest) = run_toks fl (push (VRef n) s) rest.
Proof.
  intros Hs. cbn [app]. rewrite (run_scalar fl s (TInt n) (VInt n)) by (auto; reflexivity).
  rewrite (run_scalar fl _ (TInt g) (VInt g)) by (try apply stable_push; auto; reflexivity).
  assert (Hstep : tok_step fl (push (VInt g) (push (VInt n) s)) (TKw K_R) = Ok (push (VRef n) s)).
  { destruct s as [cx ct cs rs]. unfold tok_step.
    cbn [kw_eqb bytes_eqb K_R Z.eqb andb Pos.eqb].
    unfold do_keyword. cbn [kw_eqb bytes_eqb K_R K_xref K_startxref K_endobj K_null Z.eqb andb orb Pos.eqb].
    unfold push. cbn [curstack ctx curtype results].
    assert (Hlen : (2 <=? length ((cs ++ [VInt n]) ++ [VInt g]))%nat = true).
    { apply Nat.leb_le. rewrite !app_length. cbn [length]. lia. }
    assert (Hr : do_R (mkP cx ct ((cs ++ [VInt n]) ++ [VInt g]) rs) = Ok (mkP cx ct (cs ++ [VRef n]) rs)).
    { unfold do_R, droplast. cbn [curstack ctx curtype results].
      rewrite !app_length. cbn [length].
      replace (length cs + 1 + 1 - 2)%nat with (length cs) by lia.
      rewrite <- app_assoc. rewrite app_nth2 by lia. rewrite Nat.sub_diag. cbn [nth app safe_int].
      rewrite firstn_app, firstn_all, Nat.sub_diag. cbn [firstn]. rewrite app_nil_r.
      unfold push. cbn. reflexivity. }
    destruct fl; rewrite Hlen; exact Hr. }
  rewrite (run_step _ _ _ _ _ Hstep). rewrite after_stable by (apply stable_push; exact Hs). reflexivity.
Qed.
