(* Invariants of the byte automaton: token positions are non-decreasing and lie
   inside the input; shifting the absolute offset shifts positions and nothing else. *)
From Coq Require Import ZArith List Bool Lia.
From PdfV Require Import Gen.LexClasses Model.Lexer Proofs.LexerProofs.
Import ListNotations.
Open Scope Z_scope.

(* newest first: bounded by hi, then non-increasing, all >= base *)
Fixpoint toks_ok (base hi : Z) (l : list (Z * token)) : Prop :=
  match l with
  | [] => True
  | (p, _) :: r => base <= p <= hi /\ toks_ok base p r
  end.

Lemma toks_ok_mono base hi hi' l : toks_ok base hi l -> hi <= hi' -> toks_ok base hi' l.
Proof. destruct l as [|[p t] r]; cbn; intuition lia. Qed.

Definition Inv (base : Z) (st : lst) : Prop :=
  base <= apos st /\ tpos st <= apos st /\
  (lmode st <> MMain -> base <= tpos st /\ tpos st < apos st) /\
  toks_ok base (tpos st) (toks st) /\
  Forall (fun pt => fst pt < apos st) (toks st).

Lemma Forall_lt_mono (l : list (Z * token)) a b :
  Forall (fun pt => fst pt < a) l -> a <= b -> Forall (fun pt => fst pt < b) l.
Proof. intros H Hab. eapply Forall_impl; [|exact H]. cbn. intros; lia. Qed.

Ltac split_ifs :=
  repeat match goal with
         | |- context [if ?b then _ else _] => destruct b
         | |- context [match ?o with Some _ => _ | None => _ end] => destruct o
         end.

Ltac inv_leaf :=
  cbn [fst] in *;
  first [ lia | congruence | assumption | discriminate
        | (eapply toks_ok_mono; [eassumption|lia])
        | (apply Forall_cons; [cbn [fst]; lia | eapply Forall_lt_mono; [eassumption|lia]])
        | (eapply Forall_lt_mono; [eassumption|lia])
        | (intros _; split; lia)
        | (match goal with H : ?m <> MMain -> _, H' : ?m <> MMain |- _ => destruct (H H'); lia end)
        | (let Hc := fresh in intros Hc;
           match goal with H : _ <> MMain -> _ |- _ => destruct (H Hc); split; lia end)
        | (let Hc := fresh in intros Hc; exfalso; apply Hc; reflexivity)
        | constructor ].

Ltac inv_solve :=
  unfold Inv in *; cbn [lmode cur tpos paren oct hexb toks apos toks_ok fst] in *;
  repeat match goal with H : _ /\ _ |- _ => destruct H end;
  try match goal with
      | H : ?m <> MMain -> _ |- _ =>
          first [ (let H' := fresh in assert (H' := H ltac:(discriminate)); clear H; destruct H')
                | (is_var m)
                | clear H ]
      end;
  repeat split; try inv_leaf.

Ltac unfold_setters :=
  unfold end_literal, end_lithex, end_number, end_float, end_keyword, end_hexstring, end_oct,
         string_special, string1_escape, main_dispatch;
  unfold add_cur; unfold set_mode, set_cur, set_tpos, set_paren, set_oct, set_hex, emit, adv;
  cbn [lmode cur tpos paren oct hexb toks apos].

Ltac unfold_all :=
  cbv beta iota zeta delta
    [step step_core step_main step_comment step_literal step_lithex step_number step_float step_keyword
     step_string step_string1 step_stringcr step_hexstring step_wopen step_wclose
     main_dispatch end_literal end_lithex end_number end_float end_keyword end_hexstring end_oct
     string_special string1_escape set_mode set_cur add_cur set_tpos set_paren set_oct set_hex emit adv
     lmode cur tpos paren oct hexb toks apos].

(* _parse_main's byte decision, from ANY state satisfying the invariant *)
Lemma step_main_inv base st c : Inv base st -> Inv base (adv 1 (step_main st c)).
Proof.
  intros H. destruct st as [m cu tp pa oc hx tk ap]. unfold step_main. unfold_setters.
  split_ifs; cbn [lmode cur tpos paren oct hexb toks apos]; inv_solve.
Qed.

Lemma to_main_inv base st : Inv base st -> Inv base (set_mode MMain st).
Proof. intros H. destruct st as [m cu tp pa oc hx tk ap]. unfold_setters. inv_solve. Qed.

Lemma end_inv base st (f : lst -> lst) :
  Inv base st -> lmode st <> MMain ->
  (f = end_literal \/ f = end_number \/ f = end_float \/ f = end_keyword \/ f = end_hexstring) ->
  Inv base (f st).
Proof.
  intros H Hm Hf. destruct st as [m cu tp pa oc hx tk ap]. cbn [lmode] in Hm.
  destruct Hf as [E|[E|[E|[E|E]]]]; subst f; unfold_setters; split_ifs;
    cbn [lmode cur tpos paren oct hexb toks apos];
    (destruct m; [congruence|..]); inv_solve.
Qed.

Lemma step_inv base st c : Inv base st -> Inv base (step st c).
Proof.
  intros H. unfold step, step_core.
  destruct (lmode st) eqn:Hm.
  - apply step_main_inv, H.
  - unfold step_comment. destruct (re_EOL c).
    + apply step_main_inv, to_main_inv, H.
    + destruct st as [m cu tp pa oc hx tk ap]. cbn [lmode] in Hm. subst m. unfold_setters. inv_solve.
  - unfold step_literal. destruct (re_END_LITERAL c); [destruct (c =? 35)|].
    + destruct st as [m cu tp pa oc hx tk ap]. cbn [lmode] in Hm. subst m. unfold_setters. inv_solve.
    + apply step_main_inv, end_inv; [exact H|congruence|tauto].
    + destruct st as [m cu tp pa oc hx tk ap]. cbn [lmode] in Hm. subst m. unfold_setters. inv_solve.
  - unfold step_lithex. destruct (re_HEX c && (len (hexb st) <? 2)).
    + destruct st as [m cu tp pa oc hx tk ap]. cbn [lmode] in Hm. subst m. unfold_setters. inv_solve.
    + assert (HL : Inv base (end_lithex st) /\ lmode (end_lithex st) = MLiteral).
      { destruct st as [m cu tp pa oc hx tk ap]. cbn [lmode] in Hm. subst m. unfold_setters.
        split; [|reflexivity]. split_ifs; cbn [lmode cur tpos paren oct hexb toks apos]; inv_solve. }
      destruct HL as [HL1 HL2]. unfold step_literal.
      destruct (re_END_LITERAL c); [destruct (c =? 35)|].
      * destruct (end_lithex st) as [m cu tp pa oc hx tk ap]. cbn [lmode] in HL2. subst m. unfold_setters. inv_solve.
      * apply step_main_inv, end_inv; [exact HL1|congruence|tauto].
      * destruct (end_lithex st) as [m cu tp pa oc hx tk ap]. cbn [lmode] in HL2. subst m. unfold_setters. inv_solve.
  - unfold step_number. destruct (re_END_NUMBER c); [destruct (c =? 46)|].
    + destruct st as [m cu tp pa oc hx tk ap]. cbn [lmode] in Hm. subst m. unfold_setters. inv_solve.
    + apply step_main_inv, end_inv; [exact H|congruence|tauto].
    + destruct st as [m cu tp pa oc hx tk ap]. cbn [lmode] in Hm. subst m. unfold_setters. inv_solve.
  - unfold step_float. destruct (re_END_NUMBER c).
    + apply step_main_inv, end_inv; [exact H|congruence|tauto].
    + destruct st as [m cu tp pa oc hx tk ap]. cbn [lmode] in Hm. subst m. unfold_setters. inv_solve.
  - unfold step_keyword. destruct (re_END_KEYWORD c).
    + apply step_main_inv, end_inv; [exact H|congruence|tauto].
    + destruct st as [m cu tp pa oc hx tk ap]. cbn [lmode] in Hm. subst m. unfold_setters. inv_solve.
  - unfold step_string. destruct st as [m cu tp pa oc hx tk ap]. cbn [lmode] in Hm. subst m.
    destruct (re_END_STRING c); unfold_setters; split_ifs;
      cbn [lmode cur tpos paren oct hexb toks apos]; inv_solve.
  - unfold step_string1. destruct st as [m cu tp pa oc hx tk ap]. cbn [lmode] in Hm. subst m.
    unfold step_string. unfold_setters. split_ifs; cbn [lmode cur tpos paren oct hexb toks apos]; inv_solve.
  - unfold step_stringcr. destruct st as [m cu tp pa oc hx tk ap]. cbn [lmode] in Hm. subst m.
    unfold step_string. unfold_setters. split_ifs; cbn [lmode cur tpos paren oct hexb toks apos]; inv_solve.
  - unfold step_wopen. destruct (c =? 60).
    + destruct st as [m cu tp pa oc hx tk ap]. cbn [lmode] in Hm. subst m. unfold_setters. inv_solve.
    + unfold step_hexstring. destruct (re_END_HEX_STRING c).
      * apply step_main_inv, end_inv; [|cbn; congruence|tauto].
        destruct st as [m cu tp pa oc hx tk ap]. cbn [lmode] in Hm. subst m. unfold_setters. inv_solve.
      * destruct st as [m cu tp pa oc hx tk ap]. cbn [lmode] in Hm. subst m. unfold_setters. inv_solve.
  - unfold step_wclose. destruct (c =? 62).
    + destruct st as [m cu tp pa oc hx tk ap]. cbn [lmode] in Hm. subst m. unfold_setters. inv_solve.
    + apply step_main_inv, to_main_inv, H.
  - unfold step_hexstring. destruct (re_END_HEX_STRING c).
    + apply step_main_inv, end_inv; [exact H|congruence|tauto].
    + destruct st as [m cu tp pa oc hx tk ap]. cbn [lmode] in Hm. subst m. unfold_setters. inv_solve.
Qed.

Lemma run_inv base s : forall st, Inv base st -> Inv base (run st s).
Proof. induction s as [|c s IH]; intros st H; [exact H|]. apply IH, step_inv, H. Qed.

Lemma init_inv pos : Inv pos (init pos).
Proof. unfold Inv, init. cbn. repeat split; try lia; try congruence. constructor. Qed.

Lemma apos_step st c : apos (step st c) = apos st + 1.
Proof.
  destruct st as [m cu tp pa oc hx tk ap]. destruct m; unfold_all; split_ifs; unfold_all; reflexivity.
Qed.

Lemma apos_run s : forall st, apos (run st s) = apos st + len s.
Proof.
  induction s as [|c s IH]; intros st; [unfold len; cbn; lia|].
  rewrite run_cons, IH, apos_step, len_cons. lia.
Qed.

(* the white-space byte fed at EOF adds at most a token whose position is the pending
   token's start; no position reaches the end of the data *)
Lemma ws_inv base st : Inv base st ->
  toks_ok base (tpos st) (toks (step st 10)) /\ Forall (fun pt => fst pt < apos st) (toks (step st 10)).
Proof.
  intros H. destruct st as [m cu tp pa oc hx tk ap].
  destruct m; unfold_all;
    cbn [re_NONSPC re_EOL re_END_LITERAL re_END_NUMBER re_END_KEYWORD re_END_STRING re_END_HEX_STRING
         re_HEX re_OCT_STRING negb Z.eqb Z.leb Z.compare Pos.compare Pos.compare_cont andb orb Pos.eqb
         lookup ESC_STRING];
    split_ifs; unfold_all; inv_solve.
Qed.

Fixpoint sorted_asc (l : list Z) : Prop :=
  match l with
  | [] => True
  | p :: r => match r with [] => True | q :: _ => p <= q end /\ sorted_asc r
  end.

Lemma toks_ok_in base hi l : toks_ok base hi l -> forall pt, In pt l -> base <= fst pt <= hi.
Proof.
  revert hi. induction l as [|[p t] r IH]; intros hi H pt Hin; [contradiction|].
  cbn in H. destruct H as [Hp Hr]. destruct Hin as [E|Hin].
  - subst. cbn. lia.
  - specialize (IH p Hr pt Hin). lia.
Qed.

Lemma sorted_asc_app_one l p : sorted_asc l -> (forall q, In q l -> q <= p) -> sorted_asc (l ++ [p]).
Proof.
  induction l as [|a r IH]; intros Hs Hall; [cbn; auto|].
  cbn [app]. cbn in Hs. destruct Hs as [Ha Hr]. cbn [sorted_asc]. split.
  - destruct r as [|b r']; cbn [app].
    + apply Hall. left. reflexivity.
    + exact Ha.
  - apply IH; [exact Hr|]. intros q Hq. apply Hall. right. exact Hq.
Qed.

Lemma toks_ok_sorted base hi l : toks_ok base hi l -> sorted_asc (map fst (rev l)).
Proof.
  revert hi. induction l as [|[p t] r IH]; intros hi H; [cbn; auto|].
  cbn in H. destruct H as [Hp Hr]. cbn [rev]. rewrite map_app. cbn [map fst].
  apply sorted_asc_app_one; [eapply IH; exact Hr|].
  intros q Hq. apply in_map_iff in Hq. destruct Hq as [pt [E Hin]]. subst q.
  apply in_rev in Hin. pose proof (toks_ok_in _ _ _ Hr pt Hin). lia.
Qed.

(* C14: positions of all tokens are non-decreasing and inside [pos, pos+|data|) *)
Theorem lex_positions pos data :
  sorted_asc (map fst (lex pos data)) /\
  forall pt, In pt (lex pos data) -> pos <= fst pt < pos + len data.
Proof.
  unfold lex, tokens_of. rewrite run_app. change (run (run (init pos) data) [10]) with (step (run (init pos) data) 10).
  pose proof (run_inv pos data (init pos) (init_inv pos)) as HI.
  destruct (ws_inv pos _ HI) as [Hok Hlt].
  split.
  - eapply toks_ok_sorted. exact Hok.
  - intros pt Hin. apply in_rev in Hin. split.
    + pose proof (toks_ok_in _ _ _ Hok pt Hin). lia.
    + rewrite Forall_forall in Hlt. specialize (Hlt pt Hin).
      rewrite apos_run in Hlt. cbn [apos init] in Hlt. exact Hlt.
Qed.

(* ---- offset independence ------------------------------------------------------- *)
Definition shiftp (k : Z) (pt : Z * token) : Z * token := (fst pt + k, snd pt).
Definition shift (k : Z) (st : lst) : lst :=
  mkL (lmode st) (cur st) (tpos st + k) (paren st) (oct st) (hexb st) (map (shiftp k) (toks st)) (apos st + k).

Lemma step_shift k st c : step (shift k st) c = shift k (step st c).
Proof.
  destruct st as [m cu tp pa oc hx tk ap]. unfold shift.
  destruct m; unfold_all; split_ifs; unfold_all; cbv beta iota delta [map shiftp fst snd]; f_equal; lia.
Qed.

Lemma run_shift k s : forall st, run (shift k st) s = shift k (run st s).
Proof. induction s as [|c s IH]; intros st; [reflexivity|]. rewrite !run_cons, step_shift. apply IH. Qed.

(* C01/C14: reading the same bytes at another absolute offset changes positions only *)
Theorem lex_offset pos data : lex pos data = map (shiftp pos) (lex 0 data).
Proof.
  unfold lex, tokens_of.
  change (init pos) with (shift pos (init 0)) at 1.
  rewrite run_shift. cbn [toks shift]. rewrite map_rev. reflexivity.
Qed.
