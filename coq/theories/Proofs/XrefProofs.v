(* C02 proofs: line readers are independent of buffer boundaries; cross-reference stream
   fields; first answering section. *)
From Coq Require Import ZArith List Bool Lia.
From PdfV Require Import Base.ListX Model.Xref.
Import ListNotations.
Open Scope Z_scope.

(* ================= nextline ====================================================================== *)
(* the specification with the "CR just seen" flag *)
Definition spec_go (eol : bool) (d : list Z) : option (list Z * list Z) :=
  if eol then match d with [] => None | 10 :: t => Some ([10], t) | _ => Some ([], d) end
  else spec_nextline d.

Lemma span_noeol_spec s : forall a b, span_noeol s = (a, b) ->
  s = a ++ b /\ forallb (fun c => negb (is_eol c)) a = true /\
  match b with [] => True | e :: _ => is_eol e = true end.
Proof.
  induction s as [|c r IH]; intros a b H; cbn in H.
  - inversion H; subst. auto.
  - destruct (is_eol c) eqn:E.
    + inversion H; subst. cbn. auto.
    + destruct (span_noeol r) as [a' b'] eqn:Hs. inversion H; subst.
      destruct (IH a' b eq_refl) as (E1 & E2 & E3). subst r. cbn. rewrite E, E2. auto.
Qed.

Lemma is_eol_cases c : is_eol c = true -> c = 10 \/ c = 13.
Proof. unfold is_eol. rewrite orb_true_iff, !Z.eqb_eq. tauto. Qed.
Lemma not_eol c : is_eol c = false -> c <> 10 /\ c <> 13.
Proof. unfold is_eol. rewrite orb_false_iff, !Z.eqb_neq. tauto. Qed.

(* a prefix without end-of-line bytes is copied *)
Lemma spec_nextline_prefix a : forallb (fun c => negb (is_eol c)) a = true -> forall d,
  spec_nextline (a ++ d) = match spec_nextline d with Some (l, t) => Some (a ++ l, t) | None => None end.
Proof.
  induction a as [|c r IH]; intros Ha d; cbn [app].
  - destruct (spec_nextline d) as [[l t]|]; reflexivity.
  - cbn [forallb] in Ha. apply andb_true_iff in Ha. destruct Ha as [Hc Hr]. apply negb_true_iff in Hc.
    destruct (not_eol c Hc) as [H10 H13]. cbn [spec_nextline].
    apply Z.eqb_neq in H10. apply Z.eqb_neq in H13. rewrite H10, H13, (IH Hr d).
    destruct (spec_nextline d) as [[l t]|]; reflexivity.
Qed.

Lemma not10 (A : Type) x (xs : list Z) (u v : A) : x <> 10 ->
  match x :: xs with 10 :: r' => u | _ => v end = v.
Proof.
  intros H. destruct x as [|p|p]; try reflexivity.
  repeat (destruct p as [p|p|]; try reflexivity). exfalso. apply H. reflexivity.
Qed.

Lemma cr_lookahead d : spec_nextline (13 :: d) =
  match spec_go true d with Some (l, t) => Some (13 :: l, t) | None => None end.
Proof.
  cbn [spec_nextline Z.eqb Pos.eqb spec_go]. destruct d as [|x xs]; [reflexivity|].
  destruct (Z.eq_dec x 10) as [->|H]; [reflexivity|].
  rewrite (not10 _ x xs (Some ([10], xs)) (Some ([], x :: xs)) H).
  destruct x as [|p|p]; try reflexivity.
  repeat (destruct p as [p|p|]; try reflexivity). exfalso. apply H. reflexivity.
Qed.

Definition measure (eol : bool) (cur : list Z) (rest : list (list Z)) : nat :=
  2 * length rest + match cur with [] => 0 | _ => 1 end + (if eol then 1 else 2).

(* the reader over any chunking computes the specification on the concatenated bytes *)
Lemma nextline_go_spec : forall fuel lb eol cur rest,
  (measure eol cur rest <= fuel)%nat ->
  match spec_go eol (cur ++ concat rest) with
  | None => nextline_go fuel lb eol cur rest = None
  | Some (l, t) => exists cur' rest', nextline_go fuel lb eol cur rest = Some (lb ++ l, cur', rest') /\
                                      cur' ++ concat rest' = t
  end.
Proof.
  induction fuel as [|f IH]; intros lb eol cur rest Hm.
  - unfold measure in Hm. destruct cur; destruct eol; lia.
  - cbn [nextline_go]. destruct cur as [|c cur'].
    + (* buffer exhausted: fillbuf *)
      destruct rest as [|b rest'].
      * cbn. destruct eol; reflexivity.
      * cbn [app concat]. specialize (IH lb eol b rest'). cbn [app] in IH. apply IH.
        unfold measure in *. cbn [length] in *. destruct b; destruct eol; lia.
    + destruct eol.
      * (* CR seen: an immediately following LF belongs to the line *)
        cbn [spec_go app]. destruct (c =? 10) eqn:E.
        -- apply Z.eqb_eq in E. subst c. exists cur', rest. split; reflexivity.
        -- apply Z.eqb_neq in E.
           rewrite (not10 _ c (cur' ++ concat rest) (Some ([10], cur' ++ concat rest))
                          (Some ([], c :: cur' ++ concat rest)) E).
           exists (c :: cur'), rest. split; [rewrite app_nil_r; reflexivity|reflexivity].
      * destruct (span_noeol (c :: cur')) as [a b] eqn:Hs.
        destruct (span_noeol_spec _ _ _ Hs) as (E & Ha & Hb). rewrite E. rewrite <- app_assoc.
        unfold spec_go. rewrite (spec_nextline_prefix a Ha).
        destruct b as [|e b'].
        -- (* no end of line in this buffer *)
           cbn [app]. specialize (IH (lb ++ a) false [] rest). cbn [app spec_go] in IH.
           assert (Hf : (measure false [] rest <= f)%nat) by (unfold measure in *; cbn [length] in *; lia).
           specialize (IH Hf). destruct (spec_nextline (concat rest)) as [[l t]|].
           ++ destruct IH as (c1 & r1 & H1 & H2). exists c1, r1. rewrite <- app_assoc in H1. split; assumption.
           ++ exact IH.
        -- cbn [app]. destruct (is_eol_cases e Hb) as [-> | ->].
           ++ cbn [spec_nextline Z.eqb Pos.eqb]. exists b', rest. split; [|reflexivity].
              cbn [Z.eqb Pos.eqb]. reflexivity.
           ++ cbn [Z.eqb Pos.eqb].
              specialize (IH (lb ++ a ++ [13]) true b' rest).
              assert (Hf : (measure true b' rest <= f)%nat).
              { unfold measure in *. cbn [length] in *. destruct b'; lia. }
              specialize (IH Hf). rewrite cr_lookahead.
              destruct (spec_go true (b' ++ concat rest)) as [[l t]|].
              ** destruct IH as (c1 & r1 & H1 & H2). exists c1, r1. split; [|exact H2].
                 rewrite H1. f_equal. f_equal. rewrite <- !app_assoc. reflexivity.
              ** exact IH.
Qed.

(* C02: nextline returns the specified line for EVERY way the file is cut into buffers *)
Theorem nextline_chunk_independent : forall cur rest,
  match spec_nextline (cur ++ concat rest) with
  | None => nextline cur rest = None
  | Some (l, t) => exists cur' rest', nextline cur rest = Some (l, cur', rest') /\ cur' ++ concat rest' = t
  end.
Proof.
  intros cur rest. pose proof (nextline_go_spec (2 * length rest + 4) [] false cur rest) as H.
  cbn [spec_go app] in H. apply H. unfold measure. destruct cur; lia.
Qed.

(* ================= revreadlines ================================================================== *)
Lemma rev_spec_noeol t : forallb (fun c => negb (is_eol c)) t = true -> forall R acc,
  rev_spec (rev t ++ R) acc = rev_spec R (t ++ acc).
Proof.
  induction t as [|c r IH] using rev_ind; intros Ht R acc; [reflexivity|].
  rewrite forallb_app in Ht. apply andb_true_iff in Ht. destruct Ht as [Hr Hc].
  cbn [forallb] in Hc. rewrite andb_true_r in Hc. apply negb_true_iff in Hc.
  rewrite rev_app_distr. cbn [rev app rev_spec]. rewrite Hc. rewrite (IH Hr). rewrite <- app_assoc. reflexivity.
Qed.

Lemma forallb_rev {A} (p : A -> bool) l : forallb p (rev l) = forallb p l.
Proof.
  induction l as [|x r IH]; [reflexivity|]. cbn [rev]. rewrite forallb_app, IH. cbn. rewrite andb_true_r, andb_comm. reflexivity.
Qed.

(* one buffer: its lines, then the specification continues on what lies before it *)
Lemma rev_chunk_spec : forall fuel s buf R, (length s < fuel)%nat ->
  let (ls, b') := rev_chunk fuel s buf in
  rev_spec (rev s ++ R) buf = ls ++ rev_spec R b'.
Proof.
  induction fuel as [|f IH]; intros s buf R Hf; [lia|].
  cbn [rev_chunk]. destruct (span_noeol (rev s)) as [tr rest] eqn:Hs.
  destruct (span_noeol_spec _ _ _ Hs) as (E & Htr & Hrest).
  destruct rest as [|c ar].
  - rewrite app_nil_r in E. cbn [app].
    assert (Hno : forallb (fun c => negb (is_eol c)) s = true) by (rewrite <- forallb_rev, E; exact Htr).
    apply rev_spec_noeol. exact Hno.
  - specialize (IH (rev ar) [] R).
    assert (Hl : (length (rev ar) < f)%nat).
    { rewrite rev_length. apply (f_equal (@length Z)) in E. rewrite rev_length, app_length in E. cbn [length] in E. lia. }
    specialize (IH Hl). destruct (rev_chunk f (rev ar) []) as [ls b'].
    rewrite E. rewrite <- app_assoc. cbn [app].
    assert (Htr' : forallb (fun c => negb (is_eol c)) (rev tr) = true) by (rewrite forallb_rev; exact Htr).
    pose proof (rev_spec_noeol (rev tr) Htr' (c :: ar ++ R) buf) as H1. rewrite rev_involutive in H1.
    rewrite H1. cbn [rev_spec]. rewrite Hrest. cbn [app]. f_equal.
    rewrite rev_involutive in IH. exact IH.
Qed.

Lemma revreadlines_go_spec : forall fuel b front buf, (0 < b)%nat -> (length front < fuel)%nat ->
  revreadlines_go fuel b front buf = rev_spec (rev front) buf.
Proof.
  induction fuel as [|f IH]; intros b front buf Hb Hf; [lia|].
  cbn [revreadlines_go]. destruct front as [|x xs] eqn:Efront; [reflexivity|]. rewrite <- Efront in *.
  set (k := (length front - b)%nat).
  assert (Hsplit : front = firstn k front ++ skipn k front) by (symmetry; apply firstn_skipn).
  pose proof (rev_chunk_spec (S (length (skipn k front))) (skipn k front) buf (rev (firstn k front)) ltac:(lia)) as Hc.
  destruct (rev_chunk (S (length (skipn k front))) (skipn k front) buf) as [ls b'].
  rewrite IH.
  - rewrite <- Hc. rewrite <- rev_app_distr, <- Hsplit. reflexivity.
  - exact Hb.
  - rewrite firstn_length. subst k. assert (0 < length front)%nat by (rewrite Efront; cbn; lia). lia.
Qed.

(* C02: the lines read backwards -- hence find_xref -- do not depend on the buffer size *)
Theorem revreadlines_spec : forall b data, (0 < b)%nat -> revreadlines b data = rev_spec (rev data) [].
Proof. intros. unfold revreadlines. apply revreadlines_go_spec; [assumption|lia]. Qed.

Theorem find_xref_bufsize_independent : forall b1 b2 data, (0 < b1)%nat -> (0 < b2)%nat ->
  find_xref b1 data = find_xref b2 data.
Proof. intros. unfold find_xref. rewrite !revreadlines_spec by assumption. reflexivity. Qed.

(* ================= cross-reference stream fields ================================================= *)
Fixpoint be_bytes (w : nat) (v : Z) : list Z :=
  match w with O => [] | S w' => be_bytes w' (v / 256) ++ [v mod 256] end.

Lemma be_value_app l b : be_value (l ++ [b]) = 256 * be_value l + b.
Proof. unfold be_value. rewrite fold_left_app. reflexivity. Qed.

Lemma be_bytes_length w : forall v, length (be_bytes w v) = w.
Proof. induction w as [|w IH]; intros v; cbn; [reflexivity|]. rewrite app_length, IH. cbn. lia. Qed.

Lemma be_value_bytes w : forall v, 0 <= v < 256 ^ Z.of_nat w -> be_value (be_bytes w v) = v.
Proof.
  induction w as [|w IH]; intros v Hv.
  - cbn in *. unfold be_value. cbn. lia.
  - cbn [be_bytes]. rewrite be_value_app.
    rewrite Nat2Z.inj_succ, Z.pow_succ_r in Hv by lia.
    rewrite IH.
    + pose proof (Z.div_mod v 256 ltac:(lia)). lia.
    + split; [apply Z.div_pos; lia|apply Z.div_lt_upper_bound; lia].
Qed.

Definition ent := (Z * Z * Z)%type.
Definition enc_ent (w1 w2 w3 : nat) (e : ent) : list Z :=
  let '(t, a, b) := e in be_bytes w1 t ++ be_bytes w2 a ++ be_bytes w3 b.
Definition fits (w : nat) (v : Z) : Prop := 0 <= v < 256 ^ Z.of_nat w.
Definition ent_fits (w1 w2 w3 : nat) (e : ent) : Prop :=
  let '(t, a, b) := e in fits w1 t /\ fits w2 a /\ fits w3 b.
(* nunpack of a zero-width field yields the default *)
Definition fieldval (w : nat) (default v : Z) : Z := match w with O => default | _ => v end.

Lemma enc_ent_length w1 w2 w3 e : length (enc_ent w1 w2 w3 e) = (w1 + w2 + w3)%nat.
Proof. destruct e as [[t a] b]. cbn. rewrite !app_length, !be_bytes_length. lia. Qed.

Lemma nunpack_be w d v : fits w v -> nunpack (be_bytes w v) d = fieldval w d v.
Proof.
  intros Hv. destruct w as [|w]; [reflexivity|]. unfold nunpack, fieldval.
  destruct (be_bytes (S w) v) eqn:E.
  - apply (f_equal (@length Z)) in E. rewrite be_bytes_length in E. cbn in E. lia.
  - rewrite <- E. apply be_value_bytes. exact Hv.
Qed.

Lemma slice_blocks (L : nat) (blocks : list (list Z)) : Forall (fun b => length b = L) blocks ->
  forall i blk, nth_error blocks i = Some blk ->
    slice (concat blocks) (Z.of_nat L * Z.of_nat i) (Z.of_nat L * Z.of_nat i + Z.of_nat L) = blk.
Proof.
  intros Hall. induction Hall as [|b r Hb Hr IH]; intros i blk Hn; [destruct i; discriminate|].
  destruct i as [|i]; cbn [nth_error] in Hn.
  - inversion Hn; subst blk. unfold slice. cbn [concat].
    replace (Z.to_nat (Z.of_nat L * Z.of_nat 0)) with 0%nat by lia. cbn [skipn].
    replace (Z.to_nat (Z.of_nat L * Z.of_nat 0 + Z.of_nat L - Z.of_nat L * Z.of_nat 0)) with (length b) by lia.
    rewrite firstn_app, firstn_all, Nat.sub_diag. cbn [firstn]. apply app_nil_r.
  - specialize (IH i blk Hn). unfold slice in *. cbn [concat].
    replace (Z.to_nat (Z.of_nat L * Z.of_nat (S i))) with (length b + Z.to_nat (Z.of_nat L * Z.of_nat i))%nat by lia.
    rewrite skipn_app. rewrite skipn_all2 by lia. cbn [app].
    replace (length b + Z.to_nat (Z.of_nat L * Z.of_nat i) - length b)%nat with (Z.to_nat (Z.of_nat L * Z.of_nat i)) by lia.
    replace (Z.of_nat L * Z.of_nat (S i) + Z.of_nat L - Z.of_nat L * Z.of_nat (S i))
      with (Z.of_nat L * Z.of_nat i + Z.of_nat L - Z.of_nat L * Z.of_nat i) by lia.
    exact IH.
Qed.

Lemma firstn_len_app {A} (a b : list A) n : length a = n -> firstn n (a ++ b) = a.
Proof. intros <-. rewrite firstn_app, firstn_all, Nat.sub_diag. cbn. apply app_nil_r. Qed.
Lemma skipn_len_app {A} (a b : list A) n : length a = n -> skipn n (a ++ b) = b.
Proof. intros <-. rewrite skipn_app, skipn_all, Nat.sub_diag. reflexivity. Qed.

(* the three fields of the i-th entry, for every field width *)
Theorem xs_entry_decode : forall ranges (w1 w2 w3 : nat) es i t a b,
  Forall (ent_fits w1 w2 w3) es -> nth_error es i = Some (t, a, b) ->
  xs_entry (mkXS ranges (Z.of_nat w1) (Z.of_nat w2) (Z.of_nat w3) (flat_map (enc_ent w1 w2 w3) es)) (Z.of_nat i)
  = (fieldval w1 1 t, fieldval w2 0 a, fieldval w3 0 b).
Proof.
  intros ranges w1 w2 w3 es i t a b Hfit Hn. unfold xs_entry, entlen. cbn [fl1 fl2 fl3 xdata].
  rewrite flat_map_concat_map.
  replace (Z.of_nat w1 + Z.of_nat w2 + Z.of_nat w3) with (Z.of_nat (w1 + w2 + w3)) by lia.
  rewrite (slice_blocks (w1 + w2 + w3) (map (enc_ent w1 w2 w3) es)) with (blk := enc_ent w1 w2 w3 (t, a, b)).
  - rewrite Forall_forall in Hfit. assert (Hin : In (t, a, b) es) by (eapply nth_error_In; exact Hn).
    destruct (Hfit _ Hin) as (F1 & F2 & F3). cbn [enc_ent]. rewrite !Nat2Z.id.
    f_equal; [f_equal|].
    + rewrite (firstn_len_app _ _ w1 (be_bytes_length w1 t)). apply nunpack_be. exact F1.
    + unfold slice. rewrite Nat2Z.id. rewrite (skipn_len_app _ _ w1 (be_bytes_length w1 t)).
      replace (Z.to_nat (Z.of_nat w1 + Z.of_nat w2 - Z.of_nat w1)) with w2 by lia.
      rewrite (firstn_len_app _ _ w2 (be_bytes_length w2 a)). apply nunpack_be. exact F2.
    + replace (Z.to_nat (Z.of_nat w1 + Z.of_nat w2)) with (w1 + w2)%nat by lia.
      rewrite app_assoc.
      rewrite (skipn_len_app (be_bytes w1 t ++ be_bytes w2 a) _ (w1 + w2)%nat)
        by (rewrite app_length, !be_bytes_length; reflexivity).
      apply nunpack_be. exact F3.
  - apply Forall_forall. intros blk Hb. apply in_map_iff in Hb. destruct Hb as [e [<- _]]. apply enc_ent_length.
  - rewrite nth_error_map, Hn. reflexivity.
Qed.

(* position of the object number among the ids listed by /Index, in order *)
Definition range_ids (sc : Z * Z) : list Z := map (fun k => fst sc + Z.of_nat k) (seq 0 (Z.to_nat (snd sc))).
Fixpoint find_index (x : Z) (l : list Z) (i : nat) : option nat :=
  match l with [] => None | y :: r => if y =? x then Some i else find_index x r (S i) end.

Lemma find_index_app x a b i :
  find_index x (a ++ b) i = match find_index x a i with Some k => Some k | None => find_index x b (i + length a) end.
Proof.
  revert i. induction a as [|y r IH]; intros i; cbn [app find_index length].
  - rewrite Nat.add_0_r. reflexivity.
  - destruct (y =? x); [reflexivity|]. rewrite IH. replace (S i + length r)%nat with (i + S (length r))%nat by lia. reflexivity.
Qed.

Lemma find_index_range start cnt x i : 0 <= cnt ->
  find_index x (range_ids (start, cnt)) i =
  if (start <=? x) && (x <? start + cnt) then Some (i + Z.to_nat (x - start))%nat else None.
Proof.
  intros Hc. unfold range_ids. cbn [fst snd].
  remember (Z.to_nat cnt) as n eqn:En. assert (Hcn : cnt = Z.of_nat n) by lia. clear En. subst cnt. clear Hc.
  revert start i. induction n as [|n IH]; intros start i.
  - cbn. destruct (start <=? x) eqn:E1; destruct (x <? start + 0) eqn:E2; try reflexivity.
    apply Z.leb_le in E1. apply Z.ltb_lt in E2. lia.
  - cbn [seq map find_index]. rewrite Z.add_0_r. destruct (start =? x) eqn:E.
    + apply Z.eqb_eq in E. subst x.
      assert (H1 : (start <=? start) = true) by (apply Z.leb_le; lia).
      assert (H2 : (start <? start + Z.of_nat (S n)) = true) by (apply Z.ltb_lt; lia).
      rewrite H1, H2. cbn. f_equal. lia.
    + apply Z.eqb_neq in E. rewrite <- seq_shift, map_map.
      assert (Hm : map (fun k => start + Z.of_nat (S k)) (seq 0 n) = map (fun k => (start + 1) + Z.of_nat k) (seq 0 n)).
      { apply map_ext. intros k. lia. }
      rewrite Hm, (IH (start + 1) (S i)).
      destruct (start <=? x) eqn:E1; destruct (x <? start + Z.of_nat (S n)) eqn:E2;
        destruct (start + 1 <=? x) eqn:E3; destruct (x <? start + 1 + Z.of_nat n) eqn:E4; cbn [andb];
        try (apply Z.leb_le in E1); try (apply Z.leb_gt in E1); try (apply Z.ltb_lt in E2); try (apply Z.ltb_ge in E2);
        try (apply Z.leb_le in E3); try (apply Z.leb_gt in E3); try (apply Z.ltb_lt in E4); try (apply Z.ltb_ge in E4);
        try lia; try reflexivity.
      f_equal. lia.
Qed.

Lemma xs_index_spec : forall ranges x base (i : nat),
  Forall (fun sc => 0 <= snd sc) ranges -> base = Z.of_nat i ->
  xs_index ranges x base = option_map Z.of_nat (find_index x (flat_map range_ids ranges) i).
Proof.
  induction ranges as [|[start cnt] r IH]; intros x base i Hnn Hb; [reflexivity|].
  inversion Hnn as [|? ? Hc Hr]; subst. cbn [snd] in Hc.
  cbn [xs_index flat_map]. rewrite find_index_app, (find_index_range start cnt x i Hc).
  destruct ((start <=? x) && (x <? start + cnt)) eqn:E.
  - cbn [option_map]. f_equal. apply andb_true_iff in E. destruct E as [E1 E2]. apply Z.leb_le in E1. lia.
  - rewrite (IH x (Z.of_nat i + cnt) (i + length (range_ids (start, cnt)))%nat Hr).
    + reflexivity.
    + unfold range_ids. rewrite map_length, seq_length. cbn [snd]. lia.
Qed.

(* C02: for every W and every /Index partition, get_pos returns the entry stored for the FIRST
   listed occurrence of the object number (type 1 by default when w1 = 0; type 0 = free) *)
Theorem xs_get_pos_spec : forall ranges (w1 w2 w3 : nat) es x,
  Forall (fun sc => 0 <= snd sc) ranges -> Forall (ent_fits w1 w2 w3) es ->
  length es = length (flat_map range_ids ranges) ->
  xs_get_pos (mkXS ranges (Z.of_nat w1) (Z.of_nat w2) (Z.of_nat w3) (flat_map (enc_ent w1 w2 w3) es)) x =
  match find_index x (flat_map range_ids ranges) 0 with
  | None => None
  | Some i => match nth_error es i with
              | Some (t, a, b) =>
                  let t' := fieldval w1 1 t in
                  if t' =? 1 then Some (EDirect (fieldval w2 0 a) (fieldval w3 0 b))
                  else if t' =? 2 then Some (EInStm (fieldval w2 0 a) (fieldval w3 0 b)) else None
              | None => None
              end
  end.
Proof.
  intros ranges w1 w2 w3 es x Hnn Hfit Hlen. unfold xs_get_pos. cbn [xranges].
  rewrite (xs_index_spec ranges x 0 0%nat Hnn eq_refl).
  destruct (find_index x (flat_map range_ids ranges) 0) as [i|] eqn:Ef; cbn [option_map]; [|reflexivity].
  destruct (nth_error es i) as [[[t a] b]|] eqn:En.
  - rewrite (xs_entry_decode ranges w1 w2 w3 es i t a b Hfit En). reflexivity.
  - exfalso. apply nth_error_None in En.
    assert (Hi : forall l j k, find_index x l j = Some k -> (k < j + length l)%nat).
    { induction l as [|y r IH]; intros j k Hk; [discriminate|].
      cbn in Hk. destruct (y =? x); [inversion Hk; subst; cbn; lia|]. specialize (IH (S j) k Hk). cbn. lia. }
    specialize (Hi _ _ _ Ef).
    lia.
Qed.

(* ================= the section chain =============================================================== *)
(* first section that knows the object and whose offset holds that object *)
Fixpoint first_valid (secs : list section) (c : content) (objid : Z) : option oval :=
  match secs with
  | [] => None
  | s :: r =>
      match sec_get_pos s objid with
      | Some (EDirect pos _) =>
          match c pos with
          | Some (id1, v) => if id1 =? objid then Some v else first_valid r c objid
          | None => first_valid r c objid
          end
      | _ => first_valid r c objid
      end
  end.

Definition no_compressed (secs : list section) (objid : Z) : Prop :=
  forall s stm k, In s secs -> sec_get_pos s objid <> Some (EInStm stm k).

(* C02: sections are consulted newest first; the answer is the one of the first section that defines
   the object (directly stored objects) *)
Theorem getobj_direct : forall fuel secs c objid, no_compressed secs objid ->
  getobj (S fuel) secs c objid = match first_valid secs c objid with Some v => GFound v | None => GNotFound end.
Proof.
  intros fuel secs c objid Hnc. cbn [getobj].
  assert (Hgen : forall l, (forall s stm k, In s l -> sec_get_pos s objid <> Some (EInStm stm k)) ->
    (fix try (l : list section) : gres :=
       match l with
       | [] => GNotFound
       | s :: r =>
           match sec_get_pos s objid with
           | None => try r
           | Some (EDirect pos _) =>
               match c pos with
               | Some (id1, v) => if id1 =? objid then GFound v else try r
               | None => try r
               end
           | Some (EInStm stm index) =>
               match getobj fuel secs c stm with
               | GFound (OStm n objs) =>
                   match nth_error objs (Z.to_nat (n * 2 + index)) with
                   | Some v => if 0 <=? n * 2 + index then GFound (OPlain v) else try r
                   | None => try r
                   end
               | GFound (OPlain _) => try r
               | GNotFound => GNotFound
               | GOutOfFuel => GOutOfFuel
               end
           end
       end) l = match first_valid l c objid with Some v => GFound v | None => GNotFound end).
  { induction l as [|s r IH]; intros Hl; [reflexivity|]. cbn [first_valid].
    assert (Hr : forall s0 stm k, In s0 r -> sec_get_pos s0 objid <> Some (EInStm stm k))
      by (intros; apply Hl; right; assumption).
    destruct (sec_get_pos s objid) as [[pos g|stm k]|] eqn:E.
    - destruct (c pos) as [[id1 v]|]; [destruct (id1 =? objid); [reflexivity|]|]; apply IH; exact Hr.
    - exfalso. apply (Hl s stm k); [left; reflexivity|exact E].
    - apply IH; exact Hr. }
  apply Hgen. exact Hnc.
Qed.

(* a member of an object stream: element 2N + index of the parsed object list *)
Theorem getobj_compressed : forall fuel s r c objid stm k n objs v,
  sec_get_pos s objid = Some (EInStm stm k) ->
  getobj fuel (s :: r) c stm = GFound (OStm n objs) ->
  0 <= n * 2 + k -> nth_error objs (Z.to_nat (n * 2 + k)) = Some v ->
  getobj (S fuel) (s :: r) c objid = GFound (OPlain v).
Proof.
  intros fuel s r c objid stm k n objs v Hs Hstm Hk Hn. cbn [getobj]. rewrite Hs, Hstm, Hn.
  apply Z.leb_le in Hk. rewrite Hk. reflexivity.
Qed.

(* ================= get_objids ======================================================================= *)
Definition inuse (w1 : nat) (e : ent) : bool :=
  let '(t, _, _) := e in let t' := fieldval w1 1 t in (t' =? 1) || (t' =? 2).

Section ObjIds.
  Variables (ranges0 : list (Z * Z)) (w1 w2 w3 : nat) (es : list ent).
  Hypothesis Hfit : Forall (ent_fits w1 w2 w3) es.
  Hypothesis Hpos : (0 < w1 + w2 + w3)%nat.
  Let x := mkXS ranges0 (Z.of_nat w1) (Z.of_nat w2) (Z.of_nat w3) (flat_map (enc_ent w1 w2 w3) es).

  Lemma objids_range : forall n start i index, (index + i + n <= length es)%nat ->
    xs_objids_range x start n (Z.of_nat i) (Z.of_nat index) =
    map fst (filter (fun p => inuse w1 (snd p))
                    (combine (map (fun k => start + Z.of_nat k) (seq i n)) (firstn n (skipn (index + i) es)))).
  Proof.
    induction n as [|n IH]; intros start i index Hlen; [reflexivity|].
    cbn [xs_objids_range seq map].
    destruct (nth_error es (index + i)) as [[[t a] b]|] eqn:En; [|apply nth_error_None in En; lia].
    replace (Z.of_nat index + Z.of_nat i) with (Z.of_nat (index + i)) by lia.
    assert (Hdl : length (xdata x) = ((w1 + w2 + w3) * length es)%nat).
    { unfold x. cbn [xdata]. clear. induction es as [|e r IHr]; [cbn; lia|].
      cbn [flat_map]. rewrite app_length, enc_ent_length, IHr. cbn [length]. lia. }
    assert (Hguard : (Z.of_nat (length (xdata x)) <=? entlen x * Z.of_nat (index + i)) = false).
    { rewrite Hdl. unfold entlen, x. cbn [fl1 fl2 fl3]. apply Z.leb_gt. nia. }
    rewrite Hguard.
    unfold x. rewrite (xs_entry_decode ranges0 w1 w2 w3 es (index + i) t a b Hfit En).
    assert (Hsk : skipn (index + i) es = (t, a, b) :: skipn (S (index + i)) es).
    { clear - En. revert En. generalize (index + i)%nat. induction es as [|e r IHr]; intros k En; [destruct k; discriminate|].
      destruct k; cbn in *; [inversion En; reflexivity|apply IHr; exact En]. }
    rewrite Hsk. cbn [firstn combine filter snd inuse].
    replace (Z.of_nat i + 1) with (Z.of_nat (S i)) by lia.
    fold x. rewrite (IH start (S i) index) by lia.
    replace (index + S i)%nat with (S (index + i)) by lia.
    destruct ((fieldval w1 1 t =? 1) || (fieldval w1 1 t =? 2)); reflexivity.
  Qed.
End ObjIds.

Lemma combine_app {A B} (a1 a2 : list A) (b1 b2 : list B) : length a1 = length b1 ->
  combine (a1 ++ a2) (b1 ++ b2) = combine a1 b1 ++ combine a2 b2.
Proof.
  revert b1. induction a1 as [|x r IH]; intros b1 H; destruct b1; cbn in *; try discriminate; [reflexivity|].
  f_equal. apply IH. lia.
Qed.

(* C02: the in-use object numbers are exactly the listed ids whose entry is of type 1 or 2,
   across all /Index ranges *)
Theorem xs_get_objids_spec : forall ranges (w1 w2 w3 : nat) es,
  Forall (fun sc => 0 <= snd sc) ranges -> Forall (ent_fits w1 w2 w3) es -> (0 < w1 + w2 + w3)%nat ->
  length es = length (flat_map range_ids ranges) ->
  xs_get_objids (mkXS ranges (Z.of_nat w1) (Z.of_nat w2) (Z.of_nat w3) (flat_map (enc_ent w1 w2 w3) es)) =
  map fst (filter (fun p => inuse w1 (snd p)) (combine (flat_map range_ids ranges) es)).
Proof.
  intros ranges w1 w2 w3 es Hnn Hfit Hpos Hlen. unfold xs_get_objids. cbn [xranges].
  set (x := mkXS ranges (Z.of_nat w1) (Z.of_nat w2) (Z.of_nat w3) (flat_map (enc_ent w1 w2 w3) es)).
  assert (Hgen : forall rs index, Forall (fun sc => 0 <= snd sc) rs ->
            (index + length (flat_map range_ids rs) <= length es)%nat ->
            xs_objids_go x rs (Z.of_nat index) =
            map fst (filter (fun p => inuse w1 (snd p))
                            (combine (flat_map range_ids rs) (firstn (length (flat_map range_ids rs)) (skipn index es))))).
  { induction rs as [|[start cnt] r IH]; intros index Hr Hl; [reflexivity|].
    inversion Hr as [|? ? Hc Hr']; subst. cbn [snd] in Hc.
    assert (Hrl : length (range_ids (start, cnt)) = Z.to_nat cnt) by (unfold range_ids; rewrite map_length, seq_length; reflexivity).
    cbn [flat_map] in Hl. rewrite app_length, Hrl in Hl.
    cbn [xs_objids_go flat_map]. rewrite app_length.
    pose proof (objids_range ranges w1 w2 w3 es Hfit Hpos (Z.to_nat cnt) start 0 index ltac:(lia)) as H1.
    cbn [Z.of_nat] in H1. fold x in H1. rewrite H1.
    replace (Z.of_nat index + cnt) with (Z.of_nat (index + Z.to_nat cnt)) by lia.
    rewrite IH by (auto; lia).
    rewrite Nat.add_0_r.
    rewrite <- map_app, <- filter_app. f_equal. f_equal.
    rewrite Hrl.
    rewrite firstn_add_skipn, skipn_add.
    rewrite combine_app; [reflexivity|].
    unfold range_ids. cbn [fst snd]. rewrite map_length, seq_length, firstn_length, skipn_length. lia. }
  specialize (Hgen ranges 0%nat Hnn ltac:(lia)). cbn [Z.of_nat skipn] in Hgen. rewrite Hgen.
  rewrite <- Hlen, firstn_all. reflexivity.
Qed.

(* ================= classic table lines =============================================================== *)
Fixpoint pad (k : nat) (v : Z) : list Z :=
  match k with O => [] | S k' => pad k' (v / 10) ++ [48 + v mod 10] end.

Lemma pad_digits k : forall v, 0 <= v -> forallb is_digit (pad k v) = true.
Proof.
  induction k as [|k IH]; intros v Hv; [reflexivity|]. cbn [pad]. rewrite forallb_app, IH by (apply Z.div_pos; lia).
  cbn [forallb andb]. unfold is_digit. pose proof (Z.mod_pos_bound v 10 ltac:(lia)).
  rewrite andb_true_r. apply andb_true_iff. split; apply Z.leb_le; lia.
Qed.

Lemma dec_value_app l d : fold_left (fun a d => 10 * a + (d - 48)) (l ++ [d]) 0
  = 10 * fold_left (fun a d => 10 * a + (d - 48)) l 0 + (d - 48).
Proof. rewrite fold_left_app. reflexivity. Qed.

Lemma pad_value k : forall v, 0 <= v < 10 ^ Z.of_nat k ->
  fold_left (fun a d => 10 * a + (d - 48)) (pad k v) 0 = v.
Proof.
  induction k as [|k IH]; intros v Hv.
  - cbn in *. lia.
  - cbn [pad]. rewrite dec_value_app. rewrite Nat2Z.inj_succ, Z.pow_succ_r in Hv by lia.
    rewrite IH by (split; [apply Z.div_pos; lia|apply Z.div_lt_upper_bound; lia]).
    pose proof (Z.div_mod v 10 ltac:(lia)). lia.
Qed.

Lemma pad_length k : forall v, length (pad k v) = k.
Proof. induction k as [|k IH]; intros v; cbn; [reflexivity|]. rewrite app_length, IH. cbn. lia. Qed.

Lemma parse_nat_pad k v : (0 < k)%nat -> 0 <= v < 10 ^ Z.of_nat k -> parse_nat (pad k v) = Some v.
Proof.
  intros Hk Hv. unfold parse_nat. destruct (pad k v) eqn:E.
  - apply (f_equal (@length Z)) in E. rewrite pad_length in E. cbn in E. lia.
  - rewrite <- E. rewrite pad_digits by lia. rewrite pad_value by exact Hv. reflexivity.
Qed.

Definition nosp (l : list Z) : Prop := forallb (fun c => negb (c =? 32)) l = true.

Lemma split_sp_field a : nosp a -> forall r cur, split_sp (a ++ 32 :: r) cur = (rev cur ++ a) :: split_sp r [].
Proof.
  unfold nosp. induction a as [|c a IH]; intros Ha r cur.
  - cbn. rewrite app_nil_r. reflexivity.
  - cbn [forallb] in Ha. apply andb_true_iff in Ha. destruct Ha as [Hc Ha]. apply negb_true_iff in Hc.
    cbn [app split_sp]. rewrite Hc. rewrite (IH Ha). cbn [rev]. rewrite <- app_assoc. reflexivity.
Qed.
Lemma split_sp_last a : nosp a -> forall cur, split_sp a cur = [rev cur ++ a].
Proof.
  unfold nosp. induction a as [|c a IH]; intros Ha cur.
  - cbn. rewrite app_nil_r. reflexivity.
  - cbn [forallb] in Ha. apply andb_true_iff in Ha. destruct Ha as [Hc Ha]. apply negb_true_iff in Hc.
    cbn [split_sp]. rewrite Hc, (IH Ha). cbn [rev]. rewrite <- app_assoc. reflexivity.
Qed.

Lemma digits_nosp l : forallb is_digit l = true -> nosp l.
Proof.
  unfold nosp. induction l as [|c r IH]; intros H; [reflexivity|]. cbn [forallb] in *.
  apply andb_true_iff in H. destruct H as [Hc Hr]. rewrite (IH Hr), andb_true_r.
  unfold is_digit in Hc. apply andb_true_iff in Hc. destruct Hc as [H1 _]. apply Z.leb_le in H1.
  apply negb_true_iff. apply Z.eqb_neq. lia.
Qed.

Lemma lstrip_nonws c r : is_strip_ws c = false -> lstrip (c :: r) = c :: r.
Proof. intros H. cbn. rewrite H. reflexivity. Qed.
Lemma lstrip_ws_app ws r : forallb is_strip_ws ws = true -> lstrip (ws ++ r) = lstrip r.
Proof.
  induction ws as [|c w IH]; intros H; [reflexivity|]. cbn [forallb] in H. apply andb_true_iff in H.
  destruct H as [Hc Hw]. cbn [app lstrip]. rewrite Hc. apply IH. exact Hw.
Qed.

(* strip removes the white space around a body that begins and ends with other bytes *)
Lemma strip_body first body last ws1 ws2 :
  is_strip_ws first = false -> is_strip_ws last = false ->
  forallb is_strip_ws ws1 = true -> forallb is_strip_ws ws2 = true ->
  strip (ws1 ++ (first :: body ++ [last]) ++ ws2) = first :: body ++ [last].
Proof.
  intros Hf Hl H1 H2. unfold strip. rewrite (lstrip_ws_app ws1 _ H1). cbn [app]. rewrite (lstrip_nonws first _ Hf).
  replace (first :: (body ++ [last]) ++ ws2) with ((first :: body) ++ [last] ++ ws2) by (cbn; rewrite <- app_assoc; reflexivity).
  rewrite !rev_app_distr. cbn [rev app]. rewrite <- app_assoc.
  rewrite (lstrip_ws_app (rev ws2)) by (rewrite forallb_rev; exact H2).
  cbn [app]. rewrite (lstrip_nonws last _ Hl). cbn [rev]. rewrite rev_app_distr. cbn [rev app].
  rewrite rev_involutive. reflexivity.
Qed.

Definition ent_eol_ok (e : list Z) : Prop := e = [32; 10] \/ e = [32; 13] \/ e = [13; 10].

(* C02: an in-use entry line `nnnnnnnnnn ggggg n` with any of the three 2-byte line endings is read
   back as (offset, generation); a free entry is skipped *)
Theorem table_entry_roundtrip : forall pos gen e,
  0 <= pos < 10 ^ 10 -> 0 <= gen < 10 ^ 5 -> ent_eol_ok e ->
  table_entry (pad 10 pos ++ [32] ++ pad 5 gen ++ [32; 110] ++ e) = TOk (Some (pos, gen)) /\
  table_entry (pad 10 pos ++ [32] ++ pad 5 gen ++ [32; 102] ++ e) = TOk None.
Proof.
  intros pos gen e Hp Hg He.
  assert (Hws : forallb is_strip_ws e = true) by (destruct He as [->|[->| ->]]; reflexivity).
  assert (D10 : forallb is_digit (pad 10 pos) = true) by (apply pad_digits; lia).
  assert (D5 : forallb is_digit (pad 5 gen) = true) by (apply pad_digits; lia).
  assert (Hshape : forall u, is_strip_ws u = false ->
     strip (pad 10 pos ++ [32] ++ pad 5 gen ++ [32; u] ++ e) = pad 10 pos ++ [32] ++ pad 5 gen ++ [32; u]).
  { intros u Hu. destruct (pad 10 pos) as [|f body] eqn:E10.
    { apply (f_equal (@length Z)) in E10. rewrite pad_length in E10. cbn in E10. lia. }
    assert (Hf : is_strip_ws f = false).
    { cbn [forallb] in D10. apply andb_true_iff in D10. destruct D10 as [Hd _]. unfold is_digit in Hd.
      apply andb_true_iff in Hd. destruct Hd as [H1 H2]. apply Z.leb_le in H1. apply Z.leb_le in H2.
      unfold is_strip_ws. apply orb_false_iff. split; [apply andb_false_iff; right; apply Z.leb_gt; lia|apply Z.eqb_neq; lia]. }
    pose proof (strip_body f (body ++ [32] ++ pad 5 gen ++ [32]) u [] e Hf Hu eq_refl Hws) as Hs.
    assert (L1 : (f :: body) ++ [32] ++ pad 5 gen ++ [32; u] ++ e
                 = [] ++ (f :: (body ++ [32] ++ pad 5 gen ++ [32]) ++ [u]) ++ e).
    { cbn [app]. f_equal. repeat (rewrite <- app_assoc; cbn [app]). reflexivity. }
    assert (L2 : (f :: body) ++ [32] ++ pad 5 gen ++ [32; u] = f :: (body ++ [32] ++ pad 5 gen ++ [32]) ++ [u]).
    { cbn [app]. f_equal. repeat (rewrite <- app_assoc; cbn [app]). reflexivity. }
    rewrite L1, L2. exact Hs. }
  unfold table_entry. split.
  - rewrite (Hshape 110 eq_refl). cbn [app].
    rewrite (split_sp_field _ (digits_nosp _ D10)). cbn [app rev].
    rewrite (split_sp_field _ (digits_nosp _ D5)). cbn [app rev split_sp Z.eqb Pos.eqb].
    rewrite (parse_nat_pad 10 pos) by (auto; lia). rewrite (parse_nat_pad 5 gen) by (auto; lia). reflexivity.
  - rewrite (Hshape 102 eq_refl). cbn [app].
    rewrite (split_sp_field _ (digits_nosp _ D10)). cbn [app rev].
    rewrite (split_sp_field _ (digits_nosp _ D5)). cbn [app rev split_sp Z.eqb Pos.eqb]. reflexivity.
Qed.
