(* C19: a reference T.6 encoder for the elements (one admissible choice of codes), so that the decoding theorems are
   about every bitmap: every bitmap has an encoding to which g4_bytes_decode applies. *)
From Coq Require Import ZArith List Bool Lia ZifyBool.
From PdfV Require Import Gen.CCITTTables Model.CCITT Proofs.CCITTProofs Proofs.CCITTModeProofs Proofs.CCITTGlueProofs.
Import ListNotations.
Open Scope Z_scope.
Ltac Zify.zify_post_hook ::= Z.to_euclidean_division_equations.

Definition lookup_code (tab : list (Z * list bool)) (v : Z) : option (Z * list bool) := find (fun e => fst e =? v) tab.
Definition code_of (tab : list (Z * list bool)) (v : Z) : list bool :=
  match lookup_code tab v with Some e => snd e | None => [] end.

Definition run_values : list Z := 2560 :: map (fun j => 64 * Z.of_nat j) (seq 1 39) ++ map Z.of_nat (seq 0 64).
Definition has_all (tab : list (Z * list bool)) : bool :=
  forallb (fun v => match lookup_code tab v with Some e => negb (bits_eqb (snd e) []) | None => false end) run_values.
Lemma white_has_all : has_all WHITE = true. Proof. vm_compute. reflexivity. Qed.
Lemma black_has_all : has_all BLACK = true. Proof. vm_compute. reflexivity. Qed.
Lemma ctable_has_all c : has_all (ctable c) = true.
Proof. unfold ctable. destruct (colour_table c); auto using white_has_all, black_has_all. Qed.

Lemma code_in tab v : has_all tab = true -> In v run_values -> In (v, code_of tab v) tab /\ code_of tab v <> [].
Proof.
  intros H Hv. unfold has_all in H. rewrite forallb_forall in H. specialize (H v Hv).
  unfold code_of. destruct (lookup_code tab v) as [e|] eqn:E; [|discriminate].
  unfold lookup_code in E. apply find_some in E. destruct E as [Hin Hf]. destruct e as [v' code]. cbn [fst snd] in *.
  assert (v' = v) by lia. subst v'. split; [exact Hin|]. intros Hc. rewrite Hc in H. discriminate.
Qed.

Lemma in_2560 : In 2560 run_values. Proof. left. reflexivity. Qed.
Lemma in_makeup j : 1 <= j <= 39 -> In (64 * j) run_values.
Proof.
  intros Hj. right. apply in_or_app. left. apply in_map_iff. exists (Z.to_nat j). split; [lia|]. apply in_seq. lia.
Qed.
Lemma in_term t : 0 <= t <= 63 -> In t run_values.
Proof.
  intros Ht. right. apply in_or_app. right. apply in_map_iff. exists (Z.to_nat t). split; [lia|]. apply in_seq. lia.
Qed.

(* make-up codes: as many 2560s as fit, then one 64-multiple below 2560 if needed; then the terminating code *)
Definition makeups (tab : list (Z * list bool)) (n : Z) : list (Z * list bool) :=
  repeat (2560, code_of tab 2560) (Z.to_nat (n / 2560)) ++
  (if 64 <=? n mod 2560 then [(64 * ((n mod 2560) / 64), code_of tab (64 * ((n mod 2560) / 64)))] else []).
Definition enc_run (c n : Z) : list bool :=
  flat_map snd (makeups (ctable c) n) ++ code_of (ctable c) (n mod 64).

Lemma sum_repeat v code k : sum_mk (repeat (v, code) k) = v * Z.of_nat k.
Proof. induction k as [|k IH]; [unfold sum_mk; cbn [repeat fold_right]; lia|]. cbn [repeat]. unfold sum_mk in *. cbn [fold_right fst]. rewrite IH. lia. Qed.
Lemma sum_mk_app a b : sum_mk (a ++ b) = sum_mk a + sum_mk b.
Proof. unfold sum_mk. induction a as [|e a IH]; cbn [app fold_right]; [lia|]. rewrite IH. lia. Qed.

Lemma enc_run_ok c n : 0 <= n -> runcode c n (enc_run c n).
Proof.
  intros Hn. pose proof (ctable_has_all c) as Hall. set (tab := ctable c) in *.
  exists (makeups tab n), (n mod 64), (code_of tab (n mod 64)).
  destruct (code_in tab (n mod 64) Hall (in_term (n mod 64) ltac:(lia))) as [It Nt].
  destruct (code_in tab 2560 Hall in_2560) as [I2 N2].
  repeat split; try assumption; try lia; try reflexivity.
  - unfold makeups. apply Forall_app. split.
    + apply Forall_forall. intros e He. apply repeat_spec in He. subst e. cbn [fst snd]. repeat split; try assumption; lia.
    + destruct (64 <=? n mod 2560) eqn:E; [|constructor].
      assert (Hj : 1 <= (n mod 2560) / 64 <= 39) by lia.
      destruct (code_in tab (64 * (n mod 2560 / 64)) Hall (in_makeup (n mod 2560 / 64) Hj)) as [Im Nm].
      constructor; [|constructor]. cbn [fst snd]. repeat split; try assumption; lia.
  - unfold makeups. rewrite sum_mk_app, sum_repeat.
    destruct (64 <=? n mod 2560) eqn:E.
    + unfold sum_mk. cbn [fold_right fst]. lia.
    + unfold sum_mk. cbn [fold_right]. lia.
Qed.

Definition mode_code (m : g4mode) : list bool :=
  match find (fun e => mode_eqb (fst e) m) MODE with Some e => snd e | None => [] end.
Lemma mode_code_in m : (m = MP \/ m = MH \/ exists d, m = MV d /\ -3 <= d <= 3) -> In (m, mode_code m) MODE.
Proof.
  intros H.
  assert (G : forall m, existsb (mode_eqb m) [MP; MH; MV (-3); MV (-2); MV (-1); MV 0; MV 1; MV 2; MV 3] = true ->
              In (m, mode_code m) MODE).
  { clear. intros m Hm. unfold mode_code. destruct (find (fun e => mode_eqb (fst e) m) MODE) as [e|] eqn:E.
    - apply find_some in E. destruct E as [Hin Hf]. apply mode_eqb_eq in Hf. destruct e as [m' code]. cbn in *. subst. exact Hin.
    - exfalso. apply existsb_exists in Hm. destruct Hm as (x & Hx & Hxm). apply mode_eqb_eq in Hxm. subst x.
      cbn [In] in Hx.
      repeat (destruct Hx as [Hx|Hx]; [subst m; vm_compute in E; discriminate|]). contradiction. }
  apply G. destruct H as [->|[->|(d & -> & Hd)]]; try reflexivity.
  assert (d = -3 \/ d = -2 \/ d = -1 \/ d = 0 \/ d = 1 \/ d = 2 \/ d = 3) by lia.
  repeat (destruct H as [->|H]; [reflexivity|]). subst d. reflexivity.
Qed.

Definition enc_op (c : Z) (o : op) : list bool :=
  match o with
  | OPass => mode_code MP
  | OVert d => mode_code (MV d)
  | OHoriz n1 n2 => mode_code MH ++ enc_run c n1 ++ enc_run (1 - c) n2
  end.
Definition op_ok (o : op) : Prop :=
  match o with OPass => True | OVert d => -3 <= d <= 3 | OHoriz n1 n2 => 0 <= n1 /\ 0 <= n2 end.

Lemma enc_op_ok c o : op_ok o -> elem_code c o (enc_op c o).
Proof.
  destruct o as [|d|n1 n2]; cbn [op_ok enc_op]; intros H.
  - constructor. apply mode_code_in. auto.
  - constructor. apply mode_code_in. right. right. exists d. auto.
  - destruct H as [H1 H2]. constructor; [apply mode_code_in; auto|apply enc_run_ok; exact H1|apply enc_run_ok; exact H2].
Qed.

Fixpoint enc_ops (s : g4) (ops : list op) : list bool :=
  match ops with
  | [] => []
  | o :: r => enc_op (gcolor s) o ++ enc_ops (apply_flush s o) r
  end.
Lemma enc_ops_ok : forall ops s, Forall op_ok ops -> ops_bits s ops (enc_ops s ops).
Proof.
  induction ops as [|o ops IH]; intros s H; cbn [enc_ops]; [constructor|].
  inversion H; subst. constructor; [apply enc_op_ok; assumption|apply IH; assumption].
Qed.

Lemma coding_ops_ok ref row a0 c ops : coding ref row a0 c ops -> Forall op_ok ops.
Proof.
  intros C. induction C as [c|a0 c b1 b2 a1 ops Hp Hb1 Hb2 Ha1 Hlt C IH|a0 c b1 a1 d ops Hp Hb1 Ha1 Hd Hr C IH|a0 c a1 a2 ops Hp Ha1 Ha2 C IH].
  - constructor.
  - constructor; [exact I|exact IH].
  - constructor; [exact Hr|exact IH].
  - constructor; [|exact IH]. destruct Ha1 as (R1 & _). destruct Ha2 as (R2 & _). cbn [op_ok]. lia.
Qed.
Lemma page_ops_ok ref rows ops : page_coding ref rows ops -> Forall op_ok ops.
Proof.
  intros P. induction P as [ref|ref row rows ops ops' Hl Hb C P IH]; [constructor|].
  apply Forall_app. split; [apply (coding_ops_ok _ _ _ _ _ C)|exact IH].
Qed.

(* ---------- bits to bytes ------------------------------------------------------------------------------------------- *)
Definition byte_of (b : list bool) : Z := fold_left (fun a x => 2 * a + (if x : bool then 1 else 0)) b 0.
Lemma bits_of_byte_of b7 b6 b5 b4 b3 b2 b1 b0 :
  bits_of_byte (byte_of [b7; b6; b5; b4; b3; b2; b1; b0]) = [b7; b6; b5; b4; b3; b2; b1; b0].
Proof. destruct b7, b6, b5, b4, b3, b2, b1, b0; vm_compute; reflexivity. Qed.

Fixpoint pack (fuel : nat) (bits : list bool) : list Z :=
  match fuel with
  | O => []
  | S f =>
      match bits with
      | [] => []
      | b7 :: b6 :: b5 :: b4 :: b3 :: b2 :: b1 :: b0 :: r => byte_of [b7; b6; b5; b4; b3; b2; b1; b0] :: pack f r
      | short => [byte_of (short ++ repeat false (8 - length short))]
      end
  end.

Lemma pack_spec : forall fuel bits, (length bits <= fuel)%nat ->
  exists k, (k <= 7)%nat /\ flat_map bits_of_byte (pack fuel bits) = bits ++ repeat false k.
Proof.
  induction fuel as [|f IH]; intros bits Hl.
  - destruct bits; [|cbn in Hl; lia]. exists 0%nat. split; [lia|reflexivity].
  - destruct bits as [|b7 [|b6 [|b5 [|b4 [|b3 [|b2 [|b1 [|b0 r]]]]]]]]; cbn [pack flat_map].
    + exists 0%nat. split; [lia|reflexivity].
    + exists 7%nat. split; [lia|]. cbn [length Nat.sub app repeat]. rewrite bits_of_byte_of. reflexivity.
    + exists 6%nat. split; [lia|]. cbn [length Nat.sub app repeat]. rewrite bits_of_byte_of. reflexivity.
    + exists 5%nat. split; [lia|]. cbn [length Nat.sub app repeat]. rewrite bits_of_byte_of. reflexivity.
    + exists 4%nat. split; [lia|]. cbn [length Nat.sub app repeat]. rewrite bits_of_byte_of. reflexivity.
    + exists 3%nat. split; [lia|]. cbn [length Nat.sub app repeat]. rewrite bits_of_byte_of. reflexivity.
    + exists 2%nat. split; [lia|]. cbn [length Nat.sub app repeat]. rewrite bits_of_byte_of. reflexivity.
    + exists 1%nat. split; [lia|]. cbn [length Nat.sub app repeat]. rewrite bits_of_byte_of. reflexivity.
    + destruct (IH r) as (k & Hk & E); [cbn [length] in Hl; lia|]. exists k. split; [exact Hk|].
      rewrite bits_of_byte_of, E. reflexivity.
Qed.

(* every bitmap has an encoding, and that encoding decodes to the bitmap *)
Theorem every_bitmap_round_trips w rows reversed : 0 < w ->
  Forall (fun r => length r = Z.to_nat w /\ bin r) rows ->
  exists data, ccittfaxdecode data w false reversed = DOk (flat_map (output_line reversed) rows).
Proof.
  intros Hw Hrows.
  assert (Hwl : length (white_line w) = Z.to_nat w) by (unfold white_line; apply repeat_length).
  destruct (every_page_has_a_coding rows (white_line w)) as (ops & P).
  - apply Forall_forall. intros r Hr. rewrite Forall_forall in Hrows. destruct (Hrows r Hr) as [E B]. split; [congruence|exact B].
  - unfold wid. rewrite Hwl. lia.
  - set (bits := enc_ops (g4_init w false) ops).
    destruct (pack_spec (length bits) bits (le_n _)) as (k & Hk & E).
    exists (pack (length bits) bits).
    apply (g4_bytes_decode w rows ops bits _ k reversed Hw P); [|exact E|exact Hk].
    apply enc_ops_ok. apply (page_ops_ok _ _ _ P).
Qed.
