(* C05: each step of pdfminer's text positioning (a text matrix plus an offset inside the line)
   is the corresponding step of ISO 32000-1 9.4 (text matrix Tm, text line matrix Tlm) -- laws of
   the definitions regenerated from pdfinterp.py / pdfdevice.py / layout.py, for every
   commutative ring. *)
From Coq Require Import ZArith Ring Bool List.
From PdfV Require Import Base.Num Gen.Geom Gen.TextOps.
Import ListNotations.

Section TextRing.
  Variable R : Type.
  Variables (rO rI : R) (radd rmul rsub : R -> R -> R) (ropp : R -> R).
  Variable Rth : ring_theory rO rI radd rmul rsub ropp (@eq R).
  Add Ring Rring2 : Rth.
  Variables (dv : R -> R -> R) (le lt eqb : R -> R -> bool) (ofz : Z -> R) (tr fl : R -> Z).
  Let o : NumOps R := mkNumOps R radd rsub rmul dv ropp le lt eqb ofz tr fl.
  Notation M := (R * R * R * R * R * R)%type.
  Notation P := (R * R)%type.
  Notation T tx ty := (rI, rO, rO, rI, tx, ty).          (* the translation matrix [1 0 0 1 tx ty] *)

  (* pdfminer keeps (matrix, (x, y)); ISO keeps Tm and Tlm.  Abstraction: Tlm = matrix,
     Tm = [1 0 0 1 x y] x matrix = translate_matrix matrix (x, y). *)
  Definition Tm_of (m : M) (lm : P) : M := translate_matrix o m lm.

  Ltac crush :=
    repeat match goal with
           | m : M |- _ => destruct m as [[[[[? ?] ?] ?] ?] ?]
           | p : P |- _ => destruct p as [? ?]
           end;
    cbv [Tm_of mult_matrix translate_matrix apply_matrix_pt do_Td_matrix do_TD_matrix do_T_a_matrix ltchar_adv o
         nadd nsub nmul fst snd];
    repeat match goal with |- (_, _) = (_, _) => apply f_equal2 end; ring.

  (* Td: Tlm := [1 0 0 1 tx ty] x Tlm ; Tm := Tlm  (the line offset is reset) *)
  Lemma Td_is_iso (tx ty : R) (m : M) :
    do_Td_matrix o tx ty m = mult_matrix o (T tx ty) m /\
    Tm_of (do_Td_matrix o tx ty m) (rO, rO) = mult_matrix o (T tx ty) m.
  Proof. split; crush. Qed.

  Lemma TD_is_iso (tx ty : R) (m : M) :
    do_TD_matrix o tx ty m = mult_matrix o (T tx ty) m.
  Proof. crush. Qed.

  (* T* with the stored (negated) leading l = -TL: the same as  0 l Td *)
  Lemma Tstar_is_iso (l : R) (m : M) :
    do_T_a_matrix o l m = mult_matrix o (T rO l) m /\ do_T_a_matrix o l m = do_Td_matrix o rO l m.
  Proof. split; crush. Qed.

  (* after a glyph (or a TJ adjustment) with displacement tx: Tm := [1 0 0 1 tx 0] x Tm *)
  Lemma advance_is_iso (m : M) (x y tx : R) :
    Tm_of m (radd x tx, y) = mult_matrix o (T tx rO) (Tm_of m (x, y)).
  Proof. unfold Tm_of. crush. Qed.

  (* the matrix reported for a glyph is Tm x CTM *)
  Lemma glyph_matrix_is_iso (tm ctm : M) (x y : R) :
    translate_matrix o (mult_matrix o tm ctm) (x, y) = mult_matrix o (Tm_of tm (x, y)) ctm.
  Proof. unfold Tm_of. crush. Qed.

  (* the horizontal displacement: adv + Tc*Th (+ Tw*Th) = (w0*Tfs + Tc (+ Tw)) * Th *)
  Lemma displacement_is_iso (w0 fs th tc tw : R) :
    radd (ltchar_adv o w0 fs th) (rmul tc th) = rmul (radd (rmul w0 fs) tc) th /\
    radd (radd (ltchar_adv o w0 fs th) (rmul tc th)) (rmul tw th) = rmul (radd (radd (rmul w0 fs) tc) tw) th.
  Proof. split; crush. Qed.

  (* Tm (BT: identity) *)
  Lemma BT_is_iso : Tm_of (rI, rO, rO, rI, rO, rO) (rO, rO) = (rI, rO, rO, rI, rO, rO).
  Proof. unfold Tm_of. crush. Qed.

  Lemma Tm_is_iso (m : M) : Tm_of m (rO, rO) = m.
  Proof. unfold Tm_of. crush. Qed.
End TextRing.
