(* Algorithm 2.B: the selector is the big-endian number modulo 3; the loop always ends, after 64..288 rounds, at the
   first round n >= 64 whose last byte is at most n - 32. *)
From Coq Require Import ZArith List Bool Lia ZifyBool.
From PdfV Require Import Model.Fonts Model.CMaps Model.Crypt Model.CryptR6.
Import ListNotations.
Open Scope Z_scope.

(* ---------- sum of residues = the number itself modulo 3 ------------------------------------------------- *)
Ltac Zify.zify_post_hook ::= Z.to_euclidean_division_equations.

Lemma sum3_acc l : forall a, fold_left (fun a b => a + b mod 3) l a mod 3 = (a + fold_left (fun a b => a + b mod 3) l 0) mod 3.
Proof.
  induction l as [|b l IH]; intros a; cbn [fold_left].
  - f_equal. lia.
  - rewrite IH. pose proof (IH (0 + b mod 3)) as H.
    remember (fold_left (fun a0 b0 : Z => a0 + b0 mod 3) l (0 + b mod 3)) as X.
    remember (fold_left (fun a0 b0 : Z => a0 + b0 mod 3) l 0) as Y.
    clear - H. lia.
Qed.

Lemma nunpack_acc_mod3 l : forall a, fold_left (fun a c => a * 256 + c) l a mod 3 = (a + fold_left (fun a b => a + b mod 3) l 0) mod 3.
Proof.
  induction l as [|b l IH]; intros a; cbn [fold_left].
  - f_equal. lia.
  - rewrite IH. pose proof (sum3_acc l (0 + b mod 3)) as H.
    remember (fold_left (fun a0 b0 : Z => a0 + b0 mod 3) l (0 + b mod 3)) as X.
    remember (fold_left (fun a0 b0 : Z => a0 + b0 mod 3) l 0) as Y.
    clear - H. lia.
Qed.

Ltac Zify.zify_post_hook ::= idtac.

(* _bytes_mod_3 is "the first 16 bytes as an unsigned big-endian integer, modulo 3" (for any length) *)
Lemma bytes_mod_3_spec l : bytes_mod_3 l = nunpack l mod 3.
Proof. unfold bytes_mod_3, nunpack. rewrite nunpack_acc_mod3. reflexivity. Qed.

(* ---------- the loop --------------------------------------------------------------------------------------- *)
Section R6.
  Variable sha256 sha384 sha512 : bytes -> bytes.
  Variable aes_rep : bytes -> bytes -> bytes -> bytes.
  Hypothesis aes_bytes : forall k iv d, Forall (fun b => 0 <= b <= 255) (aes_rep k iv d).

  Lemma last_byte_range (l : bytes) : Forall (fun b => 0 <= b <= 255) l -> 0 <= last l 0 <= 255.
  Proof.
    induction l as [|b l IH]; intros H; cbn [last]; [lia|].
    inversion H as [|? ? Hb Hl]; subst. destruct l as [|c l']; [exact Hb | apply IH; exact Hl].
  Qed.

  Lemma round_last pw vec k : 0 <= snd (r6_round sha256 sha384 sha512 aes_rep pw vec k) <= 255.
  Proof. unfold r6_round. cbn [snd]. apply last_byte_range. apply aes_bytes. Qed.

  (* the loop never runs out of fuel: a byte is at most 255, so round 287 is the last that can ask for another *)
  Lemma r6_loop_total fuel : forall pw vec k rn lb,
    0 <= rn -> lb <= 255 -> 1 <= Z.of_nat fuel -> 289 - rn <= Z.of_nat fuel ->
    r6_loop sha256 sha384 sha512 aes_rep fuel pw vec k rn lb <> None.
  Proof.
    induction fuel as [|f IH]; intros pw vec k rn lb Hrn Hlb H1 H2; [lia|].
    cbn [r6_loop]. destruct ((rn <? 64) || (rn - 32 <? lb)) eqn:C; [|discriminate].
    pose proof (round_last pw vec k) as Hl.
    destruct (r6_round sha256 sha384 sha512 aes_rep pw vec k) as [k' l'] eqn:R. cbn [snd] in Hl.
    apply IH; lia.
  Qed.

  Theorem r6_password_total pw salt vec : r6_password sha256 sha384 sha512 aes_rep pw salt vec <> None.
  Proof.
    unfold r6_password, r6_password_rounds.
    pose proof (r6_loop_total r6_fuel pw vec (sha256 (pw ++ salt ++ vec)) 0 0) as H.
    destruct (r6_loop sha256 sha384 sha512 aes_rep r6_fuel pw vec (sha256 (pw ++ salt ++ vec)) 0 0) as [[k n]|].
    - discriminate.
    - exfalso. apply H; unfold r6_fuel; try lia. reflexivity.
  Qed.

  (* number of rounds: at least 64, at most 288 *)
  Lemma r6_loop_rounds fuel : forall pw vec k rn lb out n,
    0 <= rn <= 288 -> lb <= 255 ->
    r6_loop sha256 sha384 sha512 aes_rep fuel pw vec k rn lb = Some (out, n) -> rn <= n /\ 64 <= n <= 288.
  Proof.
    induction fuel as [|f IH]; intros pw vec k rn lb out n Hrn Hlb H; [discriminate|].
    cbn [r6_loop] in H. destruct ((rn <? 64) || (rn - 32 <? lb)) eqn:C.
    - pose proof (round_last pw vec k) as Hl.
      destruct (r6_round sha256 sha384 sha512 aes_rep pw vec k) as [k' l'] eqn:R. cbn [snd] in Hl.
      apply IH in H; lia.
    - inversion H; subst. lia.
  Qed.

  Theorem r6_password_rounds_range pw salt vec out n :
    r6_password_rounds sha256 sha384 sha512 aes_rep pw salt vec = Some (out, n) -> 64 <= n <= 288.
  Proof. unfold r6_password_rounds. intros H. apply r6_loop_rounds in H; lia. Qed.

  (* the ISO formulation: K_0 = SHA-256(password ++ salt ++ vector); round i (counted from 1) turns K_(i-1) into K_i
     and has a last byte; the result is K_n[:32] for the FIRST n >= 64 with last byte of round n <= n - 32 *)
  Fixpoint k_seq (pw vec k0 : bytes) (i : nat) : bytes * Z :=
    match i with
    | O => (k0, 0)
    | S j => r6_round sha256 sha384 sha512 aes_rep pw vec (fst (k_seq pw vec k0 j))
    end.
  Definition stops (pw vec k0 : bytes) (i : nat) : Prop :=
    64 <= Z.of_nat i /\ snd (k_seq pw vec k0 i) <= Z.of_nat i - 32.

  Lemma r6_loop_iso fuel : forall pw vec k0 i out n,
    r6_loop sha256 sha384 sha512 aes_rep fuel pw vec (fst (k_seq pw vec k0 i)) (Z.of_nat i) (snd (k_seq pw vec k0 i)) = Some (out, n) ->
    exists m, n = Z.of_nat m /\ (i <= m)%nat /\ out = firstn 32 (fst (k_seq pw vec k0 m)) /\ stops pw vec k0 m /\
              forall j, (i <= j < m)%nat -> ~ stops pw vec k0 j.
  Proof.
    induction fuel as [|f IH]; intros pw vec k0 i out n H; [discriminate|].
    cbn [r6_loop] in H.
    destruct ((Z.of_nat i <? 64) || (Z.of_nat i - 32 <? snd (k_seq pw vec k0 i))) eqn:C.
    - destruct (r6_round sha256 sha384 sha512 aes_rep pw vec (fst (k_seq pw vec k0 i))) as [k' l'] eqn:R.
      assert (E : k_seq pw vec k0 (S i) = (k', l')) by (cbn [k_seq]; exact R).
      replace (Z.of_nat i + 1) with (Z.of_nat (S i)) in H by lia.
      replace k' with (fst (k_seq pw vec k0 (S i))) in H by (rewrite E; reflexivity).
      replace l' with (snd (k_seq pw vec k0 (S i))) in H by (rewrite E; reflexivity).
      destruct (IH _ _ _ _ _ _ H) as [m [Hn [Hle [Hout [Hs Hmin]]]]].
      exists m. repeat split; try assumption; try lia.
      + apply Hs.
      + apply Hs.
      + intros j Hj. destruct (Nat.eq_dec j i) as [->|Hne].
        * unfold stops. lia.
        * apply Hmin. lia.
    - inversion H; subst. exists i. repeat split; try lia.
  Qed.

  Lemma r6_loop_iso0 fuel pw vec k0 out n :
    r6_loop sha256 sha384 sha512 aes_rep fuel pw vec k0 0 0 = Some (out, n) ->
    exists m, n = Z.of_nat m /\ (0 <= m)%nat /\ out = firstn 32 (fst (k_seq pw vec k0 m)) /\ stops pw vec k0 m /\
              forall j, (0 <= j < m)%nat -> ~ stops pw vec k0 j.
  Proof. exact (r6_loop_iso fuel pw vec k0 0 out n). Qed.

  Theorem r6_password_iso pw salt vec out n :
    r6_password_rounds sha256 sha384 sha512 aes_rep pw salt vec = Some (out, n) ->
    let k0 := sha256 (pw ++ salt ++ vec) in
    exists m, n = Z.of_nat m /\ out = firstn 32 (fst (k_seq pw vec k0 m)) /\ stops pw vec k0 m /\
              forall j, (j < m)%nat -> ~ stops pw vec k0 j.
  Proof.
    intros H k0. unfold r6_password_rounds in H.
    destruct (r6_loop_iso0 r6_fuel pw vec k0 out n H) as [m [Hn [_ [Hout [Hs Hmin]]]]].
    exists m. repeat split; try assumption; try apply Hs. intros j Hj. apply Hmin. lia.
  Qed.
Show. 
