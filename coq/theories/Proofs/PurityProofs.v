(* C12: history independence. *)
From Coq Require Import ZArith List Bool Lia.
From PdfV Require Import Gen.Purity Model.Purity.
Import ListNotations.
Open Scope Z_scope.

(* ---------- copy-on-write: the shared tables survive every history ------------------------------------------ *)
Lemma firstn_app_le {A} n (a b : list A) : (n <= length a)%nat -> firstn n (a ++ b) = firstn n a.
Proof. intros H. rewrite firstn_app. replace (n - length a)%nat with 0%nat by lia. rewrite firstn_O, app_nil_r. reflexivity. Qed.

Lemma get_encoding_shared h sel diff n : (n <= length h)%nat ->
  firstn n (fst (get_encoding true h sel diff)) = firstn n h /\ (length h <= length (fst (get_encoding true h sel diff)))%nat.
Proof.
  intros Hn. unfold get_encoding. destruct diff as [|d r]; cbn [fst]; [split; [reflexivity|lia]|].
  split; [apply firstn_app_le; exact Hn|rewrite app_length; lia].
Qed.

(* whatever fonts are created, with whatever Differences, the first n tables of the heap (the shared encodings) are
   what they were: no font can change what another font -- of this or any later document -- sees *)
Theorem shared_tables_unchanged : forall specs h n, (n <= length h)%nat ->
  firstn n (fst (run_fonts true h specs)) = firstn n h.
Proof.
  induction specs as [|[sel diff] r IH]; intros h n Hn; [reflexivity|].
  cbn [run_fonts]. destruct (get_encoding true h sel diff) as [h1 a] eqn:E.
  pose proof (get_encoding_shared h sel diff n Hn) as [A B]. rewrite E in A, B. cbn [fst] in A, B.
  destruct (run_fonts true h1 r) as [h2 rest] eqn:E2. cbn [fst].
  specialize (IH h1 n ltac:(lia)). rewrite E2 in IH. cbn [fst] in IH. rewrite IH. exact A.
Qed.

(* the statement tied to the source: it is about the model instantiated with the flag read off get_encoding *)
Theorem shared_tables_unchanged_src : encoding_copy_before_mutation = true -> forall specs h n, (n <= length h)%nat ->
  firstn n (fst (run_fonts encoding_copy_before_mutation h specs)) = firstn n h.
Proof. intros ->. exact shared_tables_unchanged. Qed.

(* without the copy the property is false: a font with Differences changes what a later plain font sees *)
Theorem no_copy_refuted : exists h specs, firstn 1 (fst (run_fonts false h specs)) <> firstn 1 h.
Proof. exists [[(65, Some 65)]], [(0%nat, [(65, Some 66)])]. cbn. discriminate. Qed.

(* a font without Differences reads the shared table: its lookups are those of the table *)
Theorem plain_font_reads_shared h sel code : font_lookup (fst (get_encoding true h sel [])) (snd (get_encoding true h sel [])) code = dget (nth sel h []) code.
Proof. reflexivity. Qed.

(* ---------- caches are transparent ------------------------------------------------------------------------------ *)
Section CacheProofs.
  Variables (K V : Type) (keqb : K -> K -> bool) (compute : K -> V).
  Hypothesis keqb_eq : forall a b, keqb a b = true -> a = b.

  Definition sound (c : cache K V) : Prop := forall k v, cfind K V keqb c k = Some v -> v = compute k.

  Lemma cget_sound caching c k : sound c -> sound (fst (cget K V keqb compute caching c k)) /\ snd (cget K V keqb compute caching c k) = compute k.
  Proof.
    intros Hs. unfold cget. destruct (cfind K V keqb c k) as [v|] eqn:E; cbn [fst snd].
    - split; [exact Hs|apply Hs; exact E].
    - split; [|reflexivity]. destruct caching; [|exact Hs].
      intros k' v' H. cbn [cfind] in H. destruct (keqb k' k) eqn:Ek.
      + injection H as <-. apply keqb_eq in Ek. subst. reflexivity.
      + apply Hs. exact H.
  Qed.

  (* every answer of a cache that only ever stored computed values is the computed value: with the cache on or off,
     from any sound starting state, for every sequence of requests *)
  Theorem cache_transparent caching : forall ks c, sound c -> cruns K V keqb compute caching c ks = map compute ks.
  Proof.
    induction ks as [|k r IH]; intros c Hs; [reflexivity|]. cbn [cruns map].
    destruct (cget K V keqb compute caching c k) as [c' v] eqn:E.
    pose proof (cget_sound caching c k Hs) as [A B]. rewrite E in A, B. cbn [fst snd] in A, B.
    rewrite B, (IH c' A). reflexivity.
  Qed.
  Corollary caching_on_equals_off ks : cruns K V keqb compute true [] ks = cruns K V keqb compute false [] ks.
  Proof. rewrite !cache_transparent by (intros k v H; discriminate). reflexivity. Qed.
End CacheProofs.

(* ---------- interleaving independent extractions --------------------------------------------------------------- *)
Section InterleaveProofs.
  Variables (S1 S2 O1 O2 : Type) (step1 : S1 -> S1 * O1) (step2 : S2 -> S2 * O2).
  Definition count (b : bool) (l : list bool) : nat := length (filter (Bool.eqb b) l).

  (* however the page iterators of two documents are interleaved, each document yields exactly what it yields alone *)
  Theorem interleaving_irrelevant : forall sched s1 s2,
    irun S1 S2 O1 O2 step1 step2 sched s1 s2 = (run1 S1 O1 step1 (count true sched) s1, run2 S2 O2 step2 (count false sched) s2).
  Proof.
    induction sched as [|b r IH]; intros s1 s2; [reflexivity|].
    destruct b; cbn [irun count filter Bool.eqb length].
    - destruct (step1 s1) as [s1' o] eqn:E. rewrite IH. cbn [run1]. rewrite E. reflexivity.
    - destruct (step2 s2) as [s2' o] eqn:E. rewrite IH. cbn [run2]. rewrite E. reflexivity.
  Qed.
End InterleaveProofs.
