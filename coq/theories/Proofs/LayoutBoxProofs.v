(* C08: boxes -> groups keeps every box as exactly one leaf of the hierarchy, and terminates. *)
From Coq Require Import ZArith QArith List Bool Lia Permutation.
From PdfV Require Import Base.Num Base.ListX Gen.Geom Model.Plane Model.Layout Proofs.LayoutGroupProofs.
Import ListNotations.

Fixpoint leaves (t : tnode) : list nat :=
  match t with NBox i => [i] | NGroup _ _ a b => leaves a ++ leaves b end.
Definition node_leaves (st : gbstate) (i : nat) : list nat := leaves (ntree (info st i)).
Definition live_leaves (st : gbstate) : list nat := flat_map (node_leaves st) (live st).

Lemma flat_map_ext_in {A B} (f g : A -> list B) l : (forall x, In x l -> f x = g x) -> flat_map f l = flat_map g l.
Proof.
  induction l as [|x l IH]; intros H; [reflexivity|]. cbn [flat_map]. rewrite (H x (or_introl eq_refl)). f_equal.
  apply IH. intros y Hy. apply H. right. exact Hy.
Qed.

(* ---------- small list facts -------------------------------------------------------------------------------- *)
Lemma remove_live_in i l x : In x (remove_live i l) <-> In x l /\ x <> i.
Proof.
  unfold remove_live. rewrite filter_In. rewrite negb_true_iff, Nat.eqb_neq. tauto.
Qed.
Lemma remove_live_nodup i l : NoDup l -> NoDup (remove_live i l).
Proof. apply NoDup_filter. Qed.
Lemma remove_live_length i l : NoDup l -> In i l -> S (length (remove_live i l)) = length l.
Proof.
  induction l as [|y l IH]; intros Hnd Hin; [contradiction|].
  inversion Hnd as [|? ? Hy Hnd']; subst. unfold remove_live. cbn [filter].
  destruct (Nat.eqb y i) eqn:E.
  - apply Nat.eqb_eq in E. subst y. cbn [negb length]. f_equal.
    fold (remove_live i l). clear IH Hin Hnd. induction l as [|z l IH]; [reflexivity|].
    unfold remove_live. cbn [filter]. inversion Hnd' as [|? ? Hz Hl]; subst.
    assert (Nat.eqb z i = false) by (apply Nat.eqb_neq; intros ->; apply Hy; left; reflexivity).
    rewrite H. cbn [negb length]. f_equal. apply IH; [|exact Hl]. intros A. apply Hy. right. exact A.
  - cbn [negb length]. f_equal. destruct Hin as [->|Hin]; [rewrite Nat.eqb_refl in E; discriminate|].
    apply IH; assumption.
Qed.
Lemma flat_map_remove {B} (f : nat -> list B) i l : NoDup l -> In i l ->
  Permutation (flat_map f l) (f i ++ flat_map f (remove_live i l)).
Proof.
  induction l as [|y l IH]; intros Hnd Hin; [contradiction|].
  inversion Hnd as [|? ? Hy Hnd']; subst. unfold remove_live. cbn [filter flat_map].
  destruct (Nat.eqb y i) eqn:E.
  - apply Nat.eqb_eq in E. subst y. cbn [negb]. apply Permutation_app_head.
    fold (remove_live i l). replace (remove_live i l) with l; [reflexivity|].
    clear - Hy. induction l as [|z l IH]; [reflexivity|]. unfold remove_live. cbn [filter].
    assert (Nat.eqb z i = false) by (apply Nat.eqb_neq; intros ->; apply Hy; left; reflexivity).
    rewrite H. cbn [negb]. f_equal. apply IH. intros A. apply Hy. right. exact A.
  - cbn [negb flat_map]. destruct Hin as [->|Hin]; [rewrite Nat.eqb_refl in E; discriminate|].
    fold (remove_live i l). rewrite (IH Hnd' Hin). rewrite !app_assoc. apply Permutation_app_tail. apply Permutation_app_comm.
Qed.

(* ---------- entries ------------------------------------------------------------------------------------------ *)
Definition weight (l : list entry) : nat := fold_right (fun e acc => ((if eskip e then 1 else 2) + acc)%nat) 0%nat l.
Lemma weight_app a b : weight (a ++ b) = (weight a + weight b)%nat.
Proof. induction a as [|e a IH]; [reflexivity|]. cbn [app weight fold_right]. fold (weight (a ++ b)). fold (weight a). rewrite IH. lia. Qed.
Lemma weight_pushed {A} (f : A -> entry) (l : list A) : (forall x, eskip (f x) = false) -> weight (map f l) = (2 * length l)%nat.
Proof. intros H. induction l as [|x l IH]; [reflexivity|]. cbn [map weight fold_right length]. fold (weight (map f l)). rewrite IH, H. lia. Qed.

Lemma min_entry_in rank : forall l cur, In (min_entry rank cur l) (cur :: l).
Proof.
  induction l as [|e r IH]; intros cur; [left; reflexivity|]. cbn [min_entry].
  destruct (IH (if entry_lt rank e cur then e else cur)) as [H|H].
  - destruct (entry_lt rank e cur); [right; left; exact H|left; exact H].
  - right. right. exact H.
Qed.
Lemma entry_same_refl e : entry_same e e = true.
Proof.
  unfold entry_same. rewrite eqb_reflx, !Nat.eqb_refl. assert (Qeq_bool (ed e) (ed e) = true) by (apply Qeq_bool_iff; reflexivity).
  rewrite H. reflexivity.
Qed.
Lemma remove_entry_in x l e : In e (remove_entry x l) -> In e l.
Proof.
  induction l as [|y l IH]; [intros []|]. cbn [remove_entry]. destruct (entry_same y x); [intros H; right; exact H|].
  intros [<-|H]; [left; reflexivity|right; apply IH; exact H].
Qed.
Lemma remove_entry_weight x l : In x l -> (weight (remove_entry x l) + (if eskip x then 1 else 2) = weight l)%nat.
Proof.
  induction l as [|y l IH]; [intros []|]. intros Hin. cbn [remove_entry]. destruct (entry_same y x) eqn:E.
  - cbn [weight fold_right]. fold (weight l). unfold entry_same in E.
    apply andb_true_iff in E. destruct E as [E _]. apply andb_true_iff in E. destruct E as [E _].
    apply andb_true_iff in E. destruct E as [E _]. apply eqb_prop in E. rewrite E. lia.
  - destruct Hin as [->|Hin]; [rewrite entry_same_refl in E; discriminate|].
    cbn [weight fold_right]. fold (weight l). fold (weight (remove_entry x l)). specialize (IH Hin). lia.
Qed.

(* ---------- the invariant of the merging loop ---------------------------------------------------------------- *)
Record J (N n : nat) (st : gbstate) : Prop := mkJ {
  j_nodup : NoDup (live st);
  j_leaves : Permutation (live_leaves st) (seq 0 n);
  j_live_fresh : forall i, In i (live st) -> (i < nextid st)%nat;
  j_done_fresh : forall i, In i (gdone st) -> (i < nextid st)%nat;
  j_entries : forall e, In e (dists st) -> ea e <> eb e /\ (In (ea e) (live st) \/ In (ea e) (gdone st))
                                            /\ (In (eb e) (live st) \/ In (eb e) (gdone st));
  j_disjoint : forall i, In i (live st) -> ~ In i (gdone st);
  j_bound : (length (live st) <= N)%nat
}.

Definition mu (N : nat) (st : gbstate) : nat := (weight (dists st) + (2 * N + 1) * length (live st))%nat.

Lemma info_cons st g gi i : i <> g ->
  info (mkGB ((g, gi) :: nodes st) (live st) (gplane st) (dists st) (gdone st) (nextid st) (ambiguous st)) i = info st i.
Proof. intros H. unfold info. cbn [nodes nassoc]. apply Nat.eqb_neq in H. rewrite H. reflexivity. Qed.

Lemma gb_step_J rank N n st : J N n st -> dists st <> [] ->
  J N n (gb_step rank st) /\ (mu N (gb_step rank st) < mu N st)%nat.
Proof.
  intros HJ Hne. destruct HJ as [Jnd Jlv Jlf Jdf Jen Jdj Jb].
  unfold gb_step. destruct (dists st) as [|e0 r] eqn:Ed; [congruence|].
  set (e := min_entry rank e0 r).
  assert (Hein : In e (e0 :: r)) by apply min_entry_in.
  set (rest := remove_entry e (e0 :: r)).
  assert (Hrest : forall x, In x rest -> In x (e0 :: r)) by (intros x Hx; apply (remove_entry_in e _ x Hx)).
  assert (Hw : (weight rest + (if eskip e then 1 else 2) = weight (e0 :: r))%nat) by (apply remove_entry_weight; exact Hein).
  destruct (mem_nat (ea e) (gdone st) || mem_nat (eb e) (gdone st)) eqn:Edone.
  - (* an entry of already merged objects: dropped *)
    split.
    + constructor; cbn [live dists gdone nextid]; auto.
    + unfold mu. cbn [dists live]. rewrite Ed. destruct (eskip e); lia.
  - apply orb_false_iff in Edone. destruct Edone as [Ea Eb]. apply mem_nat_notin in Ea, Eb.
    destruct (Jen e Hein) as (Hab & Hla & Hlb).
    assert (Hina : In (ea e) (live st)) by tauto. assert (Hinb : In (eb e) (live st)) by tauto.
    destruct (negb (eskip e) && isany st (ea e) (eb e)) eqn:Eany.
    + (* something lies between: pushed back once, flagged *)
      apply andb_true_iff in Eany. destruct Eany as [Esk _]. apply negb_true_iff in Esk.
      split.
      * constructor; cbn [live dists gdone nextid]; auto.
        intros x [<-|Hx]; [cbn [ea eb]; tauto|apply Jen; apply Hrest; exact Hx].
      * unfold mu. cbn [dists live]. rewrite Ed. cbn [weight fold_right eskip]. fold (weight rest). rewrite Esk in Hw. cbn [weight fold_right] in Hw. lia.
    + (* merge *)
      set (a := ea e) in *. set (b := eb e) in *. set (g := nextid st).
      set (ia := info st a). set (ib := info st b).
      set (live' := remove_live b (remove_live a (live st))).
      assert (Hlive' : forall x, In x live' <-> In x (live st) /\ x <> a /\ x <> b).
      { intros x. unfold live'. rewrite !remove_live_in. tauto. }
      assert (Hlen : (S (S (length live')) = length (live st))%nat).
      { unfold live'. rewrite remove_live_length; [apply remove_live_length; assumption|apply remove_live_nodup; exact Jnd|].
        apply remove_live_in. split; [exact Hinb|congruence]. }
      assert (Hg : forall x, In x (live st) -> x <> g) by (intros x Hx; specialize (Jlf x Hx); unfold g; lia).
      split.
      * constructor; cbn [live dists gdone nextid nodes].
        -- apply NoDup_app_intro; [unfold live'; apply remove_live_nodup, remove_live_nodup; exact Jnd|repeat constructor; intros []|].
           intros x Hx [<-|[]]. apply Hlive' in Hx. destruct Hx as [Hx _]. apply (Hg _ Hx). reflexivity.
        -- unfold live_leaves. cbn [live]. rewrite flat_map_app. cbn [flat_map]. rewrite app_nil_r.
           assert (Hold : forall x, In x live' -> node_leaves
                     (mkGB ((g, mkNI (NGroup g (nvert ia || nvert ib) (ntree ia) (ntree ib)) (union_box (Some (nbox ia)) (nbox ib)) (nvert ia || nvert ib)) :: nodes st)
                           (live' ++ [g]) (plane_add
                              match plane_remove match plane_remove (gplane st) (mkObj a (nbox ia)) with Some q => q | None => gplane st end (mkObj b (nbox ib)) with
                              | Some q => q | None => match plane_remove (gplane st) (mkObj a (nbox ia)) with Some q => q | None => gplane st end end (mkObj g (union_box (Some (nbox ia)) (nbox ib))))
                           (rest ++ map (fun o => mkE false (dist (union_box (Some (nbox ia)) (nbox ib)) (nbox (info st o))) g o) live')
                           (a :: b :: gdone st) (S g) (ambiguous st || tie e rest)) x = node_leaves st x).
           { intros x Hx. unfold node_leaves, info. cbn [nodes nassoc]. apply Hlive' in Hx. destruct Hx as [Hx _].
             assert (E : Nat.eqb x g = false) by (apply Nat.eqb_neq; apply Hg; exact Hx). rewrite E. reflexivity. }
           rewrite (flat_map_ext_in _ _ _ Hold).
           unfold node_leaves at 2, info at 1. cbn [nodes nassoc]. rewrite Nat.eqb_refl. cbn [ntree leaves].
           rewrite <- Jlv. unfold live_leaves.
           rewrite (flat_map_remove (node_leaves st) a (live st) Jnd Hina).
           rewrite (flat_map_remove (node_leaves st) b (remove_live a (live st))); [|apply remove_live_nodup; exact Jnd|apply remove_live_in; split; [exact Hinb|congruence]].
           fold live'. unfold node_leaves at 3 4. fold ia ib.
           rewrite Permutation_app_comm. rewrite app_assoc. reflexivity.
        -- intros x Hx. apply in_app_or in Hx. destruct Hx as [Hx|[<-|[]]]; [apply Hlive' in Hx; destruct Hx as [Hx _]; specialize (Jlf x Hx); lia|lia].
        -- intros x [<-|[<-|Hx]]; [specialize (Jlf _ Hina); lia|specialize (Jlf _ Hinb); lia|specialize (Jdf x Hx); lia].
        -- intros x Hx. apply in_app_or in Hx. destruct Hx as [Hx|Hx].
           ++ destruct (Jen x (Hrest x Hx)) as (H1 & H2 & H3). split; [exact H1|].
              assert (Conv : forall y, In y (live st) \/ In y (gdone st) -> In y (live' ++ [g]) \/ In y (a :: b :: gdone st)).
              { intros y [Hy|Hy]; [|right; right; right; exact Hy].
                destruct (Nat.eq_dec y a) as [->|Hya]; [right; left; reflexivity|].
                destruct (Nat.eq_dec y b) as [->|Hyb]; [right; right; left; reflexivity|].
                left. apply in_or_app. left. apply Hlive'. tauto. }
              split; apply Conv; assumption.
           ++ apply in_map_iff in Hx. destruct Hx as (o & <- & Ho). cbn [ea eb].
              split; [apply not_eq_sym; apply Hg; apply Hlive' in Ho; tauto|].
              split; left; apply in_or_app; [right; left; reflexivity|left; exact Ho].
        -- intros x Hx Hd. apply in_app_or in Hx. destruct Hx as [Hx|[<-|[]]].
           ++ apply Hlive' in Hx. destruct Hx as (Hx & Hxa & Hxb). destruct Hd as [<-|[<-|Hd]]; [congruence|congruence|apply (Jdj x Hx Hd)].
           ++ destruct Hd as [Hd|[Hd|Hd]]; [apply (Hg _ Hina); congruence|apply (Hg _ Hinb); congruence|specialize (Jdf _ Hd); unfold g in *; lia].
        -- rewrite app_length. cbn [length]. lia.
      * unfold mu. cbn [dists live]. rewrite Ed. rewrite weight_app, app_length. cbn [length].
        rewrite weight_pushed by reflexivity. destruct (eskip e); nia.
Qed.

(* termination within the stated fuel, with the invariant at the end *)
Lemma gb_loop_ok rank N n : forall fuel st, J N n st -> (mu N st < fuel)%nat ->
  exists st', gb_loop rank fuel st = Some st' /\ J N n st' /\ dists st' = [].
Proof.
  induction fuel as [|f IH]; intros st HJ Hmu; [lia|].
  cbn [gb_loop]. destruct (dists st) as [|e0 r] eqn:Ed.
  - exists st. split; [reflexivity|]. split; [exact HJ|exact Ed].
  - assert (Hne : dists st <> []) by (rewrite Ed; discriminate).
    destruct (gb_step_J rank N n st HJ Hne) as [HJ' Hlt]. apply IH; [exact HJ'|lia].
Qed.

(* ---------- the initial state --------------------------------------------------------------------------------- *)
Lemma pairs_from_spec i bi : forall rest e, In e (pairs_from i bi rest) -> ea e = i /\ In (eb e) (map fst rest) /\ eskip e = false.
Proof.
  induction rest as [|[j bj] r IH]; intros e H; [contradiction|]. cbn [pairs_from] in H.
  destruct H as [<-|H]; [cbn [ea eb eskip map fst]; split; [reflexivity|split; [left; reflexivity|reflexivity]]|].
  destruct (IH e H) as (A & B & C). split; [exact A|]. split; [right; exact B|exact C].
Qed.
Lemma all_pairs_spec : forall l e, NoDup (map fst l) -> In e (all_pairs l) ->
  ea e <> eb e /\ In (ea e) (map fst l) /\ In (eb e) (map fst l) /\ eskip e = false.
Proof.
  induction l as [|[i bi] r IH]; intros e Hnd H; [contradiction|]. cbn [all_pairs] in H. cbn [map fst] in *.
  inversion Hnd as [|? ? Hi Hr]; subst. apply in_app_or in H. destruct H as [H|H].
  - destruct (pairs_from_spec i bi r e H) as (A & B & C). rewrite A. split; [intros E; apply Hi; rewrite E; exact B|].
    split; [left; reflexivity|split; [right; exact B|exact C]].
  - destruct (IH e Hr H) as (A & B & C & D). split; [exact A|split; [right; exact B|split; [right; exact C|exact D]]].
Qed.
Lemma pairs_from_length i bi rest : length (pairs_from i bi rest) = length rest.
Proof. induction rest as [|[j bj] r IH]; [reflexivity|]. cbn [pairs_from length]. rewrite IH. reflexivity. Qed.
Lemma all_pairs_length l : (length (all_pairs l) <= length l * length l)%nat.
Proof.
  induction l as [|[i bi] r IH]; [cbn; lia|]. cbn [all_pairs length]. rewrite app_length, pairs_from_length. nia.
Qed.
Lemma weight_le l : (weight l <= 2 * length l)%nat.
Proof. induction l as [|e l IH]; [cbn; lia|]. cbn [weight fold_right length]. fold (weight l). destruct (eskip e); lia. Qed.

Lemma combine_seq_fst {A} (l : list A) s : map fst (combine (seq s (length l)) l) = seq s (length l).
Proof. revert s. induction l as [|x l IH]; intros s; [reflexivity|]. cbn [length seq combine map fst]. f_equal. apply IH. Qed.

Lemma gb_init_J pb boxes : J (length boxes) (length boxes) (gb_init pb boxes).
Proof.
  unfold gb_init. set (ibs := combine (seq 0 (length boxes)) boxes).
  assert (Hfst : map fst ibs = seq 0 (length boxes)) by apply combine_seq_fst.
  constructor; cbn [live dists gdone nextid nodes].
  - rewrite Hfst. apply seq_NoDup.
  - unfold live_leaves. cbn [live]. rewrite Hfst.
    assert (G : forall st', nodes st' = map (fun ib => (fst ib, mkNI (NBox (fst ib)) (bbbox (snd ib)) (match bori (snd ib) with OV => true | OH => false end))) ibs ->
                forall i, In i (seq 0 (length boxes)) -> node_leaves st' i = [i]).
    { intros st' Hn i Hi. unfold node_leaves, info. rewrite Hn.
      assert (L : forall (l : list (nat * tbox)) k, In k (map fst l) ->
                  exists ni, nassoc k (map (fun ib => (fst ib, mkNI (NBox (fst ib)) (bbbox (snd ib)) (match bori (snd ib) with OV => true | OH => false end))) l) = Some ni /\ ntree ni = NBox k).
      { induction l as [|[k0 b0] l IHl]; intros k Hk; [contradiction|]. cbn [map fst snd nassoc].
        destruct (Nat.eqb k k0) eqn:E; [apply Nat.eqb_eq in E; subst; eexists; split; reflexivity|].
        destruct Hk as [<-|Hk]; [rewrite Nat.eqb_refl in E; discriminate|]. apply IHl. exact Hk. }
      destruct (L ibs i) as (ni & E & T); [rewrite Hfst; exact Hi|]. rewrite E, T. reflexivity. }
    match goal with |- Permutation (flat_map (node_leaves ?s) _) _ =>
      rewrite (flat_map_ext_in (node_leaves s) (fun i => [i]) _ (G s eq_refl)) end. clear G.
    clear. generalize (seq 0 (length boxes)). intros l. induction l as [|x l IH]; [reflexivity|]. cbn [flat_map app]. constructor. exact IH.
  - intros i Hi. rewrite Hfst in Hi. apply in_seq in Hi. lia.
  - intros i [].
  - intros e He.
    assert (Hnd : NoDup (map fst (map (fun ib : nat * tbox => (fst ib, bbbox (snd ib))) ibs))).
    { rewrite map_map. rewrite (map_ext _ fst) by (intros [? ?]; reflexivity). rewrite Hfst. apply seq_NoDup. }
    destruct (all_pairs_spec _ e Hnd He) as (A & B & C & _).
    rewrite map_map in B, C. rewrite (map_ext _ fst) in B, C by (intros [? ?]; reflexivity). split; [exact A|]. split; left; assumption.
  - intros i _ [].
  - rewrite Hfst, seq_length. lia.
Qed.

(* the merging loop ends within its fuel, and the leaves of the resulting trees are the boxes 0..n-1, each once *)
Theorem group_textboxes_conserves rank pb boxes :
  exists trees amb, group_textboxes rank pb boxes = Some (trees, amb) /\
                    Permutation (flat_map leaves trees) (seq 0 (length boxes)).
Proof.
  unfold group_textboxes. set (n := length boxes).
  assert (Hmu : (mu n (gb_init pb boxes) < gb_fuel n)%nat).
  { unfold mu, gb_fuel, gb_init. cbn [dists live]. rewrite map_length, combine_length, seq_length, Nat.min_id. fold n.
    pose proof (weight_le (all_pairs (map (fun ib : nat * tbox => (fst ib, bbbox (snd ib))) (combine (seq 0 n) boxes)))) as W.
    pose proof (all_pairs_length (map (fun ib : nat * tbox => (fst ib, bbbox (snd ib))) (combine (seq 0 n) boxes))) as L.
    assert (Ln : length (map (fun ib : nat * tbox => (fst ib, bbbox (snd ib))) (combine (seq 0 n) boxes)) = n)
      by (rewrite map_length, combine_length, seq_length; unfold n; apply Nat.min_id).
    rewrite Ln in L. nia. }
  destruct (gb_loop_ok rank n n (gb_fuel n) (gb_init pb boxes) (gb_init_J pb boxes) Hmu) as (st' & E & HJ & _).
  rewrite E. eexists. eexists. split; [reflexivity|].
  rewrite flat_map_concat_map, map_map, <- flat_map_concat_map. exact (j_leaves _ _ _ HJ).
Qed.

(* the numbering pass visits every leaf once: the order is a permutation of the tree's leaves *)
Theorem tree_order_perm bf boxes : forall t, Permutation (tree_order bf boxes t) (leaves t).
Proof.
  induction t as [i|id tbrl a IHa b IHb]; [reflexivity|]. cbn [tree_order leaves].
  destruct (Qle_bool _ _); [rewrite IHa, IHb; reflexivity|rewrite IHa, IHb; apply Permutation_app_comm].
Qed.
