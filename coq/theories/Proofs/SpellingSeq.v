(* C01: sequences of token spellings with optional white space and comments are tokenized into exactly the tokens;
   composed with the object layer, every such spelling of a value reads back as the value. *)
From Coq Require Import ZArith List Bool Lia ZifyBool.
From PdfV Require Import Gen.LexClasses Model.Lexer Proofs.LexerProofs Proofs.SpellingProofs Proofs.SpellingProofs2.
Import ListNotations.
Open Scope Z_scope.

Definition tks (st : lst) : list token := map snd (toks st).       (* newest first *)
(* between tokens: the main state, or the state after a '>' that may still become '>>' *)
Definition gap (st : lst) : Prop := lmode st = MMain \/ lmode st = MWClose.

Lemma gap_first st c r : gap st -> c <> 62 ->
  exists st0, lmode st0 = MMain /\ tks st0 = tks st /\ run st (c :: r) = run st0 (c :: r).
Proof.
  intros [Hm|Hm] Hc.
  - exists st. auto.
  - exists (set_mode MMain st). split; [reflexivity|]. split; [reflexivity|].
    rewrite !run_cons. f_equal. unfold step, step_core. rewrite Hm. cbn [lmode set_mode].
    unfold step_wclose. assert (E : c =? 62 = false) by lia. rewrite E. reflexivity.
Qed.

(* ---------- what separates tokens --------------------------------------------------------------------------------- *)
Lemma ws_step st c : lmode st = MMain -> re_NONSPC c = false -> lmode (step st c) = MMain /\ tks (step st c) = tks st.
Proof. intros Hm Hc. unfold step, step_core. rewrite Hm. unfold step_main. rewrite Hc. auto. Qed.
Lemma nul_step st : lmode st = MMain -> lmode (step st 0) = MMain /\ tks (step st 0) = tks st.
Proof. intros Hm. unfold step, step_core. rewrite Hm. unfold step_main, main_dispatch. cbn. auto. Qed.

(* % ... end-of-line: no token *)
Lemma comment_run st body e : lmode st = MMain -> forallb (fun c => negb (re_EOL c)) body = true -> re_EOL e = true ->
  lmode (run st (37 :: body ++ [e])) = MMain /\ tks (run st (37 :: body ++ [e])) = tks st.
Proof.
  intros Hm Hb He. rewrite run_cons, run_app.
  assert (H1 : lmode (step st 37) = MComment /\ tks (step st 37) = tks st).
  { unfold step, step_core. rewrite Hm. unfold step_main, main_dispatch. cbn. auto. }
  destruct H1 as [M1 T1]. set (s1 := step st 37) in *. clearbody s1.
  rewrite (run_accum MComment _ accum_comment body s1 M1 Hb). cbn [run fold_left].
  unfold step, step_core. cbn [lmode adv add_cur set_cur]. rewrite M1. unfold step_comment. rewrite He.
  unfold step_main. assert (N : re_NONSPC e = false) by (unfold re_EOL, re_NONSPC in *; lia). rewrite N.
  unfold tks in *. cbn. auto.
Qed.

(* ---------- self-delimiting tokens -------------------------------------------------------------------------------- *)
Lemma bracket_step st c : lmode st = MMain -> (c = 91 \/ c = 93 \/ c = 123 \/ c = 125) ->
  lmode (step st c) = MMain /\ tks (step st c) = TKw [c] :: tks st.
Proof.
  intros Hm Hc. unfold step, step_core. rewrite Hm. unfold step_main, main_dispatch.
  destruct Hc as [ -> | [ -> | [ -> | -> ] ] ]; cbn; auto.
Qed.
Lemma dict_open st : lmode st = MMain -> lmode (run st [60; 60]) = MMain /\ tks (run st [60; 60]) = TKw [60; 60] :: tks st.
Proof.
  intros Hm. cbn [run fold_left].
  assert (H1 : lmode (step st 60) = MWOpen /\ tks (step st 60) = tks st).
  { unfold step, step_core. rewrite Hm. unfold step_main, main_dispatch. cbn. auto. }
  destruct H1 as [M1 T1]. set (s1 := step st 60) in *. clearbody s1.
  unfold step, step_core. rewrite M1. unfold step_wopen. cbn. unfold tks in *. cbn. rewrite T1. auto.
Qed.
Lemma dict_close_main st : lmode st = MMain -> lmode (run st [62; 62]) = MMain /\ tks (run st [62; 62]) = TKw [62; 62] :: tks st.
Proof.
  intros Hm. cbn [run fold_left].
  assert (H1 : lmode (step st 62) = MWClose /\ tks (step st 62) = tks st).
  { unfold step, step_core. rewrite Hm. unfold step_main, main_dispatch. cbn. auto. }
  destruct H1 as [M1 T1]. set (s1 := step st 62) in *. clearbody s1.
  unfold step, step_core. rewrite M1. unfold step_wclose. cbn. unfold tks in *. cbn. rewrite T1. auto.
Qed.
(* ... after a hexadecimal string its own '>' is already pending: the first '>' completes '>>', the second is pending *)
Lemma dict_close_pending st : lmode st = MWClose -> lmode (run st [62; 62]) = MWClose /\ tks (run st [62; 62]) = TKw [62; 62] :: tks st.
Proof.
  intros Hm. cbn [run fold_left].
  assert (H1 : lmode (step st 62) = MMain /\ tks (step st 62) = TKw [62; 62] :: tks st).
  { unfold step, step_core. rewrite Hm. unfold step_wclose. cbn. unfold tks. cbn. auto. }
  destruct H1 as [M1 T1]. set (s1 := step st 62) in *. clearbody s1.
  unfold step, step_core. rewrite M1. unfold step_main, main_dispatch. cbn. unfold tks in *. cbn. rewrite T1. auto.
Qed.

(* ---------- regular tokens: complete at a delimiter, which is then read between tokens ------------------- *)
Definition completes (st : lst) (s : list Z) (d : Z) (t : token) : Prop :=
  exists st', lmode st' = MMain /\ tks st' = t :: tks st /\ forall rest, run st (s ++ d :: rest) = run st' (d :: rest).

Lemma keyword_completes st c kw d : lmode st = MMain -> isalpha c = true ->
  forallb (fun x => negb (re_END_KEYWORD x)) kw = true -> re_END_KEYWORD d = true ->
  completes st (c :: kw) d (keyword_token (c :: kw)).
Proof.
  intros Hm Hc Hk Hd.
  assert (H1 : lmode (step st c) = MKeyword /\ cur (step st c) = [c] /\ tks (step st c) = tks st).
  { unfold step, step_core. rewrite Hm. unfold step_main.
    assert (N : re_NONSPC c = true) by (unfold re_NONSPC, isalpha in *; lia). rewrite N. unfold main_dispatch.
    assert (E1 : c =? 37 = false) by (unfold isalpha in Hc; lia).
    assert (E2 : c =? 47 = false) by (unfold isalpha in Hc; lia).
    assert (E3 : (c =? 45) || (c =? 43) || isdigit c = false) by (unfold isalpha, isdigit in *; lia).
    assert (E4 : c =? 46 = false) by (unfold isalpha in Hc; lia).
    rewrite E1, E2, E3, E4, Hc. cbn. auto. }
  destruct H1 as (M1 & C1 & T1). remember (step st c) as s1 eqn:E1.
  set (s2 := adv (len kw) (add_cur kw s1)).
  exists (end_keyword s2). split; [reflexivity|]. split.
  - unfold tks, end_keyword, s2. cbn. rewrite C1. unfold tks in T1. rewrite T1. reflexivity.
  - intros rest. cbn [app]. rewrite run_cons, run_app, <- E1.
    rewrite (run_accum MKeyword _ accum_keyword kw s1 M1 Hk). fold s2. rewrite !run_cons. f_equal.
    unfold step, step_core. assert (M2 : lmode s2 = MKeyword) by (subst s2; cbn; exact M1). rewrite M2.
    unfold step_keyword. rewrite Hd. reflexivity.
Qed.

Lemma name_completes st ps d : lmode st = MMain -> Forall nwf ps -> ndelim d ->
  completes st (47 :: flat_map nrender ps) d (TLit (flat_map nvalue ps)).
Proof.
  intros Hm Hps Hd. destruct (name_token st ps d Hm Hps Hd) as (st' & M & T & R).
  exists st'. split; [exact M|]. split; [unfold tks; rewrite T; reflexivity|].
  intros rest. replace ((47 :: flat_map nrender ps) ++ d :: rest) with ((47 :: flat_map nrender ps ++ [d]) ++ rest)
    by (cbn [app]; rewrite <- app_assoc; reflexivity).
  rewrite run_app, R, run_cons. reflexivity.
Qed.

Lemma integer_completes st sg ds d : lmode st = MMain -> ds <> [] -> forallb isdigit ds = true -> idelim d ->
  completes st (sign_bytes sg ++ ds) d (TInt (sign_apply sg (digits_val ds))).
Proof.
  intros Hm Hne Hds Hd. destruct (integer_token st sg ds d Hm Hne Hds Hd) as (st' & M & T & R).
  exists st'. split; [exact M|]. split; [unfold tks; rewrite T; reflexivity|].
  intros rest. replace ((sign_bytes sg ++ ds) ++ d :: rest) with ((sign_bytes sg ++ ds ++ [d]) ++ rest)
    by (rewrite <- !app_assoc; reflexivity).
  rewrite run_app, R, run_cons. reflexivity.
Qed.

(* reals: [sign] digits . digits with at least one digit; the token carries the spelling (its value is float()) *)
Lemma real_completes st sg d1 d2 d : lmode st = MMain -> forallb isdigit d1 = true -> forallb isdigit d2 = true ->
  d1 ++ d2 <> [] -> re_END_NUMBER d = true ->
  completes st (sign_bytes sg ++ d1 ++ 46 :: d2) d (TReal (sign_bytes sg ++ d1 ++ 46 :: d2)).
Proof.
  intros Hm H1 H2 Hne Hd.
  assert (A1 : forallb (fun c => negb (re_END_NUMBER c)) d1 = true).
  { apply forallb_forall. intros x Hx. rewrite forallb_forall in H1. rewrite (digit_not_end x (H1 x Hx)). reflexivity. }
  assert (A2 : forallb (fun c => negb (re_END_NUMBER c)) d2 = true).
  { apply forallb_forall. intros x Hx. rewrite forallb_forall in H2. rewrite (digit_not_end x (H2 x Hx)). reflexivity. }
  set (pre := sign_bytes sg ++ d1).
  assert (Hdig : existsb isdigit (pre ++ 46 :: d2) = true).
  { rewrite existsb_app. cbn [existsb]. subst pre. rewrite existsb_app.
    destruct d1 as [|x d1']; [destruct d2 as [|y d2']; [cbn in Hne; congruence|]|].
    - cbn [forallb] in H2. apply andb_true_iff in H2. destruct H2 as [Hy _]. cbn [existsb]. rewrite Hy. rewrite !orb_true_r. reflexivity.
    - cbn [forallb] in H1. apply andb_true_iff in H1. destruct H1 as [Hx _]. cbn [existsb]. rewrite Hx. rewrite !orb_true_r. reflexivity. }
  (* state after the part before the point *)
  assert (Hpre : exists sp, lmode sp = MFloat /\ cur sp = pre ++ [46] /\ tks sp = tks st /\
                            forall rest, run st (pre ++ 46 :: rest) = run sp rest).
  { destruct pre as [|c pre'] eqn:Ep.
    - exists (step st 46). cbn [app]. repeat split; try (intros; rewrite run_cons; reflexivity);
        unfold step, step_core; rewrite Hm; unfold step_main, main_dispatch; cbn; reflexivity.
    - assert (Hc : (c =? 45) || (c =? 43) || isdigit c = true /\ forallb (fun x => negb (re_END_NUMBER x)) pre' = true).
      { subst pre. destruct sg as [[|]|]; cbn [sign_bytes app] in Ep.
        - inversion Ep; subst. auto.
        - inversion Ep; subst. auto.
        - destruct d1 as [|x d1']; [discriminate|]. inversion Ep; subst. cbn [forallb] in H1, A1.
          apply andb_true_iff in H1. apply andb_true_iff in A1. destruct H1 as [Hx _], A1 as [_ Hr].
          rewrite Hx, orb_true_r. auto. }
      destruct Hc as [Hc Hr].
      assert (S1 : lmode (step st c) = MNumber /\ cur (step st c) = [c] /\ tks (step st c) = tks st).
      { unfold step, step_core. rewrite Hm. unfold step_main.
        assert (N : re_NONSPC c = true) by (unfold re_NONSPC, isdigit in *; lia). rewrite N. unfold main_dispatch.
        assert (E1 : c =? 37 = false) by (unfold isdigit in Hc; lia).
        assert (E2 : c =? 47 = false) by (unfold isdigit in Hc; lia).
        rewrite E1, E2, Hc. cbn. auto. }
      destruct S1 as (M1 & C1 & T1). remember (step st c) as s1 eqn:E1.
      set (s2 := adv (len pre') (add_cur pre' s1)).
      assert (M2 : lmode s2 = MNumber) by (subst s2; cbn; exact M1).
      exists (step s2 46). repeat split.
      + unfold step, step_core. rewrite M2. unfold step_number. cbn. reflexivity.
      + unfold step, step_core. rewrite M2. unfold step_number. cbn. subst s2. cbn. rewrite C1. reflexivity.
      + unfold step, step_core. rewrite M2. unfold step_number. unfold tks in *. cbn. subst s2. cbn. exact T1.
      + intros rest. cbn [app]. rewrite run_cons, run_app, <- E1.
        rewrite (run_accum MNumber _ accum_number pre' s1 M1 Hr). fold s2. rewrite run_cons. reflexivity. }
  destruct Hpre as (sp & Mp & Cp & Tp & Rp).
  set (s3 := adv (len d2) (add_cur d2 sp)).
  assert (M3 : lmode s3 = MFloat) by (subst s3; cbn; exact Mp).
  assert (C3 : cur s3 = pre ++ 46 :: d2) by (subst s3; cbn; rewrite Cp, <- app_assoc; reflexivity).
  exists (end_float s3). split; [reflexivity|]. split.
  - unfold tks, end_float. rewrite C3. unfold parse_float. rewrite Hdig. subst s3. cbn. unfold tks in Tp. rewrite Tp.
    subst pre. rewrite <- app_assoc. reflexivity.
  - intros rest. replace ((sign_bytes sg ++ d1 ++ 46 :: d2) ++ d :: rest) with (pre ++ 46 :: (d2 ++ d :: rest))
      by (subst pre; rewrite <- !app_assoc; reflexivity).
    rewrite Rp, run_app. rewrite (run_accum MFloat _ accum_float d2 sp Mp A2). fold s3. rewrite !run_cons. f_equal.
    unfold step, step_core. rewrite M3. unfold step_float. rewrite Hd. reflexivity.
Qed.

(* ---------- spellings of token sequences ----------------------------------------------------------------------------- *)
Inductive self_tok : token -> list Z -> Prop :=
| st_string : forall ps, seq_ok ANone ps -> self_tok (TStr (flat_map pvalue ps)) (40 :: flat_map render ps ++ [41])
| st_hex : forall ps, Forall hwf ps -> self_tok (TStr (flat_map hvalue ps)) (60 :: flat_map hrender ps ++ [62])
| st_bracket : forall c, c = 91 \/ c = 93 \/ c = 123 \/ c = 125 -> self_tok (TKw [c]) [c]
| st_dopen : self_tok (TKw [60; 60]) [60; 60]
| st_dclose : self_tok (TKw [62; 62]) [62; 62].

(* regular tokens with the class of bytes that may follow them *)
Inductive reg_tok : token -> list Z -> (Z -> Prop) -> Prop :=
| rt_name : forall ps, Forall nwf ps -> reg_tok (TLit (flat_map nvalue ps)) (47 :: flat_map nrender ps) ndelim
| rt_int : forall sg ds, ds <> [] -> forallb isdigit ds = true ->
    reg_tok (TInt (sign_apply sg (digits_val ds))) (sign_bytes sg ++ ds) idelim
| rt_real : forall sg d1 d2, forallb isdigit d1 = true -> forallb isdigit d2 = true -> d1 ++ d2 <> [] ->
    reg_tok (TReal (sign_bytes sg ++ d1 ++ 46 :: d2)) (sign_bytes sg ++ d1 ++ 46 :: d2) (fun d => re_END_NUMBER d = true)
| rt_kw : forall c kw, isalpha c = true -> forallb (fun x => negb (re_END_KEYWORD x)) kw = true ->
    reg_tok (keyword_token (c :: kw)) (c :: kw) (fun d => re_END_KEYWORD d = true).

(* the rest of the input begins with an admissible delimiter (at the end of the input the reader supplies a line feed) *)
Definition followed_by (P : Z -> Prop) (rest : list Z) : Prop := match rest with [] => P 10 | d :: _ => P d end.

Inductive spelled : list token -> list Z -> Prop :=
| sp_nil : spelled [] []
| sp_ws : forall c ts rest, re_NONSPC c = false \/ c = 0 -> spelled ts rest -> spelled ts (c :: rest)
| sp_comment : forall body e ts rest, forallb (fun c => negb (re_EOL c)) body = true -> re_EOL e = true ->
    spelled ts rest -> spelled ts (37 :: body ++ e :: rest)
| sp_self : forall t s ts rest, self_tok t s -> spelled ts rest -> spelled (t :: ts) (s ++ rest)
| sp_reg : forall t s P ts rest, reg_tok t s P -> followed_by P rest -> spelled ts rest -> spelled (t :: ts) (s ++ rest).

Lemma reg_completes st t s P d : lmode st = MMain -> reg_tok t s P -> P d -> completes st s d t.
Proof.
  intros Hm H Hd. destruct H.
  - apply name_completes; assumption.
  - apply integer_completes; assumption.
  - apply real_completes; assumption.
  - apply keyword_completes; assumption.
Qed.

Lemma reg_first_not_gt t s P : reg_tok t s P -> exists c r, s = c :: r /\ c <> 62.
Proof.
  intros H. destruct H as [ps Hps|sg ds Hne Hd|sg d1 d2 H1 H2 Hne|c kw Hc Hk].
  - exists 47, (flat_map nrender ps). split; [reflexivity|lia].
  - destruct sg as [[|]|]; cbn [sign_bytes app].
    + eexists. eexists. split; [reflexivity|lia].
    + eexists. eexists. split; [reflexivity|lia].
    + destruct ds as [|x ds']; [congruence|]. exists x, ds'. split; [reflexivity|].
      cbn [forallb] in Hd. apply andb_true_iff in Hd. destruct Hd as [Hx _]. unfold isdigit in Hx. lia.
  - destruct sg as [[|]|]; cbn [sign_bytes app].
    + eexists. eexists. split; [reflexivity|lia].
    + eexists. eexists. split; [reflexivity|lia].
    + destruct d1 as [|x d1']; cbn [app].
      * eexists. eexists. split; [reflexivity|lia].
      * exists x, (d1' ++ 46 :: d2). split; [reflexivity|].
        cbn [forallb] in H1. apply andb_true_iff in H1. destruct H1 as [Hx _]. unfold isdigit in Hx. lia.
  - exists c, kw. split; [reflexivity|]. unfold isalpha in Hc. lia.
Qed.

(* THE THEOREM: a spelled token sequence is tokenized into exactly those tokens, from any state between tokens *)
Theorem spelled_tokens : forall ts bytes, spelled ts bytes -> forall st, gap st ->
  tks (run st (bytes ++ [10])) = rev ts ++ tks st.
Proof.
  intros ts bytes H. induction H as [|c ts rest Hc H IH|body e ts rest Hb He H IH|t s ts rest Hs H IH|t s P ts rest Hr Hf H IH];
    intros st G.
  - (* end of input: the line feed the reader supplies *)
    cbn [app rev]. destruct (gap_first st 10 [] G ltac:(lia)) as (st0 & M0 & T0 & R0). rewrite R0.
    cbn [run fold_left]. destruct (ws_step st0 10 M0 eq_refl) as [_ T]. rewrite T. exact T0.
  - assert (Hne : c <> 62) by (destruct Hc as [Hc | ->]; [unfold re_NONSPC in Hc|]; lia).
    cbn [app]. destruct (gap_first st c (rest ++ [10]) G Hne) as (st0 & M0 & T0 & R0). rewrite R0, run_cons.
    assert (S : lmode (step st0 c) = MMain /\ tks (step st0 c) = tks st0)
      by (destruct Hc as [Hc | ->]; [apply ws_step; assumption|apply nul_step; assumption]).
    destruct S as [M1 T1]. rewrite (IH (step st0 c) (or_introl M1)), T1, T0. reflexivity.
  - cbn [app]. destruct (gap_first st 37 ((body ++ e :: rest) ++ [10]) G ltac:(lia)) as (st0 & M0 & T0 & R0). rewrite R0.
    replace (37 :: (body ++ e :: rest) ++ [10]) with ((37 :: body ++ [e]) ++ (rest ++ [10]))
      by (cbn [app]; rewrite <- !app_assoc; reflexivity).
    rewrite run_app. destruct (comment_run st0 body e M0 Hb He) as [M1 T1].
    rewrite (IH _ (or_introl M1)), T1, T0. reflexivity.
  - rewrite <- app_assoc, run_app. cbn [rev]. rewrite <- app_assoc. cbn [app].
    destruct Hs as [ps Hok|ps Hps|c Hc| | ].
    + destruct (gap_first st 40 (flat_map render ps ++ [41]) G ltac:(lia)) as (st0 & M0 & T0 & R0). rewrite R0.
      destruct (literal_string_token st0 ps M0 Hok) as [M1 T1]. cbv zeta in *.
      rewrite (IH _ (or_introl M1)). unfold tks. rewrite T1. cbn [map snd]. fold (tks st0). rewrite T0. reflexivity.
    + destruct (gap_first st 60 (flat_map hrender ps ++ [62]) G ltac:(lia)) as (st0 & M0 & T0 & R0). rewrite R0.
      destruct (hex_string_token st0 ps M0 Hps) as [M1 T1]. cbv zeta in *.
      rewrite (IH _ (or_intror M1)). unfold tks. rewrite T1. cbn [map snd]. fold (tks st0). rewrite T0. reflexivity.
    + assert (Hne : c <> 62) by lia.
      destruct (gap_first st c [] G Hne) as (st0 & M0 & T0 & R0). rewrite R0. cbn [run fold_left].
      destruct (bracket_step st0 c M0 Hc) as [M1 T1]. rewrite (IH _ (or_introl M1)), T1, T0. reflexivity.
    + destruct (gap_first st 60 [60] G ltac:(lia)) as (st0 & M0 & T0 & R0). rewrite R0.
      destruct (dict_open st0 M0) as [M1 T1]. rewrite (IH _ (or_introl M1)), T1, T0. reflexivity.
    + destruct G as [Hm|Hm].
      * destruct (dict_close_main st Hm) as [M1 T1]. rewrite (IH _ (or_introl M1)), T1. reflexivity.
      * destruct (dict_close_pending st Hm) as [M1 T1]. rewrite (IH _ (or_intror M1)), T1. reflexivity.
  - cbn [rev]. rewrite <- !app_assoc. cbn [app].
    destruct (reg_first_not_gt t s P Hr) as (c & r & Es & Hc).
    assert (G0 : exists st0, lmode st0 = MMain /\ tks st0 = tks st /\ run st (s ++ rest ++ [10]) = run st0 (s ++ rest ++ [10])).
    { rewrite Es. cbn [app]. apply gap_first; assumption. }
    destruct G0 as (st0 & M0 & T0 & R0). rewrite R0.
    destruct rest as [|d rest'].
    + cbn [followed_by app] in *. destruct (reg_completes st0 t s P 10 M0 Hr Hf) as (st' & M' & T' & R').
      rewrite R'. specialize (IH st' (or_introl M')). cbn [app] in IH. rewrite IH, T', T0. reflexivity.
    + cbn [followed_by app] in *. destruct (reg_completes st0 t s P d M0 Hr Hf) as (st' & M' & T' & R').
      rewrite R'. specialize (IH st' (or_introl M')). cbn [app] in IH. rewrite IH, T', T0. reflexivity.
Qed.

Corollary spelled_lex ts bytes : spelled ts bytes -> map snd (lex 0 bytes) = ts.
Proof.
  intros H. unfold lex, tokens_of. rewrite map_rev. fold (tks (run (init 0) (bytes ++ [10]))).
  rewrite (spelled_tokens ts bytes H (init 0) (or_introl eq_refl)). unfold tks. cbn [init toks map].
  rewrite app_nil_r, rev_involutive. reflexivity.
Qed.
