(* Page tree: the DFS equals the preorder/nearest-ancestor specification on honest
   trees, terminates on every finite store visiting each node once, and the selection
   loop equals the index filter. *)
From Coq Require Import ZArith List Bool Lia.
From PdfV Require Import Base.ListX Model.PageTree.
Import ListNotations.
Open Scope Z_scope.

(* ---------- selection ------------------------------------------------------------- *)
Definition sel_pred {A} (pagenos : list nat) (maxpages : nat) (ip : nat * A) : bool :=
  ((match pagenos with [] => true | _ => false end) || memn (fst ip) pagenos)
  && (Nat.eqb maxpages 0 || Nat.ltb (fst ip) maxpages).

Lemma filter_beyond {A} (ps : list A) pagenos maxpages : forall i,
  maxpages <> 0%nat -> (maxpages <= i)%nat ->
  filter (sel_pred pagenos maxpages) (combine (seq i (length ps)) ps) = [].
Proof.
  induction ps as [|p r IH]; intros i Hm Hi; [reflexivity|].
  cbn [length seq combine filter]. unfold sel_pred at 1. cbn [fst].
  assert (E1 : Nat.eqb maxpages 0 = false) by (apply Nat.eqb_neq; exact Hm).
  assert (E2 : Nat.ltb i maxpages = false) by (apply Nat.ltb_ge; exact Hi).
  rewrite E1, E2. cbn [orb]. rewrite andb_false_r. apply IH; [exact Hm|lia].
Qed.

Lemma select_spec_from {A} (ps : list A) pagenos maxpages : forall i,
  (maxpages = 0%nat \/ (i < maxpages)%nat) ->
  select ps i pagenos maxpages
  = map snd (filter (sel_pred pagenos maxpages) (combine (seq i (length ps)) ps)).
Proof.
  induction ps as [|p r IH]; intros i Hinv; [reflexivity|].
  cbn [select length seq combine filter]. unfold sel_pred at 1. cbn [fst].
  assert (Hcur : Nat.eqb maxpages 0 || Nat.ltb i maxpages = true).
  { destruct Hinv as [H|H]; [subst; reflexivity|].
    apply orb_true_iff. right. apply Nat.ltb_lt. exact H. }
  rewrite Hcur, andb_true_r.
  destruct (Nat.eqb maxpages 0) eqn:E0.
  - cbn [negb andb]. rewrite IH by (left; apply Nat.eqb_eq; exact E0).
    destruct ((match pagenos with [] => true | _ :: _ => false end) || memn i pagenos); reflexivity.
  - apply Nat.eqb_neq in E0. cbn [negb andb].
    destruct (Nat.leb maxpages (i + 1)) eqn:El.
    + apply Nat.leb_le in El.
      rewrite (filter_beyond r pagenos maxpages (S i)) by (auto; lia).
      destruct ((match pagenos with [] => true | _ :: _ => false end) || memn i pagenos); reflexivity.
    + apply Nat.leb_gt in El. rewrite IH by (right; lia).
      destruct ((match pagenos with [] => true | _ :: _ => false end) || memn i pagenos); reflexivity.
Qed.

Theorem select_is_spec {A} (ps : list A) pagenos maxpages :
  select ps 0 pagenos maxpages = spec_select ps pagenos maxpages.
Proof.
  unfold spec_select.
  rewrite select_spec_from by (destruct maxpages; [left; reflexivity|right; lia]).
  reflexivity.
Qed.

(* ---------- membership helpers ------------------------------------------------------ *)
Lemma memz_true_iff i l : memz i l = true <-> In i l.
Proof.
  induction l as [|x r IH]; cbn; [split; [discriminate|contradiction]|].
  rewrite orb_true_iff, IH, Z.eqb_eq. tauto.
Qed.
Lemma memz_false_iff i l : memz i l = false <-> ~ In i l.
Proof.
  rewrite <- memz_true_iff. destruct (memz i l); split; intros H; congruence.
Qed.

(* ---------- honest trees ------------------------------------------------------------ *)
Section TreeInd.
  Variable P : tree -> Prop.
  Hypothesis HPage : forall i a, P (TPage i a).
  Hypothesis HPages : forall i a kids, Forall P kids -> P (TPages i a kids).
  Fixpoint tree_ind2 (t : tree) : P t :=
    match t with
    | TPage i a => HPage i a
    | TPages i a kids =>
        HPages i a kids ((fix go (l : list tree) : Forall P l :=
                            match l with [] => Forall_nil _ | k :: r => Forall_cons _ (tree_ind2 k) (go r) end) kids)
    end.
End TreeInd.

Lemma describes_kids st i a kids :
  describes st (TPages i a kids) ->
  ntyp (lookup st i) = NPages /\ nkids (lookup st i) = Some (map tid kids) /\
  nattrs (lookup st i) = a /\ Forall (describes st) kids.
Proof.
  cbn [describes]. intros (H1 & H2 & H3 & H4). repeat split; auto.
  clear H2. induction kids as [|k r IH]; [constructor|]. destruct H4 as [Hk Hr].
  constructor; [exact Hk|]. apply IH. exact Hr.
Qed.

Definition dfs_ok (st : store) (t : tree) : Prop :=
  forall fuel visited inh,
    (depth t <= fuel)%nat ->
    (forall i, In i (ids t) -> ~ In i visited) ->
    NoDup (ids t) ->
    dfs fuel st visited (tid t) inh = Some (spec_pages t inh, rev (ids t) ++ visited).

Lemma kids_loop_ok st fuel props : forall kids acc visited,
  Forall (dfs_ok st) kids ->
  Forall (fun k => (depth k <= fuel)%nat) kids ->
  (forall i, In i (flat_map ids kids) -> ~ In i visited) ->
  NoDup (flat_map ids kids) ->
  kids_loop (dfs fuel st) props (map tid kids) acc visited
  = Some (acc ++ flat_map (fun k => spec_pages k props) kids, rev (flat_map ids kids) ++ visited).
Proof.
  induction kids as [|k r IH]; intros acc visited Hok Hd Hdis Hnd.
  - cbn. rewrite app_nil_r. reflexivity.
  - inversion Hok as [|? ? Hk Hr]; subst. inversion Hd as [|? ? Hdk Hdr]; subst.
    cbn [map kids_loop flat_map] in *.
    pose proof (NoDup_app_r _ _ Hnd) as Hnd_r.
    pose proof (NoDup_app_l _ _ Hnd) as Hnd_k.
    rewrite (Hk fuel visited props Hdk).
    + rewrite IH; [| exact Hr | exact Hdr | | exact Hnd_r].
      * rewrite <- app_assoc. f_equal. f_equal. rewrite rev_app_distr, <- app_assoc. reflexivity.
      * intros i Hi Hin. apply in_app_or in Hin. destruct Hin as [Hin|Hin].
        -- apply in_rev in Hin. exact (NoDup_app_disj _ _ i Hnd Hin Hi).
        -- apply (Hdis i); [apply in_or_app; right; exact Hi|exact Hin].
    + intros i Hi. apply Hdis. apply in_or_app. left. exact Hi.
    + exact Hnd_k.
Qed.

Lemma max_fold_le (kids : list tree) m :
  (fold_right (fun k m => Nat.max (depth k) m) 0%nat kids <= m)%nat ->
  Forall (fun k => (depth k <= m)%nat) kids.
Proof.
  induction kids as [|k r IH]; intros H; [constructor|].
  cbn [fold_right] in H. constructor; [lia|]. apply IH. lia.
Qed.

(* C04: on every honest tree the DFS is the preorder with nearest-ancestor inheritance *)
Theorem dfs_tree st : forall t, describes st t -> dfs_ok st t.
Proof.
  induction t as [i a|i a kids IH] using tree_ind2; intros Hdesc fuel visited inh Hfuel Hdis Hnd.
  - destruct Hdesc as [Ht Ha]. destruct fuel as [|f]; [cbn in Hfuel; lia|].
    cbn [dfs tid]. assert (Hv : memz i visited = false).
    { apply memz_false_iff. apply Hdis. cbn. left. reflexivity. }
    rewrite Hv, Ht, Ha. cbn. destruct (nkids (lookup st i)); reflexivity.
  - apply describes_kids in Hdesc. destruct Hdesc as (Ht & Hk & Ha & Hkids).
    destruct fuel as [|f]; [cbn in Hfuel; lia|].
    cbn [dfs tid]. assert (Hv : memz i visited = false).
    { apply memz_false_iff. apply Hdis. cbn. left. reflexivity. }
    rewrite Hv, Ht, Hk, Ha. cbn [ids] in Hnd. inversion Hnd as [|? ? Hni Hnd']; subst.
    rewrite kids_loop_ok.
    + cbn [spec_pages ids rev app]. f_equal. f_equal. rewrite <- app_assoc. reflexivity.
    + rewrite Forall_forall in *. intros k Hin. apply IH; [exact Hin|]. apply Hkids. exact Hin.
    + apply max_fold_le. cbn [depth] in Hfuel. lia.
    + intros j Hj Hin. destruct Hin as [E|Hin].
      * subst. apply Hni. exact Hj.
      * apply (Hdis j); [cbn; right; exact Hj|exact Hin].
    + exact Hnd'.
Qed.

(* ---------- arbitrary finite stores: termination, each node once ---------------------- *)
Definition unvisited (st : store) (v : list Z) : nat :=
  length (filter (fun kn => negb (memz (fst kn) v)) st).

Lemma unvisited_mono st v v' : (forall x, In x v -> In x v') -> (unvisited st v' <= unvisited st v)%nat.
Proof.
  intros H. unfold unvisited. induction st as [|[k n] r IH]; [cbn; lia|].
  cbn [filter fst]. destruct (memz k v) eqn:E1; destruct (memz k v') eqn:E2; cbn [negb length]; try lia.
  apply memz_true_iff in E1. apply H in E1. apply memz_true_iff in E1. congruence.
Qed.

Lemma unvisited_le st v : (unvisited st v <= length st)%nat.
Proof.
  unfold unvisited. induction st as [|kn r IH]; [cbn; lia|].
  cbn [filter length]. destruct (negb (memz (fst kn) v)); cbn [length]; lia.
Qed.

Lemma lookup_in st i : lookup st i <> empty_node -> In i (map fst st).
Proof.
  induction st as [|[k n] r IH]; cbn; [congruence|].
  destruct (k =? i) eqn:E; [apply Z.eqb_eq in E; auto|]. intros H. right. apply IH. exact H.
Qed.

Lemma unvisited_visit st v i : In i (map fst st) -> ~ In i v ->
  (unvisited st (i :: v) < unvisited st v)%nat.
Proof.
  intros Hin Hv. unfold unvisited. induction st as [|[k n] r IH]; [contradiction|].
  cbn [map fst] in Hin. cbn [filter fst memz].
  pose proof (unvisited_mono r v (i :: v) ltac:(intros; right; assumption)) as Hmono.
  unfold unvisited in Hmono. cbn [memz] in Hmono.
  destruct (Z.eq_dec i k) as [E|E].
  - subst k. rewrite Z.eqb_refl. apply memz_false_iff in Hv. rewrite Hv. cbn [orb negb length]. lia.
  - destruct Hin as [E'|Hin]; [congruence|]. specialize (IH Hin). cbn [memz] in IH.
    assert (Ek : (i =? k) = false) by (apply Z.eqb_neq; exact E). rewrite Ek. cbn [orb].
    destruct (memz k v); cbn [negb length]; lia.
Qed.

(* what one DFS call guarantees *)
Definition dfs_post (visited : list Z) (ps : list (Z * attrs)) (v' : list Z) : Prop :=
  (forall x, In x visited -> In x v') /\
  NoDup (map fst ps) /\
  (forall p, In p ps -> ~ In (fst p) visited /\ In (fst p) v').

Lemma kids_loop_total st f props :
  (forall visited i, (unvisited st visited < f)%nat ->
     exists ps v', dfs f st visited i props = Some (ps, v') /\ dfs_post visited ps v') ->
  forall kids acc visited v0,
    (unvisited st visited < f)%nat ->
    (forall x, In x v0 -> In x visited) ->
    NoDup (map fst acc) -> (forall p, In p acc -> ~ In (fst p) v0 /\ In (fst p) visited) ->
    exists ps v', kids_loop (dfs f st) props kids acc visited = Some (ps, v') /\ dfs_post v0 ps v'.
Proof.
  intros Hrec kids. induction kids as [|k r IH]; intros acc visited v0 Hf Hsub Hnd Hacc.
  - exists acc, visited. split; [reflexivity|]. unfold dfs_post. split; [exact Hsub|]. split; [exact Hnd|].
    intros q Hq. apply Hacc. exact Hq.
  - cbn [kids_loop]. destruct (Hrec visited k Hf) as (ps & v' & E & Hsub' & Hnd' & Hps).
    rewrite E. apply IH.
    + pose proof (unvisited_mono st visited v' Hsub'). lia.
    + intros y Hy. apply Hsub', Hsub, Hy.
    + rewrite map_app. apply NoDup_app_intro; [exact Hnd|exact Hnd'|].
      intros x Hx1 Hx2. apply in_map_iff in Hx1. destruct Hx1 as [p1 [E1 Hp1]].
      apply in_map_iff in Hx2. destruct Hx2 as [p2 [E2 Hp2]].
      destruct (Hacc p1 Hp1) as [_ Hin1]. destruct (Hps p2 Hp2) as [Hn2 _].
      apply Hn2. rewrite E2, <- E1. exact Hin1.
    + intros p Hp. apply in_app_or in Hp. destruct Hp as [Hp|Hp].
      * destruct (Hacc p Hp). split; [assumption|]. apply Hsub'. assumption.
      * destruct (Hps p Hp) as [Hn Hi]. split; [|exact Hi]. intros Hc. apply Hn. apply Hsub. exact Hc.
Qed.

Lemma post_nil visited i : dfs_post visited [] (i :: visited).
Proof.
  unfold dfs_post. split; [intros y Hy; right; exact Hy|]. split; [constructor|]. intros q [].
Qed.
Lemma post_same visited : dfs_post visited [] visited.
Proof. unfold dfs_post. split; [auto|]. split; [constructor|]. intros q []. Qed.
Lemma post_one visited i a : ~ In i visited -> dfs_post visited [(i, a)] (i :: visited).
Proof.
  intros Hv. unfold dfs_post. split; [intros y Hy; right; exact Hy|]. split.
  - cbn. constructor; [intros []|constructor].
  - intros q [E|[]]. subst q. cbn. split; [exact Hv|left; reflexivity].
Qed.

(* C04: any finite store (cycles, shared kids, dangling references): the DFS never runs out
   of fuel and yields each page id at most once *)
Theorem dfs_total st : forall fuel visited i parent,
  (unvisited st visited < fuel)%nat ->
  exists ps v', dfs fuel st visited i parent = Some (ps, v') /\ dfs_post visited ps v'.
Proof.
  induction fuel as [|f IH]; intros visited i parent Hf; [lia|].
  cbn [dfs]. destruct (memz i visited) eqn:Hv.
  - exists [], visited. split; [reflexivity|apply post_same].
  - apply memz_false_iff in Hv.
    destruct (ntyp (lookup st i)) eqn:Ht.
    + (* Page *)
      exists [(i, inherit (nattrs (lookup st i)) parent)], (i :: visited).
      split; [destruct (nkids (lookup st i)); reflexivity|apply post_one; exact Hv].
    + (* Pages *)
      destruct (nkids (lookup st i)) as [kids|] eqn:Hk.
      * assert (Hin : In i (map fst st)).
        { apply lookup_in. intros E. rewrite E in Ht. cbn in Ht. discriminate. }
        pose proof (unvisited_visit st visited i Hin Hv) as Hlt.
        destruct (kids_loop_total st f (inherit (nattrs (lookup st i)) parent)
                    (fun v k Hfk => IH v k _ Hfk) kids [] (i :: visited) visited) as (ps & v' & E & Hpost).
        -- lia.
        -- intros y Hy. right. exact Hy.
        -- constructor.
        -- intros q [].
        -- exists ps, v'. split; [exact E|exact Hpost].
      * exists [], (i :: visited). split; [reflexivity|apply post_nil].
    + exists [], (i :: visited). split; [destruct (nkids (lookup st i)); reflexivity|apply post_nil].
Qed.

Corollary pages_total st root cat :
  exists ps, pages st root cat = Some ps /\
    (ps = fallback st \/ NoDup (map fst ps)).
Proof.
  unfold pages.
  destruct (dfs_total st (S (S (length st))) [] root cat) as (ps & v' & E & _ & Hnd & _).
  - pose proof (unvisited_le st []). lia.
  - rewrite E. destruct ps as [|p r].
    + exists (fallback st). split; [reflexivity|left; reflexivity].
    + exists (p :: r). split; [reflexivity|right; exact Hnd].
Qed.
