(* Algebraic laws of the generated matrix helpers (Gen/Geom.v), for every
   commutative ring, and the tight-hull theorem over Q. *)
From Coq Require Import ZArith QArith Ring Lia Lqa Bool List.
Import ListNotations.
From PdfV Require Import Base.Num Gen.Geom.

Section RingLaws.
  Variable R : Type.
  Variables (rO rI : R) (radd rmul rsub : R -> R -> R) (ropp : R -> R).
  Variable Rth : ring_theory rO rI radd rmul rsub ropp (@eq R).
  Add Ring Rring : Rth.

  (* only the ring operations of the record matter for these laws; the order
     and conversion fields are arbitrary *)
  Variables (dv : R -> R -> R) (le lt eqb : R -> R -> bool) (ofz : Z -> R) (tr fl : R -> Z).
  Let o : NumOps R := mkNumOps R radd rsub rmul dv ropp le lt eqb ofz tr fl.
  Notation idm := (rI, rO, rO, rI, rO, rO).
  Notation M := (R * R * R * R * R * R)%type.
  Notation P := (R * R)%type.

  Ltac crush :=
    repeat match goal with
           | m : M |- _ => destruct m as [[[[[? ?] ?] ?] ?] ?]
           | p : P |- _ => destruct p as [? ?]
           end;
    cbv [mult_matrix translate_matrix apply_matrix_pt apply_matrix_norm o
         nadd nsub nmul fst snd];
    repeat match goal with |- (_, _) = (_, _) => apply f_equal2 end; ring.

  Lemma mult_assoc (m2 m1 m0 : M) :
    mult_matrix o m2 (mult_matrix o m1 m0) = mult_matrix o (mult_matrix o m2 m1) m0.
  Proof. crush. Qed.

  Lemma mult_id_l (m : M) : mult_matrix o idm m = m.
  Proof. crush. Qed.

  Lemma mult_id_r (m : M) : mult_matrix o m idm = m.
  Proof. crush. Qed.

  Lemma apply_mult (m1 m0 : M) (p : P) :
    apply_matrix_pt o (mult_matrix o m1 m0) p = apply_matrix_pt o m0 (apply_matrix_pt o m1 p).
  Proof. crush. Qed.

  Lemma apply_id (p : P) : apply_matrix_pt o idm p = p.
  Proof. crush. Qed.

  Lemma translate_as_mult (m : M) (v : P) :
    translate_matrix o m v = mult_matrix o (rI, rO, rO, rI, fst v, snd v) m.
  Proof. crush. Qed.

  Lemma translate_apply (m : M) (v p : P) :
    apply_matrix_pt o (translate_matrix o m v) p
    = apply_matrix_pt o m (radd (fst p) (fst v), radd (snd p) (snd v)).
  Proof. crush. Qed.

  Lemma norm_is_difference (m : M) (v : P) :
    apply_matrix_norm o m v
    = (rsub (fst (apply_matrix_pt o m v)) (fst (apply_matrix_pt o m (rO, rO))),
       rsub (snd (apply_matrix_pt o m v)) (snd (apply_matrix_pt o m (rO, rO)))).
  Proof. crush. Qed.
End RingLaws.

(* --- tight hull over Q ------------------------------------------------ *)

Lemma nmin_Q_spec a b : (nmin QOps a b <= a /\ nmin QOps a b <= b /\ (nmin QOps a b = a \/ nmin QOps a b = b))%Q.
Proof.
  unfold nmin; simpl. destruct (Qltb b a) eqn:E; [apply Qltb_lt in E | apply Qltb_ge in E];
  repeat split; auto; lra.
Qed.

Lemma nmax_Q_spec a b : (a <= nmax QOps a b /\ b <= nmax QOps a b /\ (nmax QOps a b = a \/ nmax QOps a b = b))%Q.
Proof.
  unfold nmax; simpl. destruct (Qltb a b) eqn:E; [apply Qltb_lt in E | apply Qltb_ge in E];
  repeat split; auto; lra.
Qed.

Lemma min4_spec a b c d :
  let m := nmin QOps (nmin QOps (nmin QOps a b) c) d in
  (m <= a /\ m <= b /\ m <= c /\ m <= d)%Q /\ (m = a \/ m = b \/ m = c \/ m = d).
Proof.
  intro m. subst m.
  destruct (nmin_Q_spec a b) as (H1 & H2 & H3).
  destruct (nmin_Q_spec (nmin QOps a b) c) as (H4 & H5 & H6).
  destruct (nmin_Q_spec (nmin QOps (nmin QOps a b) c) d) as (H7 & H8 & H9).
  split; [repeat split; lra|].
  destruct H9 as [-> | ->]; auto. destruct H6 as [-> | ->]; auto. destruct H3 as [-> | ->]; auto.
Qed.

Lemma max4_spec a b c d :
  let m := nmax QOps (nmax QOps (nmax QOps a b) c) d in
  (a <= m /\ b <= m /\ c <= m /\ d <= m)%Q /\ (m = a \/ m = b \/ m = c \/ m = d).
Proof.
  intro m. subst m.
  destruct (nmax_Q_spec a b) as (H1 & H2 & H3).
  destruct (nmax_Q_spec (nmax QOps a b) c) as (H4 & H5 & H6).
  destruct (nmax_Q_spec (nmax QOps (nmax QOps a b) c) d) as (H7 & H8 & H9).
  split; [repeat split; lra|].
  destruct H9 as [-> | ->]; auto. destruct H6 as [-> | ->]; auto. destruct H3 as [-> | ->]; auto.
Qed.

Definition corners (r : Q * Q * Q * Q) : list (Q * Q) :=
  let '(x0, y0, x1, y1) := r in [(x0, y0); (x1, y0); (x1, y1); (x0, y1)]%list.

(* the box of a transformed rectangle contains the four transformed corners
   and each of its four bounds is attained by one of them *)
Lemma rect_hull (m : Q * Q * Q * Q * Q * Q) (r : Q * Q * Q * Q) :
  let '(X0, Y0, X1, Y1) := apply_matrix_rect QOps m r in
  let cs := List.map (apply_matrix_pt QOps m) (corners r) in
  (forall p, List.In p cs -> X0 <= fst p /\ fst p <= X1 /\ Y0 <= snd p /\ snd p <= Y1)%Q
  /\ (exists p, List.In p cs /\ fst p = X0) /\ (exists p, List.In p cs /\ fst p = X1)
  /\ (exists p, List.In p cs /\ snd p = Y0) /\ (exists p, List.In p cs /\ snd p = Y1).
Proof.
  destruct r as [[[x0 y0] x1] y1].
  unfold apply_matrix_rect.
  destruct (apply_matrix_pt QOps m (x0, y0)) as [l1 b1] eqn:E1.
  destruct (apply_matrix_pt QOps m (x1, y0)) as [r1 b2] eqn:E2.
  destruct (apply_matrix_pt QOps m (x1, y1)) as [r2 t1] eqn:E3.
  destruct (apply_matrix_pt QOps m (x0, y1)) as [l2 t2] eqn:E4.
  cbn [corners List.map]. rewrite E1, E2, E3, E4.
  destruct (min4_spec l1 l2 r1 r2) as [(A1 & A2 & A3 & A4) A5].
  destruct (min4_spec b1 b2 t1 t2) as [(B1 & B2 & B3 & B4) B5].
  destruct (max4_spec l1 l2 r1 r2) as [(C1 & C2 & C3 & C4) C5].
  destruct (max4_spec b1 b2 t1 t2) as [(D1 & D2 & D3 & D4) D5].
  cbv zeta in *.
  split; [| repeat split].
  - intros p [<- | [<- | [<- | [<- | []]]]]; cbn [fst snd]; repeat split; assumption.
  - destruct A5 as [-> | [-> | [-> | ->]]];
      [exists (l1, b1) | exists (l2, t2) | exists (r1, b2) | exists (r2, t1)]; cbn; auto 6.
  - destruct C5 as [-> | [-> | [-> | ->]]];
      [exists (l1, b1) | exists (l2, t2) | exists (r1, b2) | exists (r2, t1)]; cbn; auto 6.
  - destruct B5 as [-> | [-> | [-> | ->]]];
      [exists (l1, b1) | exists (r1, b2) | exists (r2, t1) | exists (l2, t2)]; cbn; auto 6.
  - destruct D5 as [-> | [-> | [-> | ->]]];
      [exists (l1, b1) | exists (r1, b2) | exists (r2, t1) | exists (l2, t2)]; cbn; auto 6.
Qed.
