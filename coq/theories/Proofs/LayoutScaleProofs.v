(* C09: the documented thresholds, and invariance of the glyph -> line stage under scaling of the page. *)
From Coq Require Import ZArith QArith List Bool Lia Lqa.
From PdfV Require Import Base.Num Gen.Geom Model.Plane Model.Layout.
Import ListNotations.
Open Scope Q_scope.

(* ---------- comparisons respect == and positive scaling ------------------------------------------------------ *)
Lemma Qle_bool_comp a a' b b' : a == a' -> b == b' -> Qle_bool a b = Qle_bool a' b'.
Proof.
  intros Ha Hb. destruct (Qle_bool a b) eqn:E; symmetry.
  - apply Qle_bool_iff. apply Qle_bool_iff in E. rewrite <- Ha, <- Hb. exact E.
  - apply Qleb_gt. apply Qleb_gt in E. rewrite <- Ha, <- Hb. exact E.
Qed.
Lemma Qltb_comp a a' b b' : a == a' -> b == b' -> Qltb a b = Qltb a' b'.
Proof. intros Ha Hb. unfold Qltb. f_equal. apply Qle_bool_comp; assumption. Qed.

Section Scale.
  Variable k : Q.
  Hypothesis kpos : 0 < k.

  Lemma Qle_bool_scale a b : Qle_bool (k * a) (k * b) = Qle_bool a b.
  Proof.
    destruct (Qle_bool a b) eqn:E.
    - apply Qle_bool_iff. apply Qle_bool_iff in E. nra.
    - apply Qleb_gt. apply Qleb_gt in E. nra.
  Qed.
  Lemma Qltb_scale a b : Qltb (k * a) (k * b) = Qltb a b.
  Proof. unfold Qltb. rewrite Qle_bool_scale. reflexivity. Qed.
  Lemma Qltb_scale' a a0 b b0 : a == k * a0 -> b == k * b0 -> Qltb a b = Qltb a0 b0.
  Proof. intros Ha Hb. rewrite (Qltb_comp _ _ _ _ Ha Hb). apply Qltb_scale. Qed.
  Lemma Qle_bool_scale' a a0 b b0 : a == k * a0 -> b == k * b0 -> Qle_bool a b = Qle_bool a0 b0.
  Proof. intros Ha Hb. rewrite (Qle_bool_comp _ _ _ _ Ha Hb). apply Qle_bool_scale. Qed.

  Lemma qmin_scale a a0 b b0 : a == k * a0 -> b == k * b0 -> qmin a b == k * qmin a0 b0.
  Proof. intros Ha Hb. unfold qmin. rewrite (Qltb_scale' _ _ _ _ Hb Ha). destruct (Qltb b0 a0); assumption. Qed.
  Lemma qmax_scale a a0 b b0 : a == k * a0 -> b == k * b0 -> qmax a b == k * qmax a0 b0.
  Proof. intros Ha Hb. unfold qmax. rewrite (Qltb_scale' _ _ _ _ Ha Hb). destruct (Qltb a0 b0); assumption. Qed.
  Lemma qabs_scale a a0 : a == k * a0 -> qabs a == k * qabs a0.
  Proof.
    intros Ha. unfold qabs. assert (Z0 : 0 == k * 0) by ring. rewrite (Qltb_scale' _ _ _ _ Ha Z0).
    destruct (Qltb a0 0); [rewrite Ha; ring|exact Ha].
  Qed.

  Definition sb (b : box) : box := (k * bx0 b, k * by0 b, k * bx1 b, k * by1 b).
  Lemma sb_x0 b : bx0 (sb b) = k * bx0 b. Proof. reflexivity. Qed.
  Lemma sb_y0 b : by0 (sb b) = k * by0 b. Proof. reflexivity. Qed.
  Lemma sb_x1 b : bx1 (sb b) = k * bx1 b. Proof. reflexivity. Qed.
  Lemma sb_y1 b : by1 (sb b) = k * by1 b. Proof. reflexivity. Qed.
  Lemma width_scale b : width (sb b) == k * width b.
  Proof. unfold width. rewrite sb_x0, sb_x1. ring. Qed.
  Lemma height_scale b : height (sb b) == k * height b.
  Proof. unfold height. rewrite sb_y0, sb_y1. ring. Qed.

  Lemma is_hoverlap_scale a b : is_hoverlap (sb a) (sb b) = is_hoverlap a b.
  Proof. unfold is_hoverlap. rewrite !sb_x0, !sb_x1, !Qle_bool_scale. reflexivity. Qed.
  Lemma is_voverlap_scale a b : is_voverlap (sb a) (sb b) = is_voverlap a b.
  Proof. unfold is_voverlap. rewrite !sb_y0, !sb_y1, !Qle_bool_scale. reflexivity. Qed.
  Lemma hgap_scale a b : hgap (sb a) (sb b) == k * hgap a b.
  Proof. unfold hgap. rewrite !sb_x0, !sb_x1. apply qmin_scale; apply qabs_scale; ring. Qed.
  Lemma vgap_scale a b : vgap (sb a) (sb b) == k * vgap a b.
  Proof. unfold vgap. rewrite !sb_y0, !sb_y1. apply qmin_scale; apply qabs_scale; ring. Qed.
  Lemma hdistance_scale a b : hdistance (sb a) (sb b) == k * hdistance a b.
  Proof. unfold hdistance. rewrite is_hoverlap_scale. destruct (is_hoverlap a b); [ring|apply hgap_scale]. Qed.
  Lemma hoverlap_scale a b : hoverlap (sb a) (sb b) == k * hoverlap a b.
  Proof. unfold hoverlap. rewrite is_hoverlap_scale. destruct (is_hoverlap a b); [apply hgap_scale|ring]. Qed.
  Lemma vdistance_scale a b : vdistance (sb a) (sb b) == k * vdistance a b.
  Proof. unfold vdistance. rewrite is_voverlap_scale. destruct (is_voverlap a b); [ring|apply vgap_scale]. Qed.
  Lemma voverlap_scale a b : voverlap (sb a) (sb b) == k * voverlap a b.
  Proof. unfold voverlap. rewrite is_voverlap_scale. destruct (is_voverlap a b); [apply vgap_scale|ring]. Qed.

  (* the alignment tests do not see the scale *)
  Theorem halign_scale p a b : halign p (sb a) (sb b) = halign p a b.
  Proof.
    unfold halign. rewrite is_voverlap_scale. f_equal; [f_equal|].
    - apply Qltb_scale'; [|apply voverlap_scale].
      rewrite (qmin_scale _ _ _ _ (height_scale a) (height_scale b)). ring.
    - apply Qltb_scale'; [apply hdistance_scale|].
      rewrite (qmax_scale _ _ _ _ (width_scale a) (width_scale b)). ring.
  Qed.
  Theorem valign_scale p a b : valign p (sb a) (sb b) = valign p a b.
  Proof.
    unfold valign. rewrite is_hoverlap_scale. f_equal; [f_equal|].
    - apply Qltb_scale'; [|apply hoverlap_scale].
      rewrite (qmin_scale _ _ _ _ (width_scale a) (width_scale b)). ring.
    - apply Qltb_scale'; [apply vdistance_scale|].
      rewrite (qmax_scale _ _ _ _ (height_scale a) (height_scale b)). ring.
  Qed.

  Definition sg (g : glyph) : glyph := mkG (gid g) (sb (gbox g)) (gtext g).
  Definition se (e : elem) : elem := match e with EChar g => EChar (sg g) | EAnno t => EAnno t end.
  Definition sl (l : line) : line :=
    mkLine (lori l) (map se (lelems l)) (option_map sb (lbox l)) (option_map (Qmult k) (llast l)).

  Lemma needs_space_scale p l g : needs_space p (sl l) (sg g) = needs_space p l g.
  Proof.
    unfold needs_space. cbn [sl sg gbox lori llast]. f_equal.
    assert (M : word_margin p * qmax (width (sb (gbox g))) (height (sb (gbox g))) ==
                k * (word_margin p * qmax (width (gbox g)) (height (gbox g)))).
    { rewrite (qmax_scale _ _ _ _ (width_scale (gbox g)) (height_scale (gbox g))). ring. }
    destruct (lori l); destruct (llast l) as [x|]; cbn [option_map]; try reflexivity.
    - apply Qltb_scale'; [reflexivity|]. rewrite sb_x0, M. ring.
    - apply Qltb_scale'; [|reflexivity]. rewrite sb_y1, M. ring.
  Qed.

  Lemma union_box_scale c o : union_box (option_map sb c) (sb o) = sb (union_box c o).
  Proof.
    destruct o as [[[ox0 oy0] ox1] oy1]. destruct c as [[[[cx0 cy0] cx1] cy1]|]; [|reflexivity].
    cbn [option_map union_box sb bx0 by0 bx1 by1]. unfold qmin, qmax. rewrite !Qltb_scale.
    destruct (Qltb ox0 cx0), (Qltb oy0 cy0), (Qltb cx1 ox1), (Qltb cy1 oy1); reflexivity.
  Qed.

  Lemma line_add_scale p l g : line_add p (sl l) (sg g) = sl (line_add p l g).
  Proof.
    unfold line_add. rewrite needs_space_scale. unfold sl at 2. cbn [lori lelems lbox llast].
    unfold sl. cbn [lori lelems lbox llast option_map]. f_equal.
    - rewrite !map_app. destruct (needs_space p l g); reflexivity.
    - f_equal. apply union_box_scale.
    - destruct (lori l); reflexivity.
  Qed.

  Lemma new_line_scale o : sl (new_line o) = new_line o.
  Proof. reflexivity. Qed.

  Lemma go_loop_scale p : forall rest obj0 cur,
    go_loop p (sg obj0) (option_map sl cur) (map sg rest) = map sl (go_loop p obj0 cur rest).
  Proof.
    induction rest as [|obj1 r IH]; intros obj0 cur.
    - cbn [map go_loop]. destruct cur as [l|]; cbn [option_map map]; [reflexivity|].
      rewrite <- (new_line_scale OH), line_add_scale. reflexivity.
    - cbn [map go_loop]. cbn [sg gbox]. rewrite halign_scale, valign_scale.
      destruct cur as [l|]; cbn [option_map].
      + assert (Hh : is_h (sl l) = is_h l) by reflexivity. rewrite Hh.
        destruct ((halign p (gbox obj0) (gbox obj1) && is_h l) || (valign p (gbox obj0) (gbox obj1) && negb (is_h l))).
        * rewrite <- (IH obj1 (Some (line_add p l obj1))). cbn [option_map]. rewrite <- line_add_scale. reflexivity.
        * cbn [map]. f_equal. exact (IH obj1 None).
      + destruct (valign p (gbox obj0) (gbox obj1) && negb (halign p (gbox obj0) (gbox obj1))).
        * rewrite <- (IH obj1 (Some (line_add p (line_add p (new_line OV) obj0) obj1))). cbn [option_map].
          rewrite <- !line_add_scale, new_line_scale. reflexivity.
        * destruct (halign p (gbox obj0) (gbox obj1) && negb (valign p (gbox obj0) (gbox obj1))).
          -- rewrite <- (IH obj1 (Some (line_add p (line_add p (new_line OH) obj0) obj1))). cbn [option_map].
             rewrite <- !line_add_scale, new_line_scale. reflexivity.
          -- cbn [map]. f_equal; [rewrite <- line_add_scale, new_line_scale; reflexivity|exact (IH obj1 None)].
  Qed.

  (* multiplying every coordinate by k > 0 (in particular by a power of two) changes nothing in the grouping of
     glyphs into lines or in the inserted spaces: the result is the original result, scaled *)
  Theorem group_objects_scale p gs : group_objects p (map sg gs) = map sl (group_objects p gs).
  Proof.
    destruct gs as [|g r]; [reflexivity|]. unfold group_objects. cbn [map].
    exact (go_loop_scale p r g None).
  Qed.
End Scale.

(* ---------- the documented thresholds --------------------------------------------------------------------------- *)
(* two glyphs are horizontally aligned exactly when their boxes overlap vertically by MORE than line_overlap times
   the smaller height and are closer than char_margin times the larger width *)
Theorem halign_rule p a b :
  halign p a b = true <->
  is_voverlap a b = true /\ qmin (height a) (height b) * line_overlap p < voverlap a b /\
  hdistance a b < qmax (width a) (width b) * char_margin p.
Proof.
  unfold halign. rewrite !andb_true_iff, !Qltb_lt. tauto.
Qed.
Theorem valign_rule p a b :
  valign p a b = true <->
  detect_vertical p = true /\ is_hoverlap a b = true /\ qmin (width a) (width b) * line_overlap p < hoverlap a b /\
  vdistance a b < qmax (height a) (height b) * char_margin p.
Proof.
  unfold valign. rewrite !andb_true_iff, !Qltb_lt. tauto.
Qed.

(* consecutive glyphs are joined into the running horizontal line exactly when they are horizontally aligned *)
Theorem joined_iff_aligned p g0 g1 l r : is_h l = true ->
  go_loop p g0 (Some l) (g1 :: r) =
    if halign p (gbox g0) (gbox g1) then go_loop p g1 (Some (line_add p l g1)) r else l :: go_loop p g1 None r.
Proof.
  intros Hh. cbn [go_loop]. rewrite Hh. cbn [negb]. rewrite andb_true_r, andb_false_r, orb_false_r. reflexivity.
Qed.
(* a fresh pair starts a horizontal line exactly when aligned (vertical detection off) *)
Theorem pair_joined_iff p g0 g1 r : detect_vertical p = false ->
  go_loop p g0 None (g1 :: r) =
    if halign p (gbox g0) (gbox g1) then go_loop p g1 (Some (line_add p (line_add p (new_line OH) g0) g1)) r
    else line_add p (new_line OH) g0 :: go_loop p g1 None r.
Proof.
  intros Hd. cbn [go_loop]. unfold valign. rewrite Hd. cbn [andb negb]. rewrite andb_true_r. reflexivity.
Qed.

(* a space is inserted exactly when the gap to the previous glyph exceeds word_margin times the larger side of the
   new glyph (and word_margin is not 0) *)
Theorem space_rule p l g x1 : lori l = OH -> llast l = Some x1 ->
  needs_space p l g = true <->
  ~ word_margin p == 0 /\ x1 < bx0 (gbox g) - word_margin p * qmax (width (gbox g)) (height (gbox g)).
Proof.
  intros Ho Hl. unfold needs_space. rewrite Ho, Hl. rewrite andb_true_iff, Qltb_lt. unfold nonzero.
  rewrite negb_true_iff. split.
  - intros [A B]. split; [|exact B]. intros E. apply Qeq_bool_iff in E. congruence.
  - intros [A B]. split; [|exact B]. destruct (Qeq_bool (word_margin p) 0) eqn:E; [|reflexivity].
    apply Qeq_bool_iff in E. contradiction.
Qed.
Theorem first_glyph_no_space p o g : needs_space p (new_line o) g = false.
Proof. unfold needs_space, new_line. cbn [lori llast]. destruct o; apply andb_false_r. Qed.
