(* Lemmas about Model/TrueType.v: the dictionary, format-4 segments (delta and range-offset), the order of
   segments (last covering segment wins), big-endian arrays read back from the bytes a writer puts there, and the
   inversion of the character -> glyph dictionary. *)
From Coq Require Import ZArith List Bool Lia ZifyBool.
From PdfV Require Import Model.Fonts Model.CMaps Model.TrueType.
Import ListNotations.
Open Scope Z_scope.

(* ---------- the dictionary -------------------------------------------------------------------------------- *)
Lemma dget_dset k v d k' : dget (dset k v d) k' = if k' =? k then Some v else dget d k'.
Proof.
  unfold dget. induction d as [|[a b] r IH]; cbn [dset zassoc].
  - reflexivity.
  - destruct (k =? a) eqn:Hka.
    + apply Z.eqb_eq in Hka; subst a. cbn [zassoc]. destruct (k' =? k); reflexivity.
    + cbn [zassoc]. destruct (k' =? a) eqn:Hk'a.
      * apply Z.eqb_eq in Hk'a; subst a. rewrite Z.eqb_sym, Hka. reflexivity.
      * exact IH.
Qed.

Lemma fold_zseq_get (F : Z -> Z) n : forall start d c,
  dget (fold_left (fun d c => dset c (F c) d) (zseq start n) d) c =
  if (start <=? c) && (c <? start + Z.of_nat n) then Some (F c) else dget d c.
Proof.
  induction n as [|n IH]; intros start d c; cbn [zseq fold_left].
  - replace ((start <=? c) && (c <? start + Z.of_nat 0)) with false by lia. reflexivity.
  - rewrite IH, dget_dset.
    destruct (c =? start) eqn:E.
    + apply Z.eqb_eq in E; subst c.
      replace ((start + 1 <=? start) && (start <? start + 1 + Z.of_nat n)) with false by lia.
      replace ((start <=? start) && (start <? start + Z.of_nat (S n))) with true by lia. reflexivity.
    + apply Z.eqb_neq in E.
      destruct ((start + 1 <=? c) && (c <? start + 1 + Z.of_nat n)) eqn:A.
      * replace ((start <=? c) && (c <? start + Z.of_nat (S n))) with true by lia. reflexivity.
      * replace ((start <=? c) && (c <? start + Z.of_nat (S n))) with false by lia. reflexivity.
Qed.

Definition covers (sc ec c : Z) : bool := (sc <=? c) && (c <=? ec).

(* a segment without idRangeOffset assigns (c + idDelta) mod 65536 to exactly the characters sc..ec *)
Lemma seg_delta_get sc ec idd d c :
  dget (seg_delta sc ec idd d) c = if covers sc ec c then Some ((c + idd) mod 65536) else dget d c.
Proof.
  unfold seg_delta, pyrange, covers.
  rewrite (fold_zseq_get (fun c => (c + idd) mod 65536)).
  destruct (Z_le_gt_dec sc (ec + 1)).
  - rewrite Z2Nat.id by lia.
    replace (c <? sc + (ec + 1 - sc)) with (c <=? ec) by lia. reflexivity.
  - replace (Z.to_nat (ec + 1 - sc)) with O by lia.
    replace ((sc <=? c) && (c <? sc + Z.of_nat 0)) with false by lia.
    replace ((sc <=? c) && (c <=? ec)) with false by lia. reflexivity.
Qed.

(* a segment with idRangeOffset: the k-th character gets the k-th glyph index of the array, plus idDelta unless 0 *)
Lemma seg_glyphs_get idd : forall gl start d c,
  dget (seg_glyphs (zseq start (length gl)) gl idd d) c =
  if (start <=? c) && (c <? start + Z.of_nat (length gl))
  then Some (glyph_of (nth (Z.to_nat (c - start)) gl 0) idd) else dget d c.
Proof.
  induction gl as [|b gl IH]; intros start d c; cbn [length zseq seg_glyphs].
  - replace ((start <=? c) && (c <? start + Z.of_nat 0)) with false by lia. reflexivity.
  - rewrite IH, dget_dset.
    destruct (c =? start) eqn:E.
    + apply Z.eqb_eq in E; subst c.
      replace ((start + 1 <=? start) && (start <? start + 1 + Z.of_nat (length gl))) with false by lia.
      replace ((start <=? start) && (start <? start + Z.of_nat (S (length gl)))) with true by lia.
      replace (Z.to_nat (start - start)) with O by lia. reflexivity.
    + apply Z.eqb_neq in E.
      destruct ((start + 1 <=? c) && (c <? start + 1 + Z.of_nat (length gl))) eqn:A.
      * replace ((start <=? c) && (c <? start + Z.of_nat (S (length gl)))) with true by lia.
        replace (Z.to_nat (c - start)) with (S (Z.to_nat (c - (start + 1)))) by lia. reflexivity.
      * replace ((start <=? c) && (c <? start + Z.of_nat (S (length gl)))) with false by lia. reflexivity.
Qed.

(* ---------- segments in order: the last covering segment wins -------------------------------------------- *)
Inductive seg := SDelta (sc ec idd : Z) | SGlyphs (sc : Z) (gl : list Z) (idd : Z).
Definition seg_apply (d : zdict) (s : seg) : zdict :=
  match s with
  | SDelta sc ec idd => seg_delta sc ec idd d
  | SGlyphs sc gl idd => seg_glyphs (zseq sc (length gl)) gl idd d
  end.
(* the glyph a segment gives a character, None when the segment does not cover it *)
Definition seg_val (s : seg) (c : Z) : option Z :=
  match s with
  | SDelta sc ec idd => if covers sc ec c then Some ((c + idd) mod 65536) else None
  | SGlyphs sc gl idd =>
      if (sc <=? c) && (c <? sc + Z.of_nat (length gl)) then Some (glyph_of (nth (Z.to_nat (c - sc)) gl 0) idd) else None
  end.
Fixpoint segs_val (segs : list seg) (c : Z) (acc : option Z) : option Z :=
  match segs with
  | [] => acc
  | s :: r => segs_val r c (match seg_val s c with Some v => Some v | None => acc end)
  end.

Lemma seg_apply_get s d c : dget (seg_apply d s) c = match seg_val s c with Some v => Some v | None => dget d c end.
Proof.
  destruct s as [sc ec idd|sc gl idd]; cbn [seg_apply seg_val].
  - rewrite seg_delta_get. destruct (covers sc ec c); reflexivity.
  - rewrite seg_glyphs_get. destruct ((sc <=? c) && (c <? sc + Z.of_nat (length gl))); reflexivity.
Qed.

Lemma segs_get segs : forall d c, dget (fold_left seg_apply segs d) c = segs_val segs c (dget d c).
Proof.
  induction segs as [|s r IH]; intros d c; cbn [fold_left segs_val].
  - reflexivity.
  - rewrite IH, seg_apply_get. reflexivity.
Qed.

(* the segments the reader sees: those with a range offset take their glyph array from the bytes *)
Fixpoint segs_of (f : list Z) (pos i : Z) (ecs scs idds idrs : list Z) : option (list seg) :=
  match ecs, scs, idds, idrs with
  | ec :: ecs', sc :: scs', idd :: idds', idr :: idrs' =>
      let s := if idr =? 0 then Some (SDelta sc ec (s16 idd))
               else match u16s_at f (pos + 2 * i + idr) (length (pyrange sc (ec + 1))) with
                    | Some gl => Some (SGlyphs sc gl (s16 idd))
                    | None => None
                    end in
      match s, segs_of f pos (i + 1) ecs' scs' idds' idrs' with
      | Some s1, Some r => Some (s1 :: r)
      | _, _ => None
      end
  | _, _, _, _ => Some []
  end.

Lemma pairs_be_length : forall n bs, length bs = (2 * n)%nat -> length (pairs_be bs) = n.
Proof.
  induction n as [|n IH]; intros bs H.
  - destruct bs; [reflexivity | discriminate].
  - destruct bs as [|a [|b r]]; try (cbn in H; lia).
    cbn [pairs_be length]. f_equal. apply IH. cbn in H. lia.
Qed.

Lemma take_at_length f pos n r : take_at f pos n = Some r -> length r = n.
Proof.
  unfold take_at. destruct (pos <? 0); [discriminate|].
  destruct (Z.of_nat (length f) <? pos).
  - destruct n; [intros H; inversion H; reflexivity | discriminate].
  - destruct (Nat.eqb (length (firstn n (skipn (Z.to_nat pos) f))) n) eqn:E; [|discriminate].
    intros H; inversion H; subst r. apply Nat.eqb_eq. exact E.
Qed.

Lemma u16s_at_length f pos n gl : u16s_at f pos n = Some gl -> length gl = n.
Proof.
  unfold u16s_at. destruct (take_at f pos (2 * n)) as [bs|] eqn:E; [|discriminate].
  intros H; inversion H; subst gl. apply pairs_be_length. eapply take_at_length; exact E.
Qed.

Lemma zseq_length : forall n s, length (zseq s n) = n.
Proof. induction n as [|n IH]; intros s; cbn [zseq length]; [reflexivity | rewrite IH; reflexivity]. Qed.

(* when every glyph array is inside the program, the format-4 loop is the fold of seg_apply over those segments *)
Lemma fmt4_segs_fold f pos : forall ecs scs idds idrs i d,
  fmt4_segs f pos i ecs scs idds idrs d =
  match segs_of f pos i ecs scs idds idrs with
  | Some segs => Some (fold_left seg_apply segs d)
  | None => None
  end \/ (segs_of f pos i ecs scs idds idrs = None /\ fmt4_segs f pos i ecs scs idds idrs d = None).
Proof.
  induction ecs as [|ec ecs IH]; intros scs idds idrs i d.
  - left. reflexivity.
  - destruct scs as [|sc scs]; [left; reflexivity|].
    destruct idds as [|idd idds]; [left; reflexivity|].
    destruct idrs as [|idr idrs]; [left; reflexivity|].
    cbn [fmt4_segs segs_of].
    destruct (idr =? 0) eqn:Hr.
    + destruct (IH scs idds idrs (i + 1) (seg_delta sc ec (s16 idd) d)) as [H|[H1 H2]].
      * left. rewrite H. destruct (segs_of f pos (i + 1) ecs scs idds idrs); reflexivity.
      * right. rewrite H1, H2. split; reflexivity.
    + unfold seg_range.
      destruct (u16s_at f (pos + 2 * i + idr) (length (pyrange sc (ec + 1)))) as [gl|] eqn:Hg.
      * assert (Hl : length gl = length (pyrange sc (ec + 1))) by (eapply u16s_at_length; exact Hg).
        assert (Hp : pyrange sc (ec + 1) = zseq sc (length gl)).
        { unfold pyrange in *. rewrite zseq_length in Hl. rewrite Hl. reflexivity. }
        destruct (IH scs idds idrs (i + 1) (seg_glyphs (pyrange sc (ec + 1)) gl (s16 idd) d)) as [H|[H1 H2]].
        -- left. rewrite H. destruct (segs_of f pos (i + 1) ecs scs idds idrs); [|reflexivity].
           cbn [fold_left seg_apply]. rewrite Hp. reflexivity.
        -- right. rewrite H1, H2. split; reflexivity.
      * right. split; reflexivity.
Qed.

Lemma fmt4_segs_spec f pos ecs scs idds idrs d d' c :
  fmt4_segs f pos 0 ecs scs idds idrs d = Some d' ->
  exists segs, segs_of f pos 0 ecs scs idds idrs = Some segs /\ dget d' c = segs_val segs c (dget d c).
Proof.
  intros H. destruct (fmt4_segs_fold f pos ecs scs idds idrs 0 d) as [E|[_ E]].
  - rewrite H in E. destruct (segs_of f pos 0 ecs scs idds idrs) as [segs|]; [|discriminate].
    exists segs. split; [reflexivity|]. inversion E; subst d'. apply segs_get.
  - rewrite H in E. discriminate.
Qed.

(* ---------- big-endian arrays: what a writer puts is what the reader takes ------------------------------- *)
Definition be16 (v : Z) : list Z := [v / 256; v mod 256].
Definition is_u16 (v : Z) : bool := (0 <=? v) && (v <? 65536).

Lemma pairs_be_be16 l : forallb is_u16 l = true -> pairs_be (flat_map be16 l) = l.
Proof.
  induction l as [|v l IH]; intros H; cbn [flat_map be16 app pairs_be].
  - reflexivity.
  - cbn [forallb] in H. apply andb_true_iff in H. destruct H as [Hv Hl].
    rewrite IH by exact Hl. f_equal. unfold is_u16 in Hv.
    pose proof (Z.div_mod v 256). lia.
Qed.

Lemma flat_map_be16_length l : length (flat_map be16 l) = (2 * length l)%nat.
Proof. induction l as [|v l IH]; cbn [flat_map be16 app length]; [reflexivity | rewrite IH; lia]. Qed.

Lemma take_at_app pre x post : take_at (pre ++ x ++ post) (Z.of_nat (length pre)) (length x) = Some x.
Proof.
  unfold take_at.
  replace (Z.of_nat (length pre) <? 0) with false by lia.
  rewrite !app_length.
  replace (Z.of_nat (length pre + (length x + length post)) <? Z.of_nat (length pre)) with false by lia.
  rewrite Nat2Z.id, skipn_app, skipn_all, Nat.sub_diag. cbn [app skipn].
  rewrite firstn_app, Nat.sub_diag, firstn_all. cbn [firstn]. rewrite app_nil_r, Nat.eqb_refl. reflexivity.
Qed.

(* an array of 16-bit numbers written big-endian anywhere in a program is read back as written *)
Lemma u16s_at_written pre l post : forallb is_u16 l = true ->
  u16s_at (pre ++ flat_map be16 l ++ post) (Z.of_nat (length pre)) (length l) = Some l.
Proof.
  intros H. unfold u16s_at.
  rewrite <- flat_map_be16_length, take_at_app, pairs_be_be16 by exact H. reflexivity.
Qed.

(* ---------- inversion: cid2unichr ------------------------------------------------------------------------- *)
Lemma invert_step_get m c g0 g u :
  umap_get (invert_step m (c, g0)) g = Some u -> umap_get m g = Some u \/ (g = g0 /\ u = [c]).
Proof.
  unfold invert_step.
  destruct ((c =? 160) && match umap_get m g0 with Some [32] => true | _ => false end).
  - intros H; left; exact H.
  - unfold umap_get. cbn [zassoc]. destruct (g =? g0) eqn:E.
    + intros H; inversion H. right. apply Z.eqb_eq in E. split; [exact E | reflexivity].
    + intros H; left; exact H.
Qed.

Lemma invert_sound_gen d : forall m g u,
  umap_get (fold_left invert_step d m) g = Some u ->
  umap_get m g = Some u \/ exists c, In (c, g) d /\ u = [c].
Proof.
  induction d as [|[c g0] r IH]; intros m g u H; cbn [fold_left] in H.
  - left; exact H.
  - destruct (IH _ _ _ H) as [H1|[c' [Hin Hu]]].
    + destruct (invert_step_get _ _ _ _ _ H1) as [H2|[Hg Hu]].
      * left; exact H2.
      * right. exists c. subst g. split; [left; reflexivity | exact Hu].
    + right. exists c'. split; [right; exact Hin | exact Hu].
Qed.

(* every (glyph, text) the map reports is an entry of the character -> glyph dictionary *)
Lemma invert_sound d g u : umap_get (invert d) g = Some u -> exists c, In (c, g) d /\ u = [c].
Proof.
  intros H. destruct (invert_sound_gen d [] g u H) as [H1|H1]; [discriminate | exact H1].
Qed.

Lemma invert_step_keeps m e g : umap_get m g <> None -> umap_get (invert_step m e) g <> None.
Proof.
  destruct e as [c g0]. unfold invert_step.
  destruct ((c =? 160) && match umap_get m g0 with Some [32] => true | _ => false end); [auto|].
  unfold umap_get. cbn [zassoc]. destruct (g =? g0); [discriminate | auto].
Qed.

Lemma invert_step_puts m c g : umap_get (invert_step m (c, g)) g <> None.
Proof.
  unfold invert_step.
  destruct ((c =? 160) && match umap_get m g with Some [32] => true | _ => false end) eqn:E.
  - apply andb_true_iff in E. destruct E as [_ E]. destruct (umap_get m g); [discriminate | discriminate].
  - unfold umap_get. cbn [zassoc]. rewrite Z.eqb_refl. discriminate.
Qed.

Lemma fold_keeps d : forall m g, umap_get m g <> None -> umap_get (fold_left invert_step d m) g <> None.
Proof.
  induction d as [|e r IH]; intros m g H; cbn [fold_left]; [exact H|].
  apply IH. apply invert_step_keeps. exact H.
Qed.

(* every glyph some character is mapped to has a text *)
Lemma invert_complete d : forall m c g, In (c, g) d -> umap_get (fold_left invert_step d m) g <> None.
Proof.
  induction d as [|e r IH]; intros m c g Hin; [destruct Hin|].
  cbn [fold_left]. destruct Hin as [He|Hin].
  - subst e. apply fold_keeps. apply invert_step_puts.
  - eapply IH. exact Hin.
Qed.

(* a glyph reached from a single character (not U+00A0) gets that character *)
Lemma invert_unique d c g :
  In (c, g) d -> (forall c', In (c', g) d -> c' = c) -> umap_get (invert d) g = Some [c].
Proof.
  intros Hin Hu.
  destruct (umap_get (invert d) g) as [u|] eqn:E.
  - destruct (invert_sound d g u E) as [c' [Hin' Hu']]. subst u. rewrite (Hu c' Hin'). reflexivity.
  - exfalso. exact (invert_complete d [] c g Hin E).
Qed.

(* ---------- the byte layout of a format-4 subtable --------------------------------------------------------- *)
Lemma u16s_at_mid a l b pos n :
  pos = Z.of_nat (length a) -> n = length l -> forallb is_u16 l = true ->
  u16s_at (a ++ flat_map be16 l ++ b) pos n = Some l.
Proof. intros -> -> H. apply u16s_at_written. exact H. Qed.

Lemma u16_at_mid a v b pos : pos = Z.of_nat (length a) -> is_u16 v = true -> u16_at (a ++ be16 v ++ b) pos = Some v.
Proof.
  intros -> H. unfold u16_at.
  change 2%nat with (length (be16 v)). rewrite take_at_app. cbn [be16].
  f_equal. unfold is_u16 in H. pose proof (Z.div_mod v 256). lia.
Qed.

(* the body of a format-4 subtable as a writer lays it out: segCountX2, three search fields, end codes, a reserved
   word, start codes, deltas, range offsets, then the glyph arrays and whatever follows *)
Definition fmt4_body (x1 x2 x3 pad : Z) (ecs scs idds idrs : list Z) (tail : list Z) : list Z :=
  (be16 (2 * Z.of_nat (length ecs)) ++ be16 x1 ++ be16 x2 ++ be16 x3) ++ flat_map be16 ecs ++ be16 pad ++
  flat_map be16 scs ++ flat_map be16 idds ++ flat_map be16 idrs ++ tail.

Lemma fmt4_layout pre x1 x2 x3 pad ecs scs idds idrs tail d :
  length scs = length ecs -> length idds = length ecs -> length idrs = length ecs ->
  forallb is_u16 ecs = true -> forallb is_u16 scs = true -> forallb is_u16 idds = true -> forallb is_u16 idrs = true ->
  2 * Z.of_nat (length ecs) < 65536 ->
  let f := pre ++ fmt4_body x1 x2 x3 pad ecs scs idds idrs tail in
  let p := Z.of_nat (length pre) in
  fmt4 f p d = fmt4_segs f (p + 8 + 6 * Z.of_nat (length ecs) + 2) 0 ecs scs idds idrs d.
Proof.
  intros Hs Hd Hr He Hsc Hdd Hrr Hn f p.
  set (n := length ecs) in *.
  set (H := be16 (2 * Z.of_nat n) ++ be16 x1 ++ be16 x2 ++ be16 x3).
  set (E := flat_map be16 ecs). set (S := flat_map be16 scs). set (D := flat_map be16 idds). set (R := flat_map be16 idrs).
  assert (LH : length H = 8%nat) by reflexivity.
  assert (LE : length E = (2 * n)%nat) by (unfold E, n; apply flat_map_be16_length).
  assert (LS : length S = (2 * n)%nat) by (unfold S; rewrite flat_map_be16_length, Hs; reflexivity).
  assert (LD : length D = (2 * n)%nat) by (unfold D; rewrite flat_map_be16_length, Hd; reflexivity).
  assert (Hf : f = pre ++ H ++ E ++ be16 pad ++ S ++ D ++ R ++ tail).
  { unfold f, fmt4_body. fold n H E S D R. rewrite <- ?app_assoc. reflexivity. }
  unfold fmt4.
  (* segCountX2 *)
  assert (U0 : u16_at f p = Some (2 * Z.of_nat n)).
  { rewrite Hf. unfold H. rewrite <- !app_assoc. apply u16_at_mid; [reflexivity | unfold is_u16; lia]. }
  assert (T0 : take_at f p 8 = Some H).
  { rewrite Hf. change 8%nat with (length H). apply take_at_app. }
  rewrite U0, T0.
  replace (Z.to_nat (2 * Z.of_nat n / 2)) with n by (rewrite Z.mul_comm, Z.div_mul by lia; lia).
  assert (A1 : u16s_at f (p + 8) n = Some ecs).
  { rewrite Hf. rewrite (app_assoc pre H). apply u16s_at_mid; [rewrite app_length; lia | reflexivity | exact He]. }
  assert (A2 : u16s_at f (p + 8 + 2 * Z.of_nat n + 2) n = Some scs).
  { rewrite Hf.
    replace (pre ++ H ++ E ++ be16 pad ++ S ++ D ++ R ++ tail) with ((pre ++ H ++ E ++ be16 pad) ++ S ++ D ++ R ++ tail)
      by (rewrite <- !app_assoc; reflexivity).
    apply u16s_at_mid; [rewrite !app_length; cbn [be16 length]; lia | symmetry; exact Hs | exact Hsc]. }
  assert (A3 : u16s_at f (p + 8 + 2 * (2 * Z.of_nat n) + 2) n = Some idds).
  { rewrite Hf.
    replace (pre ++ H ++ E ++ be16 pad ++ S ++ D ++ R ++ tail) with ((pre ++ H ++ E ++ be16 pad ++ S) ++ D ++ R ++ tail)
      by (rewrite <- !app_assoc; reflexivity).
    apply u16s_at_mid; [rewrite !app_length; cbn [be16 length]; lia | symmetry; exact Hd | exact Hdd]. }
  assert (A4 : u16s_at f (p + 8 + 3 * (2 * Z.of_nat n) + 2) n = Some idrs).
  { rewrite Hf.
    replace (pre ++ H ++ E ++ be16 pad ++ S ++ D ++ R ++ tail) with ((pre ++ H ++ E ++ be16 pad ++ S ++ D) ++ R ++ tail)
      by (rewrite <- !app_assoc; reflexivity).
    apply u16s_at_mid; [rewrite !app_length; cbn [be16 length]; lia | symmetry; exact Hr | exact Hrr]. }
  rewrite A1, A2, A3, A4.
  replace (p + 8 + 3 * (2 * Z.of_nat n) + 2) with (p + 8 + 6 * Z.of_nat n + 2) by lia. reflexivity.
Qed.
