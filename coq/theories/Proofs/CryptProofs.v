(* C10: the standard security handler. *)
From Coq Require Import ZArith List Bool Lia.
From PdfV Require Import Model.Crypt.
Import ListNotations.
Open Scope Z_scope.

(* ---------- RC4 is an involution, for every key ------------------------------------------------------------ *)
Lemma prga_length : forall n s i j, length (prga s i j n) = n.
Proof. induction n as [|n IH]; intros s i j; [reflexivity|]. cbn [prga length]. rewrite IH. reflexivity. Qed.

Lemma xor_bytes_length : forall a b, length (xor_bytes a b) = Nat.min (length a) (length b).
Proof.
  induction a as [|x a IH]; intros [|y b]; try reflexivity. cbn [xor_bytes length Nat.min]. rewrite IH. reflexivity.
Qed.

Lemma xor_twice : forall d k, length k = length d -> xor_bytes (xor_bytes d k) k = d.
Proof.
  induction d as [|x d IH]; intros [|y k] H; try reflexivity; try discriminate.
  cbn [xor_bytes]. rewrite Z.lxor_assoc, Z.lxor_nilpotent, Z.lxor_0_r. f_equal. apply IH. cbn in H. lia.
Qed.

Theorem rc4_length key d : length (rc4 key d) = length d.
Proof. unfold rc4. rewrite xor_bytes_length, prga_length. apply Nat.min_id. Qed.

Theorem rc4_involution key d : rc4 key (rc4 key d) = d.
Proof.
  unfold rc4 at 1. rewrite rc4_length. unfold rc4. apply xor_twice. apply prga_length.
Qed.

(* ---------- the 20 rounds of Algorithms 3 and 7 cancel --------------------------------------------------- *)
Lemma rounds_up_snoc key : forall n i x,
  rc4_rounds_up key i (S n) x = rc4 (xor_key key (i + Z.of_nat n)) (rc4_rounds_up key i n x).
Proof.
  induction n as [|n IH]; intros i x.
  - cbn [rc4_rounds_up]. rewrite Z.add_0_r. reflexivity.
  - change (rc4_rounds_up key i (S (S n)) x) with (rc4_rounds_up key (i + 1) (S n) (rc4 (xor_key key i) x)).
    rewrite IH. cbn [rc4_rounds_up]. replace (i + 1 + Z.of_nat n) with (i + Z.of_nat (S n)) by lia. reflexivity.
Qed.

Lemma rounds_cancel key : forall n i x,
  rc4_rounds_down key (i + Z.of_nat n - 1) n (rc4_rounds_up key i n x) = x.
Proof.
  induction n as [|n IH]; intros i x; [reflexivity|].
  rewrite rounds_up_snoc. cbn [rc4_rounds_down].
  replace (i + Z.of_nat (S n) - 1) with (i + Z.of_nat n) by lia.
  rewrite rc4_involution. replace (i + Z.of_nat n - 1) with (i + Z.of_nat n - 1) by lia. apply IH.
Qed.

(* ---------- passwords ---------------------------------------------------------------------------------------- *)
Lemma pad32_length pw : length (pad32 pw) = 32%nat.
Proof.
  unfold pad32. rewrite firstn_length, app_length. change (length PADDING) with 32%nat. lia.
Qed.
Lemma pad32_idem pw : pad32 (pad32 pw) = pad32 pw.
Proof.
  unfold pad32 at 1. rewrite firstn_app. rewrite pad32_length. replace (32 - 32)%nat with 0%nat by lia.
  rewrite firstn_O, app_nil_r. apply firstn_all2. rewrite pad32_length. lia.
Qed.

Lemma bytes_eqb_refl a : bytes_eqb a a = true.
Proof. induction a as [|x a IH]; [reflexivity|]. cbn. rewrite Z.eqb_refl, IH. reflexivity. Qed.
Lemma bytes_eqb_eq a : forall b, bytes_eqb a b = true -> a = b.
Proof.
  induction a as [|x a IH]; intros [|y b] H; try reflexivity; try discriminate.
  cbn in H. apply andb_true_iff in H. destruct H as [H1 H2]. apply Z.eqb_eq in H1. subst. f_equal. apply IH. exact H2.
Qed.

Section WithHash.
  Variable md5 : bytes -> bytes.

  Definition with_o (pr : params) (o : bytes) : params :=
    mkParams (revision pr) (keylen pr) (pval pr) o (uval pr) (docid0 pr) (encmeta pr).

  (* Algorithm 7 undoes Algorithm 3: from the O entry the owner password recovers the padded user password *)
  Theorem owner_recovers_user pr owner user :
    owner_recover md5 (with_o pr (spec_compute_o md5 pr owner user)) owner = pad32 user.
  Proof.
    unfold owner_recover, spec_compute_o, with_o, owner_key, nkey. cbn [revision keylen oval].
    destruct (revision pr =? 2).
    - apply rc4_involution.
    - exact (rounds_cancel _ 20 0 (pad32 user)).
  Qed.

  (* the user password opens the document when U was written by Algorithm 4 / 5 *)
  Theorem user_authenticates pr user :
    (if revision pr =? 2 then uval pr = compute_u md5 pr (compute_encryption_key md5 pr user)
     else firstn 16 (uval pr) = firstn 16 (compute_u md5 pr (compute_encryption_key md5 pr user))) ->
    authenticate md5 pr user = Some (compute_encryption_key md5 pr user).
  Proof.
    intros Hu. unfold authenticate, authenticate_user, verify_encryption_key.
    destruct (revision pr =? 2); rewrite Hu, bytes_eqb_refl; reflexivity.
  Qed.

  (* the encryption key depends on the password only through its padded form *)
  Lemma key_of_padded pr pw : compute_encryption_key md5 pr (pad32 pw) = compute_encryption_key md5 pr pw.
  Proof. unfold compute_encryption_key. rewrite pad32_idem. reflexivity. Qed.

  (* the owner password opens the document to the SAME key, when O was written by Algorithm 3 and U by 4 / 5 *)
  Theorem owner_authenticates pr0 owner user :
    let pr := with_o pr0 (spec_compute_o md5 pr0 owner user) in
    (if revision pr =? 2 then uval pr = compute_u md5 pr (compute_encryption_key md5 pr user)
     else firstn 16 (uval pr) = firstn 16 (compute_u md5 pr (compute_encryption_key md5 pr user))) ->
    authenticate_owner md5 pr owner = Some (compute_encryption_key md5 pr user).
  Proof.
    intros pr Hu. unfold authenticate_owner. unfold pr at 2. rewrite owner_recovers_user.
    unfold authenticate_user. rewrite key_of_padded. unfold verify_encryption_key.
    destruct (revision pr =? 2); rewrite Hu, bytes_eqb_refl; reflexivity.
  Qed.

  (* whichever of the two passwords is given, the key is the same *)
  Theorem either_password pr0 owner user :
    let pr := with_o pr0 (spec_compute_o md5 pr0 owner user) in
    (if revision pr =? 2 then uval pr = compute_u md5 pr (compute_encryption_key md5 pr user)
     else firstn 16 (uval pr) = firstn 16 (compute_u md5 pr (compute_encryption_key md5 pr user))) ->
    authenticate md5 pr user = Some (compute_encryption_key md5 pr user) /\
    exists k, authenticate md5 pr owner = Some k /\
              (authenticate_user md5 pr owner = None -> k = compute_encryption_key md5 pr user).
  Proof.
    intros pr Hu. split; [apply user_authenticates; exact Hu|].
    unfold authenticate. destruct (authenticate_user md5 pr owner) as [k|] eqn:E.
    - exists k. split; [reflexivity|discriminate].
    - exists (compute_encryption_key md5 pr user). split; [|reflexivity].
      apply (owner_authenticates pr0 owner user). exact Hu.
  Qed.

  (* a password is accepted only if Algorithm 6 holds for the key it yields: nothing else opens the document *)
  Theorem accepted_only_if_verified pr pw k : authenticate md5 pr pw = Some k ->
    verify_encryption_key md5 pr k = true.
  Proof.
    unfold authenticate, authenticate_owner, authenticate_user. intros H.
    destruct (verify_encryption_key md5 pr (compute_encryption_key md5 pr pw)) eqn:E1.
    - injection H as <-. exact E1.
    - destruct (verify_encryption_key md5 pr (compute_encryption_key md5 pr (owner_recover md5 pr pw))) eqn:E2; [|discriminate].
      injection H as <-. exact E2.
  Qed.

  (* per-object RC4: decrypting what was encrypted for the same object number and generation gives the original *)
  Theorem object_rc4_roundtrip key objid genno data :
    decrypt_rc4 md5 key objid genno (decrypt_rc4 md5 key objid genno data) = data.
  Proof. unfold decrypt_rc4. apply rc4_involution. Qed.
End WithHash.

(* ---------- AES-CBC and padding --------------------------------------------------------------------------------- *)
Section CBCProofs.
  Variable block_dec block_enc : bytes -> bytes -> bytes.
  Hypothesis dec_enc : forall k b, length b = 16%nat -> block_dec k (block_enc k b) = b.
  Hypothesis enc_len : forall k b, length b = 16%nat -> length (block_enc k b) = 16%nat.

  Lemma xor_twice_r p prev : length prev = length p -> xor_bytes (xor_bytes p prev) prev = p.
  Proof. apply xor_twice. Qed.

  Theorem cbc_roundtrip key : forall ps iv, length iv = 16%nat -> Forall (fun p => length p = 16%nat) ps ->
    cbc_decrypt block_dec key iv (cbc_encrypt block_enc key iv ps) = ps.
  Proof.
    induction ps as [|p ps IH]; intros iv Hiv Hps; [reflexivity|].
    inversion Hps as [|? ? Hp Hr]; subst. cbn [cbc_encrypt cbc_decrypt].
    assert (Hx : length (xor_bytes p iv) = 16%nat) by (rewrite xor_bytes_length, Hp, Hiv; reflexivity).
    rewrite dec_enc by exact Hx. rewrite xor_twice_r by congruence. f_equal.
    apply IH; [apply enc_len; exact Hx|exact Hr].
  Qed.
End CBCProofs.

Lemma repeat_snoc {A} (a : A) n : repeat a (S n) = repeat a n ++ [a].
Proof. induction n as [|n IH]; [reflexivity|]. cbn [repeat app] in *. rewrite <- IH. reflexivity. Qed.

(* removing the padding of padded data gives the data: for every length, including multiples of 16 *)
Theorem unpad_pad d : unpad (pkcs_pad d) = d.
Proof.
  unfold pkcs_pad. set (n := 16 - Z.of_nat (length d) mod 16).
  assert (Hn : 1 <= n <= 16) by (unfold n; pose proof (Z.mod_pos_bound (Z.of_nat (length d)) 16 ltac:(lia)); lia).
  unfold unpad.
  destruct (Z.to_nat n) as [|k] eqn:Ek; [lia|].
  rewrite repeat_snoc. rewrite app_assoc, rev_unit.
  replace ((1 <=? n) && (n <=? 16)) with true by (symmetry; apply andb_true_iff; split; apply Z.leb_le; lia).
  rewrite <- app_assoc, <- repeat_snoc. rewrite app_length, repeat_length. rewrite !Ek.
  replace (length d + S k - S k)%nat with (length d) by lia.
  rewrite skipn_app, skipn_all. replace (length d - length d)%nat with 0%nat by lia. cbn [skipn app andb].
  rewrite bytes_eqb_refl. rewrite firstn_app. replace (length d - length d)%nat with 0%nat by lia.
  cbn [firstn]. rewrite app_nil_r. apply firstn_all.
Qed.

(* decrypt_aes on IV ++ CBC(pad(data)) gives data, for any CBC oracle that inverts the writer's encryption *)
Theorem aes_roundtrip (cbc : bytes -> bytes -> bytes -> bytes) key iv ct d :
  length iv = 16%nat -> cbc key iv ct = pkcs_pad d -> decrypt_aes cbc key (iv ++ ct) = d.
Proof.
  intros Hiv Hc. unfold decrypt_aes.
  assert (F : firstn 16 (iv ++ ct) = iv)
    by (rewrite firstn_app, Hiv, Nat.sub_diag, firstn_O, app_nil_r; apply firstn_all2; lia).
  assert (S : skipn 16 (iv ++ ct) = ct)
    by (rewrite skipn_app, Hiv, Nat.sub_diag, (skipn_all2 iv) by lia; reflexivity).
  rewrite F, S, Hc. apply unpad_pad.
Qed.

(* ---------- permissions ------------------------------------------------------------------------------------------ *)
Lemma land_bit p k : 0 <= k -> (Z.land p (2 ^ k) =? 0) = negb (Z.testbit p k).
Proof.
  intros Hk. destruct (Z.testbit p k) eqn:E.
  - cbn [negb]. apply Z.eqb_neq. intros H0.
    assert (T : Z.testbit (Z.land p (2 ^ k)) k = true) by (rewrite Z.land_spec, E, Z.pow2_bits_true by lia; reflexivity).
    rewrite H0 in T. rewrite Z.bits_0 in T. discriminate.
  - cbn [negb]. apply Z.eqb_eq. apply Z.bits_inj'. intros m Hm. rewrite Z.land_spec, Z.bits_0.
    destruct (Z.eq_dec m k) as [->|Hne]; [rewrite E; reflexivity|].
    rewrite Z.pow2_bits_false by lia. apply andb_false_r.
Qed.

Lemma uint32_bits p k : - 2147483648 <= p < 2147483648 -> 0 <= k < 32 -> Z.testbit (uint32 p) k = Z.testbit p k.
Proof.
  intros Hp Hk. unfold uint32. destruct (0 <? p) eqn:E; [reflexivity|].
  rewrite <- (Z.mod_pow2_bits_low (p + 4294967296) 32 k) by lia.
  rewrite <- (Z.mod_pow2_bits_low p 32 k) by lia.
  f_equal. change 4294967296 with (1 * 2 ^ 32). apply Z.mod_add. lia.
Qed.

(* the three permissions are bits 3, 4 and 5 (1-based) of the stored signed P *)
Theorem permissions_as_stored p : - 2147483648 <= p < 2147483648 ->
  is_printable (uint32 p) = Z.testbit p 2 /\ is_modifiable (uint32 p) = Z.testbit p 3 /\ is_extractable (uint32 p) = Z.testbit p 4.
Proof.
  intros Hp. unfold is_printable, is_modifiable, is_extractable.
  change 4 with (2 ^ 2). change 8 with (2 ^ 3). change 16 with (2 ^ 4).
  rewrite !land_bit by lia. rewrite !negb_involutive. rewrite !uint32_bits by lia. repeat split.
Qed.

(* ---------- revisions 5 / 6: which secret is decrypted with which hash --------------------------------------- *)
Theorem auth5_owner pwhash cbc0 pr pw :
  bytes_eqb (pwhash pw (firstn 8 (skipn 32 (o5 pr))) (u5 pr)) (firstn 32 (o5 pr)) = true ->
  authenticate5 pwhash cbc0 pr pw = Some (cbc0 (pwhash pw (skipn 40 (o5 pr)) (u5 pr)) (oe5 pr)).
Proof. intros H. unfold authenticate5. rewrite H. reflexivity. Qed.
Theorem auth5_user pwhash cbc0 pr pw :
  bytes_eqb (pwhash pw (firstn 8 (skipn 32 (o5 pr))) (u5 pr)) (firstn 32 (o5 pr)) = false ->
  bytes_eqb (pwhash pw (firstn 8 (skipn 32 (u5 pr))) []) (firstn 32 (u5 pr)) = true ->
  authenticate5 pwhash cbc0 pr pw = Some (cbc0 (pwhash pw (skipn 40 (u5 pr)) []) (ue5 pr)).
Proof. intros H1 H2. unfold authenticate5. rewrite H1, H2. reflexivity. Qed.
Theorem auth5_reject pwhash cbc0 pr pw :
  bytes_eqb (pwhash pw (firstn 8 (skipn 32 (o5 pr))) (u5 pr)) (firstn 32 (o5 pr)) = false ->
  bytes_eqb (pwhash pw (firstn 8 (skipn 32 (u5 pr))) []) (firstn 32 (u5 pr)) = false ->
  authenticate5 pwhash cbc0 pr pw = None.
Proof. intros H1 H2. unfold authenticate5. rewrite H1, H2. reflexivity. Qed.
