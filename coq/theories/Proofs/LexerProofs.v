(* The chunk layer of Model/Lexer.v (the mirror of the _parse_* methods working
   on read buffers) computes, for EVERY chunking of the data, the state of the
   byte automaton [run] -- and does so within the stated fuel. *)
From Coq Require Import ZArith List Bool Lia.
From PdfV Require Import Gen.LexClasses Model.Lexer.
Import ListNotations.
Open Scope Z_scope.

Lemma lst_ext a b :
  lmode a = lmode b -> cur a = cur b -> tpos a = tpos b -> paren a = paren b ->
  oct a = oct b -> hexb a = hexb b -> toks a = toks b -> apos a = apos b -> a = b.
Proof. destruct a, b; cbn; intros; subst; reflexivity. Qed.

Ltac lst_auto :=
  apply lst_ext; cbn [lmode cur tpos paren oct hexb toks apos set_mode set_cur add_cur set_tpos
                      set_paren set_oct set_hex emit adv end_literal end_lithex end_keyword
                      end_hexstring end_oct len length];
  try reflexivity; try (unfold len; cbn [length]; lia);
  try (rewrite <- ?app_assoc; cbn [app]; reflexivity).

Lemma run_app st a b : run st (a ++ b) = run (run st a) b.
Proof. apply fold_left_app. Qed.

Lemma run_cons st c r : run st (c :: r) = run (step st c) r.
Proof. reflexivity. Qed.

Lemma len_cons c (a : list Z) : len (c :: a) = len a + 1.
Proof. unfold len. cbn [length]. lia. Qed.

Lemma len_nonneg (a : list Z) : 0 <= len a.
Proof. unfold len. lia. Qed.

Lemma span_spec p s : forall a r, span p s = (a, r) ->
  s = a ++ r /\ forallb p a = true /\ match r with [] => True | c :: _ => p c = false end.
Proof.
  induction s as [|c s IH]; intros a r H; cbn in H.
  - inversion H; subst. auto.
  - destruct (p c) eqn:Hp.
    + destruct (span p s) as [a' r'] eqn:Hs. inversion H; subst.
      destruct (IH a' r eq_refl) as (E & F & G). subst s. cbn. rewrite Hp, F. auto.
    + inversion H; subst. cbn. rewrite Hp. auto.
Qed.

(* a mode that appends every byte of class p to the current token *)
Definition accum_mode (m : mode) (p : Z -> bool) : Prop :=
  forall st c, lmode st = m -> p c = true -> step_core st c = add_cur [c] st.

Lemma run_accum m p : accum_mode m p -> forall a st, lmode st = m -> forallb p a = true ->
  run st a = adv (len a) (add_cur a st).
Proof.
  intros Hm a. induction a as [|c a IH]; intros st Hmode Ha.
  - cbn [run fold_left]. lst_auto. symmetry; apply app_nil_r.
  - cbn [forallb] in Ha. apply andb_true_iff in Ha. destruct Ha as [Hc Ha].
    rewrite run_cons. unfold step. rewrite (Hm st c Hmode Hc).
    rewrite IH; [|exact Hmode|exact Ha]. rewrite len_cons. lst_auto.
Qed.

Lemma run_skip_main : forall a st, lmode st = MMain ->
  forallb (fun c => negb (re_NONSPC c)) a = true -> run st a = adv (len a) st.
Proof.
  induction a as [|c a IH]; intros st Hmode Ha.
  - cbn [run fold_left]. lst_auto.
  - cbn [forallb] in Ha. apply andb_true_iff in Ha. destruct Ha as [Hc Ha].
    rewrite run_cons. unfold step, step_core. rewrite Hmode. unfold step_main.
    apply negb_true_iff in Hc. rewrite Hc.
    rewrite IH; [|exact Hmode|exact Ha]. rewrite len_cons. lst_auto.
Qed.

Lemma accum_comment : accum_mode MComment (fun c => negb (re_EOL c)).
Proof. intros st c Hm Hc. unfold step_core. rewrite Hm. unfold step_comment.
       apply negb_true_iff in Hc. rewrite Hc. reflexivity. Qed.
Lemma accum_literal : accum_mode MLiteral (fun c => negb (re_END_LITERAL c)).
Proof. intros st c Hm Hc. unfold step_core. rewrite Hm. unfold step_literal.
       apply negb_true_iff in Hc. rewrite Hc. reflexivity. Qed.
Lemma accum_number : accum_mode MNumber (fun c => negb (re_END_NUMBER c)).
Proof. intros st c Hm Hc. unfold step_core. rewrite Hm. unfold step_number.
       apply negb_true_iff in Hc. rewrite Hc. reflexivity. Qed.
Lemma accum_float : accum_mode MFloat (fun c => negb (re_END_NUMBER c)).
Proof. intros st c Hm Hc. unfold step_core. rewrite Hm. unfold step_float.
       apply negb_true_iff in Hc. rewrite Hc. reflexivity. Qed.
Lemma accum_keyword : accum_mode MKeyword (fun c => negb (re_END_KEYWORD c)).
Proof. intros st c Hm Hc. unfold step_core. rewrite Hm. unfold step_keyword.
       apply negb_true_iff in Hc. rewrite Hc. reflexivity. Qed.
Lemma accum_string : accum_mode MString (fun c => negb (re_END_STRING c)).
Proof. intros st c Hm Hc. unfold step_core. rewrite Hm. unfold step_string.
       apply negb_true_iff in Hc. rewrite Hc. reflexivity. Qed.
Lemma accum_hexstring : accum_mode MHexString (fun c => negb (re_END_HEX_STRING c)).
Proof. intros st c Hm Hc. unfold step_core. rewrite Hm. unfold step_hexstring.
       apply negb_true_iff in Hc. rewrite Hc. reflexivity. Qed.

(* the per-byte decisions commute with advancing the position *)
Lemma main_dispatch_adv k st c : main_dispatch (adv k st) c = adv k (main_dispatch st c).
Proof.
  unfold main_dispatch.
  repeat match goal with |- context [if ?b then _ else _] => destruct b end; reflexivity.
Qed.
Lemma end_number_adv k st : end_number (adv k st) = adv k (end_number st).
Proof. unfold end_number. cbn [cur adv]. destruct (parse_int (cur st)); reflexivity. Qed.
Lemma end_float_adv k st : end_float (adv k st) = adv k (end_float st).
Proof. unfold end_float. cbn [cur adv]. destruct (parse_float (cur st)); reflexivity. Qed.
Lemma end_lithex_adv k st : end_lithex (adv k st) = adv k (end_lithex st).
Proof. unfold end_lithex. cbn [hexb adv]. destruct (nonempty (hexb st)); reflexivity. Qed.
Lemma string_special_adv k st c : string_special (adv k st) c = adv k (string_special st c).
Proof.
  unfold string_special. cbn [paren adv].
  repeat match goal with |- context [if ?b then _ else _] => destruct b end; reflexivity.
Qed.
Lemma string1_escape_adv k st c : string1_escape (adv k st) c = adv k (string1_escape st c).
Proof.
  unfold string1_escape. destruct (lookup c ESC_STRING); [reflexivity|].
  destruct (c =? 13); reflexivity.
Qed.
Lemma adv_adv a b st : adv a (adv b st) = adv (b + a) st.
Proof. lst_auto. Qed.
Lemma adv_0 st : adv 0 st = st.
Proof. lst_auto. Qed.

Definition rank (m : mode) : nat :=
  match m with
  | MMain | MString => 0
  | MLitHex | MWOpen => 2
  | _ => 1
  end.

Lemma rank_le2 m : (rank m <= 2)%nat.
Proof. destruct m; cbn; lia. Qed.

Definition ok1 (st : lst) (s : list Z) (n : nat) (st' : lst) : Prop :=
  (n <= length s)%nat /\ run st s = run st' (skipn n s) /\
  (3 * (length s - n) + rank (lmode st') < 3 * length s + rank (lmode st))%nat.

Lemma skipn_app_len {A} (a r : list A) : skipn (length a) (a ++ r) = r.
Proof. induction a; cbn; auto. Qed.
Lemma skipn_app_Slen {A} (a : list A) c r : skipn (S (length a)) (a ++ c :: r) = r.
Proof. induction a; cbn; auto. Qed.

Lemma Zlen_S (a : list Z) : Z.of_nat (S (length a)) = len a + 1.
Proof. unfold len. lia. Qed.

(* ---- one lemma per _parse_* method ---------------------------------------------- *)
Lemma p_main_ok st s : s <> [] -> lmode st = MMain ->
  let (n, st') := p_main st s in ok1 st s n (adv (Z.of_nat n) st').
Proof.
  intros Hs Hm. unfold p_main.
  destruct (span (fun c => negb (re_NONSPC c)) s) as [a r] eqn:Hsp.
  destruct (span_spec _ _ _ _ Hsp) as (E & Ha & Hr). subst s.
  destruct r as [|c r].
  - rewrite app_nil_r in *. unfold ok1. split; [lia|]. split.
    + rewrite skipn_all. rewrite run_skip_main by assumption. reflexivity.
    + cbn [lmode adv]. rewrite Hm. destruct a; [congruence|]. cbn [length rank]. lia.
  - apply negb_false_iff in Hr. unfold ok1. split; [rewrite app_length; cbn; lia|]. split.
    + rewrite skipn_app_Slen, run_app, run_cons. f_equal.
      rewrite run_skip_main by assumption.
      unfold step, step_core. cbn [lmode adv]. rewrite Hm. unfold step_main. rewrite Hr.
      cbn [apos adv]. rewrite Zlen_S.
      change (set_tpos (apos st + len a) (adv (len a) st)) with (adv (len a) (set_tpos (apos st + len a) st)).
      rewrite main_dispatch_adv, adv_adv. reflexivity.
    + rewrite app_length. cbn [length]. rewrite Hm. cbn [rank].
      pose proof (rank_le2 (lmode (adv (Z.of_nat (S (length a))) (main_dispatch (set_tpos (apos st + len a) st) c)))).
      lia.
Qed.

(* the shared shape: accumulate up to a delimiter that is left unread *)
Lemma accum_unread_ok m p (endf : lst -> lst) st a c r :
  accum_mode m p -> lmode st = m -> forallb p a = true ->
  (forall k x, endf (adv k x) = adv k (endf x)) ->
  (forall x, lmode x = m -> step_core x c = step_core (endf x) c) ->
  (rank (lmode (endf (add_cur a st))) < rank m)%nat ->
  ok1 st (a ++ c :: r) (length a) (adv (len a) (endf (add_cur a st))).
Proof.
  intros Hacc Hm Ha Hcomm Hstep Hrank. unfold ok1.
  split; [rewrite app_length; cbn; lia|]. split.
  - rewrite skipn_app_len, run_app, !run_cons. f_equal.
    rewrite (run_accum m p Hacc) by assumption.
    unfold step. f_equal. rewrite Hstep by (cbn; assumption). rewrite Hcomm. reflexivity.
  - rewrite app_length. cbn [length lmode adv]. rewrite Hm.
    replace (length a + S (length r) - length a)%nat with (S (length r)) by lia. lia.
Qed.

Lemma accum_all_ok m p st s : s <> [] ->
  accum_mode m p -> lmode st = m -> forallb p s = true ->
  ok1 st s (length s) (adv (Z.of_nat (length s)) (add_cur s st)).
Proof.
  intros Hs Hacc Hm Ha. unfold ok1. split; [lia|]. split.
  - rewrite skipn_all. rewrite (run_accum m p Hacc) by assumption. reflexivity.
  - cbn [lmode adv add_cur set_cur]. destruct s; [congruence|]. cbn [length]. lia.
Qed.

Lemma p_comment_ok st s : s <> [] -> lmode st = MComment ->
  let (n, st') := p_comment st s in ok1 st s n (adv (Z.of_nat n) st').
Proof.
  intros Hs Hm. unfold p_comment.
  destruct (span (fun c => negb (re_EOL c)) s) as [a r] eqn:Hsp.
  destruct (span_spec _ _ _ _ Hsp) as (E & Ha & Hr). subst s.
  destruct r as [|c r].
  - rewrite app_nil_r in *. apply (accum_all_ok MComment _ st a Hs accum_comment Hm Ha).
  - apply negb_false_iff in Hr.
    apply (accum_unread_ok MComment _ (set_mode MMain) st a c r accum_comment Hm Ha).
    + reflexivity.
    + intros x Hx. unfold step_core at 1. rewrite Hx. unfold step_comment. rewrite Hr. reflexivity.
    + cbn. lia.
Qed.

Lemma p_literal_ok st s : s <> [] -> lmode st = MLiteral ->
  let (n, st') := p_literal st s in ok1 st s n (adv (Z.of_nat n) st').
Proof.
  intros Hs Hm. unfold p_literal.
  destruct (span (fun c => negb (re_END_LITERAL c)) s) as [a r] eqn:Hsp.
  destruct (span_spec _ _ _ _ Hsp) as (E & Ha & Hr). subst s.
  destruct r as [|c r].
  - rewrite app_nil_r in *. apply (accum_all_ok MLiteral _ st a Hs accum_literal Hm Ha).
  - apply negb_false_iff in Hr. destruct (c =? 35) eqn:Hc.
    + unfold ok1. split; [rewrite app_length; cbn; lia|]. split.
      * rewrite skipn_app_Slen, run_app, run_cons. f_equal.
        rewrite (run_accum _ _ accum_literal) by assumption.
        unfold step, step_core. cbn [lmode adv add_cur set_cur]. rewrite Hm.
        unfold step_literal. rewrite Hr, Hc. rewrite Zlen_S. lst_auto.
      * rewrite app_length. cbn [length lmode adv set_mode]. rewrite Hm. cbn [rank]. lia.
    + apply (accum_unread_ok MLiteral _ end_literal st a c r accum_literal Hm Ha).
      * reflexivity.
      * intros x Hx. unfold step_core at 1. rewrite Hx. unfold step_literal. rewrite Hr, Hc. reflexivity.
      * cbn. lia.
Qed.

Lemma p_number_ok st s : s <> [] -> lmode st = MNumber ->
  let (n, st') := p_number st s in ok1 st s n (adv (Z.of_nat n) st').
Proof.
  intros Hs Hm. unfold p_number.
  destruct (span (fun c => negb (re_END_NUMBER c)) s) as [a r] eqn:Hsp.
  destruct (span_spec _ _ _ _ Hsp) as (E & Ha & Hr). subst s.
  destruct r as [|c r].
  - rewrite app_nil_r in *. apply (accum_all_ok MNumber _ st a Hs accum_number Hm Ha).
  - apply negb_false_iff in Hr. destruct (c =? 46) eqn:Hc.
    + unfold ok1. split; [rewrite app_length; cbn; lia|]. split.
      * rewrite skipn_app_Slen, run_app, run_cons. f_equal.
        rewrite (run_accum _ _ accum_number) by assumption.
        unfold step, step_core. cbn [lmode adv add_cur set_cur]. rewrite Hm.
        unfold step_number. rewrite Hr, Hc. rewrite Zlen_S. lst_auto.
      * rewrite app_length. cbn [length lmode adv set_mode]. rewrite Hm. cbn [rank]. lia.
    + apply (accum_unread_ok MNumber _ end_number st a c r accum_number Hm Ha).
      * intros; apply end_number_adv.
      * intros x Hx. unfold step_core at 1. rewrite Hx. unfold step_number. rewrite Hr, Hc. reflexivity.
      * cbn. lia.
Qed.

Lemma p_float_ok st s : s <> [] -> lmode st = MFloat ->
  let (n, st') := p_float st s in ok1 st s n (adv (Z.of_nat n) st').
Proof.
  intros Hs Hm. unfold p_float.
  destruct (span (fun c => negb (re_END_NUMBER c)) s) as [a r] eqn:Hsp.
  destruct (span_spec _ _ _ _ Hsp) as (E & Ha & Hr). subst s.
  destruct r as [|c r].
  - rewrite app_nil_r in *. apply (accum_all_ok MFloat _ st a Hs accum_float Hm Ha).
  - apply negb_false_iff in Hr.
    apply (accum_unread_ok MFloat _ end_float st a c r accum_float Hm Ha).
    + intros; apply end_float_adv.
    + intros x Hx. unfold step_core at 1. rewrite Hx. unfold step_float. rewrite Hr. reflexivity.
    + cbn. lia.
Qed.

Lemma p_keyword_ok st s : s <> [] -> lmode st = MKeyword ->
  let (n, st') := p_keyword st s in ok1 st s n (adv (Z.of_nat n) st').
Proof.
  intros Hs Hm. unfold p_keyword.
  destruct (span (fun c => negb (re_END_KEYWORD c)) s) as [a r] eqn:Hsp.
  destruct (span_spec _ _ _ _ Hsp) as (E & Ha & Hr). subst s.
  destruct r as [|c r].
  - rewrite app_nil_r in *. apply (accum_all_ok MKeyword _ st a Hs accum_keyword Hm Ha).
  - apply negb_false_iff in Hr.
    apply (accum_unread_ok MKeyword _ end_keyword st a c r accum_keyword Hm Ha).
    + reflexivity.
    + intros x Hx. unfold step_core at 1. rewrite Hx. unfold step_keyword. rewrite Hr. reflexivity.
    + cbn. lia.
Qed.

Lemma p_hexstring_ok st s : s <> [] -> lmode st = MHexString ->
  let (n, st') := p_hexstring st s in ok1 st s n (adv (Z.of_nat n) st').
Proof.
  intros Hs Hm. unfold p_hexstring.
  destruct (span (fun c => negb (re_END_HEX_STRING c)) s) as [a r] eqn:Hsp.
  destruct (span_spec _ _ _ _ Hsp) as (E & Ha & Hr). subst s.
  destruct r as [|c r].
  - rewrite app_nil_r in *. apply (accum_all_ok MHexString _ st a Hs accum_hexstring Hm Ha).
  - apply negb_false_iff in Hr.
    apply (accum_unread_ok MHexString _ end_hexstring st a c r accum_hexstring Hm Ha).
    + reflexivity.
    + intros x Hx. unfold step_core at 1. rewrite Hx. unfold step_hexstring. rewrite Hr. reflexivity.
    + cbn. lia.
Qed.

Lemma rank_string_special st c : (rank (lmode (string_special st c)) <= 1 + rank (lmode st))%nat.
Proof.
  unfold string_special.
  repeat match goal with |- context [if ?b then _ else _] => destruct b end; cbn; lia.
Qed.

Lemma p_string_ok st s : s <> [] -> lmode st = MString ->
  let (n, st') := p_string st s in ok1 st s n (adv (Z.of_nat n) st').
Proof.
  intros Hs Hm. unfold p_string.
  destruct (span (fun c => negb (re_END_STRING c)) s) as [a r] eqn:Hsp.
  destruct (span_spec _ _ _ _ Hsp) as (E & Ha & Hr). subst s.
  destruct r as [|c r].
  - rewrite app_nil_r in *. apply (accum_all_ok MString _ st a Hs accum_string Hm Ha).
  - apply negb_false_iff in Hr.
    unfold ok1. split; [rewrite app_length; cbn; lia|]. split.
    + rewrite skipn_app_Slen, run_app, run_cons. f_equal.
      rewrite (run_accum _ _ accum_string) by assumption.
      unfold step, step_core. cbn [lmode adv add_cur set_cur]. rewrite Hm.
      unfold step_string. rewrite Hr. rewrite string_special_adv, adv_adv, Zlen_S. reflexivity.
    + rewrite app_length. cbn [length lmode adv]. rewrite Hm.
      pose proof (rank_string_special (add_cur a st) c) as H. cbn [lmode add_cur set_cur] in H.
      rewrite Hm in H. cbn [rank] in *. lia.
Qed.

Lemma p_lithex_ok st s : s <> [] -> lmode st = MLitHex ->
  let (n, st') := p_lithex st s in ok1 st s n (adv (Z.of_nat n) st').
Proof.
  intros Hs Hm. unfold p_lithex. destruct s as [|c r]; [congruence|].
  destruct (re_HEX c && (len (hexb st) <? 2)) eqn:Hc; unfold ok1.
  - split; [cbn; lia|]. split.
    + cbn [skipn]. rewrite run_cons. f_equal. unfold step, step_core. rewrite Hm.
      unfold step_lithex. rewrite Hc. reflexivity.
    + cbn [length lmode adv set_hex]. rewrite Hm. lia.
  - split; [cbn; lia|]. split.
    + cbn [skipn]. rewrite !run_cons. f_equal. unfold step. f_equal.
      unfold step_core at 1. rewrite Hm. unfold step_lithex. rewrite Hc.
      rewrite adv_0. unfold step_core. reflexivity.
    + cbn [length lmode adv]. rewrite Hm. unfold end_lithex. cbn [lmode set_mode rank]. lia.
Qed.

Lemma p_string1_ok st s : s <> [] -> lmode st = MString1 ->
  let (n, st') := p_string1 st s in ok1 st s n (adv (Z.of_nat n) st').
Proof.
  intros Hs Hm. unfold p_string1. destruct s as [|c r]; [congruence|].
  destruct (re_OCT_STRING c && (len (oct st) <? 3)) eqn:Hc; unfold ok1.
  - split; [cbn; lia|]. split.
    + cbn [skipn]. rewrite run_cons. f_equal. unfold step, step_core. rewrite Hm.
      unfold step_string1. rewrite Hc. reflexivity.
    + cbn [length lmode adv set_oct]. rewrite Hm. lia.
  - destruct (nonempty (oct st)) eqn:Ho.
    + split; [cbn; lia|]. split.
      * cbn [skipn]. rewrite !run_cons. f_equal. unfold step. f_equal.
        unfold step_core at 1. rewrite Hm. unfold step_string1. rewrite Hc, Ho.
        rewrite adv_0. unfold step_core. reflexivity.
      * cbn [length lmode adv]. rewrite Hm. unfold end_oct. cbn [lmode set_mode rank]. lia.
    + destruct (escape_consumes c) eqn:He.
      * split; [cbn; lia|]. split.
        -- cbn [skipn]. rewrite run_cons. f_equal. unfold step, step_core. rewrite Hm.
           unfold step_string1. rewrite Hc, Ho, He. reflexivity.
        -- cbn [length lmode adv]. rewrite Hm.
           assert (rank (lmode (string1_escape st c)) <= 1)%nat.
           { unfold string1_escape. destruct (lookup c ESC_STRING); [cbn; lia|].
             destruct (c =? 13); cbn; lia. }
           cbn [rank]. lia.
      * split; [cbn; lia|]. split.
        -- cbn [skipn]. rewrite !run_cons. f_equal. unfold step. f_equal.
           unfold step_core at 1. rewrite Hm. unfold step_string1. rewrite Hc, Ho, He.
           rewrite adv_0. unfold step_core. reflexivity.
        -- cbn [length lmode adv set_mode]. rewrite Hm. cbn [rank]. lia.
Qed.

Lemma p_stringcr_ok st s : s <> [] -> lmode st = MStringCR ->
  let (n, st') := p_stringcr st s in ok1 st s n (adv (Z.of_nat n) st').
Proof.
  intros Hs Hm. unfold p_stringcr. destruct s as [|c r]; [congruence|].
  destruct (c =? 10) eqn:Hc; unfold ok1.
  - split; [cbn; lia|]. split.
    + cbn [skipn]. rewrite run_cons. f_equal. unfold step, step_core. rewrite Hm.
      unfold step_stringcr. rewrite Hc. reflexivity.
    + cbn [length lmode adv set_mode]. rewrite Hm. cbn [rank]. lia.
  - split; [cbn; lia|]. split.
    + cbn [skipn]. rewrite !run_cons. f_equal. unfold step. f_equal.
      unfold step_core at 1. rewrite Hm. unfold step_stringcr. rewrite Hc.
      rewrite adv_0. unfold step_core. reflexivity.
    + cbn [length lmode adv set_mode]. rewrite Hm. cbn [rank]. lia.
Qed.

Lemma p_wopen_ok st s : s <> [] -> lmode st = MWOpen ->
  let (n, st') := p_wopen st s in ok1 st s n (adv (Z.of_nat n) st').
Proof.
  intros Hs Hm. unfold p_wopen. destruct s as [|c r]; [congruence|].
  destruct (c =? 60) eqn:Hc; unfold ok1.
  - split; [cbn; lia|]. split.
    + cbn [skipn]. rewrite run_cons. f_equal. unfold step, step_core. rewrite Hm.
      unfold step_wopen. rewrite Hc. reflexivity.
    + cbn [length lmode adv set_mode]. rewrite Hm. cbn [rank]. lia.
  - split; [cbn; lia|]. split.
    + cbn [skipn]. rewrite !run_cons. f_equal. unfold step. f_equal.
      unfold step_core at 1. rewrite Hm. unfold step_wopen. rewrite Hc.
      rewrite adv_0. unfold step_core. reflexivity.
    + cbn [length lmode adv set_mode]. rewrite Hm. cbn [rank]. lia.
Qed.

Lemma p_wclose_ok st s : s <> [] -> lmode st = MWClose ->
  let (n, st') := p_wclose st s in ok1 st s n (adv (Z.of_nat n) st').
Proof.
  intros Hs Hm. unfold p_wclose. destruct s as [|c r]; [congruence|].
  destruct (c =? 62) eqn:Hc; unfold ok1.
  - split; [cbn; lia|]. split.
    + cbn [skipn]. rewrite run_cons. f_equal. unfold step, step_core. rewrite Hm.
      unfold step_wclose. rewrite Hc. reflexivity.
    + cbn [length lmode adv set_mode]. rewrite Hm. cbn [rank]. lia.
  - split; [cbn; lia|]. split.
    + cbn [skipn]. rewrite !run_cons. f_equal. unfold step. f_equal.
      unfold step_core at 1. rewrite Hm. unfold step_wclose. rewrite Hc.
      rewrite adv_0. unfold step_core. reflexivity.
    + cbn [length lmode adv set_mode]. rewrite Hm. cbn [rank]. lia.
Qed.

(* every scanner call preserves the automaton's run and decreases the measure *)
Lemma parse1_ok st s : s <> [] ->
  let (n, st') := parse1 st s in ok1 st s n st'.
Proof.
  intros Hs. unfold parse1. destruct (lmode st) eqn:Hm.
  - pose proof (p_main_ok st s Hs Hm) as H. destruct (p_main st s). exact H.
  - pose proof (p_comment_ok st s Hs Hm) as H. destruct (p_comment st s). exact H.
  - pose proof (p_literal_ok st s Hs Hm) as H. destruct (p_literal st s). exact H.
  - pose proof (p_lithex_ok st s Hs Hm) as H. destruct (p_lithex st s). exact H.
  - pose proof (p_number_ok st s Hs Hm) as H. destruct (p_number st s). exact H.
  - pose proof (p_float_ok st s Hs Hm) as H. destruct (p_float st s). exact H.
  - pose proof (p_keyword_ok st s Hs Hm) as H. destruct (p_keyword st s). exact H.
  - pose proof (p_string_ok st s Hs Hm) as H. destruct (p_string st s). exact H.
  - pose proof (p_string1_ok st s Hs Hm) as H. destruct (p_string1 st s). exact H.
  - pose proof (p_stringcr_ok st s Hs Hm) as H. destruct (p_stringcr st s). exact H.
  - pose proof (p_wopen_ok st s Hs Hm) as H. destruct (p_wopen st s). exact H.
  - pose proof (p_wclose_ok st s Hs Hm) as H. destruct (p_wclose st s). exact H.
  - pose proof (p_hexstring_ok st s Hs Hm) as H. destruct (p_hexstring st s). exact H.
Qed.

(* the nexttoken loop over one buffer: terminates within the fuel, result = automaton *)
Lemma feed_ok : forall fuel st s,
  (3 * length s + rank (lmode st) < fuel)%nat -> feed fuel st s = Some (run st s).
Proof.
  induction fuel as [|f IH]; intros st s Hf; [lia|].
  destruct s as [|c r]; [reflexivity|].
  cbn [feed]. pose proof (parse1_ok st (c :: r) ltac:(discriminate)) as H.
  destruct (parse1 st (c :: r)) as [n st']. destruct H as (Hn & Hrun & Hmeas).
  rewrite Hrun. apply IH. rewrite skipn_length. lia.
Qed.

Lemma feed_chunks_ok : forall cs st, feed_chunks st cs = Some (run st (concat cs)).
Proof.
  induction cs as [|c cs IH]; intros st; [reflexivity|].
  cbn [feed_chunks concat]. rewrite feed_ok.
  - rewrite IH, run_app. reflexivity.
  - unfold feed_fuel. pose proof (rank_le2 (lmode st)). lia.
Qed.

Lemma chunks_concat : forall fuel b data, (0 < b)%nat -> (length data <= fuel)%nat ->
  concat (chunks fuel b data) = data.
Proof.
  induction fuel as [|f IH]; intros b data Hb Hl.
  - destruct data; [reflexivity|cbn in Hl; lia].
  - destruct data as [|c r]; [reflexivity|].
    cbn [chunks concat]. rewrite IH; [apply firstn_skipn|exact Hb|].
    rewrite skipn_length. cbn [length] in *. lia.
Qed.

(* C14 main theorem: for every buffer size the chunk layer terminates (never runs out
   of fuel) and yields exactly the automaton's tokens *)
Theorem tokenize_lex : forall b pos data, (0 < b)%nat -> tokenize b pos data = Some (lex pos data).
Proof.
  intros b pos data Hb. unfold tokenize, lex, flush.
  rewrite feed_chunks_ok, chunks_concat by (auto; lia).
  rewrite feed_ok.
  - rewrite run_app. reflexivity.
  - unfold feed_fuel. cbn [length]. pose proof (rank_le2 (lmode (run (init pos) data))). lia.
Qed.

Corollary tokenize_bufsize_independent : forall b1 b2 pos data, (0 < b1)%nat -> (0 < b2)%nat ->
  tokenize b1 pos data = tokenize b2 pos data.
Proof. intros. rewrite !tokenize_lex by assumption. reflexivity. Qed.
