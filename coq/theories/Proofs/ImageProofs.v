(* C18: images. *)
From Coq Require Import ZArith List Bool Lia.
From PdfV Require Import Model.Images.
Import ListNotations.
Open Scope Z_scope.

(* ---------- little-endian fields read back -------------------------------------------------------------------- *)
Lemma rd32_le32 v rest : 0 <= v < 4294967296 -> rd32 (le32 v ++ rest) = v.
Proof.
  intros Hv. unfold le32, rd32. cbn [app].
  pose proof (Z.div_mod v 256 ltac:(lia)) as H1.
  pose proof (Z.div_mod (v / 256) 256 ltac:(lia)) as H2.
  pose proof (Z.div_mod (v / 256 / 256) 256 ltac:(lia)) as H3.
  rewrite Z.div_div in H3 by lia. rewrite Z.div_div in H3 by lia. rewrite Z.div_div in H2 by lia.
  change (256 * 256) with 65536 in *. change (65536 * 256) with 16777216 in *.
  assert (H4 : v / 16777216 < 256) by (apply Z.div_lt_upper_bound; lia).
  assert (H5 : 0 <= v / 16777216) by (apply Z.div_pos; lia).
  rewrite (Z.mod_small (v / 16777216) 256) by lia. lia.
Qed.
Lemma rd16_le16 v rest : 0 <= v < 65536 -> rd16 (le16 v ++ rest) = v.
Proof.
  intros Hv. unfold le16, rd16. cbn [app].
  pose proof (Z.div_mod v 256 ltac:(lia)) as H1.
  assert (H4 : v / 256 < 256) by (apply Z.div_lt_upper_bound; lia).
  assert (H5 : 0 <= v / 256) by (apply Z.div_pos; lia).
  rewrite (Z.mod_small (v / 256) 256) by lia. lia.
Qed.

(* ---------- rows ------------------------------------------------------------------------------------------------- *)
Lemma swap_rgb_length : forall n d, length d = (3 * n)%nat -> length (swap_rgb d) = length d.
Proof.
  induction n as [|n IH]; intros d H.
  - destruct d; [reflexivity|cbn in H; lia].
  - destruct d as [|r [|g [|b rest]]]; cbn [length] in H; try lia. cbn [swap_rgb length]. rewrite IH; [reflexivity|lia].
Qed.
Lemma swap_rgb_invol : forall n d, length d = (3 * n)%nat -> swap_rgb (swap_rgb d) = d.
Proof.
  induction n as [|n IH]; intros d H.
  - destruct d; [reflexivity|cbn in H; lia].
  - destruct d as [|r [|g [|b rest]]]; cbn [length] in H; try lia. cbn [swap_rgb]. rewrite IH; [reflexivity|lia].
Qed.

Lemma take_rows_concat ls : forall rows, Forall (fun r => length r = ls) rows ->
  forall rest, take_rows (length rows) ls (concat rows ++ rest) = rows.
Proof.
  induction 1 as [|r rows Hr Hrs IH]; intros rest; [reflexivity|].
  cbn [length take_rows concat]. rewrite <- app_assoc.
  rewrite firstn_app, Hr, Nat.sub_diag, firstn_O, app_nil_r, firstn_all2 by lia.
  rewrite skipn_app, Hr, Nat.sub_diag, skipn_all2 by lia. cbn [skipn app]. f_equal. apply IH.
Qed.

Lemma pad_to_length n d : (length d <= n)%nat -> length (pad_to n d) = n.
Proof. intros H. unfold pad_to. rewrite app_length, repeat_length. lia. Qed.
Lemma firstn_pad n d : firstn (length d) (pad_to n d) = d.
Proof. unfold pad_to. rewrite firstn_app, Nat.sub_diag, firstn_O, app_nil_r. apply firstn_all. Qed.

(* one stored row decodes to the row that was given: padding is dropped, and the colour order is restored *)
Theorem row_roundtrip bits width d :
  (bits = 1 \/ bits = 8 \/ bits = 24) -> 0 <= width ->
  length d = Z.to_nat ((width * bits + 7) / 8) ->
  let stored := bmp_row bits width d in
  length stored = Z.to_nat (linesize bits width) /\
  (let e := firstn (Z.to_nat ((width * bits + 7) / 8)) stored in if bits =? 24 then swap_rgb e else e) = d.
Proof.
  intros Hb Hw Hd. cbv zeta.
  assert (Hls : (Z.to_nat ((width * bits + 7) / 8) <= Z.to_nat (linesize bits width))%nat).
  { unfold linesize, align32. apply Z2Nat.inj_le.
    - apply Z.div_pos; nia.
    - apply Z.mul_nonneg_nonneg; [apply Z.div_pos|]; try lia. assert (0 <= (width * bits + 7) / 8) by (apply Z.div_pos; nia). lia.
    - pose proof (Z.div_mod ((width * bits + 7) / 8 + 3) 4 ltac:(lia)).
      pose proof (Z.mod_pos_bound ((width * bits + 7) / 8 + 3) 4 ltac:(lia)). lia. }
  unfold bmp_row. destruct (bits =? 24) eqn:E.
  - apply Z.eqb_eq in E. subst bits.
    assert (H3 : length d = (3 * Z.to_nat width)%nat).
    { rewrite Hd. replace ((width * 24 + 7) / 8) with (3 * width).
      - rewrite Z2Nat.inj_mul by lia. reflexivity.
      - apply (Z.div_unique _ 8 (3 * width) 7); lia. }
    pose proof (swap_rgb_length _ d H3) as Hl.
    split; [apply pad_to_length; lia|].
    rewrite <- Hd, <- Hl, firstn_pad. apply (swap_rgb_invol _ d H3).
  - split; [apply pad_to_length; lia|]. rewrite <- Hd. apply firstn_pad.
Qed.

(* ---------- unique names: an existing file is never chosen ------------------------------------------------- *)
Lemma unique_go_fresh existing base ext : forall fuel idx n,
  unique_go fuel existing base ext idx = Some n -> exists_in existing n = false.
Proof.
  induction fuel as [|f IH]; intros idx n H; [discriminate|]. cbn [unique_go] in H.
  destruct (exists_in existing (base ++ [46] ++ decimal idx ++ ext)) eqn:E; [apply (IH _ _ H)|].
  injection H as <-. exact E.
Qed.
Theorem unique_name_fresh existing base ext n : unique_name existing base ext = Some n -> exists_in existing n = false.
Proof.
  unfold unique_name. destruct (exists_in existing (base ++ ext)) eqn:E.
  - apply unique_go_fresh.
  - intros H. injection H as <-. exact E.
Qed.
Lemma str_eqb_refl a : str_eqb a a = true.
Proof. induction a as [|x a IH]; [reflexivity|]. cbn. rewrite Z.eqb_refl, IH. reflexivity. Qed.
(* two successive exports (the first name is then an existing file) never share a name *)
Theorem successive_names_differ existing base ext base2 ext2 n1 n2 :
  unique_name existing base ext = Some n1 -> unique_name (n1 :: existing) base2 ext2 = Some n2 -> n1 <> n2.
Proof.
  intros _ H2 E. subst n2. apply unique_name_fresh in H2. cbn [exists_in existsb] in H2. rewrite str_eqb_refl in H2. discriminate.
Qed.

(* ---------- inline image data ------------------------------------------------------------------------------------ *)
(* "EI" followed by white space occurs in s *)
Fixpoint has_marker (s : bytes) : bool :=
  match s with
  | [] => false
  | c :: r => (match r with
               | i :: w :: _ => (c =? 69) && (i =? 73) && is_space w
               | _ => false
               end) || has_marker r
  end.

(* scanning a marker-free text never stops inside it; the matcher state afterwards is determined by the last bytes *)
Definition state_after (i : nat) (s : bytes) : nat :=
  fold_left (fun st c => match st with
                         | O => if c =? 69 then 1%nat else O
                         | 1%nat => if c =? 73 then 2%nat else O
                         | _ => O
                         end) s i.

Lemma scan_free : forall s i acc tail,
  (match i with
   | O => has_marker s
   | 1%nat => has_marker (69 :: s)
   | _ => has_marker (69 :: 73 :: s)
   end) = false -> (i <= 2)%nat ->
  scan i acc (s ++ tail) = scan (state_after i s) (rev s ++ acc) tail.
Proof.
  intros s i acc tail. revert i acc. induction s as [|c r IH]; intros i acc Hm Hi; [reflexivity|].
  cbn [app scan state_after fold_left].
  destruct i as [|[|[|i]]]; try lia.
  - (* state 0 *)
    cbn [has_marker] in Hm. apply orb_false_iff in Hm. destruct Hm as [Hc Hr].
    destruct (c =? 69) eqn:E.
    + rewrite IH; [cbn [rev]; rewrite <- app_assoc; reflexivity| |lia].
      cbn [has_marker]. apply orb_false_iff. split; [|exact Hr].
      destruct r as [|i0 [|w r']]; try reflexivity. change (69 =? 69) with true. exact Hc.
    + rewrite IH; [cbn [rev]; rewrite <- app_assoc; reflexivity|exact Hr|lia].
  - (* state 1: the previous byte was E *)
    cbn [has_marker] in Hm. apply orb_false_iff in Hm. destruct Hm as [Hc Hr].
    destruct (c =? 73) eqn:E.
    + rewrite IH; [cbn [rev]; rewrite <- app_assoc; reflexivity| |lia].
      apply Z.eqb_eq in E. subst c. cbn [has_marker]. apply orb_false_iff. split.
      * destruct r as [|w r']; [reflexivity|]. cbn [andb Z.eqb Pos.eqb] in Hc. cbn [Z.eqb Pos.eqb andb]. exact Hc.
      * exact Hr.
    + rewrite IH; [cbn [rev]; rewrite <- app_assoc; reflexivity| |lia].
      cbn [has_marker] in Hr. apply orb_false_iff in Hr. destruct Hr as [_ Hr]. exact Hr.
  - (* state 2: the previous bytes were E I *)
    cbn [has_marker] in Hm. apply orb_false_iff in Hm. destruct Hm as [Hc Hr].
    cbn [Z.eqb Pos.eqb andb] in Hc. rewrite Hc.
    rewrite IH; [cbn [rev]; rewrite <- app_assoc; reflexivity| |lia].
    cbn [has_marker] in Hr. apply orb_false_iff in Hr. destruct Hr as [_ Hr].
    apply orb_false_iff in Hr. destruct Hr as [_ Hr]. exact Hr.
Qed.

Lemma state_after_nl i s : (i <= 2)%nat -> state_after i (s ++ [10]) = O.
Proof.
  intros Hi. unfold state_after. rewrite fold_left_app. cbn [fold_left].
  destruct (fold_left _ s i) as [|[|n]]; reflexivity.
Qed.

(* the data of an inline image followed by end-of-line, EI, white space: everything before the end-of-line is
   captured (up to the documented removal of ONE end-of-line sequence), and scanning resumes right after the white
   space -- for every data in which "EI"+white space does not occur *)
Theorem inline_capture data ws rest : is_space ws = true -> has_marker (data ++ [10]) = false ->
  inline_data (data ++ [10] ++ [69; 73; ws] ++ rest) = (strip_eol (data ++ [10]), rest).
Proof.
  intros Hws Hm. unfold inline_data.
  replace (data ++ [10] ++ [69; 73; ws] ++ rest) with ((data ++ [10]) ++ [69; 73; ws] ++ rest) by (rewrite <- app_assoc; reflexivity).
  rewrite (scan_free (data ++ [10]) 0%nat [] ([69; 73; ws] ++ rest) Hm ltac:(lia)). rewrite state_after_nl by lia. cbn [app scan Z.eqb Pos.eqb]. rewrite Hws.
  rewrite app_nil_r. cbn [rev]. rewrite rev_involutive.
  rewrite <- !app_assoc. cbn [app].
  replace (data ++ [10; 69; 73; ws]) with ((data ++ [10]) ++ [69; 73; ws]) by (rewrite <- app_assoc; reflexivity).
  replace (Nat.sub (length ((data ++ [10]) ++ [69; 73; ws])) 3) with (length (data ++ [10])) by (rewrite !app_length; cbn [length]; lia).
  rewrite firstn_app, Nat.sub_diag, firstn_O, app_nil_r, firstn_all. reflexivity.
Qed.

Lemma strip_eol_nl data : (forall d, data <> d ++ [13]) -> strip_eol (data ++ [10]) = data.
Proof.
  intros H. unfold strip_eol. rewrite rev_app_distr. cbn [rev app].
  destruct (rev data) as [|c r] eqn:E; [cbn; rewrite <- (rev_involutive data), E; reflexivity|].
  destruct (Z.eq_dec c 13) as [->|Hc].
  - exfalso. apply (H (rev r)). rewrite <- (rev_involutive data), E. reflexivity.
  - assert (T : match c with 13 => rev r | _ => rev (c :: r) end = rev (c :: r)).
    { destruct c as [|p|p]; try reflexivity. do 4 (destruct p; try reflexivity). congruence. }
    rewrite <- (rev_involutive data), E.
    destruct c as [|p|p]; try reflexivity. do 4 (destruct p; try reflexivity). congruence.
Qed.

(* data without a marker and not ending in CR is captured exactly *)
Theorem inline_exact data ws rest : is_space ws = true -> has_marker (data ++ [10]) = false ->
  (forall d, data <> d ++ [13]) ->
  inline_data (data ++ [10] ++ [69; 73; ws] ++ rest) = (data, rest).
Proof. intros Hws Hm Hcr. rewrite inline_capture by assumption. rewrite strip_eol_nl by exact Hcr. reflexivity. Qed.

(* ---------- the whole file ------------------------------------------------------------------------------------------ *)
Lemma skipn_prefix {A} (p s : list A) : skipn (length p) (p ++ s) = s.
Proof. rewrite skipn_app, Nat.sub_diag, skipn_all. reflexivity. Qed.

Lemma slice_length (data : bytes) bpl h y : 0 <= bpl -> length data = Z.to_nat (bpl * h) -> (y < Z.to_nat h)%nat ->
  length (firstn (Z.to_nat bpl) (skipn (Z.to_nat (Z.of_nat y * bpl)) data)) = Z.to_nat bpl.
Proof.
  intros Hb Hl Hy. rewrite firstn_length, skipn_length, Hl.
  assert (Z.of_nat y + 1 <= h) by lia.
  assert (Z.to_nat bpl <= Z.to_nat (bpl * h) - Z.to_nat (Z.of_nat y * bpl))%nat.
  { rewrite <- Z2Nat.inj_sub by nia. apply Z2Nat.inj_le; nia. }
  lia.
Qed.

Lemma header_length bits width height h : bmp_header bits width height = Some h ->
  (bits = 1 \/ bits = 8 \/ bits = 24) ->
  exists nc, ncols bits = Some nc /\ length h = Z.to_nat (14 + 40 + nc * 4).
Proof.
  intros H Hb. unfold bmp_header in H.
  destruct Hb as [ -> | [ -> | -> ] ]; cbn [ncols Z.eqb Pos.eqb] in H; injection H as <-; eexists; (split; [reflexivity|]);
    repeat rewrite app_length; cbn [length le32 le16]; reflexivity.
Qed.

Lemma concat_length_uniform n (l : list bytes) : Forall (fun r => length r = n) l -> length (concat l) = (n * length l)%nat.
Proof.
  induction 1 as [|r l0 Hr Hl0 IH]; [cbn [concat length]; rewrite Nat.mul_0_r; reflexivity|].
  cbn [concat length]. rewrite app_length, IH, Hr, Nat.mul_succ_r. lia.
Qed.

(* a standard reader applied to the exported file returns the geometry and, row by row, exactly the stored sample
   bytes -- for every width, height and data of matching length (gray 8-bit, RGB 8-bit, 1-bit) *)
Theorem bmp_roundtrip bits width height data :
  (bits = 1 \/ bits = 8 \/ bits = 24) -> 0 < width < 32768 -> 0 <= height < 32768 ->
  let bpl := (width * bits + 7) / 8 in
  length data = Z.to_nat (bpl * height) ->
  exists f, bmp_file bits width height bpl data = Some f /\
            bmp_read f = Some (mkImage width height bits (row_slices data bpl height)).
Proof.
  intros Hb Hw Hh bpl Hd.
  assert (Hbpl : 0 <= bpl) by (unfold bpl; apply Z.div_pos; nia).
  assert (Hbplb : bpl <= 3 * 32768 + 1) by (unfold bpl; apply Z.div_le_upper_bound; nia).
  assert (Hls0 : 0 <= linesize bits width).
  { unfold linesize, align32. fold bpl. apply Z.mul_nonneg_nonneg; [apply Z.div_pos|]; lia. }
  assert (Hlsb : linesize bits width <= bpl + 3).
  { unfold linesize, align32. fold bpl. pose proof (Z.div_mod (bpl + 3) 4 ltac:(lia)). pose proof (Z.mod_pos_bound (bpl + 3) 4 ltac:(lia)). lia. }
  assert (Hncx : exists nc, ncols bits = Some nc /\ 0 <= nc <= 256)
    by (destruct Hb as [ -> | [ -> | -> ] ]; eexists; (split; [reflexivity|lia])).
  destruct Hncx as (nc & Enc & Hnc).
  pose (datasize := linesize bits width * height).
  pose (hs := 14 + 40 + nc * 4).
  pose (rest := le32 (hs + datasize) ++ le16 0 ++ le16 0 ++ le32 hs ++ le32 40 ++ le32 width ++ le32 height ++ le16 1 ++ le16 bits
               ++ le32 0 ++ le32 datasize ++ le32 0 ++ le32 0 ++ le32 nc ++ le32 0 ++ palette bits).
  assert (Eh : bmp_header bits width height = Some ([66; 77] ++ rest)) by (unfold bmp_header; rewrite Enc; reflexivity).
  assert (Hds : 0 <= datasize < 4294967296) by (unfold datasize; nia).
  destruct (header_length _ _ _ _ Eh Hb) as (nc' & Enc' & Hlen).
  rewrite Enc in Enc'. injection Enc' as <-. fold hs in Hlen.
  unfold bmp_file. rewrite Eh. eexists. split; [reflexivity|].
  set (rows := map (bmp_row bits width) (row_slices data bpl height)).
  assert (Hrows : Forall (fun r => length r = Z.to_nat (linesize bits width)) rows).
  { unfold rows, row_slices. apply Forall_forall. intros r Hr. apply in_map_iff in Hr. destruct Hr as (d & <- & Hd').
    apply in_map_iff in Hd'. destruct Hd' as (y & <- & Hy). apply in_seq in Hy.
    apply (row_roundtrip bits width _ Hb ltac:(lia)). fold bpl. apply (slice_length data bpl height y); [exact Hbpl|exact Hd|lia]. }
  assert (Hnrows : length rows = Z.to_nat height) by (unfold rows, row_slices; rewrite !map_length, seq_length; reflexivity).
  set (X := concat (rev rows)).
  change (([66; 77] ++ rest) ++ X) with (66 :: 77 :: (rest ++ X)).
  assert (R8 : skipn 8 (rest ++ X) = le32 hs ++ (le32 40 ++ le32 width ++ le32 height ++ le16 1 ++ le16 bits
                              ++ le32 0 ++ le32 datasize ++ le32 0 ++ le32 0 ++ le32 nc ++ le32 0 ++ palette bits) ++ X) by reflexivity.
  assert (R16 : skipn 16 (rest ++ X) = le32 width ++ (le32 height ++ le16 1 ++ le16 bits
                              ++ le32 0 ++ le32 datasize ++ le32 0 ++ le32 0 ++ le32 nc ++ le32 0 ++ palette bits) ++ X) by reflexivity.
  assert (R20 : skipn 20 (rest ++ X) = le32 height ++ (le16 1 ++ le16 bits
                              ++ le32 0 ++ le32 datasize ++ le32 0 ++ le32 0 ++ le32 nc ++ le32 0 ++ palette bits) ++ X) by reflexivity.
  assert (R26 : skipn 26 (rest ++ X) = le16 bits ++ (le32 0 ++ le32 datasize ++ le32 0 ++ le32 0 ++ le32 nc ++ le32 0 ++ palette bits) ++ X) by reflexivity.
  unfold bmp_read. rewrite R8, R16, R20, R26.
  rewrite !rd32_le32 by (unfold hs; lia). rewrite rd16_le16 by (destruct Hb as [ -> | [ -> | -> ] ]; lia).
  fold bpl.
  (* the pixel data starts right after the header *)
  change (66 :: 77 :: (rest ++ X)) with (([66; 77] ++ rest) ++ X).
  assert (Hhl : length ([66; 77] ++ rest) = Z.to_nat hs) by exact Hlen.
  rewrite <- Hhl, skipn_prefix. unfold X.
  assert (Hcl : length (concat (rev rows)) = (Z.to_nat (linesize bits width) * Z.to_nat height)%nat).
  { rewrite <- Hnrows, <- (rev_length rows). apply concat_length_uniform. apply Forall_rev. exact Hrows. }
  rewrite Hcl, Nat.ltb_irrefl.
  rewrite <- (app_nil_r (concat (rev rows))). rewrite <- Hnrows, <- (rev_length rows).
  rewrite take_rows_concat by (apply Forall_rev; exact Hrows).
  rewrite rev_involutive. f_equal. f_equal.
  unfold rows. rewrite map_map. rewrite <- (map_id (row_slices data bpl height)) at 2.
  apply map_ext_in. intros d Hd'. unfold row_slices in Hd'. apply in_map_iff in Hd'. destruct Hd' as (y & <- & Hy). apply in_seq in Hy.
  apply (row_roundtrip bits width _ Hb ltac:(lia)). fold bpl. apply (slice_length data bpl height y); [exact Hbpl|exact Hd|lia].
Qed.
