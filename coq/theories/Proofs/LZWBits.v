(* C03, LZW at the bit level: readbits takes the next w bits of the stream, most significant first; hence a stream
   that carries, in the widths the decoder expects (early change), the codes of any admissible phrase sequence decodes
   to the data. *)
From Coq Require Import ZArith List Bool Lia ZifyBool Znumtheory.
From PdfV Require Import Model.Filters Proofs.LZWProofs.
Import ListNotations.
Open Scope Z_scope.

(* ---------- the bit stream as a number ------------------------------------------------------------------------------ *)
Definition bytes_val (l : list Z) : Z := fold_left (fun a x => a * 256 + x) l 0.
Definition byte (x : Z) : Prop := 0 <= x < 256.
Definition nbytes (l : list Z) : Z := Z.of_nat (length l).

Lemma fold_val l : forall a, fold_left (fun a x => a * 256 + x) l a = a * 2 ^ (8 * nbytes l) + bytes_val l.
Proof.
  unfold bytes_val, nbytes. induction l as [|x r IH]; intros a.
  - cbn. lia.
  - cbn [fold_left length]. rewrite IH, (IH (0 * 256 + x)).
    replace (8 * Z.of_nat (S (length r))) with (8 + 8 * Z.of_nat (length r)) by lia.
    rewrite Z.pow_add_r by lia. change (2 ^ 8) with 256. lia.
Qed.
Lemma bytes_val_cons x r : bytes_val (x :: r) = x * 2 ^ (8 * nbytes r) + bytes_val r.
Proof. unfold bytes_val at 1. cbn [fold_left]. rewrite fold_val. lia. Qed.
Lemma bytes_val_range l : Forall byte l -> 0 <= bytes_val l < 2 ^ (8 * nbytes l).
Proof.
  induction 1 as [|x r Hx Hr IH]; [cbn; lia|].
  rewrite bytes_val_cons. unfold nbytes in *. cbn [length].
  replace (8 * Z.of_nat (S (length r))) with (8 + 8 * Z.of_nat (length r)) by lia.
  rewrite Z.pow_add_r by lia. change (2 ^ 8) with 256. unfold byte in Hx.
  assert (0 < 2 ^ (8 * Z.of_nat (length r))) by (apply Z.pow_pos_nonneg; lia). nia.
Qed.

Definition wfb (b : bitst) : Prop := 0 <= bpos b <= 8 /\ byte (bbuff b) /\ Forall byte (brest b).
(* number of bits left, and their value *)
Definition blen (b : bitst) : Z := (8 - bpos b) + 8 * nbytes (brest b).
Definition bval (b : bitst) : Z := (bbuff b mod 2 ^ (8 - bpos b)) * 2 ^ (8 * nbytes (brest b)) + bytes_val (brest b).
(* the next w bits as a number, most significant bit first *)
Definition top (b : bitst) (w : Z) : Z := bval b / 2 ^ (blen b - w).

Lemma mod_pow_div a r k : 0 <= k <= r -> (a mod 2 ^ r) / 2 ^ k = (a / 2 ^ k) mod 2 ^ (r - k).
Proof.
  intros H. replace r with (k + (r - k)) at 1 by lia. rewrite Z.pow_add_r by lia.
  assert (Hd : 0 < 2 ^ k) by (apply Z.pow_pos_nonneg; lia).
  assert (He : 0 < 2 ^ (r - k)) by (apply Z.pow_pos_nonneg; lia).
  rewrite Z.rem_mul_r by lia.
  rewrite (Z.mul_comm (2 ^ k)), Z.div_add by lia. rewrite Z.div_small by (apply Z.mod_pos_bound; lia). lia.
Qed.
Lemma mod_mod_pow a r k : 0 <= k <= r -> (a mod 2 ^ r) mod 2 ^ k = a mod 2 ^ k.
Proof.
  intros H. symmetry. apply Zmod_div_mod; try (apply Z.pow_pos_nonneg; lia).
  exists (2 ^ (r - k)). rewrite <- Z.pow_add_r by lia. f_equal. lia.
Qed.

Lemma mod_add_l a b c : c <> 0 -> (a * c + b) mod c = b mod c.
Proof. intros H. rewrite Z.add_comm, Z.mod_add by exact H. reflexivity. Qed.

Lemma bval_range b : wfb b -> 0 <= bval b < 2 ^ blen b.
Proof.
  intros (Hp & Hb & Hr). unfold bval, blen. pose proof (bytes_val_range _ Hr) as HW.
  assert (HX : 0 <= bbuff b mod 2 ^ (8 - bpos b) < 2 ^ (8 - bpos b)) by (apply Z.mod_pos_bound, Z.pow_pos_nonneg; lia).
  rewrite Z.pow_add_r by (unfold nbytes; lia).
  assert (0 < 2 ^ (8 * nbytes (brest b))) by (apply Z.pow_pos_nonneg; unfold nbytes; lia). nia.
Qed.

(* readbits: the accumulator is extended by the next w bits; the stream advances by w bits *)
Lemma readbits_spec : forall fuel b w v, wfb b -> 0 <= w <= blen b -> w <= (8 - bpos b) + 8 * (Z.of_nat fuel - 1) -> (1 <= fuel)%nat ->
  exists b', readbits fuel b w v = Some (v * 2 ^ w + top b w, b') /\ wfb b' /\ blen b' = blen b - w /\
             bval b' = bval b mod 2 ^ (blen b - w).
Proof.
  induction fuel as [|f IH]; intros b w v Hwf Hw Hfuel Hf1; [lia|].
  destruct Hwf as (Hp & Hb & Hr). cbn [readbits].
  set (r := 8 - bpos b) in *. set (N := 8 * nbytes (brest b)) in *.
  assert (HN : 0 <= N) by (unfold N, nbytes; lia).
  pose proof (bytes_val_range _ Hr) as HW. fold N in HW.
  assert (H2N : 0 < 2 ^ N) by (apply Z.pow_pos_nonneg; lia).
  destruct (w <=? r) eqn:E.
  - (* the field ends in the current byte *)
    assert (Hwr : w <= r) by lia.
    exists (mkB (brest b) (bbuff b) (bpos b + w)). split.
    { f_equal. f_equal. f_equal. unfold top, bval, blen. fold r. fold N.
      replace (r + N - w) with (N + (r - w)) by lia. rewrite Z.pow_add_r by lia.
      rewrite <- Z.div_div by (try lia; apply Z.pow_pos_nonneg; lia).
      rewrite Z.div_add_l by lia. rewrite (Z.div_small (bytes_val (brest b))) by lia. rewrite Z.add_0_r.
      rewrite mod_pow_div by lia. f_equal. f_equal. lia. }
    assert (Hlen : blen (mkB (brest b) (bbuff b) (bpos b + w)) = blen b - w) by (unfold blen; cbn [bpos brest]; lia).
    split; [repeat split; cbn [bpos bbuff brest]; try assumption; try lia; apply Hb|].
    split; [exact Hlen|].
    unfold bval, blen. cbn [bpos bbuff brest]. fold N. replace (8 - (bpos b + w)) with (r - w) by lia. fold r.
    replace (r + N - w) with (N + (r - w)) by lia. rewrite Z.pow_add_r by lia.
    rewrite Z.rem_mul_r by (try lia; apply Z.pow_nonzero; lia).
    rewrite mod_add_l by lia. rewrite (Z.mod_small (bytes_val (brest b))) by lia.
    rewrite Z.div_add_l by lia. rewrite (Z.div_small (bytes_val (brest b))) by lia. rewrite Z.add_0_r.
    rewrite mod_mod_pow by lia. lia.
  - assert (Hwr : r < w) by lia.
    destruct (brest b) as [|x rest] eqn:Er.
    + exfalso. unfold blen in Hw. rewrite Er in Hw. unfold nbytes in Hw. cbn [length] in Hw. unfold r in Hwr. lia.
    + inversion Hr as [|? ? Hx Hrest]; subst.
      set (b1 := mkB rest x 0).
      assert (Hwf1 : wfb b1) by (repeat split; cbn; try lia; try assumption; apply Hx).
      assert (Hl1 : blen b1 = N) by (unfold blen, b1, N, nbytes; cbn [bpos brest length]; lia).
      assert (Hv1 : bval b1 = bytes_val (x :: rest)).
      { unfold bval, b1. cbn [bpos bbuff brest]. rewrite bytes_val_cons. replace (8 - 0) with 8 by lia.
        rewrite (Z.mod_small x) by (change (2 ^ 8) with 256; apply Hx). reflexivity. }
      destruct (IH b1 (w - r) (v * 2 ^ r + bbuff b mod 2 ^ r) Hwf1) as (b' & E' & Hwf' & Hl' & Hv').
      * rewrite Hl1. unfold blen in Hw. rewrite Er in Hw. fold r in Hw. fold N in Hw. lia.
      * cbn [bpos b1]. lia.
      * clear -Hfuel Hwr. unfold r in *. lia.
      * exists b'. split; [|split; [exact Hwf'|split]].
        -- rewrite E'. f_equal. f_equal.
           unfold top. rewrite Hl1, Hv1. unfold bval, blen. rewrite Er. fold r. fold N.
           set (t := N - (w - r)). assert (Ht : 0 <= t) by (unfold t; unfold blen in Hw; rewrite Er in Hw; fold r in Hw; fold N in Hw; lia).
           replace (r + N - w) with t by (unfold t; lia).
           replace N with ((w - r) + t) at 1 by (unfold t; lia). rewrite Z.pow_add_r by lia.
           assert (H2t : 0 < 2 ^ t) by (apply Z.pow_pos_nonneg; lia).
           rewrite Z.mul_assoc, Z.div_add_l by lia.
           assert (Hr0 : 0 <= r) by (unfold r; lia).
           assert (Epow : 2 ^ w = 2 ^ r * 2 ^ (w - r)) by (rewrite <- Z.pow_add_r by lia; f_equal; lia).
           rewrite Epow. ring.
        -- rewrite Hl', Hl1. unfold blen. rewrite Er. fold r. fold N. lia.
        -- rewrite Hv', Hl1, Hv1. unfold bval, blen. rewrite Er. fold r. fold N.
           set (t := N - (w - r)). assert (Ht : 0 <= t) by (unfold t; unfold blen in Hw; rewrite Er in Hw; fold r in Hw; fold N in Hw; lia).
           replace (r + N - w) with t by (unfold t; lia).
           assert (EN : 2 ^ N = 2 ^ (w - r) * 2 ^ t) by (rewrite <- Z.pow_add_r by lia; f_equal; unfold t; lia).
           rewrite EN, Z.mul_assoc. rewrite mod_add_l by (apply Z.pow_nonzero; lia). reflexivity.
Qed.

(* ---------- a stream carrying codes in the widths the decoder expects ------------------------------------------- *)
Inductive carries : bitst -> lzwst -> list Z -> Prop :=
| car_end : forall b s, blen b < znbits s -> carries b s []
| car_code : forall b s k r x s' b', znbits s <= blen b -> top b (znbits s) = k ->
    lzw_feed s k = FeedOk x s' -> wfb b' -> blen b' = blen b - znbits s -> bval b' = bval b mod 2 ^ (blen b - znbits s) ->
    carries b' s' r -> carries b s (k :: r).

Lemma readbits_eof : forall fuel b w v, wfb b -> blen b < w -> readbits fuel b w v = None.
Proof.
  induction fuel as [|f IH]; intros b w v Hwf Hl; [reflexivity|].
  destruct Hwf as (Hp & Hb & Hr). cbn [readbits].
  assert (E : w <=? 8 - bpos b = false) by (unfold blen, nbytes in Hl; lia). rewrite E.
  destruct (brest b) as [|x rest] eqn:Er; [reflexivity|].
  inversion Hr as [|? ? Hx Hrest]; subst. apply IH.
  - unfold byte in Hx. repeat split; cbn; try lia; try assumption.
  - unfold blen in *. rewrite Er in Hl. unfold nbytes in *. cbn [bpos brest length] in *. lia.
Qed.

Definition widths_ok (s : lzwst) : Prop := 9 <= znbits s <= 12.

Lemma feed_width s k x s' : widths_ok s -> lzw_feed s k = FeedOk x s' -> widths_ok s'.
Proof.
  unfold widths_ok, lzw_feed. intros Hw H.
  destruct (k =? 256); [inversion H; subst; cbn; lia|].
  destruct (k =? 257); [inversion H; subst; exact Hw|].
  destruct (match zprev s with None => true | Some [] => true | Some (_ :: _) => false end).
  - destruct (nth_error (ztable s) (Z.to_nat k)) as [[y|]|]; inversion H; subst; cbn; exact Hw.
  - destruct (Z.to_nat k <? length (ztable s))%nat.
    + destruct (nth_error (ztable s) (Z.to_nat k)) as [[y|]|]; inversion H; subst; cbn [znbits].
      unfold width_after. repeat match goal with |- context [if ?c then _ else _] => destruct c end; lia.
    + destruct (Z.to_nat k =? length (ztable s))%nat; inversion H; subst; cbn [znbits].
      unfold width_after. repeat match goal with |- context [if ?c then _ else _] => destruct c end; lia.
Qed.

Theorem carried_codes_decode : forall ks b s out fuel, carries b s ks -> wfb b -> widths_ok s ->
  feed_all s ks = Some out -> (length ks < fuel)%nat -> lzw_run fuel b s = FOk out.
Proof.
  induction ks as [|k ks IH]; intros b s out fuel C Hwf Hw F Hfuel.
  - inversion C; subst. cbn in F. inversion F; subst. destruct fuel; [lia|]. cbn [lzw_run].
    rewrite readbits_eof by assumption. reflexivity.
  - inversion C as [|? ? ? ? x s' b' Hl Ht Hfeed Hwf' Hl' Hv' C']; subst.
    destruct fuel as [|fuel]; [cbn in Hfuel; lia|]. cbn [lzw_run].
    destruct (readbits_spec 4 b (znbits s) 0 Hwf) as (b2 & E & Hwf2 & Hl2 & Hv2);
      [unfold widths_ok in Hw; lia| |lia|].
    { destruct Hwf as (Hp & _). unfold widths_ok in Hw. lia. }
    rewrite E. replace (0 * 2 ^ znbits s + top b (znbits s)) with (top b (znbits s)) by lia. rewrite Hfeed.
    cbn [feed_all] in F. rewrite Hfeed in F. destruct (feed_all s' ks) as [t|] eqn:Ft; [|discriminate].
    cbn [option_map] in F. inversion F; subst.
    (* the state readbits returns carries the same remaining bits as b' *)
    assert (Hcar : carries b2 s' ks).
    { clear -C' Hwf' Hl' Hv' Hwf2 Hl2 Hv2. revert b2 Hwf2 Hl2 Hv2.
      inversion C' as [b0 s0 Hend|b0 s0 k0 r0 x0 s0' b0' Hle Htop Hf0 Hw0 Hl0 Hv0 C0]; subst; intros b2 Hwf2 Hl2 Hv2.
      - constructor. lia.
      - apply (car_code b2 s' (top b' (znbits s')) r0 x0 s0' b0'); try assumption; try lia.
        + unfold top. rewrite Hl2, Hv2, Hl', Hv'. reflexivity.
        + rewrite Hv0, Hv2, Hv', Hl2, Hl'. reflexivity. }
    rewrite (IH b2 s' t fuel Hcar Hwf2 (feed_width _ _ _ _ Hw Hfeed) Ft ltac:(cbn in Hfuel; lia)). reflexivity.
Qed.

(* ---------- the whole decoder ------------------------------------------------------------------------------------------ *)
Lemma blen_nonneg b : wfb b -> 0 <= blen b.
Proof. intros (Hp & _). unfold blen, nbytes. lia. Qed.

Lemma carries_length : forall b s ks, carries b s ks -> widths_ok s -> wfb b -> 9 * Z.of_nat (length ks) <= blen b.
Proof.
  intros b s ks C. induction C as [b s Hend|b s k r x s' b' Hle Htop Hfeed Hwf' Hl' Hv' C IH]; intros Hw Hwf.
  - cbn. pose proof (blen_nonneg b Hwf). lia.
  - specialize (IH (feed_width _ _ _ _ Hw Hfeed) Hwf'). unfold widths_ok in Hw. cbn [length]. lia.
Qed.

Lemma feed_all_eod : forall ks s out, feed_all s ks = Some out -> feed_all s (ks ++ [257]) = Some out.
Proof.
  induction ks as [|k ks IH]; intros s out H.
  - cbn in H. inversion H; subst. cbn [app feed_all]. unfold lzw_feed. cbn. reflexivity.
  - cbn [app feed_all] in *. destruct (lzw_feed s k) as [x s'| | |]; try discriminate.
    destruct (feed_all s' ks) as [t|] eqn:E; [|discriminate]. rewrite (IH s' t E). exact H.
Qed.

(* THE THEOREM: a byte string whose bits, most significant first and in the widths the decoder expects (early change),
   are: clear-table, the codes of any admissible phrase sequence for the data, optionally end-of-data, and then
   fewer bits than one more code -- decodes to the data *)
Theorem lzw_stream_decodes data ws ks (eod : bool) : Forall byte data ->
  length ks = length ws -> (forall t, (t < length ws)%nat -> phrase ws t <> []) ->
  (forall t, (t < length ws)%nat -> code_ok ws t (nth t ks 0)) ->
  carries (mkB data 0 8) lzw_init (256 :: ks ++ (if eod then [257] else [])) ->
  lzwdecode data = FOk (concat ws).
Proof.
  intros Hd Hl Hne Hc C. unfold lzwdecode.
  assert (Hwf : wfb (mkB data 0 8)) by (repeat split; cbn; try lia; exact Hd).
  assert (Hw : widths_ok lzw_init) by (unfold widths_ok; cbn; lia).
  pose proof (lzw_codes_decode ws ks Hl Hne Hc) as F.
  assert (F' : feed_all lzw_init (256 :: ks ++ (if eod then [257] else [])) = Some (concat ws)).
  { destruct eod; [|rewrite app_nil_r; exact F]. change (256 :: ks ++ [257]) with ((256 :: ks) ++ [257]).
    apply feed_all_eod. exact F. }
  apply (carried_codes_decode _ _ _ _ _ C Hwf Hw F').
  pose proof (carries_length _ _ _ C Hw Hwf) as L. unfold blen, nbytes in L. cbn [bpos brest] in L. lia.
Qed.

(* a checker for the hypothesis [carries], so that concrete instances are established by computation *)
Fixpoint carriesb (b : bitst) (s : lzwst) (ks : list Z) : bool :=
  match ks with
  | [] => blen b <? znbits s
  | k :: r =>
      match readbits 4 b (znbits s) 0 with
      | Some (k', b') => (k' =? k) && match lzw_feed s k with FeedOk _ s' => carriesb b' s' r | _ => false end
      | None => false
      end
  end.
Lemma carriesb_sound : forall ks b s, wfb b -> widths_ok s -> carriesb b s ks = true -> carries b s ks.
Proof.
  induction ks as [|k ks IH]; intros b s Hwf Hw H; cbn [carriesb] in H.
  - constructor. lia.
  - destruct (readbits 4 b (znbits s) 0) as [[k' b']|] eqn:E; [|discriminate].
    apply andb_true_iff in H. destruct H as [Hk H]. destruct (lzw_feed s k) as [x s'| | |] eqn:Ef; try discriminate.
    assert (Hle : znbits s <= blen b).
    { destruct (Z_lt_le_dec (blen b) (znbits s)) as [Hlt|Hge]; [|exact Hge].
      rewrite (readbits_eof 4 b (znbits s) 0 Hwf Hlt) in E. discriminate. }
    destruct (readbits_spec 4 b (znbits s) 0 Hwf) as (b2 & E2 & Hwf2 & Hl2 & Hv2);
      [unfold widths_ok in Hw; lia|destruct Hwf as (Hp & _); unfold widths_ok in Hw; lia|lia|].
    rewrite E in E2. inversion E2; subst.
    assert (Ek : top b (znbits s) = k) by lia.
    apply (car_code b s k ks x s' b2); try assumption; try lia.
    apply IH; [exact Hwf2|apply (feed_width s k x s' Hw Ef)|exact H].
Qed.

(* non-vacuity: the example of ISO 32000-1 7.4.4.2 (-----A---B), through the theorem *)
Example lzw_iso_example :
  let data := [128; 11; 96; 80; 34; 12; 12; 133; 1] in
  let ws := [[45]; [45; 45]; [45; 45]; [65]; [45; 45; 45]; [66]] in
  let ks := [45; 258; 258; 65; 259; 66] in
  (Forall byte data /\ length ks = length ws /\ (forall t, (t < length ws)%nat -> phrase ws t <> []) /\
   (forall t, (t < length ws)%nat -> code_ok ws t (nth t ks 0)) /\
   carries (mkB data 0 8) lzw_init (256 :: ks ++ [257])) /\
  lzwdecode data = FOk [45; 45; 45; 45; 45; 65; 45; 45; 45; 66].
Proof.
  cbv zeta.
  assert (H : Forall byte [128; 11; 96; 80; 34; 12; 12; 133; 1] /\
              length [45; 258; 258; 65; 259; 66] = length [[45]; [45; 45]; [45; 45]; [65]; [45; 45; 45]; [66]] /\
              (forall t, (t < 6)%nat -> phrase [[45]; [45; 45]; [45; 45]; [65]; [45; 45; 45]; [66]] t <> []) /\
              (forall t, (t < 6)%nat -> code_ok [[45]; [45; 45]; [45; 45]; [65]; [45; 45; 45]; [66]] t (nth t [45; 258; 258; 65; 259; 66] 0)) /\
              carries (mkB [128; 11; 96; 80; 34; 12; 12; 133; 1] 0 8) lzw_init (256 :: [45; 258; 258; 65; 259; 66] ++ [257])).
  { split; [repeat constructor; unfold byte; lia|]. split; [reflexivity|]. split; [|split].
    - intros t Ht. do 6 (destruct t as [|t]; [cbn; discriminate|]). lia.
    - intros t Ht. destruct t as [|t]; [left; exists 45; cbn; repeat split; lia|].
      destruct t as [|t]; [right; exists 0%nat; cbn; repeat split; lia|].
      destruct t as [|t]; [right; exists 0%nat; cbn; repeat split; lia|].
      destruct t as [|t]; [left; exists 65; cbn; repeat split; lia|].
      destruct t as [|t]; [right; exists 1%nat; cbn; repeat split; lia|].
      destruct t as [|t]; [left; exists 66; cbn; repeat split; lia|]. lia.
    - apply carriesb_sound; [repeat split; cbn; try lia; repeat constructor; unfold byte; lia|unfold widths_ok; cbn; lia|].
      vm_compute. reflexivity. }
  split; [exact H|]. destruct H as (H1 & H2 & H3 & H4 & H5).
  exact (lzw_stream_decodes _ _ _ true H1 H2 H3 H4 H5).
Qed.

(* several segments, each introduced by a clear-table code *)
Theorem lzw_segmented_stream_decodes data segs (eod : bool) : Forall byte data -> Forall seg_ok segs ->
  carries (mkB data 0 8) lzw_init (flat_map (fun seg => 256 :: snd seg) segs ++ (if eod then [257] else [])) ->
  lzwdecode data = FOk (concat (flat_map fst segs)).
Proof.
  intros Hd Hs C. unfold lzwdecode.
  assert (Hwf : wfb (mkB data 0 8)) by (repeat split; cbn; try lia; exact Hd).
  assert (Hw : widths_ok lzw_init) by (unfold widths_ok; cbn; lia).
  destruct (lzw_segments_decode segs lzw_init Hs) as (s_end & F).
  assert (F' : feed_all lzw_init (flat_map (fun seg => 256 :: snd seg) segs ++ (if eod then [257] else [])) = Some (concat (flat_map fst segs))).
  { rewrite F. destruct eod; cbn [feed_all]; [unfold lzw_feed; cbn|]; cbn [option_map]; rewrite app_nil_r; reflexivity. }
  apply (carried_codes_decode _ _ _ _ _ C Hwf Hw F').
  pose proof (carries_length _ _ _ C Hw Hwf) as L. unfold blen, nbytes in L. cbn [bpos brest] in L. lia.
Qed.
