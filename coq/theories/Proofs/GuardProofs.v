(* C13: the guards bound the work. *)
From Coq Require Import ZArith List Bool Lia.
From PdfV Require Import Model.Guards.
Import ListNotations.
Open Scope Z_scope.

(* ---------- resolve1 ---------------------------------------------------------------------------------------------- *)
Inductive chain (st : store) : obj -> nat -> Z -> Prop :=
| chain_val v : chain st (OVal v) 0 v
| chain_ref id y n v : st id = Some y -> chain st y n v -> chain st (ORef id) (S n) v.

Lemma resolve_go_chain st d : forall n x v fuel, chain st x n v -> (n <= fuel)%nat -> resolve_go st d fuel x = OVal v.
Proof.
  induction n as [|n IH]; intros x v fuel H Hf; inversion H; subst.
  - destruct fuel; reflexivity.
  - destruct fuel as [|f]; [lia|]. cbn [resolve_go]. rewrite H1. apply IH; [assumption|lia].
Qed.
(* a chain of at most 100 indirect references is followed to its end *)
Theorem resolve1_follows st d x n v : chain st x n v -> (n <= 100)%nat -> resolve1 st d x = OVal v.
Proof. intros H Hn. unfold resolve1. apply (resolve_go_chain st d n); [exact H|unfold MAX_REFERENCE_CHAIN; lia]. Qed.

(* references that only ever lead to references (a cycle of any length) end with the default after at most 101 hops:
   resolve1 is total -- it is a structural recursion on the hop budget *)
Theorem resolve1_cycle st d : (forall i, exists j, st i = Some (ORef j)) -> forall i, resolve1 st d (ORef i) = d.
Proof.
  intros Hc. unfold resolve1. generalize MAX_REFERENCE_CHAIN. intros fuel.
  induction fuel as [|f IH]; intros i; [reflexivity|]. cbn [resolve_go]. destruct (Hc i) as [j ->]. apply IH.
Qed.
Theorem resolve1_value st d v : resolve1 st d (OVal v) = OVal v.
Proof. reflexivity. Qed.

(* ---------- guarded descent terminates on every finite graph, cyclic or not ---------------------------------- *)
Lemma mem_in x l : mem x l = true <-> In x l.
Proof.
  induction l as [|y r IH]; cbn [mem In]; [split; [discriminate|tauto]|].
  rewrite orb_true_iff, Z.eqb_eq, IH. split; intros [H|H]; auto.
Qed.

Section Descent.
  Variable kids : Z -> list Z.
  Variable U : list Z.                                     (* the object numbers of the document *)
  Hypothesis closed : forall n, In n U -> incl (kids n) U.

  Theorem descend_terminates : forall fuel path n, NoDup path -> incl path U -> In n U ->
    (length U - length path < fuel)%nat -> exists r, descend kids fuel path n = Some r.
  Proof.
    induction fuel as [|f IH]; intros path n Hnd Hincl Hn Hf; [lia|].
    cbn [descend]. destruct (mem n path) eqn:Em; [eexists; reflexivity|].
    assert (Hnp : ~ In n path) by (intros H; apply mem_in in H; congruence).
    assert (Hnd' : NoDup (n :: path)) by (constructor; assumption).
    assert (Hincl' : incl (n :: path) U) by (intros x [<-|Hx]; [exact Hn|apply Hincl; exact Hx]).
    pose proof (NoDup_incl_length Hnd' Hincl') as Hlen. cbn [length] in Hlen.
    assert (Hkids : forall ks, incl ks U ->
              exists r, (fix go (ks : list Z) : option (list Z) :=
                           match ks with
                           | [] => Some []
                           | k :: r => match descend kids f (n :: path) k, go r with
                                       | Some a, Some b => Some (a ++ b)
                                       | _, _ => None
                                       end
                           end) ks = Some r).
    { induction ks as [|k r IHk]; intros Hk; [eexists; reflexivity|].
      destruct (IH (n :: path) k Hnd' Hincl' (Hk k (or_introl eq_refl))) as [a Ha]; [cbn [length]; lia|].
      destruct (IHk (fun x Hx => Hk x (or_intror Hx))) as [b Hb]. rewrite Ha, Hb. eexists; reflexivity. }
    destruct (Hkids (kids n) (closed n Hn)) as [r Hr]. rewrite Hr. eexists; reflexivity.
  Qed.

  (* from the root with an empty path: a recursion budget of one more than the number of objects always suffices --
     whatever cycles the document contains *)
  Corollary descend_total n : In n U -> exists r, descend kids (S (length U)) [] n = Some r.
  Proof. intros Hn. apply descend_terminates; [constructor|intros x []|exact Hn|cbn [length]; lia]. Qed.
End Descent.

(* ---------- range limits ------------------------------------------------------------------------------------------ *)
Theorem cmap_range_bounded start end_ : 0 <= cmap_range_steps start end_ <= 65536.
Proof. unfold cmap_range_steps, MAX_RANGE. lia. Qed.
Theorem width_range_bounded c1 c2 : 0 <= width_range_steps c1 c2 <= 65536.
Proof. unfold width_range_steps. lia. Qed.
(* and ranges inside the limits are not shortened *)
Theorem cmap_range_exact start end_ : start <= end_ -> end_ - start < 65536 -> cmap_range_steps start end_ = end_ - start + 1.
Proof. unfold cmap_range_steps, MAX_RANGE. lia. Qed.
Theorem width_range_exact c1 c2 : 0 <= c1 <= c2 -> c2 <= 65535 -> width_range_steps c1 c2 = c2 - c1 + 1.
Proof. unfold width_range_steps. lia. Qed.
