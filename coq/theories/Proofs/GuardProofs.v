(* C13: the guards bound the work. *)
From Coq Require Import ZArith List Bool Lia.
From PdfV Require Import Model.Guards.
Import ListNotations.
Open Scope Z_scope.

(* ---------- resolve1 ---------------------------------------------------------------------------------------------- *)
Inductive chain (st : store) : obj -> nat -> Z -> Prop :=
| chain_val v : chain st (OVal v) 0 v
| chain_ref id y n v : st id = Some y -> chain st y n v -> chain st (ORef id) (S n) v.

Lemma resolve_go_chain st d : forall n x v fuel, chain st x n v -> (n <= fuel)%nat -> resolve_go st d fuel x = OVal v.
Proof.
  induction n as [|n IH]; intros x v fuel H Hf; inversion H; subst.
  - destruct fuel; reflexivity.
  - destruct fuel as [|f]; [lia|]. cbn [resolve_go]. rewrite H1. apply IH; [assumption|lia].
Qed.
(* a chain of at most 100 indirect references is followed to its end *)
Theorem resolve1_follows st d x n v : chain st x n v -> (n <= 100)%nat -> resolve1 st d x = OVal v.
Proof. intros H Hn. unfold resolve1. apply (resolve_go_chain st d n); [exact H|unfold MAX_REFERENCE_CHAIN; lia]. Qed.

(* references that only ever lead to references (a cycle of any length) end with the default after at most 101 hops:
   resolve1 is total -- it is a structural recursion on the hop budget *)
Theorem resolve1_cycle st d : (forall i, exists j, st i = Some (ORef j)) -> forall i, resolve1 st d (ORef i) = d.
Proof.
  intros Hc. unfold resolve1. generalize MAX_REFERENCE_CHAIN. intros fuel.
  induction fuel as [|f IH]; intros i; [reflexivity|]. cbn [resolve_go]. destruct (Hc i) as [j ->]. apply IH.
Qed.
Theorem resolve1_value st d v : resolve1 st d (OVal v) = OVal v.
Proof. reflexivity. Qed.

(* ---------- guarded descent terminates on every finite graph, cyclic or not ---------------------------------- *)
Lemma mem_in x l : mem x l = true <-> In x l.
Proof.
  induction l as [|y r IH]; cbn [mem In]; [split; [discriminate|tauto]|].
  rewrite orb_true_iff, Z.eqb_eq, IH. split; intros [H|H]; auto.
Qed.

Section Descent.
  Variable kids : Z -> list Z.
  Variable U : list Z.                                     (* the object numbers of the document *)
  Hypothesis closed : forall n, In n U -> incl (kids n) U.

  Theorem descend_terminates : forall fuel path n, NoDup path -> incl path U -> In n U ->
    (length U - length path < fuel)%nat -> exists r, descend kids fuel path n = Some r.
  Proof.
    induction fuel as [|f IH]; intros path n Hnd Hincl Hn Hf; [lia|].
    cbn [descend]. destruct (mem n path) eqn:Em; [eexists; reflexivity|].
    assert (Hnp : ~ In n path) by (intros H; apply mem_in in H; congruence).
    assert (Hnd' : NoDup (n :: path)) by (constructor; assumption).
    assert (Hincl' : incl (n :: path) U) by (intros x [<-|Hx]; [exact Hn|apply Hincl; exact Hx]).
    pose proof (NoDup_incl_length Hnd' Hincl') as Hlen. cbn [length] in Hlen.
    assert (Hkids : forall ks, incl ks U ->
              exists r, (fix go (ks : list Z) : option (list Z) :=
                           match ks with
                           | [] => Some []
                           | k :: r => match descend kids f (n :: path) k, go r with
                                       | Some a, Some b => Some (a ++ b)
                                       | _, _ => None
                                       end
                           end) ks = Some r).
    { induction ks as [|k r IHk]; intros Hk; [eexists; reflexivity|].
      destruct (IH (n :: path) k Hnd' Hincl' (Hk k (or_introl eq_refl))) as [a Ha]; [cbn [length]; lia|].
      destruct (IHk (fun x Hx => Hk x (or_intror Hx))) as [b Hb]. rewrite Ha, Hb. eexists; reflexivity. }
    destruct (Hkids (kids n) (closed n Hn)) as [r Hr]. rewrite Hr. eexists; reflexivity.
  Qed.

  (* from the root with an empty path: a recursion budget of one more than the number of objects always suffices --
     whatever cycles the document contains *)
  Corollary descend_total n : In n U -> exists r, descend kids (S (length U)) [] n = Some r.
  Proof. intros Hn. apply descend_terminates; [constructor|intros x []|exact Hn|cbn [length]; lia]. Qed.
End Descent.

(* ---------- range limits ------------------------------------------------------------------------------------------ *)
Theorem cmap_range_bounded start end_ : 0 <= cmap_range_steps start end_ <= 65536.
Proof. unfold cmap_range_steps, MAX_RANGE. lia. Qed.
Theorem width_range_bounded c1 c2 : 0 <= width_range_steps c1 c2 <= 65536.
Proof. unfold width_range_steps. lia. Qed.
(* and ranges inside the limits are not shortened *)
Theorem cmap_range_exact start end_ : start <= end_ -> end_ - start < 65536 -> cmap_range_steps start end_ = end_ - start + 1.
Proof. unfold cmap_range_steps, MAX_RANGE. lia. Qed.
Theorem width_range_exact c1 c2 : 0 <= c1 <= c2 -> c2 <= 65535 -> width_range_steps c1 c2 = c2 - c1 + 1.
Proof. unfold width_range_steps. lia. Qed.

(* ---------- read_xref_from: every section is read at most once, on any graph of /Prev and /XRefStm links ------------ *)
Lemma nodup_app_intro (a b : list Z) : NoDup a -> NoDup b -> (forall x, In x a -> In x b -> False) -> NoDup (a ++ b).
Proof.
  induction a as [|x a IH]; intros Ha Hb Hd; [exact Hb|]. inversion Ha; subst. cbn [app]. constructor.
  - intros Hin. apply in_app_or in Hin. destruct Hin as [Hin|Hin]; [contradiction|]. apply (Hd x); [left; reflexivity|exact Hin].
  - apply IH; [assumption|assumption|]. intros y Hy1 Hy2. apply (Hd y); [right; exact Hy1|exact Hy2].
Qed.

Section XRead.
  Variable links : Z -> list Z.
  Variable U : list Z.
  Hypothesis closed : forall n, In n U -> incl (links n) U.

  Definition unv (vis : list Z) : nat := length (filter (fun u => negb (mem u vis)) U).

  Lemma filter_len_le (f g : Z -> bool) (l : list Z) : (forall x, f x = true -> g x = true) ->
    (length (filter f l) <= length (filter g l))%nat.
  Proof.
    intros H. induction l as [|x r IH]; [cbn; lia|]. cbn [filter].
    destruct (f x) eqn:Ef; [rewrite (H x Ef); cbn [length]; lia|destruct (g x); cbn [length]; lia].
  Qed.
  Lemma unv_mono vis vis' : incl vis vis' -> (unv vis' <= unv vis)%nat.
  Proof.
    intros H. unfold unv. apply filter_len_le. intros x Hx. apply negb_true_iff in Hx. apply negb_true_iff.
    destruct (mem x vis) eqn:E; [|reflexivity]. apply mem_in, H, mem_in in E. congruence.
  Qed.
  Lemma unv_add vis n : In n U -> mem n vis = false -> (unv (n :: vis) < unv vis)%nat.
  Proof.
    intros Hn Hm. unfold unv. clear closed. induction U as [|u r IH]; [destruct Hn|].
    assert (Hle : forall l, (length (filter (fun u => negb (mem u (n :: vis))) l) <= length (filter (fun u => negb (mem u vis)) l))%nat).
    { intros l. apply filter_len_le. intros x Hx. apply negb_true_iff in Hx. apply negb_true_iff.
      change (mem x (n :: vis)) with ((x =? n) || mem x vis) in Hx. apply orb_false_iff in Hx. apply Hx. }
    cbn [filter]. destruct Hn as [->|Hn].
    - rewrite Hm. change (mem n (n :: vis)) with ((n =? n) || mem n vis). rewrite Z.eqb_refl. cbn [orb negb length].
      specialize (Hle r). lia.
    - specialize (IH Hn). specialize (Hle [u]). cbn [filter] in Hle.
      destruct (negb (mem u (n :: vis))), (negb (mem u vis)); cbn [length] in *; lia.
  Qed.

  (* what a run of xread guarantees *)
  Definition good (vis : list Z) (res : list Z * list Z) : Prop :=
    let '(vis', o) := res in
    incl vis vis' /\ NoDup o /\ (forall x, In x o -> ~ In x vis) /\ (forall x, In x vis' <-> In x vis \/ In x o) /\ incl o U.

  Theorem xread_terminates : forall fuel vis start, In start U -> (unv vis < fuel)%nat ->
    exists res, xread links fuel vis start = Some res /\ good vis res.
  Proof.
    induction fuel as [|f IH]; intros vis start Hs Hf; [lia|].
    cbn [xread]. destruct (mem start vis) eqn:Em.
    - exists (vis, []). split; [reflexivity|]. cbn. repeat split; try (intros x []); auto using incl_refl; try constructor; tauto.
    - assert (Hlt : (unv (start :: vis) < f)%nat) by (pose proof (unv_add vis start Hs Em); lia).
      assert (Hnot : ~ In start vis) by (intros Hin; apply mem_in in Hin; congruence).
      assert (G : forall ks vis0, incl ks U -> incl (start :: vis) vis0 ->
                exists res, (fix go (ks : list Z) (vis : list Z) : option (list Z * list Z) :=
                    match ks with
                    | [] => Some (vis, [])
                    | k :: r => match xread links f vis k with
                                | Some (vis1, o1) => match go r vis1 with
                                                     | Some (vis2, o2) => Some (vis2, o1 ++ o2)
                                                     | None => None
                                                     end
                                | None => None
                                end
                    end) ks vis0 = Some res /\ good vis0 res).
      { induction ks as [|k r IHr]; intros vis0 Hk Hv.
        - exists (vis0, []). split; [reflexivity|]. cbn. repeat split; try (intros x []); auto using incl_refl; try constructor; tauto.
        - destruct (IH vis0 k (Hk k (or_introl eq_refl))) as ([vis1 o1] & E1 & G1).
          { pose proof (unv_mono (start :: vis) vis0 Hv). lia. }
          destruct G1 as (I1 & N1 & D1 & M1 & U1).
          destruct (IHr vis1 (fun x Hx => Hk x (or_intror Hx)) (incl_tran Hv I1)) as ([vis2 o2] & E2 & G2).
          destruct G2 as (I2 & N2 & D2 & M2 & U2).
          exists (vis2, o1 ++ o2). rewrite E1, E2. split; [reflexivity|]. cbn. repeat split.
          + exact (incl_tran I1 I2).
          + apply nodup_app_intro; [exact N1|exact N2|]. intros x H1 H2. apply (D2 x H2). apply M1. right. exact H1.
          + intros x Hx Hin. apply in_app_or in Hx. destruct Hx as [Hx|Hx]; [exact (D1 x Hx Hin)|apply (D2 x Hx), I1, Hin].
          + intros Hx. apply M2 in Hx. destruct Hx as [Hx|Hx]; [apply M1 in Hx; destruct Hx; [left|right; apply in_or_app; left]; assumption|right; apply in_or_app; right; exact Hx].
          + intros [Hx|Hx]; [apply I2, I1, Hx|]. apply in_app_or in Hx. destruct Hx as [Hx|Hx]; [apply I2, M1; right; exact Hx|apply M2; right; exact Hx].
          + apply incl_app; assumption. }
      destruct (G (links start) (start :: vis) (closed start Hs) (incl_refl _)) as ([vis' o] & E & (I1 & N1 & D1 & M1 & U1)).
      rewrite E. exists (vis', start :: o). split; [reflexivity|]. cbn. repeat split.
      + intros x Hx. apply I1. right. exact Hx.
      + constructor; [|exact N1]. intros Hin. apply (D1 start Hin). left. reflexivity.
      + intros x [<-|Hx] Hin; [exact (Hnot Hin)|]. apply (D1 x Hx). right. exact Hin.
      + intros Hx. apply M1 in Hx. destruct Hx as [[<-|Hx]|Hx]; [right; left; reflexivity|left; exact Hx|right; right; exact Hx].
      + intros [Hx|[<-|Hx]]; [apply I1; right; exact Hx|apply I1; left; reflexivity|apply M1; right; exact Hx].
      + intros x [<-|Hx]; [exact Hs|apply U1, Hx].
  Qed.

  Corollary xread_total start : In start U -> exists vis o, xread links (S (length U)) [] start = Some (vis, o) /\ NoDup o /\ incl o U.
  Proof.
    intros Hs. destruct (xread_terminates (S (length U)) [] start Hs) as ([vis o] & E & (_ & N & _ & _ & I)).
    - unfold unv. clear. induction U as [|u r IH]; cbn [filter length]; [lia|]. destruct (negb (mem u [])); cbn [length]; lia.
    - exists vis, o. auto.
  Qed.
End XRead.
