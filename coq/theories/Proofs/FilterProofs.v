(* C03 proofs: each decoder inverts every encoding in its encoder relation. *)
From Coq Require Import ZArith List Bool Lia.
From PdfV Require Import Base.Num Gen.FilterGen Model.Filters.
Import ListNotations.
Open Scope Z_scope.

Definition byte (c : Z) : Prop := 0 <= c < 256.

(* ================= RunLength ================================================================ *)
Inductive rlrun := RLit (bs : list Z) | RRep (b : Z) (n : nat).
Definition run_ok (r : rlrun) : Prop :=
  match r with
  | RLit bs => (1 <= length bs <= 128)%nat
  | RRep b n => (2 <= n <= 128)%nat
  end.
Definition run_enc (r : rlrun) : list Z :=
  match r with
  | RLit bs => (Z.of_nat (length bs) - 1) :: bs
  | RRep b n => (257 - Z.of_nat n) :: [b]
  end.
Definition run_den (r : rlrun) : list Z :=
  match r with RLit bs => bs | RRep b n => repeat b n end.

Lemma firstn_app_exact {A} (a b : list A) : firstn (length a) (a ++ b) = a.
Proof. induction a; cbn; [destruct b; reflexivity|f_equal; auto]. Qed.
Lemma skipn_app_exact {A} (a b : list A) : skipn (length a) (a ++ b) = b.
Proof. induction a; cbn; auto. Qed.

Lemma firstn_app_len {A} (a b : list A) n : length a = n -> firstn n (a ++ b) = a.
Proof. intros <-. apply firstn_app_exact. Qed.
Lemma skipn_app_len {A} (a b : list A) n : length a = n -> skipn n (a ++ b) = b.
Proof. intros <-. apply skipn_app_exact. Qed.

(* the tail after the last run: nothing, or the EOD marker followed by anything *)
Definition rl_tail (t : list Z) : Prop := t = [] \/ exists junk, t = 128 :: junk.

Lemma rl_runs : forall runs tail fuel,
  Forall run_ok runs -> rl_tail tail ->
  (length (flat_map run_enc runs ++ tail) < fuel)%nat ->
  rldecode_go fuel (flat_map run_enc runs ++ tail) = FOk (flat_map run_den runs).
Proof.
  induction runs as [|r runs IH]; intros tail fuel Hok Htail Hf.
  - cbn [flat_map app]. destruct fuel as [|f]; [lia|].
    destruct Htail as [->|[junk ->]]; reflexivity.
  - inversion Hok as [|? ? Hr Hrs]; subst. destruct fuel as [|f]; [lia|].
    cbn [flat_map]. rewrite <- app_assoc. destruct r as [bs|b n]; cbn [run_enc run_den run_ok] in *.
    + cbn [app rldecode_go].
      assert (E1 : (Z.of_nat (length bs) - 1 =? 128) = false) by (apply Z.eqb_neq; lia).
      assert (E2 : (Z.of_nat (length bs) - 1 <? 128) = true) by (apply Z.ltb_lt; lia).
      rewrite E1, E2. replace (Z.to_nat (Z.of_nat (length bs) - 1 + 1)) with (length bs) by lia.
      assert (E3 : (length (bs ++ flat_map run_enc runs ++ tail) <? length bs)%nat = false).
      { apply Nat.ltb_ge. rewrite app_length. lia. }
      rewrite E3, firstn_app_exact, skipn_app_exact.
      rewrite IH; [reflexivity|exact Hrs|exact Htail|].
      cbn [flat_map run_enc] in Hf. rewrite <- app_assoc in Hf. cbn [app length] in Hf.
      rewrite app_length in Hf. lia.
    + cbn [app rldecode_go].
      assert (E1 : (257 - Z.of_nat n =? 128) = false) by (apply Z.eqb_neq; lia).
      assert (E2 : (257 - Z.of_nat n <? 128) = false) by (apply Z.ltb_ge; lia).
      rewrite E1, E2. replace (Z.to_nat (257 - (257 - Z.of_nat n))) with n by lia.
      rewrite IH; [reflexivity|exact Hrs|exact Htail|].
      cbn [flat_map run_enc] in Hf. rewrite <- app_assoc in Hf. cbn [app length] in Hf. lia.
Qed.

(* C03: every split of the data into literal runs (1..128 bytes) and repeat runs (2..128
   copies), with the EOD marker (and anything after it) or without *)
Theorem rl_roundtrip : forall runs tail, Forall run_ok runs -> rl_tail tail ->
  rldecode (flat_map run_enc runs ++ tail) = FOk (flat_map run_den runs).
Proof. intros. unfold rldecode. apply rl_runs; auto. Qed.

(* ================= ASCIIHex =================================================================== *)
Definition hexdigit_of (h v : Z) : Prop := is_hex h = true /\ hexv h = v.

(* text (before the terminator) spelling the bytes: pairs of hex digits, either case, with
   white space anywhere *)
Inductive HexSp : list Z -> list Z -> Prop :=
| HexNil : forall ws, forallb is_ws ws = true -> HexSp [] ws
| HexByte : forall b d ws1 h1 ws2 h2 rest,
    forallb is_ws ws1 = true -> forallb is_ws ws2 = true ->
    hexdigit_of h1 (b / 16) -> hexdigit_of h2 (b mod 16) -> byte b ->
    HexSp d rest -> HexSp (b :: d) (ws1 ++ [h1] ++ ws2 ++ [h2] ++ rest).

Lemma filter_ws_all ws : forallb is_ws ws = true -> filter (fun c => negb (is_ws c)) ws = [].
Proof.
  induction ws as [|c r IH]; cbn; [reflexivity|]. intros H. apply andb_true_iff in H. destruct H as [Hc Hr].
  rewrite Hc. cbn. apply IH. exact Hr.
Qed.

Lemma hex_not_ws h : is_hex h = true -> is_ws h = false.
Proof.
  intros H. destruct (is_ws h) eqn:E; [|reflexivity]. exfalso.
  unfold is_hex, is_ws in *.
  rewrite !orb_true_iff, !andb_true_iff, !Z.leb_le in H.
  rewrite !orb_true_iff, !andb_true_iff, !Z.leb_le, Z.eqb_eq in E. lia.
Qed.

Lemma hex_not_gt h : is_hex h = true -> (h =? 62) = false.
Proof.
  unfold is_hex. intros H. apply Z.eqb_neq. intros ->. cbn in H. discriminate.
Qed.

Definition flat2 (ps : list (Z * Z)) : list Z := flat_map (fun p => [fst p; snd p]) ps.
Definition pair_ok (p : Z * Z) : Prop := is_hex (fst p) = true /\ is_hex (snd p) = true.
Definition pair_val (p : Z * Z) : Z := 16 * hexv (fst p) + hexv (snd p).

Lemma unhexlify_pairs ps : Forall pair_ok ps -> unhexlify (flat2 ps) = FOk (map pair_val ps).
Proof.
  induction 1 as [|[a b] r [Ha Hb] Hr IH]; [reflexivity|].
  cbn [flat2 flat_map app fst snd unhexlify] in *. rewrite Ha, Hb. cbn [andb].
  unfold flat2 in IH. rewrite IH. reflexivity.
Qed.

Lemma unhexlify_pairs_odd ps h : Forall pair_ok ps -> is_hex h = true ->
  unhexlify (flat2 ps ++ [h; 48]) = FOk (map pair_val ps ++ [16 * hexv h]).
Proof.
  intros Hps Hh. induction Hps as [|[a b] r [Ha Hb] Hr IH].
  - cbn. rewrite Hh. cbn. f_equal. f_equal. change (hexv 48) with 0. lia.
  - cbn [flat2 flat_map app fst snd unhexlify] in *. rewrite Ha, Hb. cbn [andb].
    unfold flat2 in IH. rewrite IH. reflexivity.
Qed.

(* the filtered text is the plain digit string *)
Lemma hexsp_filtered d t : HexSp d t ->
  exists ps, filter (fun c => negb (is_ws c)) t = flat2 ps /\ Forall pair_ok ps /\ map pair_val ps = d.
Proof.
  induction 1 as [ws Hws|b d ws1 h1 ws2 h2 rest H1 H2 [Hh1 Hv1] [Hh2 Hv2] Hb Hsp IH].
  - exists []. rewrite filter_ws_all by exact Hws. repeat split. constructor.
  - destruct IH as (ps & Ef & Hall & Hd).
    exists ((h1, h2) :: ps). rewrite !filter_app, (filter_ws_all ws1 H1), (filter_ws_all ws2 H2).
    cbn [filter app]. rewrite (hex_not_ws h1 Hh1), (hex_not_ws h2 Hh2). cbn [negb]. rewrite Ef.
    repeat split.
    + constructor; [split; assumption|exact Hall].
    + cbn [map]. rewrite Hd. f_equal. unfold pair_val. cbn [fst snd]. rewrite Hv1, Hv2.
      unfold byte in Hb. pose proof (Z.div_mod b 16 ltac:(lia)). lia.
Qed.

Lemma flat2_hex ps : Forall pair_ok ps -> Forall (fun h => is_hex h = true) (flat2 ps).
Proof.
  induction 1 as [|[a b] r [Ha Hb] Hr IH]; [constructor|].
  cbn. constructor; [exact Ha|]. constructor; [exact Hb|exact IH].
Qed.
Lemma flat2_even ps : Nat.even (length (flat2 ps)) = true.
Proof. induction ps as [|p r IH]; [reflexivity|]. cbn [flat2 flat_map app length]. exact IH. Qed.

Lemma before_gt_hex hs : Forall (fun h => is_hex h = true) hs ->
  forall junk, before_gt (hs ++ 62 :: junk) = (hs, true).
Proof.
  induction 1 as [|h r Hh Hr IH]; intros junk; cbn [app before_gt].
  - reflexivity.
  - rewrite (hex_not_gt h Hh), IH. reflexivity.
Qed.
Lemma before_gt_none hs : Forall (fun h => is_hex h = true) hs -> before_gt hs = (hs, false).
Proof.
  induction 1 as [|h r Hh Hr IH]; cbn [before_gt]; [reflexivity|]. rewrite (hex_not_gt h Hh), IH. reflexivity.
Qed.

Lemma even_not_odd n : Nat.even n = true -> Nat.odd n = false.
Proof. intros H. unfold Nat.odd. rewrite H. reflexivity. Qed.

(* C03: any case, white space anywhere, with '>' (then anything) or without *)
Theorem ahx_roundtrip : forall d t, HexSp d t ->
  asciihexdecode t = FOk d /\ forall junk, asciihexdecode (t ++ 62 :: junk) = FOk d.
Proof.
  intros d t H. destruct (hexsp_filtered d t H) as (ps & Ef & Hall & Hd). subst d. split.
  - unfold asciihexdecode. rewrite Ef, (before_gt_none _ (flat2_hex ps Hall)). cbn [andb].
    apply unhexlify_pairs. exact Hall.
  - intros junk. unfold asciihexdecode. rewrite filter_app, Ef. cbn [filter].
    change (is_ws 62) with false. cbn [negb].
    rewrite (before_gt_hex _ (flat2_hex ps Hall)). rewrite (even_not_odd _ (flat2_even ps)). cbn [andb].
    apply unhexlify_pairs. exact Hall.
Qed.

(* the odd case: the final byte's low nibble is 0 and its digit is omitted before '>' *)
Theorem ahx_odd_final : forall d t b h1 ws junk,
  HexSp d t -> byte b -> b mod 16 = 0 -> hexdigit_of h1 (b / 16) -> forallb is_ws ws = true ->
  asciihexdecode (t ++ [h1] ++ ws ++ 62 :: junk) = FOk (d ++ [b]).
Proof.
  intros d t b h1 ws junk H Hb Hlow [Hh1 Hv1] Hws.
  destruct (hexsp_filtered d t H) as (ps & Ef & Hall & Hd). subst d.
  unfold asciihexdecode. rewrite !filter_app, Ef, (filter_ws_all ws Hws). cbn [filter app].
  rewrite (hex_not_ws h1 Hh1). change (is_ws 62) with false. cbn [negb app].
  assert (Hall' : Forall (fun h => is_hex h = true) (flat2 ps ++ [h1])).
  { apply Forall_app. split; [apply flat2_hex; exact Hall|constructor; [exact Hh1|constructor]]. }
  match goal with |- context [before_gt (flat2 ps ++ h1 :: 62 :: ?j)] =>
    replace (flat2 ps ++ h1 :: 62 :: j) with ((flat2 ps ++ [h1]) ++ 62 :: j) by (rewrite <- app_assoc; reflexivity);
    rewrite (before_gt_hex _ Hall' j) end.
  assert (Hodd : Nat.odd (length (flat2 ps ++ [h1])) = true).
  { rewrite app_length. cbn [length]. rewrite Nat.add_1_r, Nat.odd_succ. apply flat2_even. }
  rewrite Hodd. cbn [andb]. rewrite <- app_assoc. cbn [app].
  rewrite (unhexlify_pairs_odd ps h1 Hall Hh1). f_equal. f_equal. f_equal.
  rewrite Hv1. unfold byte in Hb. pose proof (Z.div_mod b 16 ltac:(lia)). lia.
Qed.

(* ================= predictors ================================================================= *)
Definition pred_of (ft : Z) (l u ul : Z) : Z :=
  if ft =? 1 then l else if ft =? 2 then u else if ft =? 3 then (l + u) / 2
  else if ft =? 4 then paeth_predictor ZOps l u ul else 0.

(* PNG row filter (the encoder side, PNG specification section 6): position j of the row *)
Fixpoint enc_from (ft bpp : Z) (raw_all above suffix : list Z) (j : Z) : list Z :=
  match suffix with
  | [] => []
  | x :: r =>
      let l := if j - bpp <? 0 then 0 else nth (Z.to_nat (j - bpp)) raw_all 0 in
      let u := nth (Z.to_nat j) above 0 in
      let ul := if j - bpp <? 0 then 0 else nth (Z.to_nat (j - bpp)) above 0 in
      ((x - pred_of ft l u ul) mod 256) :: enc_from ft bpp raw_all above r (j + 1)
  end.
Definition enc_row (ft bpp : Z) (raw above : list Z) : list Z := enc_from ft bpp raw above raw 0.

Lemma enc_from_length ft bpp raw_all above : forall suffix j,
  length (enc_from ft bpp raw_all above suffix j) = length suffix.
Proof. induction suffix as [|x r IH]; intros j; cbn; [reflexivity|]. rewrite IH. reflexivity. Qed.

Lemma unfilter_byte x p : byte x -> ((x - p) mod 256 + p) mod 256 = x.
Proof.
  intros Hx. rewrite Z.add_mod_idemp_l by lia. replace (x - p + p) with x by lia.
  apply Z.mod_small. exact Hx.
Qed.

Lemma nthd_prefix (prefix suffix : list Z) k : 0 <= k < Z.of_nat (length prefix) ->
  nthd prefix k = Some (nth (Z.to_nat k) (prefix ++ suffix) 0).
Proof.
  intros Hk. unfold nthd. assert (E : (k <? 0) = false) by (apply Z.ltb_ge; lia). rewrite E.
  rewrite app_nth1 by lia. apply nth_error_nth'. lia.
Qed.
Lemma nthd_in (l : list Z) k : 0 <= k < Z.of_nat (length l) -> nthd l k = Some (nth (Z.to_nat k) l 0).
Proof.
  intros Hk. unfold nthd. assert (E : (k <? 0) = false) by (apply Z.ltb_ge; lia). rewrite E.
  apply nth_error_nth'. lia.
Qed.

(* filter types 1 (Sub), 3 (Average), 4 (Paeth): the left-to-right loop rebuilds the row *)
Lemma png_row_ok ft bpp above : (ft = 1 \/ ft = 3 \/ ft = 4) -> 1 <= bpp ->
  forall suffix prefix,
    length above = length (prefix ++ suffix) -> Forall byte suffix ->
    png_row ft bpp (enc_from ft bpp (prefix ++ suffix) above suffix (Z.of_nat (length prefix)))
            above prefix (Z.of_nat (length prefix))
    = FOk (prefix ++ suffix).
Proof.
  intros Hft Hbpp. induction suffix as [|x r IH]; intros prefix Hlen Hb.
  - cbn. rewrite app_nil_r. reflexivity.
  - inversion Hb as [|? ? Hx Hr]; subst.
    cbn [enc_from png_row]. set (j := Z.of_nat (length prefix)).
    assert (Hj : 0 <= j) by (unfold j; lia).
    assert (Hja : j < Z.of_nat (length above)).
    { rewrite Hlen, app_length. cbn [length]. unfold j. lia. }
    rewrite (nthd_in above j) by lia.
    destruct (j - bpp <? 0) eqn:E.
    + (* no pixel to the left *)
      assert (Hnext : forall v, v = x ->
                png_row ft bpp (enc_from ft bpp (prefix ++ x :: r) above r (j + 1)) above (prefix ++ [v]) (j + 1)
                = FOk (prefix ++ x :: r)).
      { intros v ->. specialize (IH (prefix ++ [x])). rewrite <- app_assoc in IH. cbn [app] in IH.
        replace (Z.of_nat (length (prefix ++ [x]))) with (j + 1) in IH
          by (rewrite app_length; cbn [length]; unfold j; lia).
        apply IH; [exact Hlen|exact Hr]. }
      destruct Hft as [ -> | [ -> | -> ] ]; cbn [Z.eqb Pos.eqb option_map pred_of]; apply Hnext; apply unfilter_byte; exact Hx.
    + apply Z.ltb_ge in E.
      rewrite (nthd_prefix prefix (x :: r) (j - bpp)) by (unfold j in *; lia).
      rewrite (nthd_in above (j - bpp)) by lia.
      assert (Hnext : forall v, v = x ->
                png_row ft bpp (enc_from ft bpp (prefix ++ x :: r) above r (j + 1)) above (prefix ++ [v]) (j + 1)
                = FOk (prefix ++ x :: r)).
      { intros v ->. specialize (IH (prefix ++ [x])). rewrite <- app_assoc in IH. cbn [app] in IH.
        replace (Z.of_nat (length (prefix ++ [x]))) with (j + 1) in IH
          by (rewrite app_length; cbn [length]; unfold j; lia).
        apply IH; [exact Hlen|exact Hr]. }
      destruct Hft as [ -> | [ -> | -> ] ]; cbn [Z.eqb Pos.eqb option_map pred_of]; apply Hnext; apply unfilter_byte; exact Hx.
Qed.

(* filter type 2 (Up) *)
Lemma png_up_ok bpp raw_all : forall suffix above_suffix above j,
  length suffix = length above_suffix -> Forall byte suffix ->
  (forall k, (k < length above_suffix)%nat -> nth (Z.to_nat j + k) above 0 = nth k above_suffix 0) -> 0 <= j ->
  png_up (enc_from 2 bpp raw_all above suffix j) above_suffix = suffix.
Proof.
  induction suffix as [|x r IH]; intros above_suffix above j Hlen Hb Hnth Hj.
  - reflexivity.
  - destruct above_suffix as [|a ar]; [discriminate|]. inversion Hb as [|? ? Hx Hr]; subst.
    cbn [enc_from png_up pred_of Z.eqb Pos.eqb].
    pose proof (Hnth 0%nat ltac:(cbn; lia)) as H0. rewrite Nat.add_0_r in H0. cbn [nth] in H0. rewrite H0.
    rewrite unfilter_byte by exact Hx. f_equal.
    apply (IH ar above (j + 1)); [cbn in Hlen; lia|exact Hr| |lia].
    intros k Hk. specialize (Hnth (S k) ltac:(cbn; lia)). cbn [nth] in Hnth. rewrite <- Hnth. f_equal. lia.
Qed.

Lemma enc0_id bpp raw_all above : forall suffix j, Forall byte suffix ->
  enc_from 0 bpp raw_all above suffix j = suffix.
Proof.
  induction suffix as [|x r IH]; intros j Hb; [reflexivity|]. inversion Hb as [|? ? Hx Hr]; subst.
  cbn [enc_from pred_of Z.eqb]. rewrite Z.sub_0_r, Z.mod_small by exact Hx. f_equal. apply IH. exact Hr.
Qed.

(* rows: (filter type, raw bytes) *)
Fixpoint png_encode (bpp : Z) (rows : list (Z * list Z)) (above : list Z) : list Z :=
  match rows with
  | [] => []
  | (ft, raw) :: r => ft :: enc_row ft bpp raw above ++ png_encode bpp r raw
  end.

Definition row_ok (n : nat) (row : Z * list Z) : Prop :=
  0 <= fst row <= 4 /\ length (snd row) = n /\ Forall byte (snd row).

Lemma png_lines_ok bpp n : 1 <= bpp -> forall rows above fuel,
  Forall (row_ok n) rows -> length above = n ->
  (length (png_encode bpp rows above) < fuel)%nat ->
  png_lines fuel n bpp (png_encode bpp rows above) above = FOk (concat (map snd rows)).
Proof.
  intros Hbpp. induction rows as [|[ft raw] rows IH]; intros above fuel Hok Ha Hf.
  - destruct fuel; [cbn in Hf; lia|]. reflexivity.
  - pose proof (Forall_inv Hok) as (Hft & Hlen & Hb). pose proof (Forall_inv_tail Hok) as Hrs.
    cbn [fst snd] in *.
    destruct fuel as [|f]; [lia|]. cbn [png_encode png_lines].
    assert (Hel : length (enc_row ft bpp raw above) = n) by (unfold enc_row; rewrite enc_from_length; exact Hlen).
    rewrite !(firstn_app_len _ _ n Hel), (skipn_app_len _ _ n Hel).
    assert (Hrow : (if ft =? 0 then FOk (enc_row ft bpp raw above)
                    else if ft =? 2 then FOk (png_up (enc_row ft bpp raw above) above)
                    else if (ft =? 1) || (ft =? 3) || (ft =? 4) then png_row ft bpp (enc_row ft bpp raw above) above [] 0
                    else FErr EValue) = FOk raw).
    { assert (Hc : ft = 0 \/ ft = 1 \/ ft = 2 \/ ft = 3 \/ ft = 4) by lia.
      destruct Hc as [ -> | [ -> | [ -> | [ -> | -> ] ] ] ]; cbn [Z.eqb Pos.eqb orb].
      - unfold enc_row. rewrite enc0_id by exact Hb. reflexivity.
      - unfold enc_row. apply (png_row_ok 1 bpp above (or_introl eq_refl) Hbpp raw []); [cbn; lia|exact Hb].
      - f_equal. unfold enc_row. apply (png_up_ok bpp raw raw above above 0); [lia|exact Hb| |lia].
        intros k _. reflexivity.
      - unfold enc_row. apply (png_row_ok 3 bpp above (or_intror (or_introl eq_refl)) Hbpp raw []); [cbn; lia|exact Hb].
      - unfold enc_row. apply (png_row_ok 4 bpp above (or_intror (or_intror eq_refl)) Hbpp raw []); [cbn; lia|exact Hb]. }
    rewrite Hrow. cbn [fbind]. rewrite IH; [reflexivity|exact Hrs|exact Hlen|].
    cbn [png_encode length] in Hf. rewrite app_length in Hf. lia.
Qed.

(* C03: every colours x columns geometry at 8 bits, every per-row filter choice *)
Theorem png_roundtrip : forall colors columns rows, 1 <= colors -> 1 <= columns ->
  Forall (row_ok (Z.to_nat (colors * columns))) rows ->
  apply_png_predictor colors columns 8
    (png_encode colors rows (repeat 0 (Z.to_nat (colors * columns))))
  = FOk (concat (map snd rows)).
Proof.
  intros colors columns rows Hc Hw Hok. unfold apply_png_predictor. cbn [Z.eqb Pos.eqb orb negb].
  replace ((colors <? 1) || (columns <? 1)) with false by (symmetry; apply orb_false_intro; apply Z.ltb_ge; lia).
  set (p := colors * columns) in *.
  replace ((p * 8 + 7) / 8) with p by (apply Z.div_unique with (r := 7); lia).
  replace (Z.max 1 (colors * 8 / 8)) with colors by (rewrite Z.div_mul by lia; lia).
  apply png_lines_ok; [lia|exact Hok|apply repeat_length|lia].
Qed.

(* TIFF predictor 2: horizontal differencing per component *)
Fixpoint tiff_enc_from (bpp : Z) (raw_all suffix : list Z) (i : Z) : list Z :=
  match suffix with
  | [] => []
  | x :: r => (if bpp <=? i then (x - nth (Z.to_nat (i - bpp)) raw_all 0) mod 256 else x)
              :: tiff_enc_from bpp raw_all r (i + 1)
  end.
Definition tiff_enc_row (bpp : Z) (raw : list Z) : list Z := tiff_enc_from bpp raw raw 0.

Lemma tiff_enc_length bpp raw_all : forall suffix i, length (tiff_enc_from bpp raw_all suffix i) = length suffix.
Proof. induction suffix as [|x r IH]; intros i; cbn; [reflexivity|]. rewrite IH. reflexivity. Qed.

Lemma tiff_row_ok bpp : 1 <= bpp -> forall suffix prefix, Forall byte suffix ->
  tiff_row bpp (tiff_enc_from bpp (prefix ++ suffix) suffix (Z.of_nat (length prefix))) prefix (Z.of_nat (length prefix))
  = FOk (prefix ++ suffix).
Proof.
  intros Hbpp. induction suffix as [|x r IH]; intros prefix Hb.
  - cbn. rewrite app_nil_r. reflexivity.
  - inversion Hb as [|? ? Hx Hr]; subst. cbn [tiff_enc_from tiff_row].
    set (i := Z.of_nat (length prefix)).
    assert (Hnext : tiff_row bpp (tiff_enc_from bpp (prefix ++ x :: r) r (i + 1)) (prefix ++ [x]) (i + 1)
                    = FOk (prefix ++ x :: r)).
    { specialize (IH (prefix ++ [x])). rewrite <- app_assoc in IH. cbn [app] in IH.
      replace (Z.of_nat (length (prefix ++ [x]))) with (i + 1) in IH
        by (rewrite app_length; cbn [length]; unfold i; lia).
      apply IH. exact Hr. }
    destruct (bpp <=? i) eqn:E.
    + apply Z.leb_le in E. rewrite (nthd_prefix prefix (x :: r) (i - bpp)) by (unfold i in *; lia).
      rewrite unfilter_byte by exact Hx. exact Hnext.
    + exact Hnext.
Qed.

Lemma tiff_lines_ok bpp n : 1 <= bpp -> (0 < n)%nat -> forall rows fuel,
  Forall (fun raw => length raw = n /\ Forall byte raw) rows ->
  (length (flat_map (tiff_enc_row bpp) rows) < fuel)%nat ->
  tiff_lines fuel n bpp (flat_map (tiff_enc_row bpp) rows) = FOk (concat rows).
Proof.
  intros Hbpp Hn. induction rows as [|raw rows IH]; intros fuel Hok Hf.
  - destruct fuel; [cbn in Hf; lia|]. reflexivity.
  - pose proof (Forall_inv Hok) as [Hlen Hb]. pose proof (Forall_inv_tail Hok) as Hrs.
    destruct fuel as [|f]; [lia|].
    cbn [flat_map tiff_lines].
    assert (Hel : length (tiff_enc_row bpp raw) = n) by (unfold tiff_enc_row; rewrite tiff_enc_length; exact Hlen).
    destruct (tiff_enc_row bpp raw ++ flat_map (tiff_enc_row bpp) rows) as [|e0 erest] eqn:Ed.
    { exfalso. destruct raw; [cbn in Hlen; lia|]. cbn in Ed. discriminate. }
    rewrite <- Ed.
    assert (E : (length (tiff_enc_row bpp raw ++ flat_map (tiff_enc_row bpp) rows) <? n)%nat = false).
    { apply Nat.ltb_ge. rewrite app_length. lia. }
    rewrite E. rewrite (firstn_app_len _ _ n Hel), (skipn_app_len _ _ n Hel).
    pose proof (tiff_row_ok bpp Hbpp raw [] Hb) as Hrow. cbn [app length Z.of_nat] in Hrow.
    unfold tiff_enc_row at 1. rewrite Hrow. cbn [fbind app].
    rewrite IH; [reflexivity|exact Hrs|]. cbn [flat_map] in Hf. rewrite app_length in Hf. lia.
Qed.

Theorem tiff_roundtrip : forall colors columns rows, 1 <= colors -> 1 <= columns ->
  Forall (fun raw => length raw = Z.to_nat (columns * colors) /\ Forall byte raw) rows ->
  apply_tiff_predictor colors columns 8 (flat_map (tiff_enc_row colors) rows) = FOk (concat rows).
Proof.
  intros colors columns rows Hc Hw Hok. unfold apply_tiff_predictor. cbn [Z.eqb Pos.eqb negb].
  replace ((colors <? 1) || (columns <? 1)) with false by (symmetry; apply orb_false_intro; apply Z.ltb_ge; lia).
  change (8 / 8) with 1. rewrite Z.mul_1_r.
  assert (E : (Z.to_nat (columns * colors) =? 0)%nat = false) by (apply Nat.eqb_neq; lia).
  rewrite E. apply tiff_lines_ok; [lia|lia|exact Hok|lia].
Qed.

(* ================= chains ======================================================================== *)
(* if every stage inverts its encoder, so does the chain (decode order = reverse of encode order) *)
Section Chains.
  Variable inflate : list Z -> fres.
  Definition stage_inverts (st : fkind * option predparm) (enc : list Z -> list Z) : Prop :=
    forall x, fbind (decode1 inflate (fst st) (enc x)) (apply_pred (snd st)) = FOk x.

  Fixpoint encode_chain (encs : list (list Z -> list Z)) (x : list Z) : list Z :=
    match encs with [] => x | e :: r => e (encode_chain r x) end.

  Theorem chain_roundtrip : forall stages encs x,
    Forall2 stage_inverts stages encs ->
    decode_chain inflate stages (encode_chain encs x) = FOk x.
  Proof.
    induction 1 as [|[k p] e stages encs Hs Hr IH]; [reflexivity|].
    cbn [decode_chain encode_chain]. specialize (Hs (encode_chain encs x)). cbn [fst snd] in Hs.
    destruct (decode1 inflate k (e (encode_chain encs x))) as [d1|err]; cbn [fbind] in *; [|discriminate].
    rewrite Hs. cbn [fbind]. exact IH.
  Qed.
End Chains.
