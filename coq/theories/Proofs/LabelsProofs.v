(* C17 proofs: number trees, page-label ranges, roman numerals, text strings. *)
From Coq Require Import ZArith List Bool Lia Permutation.
From PdfV Require Import Gen.TextTables Model.Labels.
Import ListNotations.
Open Scope Z_scope.

(* ---------- stable sort: sorted permutation ---------------------------------------------- *)
Section Sort.
  Variable V : Type.
  Notation entry := (Z * V)%type.

  Fixpoint ins (x : entry) (l : list entry) : list entry :=
    match l with
    | [] => [x]
    | y :: r => if fst x <=? fst y then x :: y :: r else y :: ins x r
    end.

  Lemma stable_sort_unfold (l : list entry) : stable_sort l = fold_right ins [] l.
  Proof. reflexivity. Qed.

  Fixpoint sortedk (l : list entry) : Prop :=
    match l with
    | [] => True
    | x :: r => match r with [] => True | y :: _ => fst x <= fst y end /\ sortedk r
    end.

  Lemma ins_perm (x : entry) (l : list entry) : Permutation (x :: l) (ins x l).
  Proof.
    induction l as [|y r IH]; cbn; [apply Permutation_refl|].
    destruct (fst x <=? fst y); [apply Permutation_refl|].
    eapply Permutation_trans; [apply perm_swap|]. apply perm_skip. exact IH.
  Qed.

  Lemma ins_sorted (x : entry) (l : list entry) : sortedk l -> sortedk (ins x l).
  Proof.
    induction l as [|y r IH]; intros H; cbn [ins]; [cbn; auto|].
    destruct (fst x <=? fst y) eqn:E.
    - apply Z.leb_le in E. cbn [sortedk]. split; [exact E|exact H].
    - apply Z.leb_gt in E. destruct H as [Hy Hr]. specialize (IH Hr).
      cbn [sortedk]. split; [|exact IH].
      destruct r as [|z r']; cbn [ins]; [lia|].
      destruct (fst x <=? fst z); cbn; lia.
  Qed.

  Lemma stable_sort_perm (l : list entry) : Permutation l (stable_sort l).
  Proof.
    rewrite stable_sort_unfold. induction l as [|x r IH]; cbn [fold_right]; [constructor|].
    eapply Permutation_trans; [apply perm_skip; exact IH|apply ins_perm].
  Qed.

  Lemma stable_sort_sorted (l : list entry) : sortedk (stable_sort l).
  Proof.
    rewrite stable_sort_unfold. induction l as [|x r IH]; cbn [fold_right]; [exact I|].
    apply ins_sorted. exact IH.
  Qed.

  (* an already sorted list is left alone (so equal keys keep their order) *)
  Lemma ins_head (x : entry) (l : list entry) : sortedk (x :: l) -> ins x l = x :: l.
  Proof.
    destruct l as [|y r]; cbn; [reflexivity|]. intros [H _].
    apply Z.leb_le in H. rewrite H. reflexivity.
  Qed.
  Lemma stable_sort_id (l : list entry) : sortedk l -> stable_sort l = l.
  Proof.
    rewrite stable_sort_unfold. induction l as [|x r IH]; intros H; [reflexivity|].
    cbn [fold_right]. destruct H as [Hx Hr]. rewrite IH by exact Hr.
    apply ins_head. split; assumption.
  Qed.

  (* C17: for any tree shape, the values are all leaf entries, sorted by key *)
  Theorem numtree_values (t : numtree V) :
    Permutation (nt_parse t) (nt_values t) /\ sortedk (nt_values t).
  Proof. split; [apply stable_sort_perm|apply stable_sort_sorted]. Qed.
End Sort.

(* ---------- label ranges ------------------------------------------------------------------- *)
Definition fmt (ld : labeldict) (v : Z) : lres := prefixed (lprefix ld) (format_page_label v (lstyle ld)).

Fixpoint sorted_starts (ranges : list (Z * labeldict)) : Prop :=
  match ranges with
  | [] => True
  | (a, _) :: r => match r with [] => True | (b, _) :: _ => a <= b end /\ sorted_starts r
  end.

Lemma spec_range_mono ranges : forall i cur,
  sorted_starts ranges -> (forall a ld, nth_error ranges 0 = Some (a, ld) -> i < a) ->
  spec_range ranges i cur = cur.
Proof.
  destruct ranges as [|[a ld] r]; intros i cur Hs Hlt; [reflexivity|].
  cbn [spec_range]. specialize (Hlt a ld eq_refl).
  assert (E : (a <=? i) = false) by (apply Z.leb_gt; lia). rewrite E. reflexivity.
Qed.

Lemma label_at_cons2 a ld b ld2 r k :
  label_at ((a, ld) :: (b, ld2) :: r) k =
  if k <? Z.max 0 (b - a) then Some (fmt ld (lfirst ld + k)) else label_at ((b, ld2) :: r) (k - Z.max 0 (b - a)).
Proof. reflexivity. Qed.

(* generalised: the generator positioned at the head range (start a), k labels into it *)
Lemma label_at_spec : forall ranges a ld k,
  sorted_starts ((a, ld) :: ranges) -> 0 <= k ->
  label_at ((a, ld) :: ranges) k =
  match spec_range ranges (a + k) (Some (a, ld)) with
  | Some (s, d) => Some (fmt d (lfirst d + (a + k - s)))
  | None => None
  end.
Proof.
  induction ranges as [|[b ld2] r IH]; intros a ld k Hs Hk.
  - cbn [label_at spec_range]. unfold fmt. f_equal. f_equal. f_equal. lia.
  - rewrite label_at_cons2. destruct Hs as [Hab Hs']. cbn [spec_range].
    destruct (k <? Z.max 0 (b - a)) eqn:E.
    + apply Z.ltb_lt in E. assert (E2 : (b <=? a + k) = false) by (apply Z.leb_gt; lia).
      rewrite E2. unfold fmt. f_equal. f_equal. f_equal. lia.
    + apply Z.ltb_ge in E. assert (E2 : (b <=? a + k) = true) by (apply Z.leb_le; lia).
      rewrite E2. rewrite (IH b ld2 (k - Z.max 0 (b - a)) Hs') by lia.
      replace (b + (k - Z.max 0 (b - a))) with (a + k) by lia. reflexivity.
Qed.

(* C17: ranges sorted by start, the first starting at page 0: the k-th generated label is the
   ISO 12.4.2 label of page k (last range starting at or before k, numbered from St) *)
Theorem label_at_iso : forall ranges ld k,
  sorted_starts ((0, ld) :: ranges) -> 0 <= k ->
  label_at ((0, ld) :: ranges) k = spec_label ((0, ld) :: ranges) k.
Proof.
  intros ranges ld k Hs Hk. rewrite label_at_spec by assumption.
  unfold spec_label. cbn [spec_range]. assert (E : (0 <=? k) = true) by (apply Z.leb_le; lia).
  rewrite E. cbn [Z.add]. destruct (spec_range ranges k (Some (0, ld))) as [[s d]|]; reflexivity.
Qed.

(* a missing range for page 0 is supplied with empty labels *)
Lemma with_index0_head ranges : exists ld r, with_index0 ranges = (0, ld) :: r.
Proof.
  destruct ranges as [|[a ld] r]; cbn; [eauto|].
  destruct a; eauto.
Qed.

(* ---------- roman numerals: the whole domain by computation -------------------------------- *)
Definition roman_domain : list Z := map Z.of_nat (seq 1 3999).
Definition roman_ok (n : Z) : bool :=
  match format_int_roman n with
  | Some r => (fix eqb (a b : list Z) : bool :=
                 match a, b with
                 | [], [] => true
                 | x :: a', y :: b' => (x =? y) && eqb a' b'
                 | _, _ => false
                 end) r (spec_roman n)
  | None => false
  end.

Lemma roman_sweep : forallb roman_ok roman_domain = true.
Proof. vm_compute. reflexivity. Qed.

Lemma list_eqb_eq : forall a b : list Z,
  (fix eqb (a b : list Z) : bool :=
     match a, b with
     | [], [] => true
     | x :: a', y :: b' => (x =? y) && eqb a' b'
     | _, _ => false
     end) a b = true -> a = b.
Proof.
  induction a as [|x a IH]; destruct b as [|y b]; intros H; try discriminate; [reflexivity|].
  apply andb_true_iff in H. destruct H as [H1 H2]. apply Z.eqb_eq in H1. subst. f_equal. apply IH. exact H2.
Qed.

(* C17: every value 1..3999 gets the standard roman numeral; outside it the code asserts *)
Theorem roman_all : forall n, 0 < n < 4000 -> format_int_roman n = Some (spec_roman n).
Proof.
  intros n Hn. pose proof roman_sweep as H. rewrite forallb_forall in H.
  assert (Hin : In n roman_domain).
  { unfold roman_domain. apply in_map_iff. exists (Z.to_nat n). split; [lia|]. apply in_seq. lia. }
  specialize (H n Hin). unfold roman_ok in H.
  destruct (format_int_roman n) as [r|]; [|discriminate]. f_equal. apply list_eqb_eq. exact H.
Qed.
Theorem roman_outside : forall n, n <= 0 \/ 4000 <= n -> format_int_roman n = None.
Proof.
  intros n Hn. unfold format_int_roman.
  destruct (0 <? n) eqn:E1; destruct (n <? 4000) eqn:E2; try reflexivity.
  apply Z.ltb_lt in E1. apply Z.ltb_lt in E2. lia.
Qed.

(* letters: ISO for the first 26 values; beyond that the code counts in bijective base 26 *)
Theorem alpha_first26 : forall n, 0 < n <= 26 -> format_int_alpha n = Some (spec_alpha n).
Proof.
  intros n Hn.
  assert (Hin : In n (map Z.of_nat (seq 1 26))).
  { apply in_map_iff. exists (Z.to_nat n). split; [lia|]. apply in_seq. lia. }
  clear Hn. revert n Hin. apply Forall_forall. vm_compute. repeat constructor.
Qed.
Theorem alpha_refuted : exists n, 0 < n /\ format_int_alpha n <> Some (spec_alpha n).
Proof. exists 28. split; [lia|]. vm_compute. discriminate. Qed.

(* ---------- text strings --------------------------------------------------------------------- *)
Definition scalar (c : Z) : Prop := (0 <= c < 55296) \/ (57344 <= c < 1114112).

(* UTF-16BE encoding of one code point *)
Definition enc16 (c : Z) : list Z :=
  if c <? 65536 then [c / 256; c mod 256]
  else let v := c - 65536 in
       let hi := 55296 + v / 1024 in let lo := 56320 + v mod 1024 in
       [hi / 256; hi mod 256; lo / 256; lo mod 256].

Lemma utf16_step c rest fuel : scalar c -> (length (enc16 c ++ rest) <= fuel)%nat ->
  utf16be (S fuel) (enc16 c ++ rest) = c :: utf16be fuel rest.
Proof.
  intros Hc Hf. unfold enc16 in *. destruct (c <? 65536) eqn:E.
  - apply Z.ltb_lt in E. cbn [app length] in Hf. cbn [app utf16be].
    assert (Hu : 256 * (c / 256) + c mod 256 = c) by (pose proof (Z.div_mod c 256 ltac:(lia)); lia).
    rewrite Hu.
    destruct Hc as [Hc|Hc].
    + assert (E1 : ((55296 <=? c) && (c <=? 56319)) = false).
      { apply andb_false_iff. left. apply Z.leb_gt. lia. }
      assert (E2 : ((56320 <=? c) && (c <=? 57343)) = false).
      { apply andb_false_iff. left. apply Z.leb_gt. lia. }
      rewrite E1, E2. destruct fuel; [cbn in Hf; lia|]. reflexivity.
    + assert (E1 : ((55296 <=? c) && (c <=? 56319)) = false).
      { apply andb_false_iff. right. apply Z.leb_gt. lia. }
      assert (E2 : ((56320 <=? c) && (c <=? 57343)) = false).
      { apply andb_false_iff. right. apply Z.leb_gt. lia. }
      rewrite E1, E2. destruct fuel; [cbn in Hf; lia|]. reflexivity.
  - apply Z.ltb_ge in E. destruct Hc as [Hc|Hc]; [lia|].
    cbv zeta in *. cbn [app length] in Hf. cbn [app utf16be].
    set (v := c - 65536). set (hi := 55296 + v / 1024). set (lo := 56320 + v mod 1024).
    assert (Hv : 0 <= v < 1048576) by (unfold v; lia).
    assert (Hd : 0 <= v / 1024 < 1024) by (split; [apply Z.div_pos; lia|apply Z.div_lt_upper_bound; lia]).
    assert (Hm : 0 <= v mod 1024 < 1024) by (apply Z.mod_pos_bound; lia).
    assert (Hhi : 256 * (hi / 256) + hi mod 256 = hi) by (pose proof (Z.div_mod hi 256 ltac:(lia)); lia).
    assert (Hlo : 256 * (lo / 256) + lo mod 256 = lo) by (pose proof (Z.div_mod lo 256 ltac:(lia)); lia).
    rewrite Hhi, Hlo.
    assert (E1 : ((55296 <=? hi) && (hi <=? 56319)) = true).
    { apply andb_true_iff. split; apply Z.leb_le; unfold hi; lia. }
    assert (E2 : ((56320 <=? lo) && (lo <=? 57343)) = true).
    { apply andb_true_iff. split; apply Z.leb_le; unfold lo; lia. }
    rewrite E1, E2. f_equal.
    unfold hi, lo. pose proof (Z.div_mod v 1024 ltac:(lia)). unfold v in *. lia.
Qed.

Lemma utf16_fuel_irrelevant : forall s f1 f2, (length s <= f1)%nat -> (length s <= f2)%nat ->
  utf16be f1 s = utf16be f2 s.
Proof.
  intros s f1. revert s. induction f1 as [|f1 IH]; intros s f2 H1 H2.
  - destruct s; [|cbn in H1; lia]. destruct f2; reflexivity.
  - destruct f2 as [|f2]; [destruct s; [reflexivity|cbn in H2; lia]|].
    cbn [utf16be]. destruct s as [|hi [|lo r]]; try reflexivity.
    cbn [length] in *.
    destruct ((55296 <=? 256 * hi + lo) && (256 * hi + lo <=? 56319)).
    + destruct r as [|hi2 [|lo2 r2]]; try reflexivity. cbn [length] in *.
      destruct ((56320 <=? 256 * hi2 + lo2) && (256 * hi2 + lo2 <=? 57343)).
      * f_equal. apply IH; lia.
      * apply IH; cbn [length]; lia.
    + destruct ((56320 <=? 256 * hi + lo) && (256 * hi + lo <=? 57343)); [apply IH; lia|].
      f_equal. apply IH; lia.
Qed.

Lemma enc16_length c : (length (enc16 c) <= 4)%nat /\ (2 <= length (enc16 c))%nat.
Proof. unfold enc16. destruct (c <? 65536); cbn; lia. Qed.

(* C17: a text string with a byte-order mark decodes to exactly the encoded code points *)
Theorem decode_utf16 : forall cps, Forall scalar cps ->
  decode_text (254 :: 255 :: flat_map enc16 cps) = cps.
Proof.
  intros cps H. cbn [decode_text].
  induction H as [|c r Hc Hr IH]; [reflexivity|].
  cbn [flat_map]. rewrite utf16_step; [|exact Hc|lia].
  f_equal. etransitivity; [|exact IH]. apply utf16_fuel_irrelevant; [|lia].
  rewrite app_length. pose proof (enc16_length c). lia.
Qed.

(* ... and without one, byte by byte through the PDFDocEncoding table of utils.py *)
Theorem decode_pdfdoc : forall s, (forall r, s <> 254 :: 255 :: r) ->
  decode_text s = map (fun c => nth (Z.to_nat c) PDFDocEncoding 0) s.
Proof.
  intros s H. unfold decode_text.
  destruct s as [|a s']; [reflexivity|].
  destruct (Z.eq_dec a 254) as [Ea|Ea].
  - subst a. destruct s' as [|b r]; [reflexivity|].
    destruct (Z.eq_dec b 255) as [Eb|Eb]; [subst; exfalso; apply (H r); reflexivity|].
    destruct b as [|p|p]; try reflexivity.
    repeat (destruct p as [p|p|]; try reflexivity). exfalso. apply Eb. reflexivity.
  - destruct a as [|p|p]; try reflexivity.
    repeat (destruct p as [p|p|]; try reflexivity). exfalso. apply Ea. reflexivity.
Qed.
