(* C17 proofs: name-tree lookup and the outline search. *)
From Coq Require Import ZArith List Bool Lia.
From PdfV Require Import Model.Labels.
Import ListNotations.
Open Scope Z_scope.

(* ---------- name trees ---------------------------------------------------------------------- *)
Definition kidsP (P : nametree -> Prop) (kids : option (list nametree)) : Prop :=
  match kids with Some ks => Forall P ks | None => True end.

Section NameInd.
  Variable P : nametree -> Prop.
  Hypothesis H : forall limits names kids, kidsP P kids -> P (NM limits names kids).
  Fixpoint nametree_ind2 (t : nametree) : P t :=
    match t with
    | NM limits names kids =>
        H limits names kids
          (match kids as k return kidsP P k with
           | Some ks => (fix go (l : list nametree) : Forall P l :=
                           match l with [] => Forall_nil _ | c :: r => Forall_cons _ (nametree_ind2 c) (go r) end) ks
           | None => I
           end)
    end.
End NameInd.

Definition nlimits (t : nametree) : option (key * key) := match t with NM l _ _ => l end.
Definition inside (lim : option (key * key)) (k : key) : Prop :=
  match lim with Some (k1, k2) => key_ltb k k1 || key_ltb k2 k = false | None => True end.

(* kids: a key inside an earlier sibling's Limits does not occur under a later sibling *)
Fixpoint sibs_ok (ks : list nametree) : Prop :=
  match ks with
  | [] => True
  | c :: r => (forall k, inside (nlimits c) k -> forall c' v, In c' r -> ~ In (k, v) (nm_entries c')) /\ sibs_ok r
  end.

(* well-formed: Limits bound the subtree, values are truthy, a leaf maps each key once,
   sibling subtrees are separated by their Limits *)
Fixpoint wf_nm (t : nametree) : Prop :=
  match t with
  | NM limits names kids =>
      (forall k v, In (k, v) (nm_entries t) -> inside limits k /\ v <> 0) /\
      match names with
      | Some l => forall k v v', In (k, v) l -> In (k, v') l -> v = v'
      | None => match kids with
                | Some ks => sibs_ok ks /\
                             (fix all (l : list nametree) : Prop :=
                                match l with [] => True | c :: r => wf_nm c /\ all r end) ks
                | None => True
                end
      end
  end.

Lemma key_eqb_eq a : forall b, key_eqb a b = true <-> a = b.
Proof.
  induction a as [|x a IH]; destruct b as [|y b]; cbn; split; intros H; try discriminate; try reflexivity.
  - apply andb_true_iff in H. destruct H as [H1 H2]. apply Z.eqb_eq in H1. apply IH in H2. subst. reflexivity.
  - inversion H; subst. rewrite Z.eqb_refl. cbn. apply IH. reflexivity.
Qed.

Lemma dict_get_in k l : forall cur v, dict_get k l cur = Some v -> In (k, v) l \/ cur = Some v.
Proof.
  induction l as [|[k' v'] r IH]; intros cur v H; cbn in H; [right; exact H|].
  apply IH in H. destruct H as [H|H]; [left; right; exact H|].
  destruct (key_eqb k' k) eqn:E.
  - apply key_eqb_eq in E. inversion H; subst. left. left. reflexivity.
  - right. exact H.
Qed.

Lemma dict_get_some k l : forall cur, (exists v, In (k, v) l) \/ cur <> None -> dict_get k l cur <> None.
Proof.
  induction l as [|[k' v'] r IH]; intros cur H; cbn.
  - destruct H as [[v []]|H]; exact H.
  - apply IH. destruct H as [[v [E|Hin]]|H].
    + inversion E; subst. right. assert (Ek : key_eqb k k = true) by (apply key_eqb_eq; reflexivity).
      rewrite Ek. discriminate.
    + left. exists v. exact Hin.
    + right. destruct (key_eqb k' k); [discriminate|exact H].
Qed.

Lemma dict_get_none k l : (forall v, ~ In (k, v) l) -> dict_get k l None = None.
Proof.
  intros H. destruct (dict_get k l None) as [v|] eqn:E; [|reflexivity].
  apply dict_get_in in E. destruct E as [E|E]; [exfalso; apply (H v E)|discriminate].
Qed.

Definition lookup_ok (k : key) (t : nametree) : Prop :=
  wf_nm t ->
  (forall v, In (k, v) (nm_entries t) -> nm_lookup k t = Found v) /\
  ((forall v, ~ In (k, v) (nm_entries t)) ->
     nm_lookup k t = KeyErr \/ (nm_lookup k t = RetNone /\ ~ inside (nlimits t) k)).

Lemma wf_kids_all ks :
  (fix all (l : list nametree) : Prop := match l with [] => True | c :: r => wf_nm c /\ all r end) ks ->
  Forall wf_nm ks.
Proof. induction ks as [|c r IH]; intros H; [constructor|]. destruct H. constructor; auto. Qed.

Definition kids_go (k : key) : list nametree -> nres :=
  fix go (ks : list nametree) : nres :=
    match ks with
    | [] => KeyErr
    | c :: r => match nm_lookup k c with
                | Found v => if v =? 0 then go r else Found v
                | RetNone => go r
                | KeyErr => KeyErr
                end
    end.

Lemma nm_lookup_unfold k limits names kids :
  nm_lookup k (NM limits names kids) =
  if match limits with Some (k1, k2) => key_ltb k k1 || key_ltb k2 k | None => false end then RetNone
  else match names with
       | Some l => match dict_get k l None with Some v => Found v | None => KeyErr end
       | None => match kids with Some ks => kids_go k ks | None => KeyErr end
       end.
Proof. reflexivity. Qed.

Lemma kids_go_ok k : forall ks,
  Forall (lookup_ok k) ks -> Forall wf_nm ks -> sibs_ok ks ->
  (forall v, In (k, v) (flat_map nm_entries ks) -> kids_go k ks = Found v) /\
  ((forall v, ~ In (k, v) (flat_map nm_entries ks)) -> kids_go k ks = KeyErr).
Proof.
  induction ks as [|c r IH]; intros Hok Hwf Hs.
  - split; [intros v []|reflexivity].
  - inversion Hok as [|? ? Hc Hr]; subst. inversion Hwf as [|? ? Wc Wr]; subst.
    destruct Hs as [Hsep Hs']. destruct (IH Hr Wr Hs') as [IHf IHa].
    destruct (Hc Wc) as [Cf Ca].
    assert (Hlim : forall v, In (k, v) (nm_entries c) -> inside (nlimits c) k /\ v <> 0).
    { destruct c as [lim nm kd]. cbn [wf_nm] in Wc. destruct Wc as [W1 _]. intros v Hv. apply (W1 k v Hv). }
    split.
    + intros v Hin. cbn [flat_map] in Hin. apply in_app_or in Hin. cbn [kids_go].
      destruct Hin as [Hin|Hin].
      * rewrite (Cf v Hin). destruct (Hlim v Hin) as [_ Hv]. apply Z.eqb_neq in Hv. rewrite Hv. reflexivity.
      * (* k lives under a later sibling: c must prune it *)
        assert (Hnot : forall v', ~ In (k, v') (nm_entries c)).
        { intros v' Hv'. destruct (Hlim v' Hv') as [Hins _].
          apply in_flat_map in Hin. destruct Hin as [c' [Hc' Hkv]]. exact (Hsep k Hins c' v Hc' Hkv). }
        destruct (Ca Hnot) as [E|[E Hout]].
        -- (* c answers KeyError although k is inside its Limits?  then k is inside: contradiction *)
           exfalso.
           apply in_flat_map in Hin. destruct Hin as [c' [Hc' Hkv]].
           (* KeyErr from c means c was not pruned, i.e. k is inside c's limits *)
           assert (Hins : inside (nlimits c) k).
           { destruct c as [lim nm kd]. cbn [nlimits]. rewrite nm_lookup_unfold in E.
             destruct lim as [[k1 k2]|]; cbn [inside]; [|exact I].
             destruct (key_ltb k k1 || key_ltb k2 k); [discriminate|reflexivity]. }
           exact (Hsep k Hins c' v Hc' Hkv).
        -- rewrite E. apply IHf. exact Hin.
    + intros Hnone. cbn [kids_go].
      assert (Hnot : forall v', ~ In (k, v') (nm_entries c)).
      { intros v' Hv'. apply (Hnone v'). cbn [flat_map]. apply in_or_app. left. exact Hv'. }
      destruct (Ca Hnot) as [E|[E _]]; rewrite E; [reflexivity|].
      apply IHa. intros v' Hv'. apply (Hnone v'). cbn [flat_map]. apply in_or_app. right. exact Hv'.
Qed.

(* C17: on every well-formed name tree, a present key is found with its value and an absent key
   is reported as not found (KeyError), whatever the shape of the tree *)
Theorem nm_lookup_correct k : forall t, lookup_ok k t.
Proof.
  induction t as [limits names kids IH] using nametree_ind2. unfold kidsP in IH. intros Hwf.
  cbn [wf_nm] in Hwf. destruct Hwf as [Hlim Hrest]. rewrite nm_lookup_unfold. cbn [nlimits].
  split.
  - intros v Hin. destruct (Hlim k v Hin) as [Hins Hv].
    assert (Ep : match limits with Some (k1, k2) => key_ltb k k1 || key_ltb k2 k | None => false end = false).
    { destruct limits as [[k1 k2]|]; [exact Hins|reflexivity]. }
    rewrite Ep. cbn [nm_entries] in Hin. destruct names as [l|].
    + destruct (dict_get k l None) as [v'|] eqn:E.
      * apply dict_get_in in E. destruct E as [E|E]; [|discriminate]. f_equal. symmetry. exact (Hrest k v v' Hin E).
      * exfalso. apply (dict_get_some k l None); [left; exists v; exact Hin|exact E].
    + destruct kids as [ks|]; [|contradiction]. destruct Hrest as [Hs Hall].
      apply (kids_go_ok k ks IH (wf_kids_all ks Hall) Hs). exact Hin.
  - intros Hnone.
    destruct (match limits with Some (k1, k2) => key_ltb k k1 || key_ltb k2 k | None => false end) eqn:Ep.
    + right. split; [reflexivity|]. destruct limits as [[k1 k2]|]; [|discriminate]. cbn [inside]. rewrite Ep. discriminate.
    + left. cbn [nm_entries] in Hnone. destruct names as [l|].
      * rewrite dict_get_none by exact Hnone. reflexivity.
      * destruct kids as [ks|]; [|reflexivity]. destruct Hrest as [Hs Hall].
        apply (kids_go_ok k ks IH (wf_kids_all ks Hall) Hs). exact Hnone.
Qed.

Corollary nm_lookup_root k t : wf_nm t -> nlimits t = None ->
  (forall v, In (k, v) (nm_entries t) -> nm_lookup k t = Found v) /\
  ((forall v, ~ In (k, v) (nm_entries t)) -> nm_lookup k t = KeyErr).
Proof.
  intros Hwf Hroot. destruct (nm_lookup_correct k t Hwf) as [Hf Ha]. split; [exact Hf|].
  intros Hn. destruct (Ha Hn) as [E|[_ Hout]]; [exact E|]. rewrite Hroot in Hout. exfalso. apply Hout. exact I.
Qed.

(* ---------- outlines ---------------------------------------------------------------------------- *)
Fixpoint osize (t : otree) : nat :=
  match t with OT _ _ _ children => S (fold_right (fun c n => (osize c + n)%nat) 0%nat children) end.
Definition fsize (l : list otree) : nat := fold_right (fun c n => (osize c + n)%nat) 0%nat l.

Definition head_id (l : list otree) : option Z := match l with [] => None | c :: _ => Some (oid c) end.

(* the store describes the forest: every item is stored under its id with Title, A/Dest, First
   (and Last) of its children and Next of its following sibling *)
Fixpoint odesc (st : ostore) (t : otree) (next : option Z) : Prop :=
  match t with
  | OT i title action children =>
      let e := olookup st i in
      otitle e = Some title /\ oaction e = action /\ onext e = next /\
      ofirst e = head_id children /\ (children <> [] -> olast e <> None) /\
      (fix sibs (l : list otree) : Prop :=
         match l with [] => True | c :: r => odesc st c (head_id r) /\ sibs r end) children
  end.
Fixpoint odescs (st : ostore) (l : list otree) : Prop :=
  match l with [] => True | c :: r => odesc st c (head_id r) /\ odescs st r end.

Lemma odesc_children st i title action children next :
  odesc st (OT i title action children) next -> odescs st children.
Proof.
  cbn [odesc]. intros (_ & _ & _ & _ & _ & H). induction children as [|c r IH]; [exact I|].
  destruct H as [Hc Hr]. split; [exact Hc|]. apply IH. exact Hr.
Qed.

(* C17: on every honest forest the search yields the preorder with nesting levels *)
Theorem osearch_forest st : forall fuel sibs level,
  odescs st sibs -> (fsize sibs < fuel)%nat ->
  match head_id sibs with
  | Some i => osearch fuel st i level = Some (flat_map (spec_outline level) sibs)
  | None => True
  end.
Proof.
  induction fuel as [|f IH]; intros sibs level Hd Hf; [lia|].
  destruct sibs as [|[i title action children] r]; [exact I|].
  cbn [head_id oid]. destruct Hd as [Ht Hr].
  pose proof (odesc_children _ _ _ _ _ _ Ht) as Hch.
  cbn [odesc] in Ht. destruct Ht as (Etitle & Eact & Enext & Efirst & Elast & _).
  cbn [osearch]. rewrite Etitle, Eact, Enext, Efirst.
  cbn [fsize fold_right osize] in Hf. fold (fsize children) in Hf. fold (fsize r) in Hf.
  assert (Hdown : match head_id children, olast (olookup st i) with
                  | Some c, Some _ => osearch f st c (level + 1)
                  | _, _ => Some []
                  end = Some (flat_map (spec_outline (level + 1)) children)).
  { destruct children as [|c cs]; [reflexivity|]. cbn [head_id].
    destruct (olast (olookup st i)) eqn:El; [|exfalso; apply Elast; [discriminate|reflexivity]].
    specialize (IH (c :: cs) (level + 1) Hch). cbn [head_id] in IH. apply IH. lia. }
  assert (Hnext : match head_id r with Some n => osearch f st n level | None => Some [] end
                  = Some (flat_map (spec_outline level) r)).
  { destruct r as [|c cs]; [reflexivity|]. cbn [head_id].
    specialize (IH (c :: cs) level Hr). cbn [head_id] in IH. apply IH. lia. }
  rewrite Hdown, Hnext. cbn [flat_map spec_outline]. rewrite <- app_assoc. reflexivity.
Qed.
