(* C03, LZW at the code level: for ANY admissible factorisation of the data into phrases (greedy or not) the decoder's
   feed, applied to the codes of the phrases after a clear-table code, returns the data.  A phrase is admissible if it
   is a single byte or equals a dictionary entry created by the phrases before it: entry j = phrase j followed by the
   first byte of phrase j+1 -- including the entry that the decoder has not built yet when it meets its code
   (the "KwKwK" case). *)
From Coq Require Import ZArith List Bool Lia ZifyBool.
From PdfV Require Import Model.Filters.
Import ListNotations.
Open Scope Z_scope.

Definition phrase (ws : list (list Z)) (i : nat) : list Z := nth i ws [].
Definition entry (ws : list (list Z)) (j : nat) : list Z := phrase ws j ++ firstn 1 (phrase ws (S j)).

(* the code of phrase i *)
Definition code_ok (ws : list (list Z)) (i : nat) (k : Z) : Prop :=
  (exists b, phrase ws i = [b] /\ 0 <= b < 256 /\ k = b) \/
  (exists j, (j < i)%nat /\ k = 258 + Z.of_nat j /\ phrase ws i = entry ws j).

Fixpoint feed_all (s : lzwst) (ks : list Z) : option (list Z) :=
  match ks with
  | [] => Some []
  | k :: r => match lzw_feed s k with
              | FeedOk x s' => option_map (app x) (feed_all s' r)
              | _ => None
              end
  end.

(* decoder state after the codes of phrases 0 .. i-1 (i >= 1): one dictionary entry behind *)
Definition Dec (ws : list (list Z)) (i : nat) (s : lzwst) : Prop :=
  ztable s = clear_table ++ map (fun j => Some (entry ws j)) (seq 0 (i - 1)) /\ zprev s = Some (phrase ws (i - 1)).

Lemma clear_table_length : length clear_table = 258%nat.
Proof. reflexivity. Qed.
Lemma clear_table_byte b : 0 <= b < 256 -> nth_error clear_table (Z.to_nat b) = Some (Some [b]).
Proof.
  intros Hb. unfold clear_table. rewrite nth_error_app1 by (rewrite map_length, seq_length; lia).
  rewrite nth_error_map. rewrite nth_error_nth' with (d := 0%nat) by (rewrite seq_length; lia).
  rewrite seq_nth by lia. cbn [option_map]. f_equal. f_equal. f_equal. lia.
Qed.

Lemma table_entry ws n j : (j < n)%nat ->
  nth_error (clear_table ++ map (fun j => Some (entry ws j)) (seq 0 n)) (Z.to_nat (258 + Z.of_nat j)) = Some (Some (entry ws j)).
Proof.
  intros Hj. rewrite nth_error_app2 by (rewrite clear_table_length; lia). rewrite clear_table_length.
  replace (Z.to_nat (258 + Z.of_nat j) - 258)%nat with j by lia.
  rewrite nth_error_map. rewrite nth_error_nth' with (d := 0%nat) by (rewrite seq_length; lia).
  rewrite seq_nth by lia. reflexivity.
Qed.

Lemma seq_snoc n : seq 0 (S n) = seq 0 n ++ [n].
Proof. rewrite seq_S. reflexivity. Qed.

Lemma step_ok ws i s k : (1 <= i)%nat -> phrase ws (i - 1) <> [] -> Dec ws i s -> code_ok ws i k ->
  exists s', lzw_feed s k = FeedOk (phrase ws i) s' /\ Dec ws (S i) s'.
Proof.
  intros Hi Hprev [Ht Hp] Hk.
  assert (Hlen : length (ztable s) = (258 + (i - 1))%nat) by (rewrite Ht, app_length, map_length, seq_length, clear_table_length; reflexivity).
  assert (Hpe : (match zprev s with None => true | Some [] => true | Some _ => false end) = false).
  { rewrite Hp. destruct (phrase ws (i - 1)); [congruence|reflexivity]. }
  assert (Hnext : forall x, x = phrase ws i ->
            Dec ws (S i) (mkZ (ztable s ++ [Some (phrase ws (i - 1) ++ firstn 1 x)]) (Some x)
                              (width_after (length (ztable s ++ [Some (phrase ws (i - 1) ++ firstn 1 x)])) (znbits s)))).
  { intros x ->. split; cbn [ztable zprev].
    - rewrite Ht. replace (S i - 1)%nat with (S (i - 1)) by lia. rewrite seq_snoc, map_app, app_assoc. cbn [map].
      unfold entry. replace (S (i - 1)) with i by lia. reflexivity.
    - replace (S i - 1)%nat with i by lia. reflexivity. }
  unfold lzw_feed. destruct Hk as [(b & Hw & Hb & ->)|(j & Hj & -> & Hw)].
  - assert (E1 : b =? 256 = false) by lia. assert (E2 : b =? 257 = false) by lia. rewrite E1, E2, Hpe, Hp.
    assert (E3 : (Z.to_nat b <? length (ztable s))%nat = true) by (rewrite Hlen; apply Nat.ltb_lt; lia). rewrite E3.
    rewrite Ht, nth_error_app1 by (rewrite clear_table_length; lia). rewrite (clear_table_byte b Hb).
    eexists. split; [rewrite Hw; reflexivity|]. rewrite <- Ht. apply Hnext. symmetry. exact Hw.
  - assert (E1 : 258 + Z.of_nat j =? 256 = false) by lia. assert (E2 : 258 + Z.of_nat j =? 257 = false) by lia.
    rewrite E1, E2, Hpe, Hp.
    destruct (Nat.eq_dec j (i - 1)) as [Ej|Ej].
    + (* the entry the decoder has not built yet *)
      assert (E3 : (Z.to_nat (258 + Z.of_nat j) <? length (ztable s))%nat = false) by (rewrite Hlen; apply Nat.ltb_ge; lia).
      assert (E4 : (Z.to_nat (258 + Z.of_nat j) =? length (ztable s))%nat = true) by (rewrite Hlen; apply Nat.eqb_eq; lia).
      rewrite E3, E4.
      assert (Hx : phrase ws (i - 1) ++ firstn 1 (phrase ws (i - 1)) = phrase ws i).
      { rewrite Hw. unfold entry. rewrite Ej. replace (S (i - 1)) with i by lia. f_equal.
        rewrite Hw at 1. unfold entry. rewrite Ej. destruct (phrase ws (i - 1)) as [|a r]; [congruence|reflexivity]. }
      eexists. split; [rewrite Hx; reflexivity|].
      specialize (Hnext (phrase ws i) eq_refl).
      assert (Hsame : phrase ws (i - 1) ++ firstn 1 (phrase ws i) = phrase ws i).
      { rewrite <- Hx at 2. f_equal. rewrite <- Hx. destruct (phrase ws (i - 1)) as [|a r]; [congruence|reflexivity]. }
      rewrite Hsame in Hnext. exact Hnext.
    + assert (Hlt : (j < i - 1)%nat) by lia.
      assert (E3 : (Z.to_nat (258 + Z.of_nat j) <? length (ztable s))%nat = true) by (rewrite Hlen; apply Nat.ltb_lt; lia).
      rewrite E3, Ht, (table_entry ws (i - 1) j Hlt).
      eexists. split; [rewrite Hw; reflexivity|]. rewrite <- Ht, <- Hw. apply Hnext. reflexivity.
Qed.

Lemma first_ok ws k : code_ok ws 0 k ->
  exists s', lzw_feed (mkZ clear_table (Some []) 9) k = FeedOk (phrase ws 0) s' /\ Dec ws 1 s'.
Proof.
  intros [(b & Hw & Hb & ->)|(j & Hj & _)]; [|lia].
  unfold lzw_feed. assert (E1 : b =? 256 = false) by lia. assert (E2 : b =? 257 = false) by lia. rewrite E1, E2.
  cbn [zprev ztable]. rewrite (clear_table_byte b Hb).
  eexists. split; [rewrite Hw; reflexivity|]. split; cbn [ztable zprev seq map Nat.sub]; [rewrite app_nil_r; reflexivity|].
  rewrite Hw. reflexivity.
Qed.

Lemma rest_ok ws : forall n i s ks, (1 <= i)%nat -> (i + n = length ws)%nat -> length ks = n ->
  (forall t, (t < length ws)%nat -> phrase ws t <> []) -> Dec ws i s ->
  (forall t, (t < n)%nat -> code_ok ws (i + t) (nth t ks 0)) ->
  exists s_end, forall rest, feed_all s (ks ++ rest) = option_map (app (concat (skipn i ws))) (feed_all s_end rest).
Proof.
  induction n as [|n IH]; intros i s ks Hi Hm Hl Hne HD Hc.
  - destruct ks; [|discriminate]. exists s. intros rest. rewrite skipn_all2 by lia. cbn [app concat].
    destruct (feed_all s rest); reflexivity.
  - destruct ks as [|k ks]; [discriminate|].
    destruct (step_ok ws i s k Hi (Hne (i - 1)%nat ltac:(lia)) HD) as (s' & E & HD').
    { specialize (Hc 0%nat ltac:(lia)). rewrite Nat.add_0_r in Hc. exact Hc. }
    destruct (IH (S i) s' ks) as (s_end & Hend); try lia; try assumption.
    + cbn in Hl. lia.
    + intros t Ht. specialize (Hc (S t) ltac:(lia)). replace (S i + t)%nat with (i + S t)%nat by lia. exact Hc.
    + exists s_end. intros rest. cbn [app feed_all]. rewrite E, Hend.
      assert (Hsk : skipn i ws = phrase ws i :: skipn (S i) ws).
      { unfold phrase. clear -Hm. revert i Hm. induction ws as [|w ws IHw]; intros i Hm; [cbn in Hm; lia|].
        destruct i; [reflexivity|]. cbn [skipn nth]. apply IHw. cbn in Hm. lia. }
      rewrite Hsk. cbn [concat]. destruct (feed_all s_end rest); cbn [option_map]; [rewrite app_assoc|]; reflexivity.
Qed.

(* one segment, from ANY decoder state (the clear-table code resets it), followed by anything *)
Lemma segment_decodes ws ks s : length ks = length ws -> (forall t, (t < length ws)%nat -> phrase ws t <> []) ->
  (forall t, (t < length ws)%nat -> code_ok ws t (nth t ks 0)) ->
  exists s_end, forall rest, feed_all s (256 :: ks ++ rest) = option_map (app (concat ws)) (feed_all s_end rest).
Proof.
  intros Hl Hne Hc.
  assert (Eclr : lzw_feed s 256 = FeedOk [] (mkZ clear_table (Some []) 9)) by reflexivity.
  destruct ws as [|w ws'].
  - destruct ks; [|discriminate]. exists (mkZ clear_table (Some []) 9). intros rest. cbn [feed_all app]. rewrite Eclr.
    cbn [concat]. destruct (feed_all _ rest); reflexivity.
  - destruct ks as [|k ks']; [discriminate|].
    destruct (first_ok (w :: ws') k (Hc 0%nat ltac:(cbn; lia))) as (s' & E & HD).
    destruct (rest_ok (w :: ws') (length ws') 1 s' ks') as (s_end & Hend); try (cbn in *; lia); try assumption.
    + intros t Ht. exact (Hc (S t) ltac:(cbn; lia)).
    + exists s_end. intros rest. cbn [feed_all app]. rewrite Eclr, E, Hend. cbn [skipn concat].
      destruct (feed_all s_end rest); cbn [option_map app]; [rewrite app_assoc|]; reflexivity.
Qed.

(* THE THEOREM (code level): clear-table, then the codes of any admissible phrase sequence, decode to the data *)
Theorem lzw_codes_decode ws ks : length ks = length ws -> (forall t, (t < length ws)%nat -> phrase ws t <> []) ->
  (forall t, (t < length ws)%nat -> code_ok ws t (nth t ks 0)) ->
  feed_all lzw_init (256 :: ks) = Some (concat ws).
Proof.
  intros Hl Hne Hc. destruct (segment_decodes ws ks lzw_init Hl Hne Hc) as (s_end & H).
  specialize (H []). rewrite app_nil_r in H. rewrite H. cbn [feed_all option_map]. rewrite app_nil_r. reflexivity.
Qed.

(* any number of segments, each introduced by a clear-table code (an encoder clears when its table is full) *)
Definition seg_ok (seg : list (list Z) * list Z) : Prop :=
  length (snd seg) = length (fst seg) /\ (forall t, (t < length (fst seg))%nat -> phrase (fst seg) t <> []) /\
  (forall t, (t < length (fst seg))%nat -> code_ok (fst seg) t (nth t (snd seg) 0)).
Theorem lzw_segments_decode : forall segs s, Forall seg_ok segs ->
  exists s_end, forall rest, feed_all s (flat_map (fun seg => 256 :: snd seg) segs ++ rest)
                             = option_map (app (concat (flat_map fst segs))) (feed_all s_end rest).
Proof.
  induction segs as [|[ws ks] segs IH]; intros s H.
  - exists s. intros rest. cbn. destruct (feed_all s rest); reflexivity.
  - inversion H as [|? ? (Hl & Hne & Hc) Hrest]; subst. cbn [fst snd] in *.
    destruct (segment_decodes ws ks s Hl Hne Hc) as (s1 & H1).
    destruct (IH s1 Hrest) as (s_end & H2). exists s_end. intros rest.
    cbn [flat_map fst snd].
    replace (((256 :: ks) ++ flat_map (fun seg : list (list Z) * list Z => 256 :: snd seg) segs) ++ rest)
      with (256 :: ks ++ (flat_map (fun seg : list (list Z) * list Z => 256 :: snd seg) segs ++ rest))
      by (cbn [app]; rewrite <- !app_assoc; reflexivity).
    rewrite H1, H2, concat_app. destruct (feed_all s_end rest); cbn [option_map]; [rewrite app_assoc|]; reflexivity.
Qed.
