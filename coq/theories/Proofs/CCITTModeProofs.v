(* C19, mode layer: decoding the pass / vertical / horizontal elements a conforming T.6 encoder emits for a row,
   against the reference row, rebuilds exactly the row; by induction over rows, a whole page. *)
From Coq Require Import ZArith List Bool Lia ZifyBool.
From PdfV Require Import Model.CCITT.
Import ListNotations.
Open Scope Z_scope.

(* ---------- lines ---------------------------------------------------------------------------------------------------- *)
Definition bin (l : list Z) : Prop := Forall (fun p => p = 0 \/ p = 1) l.
Definition wid (l : list Z) : Z := Z.of_nat (length l).
(* pixel left of the line start: the imaginary white element of T.6 *)
Definition pxw (l : list Z) (i : Z) : Z := if i <? 0 then 1 else pix l i.

Lemma length_fill l : forall a b c k, length (fill l a b c k) = length l.
Proof. induction l as [|p r IH]; intros; cbn [fill length]; [reflexivity|]. rewrite IH. reflexivity. Qed.

Lemma nth_fill l : forall a b c k (j : nat), (j < length l)%nat ->
  nth j (fill l a b c k) 1 = if (a <=? k + Z.of_nat j) && (k + Z.of_nat j <? b) then c else nth j l 1.
Proof.
  induction l as [|p r IH]; intros a b c k j Hj; [cbn in Hj; lia|].
  cbn [fill]. destruct j as [|j].
  - cbn [nth]. replace (k + Z.of_nat 0) with k by lia. reflexivity.
  - cbn [nth length] in *. rewrite IH by lia. replace (k + 1 + Z.of_nat j) with (k + Z.of_nat (S j)) by lia. reflexivity.
Qed.

Lemma pix_fill l a b c i : 0 <= i < wid l ->
  pix (fill l a b c 0) i = if (a <=? i) && (i <? b) then c else pix l i.
Proof.
  intros Hi. unfold pix, wid in *. rewrite nth_fill by lia. rewrite Z2Nat.id by lia. reflexivity.
Qed.

Lemma pix_bin l i : bin l -> 0 <= i < wid l -> pix l i = 0 \/ pix l i = 1.
Proof.
  intros Hb Hi. unfold pix, wid in *. unfold bin in Hb. rewrite Forall_forall in Hb. apply Hb. apply nth_In. lia.
Qed.

Lemma pix_ext a b : length a = length b -> (forall i, 0 <= i < wid a -> pix a i = pix b i) -> a = b.
Proof.
  intros Hl H. apply (nth_ext a b 1 1 Hl). intros n Hn. specialize (H (Z.of_nat n)).
  unfold pix, wid in H. rewrite Nat2Z.id in H. apply H. lia.
Qed.

(* ---------- the changing elements of T.6, declaratively ------------------------------------------------------ *)
(* a candidate for b1 at x: the reference pixel left of x has the current colour, the one at x has not *)
Definition b1_at (ref : list Z) (c x : Z) : Prop := pxw ref (x - 1) = c /\ pix ref x <> c.
(* b1: first such element to the right of a0, or the end of the line *)
Definition is_b1 (ref : list Z) (a0 c b : Z) : Prop :=
  a0 < b <= wid ref /\ 0 <= b /\ (b < wid ref -> b1_at ref c b) /\ (forall i, a0 < i < b -> 0 <= i -> ~ b1_at ref c i).
(* b2: the next changing element after b1 (back to the current colour), or the end of the line *)
Definition b2_at (ref : list Z) (c x : Z) : Prop := pxw ref (x - 1) <> c /\ pix ref x = c.
Definition is_b2 (ref : list Z) (c b1 b : Z) : Prop :=
  b1 <= b <= wid ref /\ 0 <= b /\ (b < wid ref -> b2_at ref c b) /\ (forall i, b1 <= i < b -> 0 <= i -> ~ b2_at ref c i).
(* a1 on the coding line: end of the run of the current colour that starts at a0 (a0 = -1: at the line start) *)
Definition is_a1 (row : list Z) (a0 c a : Z) : Prop :=
  Z.max 0 a0 <= a <= wid row /\ (forall i, Z.max 0 a0 <= i < a -> pix row i = c) /\ (a < wid row -> pix row a <> c).

Lemma b1_test_0 ref c : ((c =? 1) && negb (pix ref 0 =? c) = true) <-> b1_at ref c 0.
Proof. unfold b1_at, pxw. change (0 - 1 <? 0) with true. cbv iota. generalize (pix ref 0). intros p. split; intros H; [|destruct H]; lia. Qed.
Lemma b1_test_pos ref c x : 0 < x -> ((pix ref (x - 1) =? c) && negb (pix ref x =? c) = true) <-> b1_at ref c x.
Proof. intros Hx. unfold b1_at, pxw. assert (E : x - 1 <? 0 = false) by lia. rewrite E. split; intros H; [|destruct H]; lia. Qed.

Lemma find_b1_spec ref c a0 : 0 < wid ref -> forall fuel x, 0 <= x <= wid ref -> a0 < x ->
  wid ref - x < Z.of_nat fuel -> (forall i, a0 < i < x -> 0 <= i -> ~ b1_at ref c i) ->
  is_b1 ref a0 c (find_b1 fuel ref c x).
Proof.
  intros HW. induction fuel as [|f IH]; intros x Hx Ha Hf Hmin; [lia|].
  cbn [find_b1]. destruct (x =? 0) eqn:E0.
  - assert (x = 0) by lia. subst x.
    destruct ((c =? 1) && negb (pix ref 0 =? c)) eqn:T.
    + apply b1_test_0 in T. unfold is_b1. repeat split; try lia; try apply T; auto.
    + apply IH; try lia. intros i Hi Hi0. assert (i = 0) by lia. subst i. intros Hb. apply b1_test_0 in Hb. congruence.
  - fold (wid ref). destruct (x =? wid ref) eqn:EW.
    + cbn [orb]. assert (x = wid ref) by lia. subst x. unfold is_b1. repeat split; try lia; try apply T; auto.
    + cbn [orb]. destruct ((pix ref (x - 1) =? c) && negb (pix ref x =? c)) eqn:T.
      * apply b1_test_pos in T; [|lia]. unfold is_b1. repeat split; try lia; try apply T; auto.
      * apply IH; try lia. intros i Hi Hi0. destruct (Z.eq_dec i x) as [->|Hne]; [|apply Hmin; lia].
        intros Hb. apply b1_test_pos in Hb; [|lia]. congruence.
Qed.

Lemma b2_test_pos ref c x : 0 < x -> (negb (pix ref (x - 1) =? c) && (pix ref x =? c) = true) <-> b2_at ref c x.
Proof. intros Hx. unfold b2_at, pxw. assert (E : x - 1 <? 0 = false) by lia. rewrite E. split; intros H; [|destruct H]; lia. Qed.
Lemma b2_test_zero ref c : (c = 0 \/ c = 1) -> ((c =? 0) && (pix ref 0 =? c) = true) <-> b2_at ref c 0.
Proof. intros Hc. unfold b2_at, pxw. change (0 - 1 <? 0) with true. cbv iota. generalize (pix ref 0). intros p. split; intros H; [|destruct H]; lia. Qed.

Lemma find_b2_spec ref c b1 : 0 < wid ref -> (c = 0 \/ c = 1) -> forall fuel x, 0 <= x <= wid ref -> b1 <= x ->
  wid ref - x < Z.of_nat fuel -> (forall i, b1 <= i < x -> 0 <= i -> ~ b2_at ref c i) ->
  is_b2 ref c b1 (find_b2 fuel ref c x).
Proof.
  intros HW Hc. induction fuel as [|f IH]; intros x Hx Ha Hf Hmin; [lia|].
  cbn [find_b2]. destruct (x =? 0) eqn:E0.
  - assert (x = 0) by lia. subst x.
    destruct ((c =? 0) && (pix ref 0 =? c)) eqn:T.
    + apply (b2_test_zero ref c Hc) in T. unfold is_b2. repeat split; try lia; try apply T; auto.
    + apply IH; try lia. intros i Hi Hi0. assert (i = 0) by lia. subst i. intros Hb.
      apply (b2_test_zero ref c Hc) in Hb. congruence.
  - fold (wid ref). destruct (x =? wid ref) eqn:EW.
    + cbn [orb]. assert (x = wid ref) by lia. subst x. unfold is_b2. repeat split; try lia; try apply T; auto.
    + cbn [orb]. destruct (negb (pix ref (x - 1) =? c) && (pix ref x =? c)) eqn:T.
      * apply b2_test_pos in T; [|lia]. unfold is_b2. repeat split; try lia; try apply T; auto.
      * apply IH; try lia. intros i Hi Hi0. destruct (Z.eq_dec i x) as [->|Hne]; [|apply Hmin; lia].
        intros Hb. apply b2_test_pos in Hb; [|lia]. congruence.
Qed.

Lemma is_b1_unique ref a0 c b b' : is_b1 ref a0 c b -> is_b1 ref a0 c b' -> b = b'.
Proof.
  intros (H1 & H2 & H3 & H4) (H1' & H2' & H3' & H4').
  destruct (Z.lt_trichotomy b b') as [L|[E|L]]; [|exact E|].
  - exfalso. apply (H4' b); try lia. apply H3. lia.
  - exfalso. apply (H4 b'); try lia. apply H3'. lia.
Qed.
Lemma is_b2_unique ref c b1 b b' : is_b2 ref c b1 b -> is_b2 ref c b1 b' -> b = b'.
Proof.
  intros (H1 & H2 & H3 & H4) (H1' & H2' & H3' & H4').
  destruct (Z.lt_trichotomy b b') as [L|[E|L]]; [|exact E|].
  - exfalso. apply (H4' b); try lia. apply H3. lia.
  - exfalso. apply (H4 b'); try lia. apply H3'. lia.
Qed.

(* the decoder's searches compute b1 and b2 *)
Lemma decoder_b1 ref c a0 : 0 < wid ref -> -1 <= a0 < wid ref ->
  is_b1 ref a0 c (find_b1 (S (length ref)) ref c (a0 + 1)).
Proof. intros HW Ha. apply find_b1_spec; try lia; try (unfold wid in *; lia); intros; lia. Qed.
Lemma decoder_b2 ref c b1 : 0 < wid ref -> (c = 0 \/ c = 1) -> 0 <= b1 <= wid ref ->
  is_b2 ref c b1 (find_b2 (S (length ref)) ref c b1).
Proof. intros HW Hc Hb. apply find_b2_spec; try lia; try exact Hc; try (unfold wid in *; lia); intros; lia. Qed.

(* ---------- the elements an encoder may emit, and the decoder's reaction ---------------------------------- *)
Inductive op := OPass | OVert (d : Z) | OHoriz (n1 n2 : Z).

(* admissible coding of [row] against [ref] from the coding state (a0, colour): T.6 section 2.2 *)
Inductive coding (ref row : list Z) : Z -> Z -> list op -> Prop :=
| c_done : forall c, coding ref row (wid row) c []
| c_pass : forall a0 c b1 b2 a1 ops, a0 < wid row ->
    is_b1 ref a0 c b1 -> is_b2 ref c b1 b2 -> is_a1 row a0 c a1 -> b2 < a1 ->
    coding ref row b2 c ops -> coding ref row a0 c (OPass :: ops)
| c_vert : forall a0 c b1 a1 d ops, a0 < wid row ->
    is_b1 ref a0 c b1 -> is_a1 row a0 c a1 -> a1 = b1 + d -> -3 <= d <= 3 ->
    coding ref row a1 (1 - c) ops -> coding ref row a0 c (OVert d :: ops)
| c_horiz : forall a0 c a1 a2 ops, a0 < wid row ->
    is_a1 row a0 c a1 -> is_a1 row a1 (1 - c) a2 ->
    coding ref row a2 c ops -> coding ref row a0 c (OHoriz (a1 - Z.max 0 a0) (a2 - a1) :: ops).

Definition apply_op (s : g4) (o : op) : g4 :=
  match o with OPass => do_pass s | OVert d => do_vertical s d | OHoriz n1 n2 => do_horizontal s n1 n2 end.

(* decoder state in the middle of a row *)
Record rowinv (ref row : list Z) (s : g4) : Prop := {
  ri_w : gwidth s = wid row;
  ri_ref : refline s = ref;
  ri_len : length (curline s) = length row;
  ri_col : gcolor s = 0 \/ gcolor s = 1;
  ri_pos : -1 <= gcurpos s <= wid row;
  ri_start : gcurpos s < 0 -> gcolor s = 1;
  ri_at : 0 <= gcurpos s < wid row -> pix row (gcurpos s) = gcolor s;
  ri_agree : forall i, 0 <= i < gcurpos s -> pix (curline s) i = pix row i
}.

Section Row.
Variables ref row : list Z.
Hypothesis Hlen : length ref = length row.
Hypothesis HW : 0 < wid row.
Hypothesis Hbin : bin row.

Lemma wid_eq : wid ref = wid row. Proof. unfold wid. rewrite Hlen. reflexivity. Qed.

Lemma a1_after s a1 : rowinv ref row s -> is_a1 row (gcurpos s) (gcolor s) a1 -> gcurpos s < wid row ->
  gcurpos s < a1 \/ (gcurpos s = -1 /\ a1 = 0).
Proof.
  intros I (Hr & Hrun & Hend) Hp. destruct (Z_lt_le_dec (gcurpos s) 0) as [Hn|Hn].
  - pose proof (ri_pos _ _ _ I). lia.
  - left. destruct (Z.eq_dec a1 (gcurpos s)) as [E|E]; [|lia].
    exfalso. apply Hend; [lia|]. rewrite E. apply (ri_at _ _ _ I). lia.
Qed.

Lemma step_vert s b1 a1 d : rowinv ref row s -> gcurpos s < wid row ->
  is_b1 ref (gcurpos s) (gcolor s) b1 -> is_a1 row (gcurpos s) (gcolor s) a1 -> a1 = b1 + d ->
  rowinv ref row (do_vertical s d) /\ gcurpos (do_vertical s d) = a1 /\ gcolor (do_vertical s d) = 1 - gcolor s.
Proof.
  intros I Hp Hb1 Ha1 Hd. pose proof wid_eq as WE.
  pose proof (ri_pos _ _ _ I) as Pp. pose proof (ri_col _ _ _ I) as Pc.
  assert (Eb : find_b1 (S (length (refline s))) (refline s) (gcolor s) (gcurpos s + 1) = b1).
  { rewrite (ri_ref _ _ _ I). apply (is_b1_unique ref (gcurpos s) (gcolor s)); [|exact Hb1]. apply decoder_b1; lia. }
  destruct Ha1 as (Hr & Hrun & Hend).
  unfold do_vertical. rewrite Eb, (ri_w _ _ _ I). rewrite <- Hd.
  replace (Z.max 0 (Z.min (wid row) a1)) with a1 by lia.
  set (x0 := Z.max 0 (gcurpos s)) in *.
  assert (Hx : x0 <= a1) by lia.
  assert (E1 : a1 <? x0 = false) by lia. rewrite E1.
  split; [|split; reflexivity].
  constructor; cbn [set_line gwidth refline curline gcolor gcurpos].
  - apply (ri_w _ _ _ I).
  - apply (ri_ref _ _ _ I).
  - destruct (x0 <? a1); [rewrite length_fill|]; apply (ri_len _ _ _ I).
  - lia.
  - lia.
  - lia.
  - intros Hi. assert (Hne : pix row a1 <> gcolor s) by (apply Hend; lia).
    destruct (pix_bin row a1 Hbin ltac:(lia)); lia.
  - intros i Hi. assert (Hw : wid (curline s) = wid row) by (unfold wid; rewrite (ri_len _ _ _ I); reflexivity).
    destruct (x0 <? a1) eqn:E2.
    + rewrite pix_fill by lia. destruct ((x0 <=? i) && (i <? a1)) eqn:E3.
      * symmetry. apply Hrun. lia.
      * apply (ri_agree _ _ _ I). lia.
    + apply (ri_agree _ _ _ I). lia.
Qed.

Lemma step_pass s b1 b2 a1 : rowinv ref row s -> gcurpos s < wid row ->
  is_b1 ref (gcurpos s) (gcolor s) b1 -> is_b2 ref (gcolor s) b1 b2 -> is_a1 row (gcurpos s) (gcolor s) a1 -> b2 < a1 ->
  rowinv ref row (do_pass s) /\ gcurpos (do_pass s) = b2 /\ gcolor (do_pass s) = gcolor s.
Proof.
  intros I Hp Hb1 Hb2 Ha1 Hlt. pose proof wid_eq as WE.
  pose proof (ri_pos _ _ _ I) as Pp. pose proof (ri_col _ _ _ I) as Pc.
  assert (Eb : find_b1 (S (length (refline s))) (refline s) (gcolor s) (gcurpos s + 1) = b1).
  { rewrite (ri_ref _ _ _ I). apply (is_b1_unique ref (gcurpos s) (gcolor s)); [|exact Hb1]. apply decoder_b1; lia. }
  assert (Hb1r : 0 <= b1 <= wid ref) by (destruct Hb1 as (? & ? & _); lia).
  assert (Eb2 : find_b2 (S (length (refline s))) (refline s) (gcolor s) b1 = b2).
  { rewrite (ri_ref _ _ _ I). apply (is_b2_unique ref (gcolor s) b1); [|exact Hb2]. apply decoder_b2; [lia|exact Pc|exact Hb1r]. }
  destruct Ha1 as (Hr & Hrun & Hend). destruct Hb2 as (Hb2r & Hb20 & _). destruct Hb1 as (Hb1a & _).
  unfold do_pass. rewrite Eb, Eb2, (ri_w _ _ _ I).
  split; [|split; reflexivity].
  set (cl0 := if gcurpos s <? 0 then fill (curline s) (wid row - 1) (wid row) (gcolor s) 0 else curline s).
  assert (Hl0 : length cl0 = length row) by (subst cl0; destruct (gcurpos s <? 0); [rewrite length_fill|]; apply (ri_len _ _ _ I)).
  assert (Hw0 : wid cl0 = wid row) by (unfold wid; rewrite Hl0; reflexivity).
  constructor; cbn [set_line gwidth refline curline gcolor gcurpos].
  - apply (ri_w _ _ _ I).
  - apply (ri_ref _ _ _ I).
  - rewrite length_fill. exact Hl0.
  - exact Pc.
  - lia.
  - lia.
  - intros Hi. apply Hrun. lia.
  - intros i Hi. rewrite pix_fill by lia.
    destruct ((Z.max 0 (gcurpos s) <=? i) && (i <? b2)) eqn:E3.
    + symmetry. apply Hrun. lia.
    + assert (Hlt0 : 0 <= i < gcurpos s) by lia.
      assert (E : gcurpos s <? 0 = false) by lia. subst cl0. rewrite E. apply (ri_agree _ _ _ I). exact Hlt0.
Qed.

Lemma step_horiz s a1 a2 : rowinv ref row s -> gcurpos s < wid row ->
  is_a1 row (gcurpos s) (gcolor s) a1 -> is_a1 row a1 (1 - gcolor s) a2 ->
  let s' := do_horizontal s (a1 - Z.max 0 (gcurpos s)) (a2 - a1) in
  rowinv ref row s' /\ gcurpos s' = a2 /\ gcolor s' = gcolor s.
Proof.
  intros I Hp Ha1 Ha2. cbv zeta.
  pose proof (ri_pos _ _ _ I) as Pp. pose proof (ri_col _ _ _ I) as Pc.
  destruct Ha1 as (Hr & Hrun & Hend). destruct Ha2 as (Hr2 & Hrun2 & Hend2).
  assert (Hwc : Z.of_nat (length (curline s)) = wid row) by (unfold wid; rewrite (ri_len _ _ _ I); reflexivity).
  unfold do_horizontal. rewrite Hwc.
  set (x0 := Z.max 0 (gcurpos s)) in *.
  replace (Z.min (wid row) (x0 + Z.max 0 (a1 - x0))) with a1 by lia.
  replace (Z.min (wid row) (a1 + Z.max 0 (a2 - a1))) with a2 by lia.
  split; [|split; reflexivity].
  assert (Hw1 : wid (fill (curline s) x0 a1 (gcolor s) 0) = wid row) by (unfold wid; rewrite length_fill, (ri_len _ _ _ I); reflexivity).
  assert (Hwc' : wid (curline s) = wid row) by exact Hwc.
  constructor; cbn [set_line gwidth refline curline gcolor gcurpos].
  - apply (ri_w _ _ _ I).
  - apply (ri_ref _ _ _ I).
  - rewrite !length_fill. apply (ri_len _ _ _ I).
  - exact Pc.
  - lia.
  - lia.
  - intros Hi. assert (Hne : pix row a2 <> 1 - gcolor s) by (apply Hend2; lia).
    destruct (pix_bin row a2 Hbin ltac:(lia)); lia.
  - intros i Hi. rewrite pix_fill by lia.
    destruct ((a1 <=? i) && (i <? a2)) eqn:E3.
    + symmetry. apply Hrun2. lia.
    + rewrite pix_fill by lia. destruct ((x0 <=? i) && (i <? a1)) eqn:E4.
      * symmetry. apply Hrun. lia.
      * apply (ri_agree _ _ _ I). lia.
Qed.

(* a whole row: any admissible coding, decoded element by element, rebuilds the row *)
Theorem row_decodes : forall ops s, rowinv ref row s -> coding ref row (gcurpos s) (gcolor s) ops ->
  let s' := fold_left apply_op ops s in
  curline s' = row /\ gcurpos s' = wid row /\ refline s' = ref /\ gwidth s' = gwidth s /\ lines s' = lines s /\ galign s' = galign s.
Proof.
  intros ops s I C. cbv zeta. remember (gcurpos s) as a0 eqn:Ea. remember (gcolor s) as c eqn:Ec.
  revert s I Ea Ec. induction C as [c|a0 c b1 b2 a1 ops Hp Hb1 Hb2 Ha1 Hlt C IH|a0 c b1 a1 d ops Hp Hb1 Ha1 Hd Hr C IH|a0 c a1 a2 ops Hp Ha1 Ha2 C IH];
    intros s I Ea Ec; subst.
  - cbn [fold_left]. split; [|split; [symmetry; exact Ea|split; [apply (ri_ref _ _ _ I)|auto]]].
    apply pix_ext; [apply (ri_len _ _ _ I)|]. intros i Hi.
    assert (Hw : wid (curline s) = wid row) by (unfold wid; rewrite (ri_len _ _ _ I); reflexivity).
    apply (ri_agree _ _ _ I). lia.
  - cbn [fold_left apply_op]. destruct (step_pass s b1 b2 a1 I Hp Hb1 Hb2 Ha1 Hlt) as (I' & P' & C').
    destruct (IH (do_pass s) I' (eq_sym P') (eq_sym C')) as (R1 & R2 & R3 & R4 & R5 & R6).
    repeat split; auto.
  - cbn [fold_left apply_op]. destruct (step_vert s b1 (b1 + d) d I Hp Hb1 Ha1 eq_refl) as (I' & P' & C').
    destruct (IH (do_vertical s d) I' (eq_sym P') (eq_sym C')) as (R1 & R2 & R3 & R4 & R5 & R6).
    repeat split; auto.
  - cbn [fold_left apply_op]. destruct (step_horiz s a1 a2 I Hp Ha1 Ha2) as (I' & P' & C').
    destruct (IH _ I' (eq_sym P') (eq_sym C')) as (R1 & R2 & R3 & R4 & R5 & R6).
    repeat split; auto.
Qed.
End Row.

(* the state at the start of every row satisfies the invariant *)
Lemma row_start ref row s : length ref = length row -> gwidth s = wid row -> refline s = ref ->
  curline s = white_line (wid row) -> gcurpos s = -1 -> gcolor s = 1 -> rowinv ref row s.
Proof.
  intros Hl Hw Hr Hc Hp Hcol. assert (0 <= wid row) by (unfold wid; lia). constructor.
  - exact Hw.
  - exact Hr.
  - rewrite Hc. unfold white_line, wid. rewrite repeat_length, Nat2Z.id. reflexivity.
  - right. exact Hcol.
  - lia.
  - intros _. exact Hcol.
  - lia.
  - intros i Hi. lia.
Qed.

(* ---------- rows follow each other: the flush at the end of a row ------------------------------------------- *)
Definition apply_flush (s : g4) (o : op) : g4 := fst (flush_line (apply_op s o)).

Lemma coding_end ref row c ops : coding ref row (wid row) c ops -> ops = [].
Proof. intros C. inversion C; subst; try reflexivity; lia. Qed.

Lemma row_finished ref row s : rowinv ref row s -> gcurpos s = wid row -> curline s = row.
Proof.
  intros I Hp. apply pix_ext; [apply (ri_len _ _ _ I)|]. intros i Hi.
  assert (Hw : wid (curline s) = wid row) by (unfold wid; rewrite (ri_len _ _ _ I); reflexivity).
  apply (ri_agree _ _ _ I). lia.
Qed.

Definition row_start_state (s : g4) (ref : list Z) : Prop :=
  gwidth s = wid ref /\ refline s = ref /\ curline s = white_line (wid ref) /\ gcurpos s = -1 /\ gcolor s = 1.

Lemma flush_mid ref row s : rowinv ref row s -> gcurpos s < wid row -> flush_line s = (s, false).
Proof. intros I Hp. unfold flush_line. rewrite (ri_w _ _ _ I). assert (E : wid row <=? gcurpos s = false) by lia. rewrite E. reflexivity. Qed.

Lemma flush_end ref row s : rowinv ref row s -> gcurpos s = wid row ->
  let s' := fst (flush_line s) in
  row_start_state s' row /\ lines s' = row :: lines s /\ galign s' = galign s.
Proof.
  intros I Hp. cbv zeta. unfold flush_line. rewrite (ri_w _ _ _ I).
  assert (E : wid row <=? gcurpos s = true) by lia. rewrite E. cbn [fst].
  rewrite (row_finished ref row s I Hp). unfold row_start_state. cbn. repeat split; reflexivity.
Qed.

Section RowFlush.
Variables ref row : list Z.
Hypothesis Hlen : length ref = length row.
Hypothesis HW : 0 < wid row.
Hypothesis Hbin : bin row.

Theorem row_decodes_flush : forall ops s, rowinv ref row s -> gcurpos s < wid row ->
  coding ref row (gcurpos s) (gcolor s) ops ->
  let s' := fold_left apply_flush ops s in
  row_start_state s' row /\ lines s' = row :: lines s /\ galign s' = galign s.
Proof.
  intros ops s I Hp C. cbv zeta. remember (gcurpos s) as a0 eqn:Ea. remember (gcolor s) as c eqn:Ec.
  revert s I Ea Ec Hp.
  assert (Step : forall ops s s1, rowinv ref row s1 -> lines s1 = lines s -> galign s1 = galign s ->
            coding ref row (gcurpos s1) (gcolor s1) ops ->
            (forall s0, rowinv ref row s0 -> gcurpos s1 = gcurpos s0 -> gcolor s1 = gcolor s0 -> gcurpos s0 < wid row ->
               row_start_state (fold_left apply_flush ops s0) row /\
               lines (fold_left apply_flush ops s0) = row :: lines s0 /\ galign (fold_left apply_flush ops s0) = galign s0) ->
            row_start_state (fold_left apply_flush ops (fst (flush_line s1))) row /\
            lines (fold_left apply_flush ops (fst (flush_line s1))) = row :: lines s /\
            galign (fold_left apply_flush ops (fst (flush_line s1))) = galign s).
  { intros ops0 s0 s1 I1 L1 G1 C1 IH1. pose proof (ri_pos _ _ _ I1) as Pp.
    destruct (Z_lt_le_dec (gcurpos s1) (wid row)) as [Hm|He].
    - rewrite (flush_mid ref row _ I1 Hm). cbn [fst].
      destruct (IH1 s1 I1 eq_refl eq_refl Hm) as (R1 & R2 & R3). rewrite R2, R3, L1, G1. auto.
    - assert (Hq : gcurpos s1 = wid row) by lia. rewrite Hq in C1. apply coding_end in C1. subst ops0. cbn [fold_left].
      destruct (flush_end ref row _ I1 Hq) as (R1 & R2 & R3). cbv zeta in *. rewrite R2, R3, L1, G1. auto. }
  induction C as [c|a0 c b1 b2 a1 ops Hp0 Hb1 Hb2 Ha1 Hlt C IH|a0 c b1 a1 d ops Hp0 Hb1 Ha1 Hd Hr C IH|a0 c a1 a2 ops Hp0 Ha1 Ha2 C IH];
    intros s I Ea Ec Hp; subst; [lia| | |].
  - cbn [fold_left]. unfold apply_flush at 2 4 6. cbn [apply_op].
    destruct (step_pass ref row Hlen HW s b1 b2 a1 I Hp Hb1 Hb2 Ha1 Hlt) as (I' & P' & C').
    apply Step; [exact I'|reflexivity|reflexivity|rewrite P', C'; exact C|].
    intros s0 I0 E1 E2 H0. apply IH; [exact I0|rewrite <- E1; symmetry; exact P'|rewrite <- E2; symmetry; exact C'|lia].
  - cbn [fold_left]. unfold apply_flush at 2 4 6. cbn [apply_op].
    destruct (step_vert ref row Hlen HW Hbin s b1 (b1 + d) d I Hp Hb1 Ha1 eq_refl) as (I' & P' & C').
    apply Step; [exact I'|reflexivity|reflexivity|rewrite P', C'; exact C|].
    intros s0 I0 E1 E2 H0. apply IH; [exact I0|rewrite <- E1; symmetry; exact P'|rewrite <- E2; symmetry; exact C'|lia].
  - cbn [fold_left]. unfold apply_flush at 2 4 6. cbn [apply_op].
    destruct (step_horiz ref row Hlen HW Hbin s a1 a2 I Hp Ha1 Ha2) as (I' & P' & C'). cbv zeta in *.
    apply Step; [exact I'|reflexivity|reflexivity|rewrite P', C'; exact C|].
    intros s0 I0 E1 E2 H0. apply IH; [exact I0|rewrite <- E1; symmetry; exact P'|rewrite <- E2; symmetry; exact C'|lia].
Qed.
End RowFlush.

(* a page: every row coded against the row before it (the first against an all-white row) *)
Inductive page_coding : list Z -> list (list Z) -> list op -> Prop :=
| pg_nil : forall ref, page_coding ref [] []
| pg_row : forall ref row rows ops ops', length ref = length row -> bin row ->
    coding ref row (-1) 1 ops -> page_coding row rows ops' -> page_coding ref (row :: rows) (ops ++ ops').

Theorem page_decodes : forall ref rows ops, page_coding ref rows ops -> 0 < wid ref ->
  forall s, row_start_state s ref ->
  let s' := fold_left apply_flush ops s in
  lines s' = rev rows ++ lines s /\ galign s' = galign s.
Proof.
  intros ref rows ops P. induction P as [ref|ref row rows ops ops' Hl Hb C P IH]; intros HW s St; cbv zeta.
  - cbn. auto.
  - rewrite fold_left_app. destruct St as (S1 & S2 & S3 & S4 & S5).
    assert (Hwe : wid ref = wid row) by (unfold wid; rewrite Hl; reflexivity).
    assert (I : rowinv ref row s) by (apply row_start; try assumption; rewrite <- Hwe; assumption).
    assert (Hp : gcurpos s < wid row) by lia.
    rewrite <- S4 in C at 1. rewrite <- S5 in C.
    destruct (row_decodes_flush ref row Hl ltac:(lia) Hb ops s I Hp C) as (R1 & R2 & R3). cbv zeta in *.
    destruct (IH ltac:(lia) _ R1) as (Q1 & Q2). cbv zeta in *.
    rewrite Q1, Q2, R2, R3. cbn [rev]. rewrite <- app_assoc. auto.
Qed.

(* from the decoder's initial state: the lines collected are exactly the rows, in order *)
Corollary page_from_init w align rows ops : 0 < w -> page_coding (white_line w) rows ops ->
  rev (lines (fold_left apply_flush ops (g4_init w align))) = rows.
Proof.
  intros Hw P.
  assert (Hwid : wid (white_line w) = w) by (unfold wid, white_line; rewrite repeat_length; lia).
  destruct (page_decodes _ rows ops P ltac:(lia) (g4_init w align)) as (Q1 & _).
  - unfold row_start_state, g4_init. cbn. rewrite Hwid. auto.
  - cbv zeta in Q1. rewrite Q1. cbn [g4_init lines]. rewrite app_nil_r, rev_involutive. reflexivity.
Qed.

(* ---------- every row has an admissible coding (so the theorems speak about every bitmap) ------------------- *)
Fixpoint run_end (fuel : nat) (row : list Z) (c x : Z) : Z :=
  match fuel with
  | O => x
  | S f => if (x <? wid row) && (pix row x =? c) then run_end f row c (x + 1) else x
  end.

Lemma run_end_spec row c : forall fuel x, 0 <= x <= wid row -> wid row - x <= Z.of_nat fuel ->
  let a := run_end fuel row c x in
  x <= a <= wid row /\ (forall i, x <= i < a -> pix row i = c) /\ (a < wid row -> pix row a <> c).
Proof.
  induction fuel as [|f IH]; intros x Hx Hf; cbv zeta.
  - cbn [run_end]. assert (x = wid row) by lia. subst x. repeat split; try lia; intros; lia.
  - cbn [run_end]. destruct ((x <? wid row) && (pix row x =? c)) eqn:T.
    + destruct (IH (x + 1) ltac:(lia) ltac:(lia)) as (R1 & R2 & R3). cbv zeta in *.
      split; [lia|]. split; [|exact R3]. intros i Hi. destruct (Z.eq_dec i x) as [->|Hne]; [lia|apply R2; lia].
    + split; [lia|]. split; [intros; lia|]. intros Hlt. lia.
Qed.

Lemma horizontal_coding_exists ref row : bin row -> 0 < wid row ->
  forall n a0 c, (wid row - Z.max 0 a0 <= Z.of_nat n) -> (c = 0 \/ c = 1) ->
  ((a0 = -1 /\ c = 1) \/ (0 <= a0 < wid row /\ pix row a0 = c) \/ a0 = wid row) ->
  exists ops, coding ref row a0 c ops.
Proof.
  intros Hb HW. induction n as [|n IH]; intros a0 c Hn Hc Hst.
  - assert (a0 = wid row) by lia. subst a0. exists []. constructor.
  - destruct Hst as [ [ -> -> ] | [ [Ha Hp] | -> ] ]; [| |exists []; constructor].
    + (* line start *)
      destruct (run_end_spec row 1 (Z.to_nat (wid row)) 0 ltac:(lia) ltac:(lia)) as (A1 & A2 & A3). cbv zeta in *.
      set (a1 := run_end (Z.to_nat (wid row)) row 1 0) in *.
      destruct (run_end_spec row 0 (Z.to_nat (wid row)) a1 ltac:(lia) ltac:(lia)) as (B1 & B2 & B3). cbv zeta in *.
      set (a2 := run_end (Z.to_nat (wid row)) row 0 a1) in *.
      assert (Hgt : 0 < a2).
      { destruct (Z.eq_dec a1 0) as [E|E]; [|lia]. destruct (Z.eq_dec a2 0) as [E2|E2]; [|lia].
        exfalso. rewrite E in *. rewrite E2 in *. specialize (A3 HW). specialize (B3 HW).
        destruct (pix_bin row 0 Hb ltac:(lia)); lia. }
      destruct (IH a2 1) as (ops & C); [lia|auto|..].
      { destruct (Z.eq_dec a2 (wid row)) as [E|E]; [right; right; exact E|right; left].
        split; [lia|]. specialize (B3 ltac:(lia)). destruct (pix_bin row a2 Hb ltac:(lia)); lia. }
      exists (OHoriz (a1 - Z.max 0 (-1)) (a2 - a1) :: ops).
      apply (c_horiz ref row (-1) 1 a1 a2 ops); [lia| | |exact C].
      * unfold is_a1. replace (Z.max 0 (-1)) with 0 by lia. auto.
      * unfold is_a1. replace (Z.max 0 a1) with a1 by lia. replace (1 - 1) with 0 by lia. auto.
    + destruct (run_end_spec row c (Z.to_nat (wid row)) a0 ltac:(lia) ltac:(lia)) as (A1 & A2 & A3). cbv zeta in *.
      set (a1 := run_end (Z.to_nat (wid row)) row c a0) in *.
      assert (Hgt : a0 < a1).
      { destruct (Z.eq_dec a1 a0) as [E|E]; [|lia]. exfalso. rewrite E in A3. apply A3; [lia|exact Hp]. }
      destruct (run_end_spec row (1 - c) (Z.to_nat (wid row)) a1 ltac:(lia) ltac:(lia)) as (B1 & B2 & B3). cbv zeta in *.
      set (a2 := run_end (Z.to_nat (wid row)) row (1 - c) a1) in *.
      destruct (IH a2 c) as (ops & C); [lia|exact Hc|..].
      { destruct (Z.eq_dec a2 (wid row)) as [E|E]; [right; right; exact E|right; left].
        split; [lia|]. specialize (B3 ltac:(lia)). destruct (pix_bin row a2 Hb ltac:(lia)); lia. }
      exists (OHoriz (a1 - Z.max 0 a0) (a2 - a1) :: ops).
      apply (c_horiz ref row a0 c a1 a2 ops); [lia| | |exact C].
      * unfold is_a1. replace (Z.max 0 a0) with a0 by lia. auto.
      * unfold is_a1. replace (Z.max 0 a1) with a1 by lia. auto.
Qed.

Theorem every_row_has_a_coding ref row : bin row -> 0 < wid row -> exists ops, coding ref row (-1) 1 ops.
Proof.
  intros Hb HW. apply (horizontal_coding_exists ref row Hb HW (Z.to_nat (wid row + 1))); [lia|auto|auto].
Qed.

Theorem every_page_has_a_coding : forall rows ref, Forall (fun r => length r = length ref /\ bin r) rows -> 0 < wid ref ->
  exists ops, page_coding ref rows ops.
Proof.
  induction rows as [|row rows IH]; intros ref H HW; [exists []; constructor|].
  inversion H as [|? ? [Hl Hb] Hrest]; subst.
  assert (HWr : 0 < wid row) by (unfold wid in *; rewrite Hl; exact HW).
  destruct (every_row_has_a_coding ref row Hb HWr) as (ops & C).
  destruct (IH row) as (ops' & P); [|exact HWr|].
  - apply Forall_forall. intros r Hr. rewrite Forall_forall in Hrest. destruct (Hrest r Hr) as [E B]. split; [congruence|exact B].
  - exists (ops ++ ops'). constructor; [symmetry; exact Hl|exact Hb|exact C|exact P].
Qed.

(* non-vacuity with all three modes: reference 1 1 0 0 0 1 1 1, row 1 0 0 0 1 1 0 1 (1 = white) *)
Example coding_example :
  let ref := [1; 1; 0; 0; 0; 1; 1; 1] in let row := [1; 0; 0; 0; 1; 1; 0; 1] in
  let ops := [OVert (-1); OVert (-1); OHoriz 2 1; OVert 0] in
  curline (fold_left apply_op ops (mkG4 8 false ref (white_line 8) (-1) 1 [] TMode AMode [] 0 0)) = row.
Proof. vm_compute. reflexivity. Qed.

Lemma decoder_b1_b2 ref c a0 : 0 < wid ref -> -1 <= a0 < wid ref -> (c = 0 \/ c = 1) ->
  let b1 := find_b1 (S (length ref)) ref c (a0 + 1) in
  is_b1 ref a0 c b1 /\ is_b2 ref c b1 (find_b2 (S (length ref)) ref c b1).
Proof.
  intros HW Ha Hc. cbv zeta. pose proof (decoder_b1 ref c a0 HW Ha) as H1. split; [exact H1|].
  apply decoder_b2; [exact HW|exact Hc|]. destruct H1 as (? & ? & _). lia.
Qed.
