(* C07: composite fonts. *)
From Coq Require Import ZArith QArith List Bool Lia ZifyBool.
From PdfV Require Import Gen.FontTables Model.Fonts Model.Labels Model.CMaps Proofs.LabelsProofs Proofs.FontProofs.
Import ListNotations.
Open Scope Z_scope.

(* ---------- segmentation -------------------------------------------------------------------------------- *)
(* the node reached from dictionary d along a non-empty code, all proper prefixes being inner nodes *)
Fixpoint tget (d : tdict) (code : list Z) : option trie :=
  match code with
  | [] => None
  | i :: r =>
      match r with
      | [] => tlookup i d
      | _ => match tlookup i d with Some (TNode d') => tget d' r | _ => None end
      end
  end.

Lemma decode_code root : forall code d cid rest, tget d code = Some (TLeaf cid) ->
  decode_go root d (code ++ rest) = cid :: decode_go root root rest.
Proof.
  induction code as [|i r IH]; intros d cid rest H; [discriminate|].
  cbn [tget] in H. cbn [app decode_go].
  destruct r as [|j r'].
  - rewrite H. reflexivity.
  - destruct (tlookup i d) as [[x|d']|]; try discriminate. apply IH. exact H.
Qed.

(* a string that is a concatenation of codes, each a root-to-leaf path of the CMap's trie, decodes to exactly
   the CIDs of those codes, in order: whatever the code lengths (1, 2, 3, 4 bytes mixed) *)
Theorem segmentation root cs : Forall (fun c => tget root (fst c) = Some (TLeaf (snd c))) cs ->
  cmap_decode root (concat (map fst cs)) = map snd cs.
Proof.
  unfold cmap_decode. induction 1 as [|c cs Hc Hr IH]; [reflexivity|].
  cbn [map concat]. rewrite (decode_code root (fst c) root (snd c) _ Hc). rewrite IH. reflexivity.
Qed.

(* a byte that starts no code is skipped and the walk restarts at the root *)
Theorem unknown_byte_skipped root i rest : tlookup i root = None ->
  cmap_decode root (i :: rest) = cmap_decode root rest.
Proof. intros H. unfold cmap_decode. cbn [decode_go]. rewrite H. reflexivity. Qed.

(* Identity-H/V *)
Definition be2 (c : Z) : list Z := [c / 256; c mod 256].
Lemma be2_value c : 256 * (c / 256) + c mod 256 = c.
Proof. pose proof (Z.div_mod c 256 ltac:(lia)). lia. Qed.

Theorem identity_two_bytes cids : identity_decode (flat_map be2 cids) = cids.
Proof.
  unfold identity_decode. induction cids as [|c r IH]; [reflexivity|].
  cbn [flat_map be2 app pairs_be]. rewrite be2_value, IH. reflexivity.
Qed.
Theorem identity_odd_tail cids b : identity_decode (flat_map be2 cids ++ [b]) = cids.
Proof.
  unfold identity_decode. induction cids as [|c r IH]; [reflexivity|].
  cbn [flat_map be2 app pairs_be]. rewrite be2_value, IH. reflexivity.
Qed.
Theorem identity_pair hi lo rest : identity_decode (hi :: lo :: rest) = (256 * hi + lo) :: identity_decode rest.
Proof. reflexivity. Qed.
Theorem identity_one_byte code : identity_byte_decode code = code.
Proof. reflexivity. Qed.

(* ---------- ToUnicode ---------------------------------------------------------------------------------------- *)
Lemma utf16_roundtrip cps : Forall scalar cps ->
  utf16be (S (length (flat_map enc16 cps))) (flat_map enc16 cps) = cps.
Proof. intros H. exact (decode_utf16 cps H). Qed.

(* a UTF-16BE target of any length (multi-character targets included) is stored as its code points *)
Theorem add_bytes m cid cps : Forall scalar cps -> cps <> [160] ->
  add_cid2unichr m cid (TBytes (flat_map enc16 cps)) = UOk ((cid, cps) :: m).
Proof.
  intros H Hn. unfold add_cid2unichr. rewrite utf16_roundtrip by exact H.
  destruct (str_eqb cps [160]) eqn:E; [apply str_eqb_eq in E; congruence|]. reflexivity.
Qed.

Theorem get_newest m cid u : umap_get ((cid, u) :: m) cid = Some u.
Proof. unfold umap_get. cbn [zassoc]. rewrite Z.eqb_refl. reflexivity. Qed.
Theorem get_other m cid c u : c <> cid -> umap_get ((c, u) :: m) cid = umap_get m cid.
Proof. intros H. unfold umap_get. cbn [zassoc]. assert (E : cid =? c = false) by (apply Z.eqb_neq; congruence). rewrite E. reflexivity. Qed.

(* bfchar: <code> <target> *)
Theorem bfchar_entry m code cps rest : Forall scalar cps -> cps <> [160] ->
  bfchar m ((TBytes code, TBytes (flat_map enc16 cps)) :: rest) = bfchar ((nunpack code, cps) :: m) rest.
Proof. intros H Hn. cbn [bfchar]. rewrite add_bytes by assumption. reflexivity. Qed.

(* big-endian numbers *)
Lemma nunpack_snoc v lo : nunpack (v ++ [lo]) = nunpack v * 256 + lo.
Proof. unfold nunpack. rewrite fold_left_app. reflexivity. Qed.

Definition bytes_ok (l : list Z) : Prop := Forall (fun b => 0 <= b < 256) l.

Lemma pack_roundtrip v : bytes_ok v -> (1 <= length v <= 4)%nat -> pack_tail (nunpack v) (length v) = Some v.
Proof.
  intros Hb Hl. unfold pack_tail, nunpack, be4.
  destruct v as [|a [|b [|c [|d [|e v']]]]]; cbn [length] in Hl; try lia.
  - inversion Hb as [|? ? Ha _]; subst. cbn [fold_left length].
    replace ((0 <=? 0 * 256 + a) && (0 * 256 + a <? 4294967296)) with true by (symmetry; apply andb_true_iff; split; [apply Z.leb_le|apply Z.ltb_lt]; lia).
    cbn [Nat.sub skipn]. f_equal. f_equal. rewrite Z.mod_small; lia.
  - inversion Hb as [|? ? Ha Hb1]; subst. inversion Hb1 as [|? ? Hbb _]; subst. cbn [fold_left length].
    replace ((0 <=? (0 * 256 + a) * 256 + b) && ((0 * 256 + a) * 256 + b <? 4294967296)) with true
      by (symmetry; apply andb_true_iff; split; [apply Z.leb_le|apply Z.ltb_lt]; lia).
    cbn [Nat.sub skipn]. f_equal.
    assert (E1 : ((0 * 256 + a) * 256 + b) / 256 = a) by (symmetry; apply (Z.div_unique _ 256 a b); lia).
    assert (E2 : ((0 * 256 + a) * 256 + b) mod 256 = b) by (symmetry; apply (Z.mod_unique _ 256 a b); lia).
    rewrite E1, E2. rewrite Z.mod_small by lia. reflexivity.
  - inversion Hb as [|? ? Ha Hb1]; subst. inversion Hb1 as [|? ? Hbb Hb2]; subst. inversion Hb2 as [|? ? Hc _]; subst.
    cbn [fold_left length]. set (n := ((0 * 256 + a) * 256 + b) * 256 + c).
    replace ((0 <=? n) && (n <? 4294967296)) with true
      by (symmetry; apply andb_true_iff; split; [apply Z.leb_le|apply Z.ltb_lt]; unfold n; lia).
    cbn [Nat.sub skipn]. f_equal.
    assert (E3 : n mod 256 = c) by (symmetry; apply (Z.mod_unique _ 256 (a * 256 + b) c); unfold n; lia).
    assert (D1 : n / 256 = a * 256 + b) by (symmetry; apply (Z.div_unique _ 256 (a * 256 + b) c); unfold n; lia).
    assert (E2 : n / 256 mod 256 = b) by (rewrite D1; symmetry; apply (Z.mod_unique _ 256 a b); lia).
    assert (E1 : n / 65536 mod 256 = a).
    { replace 65536 with (256 * 256) by reflexivity. rewrite <- Z.div_div by lia. rewrite D1.
      replace ((a * 256 + b) / 256) with a by (apply (Z.div_unique _ 256 a b); lia). apply Z.mod_small; lia. }
    rewrite E1, E2, E3. reflexivity.
  - inversion Hb as [|? ? Ha Hb1]; subst. inversion Hb1 as [|? ? Hbb Hb2]; subst. inversion Hb2 as [|? ? Hc Hb3]; subst.
    inversion Hb3 as [|? ? Hd _]; subst.
    cbn [fold_left length]. set (n := (((0 * 256 + a) * 256 + b) * 256 + c) * 256 + d).
    replace ((0 <=? n) && (n <? 4294967296)) with true
      by (symmetry; apply andb_true_iff; split; [apply Z.leb_le|apply Z.ltb_lt]; unfold n; lia).
    cbn [Nat.sub skipn]. f_equal.
    assert (E4 : n mod 256 = d) by (symmetry; apply (Z.mod_unique _ 256 ((a * 256 + b) * 256 + c) d); unfold n; lia).
    assert (D1 : n / 256 = (a * 256 + b) * 256 + c) by (symmetry; apply (Z.div_unique _ 256 ((a * 256 + b) * 256 + c) d); unfold n; lia).
    assert (E3 : n / 256 mod 256 = c) by (rewrite D1; symmetry; apply (Z.mod_unique _ 256 (a * 256 + b) c); lia).
    assert (D2 : n / 65536 = a * 256 + b).
    { replace 65536 with (256 * 256) by reflexivity. rewrite <- Z.div_div by lia. rewrite D1.
      symmetry. apply (Z.div_unique _ 256 (a * 256 + b) c); lia. }
    assert (E2 : n / 65536 mod 256 = b) by (rewrite D2; symmetry; apply (Z.mod_unique _ 256 a b); lia).
    assert (E1 : n / 16777216 mod 256 = a).
    { replace 16777216 with (65536 * 256) by reflexivity. rewrite <- Z.div_div by lia. rewrite D2.
      replace ((a * 256 + b) / 256) with a by (apply (Z.div_unique _ 256 a b); lia). apply Z.mod_small; lia. }
    rewrite E1, E2, E3, E4. reflexivity.
Qed.

(* bfrange, increment form: when the last byte does not overflow (ISO 32000-1 9.10.3) the i-th target is the
   first target with its last byte increased by i -- for targets of any length *)
Theorem bfrange_target p lo i : bytes_ok (p ++ [lo]) -> 0 <= i -> lo + i < 256 ->
  let c := p ++ [lo] in
  match pack_tail (nunpack (lastn 4 c) + i) (length (lastn 4 c)) with
  | Some t => butlastn 4 c ++ t = p ++ [lo + i]
  | None => False
  end.
Proof.
  intros Hb Hi Hlo. cbv zeta.
  assert (Hsplit : exists q v, p = q ++ v /\ butlastn 4 (p ++ [lo]) = q /\ lastn 4 (p ++ [lo]) = v ++ [lo] /\ (length v <= 3)%nat).
  { unfold butlastn, lastn. rewrite app_length. cbn [length].
    destruct (Nat.le_gt_cases (length p) 3) as [Hs|Hs].
    - exists [], p. replace (length p + 1 - 4)%nat with 0%nat by lia. cbn [firstn skipn]. repeat split; auto.
    - exists (firstn (length p - 3) p), (skipn (length p - 3) p).
      replace (length p + 1 - 4)%nat with (length p - 3)%nat by lia.
      split; [symmetry; apply firstn_skipn|].
      split; [rewrite firstn_app; replace (length p - 3 - length p)%nat with 0%nat by lia; cbn [firstn]; apply app_nil_r|].
      split; [rewrite skipn_app; replace (length p - 3 - length p)%nat with 0%nat by lia; reflexivity|rewrite skipn_length; lia]. }
  destruct Hsplit as (q & v & Hp & Hq & Hv & Hl).
  rewrite Hq, Hv. rewrite nunpack_snoc.
  replace (nunpack v * 256 + lo + i) with (nunpack (v ++ [lo + i])) by (rewrite nunpack_snoc; lia).
  replace (length (v ++ [lo])) with (length (v ++ [lo + i])) by (rewrite !app_length; reflexivity).
  rewrite pack_roundtrip.
  - rewrite Hp, <- app_assoc. reflexivity.
  - unfold bytes_ok in *. rewrite Hp, <- app_assoc in Hb. apply Forall_app in Hb. destruct Hb as [_ Hb].
    apply Forall_app in Hb. destruct Hb as [Hv' Hlo']. apply Forall_app. split; [exact Hv'|].
    inversion Hlo'; subst. constructor; [lia|constructor].
  - rewrite app_length. cbn [length]. lia.
Qed.

(* bfrange, array form: consecutive codes take the array's targets in order *)
Theorem bfrange_array_step m cid n v vs m' : add_cid2unichr m cid v = UOk m' ->
  range_array m cid (S n) (v :: vs) = range_array m' (cid + 1) n vs.
Proof. intros H. cbn [range_array]. rewrite H. reflexivity. Qed.

(* ---------- W arrays ------------------------------------------------------------------------------------------ *)
(* ISO 32000-1 9.7.4.3: c [w1 ... wn]  and  cfirst clast w *)
Inductive wentry := WRun (c : Z) (ws : list Q) | WRange (c1 c2 : Z) (w : Q).
Definition zq (z : Z) : Q := inject_Z z.
Definition encode_entry (e : wentry) : list witem :=
  match e with
  | WRun c ws => [WN (zq c) true; WL (map (fun w => WN w false) ws)]
  | WRange c1 c2 w => [WN (zq c1) true; WN (zq c2) true; WN w false]
  end.
Definition covers (e : wentry) (cid : Z) : option Q :=
  match e with
  | WRun c ws => if (c <=? cid) && (cid <? c + Z.of_nat (length ws)) then nth_error ws (Z.to_nat (cid - c)) else None
  | WRange c1 c2 w => if (c1 <=? cid) && (cid <=? c2) then Some w else None
  end.
(* the LAST entry covering the cid *)
Fixpoint iso_w (es : list wentry) (cid : Z) : option Q :=
  match es with
  | [] => None
  | e :: r => match iso_w r cid with Some w => Some w | None => covers e cid end
  end.

Lemma qint_zq z : qint (zq z) = z.
Proof. unfold qint, zq, inject_Z. cbn. apply Z.div_1_r. Qed.
Lemma integral_zq z : integral (zq z) = true.
Proof. unfold integral, zq, inject_Z. cbn. rewrite Z.mod_1_r. reflexivity. Qed.

Lemma set_run_lookup : forall ws m c cid,
  wlookup (set_run m c (map (fun w => WN w false) ws)) cid =
    if (c <=? cid) && (cid <? c + Z.of_nat (length ws)) then nth_error ws (Z.to_nat (cid - c)) else wlookup m cid.
Proof.
  induction ws as [|w ws IH]; intros m c cid.
  - cbn [map set_run length]. destruct ((c <=? cid) && (cid <? c + Z.of_nat 0)) eqn:E; [lia|reflexivity].
  - cbn [map set_run]. rewrite IH. cbn [length]. rewrite Nat2Z.inj_succ.
    destruct (Z.eq_dec cid c) as [->|Hne].
    + replace ((c + 1 <=? c) && (c <? c + 1 + Z.of_nat (length ws))) with false by (symmetry; apply andb_false_iff; left; apply Z.leb_gt; lia).
      replace ((c <=? c) && (c <? c + Z.succ (Z.of_nat (length ws)))) with true
        by (symmetry; apply andb_true_iff; split; [apply Z.leb_le|apply Z.ltb_lt]; lia).
      rewrite Z.sub_diag. unfold wlookup. cbn [zassoc Z.to_nat nth_error]. rewrite Z.eqb_refl. reflexivity.
    + destruct ((c + 1 <=? cid) && (cid <? c + 1 + Z.of_nat (length ws))) eqn:E.
      * replace ((c <=? cid) && (cid <? c + Z.succ (Z.of_nat (length ws)))) with true
          by (symmetry; apply andb_true_iff; split; [apply Z.leb_le|apply Z.ltb_lt]; lia).
        replace (Z.to_nat (cid - c)) with (S (Z.to_nat (cid - (c + 1)))) by lia. reflexivity.
      * destruct ((c <=? cid) && (cid <? c + Z.succ (Z.of_nat (length ws)))) eqn:E2; [lia|].
        unfold wlookup. cbn [zassoc]. assert (E3 : cid =? c = false) by (apply Z.eqb_neq; exact Hne). rewrite E3. reflexivity.
Qed.

Lemma set_range_lookup : forall n m c w cid,
  wlookup (set_range m c n w) cid = if (c <=? cid) && (cid <? c + Z.of_nat n) then Some w else wlookup m cid.
Proof.
  induction n as [|n IH]; intros m c w cid.
  - cbn [set_range]. destruct ((c <=? cid) && (cid <? c + Z.of_nat 0)) eqn:E; [lia|reflexivity].
  - cbn [set_range]. rewrite IH. rewrite Nat2Z.inj_succ.
    destruct (Z.eq_dec cid c) as [->|Hne].
    + replace ((c + 1 <=? c) && (c <? c + 1 + Z.of_nat n)) with false by (symmetry; apply andb_false_iff; left; apply Z.leb_gt; lia).
      replace ((c <=? c) && (c <? c + Z.succ (Z.of_nat n))) with true
        by (symmetry; apply andb_true_iff; split; [apply Z.leb_le|apply Z.ltb_lt]; lia).
      unfold wlookup. cbn [zassoc]. rewrite Z.eqb_refl. reflexivity.
    + destruct ((c + 1 <=? cid) && (cid <? c + 1 + Z.of_nat n)) eqn:E.
      * replace ((c <=? cid) && (cid <? c + Z.succ (Z.of_nat n))) with true
          by (symmetry; apply andb_true_iff; split; [apply Z.leb_le|apply Z.ltb_lt]; lia). reflexivity.
      * destruct ((c <=? cid) && (cid <? c + Z.succ (Z.of_nat n))) eqn:E2; [lia|].
        unfold wlookup. cbn [zassoc]. assert (E3 : cid =? c = false) by (apply Z.eqb_neq; exact Hne). rewrite E3. reflexivity.
Qed.

Definition entry_ok (e : wentry) : Prop :=
  match e with WRun _ _ => True | WRange c1 c2 _ => 0 <= c1 /\ c2 <= 65535 end.

Lemma get_widths_entries : forall es m cid, Forall entry_ok es ->
  wlookup (get_widths m [] (flat_map encode_entry es)) cid =
    match iso_w es cid with Some w => Some w | None => wlookup m cid end.
Proof.
  induction es as [|e es IH]; intros m cid Hok; [reflexivity|].
  inversion Hok as [|? ? He Hes]; subst.
  destruct e as [c ws|c1 c2 w]; cbn [flat_map encode_entry app get_widths rev].
  - cbn [rev app]. rewrite integral_zq, qint_zq. rewrite IH by exact Hes. cbn [iso_w covers].
    destruct (iso_w es cid); [reflexivity|]. rewrite set_run_lookup.
    destruct ((c <=? cid) && (cid <? c + Z.of_nat (length ws))) eqn:E; [|reflexivity].
    destruct (nth_error ws (Z.to_nat (cid - c))) eqn:En; [reflexivity|].
    apply nth_error_None in En. lia.
  - cbn [andb]. rewrite !qint_zq. cbv zeta. cbn [entry_ok] in He.
    replace (Z.max c1 0) with c1 by lia. replace (Z.min c2 65535) with c2 by lia.
    rewrite IH by exact Hes. cbn [iso_w covers].
    destruct (iso_w es cid); [reflexivity|]. rewrite set_range_lookup.
    destruct (Z_le_gt_dec c1 c2) as [Hle|Hgt].
    + replace (c1 + Z.of_nat (Z.to_nat (c2 - c1 + 1))) with (c2 + 1) by lia.
      destruct ((c1 <=? cid) && (cid <? c2 + 1)) eqn:E1; destruct ((c1 <=? cid) && (cid <=? c2)) eqn:E2; try reflexivity; lia.
    + replace (Z.to_nat (c2 - c1 + 1)) with 0%nat by lia.
      destruct ((c1 <=? cid) && (cid <? c1 + Z.of_nat 0)) eqn:E1; destruct ((c1 <=? cid) && (cid <=? c2)) eqn:E2; try reflexivity; lia.
Qed.

(* the advance of a CID in a horizontal font: the width of the last W entry covering it, else DW *)
Theorem cid_width_iso es dw w2 dw2 cid : Forall entry_ok es ->
  cid_width (mkCID false (flat_map encode_entry es) dw w2 dw2) cid =
    match iso_w es cid with Some w => w | None => dw end.
Proof.
  intros Hok. unfold cid_width. cbn [cvertical cw cdw]. rewrite get_widths_entries by exact Hok.
  destruct (iso_w es cid); reflexivity.
Qed.

(* vertical fonts without W2: every CID advances by DW2[1] and is placed by (half the glyph width, DW2[0]) *)
Theorem vertical_defaults w dw dw2 cid :
  cid_width (mkCID true w dw [] dw2) cid = snd dw2 /\ cid_disp (mkCID true w dw [] dw2) cid = (None, fst dw2).
Proof. split; reflexivity. Qed.

Theorem vertical_w2_run c w vx vy dw2 wd dw :
  let f := mkCID true wd dw [WN (zq c) true; WL [WN w false; WN vx false; WN vy false]] dw2 in
  cid_width f c = w /\ cid_disp f c = (Some vx, vy).
Proof.
  cbv zeta. unfold cid_width, cid_disp. cbn [cvertical cw2 cdw2 get_widths2 rev app].
  rewrite qint_zq. cbn [set_run2 get_widths2 zassoc]. rewrite Z.eqb_refl. split; reflexivity.
Qed.
