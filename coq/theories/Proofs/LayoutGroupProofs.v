(* C08: lines -> boxes keeps every line in exactly one box; boxes -> groups keeps every box as exactly one leaf and
   terminates. *)
From Coq Require Import ZArith QArith List Bool Lia Permutation.
From PdfV Require Import Base.Num Base.ListX Gen.Geom Model.Plane Model.Layout.
Import ListNotations.

(* ---------- association lists ------------------------------------------------------------------------------- *)
Lemma mem_nat_in x l : mem_nat x l = true <-> In x l.
Proof.
  unfold mem_nat. rewrite existsb_exists. split.
  - intros [y [Hy E]]. apply Nat.eqb_eq in E. subst. exact Hy.
  - intros H. exists x. split; [exact H|apply Nat.eqb_refl].
Qed.
Lemma mem_nat_notin x l : mem_nat x l = false <-> ~ In x l.
Proof. rewrite <- mem_nat_in. destruct (mem_nat x l); split; intros; congruence. Qed.

Lemma nassoc_nremove {V} k (a : list (nat * V)) : forall x,
  nassoc x (nremove k a) = if Nat.eqb x k then None else nassoc x a.
Proof.
  induction a as [|[k2 v] a IH]; intros x; cbn [nremove nassoc].
  - destruct (Nat.eqb x k); reflexivity.
  - destruct (Nat.eqb k k2) eqn:E1.
    + apply Nat.eqb_eq in E1. subst k2. rewrite IH. destruct (Nat.eqb x k); reflexivity.
    + cbn [nassoc]. rewrite IH. destruct (Nat.eqb x k2) eqn:E3; destruct (Nat.eqb x k) eqn:E2; try reflexivity.
      apply Nat.eqb_eq in E3, E2. subst. rewrite Nat.eqb_refl in E1. discriminate.
Qed.

Lemma nassoc_setall b ms : forall (a0 : list (nat * nat)) x,
  nassoc x (fold_left (fun a m => (m, b) :: nremove m a) ms a0) = if mem_nat x ms then Some b else nassoc x a0.
Proof.
  induction ms as [|m ms IH]; intros a0 x; [reflexivity|].
  cbn [fold_left]. rewrite IH. unfold mem_nat at 2. cbn [existsb]. fold (mem_nat x ms).
  destruct (mem_nat x ms); [rewrite orb_true_r; reflexivity|]. rewrite orb_false_r.
  cbn [nassoc]. destruct (Nat.eqb x m) eqn:E; [reflexivity|]. rewrite nassoc_nremove, E. reflexivity.
Qed.

Lemma uniq_in l : forall seen x, In x (uniq l seen) <-> In x l /\ ~ In x seen.
Proof.
  induction l as [|y l IH]; intros seen x; cbn [uniq]; [tauto|].
  destruct (mem_nat y seen) eqn:E.
  - apply mem_nat_in in E. rewrite IH. cbn [In]. split; [tauto|]. intros [[->|H] Hn]; tauto.
  - apply mem_nat_notin in E. cbn [In]. rewrite IH. cbn [In]. split.
    + intros [->|[H Hn]]; [tauto|]. split; [tauto|]. tauto.
    + intros [[->|H] Hn]; [tauto|]. destruct (Nat.eq_dec y x) as [->|Hne]; [tauto|]. right. split; [exact H|]. intros [A|A]; congruence.
Qed.
Lemma uniq_nodup l : forall seen, NoDup (uniq l seen).
Proof.
  induction l as [|y l IH]; intros seen; cbn [uniq]; [constructor|].
  destruct (mem_nat y seen); [apply IH|]. constructor; [|apply IH].
  rewrite uniq_in. cbn [In]. tauto.
Qed.

(* ---------- collect ------------------------------------------------------------------------------------------- *)
Definition tab_members (tab : list (nat * list nat)) (b : nat) : list nat :=
  match nassoc b tab with Some ms => ms | None => [] end.

Lemma collect_spec tab : forall nbs asg members members' asg',
  collect nbs asg tab members = (members', asg') ->
  (forall m, In m members -> In m members') /\
  (forall n, In n nbs -> In n members') /\
  (forall m, In m members' -> In m members \/ In m nbs \/
       exists n b, In n nbs /\ nassoc n asg = Some b /\ In m (tab_members tab b)) /\
  (forall n b, In n nbs -> nassoc n asg = Some b -> forall m, In m (tab_members tab b) -> In m members') /\
  (forall k, nassoc k asg' = None \/ nassoc k asg' = nassoc k asg) /\
  (forall k, ~ In k nbs -> nassoc k asg' = nassoc k asg).
Proof.
  induction nbs as [|n r IH]; intros asg members members' asg' H.
  - cbn [collect] in H. injection H as <- <-.
    split; [tauto|]. split; [intros n []|]. split; [intros m Hm; left; exact Hm|].
    split; [intros n b []|]. split; [intros k; right; reflexivity|intros k _; reflexivity].
  - cbn [collect] in H. destruct (nassoc n asg) as [b|] eqn:E.
    + fold (tab_members tab b) in H.
      destruct (IH _ _ _ _ H) as (C1 & C1' & C2 & C3 & C4 & C4').
      split; [|split; [|split; [|split; [|split]]]].
      * intros m Hm. apply C1. apply in_or_app. left. exact Hm.
      * intros n0 [<-|Hn]; [apply C1; apply in_or_app; right; left; reflexivity|apply C1'; exact Hn].
      * intros m Hm. destruct (C2 m Hm) as [Hin|[Hin|(n0 & b0 & Hn0 & Ha & Hm0)]].
        -- apply in_app_or in Hin. destruct Hin as [Hin|[<-|Hin]]; [left; exact Hin|right; left; left; reflexivity|].
           right. right. exists n, b. split; [left; reflexivity|]. split; [exact E|exact Hin].
        -- right. left. right. exact Hin.
        -- right. right. exists n0, b0. split; [right; exact Hn0|]. split; [|exact Hm0].
           rewrite nassoc_nremove in Ha. destruct (Nat.eqb n0 n); [discriminate|exact Ha].
      * intros n0 b0 Hn0 Ha m Hm. destruct (Nat.eq_dec n0 n) as [->|Hne].
        -- rewrite E in Ha. injection Ha as <-. apply C1. apply in_or_app. right. right. exact Hm.
        -- destruct Hn0 as [<-|Hn0]; [congruence|]. apply (C3 n0 b0 Hn0); [|exact Hm].
           rewrite nassoc_nremove. apply Nat.eqb_neq in Hne. rewrite Hne. exact Ha.
      * intros k. destruct (C4 k) as [A|A]; [left; exact A|]. rewrite A, nassoc_nremove.
        destruct (Nat.eqb k n); [left|right]; reflexivity.
      * intros k Hk. rewrite C4' by (intros A; apply Hk; right; exact A). rewrite nassoc_nremove.
        assert (Nat.eqb k n = false) by (apply Nat.eqb_neq; intros ->; apply Hk; left; reflexivity). rewrite H0. reflexivity.
    + destruct (IH _ _ _ _ H) as (C1 & C1' & C2 & C3 & C4 & C4').
      repeat split.
      * intros m Hm. apply C1. apply in_or_app. left. exact Hm.
      * intros n0 [<-|Hn]; [apply C1; apply in_or_app; right; left; reflexivity|apply C1'; exact Hn].
      * intros m Hm. destruct (C2 m Hm) as [Hin|[Hin|(n0 & b0 & Hn0 & Ha & Hm0)]].
        -- apply in_app_or in Hin. destruct Hin as [Hin|[<-|[]]]; [left; exact Hin|right; left; left; reflexivity].
        -- right. left. right. exact Hin.
        -- right. right. exists n0, b0. split; [right; exact Hn0|]. split; [exact Ha|exact Hm0].
      * intros n0 b0 Hn0 Ha m Hm. destruct Hn0 as [<-|Hn0]; [congruence|]. apply (C3 n0 b0 Hn0 Ha m Hm).
      * exact C4.
      * intros k Hk. apply C4'. intros A. apply Hk. right. exact A.
Qed.

(* ---------- the invariant of group_textlines' first loop --------------------------------------------------- *)
Definition assigned (st : gtstate) (l b : nat) : Prop := nassoc l (assign st) = Some b.

Record Inv (st : gtstate) : Prop := mkInv {
  inv_member : forall l b, assigned st l b -> In l (tab_members (boxtab st) b);
  inv_box : forall l b, assigned st l b ->
            NoDup (tab_members (boxtab st) b) /\ forall m, In m (tab_members (boxtab st) b) -> assigned st m b;
  inv_fresh : forall b ms, nassoc b (boxtab st) = Some ms -> (b < nextbox st)%nat
}.

Lemma inv_init : Inv (mkGT [] [] O).
Proof. constructor; unfold assigned; cbn; intros; discriminate. Qed.

Lemma tab_members_cons tab b' ms b :
  tab_members ((b', ms) :: tab) b = if Nat.eqb b b' then ms else tab_members tab b.
Proof. unfold tab_members. cbn [nassoc]. destruct (Nat.eqb b b'); reflexivity. Qed.

Lemma assigned_old_box st l b : Inv st -> assigned st l b -> (b < nextbox st)%nat.
Proof.
  intros HI Ha. pose proof (inv_member st HI l b Ha) as Hm. unfold tab_members in Hm.
  destruct (nassoc b (boxtab st)) as [ms|] eqn:E; [|contradiction]. apply (inv_fresh st HI b ms E).
Qed.

Section Step.
  Variable nb : nat -> list nat.

  Lemma gt_step_inv st i : Inv st -> In i (nb i) ->
    Inv (gt_step nb st i) /\ assigned (gt_step nb st i) i (nextbox st) /\
    (forall l b, assigned st l b -> exists b', assigned (gt_step nb st i) l b').
  Proof.
    intros HI Hself. unfold gt_step.
    destruct (collect (nb i) (assign st) (boxtab st) [i]) as [members asg] eqn:Ec.
    destruct (collect_spec _ _ _ _ _ _ Ec) as (C1 & C1' & C2 & C3 & C4 & C4').
    set (ms := uniq members []). set (b' := nextbox st).
    assert (Hms : forall x, In x ms <-> In x members) by (intros x; unfold ms; rewrite uniq_in; cbn; tauto).
    assert (Hasg : forall x, nassoc x (fold_left (fun a m => (m, b') :: nremove m a) ms asg) =
                             if mem_nat x ms then Some b' else nassoc x asg) by (intros; apply nassoc_setall).
    (* a line outside the new box keeps its assignment, and its whole old box stays outside *)
    assert (Hout : forall l b, ~ In l ms -> nassoc l asg = Some b -> assigned st l b /\
                   forall m, In m (tab_members (boxtab st) b) -> ~ In m ms /\ nassoc m asg = Some b).
    { intros l b Hl Ha.
      assert (Hold : assigned st l b) by (destruct (C4 l) as [A|A]; [congruence|unfold assigned; rewrite <- A; exact Ha]).
      split; [exact Hold|]. intros m Hm.
      destruct (inv_box st HI l b Hold) as [_ Hall]. pose proof (Hall m Hm) as Hmb.
      assert (Hlm : In l (tab_members (boxtab st) b)) by (apply (inv_member st HI); exact Hold).
      assert (Hnotnb : ~ In m (nb i)).
      { intros Hn. apply Hl. apply Hms. apply (C3 m b Hn Hmb l Hlm). }
      assert (Hnotin : ~ In m ms).
      { intros Hin. apply Hms in Hin. destruct (C2 m Hin) as [[<-|[]]|[Hn|(n0 & b0 & Hn0 & Ha0 & Hm0)]].
        - apply Hnotnb. exact Hself.
        - apply Hnotnb. exact Hn.
        - assert (Hb : assigned st m b0).
          { destruct (inv_box st HI n0 b0 Ha0) as [_ Hall0]. apply Hall0. exact Hm0. }
          unfold assigned in Hb, Hmb. rewrite Hmb in Hb. injection Hb as <-.
          apply Hl. apply Hms. apply (C3 n0 b Hn0 Ha0 l Hlm). }
      split; [exact Hnotin|]. rewrite C4' by exact Hnotnb. exact Hmb. }
    split; [|split].
    - constructor; cbn [assign boxtab nextbox]; unfold assigned; cbn [assign].
      + intros l b Ha. rewrite Hasg in Ha. rewrite tab_members_cons.
        destruct (mem_nat l ms) eqn:El.
        * injection Ha as <-. rewrite Nat.eqb_refl. apply mem_nat_in. exact El.
        * apply mem_nat_notin in El. destruct (Hout l b El Ha) as [Hold _].
          pose proof (assigned_old_box st l b HI Hold) as Hlt.
          assert (E : Nat.eqb b b' = false) by (apply Nat.eqb_neq; unfold b'; lia). rewrite E.
          apply (inv_member st HI). exact Hold.
      + intros l b Ha. rewrite Hasg in Ha. rewrite tab_members_cons.
        destruct (mem_nat l ms) eqn:El.
        * injection Ha as <-. rewrite Nat.eqb_refl. split; [apply uniq_nodup|].
          intros m Hm. rewrite Hasg. apply mem_nat_in in Hm. rewrite Hm. reflexivity.
        * apply mem_nat_notin in El. destruct (Hout l b El Ha) as [Hold Hrest].
          pose proof (assigned_old_box st l b HI Hold) as Hlt.
          assert (E : Nat.eqb b b' = false) by (apply Nat.eqb_neq; unfold b'; lia). rewrite E.
          split; [apply (inv_box st HI l b Hold)|].
          intros m Hm. destruct (Hrest m Hm) as [Hn Hm']. rewrite Hasg.
          apply mem_nat_notin in Hn. rewrite Hn. exact Hm'.
      + intros b ms0 Hb. cbn [nassoc] in Hb. destruct (Nat.eqb b b') eqn:E.
        * apply Nat.eqb_eq in E. subst b. unfold b'. lia.
        * pose proof (inv_fresh st HI b ms0 Hb). lia.
    - unfold assigned. cbn [assign]. rewrite Hasg.
      assert (Hi : In i ms) by (apply Hms; apply C1; left; reflexivity).
      apply mem_nat_in in Hi. rewrite Hi. reflexivity.
    - intros l b Ha. unfold assigned. cbn [assign]. rewrite Hasg.
      destruct (mem_nat l ms) eqn:El; [eexists; reflexivity|].
      apply mem_nat_notin in El. exists b.
      assert (Hn : ~ In l (nb i)) by (intros Hn; apply El; apply Hms; apply C1'; exact Hn).
      rewrite C4' by exact Hn. exact Ha.
  Qed.

  Hypothesis self_neighbour : forall i, In i (nb i).

  Lemma gt_fold_inv : forall todo st, Inv st ->
    Inv (fold_left (gt_step nb) todo st) /\
    (forall l, (In l todo \/ exists b, assigned st l b) -> exists b, assigned (fold_left (gt_step nb) todo st) l b).
  Proof.
    induction todo as [|i r IH]; intros st HI.
    - cbn [fold_left]. split; [exact HI|]. intros l [[]|H]; exact H.
    - cbn [fold_left]. destruct (gt_step_inv st i HI (self_neighbour i)) as (HI' & Hi & Hkeep).
      destruct (IH _ HI') as (HIf & Hall). split; [exact HIf|].
      intros l [[<-|Hl]|[b Hb]].
      + apply Hall. right. eexists. exact Hi.
      + apply Hall. left. exact Hl.
      + apply Hall. right. apply (Hkeep l b Hb).
  Qed.

  (* after the loop: every line is assigned to a box of which it is a member; the members of a box in use are distinct
     and all assigned to that very box -- so every line is in exactly one box in use *)
  Theorem textlines_partition n :
    let st := gt_run nb n in
    (forall l, (l < n)%nat -> exists b, assigned st l b /\ In l (members_of st b)) /\
    (forall l b, assigned st l b -> NoDup (members_of st b) /\ forall m, In m (members_of st b) -> assigned st m b).
  Proof.
    cbv zeta. unfold gt_run. destruct (gt_fold_inv (seq 0 n) _ inv_init) as (HI & Hall). split.
    - intros l Hl. destruct (Hall l) as [b Hb]; [left; apply in_seq; lia|].
      exists b. split; [exact Hb|]. apply (inv_member _ HI l b Hb).
    - intros l b Hb. apply (inv_box _ HI l b Hb).
  Qed.
End Step.


(* only lines and their neighbours are ever assigned or stored *)
Definition Bound (n : nat) (st : gtstate) : Prop :=
  (forall l b, assigned st l b -> (l < n)%nat) /\ (forall b m, In m (tab_members (boxtab st) b) -> (m < n)%nat).

Lemma gt_step_bound nb n st i : (i < n)%nat -> (forall m, In m (nb i) -> (m < n)%nat) -> Bound n st -> Bound n (gt_step nb st i).
Proof.
  intros Hi Hnb [B1 B2]. unfold gt_step.
  destruct (collect (nb i) (assign st) (boxtab st) [i]) as [members asg] eqn:Ec.
  destruct (collect_spec _ _ _ _ _ _ Ec) as (C1 & C1' & C2 & C3 & C4 & C4').
  assert (Hmem : forall m, In m (uniq members []) -> (m < n)%nat).
  { intros m Hm. apply uniq_in in Hm. destruct Hm as [Hm _].
    destruct (C2 m Hm) as [[<-|[]]|[Hn|(n0 & b0 & _ & _ & Hm0)]]; [exact Hi|apply Hnb; exact Hn|apply (B2 b0 m Hm0)]. }
  split; cbn [assign boxtab].
  - intros l b Ha. unfold assigned in Ha. cbn [assign] in Ha. rewrite nassoc_setall in Ha.
    destruct (mem_nat l (uniq members [])) eqn:El; [apply Hmem; apply mem_nat_in; exact El|].
    destruct (C4 l) as [A|A]; [congruence|]. apply (B1 l b). unfold assigned. rewrite <- A. exact Ha.
  - intros b m Hm. rewrite tab_members_cons in Hm. destruct (Nat.eqb b (nextbox st)); [apply Hmem; exact Hm|apply (B2 b m Hm)].
Qed.

Lemma gt_run_bound nb n : (forall i, (i < n)%nat -> forall m, In m (nb i) -> (m < n)%nat) -> Bound n (gt_run nb n).
Proof.
  intros Hnb. unfold gt_run.
  assert (G : forall todo st, (forall i, In i todo -> (i < n)%nat) -> Bound n st -> Bound n (fold_left (gt_step nb) todo st)).
  { induction todo as [|i r IH]; intros st Ht Hb; [exact Hb|]. cbn [fold_left]. apply IH; [intros j Hj; apply Ht; right; exact Hj|].
    apply gt_step_bound; [apply Ht; left; reflexivity|apply Hnb; apply Ht; left; reflexivity|exact Hb]. }
  apply G; [intros i Hi; apply in_seq in Hi; lia|]. split; unfold assigned, tab_members; cbn; intros; [discriminate|contradiction].
Qed.

(* the final loop names each box in use exactly once *)
Lemma yield_ids_spec st : forall todo done,
  NoDup done -> NoDup (done ++ yield_ids st todo done) /\
  (forall i b, In i todo -> nassoc i (assign st) = Some b -> In b (done ++ yield_ids st todo done)) /\
  (forall b, In b (yield_ids st todo done) -> exists i, In i todo /\ nassoc i (assign st) = Some b).
Proof.
  induction todo as [|i r IH]; intros done Hd.
  - cbn [yield_ids]. rewrite app_nil_r. split; [exact Hd|]. split; [intros i b []|intros b []].
  - cbn [yield_ids]. destruct (nassoc i (assign st)) as [b|] eqn:E.
    + destruct (mem_nat b done) eqn:Em.
      * destruct (IH done Hd) as (A & B & C). split; [exact A|]. split.
        -- intros i0 b0 [<-|Hi] Hb; [rewrite E in Hb; injection Hb as <-; apply in_or_app; left; apply mem_nat_in; exact Em|apply (B i0 b0 Hi Hb)].
        -- intros b0 Hb0. destruct (C b0 Hb0) as (i0 & Hi0 & Ha). exists i0. split; [right; exact Hi0|exact Ha].
      * apply mem_nat_notin in Em.
        assert (Hd' : NoDup (b :: done)) by (constructor; assumption).
        destruct (IH (b :: done) Hd') as (A & B & C).
        assert (P : Permutation (done ++ b :: yield_ids st r (b :: done)) ((b :: done) ++ yield_ids st r (b :: done))).
        { cbn [app]. symmetry. apply Permutation_middle. }
        split; [apply (Permutation_NoDup (l := (b :: done) ++ yield_ids st r (b :: done))); [symmetry; exact P|exact A]|].
        split.
        -- intros i0 b0 [<-|Hi] Hb.
           ++ rewrite E in Hb. injection Hb as <-. apply in_or_app. right. left. reflexivity.
           ++ apply (Permutation_in (l := (b :: done) ++ yield_ids st r (b :: done))); [symmetry; exact P|apply (B i0 b0 Hi Hb)].
        -- intros b0 [<-|Hb0]; [exists i; split; [left; reflexivity|exact E]|].
           destruct (C b0 Hb0) as (i0 & Hi0 & Ha). exists i0. split; [right; exact Hi0|exact Ha].
    + destruct (IH done Hd) as (A & B & C). split; [exact A|]. split.
      * intros i0 b0 [<-|Hi] Hb; [congruence|apply (B i0 b0 Hi Hb)].
      * intros b0 Hb0. destruct (C b0 Hb0) as (i0 & Hi0 & Ha). exists i0. split; [right; exact Hi0|exact Ha].
Qed.

(* the boxes named by the final loop partition the lines: their member lists, concatenated, are a permutation of
   0..n-1 *)
Theorem textlines_conserved nb n : (forall i, In i (nb i)) -> (forall i, (i < n)%nat -> forall m, In m (nb i) -> (m < n)%nat) ->
  let st := gt_run nb n in
  Permutation (flat_map (members_of st) (yield_ids st (seq 0 n) [])) (seq 0 n).
Proof.
  intros Hself Hrange st. destruct (textlines_partition nb Hself n) as (Hcover & Hbox). fold st in Hcover, Hbox.
  destruct (gt_run_bound nb n Hrange) as [HB1 _]. fold st in HB1.
  destruct (yield_ids_spec st (seq 0 n) [] (NoDup_nil _)) as (Hnd & Hall & Hsome). cbn [app] in Hnd, Hall.
  apply NoDup_Permutation.
  - (* no line twice: within a box by NoDup, across boxes because a member is assigned to its box *)
    set (ids := yield_ids st (seq 0 n) []) in *.
    assert (Hids : forall b, In b ids -> exists l, assigned st l b) by (intros b Hb; destruct (Hsome b Hb) as (i & _ & Ha); exists i; exact Ha).
    clearbody ids. clear Hall Hsome. induction ids as [|b ids IH]; [constructor|].
    cbn [flat_map]. inversion Hnd as [|? ? Hnot Hnd']; subst.
    destruct (Hids b (or_introl eq_refl)) as [l Hl]. destruct (Hbox l b Hl) as [Hnb Hmem].
    apply NoDup_app_intro.
    + exact Hnb.
    + apply IH; [exact Hnd'|intros b0 Hb0; apply Hids; right; exact Hb0].
    + intros m Hm Hm2. apply in_flat_map in Hm2. destruct Hm2 as (b2 & Hb2 & Hm2).
      destruct (Hids b2 (or_intror Hb2)) as [l2 Hl2]. destruct (Hbox l2 b2 Hl2) as [_ Hmem2].
      pose proof (Hmem m Hm) as A1. pose proof (Hmem2 m Hm2) as A2. unfold assigned in A1, A2. rewrite A1 in A2.
      injection A2 as <-. contradiction.
  - apply seq_NoDup.
  - intros l. split.
    + intros Hl. apply in_flat_map in Hl. destruct Hl as (b & Hb & Hm).
      destruct (Hsome b Hb) as (i & Hi & Ha). destruct (Hbox i b Ha) as [_ Hmem].
      pose proof (Hmem l Hm) as Hla.
      apply in_seq. pose proof (HB1 l b Hla). lia.
    + intros Hl. apply in_seq in Hl. destruct (Hcover l ltac:(lia)) as (b & Ha & Hm).
      apply in_flat_map. exists b. split; [|exact Hm]. apply (Hall l b); [apply in_seq; lia|exact Ha].
Qed.

(* ---------- the concrete neighbour function ------------------------------------------------------------------ *)
From PdfV Require Import Proofs.PlaneProofs.
From Coq Require Import Lqa.

Lemma run_adds objs : forall p, plane_run p (map PAdd objs) = Some (fold_left plane_add objs p).
Proof. induction objs as [|o r IH]; intros p; [reflexivity|]. cbn [map plane_run plane_step fold_left]. apply IH. Qed.
Lemma inserted_adds objs : inserted (map PAdd objs) = objs.
Proof. induction objs as [|o r IH]; [reflexivity|]. cbn [map inserted]. rewrite IH. reflexivity. Qed.
Lemma removed_adds objs : removed (map PAdd objs) = [].
Proof. induction objs as [|o r IH]; [reflexivity|]. cbn [map removed]. exact IH. Qed.

Lemma valid_adds objs : forall p, NoDup (map oid (pseq p) ++ map oid objs) -> Forall (fun o => wf_box (obox o)) objs ->
  valid_ops p (map PAdd objs).
Proof.
  induction objs as [|o r IH]; intros p Hnd Hwf; [exact I|].
  inversion Hwf as [|? ? Ho Hr]; subst. cbn [map valid_ops valid_op plane_step]. split.
  - split; [|exact Ho]. intros Hin. cbn [map] in Hnd. apply (NoDup_app_disj _ _ (oid o) Hnd Hin). left. reflexivity.
  - apply IH; [|exact Hr]. unfold plane_add. cbn [pseq]. rewrite map_app. cbn [map]. rewrite <- app_assoc. exact Hnd.
Qed.

Definition good_line (l : line) : Prop :=
  match lbox l with
  | Some (x0, y0, x1, y1) => (x0 < x1 /\ y0 < y1)%Q
  | None => False
  end.

Lemma line_objs_ids lines : forall s,
  map oid (map (fun il => mkObj (fst il) (the_box (lbox (snd il)))) (combine (seq s (length lines)) lines)) = seq s (length lines).
Proof.
  induction lines as [|l r IH]; intros s; [reflexivity|]. cbn [length seq combine map fst oid]. f_equal. apply IH.
Qed.

Lemma line_objs_nth lines i l : nth_error lines i = Some l -> In (mkObj i (the_box (lbox l))) (line_objs lines).
Proof.
  unfold line_objs. intros H.
  assert (G : forall s (ls : list line) j, nth_error ls j = Some l ->
              In (mkObj (s + j) (the_box (lbox l))) (map (fun il => mkObj (fst il) (the_box (lbox (snd il)))) (combine (seq s (length ls)) ls))).
  { intros s ls. revert s. induction ls as [|x r IH]; intros s j Hj; [destruct j; discriminate|].
    destruct j as [|j]; cbn [nth_error] in Hj.
    - injection Hj as ->. cbn [length seq combine map fst snd]. left. rewrite Nat.add_0_r. reflexivity.
    - cbn [length seq combine map]. right. replace (s + S j)%nat with (S s + j)%nat by lia. apply IH. exact Hj. }
  exact (G 0%nat lines i H).
Qed.

Lemma qabs_zero : qabs 0 == 0.
Proof. unfold qabs. cbn. reflexivity. Qed.
Lemma qle_abs_self a d : 0 <= d -> qle_abs (a - a) d = true.
Proof.
  intros Hd. unfold qle_abs, qabs. apply Qle_bool_iff.
  destruct (Qltb (a - a) 0) eqn:E.
  - apply Qltb_lt in E. lra.
  - lra.
Qed.

(* a non-empty line is its own neighbour whenever line_margin >= 0 -- wherever it lies, on or off the page *)
Theorem self_is_neighbour p pb lines i l :
  wf_bounds pb -> Forall good_line lines -> 0 <= line_margin p -> nth_error lines i = Some l ->
  In i (neighbors p (make_plane pb (line_objs lines)) lines i).
Proof.
  intros Hpb Hgood Hlm Hi.
  assert (Hgl : good_line l) by (rewrite Forall_forall in Hgood; apply Hgood; apply (nth_error_In _ _ Hi)).
  unfold good_line in Hgl. destruct (lbox l) as [[[[x0 y0] x1] y1]|] eqn:Eb; [|contradiction]. destruct Hgl as [Hx Hy].
  (* the plane: valid insertions *)
  assert (Hwf : Forall (fun o => wf_box (obox o)) (line_objs lines)).
  { unfold line_objs. apply Forall_forall. intros o Ho. apply in_map_iff in Ho. destruct Ho as ([j lj] & <- & Hin).
    cbn [obox fst snd]. apply in_combine_r in Hin. rewrite Forall_forall in Hgood. specialize (Hgood lj Hin).
    unfold good_line in Hgood. destruct (lbox lj) as [[[[a b] c] d]|]; [|contradiction]. cbn [the_box wf_box]. lra. }
  assert (Hval : valid_ops (plane_init pb) (map PAdd (line_objs lines))).
  { apply valid_adds; [|exact Hwf]. cbn [plane_init pseq map app]. unfold line_objs. rewrite line_objs_ids. apply seq_NoDup. }
  set (me := mkObj i (the_box (lbox l))).
  assert (Hme : In me (line_objs lines)) by (apply line_objs_nth; exact Hi).
  assert (Hfind : forall q, wf_box q -> overlaps (obox me) q -> In me (plane_find (make_plane pb (line_objs lines)) q)).
  { intros q Hq Hov. destruct (find_after_ops pb (map PAdd (line_objs lines)) q Hpb Hval Hq) as (pl & Erun & _ & Hiff).
    rewrite run_adds in Erun. injection Erun as <-. unfold make_plane. apply Hiff.
    pose proof (run_seq (map PAdd (line_objs lines)) (plane_init pb) _ (run_adds (line_objs lines) (plane_init pb))) as Hseq.
    rewrite inserted_adds in Hseq. cbn [plane_init pseq app] in Hseq.
    split; [rewrite Hseq; exact Hme|]. split; [|exact Hov].
    apply (run_live (map PAdd (line_objs lines)) (plane_init pb) _ (Inv_init pb Hpb) Hval (run_adds _ _)).
    rewrite inserted_adds, removed_adds. split; [right; apply in_map; exact Hme|intros []]. }
  unfold neighbors. rewrite Hi. rewrite Eb. cbn [the_box].
  destruct (lori l) eqn:Eo.
  - (* horizontal *)
    set (d := line_margin p * height (x0, y0, x1, y1)).
    assert (Hd : 0 <= d) by (unfold d, height; cbn [by0 by1]; nra).
    apply in_flat_map. exists me. split.
    + apply Hfind.
      * cbn [bx0 by0 bx1 by1 wf_box]. lra.
      * unfold overlaps, no_overlap, me. cbn [obox]. rewrite Eb. cbn [the_box bx0 by0 bx1 by1].
        apply orb_false_iff; split; [apply orb_false_iff; split; [apply orb_false_iff; split|]|]; apply Qleb_gt; lra.
    + unfold me. cbn [oid]. rewrite Hi. rewrite Eb. cbn [the_box]. unfold is_h. rewrite Eo.
      rewrite !qle_abs_self by exact Hd. cbn [andb orb]. left. reflexivity.
  - (* vertical *)
    set (d := line_margin p * width (x0, y0, x1, y1)).
    assert (Hd : 0 <= d) by (unfold d, width; cbn [bx0 bx1]; nra).
    apply in_flat_map. exists me. split.
    + apply Hfind.
      * cbn [bx0 by0 bx1 by1 wf_box]. lra.
      * unfold overlaps, no_overlap, me. cbn [obox]. rewrite Eb. cbn [the_box bx0 by0 bx1 by1].
        apply orb_false_iff; split; [apply orb_false_iff; split; [apply orb_false_iff; split|]|]; apply Qleb_gt; lra.
    + unfold me. cbn [oid]. rewrite Hi. rewrite Eb. cbn [the_box]. unfold is_h. rewrite Eo.
      rewrite !qle_abs_self by exact Hd. cbn [negb andb orb]. left. reflexivity.
Qed.

Lemma neighbours_in_range p pl lines i m : In m (neighbors p pl lines i) -> (m < length lines)%nat.
Proof.
  unfold neighbors. destruct (nth_error lines i) as [l|]; [|intros []].
  destruct (lori l); intros H; apply in_flat_map in H; destruct H as (o & _ & Ho);
    destruct (nth_error lines (oid o)) as [l2|] eqn:E; try contradiction;
    match type of Ho with In _ (if ?c then _ else _) => destruct c end; try contradiction;
    destruct Ho as [<-|[]]; apply nth_error_Some; congruence.
Qed.

(* group_textlines, concretely: the boxes named by its final loop hold every (non-empty) line exactly once *)
Theorem group_textlines_conserves p pb lines :
  wf_bounds pb -> Forall good_line lines -> 0 <= line_margin p ->
  let pl := make_plane pb (line_objs lines) in
  let st := gt_run (neighbors p pl lines) (length lines) in
  Permutation (flat_map (members_of st) (yield_ids st (seq 0 (length lines)) [])) (seq 0 (length lines)).
Proof.
  intros Hpb Hgood Hlm pl st.
  (* outside 0..n-1 the neighbour function is irrelevant: extend it by the identity to state self-membership *)
  set (nb := fun i => if (i <? length lines)%nat then neighbors p pl lines i else [i]).
  assert (Hsame : gt_run (neighbors p pl lines) (length lines) = gt_run nb (length lines)).
  { unfold gt_run. generalize (mkGT [] [] 0).
    assert (G : forall todo g, (forall i, In i todo -> (i < length lines)%nat) ->
                fold_left (gt_step (neighbors p pl lines)) todo g = fold_left (gt_step nb) todo g).
    { induction todo as [|i r IH]; intros g Ht; [reflexivity|]. cbn [fold_left].
      assert (E : gt_step (neighbors p pl lines) g i = gt_step nb g i).
      { unfold gt_step, nb. assert (Hi : (i <? length lines)%nat = true) by (apply Nat.ltb_lt; apply Ht; left; reflexivity).
        rewrite Hi. reflexivity. }
      rewrite E. apply IH. intros j Hj. apply Ht. right. exact Hj. }
    intros g. apply G. intros i Hi. apply in_seq in Hi. lia. }
  unfold st. rewrite Hsame. apply textlines_conserved.
  - intros i. unfold nb. destruct (i <? length lines)%nat eqn:E; [|left; reflexivity].
    apply Nat.ltb_lt in E. destruct (nth_error lines i) as [l|] eqn:El; [|apply nth_error_None in El; lia].
    apply (self_is_neighbour p pb lines i l Hpb Hgood Hlm El).
  - intros i Hi m. unfold nb. apply Nat.ltb_lt in Hi. rewrite Hi. apply neighbours_in_range.
Qed.
