(* C16: painted paths. *)
From Coq Require Import ZArith QArith List Bool Lia Lqa.
From PdfV Require Import Base.Num Gen.Geom Model.Interp Model.PathPaint.
Import ListNotations.

(* ---------- no residue ------------------------------------------------------------------------- *)
Definition path_ender (k : opname) : bool :=
  match k with KS | Ks | Kf | Kfstar | KB | KBstar | Kb | Kbstar | Kn => true | _ => false end.

Theorem no_residue res run_form k s : path_ender k = true ->
  curpath (apply_op res run_form k [] s) = [].
Proof. destruct k; try discriminate; intros _; reflexivity. Qed.

(* and painting emits exactly one path event carrying the state at that moment *)
Theorem paint_event res run_form s :
  out (apply_op res run_form KB [] s) = EPath (gs s) true true false (curpath s) (devctm s) :: out s /\
  out (apply_op res run_form Kfstar [] s) = EPath (gs s) false true true (curpath s) (devctm s) :: out s /\
  out (apply_op res run_form Ks [] s) = EPath (gs s) true false false (close_path (curpath s)) (devctm s) :: out s /\
  out (apply_op res run_form Kn [] s) = out s.
Proof. repeat split. Qed.

(* closing a closed subpath does nothing *)
Lemma close_path_idem p : close_path (close_path p) = close_path p.
Proof.
  unfold close_path. destruct (ends_closed p) eqn:E; [rewrite E; reflexivity|].
  assert (E2 : ends_closed (p ++ [SegH]) = true) by (unfold ends_closed; rewrite rev_app_distr; reflexivity).
  rewrite E2. reflexivity.
Qed.
Lemma close_path_closed p : ends_closed p = true -> close_path p = p.
Proof. intros H. unfold close_path. rewrite H. reflexivity. Qed.

(* ---------- shapes carry the flags and the graphics state ------------------------------------- *)
Lemma paint_single_state g st fi eo c path :
  Forall (fun sh => sstroke sh = st /\ sfill sh = fi /\ sevenodd sh = eo /\ slinewidth sh = glinewidth g /\
                    sdash sh = gdash g /\ sscolor sh = gscolor g /\ sncolor sh = gncolor g)
         (paint_single g st fi eo c path).
Proof.
  unfold paint_single. destruct path as [|first r]; [constructor|].
  cbv zeta.
  repeat match goal with |- context [if ?b then _ else _] => destruct b end;
    repeat constructor.
Qed.

Theorem shapes_state g st fi eo c path :
  Forall (fun sh => sstroke sh = st /\ sfill sh = fi /\ sevenodd sh = eo /\ slinewidth sh = glinewidth g /\
                    sdash sh = gdash g /\ sscolor sh = gscolor g /\ sncolor sh = gncolor g)
         (paint_path g st fi eo c path).
Proof.
  unfold paint_path. destruct path as [|s r]; [constructor|].
  destruct (negb (is_m s)); [constructor|].
  destruct (1 <? count_m (s :: r))%nat; [|apply paint_single_state].
  apply Forall_flat_map. apply Forall_forall. intros sub _. apply paint_single_state.
Qed.

(* ---------- one shape per subpath ----------------------------------------------------------------- *)
Lemma paint_single_one g st fi eo c path : path <> [] -> length (paint_single g st fi eo c path) = 1%nat.
Proof.
  unfold paint_single. destruct path as [|first r]; [congruence|]. intros _. cbv zeta.
  repeat match goal with |- context [if ?b then _ else _] => destruct b end; reflexivity.
Qed.

(* a subpath: m followed by at least one operator, none of them m *)
Definition subpath_ok (sub : list seg) : Prop :=
  match sub with
  | s :: t => is_m s = true /\ t <> [] /\ forallb (fun x => negb (is_m x)) t = true
  | [] => False
  end.

Lemma split_m_tail : forall t cur rest,
  forallb (fun x => negb (is_m x)) t = true -> cur <> [] ->
  split_m (t ++ rest) cur = split_m rest (cur ++ t).
Proof.
  induction t as [|x t IH]; intros cur rest Ht Hc; [rewrite app_nil_r; reflexivity|].
  cbn [forallb] in Ht. apply andb_true_iff in Ht. destruct Ht as [Hx Ht]. apply negb_true_iff in Hx.
  cbn [app split_m]. rewrite Hx. destruct cur as [|c0 cur']; [congruence|].
  rewrite IH; [|exact Ht|destruct cur'; discriminate]. rewrite <- app_assoc. reflexivity.
Qed.

Lemma split_m_subs : forall subs cur, Forall subpath_ok subs ->
  (match cur with _ :: _ :: _ => True | [] => True | _ => False end) ->
  split_m (concat subs) cur = (match cur with _ :: _ :: _ => [cur] | _ => [] end) ++ subs.
Proof.
  induction subs as [|sub subs IH]; intros cur Hok Hcur.
  - cbn. rewrite app_nil_r. destruct cur as [|a [|b r]]; try reflexivity; try contradiction.
  - inversion Hok as [|? ? Hs Hr]; subst. destruct sub as [|s t]; [contradiction|].
    destruct Hs as (Hm & Hne & Hno). cbn [concat app split_m]. rewrite Hm.
    rewrite split_m_tail by (auto; discriminate).
    destruct t as [|t0 t']; [congruence|].
    rewrite (IH ([s] ++ t0 :: t') Hr I). cbn [app].
    destruct cur as [|a [|b r]]; try reflexivity; try contradiction.
Qed.

Lemma count_m_subs subs : Forall subpath_ok subs -> count_m (concat subs) = length subs.
Proof.
  induction 1 as [|sub subs Hs Hr IH]; [reflexivity|]. destruct sub as [|s t]; [contradiction|].
  destruct Hs as (Hm & _ & Hno). unfold count_m in *. cbn [concat app filter]. rewrite Hm.
  rewrite filter_app. cbn [length]. rewrite app_length, IH.
  assert (E : filter is_m t = []).
  { clear - Hno. induction t as [|x t IHt]; [reflexivity|]. cbn [forallb] in Hno. apply andb_true_iff in Hno.
    destruct Hno as [Hx Ht]. apply negb_true_iff in Hx. cbn [filter]. rewrite Hx. apply IHt. exact Ht. }
  rewrite E. reflexivity.
Qed.

(* C16: a path made of k subpaths, each with at least one segment, yields exactly k shapes, the
   i-th one computed from the i-th subpath alone *)
Theorem one_shape_per_subpath g st fi eo c subs : Forall subpath_ok subs -> subs <> [] ->
  paint_path g st fi eo c (concat subs) = flat_map (paint_single g st fi eo c) subs /\
  length (paint_path g st fi eo c (concat subs)) = length subs.
Proof.
  intros Hok Hne.
  assert (Hshapes : paint_path g st fi eo c (concat subs) = flat_map (paint_single g st fi eo c) subs).
  { unfold paint_path. destruct subs as [|sub subs]; [congruence|].
    inversion Hok as [|? ? Hs Hr]; subst. destruct sub as [|s t]; [contradiction|].
    destruct Hs as (Hm & Hne' & Hno).
    cbn [concat app]. rewrite Hm. cbn [negb].
    change (s :: t ++ concat subs) with (concat ((s :: t) :: subs)).
    rewrite (count_m_subs ((s :: t) :: subs) Hok).
    destruct subs as [|sub2 subs'].
    - cbn [length Nat.ltb Nat.leb concat flat_map]. rewrite !app_nil_r. reflexivity.
    - assert (E : (1 <? length ((s :: t) :: sub2 :: subs'))%nat = true) by reflexivity.
      rewrite E. rewrite (split_m_subs _ [] Hok I). reflexivity. }
  split; [exact Hshapes|]. rewrite Hshapes.
  clear Hshapes Hne. induction Hok as [|sub subs Hs Hr IH]; [reflexivity|].
  cbn [flat_map]. rewrite app_length, IH. rewrite paint_single_one; [reflexivity|].
  destruct sub; [contradiction|discriminate].
Qed.

(* ---------- classes ------------------------------------------------------------------------------------ *)
Open Scope Q_scope.

(* one straight segment, closed or not, under ANY matrix: a line between the transformed end points *)
Theorem line_class g st fi eo c x0 y0 x1 y1 :
  (forall close : bool,
     let path := [SegM x0 y0; SegL x1 y1] ++ (if close then [SegH] else []) in
     exists sh, paint_path g st fi eo c path = [sh] /\ skind_ sh = KLine /\
                spts sh = [mpt c (x0, y0); mpt c (x1, y1)]).
Proof.
  intros [|]; cbv zeta; eexists; (split; [reflexivity|split; reflexivity]).
Qed.

Lemma qeqb_refl a : Qeq_bool a a = true.
Proof. apply Qeq_bool_iff. reflexivity. Qed.

(* the re operator (x y w h re = m l l l h) under a matrix that keeps the axes (scaling, mirroring,
   translation), not degenerate in height: exactly one rectangle, with the transformed corners *)
Theorem re_is_rect_axis g st fi eo a d e f x y w h : ~ d * h == 0 ->
  let c : M6 := (a, 0, 0, d, e, f) in
  let path := [SegM x y; SegL (x + w) y; SegL (x + w) (y + h); SegL x (y + h); SegH] in
  exists sh, paint_path g st fi eo c path = [sh] /\ skind_ sh = KRect /\
             spts sh = [(fst (mpt c (x, y)), snd (mpt c (x, y))); (fst (mpt c (x + w, y + h)), snd (mpt c (x, y)));
                        (fst (mpt c (x + w, y + h)), snd (mpt c (x + w, y + h))); (fst (mpt c (x, y)), snd (mpt c (x + w, y + h)))].
Proof.
  intros Hdeg. cbv zeta. unfold paint_path. cbn [is_m negb count_m filter length Nat.ltb Nat.leb].
  unfold paint_single. cbv zeta.
  cbn [map seg_letter length Nat.ltb Nat.leb Nat.sub skipn letters_eqb letter_eqb andb firstn app seg_point
       seg_operands last nth].
  set (p0 := mpt (a, 0, 0, d, e, f) (x, y)). set (p1 := mpt (a, 0, 0, d, e, f) (x + w, y)).
  set (p2 := mpt (a, 0, 0, d, e, f) (x + w, y + h)). set (p3 := mpt (a, 0, 0, d, e, f) (x, y + h)).
  assert (Edrop : pt_eqb p3 p0 = false).
  { unfold pt_eqb. apply andb_false_iff. right. destruct (Qeq_bool (snd p3) (snd p0)) eqn:E; [|reflexivity].
    exfalso. apply Hdeg. apply Qeq_bool_iff in E. unfold p3, p0, mpt, apply_matrix_pt in E.
    cbn [nadd nmul QOps fst snd] in E. lra. }
  rewrite Edrop. cbn [andb letters_eqb letter_eqb orb nth].
  assert (Eclosed : pt_eqb p0 p0 = true) by (unfold pt_eqb; rewrite !qeqb_refl; reflexivity).
  rewrite Eclosed.
  assert (E1 : Qeq_bool (snd p0) (snd p1) = true).
  { apply Qeq_bool_iff. unfold p0, p1, mpt, apply_matrix_pt. cbn [nadd nmul QOps fst snd]. ring. }
  assert (E2 : Qeq_bool (fst p1) (fst p2) = true).
  { apply Qeq_bool_iff. unfold p1, p2, mpt, apply_matrix_pt. cbn [nadd nmul QOps fst snd]. ring. }
  assert (E3 : Qeq_bool (snd p2) (snd p3) = true).
  { apply Qeq_bool_iff. unfold p2, p3, mpt, apply_matrix_pt. cbn [nadd nmul QOps fst snd]. ring. }
  assert (E4 : Qeq_bool (fst p3) (fst p0) = true).
  { apply Qeq_bool_iff. unfold p3, p0, mpt, apply_matrix_pt. cbn [nadd nmul QOps fst snd]. ring. }
  rewrite E1, E2, E3, E4. cbn [andb]. rewrite orb_true_r.
  eexists. split; [reflexivity|]. split; reflexivity.
Qed.
