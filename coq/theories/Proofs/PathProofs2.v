(* C15: document-controlled names stay inside the directories. *)
From Coq Require Import ZArith List Bool Lia.
From PdfV Require Import Model.Paths.
Import ListNotations.
Open Scope Z_scope.

Definition no_slash (s : str) : Prop := Forall (fun c => c <> SLASH) s.

Lemma str_eqb_eq a : forall b, str_eqb a b = true -> a = b.
Proof.
  induction a as [|x a IH]; intros [|y b] H; try reflexivity; try discriminate.
  cbn in H. apply andb_true_iff in H. destruct H as [H1 H2]. apply Z.eqb_eq in H1. subst. f_equal. apply IH. exact H2.
Qed.

(* basename p = p exactly when p contains no separator *)
Lemma basename_go_noslash : forall p acc, no_slash p -> basename_go p acc = rev acc ++ p.
Proof.
  induction p as [|c r IH]; intros acc H; [cbn; rewrite app_nil_r; reflexivity|].
  inversion H as [|? ? Hc Hr]; subst. cbn [basename_go].
  assert (E : c =? SLASH = false) by (apply Z.eqb_neq; exact Hc). rewrite E. rewrite IH by exact Hr.
  cbn [rev]. rewrite <- app_assoc. reflexivity.
Qed.
Lemma basename_go_short : forall p acc, (length (basename_go p acc) <= length acc + length p)%nat.
Proof.
  induction p as [|c r IH]; intros acc; [cbn; rewrite rev_length; lia|]. cbn [basename_go length].
  destruct (c =? SLASH); [specialize (IH []); cbn [length] in IH; lia|specialize (IH (c :: acc)); cbn [length] in IH; lia].
Qed.
Lemma basename_go_slash : forall p acc, ~ no_slash p -> (length (basename_go p acc) < length acc + length p)%nat.
Proof.
  induction p as [|c r IH]; intros acc H; [exfalso; apply H; constructor|]. cbn [basename_go length].
  destruct (c =? SLASH) eqn:E.
  - pose proof (basename_go_short r []). cbn [length] in H0. lia.
  - assert (Hr : ~ no_slash r).
    { intros Hr. apply H. constructor; [apply Z.eqb_neq; exact E|exact Hr]. }
    specialize (IH (c :: acc) Hr). cbn [length] in IH. lia.
Qed.
Theorem basename_id_iff p : str_eqb (basename p) p = true -> no_slash p.
Proof.
  intros H. apply str_eqb_eq in H.
  destruct (Forall_dec (fun c => c <> SLASH) (fun c => match Z.eq_dec c SLASH with left e => right (fun n => n e) | right n => left n end) p) as [Y|N]; [exact Y|].
  exfalso. pose proof (basename_go_slash p [] N) as L. unfold basename in H. rewrite H in L. cbn [length] in L. lia.
Qed.

(* components of a separator-free name: the name itself *)
Lemma split_go_noslash : forall p cur, no_slash p -> split_go p cur = [rev cur ++ p].
Proof.
  induction p as [|c r IH]; intros cur H; [cbn; rewrite app_nil_r; reflexivity|].
  inversion H as [|? ? Hc Hr]; subst. cbn [split_go].
  assert (E : c =? SLASH = false) by (apply Z.eqb_neq; exact Hc). rewrite E. rewrite IH by exact Hr.
  cbn [rev]. rewrite <- app_assoc. reflexivity.
Qed.
Lemma split_go_nonempty : forall p cur, split_go p cur <> [].
Proof. induction p as [|c r IH]; intros cur; cbn [split_go]; [discriminate|]. destruct (c =? SLASH); [discriminate|apply IH]. Qed.

(* splitting at a separator: the components of the left part, then those of the right part *)
Lemma split_go_app : forall a cur b, split_go (a ++ SLASH :: b) cur = split_go a cur ++ split_go b [].
Proof.
  induction a as [|c r IH]; intros cur b.
  - cbn [app split_go]. rewrite Z.eqb_refl. reflexivity.
  - cbn [app split_go]. destruct (c =? SLASH); [rewrite IH; reflexivity|apply IH].
Qed.

Lemma resolve_app : forall a b st, resolve (a ++ b) st = resolve b (rev (resolve a st)).
Proof.
  induction a as [|c r IH]; intros b st; [cbn [app resolve]; rewrite rev_involutive; reflexivity|].
  cbn [app resolve]. destruct ((match c with [] => true | _ => false end) || str_eqb c DOT); [apply IH|].
  destruct (str_eqb c DOTDOT); apply IH.
Qed.

Lemma normpath_trailing d : normpath (d ++ [SLASH]) = normpath d.
Proof.
  unfold normpath, components. rewrite split_go_app. cbn [split_go rev]. rewrite resolve_app. cbn [resolve orb]. apply rev_involutive.
Qed.

(* a plain file name (no separator, not empty, not "." or "..") joined to a directory resolves to a direct child of
   that directory *)
Theorem join_child d f : no_slash f -> f <> [] -> f <> DOT -> f <> DOTDOT -> d <> [] ->
  normpath (join d f) = normpath d ++ [f].
Proof.
  intros Hf Hne Hdot Hdd Hdne.
  assert (Hfa : is_abs f = false).
  { destruct f as [|c r]; [reflexivity|]. inversion Hf; subst. cbn. apply Z.eqb_neq. assumption. }
  assert (Hcomp : split_go f [] = [f]) by (rewrite split_go_noslash by exact Hf; reflexivity).
  assert (Hres : forall st, resolve [f] st = rev (f :: st)).
  { intros st. cbn [resolve]. destruct f as [|c r]; [congruence|]. cbn [orb].
    assert (E1 : str_eqb (c :: r) DOT = false) by (destruct (str_eqb (c :: r) DOT) eqn:E; [apply str_eqb_eq in E; congruence|reflexivity]).
    assert (E2 : str_eqb (c :: r) DOTDOT = false) by (destruct (str_eqb (c :: r) DOTDOT) eqn:E; [apply str_eqb_eq in E; congruence|reflexivity]).
    rewrite E1, E2. reflexivity. }
  assert (Main : forall d0, normpath (d0 ++ SLASH :: f) = normpath d0 ++ [f]).
  { intros d0. unfold normpath, components. rewrite split_go_app, Hcomp, resolve_app, Hres. cbn [rev]. rewrite rev_involutive. reflexivity. }
  unfold join. rewrite Hfa.
  destruct d as [|c0 d0]; [congruence|]. cbn [orb]. rewrite orb_false_r.
  destruct (ends_slash (c0 :: d0)) eqn:Es.
  - unfold ends_slash in Es. destruct (rev (c0 :: d0)) as [|l rl] eqn:Er; [discriminate|]. apply Z.eqb_eq in Es. subst l.
    assert (Hd' : c0 :: d0 = rev rl ++ [SLASH]) by (rewrite <- (rev_involutive (c0 :: d0)), Er; reflexivity).
    rewrite Hd'. rewrite <- app_assoc. cbn [app]. rewrite Main, normpath_trailing. reflexivity.
  - cbn [app]. change (c0 :: d0 ++ SLASH :: f) with ((c0 :: d0) ++ SLASH :: f). apply Main.
Qed.

(* ---------- the two call sites -------------------------------------------------------------------------------------- *)
Lemma no_slash_app a b : no_slash a -> no_slash b -> no_slash (a ++ b).
Proof. intros Ha Hb. apply Forall_app. split; assumption. Qed.
Lemma pickle_noslash : no_slash s_pickle_gz.
Proof. repeat constructor; discriminate. Qed.

Lemma ends_not_dots (x ext : str) : (3 <= length ext)%nat -> x ++ ext <> [] /\ x ++ ext <> DOT /\ x ++ ext <> DOTDOT.
Proof.
  intros H. assert (L : (3 <= length (x ++ ext))%nat) by (rewrite app_length; lia).
  repeat split; intros E; rewrite E in L; cbn in L; lia.
Qed.

(* every path CMapDB may open for a document-supplied name is a direct child of one of the resource directories:
   a name that is not a plain file name is refused altogether *)
Theorem cmap_confined dirs name p : Forall (fun d => d <> []) dirs -> In p (cmap_paths dirs name) ->
  exists d, In d dirs /\ normpath p = normpath d ++ [remove_nul name ++ s_pickle_gz].
Proof.
  intros Hdirs Hin. unfold cmap_paths in Hin.
  destruct (str_eqb (basename (remove_nul name ++ s_pickle_gz)) (remove_nul name ++ s_pickle_gz)) eqn:E; [|contradiction].
  apply basename_id_iff in E. apply in_map_iff in Hin. destruct Hin as (d & <- & Hd).
  exists d. split; [exact Hd|].
  destruct (ends_not_dots (remove_nul name) s_pickle_gz ltac:(cbn; lia)) as (A & B & C).
  apply join_child; try assumption. rewrite Forall_forall in Hdirs. apply Hdirs. exact Hd.
Qed.

Lemma sanitize_noslash name : no_slash (sanitize name).
Proof.
  unfold sanitize. apply Forall_forall. intros c Hc. apply in_map_iff in Hc. destruct Hc as (x & <- & _).
  destruct ((x =? 0) || (x =? SLASH) || (x =? 92)) eqn:E; [discriminate|].
  apply orb_false_iff in E. destruct E as [E _]. apply orb_false_iff in E. destruct E as [_ E]. apply Z.eqb_neq. exact E.
Qed.

(* every image file is created as a direct child of the output directory, whatever the image is called *)
Theorem image_confined outdir name ext : outdir <> [] -> no_slash ext -> (3 <= length ext)%nat ->
  normpath (image_path outdir name ext) = normpath outdir ++ [sanitize name ++ ext].
Proof.
  intros Ho He Hl. unfold image_path.
  destruct (ends_not_dots (sanitize name) ext Hl) as (A & B & C).
  apply join_child; try assumption. apply no_slash_app; [apply sanitize_noslash|exact He].
Qed.
