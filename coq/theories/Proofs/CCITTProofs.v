(* C19 proofs: tables, prefix-freeness, trie walk, run lengths. *)
From Coq Require Import ZArith List Bool Lia.
From PdfV Require Import Gen.CCITTTables Spec.T6Tables Model.CCITT.
Import ListNotations.
Open Scope Z_scope.

(* ---------- generated tables = specification tables -------------------------------------------- *)
Definition entry_eqb (a b : Z * list bool) : bool := (fst a =? fst b) && bits_eqb (snd a) (snd b).
Definition subset_z (a b : list (Z * list bool)) : bool := forallb (fun e => existsb (entry_eqb e) b) a.

Definition mode_eqb (a b : g4mode) : bool :=
  match a, b with
  | MV x, MV y | MX x, MX y => x =? y
  | MH, MH | MP, MP | MU, MU | ME, ME => true
  | _, _ => false
  end.
Definition mentry_eqb (a b : g4mode * list bool) : bool := mode_eqb (fst a) (fst b) && bits_eqb (snd a) (snd b).
(* pdfminer's MODE table additionally lists the uncompressed-mode and extension codes *)
Definition is_core_mode (e : g4mode * list bool) : bool := match fst e with MU | MX _ => false | _ => true end.

Lemma tables_white : subset_z WHITE T4_WHITE && subset_z T4_WHITE WHITE = true.
Proof. vm_compute. reflexivity. Qed.
Lemma tables_black : subset_z BLACK T4_BLACK && subset_z T4_BLACK BLACK = true.
Proof. vm_compute. reflexivity. Qed.
Lemma tables_mode :
  forallb (fun e => existsb (mentry_eqb e) T6_MODE) (filter is_core_mode MODE)
  && forallb (fun e => existsb (mentry_eqb e) MODE) T6_MODE = true.
Proof. vm_compute. reflexivity. Qed.

Lemma bits_eqb_eq a : forall b, bits_eqb a b = true <-> a = b.
Proof.
  induction a as [|x a IH]; destruct b as [|y b]; cbn; split; intros H; try discriminate; try reflexivity.
  - apply andb_true_iff in H. destruct H as [H1 H2]. apply Bool.eqb_prop in H1. apply IH in H2. subst. reflexivity.
  - inversion H; subst. rewrite Bool.eqb_reflx. cbn. apply IH. reflexivity.
Qed.

(* ---------- prefix-freeness ----------------------------------------------------------------------- *)
Definition prefix_free {A} (t : list (A * list bool)) : bool :=
  forallb (fun e1 => forallb (fun e2 => negb (is_prefix (snd e1) (snd e2)) || bits_eqb (snd e1) (snd e2)) t) t.
(* codes are pairwise different entries *)
Definition codes_distinct {A} (t : list (A * list bool)) : Prop := NoDup (map snd t).

Lemma pf_mode : prefix_free MODE = true. Proof. vm_compute. reflexivity. Qed.
Lemma pf_white : prefix_free WHITE = true. Proof. vm_compute. reflexivity. Qed.
Lemma pf_black : prefix_free BLACK = true. Proof. vm_compute. reflexivity. Qed.

Lemma prefix_free_spec {A} (t : list (A * list bool)) : prefix_free t = true ->
  forall e1 e2, In e1 t -> In e2 t -> is_prefix (snd e1) (snd e2) = true -> snd e1 = snd e2.
Proof.
  intros H e1 e2 H1 H2 Hp. unfold prefix_free in H. rewrite forallb_forall in H.
  specialize (H e1 H1). rewrite forallb_forall in H. specialize (H e2 H2).
  rewrite Hp in H. cbn in H. apply bits_eqb_eq. exact H.
Qed.

Lemma is_prefix_app a b : is_prefix a (a ++ b) = true.
Proof. induction a as [|x a IH]; [reflexivity|]. cbn. rewrite Bool.eqb_reflx, IH. reflexivity. Qed.

Lemma is_prefix_length a : forall b, is_prefix a b = true -> (length a <= length b)%nat.
Proof.
  induction a as [|x a IH]; intros b H; [cbn; lia|]. destruct b as [|y b]; [discriminate|].
  cbn in H. apply andb_true_iff in H. destruct H as [_ H]. apply IH in H. cbn. lia.
Qed.

(* ---------- walking the trie ------------------------------------------------------------------------ *)
(* values are determined by codes: two entries with the same code carry the same value *)
Definition functional {A} (t : list (A * list bool)) : Prop :=
  forall e1 e2, In e1 t -> In e2 t -> snd e1 = snd e2 -> fst e1 = fst e2.

Lemma find_code {A} (t : list (A * list bool)) v code : functional t -> In (v, code) t ->
  exists e, find (fun e => bits_eqb (snd e) code) t = Some e /\ fst e = v.
Proof.
  intros Hf Hin. destruct (find (fun e => bits_eqb (snd e) code) t) as [e|] eqn:E.
  - exists e. split; [reflexivity|]. apply find_some in E. destruct E as [Hine Heq]. apply bits_eqb_eq in Heq.
    apply (Hf e (v, code) Hine Hin). exact Heq.
  - exfalso. apply (find_none _ _ E) in Hin. cbn in Hin.
    assert (H : bits_eqb code code = true) by (apply bits_eqb_eq; reflexivity). congruence.
Qed.

(* the trie position after a full code is its leaf; after a proper prefix it is an inner node *)
Theorem trie_walk {A} (t : list (A * list bool)) v code : prefix_free t = true -> functional t ->
  In (v, code) t ->
  trie_at t code = WLeaf v /\
  forall p s, code = p ++ s -> s <> [] -> trie_at t p = WNode.
Proof.
  intros Hpf Hf Hin. split.
  - unfold trie_at. destruct (find_code t v code Hf Hin) as (e & E & Ev). rewrite E, Ev. reflexivity.
  - intros p s Hc Hs. unfold trie_at.
    destruct (find (fun e => bits_eqb (snd e) p) t) as [e|] eqn:E.
    + (* a code equal to a proper prefix of [code] contradicts prefix-freeness *)
      exfalso. apply find_some in E. destruct E as [Hine Heq]. apply bits_eqb_eq in Heq.
      assert (Hp : is_prefix (snd e) (snd (v, code)) = true) by (cbn; rewrite Heq, Hc; apply is_prefix_app).
      pose proof (prefix_free_spec t Hpf e (v, code) Hine Hin Hp) as Hsame. cbn in Hsame.
      rewrite Heq, Hc in Hsame. apply (f_equal (@length bool)) in Hsame. rewrite app_length in Hsame.
      destruct s; [congruence|cbn in Hsame; lia].
    + assert (Hex : existsb (fun e => is_prefix p (snd e)) t = true).
      { apply existsb_exists. exists (v, code). split; [exact Hin|]. cbn. rewrite Hc. apply is_prefix_app. }
      rewrite Hex. reflexivity.
Qed.

Lemma functional_of_distinct {A} (t : list (A * list bool)) :
  (forallb (fun e1 => forallb (fun e2 => negb (bits_eqb (snd e1) (snd e2)) || true) t) t = true) -> True.
Proof. auto. Qed.

Definition functional_b (t : list (Z * list bool)) : bool :=
  forallb (fun e1 => forallb (fun e2 => negb (bits_eqb (snd e1) (snd e2)) || (fst e1 =? fst e2)) t) t.
Lemma functional_b_spec t : functional_b t = true -> functional t.
Proof.
  intros H e1 e2 H1 H2 Hc. unfold functional_b in H. rewrite forallb_forall in H. specialize (H e1 H1).
  rewrite forallb_forall in H. specialize (H e2 H2).
  assert (Hb : bits_eqb (snd e1) (snd e2) = true) by (apply bits_eqb_eq; exact Hc).
  rewrite Hb in H. cbn in H. apply Z.eqb_eq. exact H.
Qed.
Lemma fn_white : functional WHITE. Proof. apply functional_b_spec. vm_compute. reflexivity. Qed.
Lemma fn_black : functional BLACK. Proof. apply functional_b_spec. vm_compute. reflexivity. Qed.

(* ---------- bit packing ------------------------------------------------------------------------------- *)
Lemma pack_byte b7 b6 b5 b4 b3 b2 b1 b0 r :
  pack_bits (b7 :: b6 :: b5 :: b4 :: b3 :: b2 :: b1 :: b0 :: r) 0 0 =
  (let v x := if x =? 0 then 0 else 1 in
   128 * v b7 + 64 * v b6 + 32 * v b5 + 16 * v b4 + 8 * v b3 + 4 * v b2 + 2 * v b1 + v b0) :: pack_bits r 0 0.
Proof.
  cbn [pack_bits]. f_equal. cbv zeta.
  destruct (b7 =? 0), (b6 =? 0), (b5 =? 0), (b4 =? 0), (b3 =? 0), (b2 =? 0), (b1 =? 0), (b0 =? 0); reflexivity.
Qed.

(* ---------- run lengths in horizontal mode ------------------------------------------------------------ *)
Definition with_bits (s : g4) (p : list bool) : g4 :=
  mkG4 (gwidth s) (galign s) (refline s) (curline s) (gcurpos s) (gcolor s) (lines s) (gtab s) (gacc s) p (gn1 s) (gn2 s).

Definition table_of (s : g4) : list (Z * list bool) := match gtab s with TBlack => BLACK | _ => WHITE end.

(* what _parse_horiz1 / _parse_horiz2 do with a decoded run length n *)
Definition accept_h1 (s : g4) (n : Z) : bres :=
  if n <? 64 then BCont (goto (set_color s (1 - gcolor s)) (colour_table (1 - gcolor s)) AH2 (gn1 s + n) 0)
  else BCont (goto s (colour_table (gcolor s)) AH1 (gn1 s + n) (gn2 s)).
Definition accept_h2 (s : g4) (n : Z) : bres :=
  if n <? 64 then after_coding (do_horizontal (set_color s (1 - gcolor s)) (gn1 s) (gn2 s + n))
  else BCont (goto s (colour_table (gcolor s)) AH2 (gn1 s) (gn2 s + n)).

Lemma table_facts s : prefix_free (table_of s) = true /\ functional (table_of s).
Proof. unfold table_of. destruct (gtab s); split; auto using pf_white, pf_black, fn_white, fn_black. Qed.

Lemma walk_h1 s n code : gacc s = AH1 -> In (n, code) (table_of s) -> code <> [] ->
  forall p rest, code = p ++ rest -> rest <> [] -> feed_bits (with_bits s p) rest = accept_h1 s n.
Proof.
  intros Ha Hin Hne p rest. revert p. destruct (table_facts s) as [Hpf Hfn].
  induction rest as [|b r IH]; intros p Hc Hr; [congruence|].
  cbn [feed_bits]. unfold parse_bit. cbn [gacc gbits gtab with_bits]. rewrite Ha.
  fold (table_of s).
  destruct r as [|b' r'].
  - (* last bit: the leaf *)
    destruct (trie_walk (table_of s) n code Hpf Hfn Hin) as [Hleaf _].
    rewrite <- Hc, Hleaf. unfold accept_h1. cbn [gn1 gn2 gcolor with_bits].
    destruct (n <? 64); reflexivity.
  - destruct (trie_walk (table_of s) n code Hpf Hfn Hin) as [_ Hnode].
    assert (Hc' : code = (p ++ [b]) ++ b' :: r') by (rewrite <- app_assoc; exact Hc).
    rewrite (Hnode (p ++ [b]) (b' :: r') Hc' ltac:(discriminate)).
    specialize (IH (p ++ [b])). rewrite <- app_assoc in IH. specialize (IH Hc ltac:(discriminate)).
    unfold with_bits in *. cbn [gwidth galign refline curline gcurpos gcolor lines gn1 gn2] in *.
    rewrite Ha in IH. exact IH.
Qed.

Lemma after_coding_bits s p c a b :
  after_coding (do_horizontal (set_color (with_bits s p) c) a b) = after_coding (do_horizontal (set_color s c) a b).
Proof.
  unfold after_coding, flush_line, do_horizontal, set_line, set_color, with_bits, goto.
  cbn [gwidth galign refline curline gcurpos gcolor lines gtab gacc gbits gn1 gn2].
  destruct (gwidth s <=? _); [destruct (galign s)|]; reflexivity.
Qed.

Lemma walk_h2 s n code : gacc s = AH2 -> In (n, code) (table_of s) -> code <> [] ->
  forall p rest, code = p ++ rest -> rest <> [] -> feed_bits (with_bits s p) rest = accept_h2 s n.
Proof.
  intros Ha Hin Hne p rest. revert p. destruct (table_facts s) as [Hpf Hfn].
  induction rest as [|b r IH]; intros p Hc Hr; [congruence|].
  cbn [feed_bits]. unfold parse_bit. cbn [gacc gbits gtab with_bits]. rewrite Ha.
  fold (table_of s).
  destruct r as [|b' r'].
  - destruct (trie_walk (table_of s) n code Hpf Hfn Hin) as [Hleaf _].
    rewrite <- Hc, Hleaf. unfold accept_h2.
    destruct (n <? 64); [|reflexivity].
    change (gn1 (with_bits s p)) with (gn1 s). change (gn2 (with_bits s p)) with (gn2 s).
    change (gcolor (with_bits s p)) with (gcolor s).
    rewrite after_coding_bits. destruct (after_coding _); reflexivity.
  - destruct (trie_walk (table_of s) n code Hpf Hfn Hin) as [_ Hnode].
    assert (Hc' : code = (p ++ [b]) ++ b' :: r') by (rewrite <- app_assoc; exact Hc).
    rewrite (Hnode (p ++ [b]) (b' :: r') Hc' ltac:(discriminate)).
    specialize (IH (p ++ [b])). rewrite <- app_assoc in IH. specialize (IH Hc ltac:(discriminate)).
    unfold with_bits in *. cbn [gwidth galign refline curline gcurpos gcolor lines gn1 gn2] in *.
    rewrite Ha in IH. exact IH.
Qed.

Lemma feed_bits_app s a b : forall s', feed_bits s a = BCont s' -> feed_bits s (a ++ b) = feed_bits s' b.
Proof.
  revert s. induction a as [|x a IH]; intros s s' H; cbn in *.
  - inversion H; subst. reflexivity.
  - destruct (parse_bit s x); try discriminate. apply IH. exact H.
Qed.

(* C19: in horizontal mode, any sequence of make-up codes followed by a terminating code of the
   current colour is read as the sum of their values (first run of the pair) *)
Theorem run_length_h1 : forall (mk : list (Z * list bool)) s t tcode,
  gacc s = AH1 -> gbits s = [] -> gtab s = colour_table (gcolor s) ->
  Forall (fun e => In e (table_of s) /\ 64 <= fst e /\ snd e <> []) mk ->
  In (t, tcode) (table_of s) -> t < 64 -> tcode <> [] ->
  feed_bits s (flat_map snd mk ++ tcode) =
  BCont (goto (set_color s (1 - gcolor s)) (colour_table (1 - gcolor s)) AH2
              (gn1 s + fold_right (fun e a => fst e + a) 0 mk + t) 0).
Proof.
  induction mk as [|[m mcode] mk IH]; intros s t tcode Ha Hb Ht Hmk Hin Hlt Hne.
  - cbn [flat_map app fold_right].
    assert (Es : s = with_bits s []) by (destruct s; cbn in *; subst; reflexivity).
    rewrite Es at 1. rewrite (walk_h1 s t tcode Ha Hin Hne [] tcode eq_refl Hne).
    unfold accept_h1. apply Z.ltb_lt in Hlt. rewrite Hlt. repeat f_equal. lia.
  - inversion Hmk as [|? ? (Hm & Hge & Hmne) Hmk']; subst. cbn [fst snd] in *.
    cbn [flat_map]. rewrite <- app_assoc.
    assert (Es : s = with_bits s []) by (destruct s; cbn in *; subst; reflexivity).
    pose proof (walk_h1 s m mcode Ha Hm Hmne [] mcode eq_refl Hmne) as Hw. rewrite <- Es in Hw.
    unfold accept_h1 in Hw. assert (E64 : (m <? 64) = false) by (apply Z.ltb_ge; lia). rewrite E64 in Hw.
    rewrite (feed_bits_app _ _ _ _ Hw).
    set (s1 := goto s (colour_table (gcolor s)) AH1 (gn1 s + m) (gn2 s)).
    assert (Htab : table_of s1 = table_of s) by (unfold table_of, s1; cbn [gtab goto]; rewrite <- Ht; reflexivity).
    rewrite (IH s1 t tcode); try reflexivity.
    + unfold s1, goto, set_color. cbn [gwidth galign refline curline gcurpos gcolor lines gn1 gn2 fold_right fst].
      f_equal. f_equal. lia.
    + rewrite Htab. exact Hmk'.
    + rewrite Htab. exact Hin.
    + exact Hlt.
    + exact Hne.
Qed.
