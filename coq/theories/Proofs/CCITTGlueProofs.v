(* C19, glue: the bit string of a T.6 element drives the bit-level parser to exactly the decoder's reaction to that
   element; hence, for encodings without EncodedByteAlign, the bytes of any admissible encoding of a bitmap decode to
   the bitmap. *)
From Coq Require Import ZArith List Bool Lia ZifyBool.
From PdfV Require Import Gen.CCITTTables Spec.T6Tables Model.CCITT Proofs.CCITTProofs Proofs.CCITTModeProofs.
Import ListNotations.
Open Scope Z_scope.

(* the part of the parser state the decoding functions read and write; the rest (table selector, acceptor, bits read
   since the last accept, pending run lengths) is scratch *)
Definition core (s : g4) := (gwidth s, galign s, refline s, curline s, gcurpos s, gcolor s, lines s).
Definition ready (s : g4) : Prop := gacc s = AMode /\ gbits s = [].

Lemma core_goto s t a n1 n2 : core (goto s t a n1 n2) = core s.
Proof. reflexivity. Qed.
Lemma core_with_bits s p : core (with_bits s p) = core s.
Proof. reflexivity. Qed.

Lemma core_apply_flush x y o : core x = core y -> core (apply_flush x o) = core (apply_flush y o).
Proof.
  destruct x as [xw xa xr xc xp xk xl xt xac xb xn1 xn2], y as [yw ya yr yc yp yk yl yt yac yb yn1 yn2]. unfold core. cbn [gwidth galign refline curline gcurpos gcolor lines]. intros H. inversion H; subst.
  destruct o; unfold apply_flush, apply_op, flush_line, do_pass, do_vertical, do_horizontal, set_line;
    cbn [gwidth galign refline curline gcurpos gcolor lines gtab gacc gbits gn1 gn2];
    match goal with |- context [if ?c then _ else _] => destruct c end; reflexivity.
Qed.

Lemma core_horiz_flush x y c a b a' b' : core x = core y -> a = a' -> b = b' ->
  core (fst (flush_line (do_horizontal (set_color x c) a b))) = core (fst (flush_line (do_horizontal (set_color y c) a' b'))).
Proof.
  intros H -> ->.
  destruct x as [xw xa xr xc xp xk xl xt xac xb xn1 xn2], y as [yw ya yr yc yp yk yl yt yac yb yn1 yn2]. unfold core in *.
  cbn [gwidth galign refline curline gcurpos gcolor lines] in H. inversion H; subst.
  unfold flush_line, do_horizontal, set_line, set_color;
    cbn [gwidth galign refline curline gcurpos gcolor lines gtab gacc gbits gn1 gn2];
    match goal with |- context [if ?c then _ else _] => destruct c end; reflexivity.
Qed.

Lemma after_coding_noalign x : galign x = false ->
  exists n1 n2, after_coding x = BCont (goto (fst (flush_line x)) TMode AMode n1 n2).
Proof.
  intros Ha. unfold after_coding, flush_line. destruct (gwidth x <=? gcurpos x).
  - rewrite Ha. eexists. eexists. reflexivity.
  - eexists. eexists. reflexivity.
Qed.

(* ---------- the mode codes -------------------------------------------------------------------------------------------- *)
Lemma mode_eqb_eq a b : mode_eqb a b = true -> a = b.
Proof. destruct a, b; cbn; intros H; try discriminate; try reflexivity; f_equal; lia. Qed.
Definition functional_m (t : list (g4mode * list bool)) : bool :=
  forallb (fun e1 => forallb (fun e2 => negb (bits_eqb (snd e1) (snd e2)) || mode_eqb (fst e1) (fst e2)) t) t.
Lemma fn_mode : functional MODE.
Proof.
  assert (H : functional_m MODE = true) by (vm_compute; reflexivity).
  intros e1 e2 H1 H2 Hc. unfold functional_m in H. rewrite forallb_forall in H. specialize (H e1 H1).
  rewrite forallb_forall in H. specialize (H e2 H2).
  assert (Hb : bits_eqb (snd e1) (snd e2) = true) by (apply bits_eqb_eq; exact Hc).
  rewrite Hb in H. cbn in H. apply mode_eqb_eq. exact H.
Qed.

Definition accept_mode (s : g4) (m : g4mode) : bres :=
  match m with
  | MP => after_coding (do_pass s)
  | MH => BCont (goto s (colour_table (gcolor s)) AH1 0 (gn2 s))
  | MV d => after_coding (do_vertical s d)
  | MU => BUnmodelled
  | ME => BEOFB s
  | MX _ => BInvalid
  end.
Definition coding_mode (m : g4mode) : Prop := match m with MP | MH | MV _ => True | _ => False end.

Lemma after_coding_pass_bits s p : after_coding (do_pass (with_bits s p)) = after_coding (do_pass s).
Proof.
  unfold after_coding, flush_line, do_pass, set_line, with_bits, goto.
  cbn [gwidth galign refline curline gcurpos gcolor lines gtab gacc gbits gn1 gn2].
  match goal with |- context [if ?c then _ else _] => destruct c end; [destruct (galign s)|]; reflexivity.
Qed.
Lemma after_coding_vert_bits s p d : after_coding (do_vertical (with_bits s p) d) = after_coding (do_vertical s d).
Proof.
  unfold after_coding, flush_line, do_vertical, set_line, with_bits, goto.
  cbn [gwidth galign refline curline gcurpos gcolor lines gtab gacc gbits gn1 gn2].
  match goal with |- context [if (gwidth s <=? ?c) then _ else _] => destruct (gwidth s <=? c) end; [destruct (galign s)|]; reflexivity.
Qed.

Lemma walk_mode s m code : gacc s = AMode -> In (m, code) MODE -> code <> [] -> coding_mode m ->
  forall p rest, code = p ++ rest -> rest <> [] -> feed_bits (with_bits s p) rest = accept_mode s m.
Proof.
  intros Ha Hin Hne Hcm p rest. revert p.
  induction rest as [|b r IH]; intros p Hc Hr; [congruence|].
  cbn [feed_bits]. unfold parse_bit. cbn [gacc gbits with_bits]. rewrite Ha.
  destruct r as [|b' r'].
  - destruct (trie_walk MODE m code pf_mode fn_mode Hin) as [Hleaf _].
    rewrite <- Hc, Hleaf. destruct m; cbn [coding_mode] in Hcm; try contradiction; cbn [accept_mode].
    + fold (with_bits s p). rewrite after_coding_vert_bits. destruct (after_coding _); reflexivity.
    + reflexivity.
    + fold (with_bits s p). rewrite after_coding_pass_bits. destruct (after_coding _); reflexivity.
  - destruct (trie_walk MODE m code pf_mode fn_mode Hin) as [_ Hnode].
    assert (Hc' : code = (p ++ [b]) ++ b' :: r') by (rewrite <- app_assoc; exact Hc).
    rewrite (Hnode (p ++ [b]) (b' :: r') Hc' ltac:(discriminate)).
    specialize (IH (p ++ [b])). rewrite <- app_assoc in IH. specialize (IH Hc ltac:(discriminate)).
    unfold with_bits in *. cbn [gwidth galign refline curline gcurpos gcolor lines gtab gn1 gn2] in *.
    rewrite Ha in IH. exact IH.
Qed.

Lemma ready_with_bits s : ready s -> s = with_bits s [].
Proof. intros [_ Hb]. destruct s. cbn in *. subst. reflexivity. Qed.

(* ---------- the second run of a horizontal element ---------------------------------------------------------- *)
Definition sum_mk (mk : list (Z * list bool)) : Z := fold_right (fun e a => fst e + a) 0 mk.

Lemma run_length_h2 : forall (mk : list (Z * list bool)) s t tcode,
  gacc s = AH2 -> gbits s = [] -> gtab s = colour_table (gcolor s) -> galign s = false ->
  Forall (fun e => In e (table_of s) /\ 64 <= fst e /\ snd e <> []) mk ->
  In (t, tcode) (table_of s) -> t < 64 -> tcode <> [] ->
  exists x, feed_bits s (flat_map snd mk ++ tcode) = BCont x /\ ready x /\
            core x = core (fst (flush_line (do_horizontal (set_color s (1 - gcolor s)) (gn1 s) (gn2 s + sum_mk mk + t)))).
Proof.
  induction mk as [|[m mcode] mk IH]; intros s t tcode Ha Hb Ht Hal Hmk Hin Hlt Hne.
  - cbn [flat_map app sum_mk fold_right].
    assert (Es : s = with_bits s []) by (destruct s; cbn in *; subst; reflexivity).
    assert (W : feed_bits s tcode = accept_h2 s t)
      by (rewrite Es at 1; apply (walk_h2 s t tcode Ha Hin Hne [] tcode eq_refl Hne)).
    rewrite W. unfold accept_h2. apply Z.ltb_lt in Hlt. rewrite Hlt.
    set (y := do_horizontal (set_color s (1 - gcolor s)) (gn1 s) (gn2 s + t)).
    destruct (after_coding_noalign y) as (n1 & n2 & E); [subst y; unfold do_horizontal, set_line, set_color; cbn; exact Hal|].
    rewrite E. eexists. split; [reflexivity|]. split; [split; reflexivity|].
    rewrite core_goto. subst y. replace (gn2 s + 0 + t) with (gn2 s + t) by lia. reflexivity.
  - inversion Hmk as [|? ? (Hm & Hge & Hmne) Hmk']; subst. cbn [fst snd] in *.
    cbn [flat_map]. rewrite <- app_assoc.
    assert (Es : s = with_bits s []) by (destruct s; cbn in *; subst; reflexivity).
    pose proof (walk_h2 s m mcode Ha Hm Hmne [] mcode eq_refl Hmne) as Hw. rewrite <- Es in Hw.
    unfold accept_h2 in Hw. assert (E64 : (m <? 64) = false) by (apply Z.ltb_ge; lia). rewrite E64 in Hw.
    rewrite (feed_bits_app _ _ _ _ Hw).
    set (s1 := goto s (colour_table (gcolor s)) AH2 (gn1 s) (gn2 s + m)).
    assert (Htab : table_of s1 = table_of s) by (unfold table_of, s1; cbn [gtab goto]; rewrite <- Ht; reflexivity).
    destruct (IH s1 t tcode) as (x & Ex & Rx & Cx); try reflexivity; try assumption.
    + rewrite Htab. exact Hmk'.
    + rewrite Htab. exact Hin.
    + exists x. split; [exact Ex|]. split; [exact Rx|]. rewrite Cx.
      apply core_horiz_flush; [reflexivity|reflexivity|].
      subst s1. cbn [gn1 gn2 gcolor goto sum_mk fold_right fst]. unfold sum_mk. lia.
Qed.

(* ---------- the bit strings of the elements ---------------------------------------------------------------------- *)
Definition ctable (c : Z) : list (Z * list bool) := match colour_table c with TBlack => BLACK | _ => WHITE end.
(* a run length n in colour c: any make-up codes and one terminating code adding up to n *)
Definition runcode (c n : Z) (bits : list bool) : Prop :=
  exists mk t tcode, Forall (fun e => In e (ctable c) /\ 64 <= fst e /\ snd e <> []) mk /\
    In (t, tcode) (ctable c) /\ t < 64 /\ tcode <> [] /\ bits = flat_map snd mk ++ tcode /\ n = sum_mk mk + t.

Inductive elem_code (c : Z) : op -> list bool -> Prop :=
| ec_pass : forall code, In (MP, code) MODE -> elem_code c OPass code
| ec_vert : forall d code, In (MV d, code) MODE -> elem_code c (OVert d) code
| ec_horiz : forall n1 n2 hcode b1 b2, In (MH, hcode) MODE -> runcode c n1 b1 -> runcode (1 - c) n2 b2 ->
    elem_code c (OHoriz n1 n2) (hcode ++ b1 ++ b2).

Lemma mode_code_nonempty m code : In (m, code) MODE -> code <> [].
Proof.
  intros Hin Hc. subst code.
  assert (H : forallb (fun e => negb (bits_eqb (snd e) [])) MODE = true) by (vm_compute; reflexivity).
  rewrite forallb_forall in H. specialize (H _ Hin). cbn in H. discriminate.
Qed.

Theorem elem_feeds s o bits : ready s -> galign s = false -> elem_code (gcolor s) o bits ->
  exists x, feed_bits s bits = BCont x /\ ready x /\ core x = core (apply_flush s o).
Proof.
  intros Hr Hal He. pose proof (ready_with_bits s Hr) as Es. destruct Hr as [Ha Hb].
  destruct He as [code Hin|d code Hin|n1 n2 hcode b1 b2 Hin R1 R2].
  - pose proof (mode_code_nonempty _ _ Hin) as Hne.
    assert (W : feed_bits s code = accept_mode s MP)
      by (rewrite Es at 1; apply (walk_mode s MP code Ha Hin Hne I [] code eq_refl Hne)).
    rewrite W. cbn [accept_mode].
    destruct (after_coding_noalign (do_pass s)) as (n1 & n2 & E); [unfold do_pass, set_line; cbn; exact Hal|].
    rewrite E. eexists. split; [reflexivity|]. split; [split; reflexivity|]. rewrite core_goto. reflexivity.
  - pose proof (mode_code_nonempty _ _ Hin) as Hne.
    assert (W : feed_bits s code = accept_mode s (MV d))
      by (rewrite Es at 1; apply (walk_mode s (MV d) code Ha Hin Hne I [] code eq_refl Hne)).
    rewrite W. cbn [accept_mode].
    destruct (after_coding_noalign (do_vertical s d)) as (n1 & n2 & E); [unfold do_vertical, set_line; cbn; exact Hal|].
    rewrite E. eexists. split; [reflexivity|]. split; [split; reflexivity|]. rewrite core_goto. reflexivity.
  - pose proof (mode_code_nonempty _ _ Hin) as Hne.
    assert (W : feed_bits s hcode = BCont (goto s (colour_table (gcolor s)) AH1 0 (gn2 s))).
    { rewrite Es at 1. rewrite (walk_mode s MH hcode Ha Hin Hne I [] hcode eq_refl Hne). reflexivity. }
    rewrite (feed_bits_app _ _ _ _ W).
    set (s1 := goto s (colour_table (gcolor s)) AH1 0 (gn2 s)).
    destruct R1 as (mk1 & t1 & tc1 & F1 & I1 & L1 & N1 & B1 & S1).
    destruct R2 as (mk2 & t2 & tc2 & F2 & I2 & L2 & N2 & B2 & S2).
    assert (T1 : table_of s1 = ctable (gcolor s)) by reflexivity.
    pose proof (run_length_h1 mk1 s1 t1 tc1 eq_refl eq_refl eq_refl) as H1.
    rewrite T1 in H1. specialize (H1 F1 I1 L1 N1). rewrite <- B1 in H1.
    rewrite (feed_bits_app _ _ _ _ H1).
    set (s2 := goto (set_color s1 (1 - gcolor s1)) (colour_table (1 - gcolor s1)) AH2
                    (gn1 s1 + fold_right (fun e a => fst e + a) 0 mk1 + t1) 0).
    assert (T2 : table_of s2 = ctable (1 - gcolor s)) by reflexivity.
    destruct (run_length_h2 mk2 s2 t2 tc2 eq_refl eq_refl eq_refl Hal) as (x & Ex & Rx & Cx).
    + rewrite T2. exact F2.
    + rewrite T2. exact I2.
    + exact L2.
    + exact N2.
    + rewrite <- B2 in Ex. exists x. split; [exact Ex|]. split; [exact Rx|]. rewrite Cx.
      change (fst (flush_line ?y)) with (fst (flush_line y)).
      assert (Ecore : core (do_horizontal (set_color s2 (1 - gcolor s2)) (gn1 s2) (gn2 s2 + sum_mk mk2 + t2)) = core (do_horizontal s n1 n2)).
      { subst s2 s1. unfold do_horizontal, set_line, set_color, goto, core.
        cbn [gwidth galign refline curline gcurpos gcolor lines gtab gacc gbits gn1 gn2].
        replace (1 - (1 - gcolor s)) with (gcolor s) by lia.
        replace (0 + fold_right (fun e a => fst e + a) 0 mk1 + t1) with n1 by (unfold sum_mk in S1; lia).
        replace (0 + sum_mk mk2 + t2) with n2 by lia. reflexivity. }
      unfold apply_flush. cbn [apply_op].
      set (y1 := do_horizontal (set_color s2 (1 - gcolor s2)) (gn1 s2) (gn2 s2 + sum_mk mk2 + t2)) in *.
      set (y2 := do_horizontal s n1 n2) in *. clearbody y1 y2.
      destruct y1 as [xw xa xr xc xp xk xl xt xac xb xn1 xn2], y2 as [yw ya yr yc yp yk yl yt yac yb yn1 yn2]. unfold core in Ecore. cbn [gwidth galign refline curline gcurpos gcolor lines] in Ecore.
      inversion Ecore; subst. unfold flush_line, core. cbn [gwidth galign refline curline gcurpos gcolor lines].
      match goal with |- context [if ?c then _ else _] => destruct c end; reflexivity.
Qed.

(* a sequence of elements and their bits, the colour threaded through the decoder's reactions *)
Inductive ops_bits : g4 -> list op -> list bool -> Prop :=
| ob_nil : forall s, ops_bits s [] []
| ob_cons : forall s o ops b bs, elem_code (gcolor s) o b -> ops_bits (apply_flush s o) ops bs ->
    ops_bits s (o :: ops) (b ++ bs).

Lemma core_color x y : core x = core y -> gcolor x = gcolor y.
Proof. unfold core. intros H. inversion H. reflexivity. Qed.
Lemma core_align x y : core x = core y -> galign x = galign y.
Proof. unfold core. intros H. inversion H. reflexivity. Qed.
Lemma core_lines x y : core x = core y -> lines x = lines y.
Proof. unfold core. intros H. inversion H. reflexivity. Qed.
Lemma align_apply_flush s o : galign (apply_flush s o) = galign s.
Proof.
  destruct o; unfold apply_flush, apply_op, flush_line, do_pass, do_vertical, do_horizontal, set_line;
    cbn [gwidth galign refline curline gcurpos gcolor lines gtab gacc gbits gn1 gn2];
    match goal with |- context [if ?c then _ else _] => destruct c end; reflexivity.
Qed.

Theorem ops_feed : forall ops s bits, ops_bits s ops bits -> forall x, ready x -> core x = core s -> galign s = false ->
  exists x', feed_bits x bits = BCont x' /\ ready x' /\ core x' = core (fold_left apply_flush ops s).
Proof.
  intros ops s bits H. induction H as [s|s o ops b bs He Hrest IH]; intros x Rx Cx Hal.
  - exists x. cbn. auto.
  - assert (Halx : galign x = false) by (rewrite (core_align x s Cx); exact Hal).
    rewrite <- (core_color x s Cx) in He.
    destruct (elem_feeds x o b Rx Halx He) as (x1 & E1 & R1 & C1).
    rewrite (feed_bits_app _ _ _ _ E1).
    destruct (IH x1 R1) as (x2 & E2 & R2 & C2).
    + rewrite C1. apply core_apply_flush. exact Cx.
    + rewrite align_apply_flush. exact Hal.
    + exists x2. cbn [fold_left]. auto.
Qed.

(* ---------- bytes -------------------------------------------------------------------------------------------------------- *)
Lemma feed_bits_app_inv s a : forall b s', feed_bits s (a ++ b) = BCont s' ->
  exists s1, feed_bits s a = BCont s1 /\ feed_bits s1 b = BCont s'.
Proof.
  revert s. induction a as [|x a IH]; intros s b s' H; cbn [app feed_bits] in *.
  - exists s. auto.
  - destruct (parse_bit s x) eqn:E; try discriminate. apply IH. exact H.
Qed.

Lemma feedbytes_bits : forall data s s', feed_bits s (flat_map bits_of_byte data) = BCont s' -> feedbytes s data = GOk s'.
Proof.
  induction data as [|byte r IH]; intros s s' H; cbn [flat_map feedbytes] in *.
  - cbn in H. inversion H. reflexivity.
  - apply feed_bits_app_inv in H. destruct H as (s1 & H1 & H2). rewrite H1. apply IH. exact H2.
Qed.

(* trailing zero padding up to the byte boundary is the beginning of no complete code *)
Lemma pad_zeros s k : ready s -> (k <= 7)%nat -> exists x, feed_bits s (repeat false k) = BCont x /\ core x = core s.
Proof.
  intros [Ha Hb] Hk.
  assert (G : forall k p, (length p + k <= 7)%nat -> p = repeat false (length p) -> gbits s = p -> gacc s = AMode ->
              exists x, feed_bits s (repeat false k) = BCont x /\ core x = core s).
  { clear. intros k. revert s. induction k as [|k IH]; intros s p Hl Hp Hb Ha; [exists s; cbn; auto|].
    cbn [repeat feed_bits]. unfold parse_bit. rewrite Ha, Hb.
    assert (W : trie_at MODE (p ++ [false]) = WNode).
    { rewrite Hp. assert (E : repeat false (length p) ++ [false] = repeat false (S (length p))) by (cbn [repeat]; rewrite repeat_cons; reflexivity).
      rewrite E. assert (L : (S (length p) <= 7)%nat) by lia. revert L. generalize (S (length p)). intros n Hn.
      do 8 (destruct n as [|n]; [vm_compute; reflexivity|]). lia. }
    rewrite W.
    set (s1 := mkG4 (gwidth s) (galign s) (refline s) (curline s) (gcurpos s) (gcolor s) (lines s) (gtab s) AMode (p ++ [false]) (gn1 s) (gn2 s)).
    destruct (IH s1 (p ++ [false])) as (x & Ex & Cx).
    - rewrite app_length. cbn [length]. lia.
    - rewrite app_length. cbn [length]. rewrite Nat.add_1_r. cbn [repeat]. rewrite repeat_cons, <- Hp. reflexivity.
    - reflexivity.
    - reflexivity.
    - exists x. split; [exact Ex|]. rewrite Cx. reflexivity. }
  apply (G k []); auto.
Qed.

(* THE CHAIN: bytes whose bits are the codes of an admissible coding of the bitmap, followed by at most seven zero
   bits of padding, decode (without EncodedByteAlign) to exactly the rows, each packed by output_line *)
Theorem g4_bytes_decode w rows ops bits data k reversed : 0 < w ->
  page_coding (white_line w) rows ops -> ops_bits (g4_init w false) ops bits ->
  flat_map bits_of_byte data = bits ++ repeat false k -> (k <= 7)%nat ->
  ccittfaxdecode data w false reversed = DOk (flat_map (output_line reversed) rows).
Proof.
  intros Hw P B Hd Hk. unfold ccittfaxdecode.
  destruct (ops_feed ops _ bits B (g4_init w false)) as (x & Ex & Rx & Cx); [split; reflexivity|reflexivity|reflexivity|].
  destruct (pad_zeros x k Rx Hk) as (x2 & E2 & C2).
  assert (F : feed_bits (g4_init w false) (flat_map bits_of_byte data) = BCont x2).
  { rewrite Hd. rewrite (feed_bits_app _ _ _ _ Ex). exact E2. }
  rewrite (feedbytes_bits data _ _ F). f_equal. f_equal.
  rewrite (core_lines x2 x C2), (core_lines x _ Cx). apply page_from_init; assumption.
Qed.

(* ---------- the end-of-facsimile-block marker ------------------------------------------------------------------ *)
Lemma feed_bits_app_cases s a : forall b,
  feed_bits s (a ++ b) = match feed_bits s a with BCont s1 => feed_bits s1 b | r => r end.
Proof.
  revert s. induction a as [|x a IH]; intros s b; cbn [app feed_bits]; [reflexivity|].
  destruct (parse_bit s x); try reflexivity. apply IH.
Qed.

Lemma walk_eofb s code : gacc s = AMode -> In (ME, code) MODE ->
  forall p rest, code = p ++ rest -> rest <> [] -> exists x, feed_bits (with_bits s p) rest = BEOFB x /\ core x = core s.
Proof.
  intros Ha Hin p rest. revert p.
  induction rest as [|b r IH]; intros p Hc Hr; [congruence|].
  cbn [feed_bits]. unfold parse_bit. cbn [gacc gbits with_bits]. rewrite Ha.
  destruct r as [|b' r'].
  - destruct (trie_walk MODE ME code pf_mode fn_mode Hin) as [Hleaf _].
    rewrite <- Hc, Hleaf. eexists. split; [reflexivity|reflexivity].
  - destruct (trie_walk MODE ME code pf_mode fn_mode Hin) as [_ Hnode].
    assert (Hc' : code = (p ++ [b]) ++ b' :: r') by (rewrite <- app_assoc; exact Hc).
    rewrite (Hnode (p ++ [b]) (b' :: r') Hc' ltac:(discriminate)).
    specialize (IH (p ++ [b])). rewrite <- app_assoc in IH. specialize (IH Hc ltac:(discriminate)).
    unfold with_bits in *. cbn [gwidth galign refline curline gcurpos gcolor lines gtab gn1 gn2] in *.
    rewrite Ha in IH. exact IH.
Qed.

Lemma feedbytes_eofb : forall data s x, feed_bits s (flat_map bits_of_byte data) = BEOFB x -> feedbytes s data = GOk x.
Proof.
  induction data as [|byte r IH]; intros s x H; cbn [flat_map feedbytes] in *; [cbn in H; discriminate|].
  rewrite feed_bits_app_cases in H. destruct (feed_bits s (bits_of_byte byte)) eqn:E; try discriminate.
  - apply IH. exact H.
  - inversion H. reflexivity.
Qed.

(* ... the same encoding followed by EOFB and anything at all *)
Theorem g4_bytes_decode_eofb w rows ops bits data eofb junk reversed : 0 < w ->
  page_coding (white_line w) rows ops -> ops_bits (g4_init w false) ops bits ->
  In (ME, eofb) MODE -> flat_map bits_of_byte data = bits ++ eofb ++ junk ->
  ccittfaxdecode data w false reversed = DOk (flat_map (output_line reversed) rows).
Proof.
  intros Hw P B He Hd. unfold ccittfaxdecode.
  destruct (ops_feed ops _ bits B (g4_init w false)) as (x & Ex & Rx & Cx); [split; reflexivity|reflexivity|reflexivity|].
  pose proof (mode_code_nonempty _ _ He) as Hne.
  destruct (walk_eofb x eofb (proj1 Rx) He [] eofb eq_refl Hne) as (x2 & E2 & C2).
  rewrite <- (ready_with_bits x Rx) in E2.
  assert (F : feed_bits (g4_init w false) (flat_map bits_of_byte data) = BEOFB x2).
  { rewrite Hd. rewrite (feed_bits_app _ _ _ _ Ex). rewrite feed_bits_app_cases, E2. reflexivity. }
  rewrite (feedbytes_eofb data _ _ F). f_equal. f_equal.
  rewrite (core_lines x2 x C2), (core_lines x _ Cx). apply page_from_init; assumption.
Qed.
