(* C01, end to end: every byte spelling of a value (tokens in any admissible spelling, separated by any white space and
   comments, delimiters minimal or redundant) reads back as the value; and every value has such a spelling. *)
From Coq Require Import ZArith List Bool Lia ZifyBool.
From PdfV Require Import Gen.LexClasses Model.Lexer Model.StackParser Proofs.LexerProofs Proofs.StackProofs
  Proofs.SpellingProofs Proofs.SpellingProofs2 Proofs.SpellingSeq.
Import ListNotations.
Open Scope Z_scope.

Theorem value_bytes_read_back v bytes : wfv v -> (forall n, v <> VRef n) -> spelled (tprint v) bytes ->
  parse_bytes PStream bytes = Ok [norm v].
Proof.
  intros Hwf Hnr Hs. unfold parse_bytes. rewrite (spelled_lex _ _ Hs). apply stream_toplevel; assumption.
Qed.

Theorem indirect_object_bytes_read_back n g v bytes : wfv v ->
  spelled ([TInt n; TInt g; TKw K_obj] ++ tprint v ++ [TKw K_endobj]) bytes ->
  parse_bytes PPdf bytes = Ok [VInt n; VInt g; VKw K_obj; norm v].
Proof.
  intros Hwf Hs. unfold parse_bytes. rewrite (spelled_lex _ _ Hs). apply pdf_indirect_object; assumption.
Qed.

(* ---------- every value has a spelling ------------------------------------------------------------------------------- *)
Definition bytes_ok (l : list Z) : Prop := Forall (fun b => 0 <= b < 256) l.
Definition real_form (sp : list Z) : Prop :=
  exists sg d1 d2, sp = sign_bytes sg ++ d1 ++ 46 :: d2 /\ forallb isdigit d1 = true /\ forallb isdigit d2 = true /\ d1 ++ d2 <> [].

(* the byte-level side conditions on a value: names and strings are byte strings, reals are spelled as reals *)
Fixpoint bwf (v : value) : Prop :=
  match v with
  | VReal sp => real_form sp
  | VName n => bytes_ok n
  | VStr s => bytes_ok s
  | VArr l => (fix go (l : list value) : Prop := match l with [] => True | x :: r => bwf x /\ go r end) l
  | VDict d => (fix go (d : list (list Z * value)) : Prop :=
                  match d with [] => True | kv :: r => (bytes_ok (fst kv) /\ bwf (snd kv)) /\ go r end) d
  | _ => True
  end.
Lemma bwf_arr l : bwf (VArr l) <-> Forall bwf l.
Proof.
  induction l as [|x r IH]; cbn; [split; auto|]. split; intros H.
  - destruct H as [Hx Hr]. constructor; [exact Hx|]. apply IH. exact Hr.
  - inversion H; subst. split; [assumption|]. apply IH. assumption.
Qed.
Lemma bwf_dict d : bwf (VDict d) <-> Forall (fun kv => bytes_ok (fst kv) /\ bwf (snd kv)) d.
Proof.
  induction d as [|x r IH]; cbn; [split; auto|]. split; intros H.
  - destruct H as [Hx Hr]. constructor; [exact Hx|]. apply IH. exact Hr.
  - inversion H; subst. split; [assumption|]. apply IH. assumption.
Qed.

(* a token has a spelling after which a space may follow *)
Definition tok_ok (t : token) : Prop :=
  exists s, self_tok t s \/ exists P, reg_tok t s P /\ P 32.

Lemma ok_int z : tok_ok (TInt z).
Proof.
  destruct (every_integer_has_a_spelling z) as (sg & ds & Hne & Hd & Hv). exists (sign_bytes sg ++ ds). right.
  exists idelim. split; [rewrite <- Hv; constructor; assumption|split; [reflexivity|lia]].
Qed.
Lemma ok_name n : bytes_ok n -> tok_ok (TLit n).
Proof.
  intros H. destruct (every_name_has_a_spelling n H) as (ps & Hps & Hv). exists (47 :: flat_map nrender ps). right.
  exists ndelim. split; [rewrite <- Hv; constructor; exact Hps|split; [reflexivity|lia]].
Qed.
Lemma ok_str s : bytes_ok s -> tok_ok (TStr s).
Proof.
  intros H. destruct (every_string_has_a_spelling s H) as (ps & Hps & Hv). exists (40 :: flat_map render ps ++ [41]). left.
  rewrite <- Hv. constructor. exact Hps.
Qed.
Lemma ok_real sp : real_form sp -> tok_ok (TReal sp).
Proof.
  intros (sg & d1 & d2 & -> & H1 & H2 & Hne). eexists. right. eexists. split; [constructor; assumption|reflexivity].
Qed.
Lemma ok_kw (c : Z) (kw : list Z) t : isalpha c = true -> forallb (fun x => negb (re_END_KEYWORD x)) kw = true ->
  keyword_token (c :: kw) = t -> tok_ok t.
Proof.
  intros Hc Hk <-. exists (c :: kw). right. eexists. split; [constructor; assumption|reflexivity].
Qed.
Lemma ok_bool b : tok_ok (TBool b).
Proof. destruct b; [apply (ok_kw 116 [114; 117; 101])|apply (ok_kw 102 [97; 108; 115; 101])]; reflexivity. Qed.
Lemma ok_null : tok_ok (TKw K_null).
Proof. apply (ok_kw 110 [117; 108; 108]); reflexivity. Qed.
Lemma ok_R : tok_ok (TKw K_R).
Proof. apply (ok_kw 82 []); reflexivity. Qed.
Lemma ok_bracket c : c = 91 \/ c = 93 -> tok_ok (TKw [c]).
Proof. intros H. exists [c]. left. constructor. tauto. Qed.
Lemma ok_dopen : tok_ok (TKw [60; 60]).
Proof. exists [60; 60]. left. constructor. Qed.
Lemma ok_dclose : tok_ok (TKw [62; 62]).
Proof. exists [62; 62]. left. constructor. Qed.

Lemma tprint_tokens_ok : forall v, wfv v -> bwf v -> Forall tok_ok (tprint v).
Proof.
  induction v using value_ind2; intros Hw Hb; cbn [tprint].
  - constructor; [apply ok_null|constructor].
  - constructor; [apply ok_bool|constructor].
  - constructor; [apply ok_int|constructor].
  - constructor; [apply ok_real; exact Hb|constructor].
  - constructor; [apply ok_name; exact Hb|constructor].
  - constructor; [apply ok_str; exact Hb|constructor].
  - apply wfv_arr in Hw. apply bwf_arr in Hb. constructor; [apply ok_bracket; auto|].
    apply Forall_app. split; [|constructor; [apply ok_bracket; auto|constructor]].
    apply Forall_forall. intros t Ht. apply in_flat_map in Ht. destruct Ht as (x & Hx & Ht).
    rewrite Forall_forall in H, Hw, Hb. specialize (H x Hx (Hw x Hx) (Hb x Hx)). rewrite Forall_forall in H. apply H. exact Ht.
  - apply wfv_dict in Hw. apply bwf_dict in Hb. constructor; [apply ok_dopen|].
    apply Forall_app. split; [|constructor; [apply ok_dclose|constructor]].
    apply Forall_forall. intros t Ht. apply in_flat_map in Ht. destruct Ht as (kv & Hx & Ht).
    rewrite Forall_forall in H, Hw, Hb. destruct (Hb kv Hx) as [Hk Hbv]. cbn [In] in Ht. destruct Ht as [<-|Ht].
    + apply ok_name. exact Hk.
    + specialize (H kv Hx (Hw kv Hx) Hbv). rewrite Forall_forall in H. apply H. exact Ht.
  - constructor; [apply ok_int|constructor; [apply ok_int|constructor; [apply ok_R|constructor]]].
  - contradiction.
Qed.

Lemma spelled_exists : forall ts, Forall tok_ok ts -> exists bytes, spelled ts bytes.
Proof.
  induction ts as [|t ts IH]; intros H; [exists []; constructor|].
  inversion H as [|? ? (s & Hs) Hts]; subst. destruct (IH Hts) as (rest & Hr).
  exists (s ++ 32 :: rest).
  assert (Hws : spelled ts (32 :: rest)) by (apply sp_ws; [left; reflexivity|exact Hr]).
  destruct Hs as [Hs|(P & Hs & HP)].
  - apply sp_self; assumption.
  - apply (sp_reg t s P); [exact Hs|exact HP|exact Hws].
Qed.

Theorem every_value_has_a_spelling v : wfv v -> bwf v -> exists bytes, spelled (tprint v) bytes.
Proof. intros Hw Hb. apply spelled_exists. apply tprint_tokens_ok; assumption. Qed.
