(* Proofs about Model/Plane.v: after any valid operation sequence, find = brute
   force (as a duplicate-free list), iteration = live objects in insertion order. *)
From Coq Require Import ZArith QArith Qround List Bool Lia Lqa.
From PdfV Require Import Base.Num Gen.Geom Model.Plane Proofs.GeomLaws.
Import ListNotations.

(* ---------- arithmetic: floor and the cell range ---------- *)

Lemma Qfloor_unique (x : Q) (z : Z) : (inject_Z z <= x)%Q -> (x < inject_Z (z + 1))%Q -> Qfloor x = z.
Proof.
  intros H1 H2.
  pose proof (Qfloor_le x) as F1. pose proof (Qlt_floor x) as F2.
  assert (A : (inject_Z z < inject_Z (Qfloor x + 1))%Q) by lra.
  assert (B : (inject_Z (Qfloor x) < inject_Z (z + 1))%Q) by lra.
  rewrite <- Zlt_Qlt in A, B. lia.
Qed.

Lemma Qfloor_shift (x : Q) (g : Z) : Qfloor (x + inject_Z g) = (Qfloor x + g)%Z.
Proof.
  apply Qfloor_unique.
  - rewrite inject_Z_plus. pose proof (Qfloor_le x). lra.
  - replace (Qfloor x + g + 1)%Z with ((Qfloor x + 1) + g)%Z by lia.
    rewrite inject_Z_plus. pose proof (Qlt_floor x). lra.
Qed.

Lemma zrange_In a b z : In z (zrange a b) <-> (a <= z < b)%Z.
Proof.
  unfold zrange. rewrite in_map_iff. split.
  - intros (i & <- & Hi). apply in_seq in Hi. lia.
  - intros H. exists (Z.to_nat (z - a)). split; [lia|]. apply in_seq. lia.
Qed.

Definition clampL (X0 X1 a : Q) : Q := nmin QOps (nmax QOps X0 a) X1.
Definition clampU (X0 X1 b : Q) : Q := nmax QOps (nmin QOps X1 b) X0.
Definition lo1 (X0 X1 : Q) (g : Z) (a : Q) : Z := (Qfloor (clampL X0 X1 a) / g)%Z.
Definition hi1 (X0 X1 : Q) (g : Z) (b : Q) : Z := (Qfloor (clampU X0 X1 b + inject_Z g) / g)%Z.

Lemma clamp_le X0 X1 a b : (X0 <= X1)%Q -> (a <= b)%Q -> (clampL X0 X1 a <= clampU X0 X1 b)%Q.
Proof.
  intros HX Hab. unfold clampL, clampU.
  destruct (nmax_Q_spec X0 a) as (A1 & A2 & A3).
  destruct (nmin_Q_spec (nmax QOps X0 a) X1) as (B1 & B2 & B3).
  destruct (nmin_Q_spec X1 b) as (C1 & C2 & C3).
  destruct (nmax_Q_spec (nmin QOps X1 b) X0) as (D1 & D2 & D3).
  destruct A3 as [A3 | A3], C3 as [C3 | C3]; rewrite A3 in *; rewrite C3 in *; lra.
Qed.

Lemma lo_lt_hi X0 X1 g a b :
  (X0 <= X1)%Q -> (0 < g)%Z -> (a <= b)%Q -> (lo1 X0 X1 g a < hi1 X0 X1 g b)%Z.
Proof.
  intros HX Hg Hab. unfold lo1, hi1.
  rewrite Qfloor_shift.
  replace (Qfloor (clampU X0 X1 b) + g)%Z with (Qfloor (clampU X0 X1 b) + 1 * g)%Z by lia.
  rewrite Z.div_add by lia.
  pose proof (Qfloor_resp_le _ _ (clamp_le X0 X1 a b HX Hab)) as F.
  pose proof (Z.div_le_mono _ _ g Hg F). lia.
Qed.

(* two strictly overlapping, well-formed intervals share a grid index *)
Lemma share_1d X0 X1 g a b c d :
  (X0 <= X1)%Q -> (0 < g)%Z -> (a <= b)%Q -> (c <= d)%Q -> (c < b)%Q -> (a < d)%Q ->
  exists z, (lo1 X0 X1 g a <= z < hi1 X0 X1 g b)%Z /\ (lo1 X0 X1 g c <= z < hi1 X0 X1 g d)%Z.
Proof.
  intros HX Hg Hab Hcd Hcb Had.
  pose proof (lo_lt_hi X0 X1 g a b HX Hg Hab).
  pose proof (lo_lt_hi X0 X1 g c d HX Hg Hcd).
  assert (lo1 X0 X1 g a < hi1 X0 X1 g d)%Z by (apply lo_lt_hi; auto; lra).
  assert (lo1 X0 X1 g c < hi1 X0 X1 g b)%Z by (apply lo_lt_hi; auto; lra).
  exists (Z.max (lo1 X0 X1 g a) (lo1 X0 X1 g c)). lia.
Qed.

(* ---------- getrange ---------- *)

Definition wf_box (b : box) : Prop := let '(x0, y0, x1, y1) := b in (x0 <= x1 /\ y0 <= y1)%Q.
Definition wf_bounds (pb : @PlaneB Q) : Prop :=
  (PlaneB_x0 pb <= PlaneB_x1 pb)%Q /\ (PlaneB_y0 pb <= PlaneB_y1 pb)%Q /\ (0 < PlaneB_gridsize pb)%Z.

Lemma getrange_In pb b gx gy :
  let '(x0, y0, x1, y1) := b in
  In (gx, gy) (getrange pb b) <->
  (lo1 (PlaneB_x0 pb) (PlaneB_x1 pb) (PlaneB_gridsize pb) x0 <= gx
   < hi1 (PlaneB_x0 pb) (PlaneB_x1 pb) (PlaneB_gridsize pb) x1)%Z /\
  (lo1 (PlaneB_y0 pb) (PlaneB_y1 pb) (PlaneB_gridsize pb) y0 <= gy
   < hi1 (PlaneB_y0 pb) (PlaneB_y1 pb) (PlaneB_gridsize pb) y1)%Z.
Proof.
  destruct b as [[[x0 y0] x1] y1].
  unfold getrange, Plane_getrange_clip, drange. cbn [nfloor nadd nofZ QOps].
  rewrite in_flat_map. split.
  - intros (y & Hy & Hin). apply in_map_iff in Hin. destruct Hin as (x & E & Hx).
    inversion E; subst. apply zrange_In in Hy. apply zrange_In in Hx.
    unfold lo1, hi1, clampL, clampU. split; assumption.
  - intros [Hx Hy]. exists gy. split.
    + apply zrange_In. exact Hy.
    + apply in_map_iff. exists gx. split; auto. apply zrange_In. exact Hx.
Qed.

Definition overlaps (ob qb : box) : Prop := no_overlap ob qb = false.

Lemma share_cell pb ob qb :
  wf_bounds pb -> wf_box ob -> wf_box qb -> overlaps ob qb ->
  exists k, In k (getrange pb ob) /\ In k (getrange pb qb).
Proof.
  intros (HX & HY & Hg) Hob Hqb Hov.
  destruct ob as [[[a0 b0] a1] b1]. destruct qb as [[[c0 d0] c1] d1].
  unfold overlaps, no_overlap in Hov. cbn in Hob, Hqb.
  apply orb_false_iff in Hov. destruct Hov as [Hov H4].
  apply orb_false_iff in Hov. destruct Hov as [Hov H3].
  apply orb_false_iff in Hov. destruct Hov as [H1 H2].
  apply Qleb_gt in H1, H2, H3, H4.
  destruct Hob as [Ha Hb]. destruct Hqb as [Hc Hd].
  destruct (share_1d _ _ _ a0 a1 c0 c1 HX Hg Ha Hc H1 H2) as (gx & Gx1 & Gx2).
  destruct (share_1d _ _ _ b0 b1 d0 d1 HY Hg Hb Hd H3 H4) as (gy & Gy1 & Gy2).
  exists (gx, gy). split.
  - apply (getrange_In pb (a0, b0, a1, b1) gx gy). split; assumption.
  - apply (getrange_In pb (c0, d0, c1, d1) gx gy). split; assumption.
Qed.

(* ---------- small list facts ---------- *)

Lemma mem_nat_In n l : mem_nat n l = true <-> In n l.
Proof.
  unfold mem_nat. rewrite existsb_exists. split.
  - intros (x & Hx & E). apply Nat.eqb_eq in E. subst. exact Hx.
  - intros H. exists n. split; auto. apply Nat.eqb_refl.
Qed.

Lemma mem_nat_nIn n l : mem_nat n l = false <-> ~ In n l.
Proof.
  rewrite <- mem_nat_In. destruct (mem_nat n l); split; intros; congruence.
Qed.

Lemma cell_eqb_eq a b : cell_eqb a b = true <-> a = b.
Proof.
  destruct a, b. unfold cell_eqb. cbn. rewrite andb_true_iff, !Z.eqb_eq. split.
  - intros [-> ->]. reflexivity.
  - intros E. inversion E. auto.
Qed.

Lemma mem_cell_In k ks : mem_cell k ks = true <-> In k ks.
Proof.
  unfold mem_cell. rewrite existsb_exists. split.
  - intros (x & Hx & E). apply cell_eqb_eq in E. subst. exact Hx.
  - intros H. exists k. split; auto. apply cell_eqb_eq. reflexivity.
Qed.

Lemma remove_nat_In i j l : NoDup l -> (In j (remove_nat i l) <-> In j l /\ j <> i).
Proof.
  induction l as [|x l IH]; cbn; intros ND.
  - tauto.
  - inversion ND as [|? ? Hx ND']; subst.
    destruct (Nat.eqb x i) eqn:E.
    + apply Nat.eqb_eq in E. subst. split.
      * intros H. split; auto. intros ->. contradiction.
      * intros [[->|H] Hne]; [congruence | exact H].
    + apply Nat.eqb_neq in E. cbn. rewrite IH by assumption. split.
      * intros [->|[H Hne]]; auto.
      * intros [[->|H] Hne]; auto.
Qed.

Lemma remove_nat_NoDup i l : NoDup l -> NoDup (remove_nat i l).
Proof.
  induction l as [|x l IH]; cbn; intros ND; auto.
  inversion ND as [|? ? Hx ND']; subst.
  destruct (Nat.eqb x i); auto. constructor; auto.
  intro H. apply remove_nat_In in H; auto. tauto.
Qed.

Lemma remove_first_In i o l :
  NoDup (map oid l) -> (In o (remove_first i l) <-> In o l /\ oid o <> i).
Proof.
  induction l as [|x l IH]; cbn; intros ND.
  - tauto.
  - inversion ND as [|? ? Hx ND']; subst.
    destruct (Nat.eqb (oid x) i) eqn:E.
    + apply Nat.eqb_eq in E. split.
      * intros H. split; auto. intros Hi. apply Hx. rewrite E, <- Hi. apply in_map. exact H.
      * intros [[->|H] Hne]; [congruence | exact H].
    + apply Nat.eqb_neq in E. cbn. rewrite IH by assumption. split.
      * intros [->|[H Hne]]; auto.
      * intros [[->|H] Hne]; auto.
Qed.

Lemma remove_first_NoDup i l : NoDup (map oid l) -> NoDup (map oid (remove_first i l)).
Proof.
  induction l as [|x l IH]; cbn; intros ND; auto.
  inversion ND as [|? ? Hx ND']; subst.
  destruct (Nat.eqb (oid x) i); auto. cbn. constructor; auto.
  intro H. apply in_map_iff in H. destruct H as (o & Ho & Hin).
  apply remove_first_In in Hin; auto. apply Hx. rewrite <- Ho. apply in_map. tauto.
Qed.

Lemma NoDup_app_single {A} (l : list A) (x : A) : NoDup l -> ~ In x l -> NoDup (l ++ [x]).
Proof.
  intros ND Hx. induction l as [|y l IH]; cbn.
  - constructor; auto.
  - inversion ND as [|? ? Hy ND']; subst. constructor.
    + rewrite in_app_iff. cbn. intros [H | [H | []]]; auto. subst. apply Hx. left. reflexivity.
    + apply IH; auto. intro H. apply Hx. right. exact H.
Qed.

(* ---------- the invariant ---------- *)

Record Inv (p : plane) : Prop := {
  inv_bounds : wf_bounds (pbounds p);
  inv_seq_nodup : NoDup (map oid (pseq p));
  inv_seq_wf : forall o, In o (pseq p) -> wf_box (obox o);
  inv_live_nodup : NoDup (plive p);
  inv_live_seq : forall i, In i (plive p) -> In i (map oid (pseq p));
  inv_grid : forall k o, In o (pgrid p k) <->
                         In o (pseq p) /\ In (oid o) (plive p) /\ In k (getrange (pbounds p) (obox o));
  inv_cell_nodup : forall k, NoDup (map oid (pgrid p k))
}.

Lemma Inv_init pb : wf_bounds pb -> Inv (plane_init pb).
Proof.
  intros H. constructor; cbn; auto; try constructor; try tauto.
Qed.

(* the property's domain: insert a fresh well-formed object, remove a live one
   (the very object that was inserted) *)
Definition valid_op (p : plane) (op : pop) : Prop :=
  match op with
  | PAdd o => ~ In (oid o) (map oid (pseq p)) /\ wf_box (obox o)
  | PRemove o => In o (pseq p) /\ In (oid o) (plive p)
  end.

Lemma Inv_add p o : Inv p -> valid_op p (PAdd o) -> Inv (plane_add p o).
Proof.
  intros I [Hfresh Hwf]. destruct I as [Ib Isn Iwf Iln Ils Ig Icn].
  assert (Hnl : ~ In (oid o) (plive p)) by (intro H; apply Hfresh, Ils, H).
  unfold plane_add. apply mem_nat_nIn in Hnl as Hm. rewrite Hm.
  constructor; cbn [pbounds pseq plive pgrid].
  - exact Ib.
  - rewrite map_app. cbn. apply NoDup_app_single; auto.
  - intros x Hx. apply in_app_or in Hx. destruct Hx as [Hx | [<- | []]]; auto.
  - apply NoDup_app_single; auto.
  - intros i Hi. rewrite map_app. apply in_or_app. apply in_app_or in Hi.
    destruct Hi as [Hi | [<- | []]]; [left; auto | right; cbn; auto].
  - intros k x. destruct (mem_cell k (getrange (pbounds p) (obox o))) eqn:E.
    + apply mem_cell_In in E. rewrite in_app_iff, Ig, !in_app_iff. cbn. split.
      * intros [(H1 & H2 & H3) | [<- | []]]; auto 6.
      * intros ([H1 | [<- | []]] & H2 & H3); auto.
        destruct H2 as [H2 | [H2 | []]]; auto.
        exfalso. apply Hfresh. rewrite H2. apply in_map. exact H1.
    + rewrite Ig, !in_app_iff. cbn. split.
      * intros (H1 & H2 & H3); auto.
      * intros ([H1 | [<- | []]] & H2 & H3).
        -- destruct H2 as [H2 | [H2 | []]]; auto.
           exfalso. apply Hfresh. rewrite H2. apply in_map. exact H1.
        -- apply mem_cell_In in H3. congruence.
  - intros k. destruct (mem_cell k (getrange (pbounds p) (obox o))); auto.
    rewrite map_app. cbn. apply NoDup_app_single; auto.
    intro H. apply in_map_iff in H. destruct H as (x & Hx & Hin).
    apply Ig in Hin. apply Hnl. rewrite <- Hx. tauto.
Qed.

Lemma Inv_remove p o p' : Inv p -> valid_op p (PRemove o) -> plane_remove p o = Some p' -> Inv p'.
Proof.
  intros I [Hin Hlive] E. destruct I as [Ib Isn Iwf Iln Ils Ig Icn].
  unfold plane_remove in E. apply mem_nat_In in Hlive as Hm. rewrite Hm in E.
  inversion E; subst; clear E.
  constructor; cbn [pbounds pseq plive pgrid]; auto.
  - apply remove_nat_NoDup; auto.
  - intros i Hi. apply remove_nat_In in Hi; auto. apply Ils. tauto.
  - intros k x. destruct (mem_cell k (getrange (pbounds p) (obox o))) eqn:Ek.
    + rewrite remove_first_In by apply Icn. rewrite Ig, remove_nat_In by assumption. tauto.
    + rewrite Ig, remove_nat_In by assumption. split.
      * intros (H1 & H2 & H3). repeat split; auto. intros Hid.
        assert (x = o).
        { clear - Isn H1 Hin Hid. induction (pseq p) as [|y l IH]; [contradiction|].
          cbn in Isn. inversion Isn as [|? ? Hy ND]; subst.
          destruct H1 as [->|H1], Hin as [->|Hin]; auto.
          - exfalso. apply Hy. rewrite Hid. apply in_map. exact Hin.
          - exfalso. apply Hy. rewrite <- Hid. apply in_map. exact H1. }
        subst x. apply mem_cell_In in H3. congruence.
      * tauto.
  - intros k. destruct (mem_cell k (getrange (pbounds p) (obox o))); auto.
    apply remove_first_NoDup; auto.
Qed.

Fixpoint valid_ops (p : plane) (ops : list pop) : Prop :=
  match ops with
  | [] => True
  | op :: r => valid_op p op /\
               match plane_step p op with Some p' => valid_ops p' r | None => False end
  end.

Lemma valid_step_some p op : valid_op p op -> exists p', plane_step p op = Some p'.
Proof.
  destruct op as [o | o]; cbn.
  - eauto.
  - intros [_ H]. unfold plane_remove. apply mem_nat_In in H. rewrite H. eauto.
Qed.

Lemma Inv_step p op p' : Inv p -> valid_op p op -> plane_step p op = Some p' -> Inv p'.
Proof.
  destruct op as [o | o]; cbn; intros I V E.
  - inversion E; subst. apply Inv_add; auto.
  - eapply Inv_remove; eauto.
Qed.

Lemma Inv_run ops : forall p, Inv p -> valid_ops p ops -> exists p', plane_run p ops = Some p' /\ Inv p'.
Proof.
  induction ops as [|op r IH]; cbn; intros p I V.
  - eauto.
  - destruct V as [V1 V2]. destruct (plane_step p op) as [p1|] eqn:E; [|contradiction].
    apply IH; auto. eapply Inv_step; eauto.
Qed.

(* ---------- find ---------- *)

Lemma find_scan_spec qb : forall cands done,
  (forall a b, In a cands -> In b cands -> oid a = oid b -> a = b) ->
  NoDup (map oid (find_scan qb cands done)) /\
  (forall o, In o (find_scan qb cands done) ->
             In o cands /\ ~ In (oid o) done /\ no_overlap (obox o) qb = false) /\
  (forall o, In o cands -> ~ In (oid o) done -> no_overlap (obox o) qb = false ->
             In o (find_scan qb cands done)).
Proof.
  induction cands as [|x r IH]; intros done Hinj.
  - cbn. repeat split; try constructor; intros; contradiction.
  - assert (Hinj' : forall a b, In a r -> In b r -> oid a = oid b -> a = b)
      by (intros a b Ha Hb; apply Hinj; right; assumption).
    cbn [find_scan]. destruct (mem_nat (oid x) done) eqn:Ed.
    + apply mem_nat_In in Ed. destruct (IH done Hinj') as (N & S & C).
      split; [exact N|]. split.
      * intros o Ho. destruct (S o Ho) as (A1 & A2 & A3). repeat split; auto. right; auto.
      * intros o [<- | Ho] Hnd Hov; [contradiction|]. apply C; auto.
    + apply mem_nat_nIn in Ed.
      destruct (IH (oid x :: done) Hinj') as (N & S & C).
      destruct (no_overlap (obox x) qb) eqn:Eo.
      * split; [exact N|]. split.
        -- intros o Ho. destruct (S o Ho) as (A1 & A2 & A3). repeat split; auto.
           ++ right; auto.
           ++ intro H. apply A2. right. exact H.
        -- intros o [<- | Ho] Hnd Hov; [congruence|]. apply C; auto.
           intros [H | H]; [|contradiction].
           assert (x = o) by (apply Hinj; [left | right |]; auto). subst. congruence.
      * split; [|split].
        -- cbn. constructor; auto. intro H. apply in_map_iff in H.
           destruct H as (o & Ho & Hin). destruct (S o Hin) as (_ & A2 & _).
           apply A2. left. auto.
        -- intros o [<- | Ho]; [repeat split; auto; left; auto|].
           destruct (S o Ho) as (A1 & A2 & A3). repeat split; auto.
           ++ right; auto.
           ++ intro H. apply A2. right. exact H.
        -- intros o [<- | Ho] Hnd Hov; [left; auto|].
           destruct (Nat.eq_dec (oid x) (oid o)) as [E | NE].
           ++ left. apply Hinj; [left | right |]; auto.
           ++ right. apply C; auto. intros [H | H]; auto.
Qed.

Lemma seq_inj p : Inv p -> forall a b, In a (pseq p) -> In b (pseq p) -> oid a = oid b -> a = b.
Proof.
  intros I. pose proof (inv_seq_nodup p I) as ND. clear I.
  induction (pseq p) as [|y l IH]; intros a b Ha Hb E; [contradiction|].
  cbn in ND. inversion ND as [|? ? Hy ND']; subst.
  destruct Ha as [->|Ha], Hb as [->|Hb]; auto.
  - exfalso. apply Hy. rewrite E. apply in_map. exact Hb.
  - exfalso. apply Hy. rewrite <- E. apply in_map. exact Ha.
Qed.

(* find = brute force: no duplicates, and membership is exactly
   "live and strictly overlapping the query" *)
Lemma find_bruteforce p qb :
  Inv p -> wf_box qb ->
  NoDup (map oid (plane_find p qb)) /\
  forall o, In o (plane_find p qb) <->
            In o (pseq p) /\ In (oid o) (plive p) /\ overlaps (obox o) qb.
Proof.
  intros I Hq. unfold plane_find.
  set (cands := flat_map (pgrid p) (getrange (pbounds p) qb)).
  assert (Hc : forall o, In o cands -> In o (pseq p)).
  { intros o Ho. apply in_flat_map in Ho. destruct Ho as (k & _ & Ho).
    apply (inv_grid p I) in Ho. tauto. }
  assert (Hinj : forall a b, In a cands -> In b cands -> oid a = oid b -> a = b).
  { intros a b Ha Hb. apply (seq_inj p I); auto. }
  destruct (find_scan_spec qb cands [] Hinj) as (N & S & C).
  split; [exact N|]. intros o. split.
  - intros Ho. destruct (S o Ho) as (A1 & _ & A3).
    apply in_flat_map in A1. destruct A1 as (k & Hk & Hg).
    apply (inv_grid p I) in Hg. unfold overlaps. tauto.
  - intros (H1 & H2 & H3). apply C; auto.
    destruct (share_cell (pbounds p) (obox o) qb) as (k & K1 & K2); auto.
    + apply (inv_bounds p I).
    + apply (inv_seq_wf p I); auto.
    + apply in_flat_map. exists k. split; auto. apply (inv_grid p I). auto.
Qed.

(* the order in which find reports is the order of first occurrence in the
   scanned cells; the theorem above fixes the result as a set without
   repetition, which is what the property states. *)

Theorem find_after_ops pb ops qb :
  wf_bounds pb -> valid_ops (plane_init pb) ops -> wf_box qb ->
  exists p, plane_run (plane_init pb) ops = Some p /\
    NoDup (map oid (plane_find p qb)) /\
    forall o, In o (plane_find p qb) <->
              In o (pseq p) /\ In (oid o) (plive p) /\ overlaps (obox o) qb.
Proof.
  intros Hb V Hq.
  destruct (Inv_run ops (plane_init pb) (Inv_init pb Hb) V) as (p & E & I).
  exists p. split; auto. apply find_bruteforce; auto.
Qed.

(* ---------- iteration ---------- *)

(* abstract history semantics: the list of inserted objects in order, and the
   set of removed ids *)
Fixpoint inserted (ops : list pop) : list obj :=
  match ops with
  | [] => []
  | PAdd o :: r => o :: inserted r
  | PRemove _ :: r => inserted r
  end.

Fixpoint removed (ops : list pop) : list nat :=
  match ops with
  | [] => []
  | PAdd _ :: r => removed r
  | PRemove o :: r => oid o :: removed r
  end.

Lemma run_seq ops : forall p p', plane_run p ops = Some p' -> pseq p' = pseq p ++ inserted ops.
Proof.
  induction ops as [|op r IH]; cbn; intros p p' E.
  - inversion E. rewrite app_nil_r. reflexivity.
  - destruct op as [o | o]; cbn in E.
    + rewrite (IH _ _ E). cbn. rewrite <- app_assoc. reflexivity.
    + destruct (plane_remove p o) as [p1|] eqn:E1; [|discriminate].
      rewrite (IH _ _ E). unfold plane_remove in E1.
      destruct (mem_nat (oid o) (plive p)); inversion E1; subst. reflexivity.
Qed.

Lemma run_live ops : forall p p', Inv p -> valid_ops p ops -> plane_run p ops = Some p' ->
  forall i, In i (plive p') <->
            (In i (plive p) \/ In i (map oid (inserted ops))) /\ ~ In i (removed ops).
Proof.
  induction ops as [|op r IH]; cbn; intros p p' I V E i.
  - inversion E; subst. tauto.
  - destruct V as [V1 V2]. destruct (plane_step p op) as [p1|] eqn:E1; [|contradiction].
    pose proof (Inv_step _ _ _ I V1 E1) as I1.
    pose proof (run_seq _ _ _ E) as Hseq.
    pose proof (Inv_run r p1 I1 V2) as (p2 & E2 & I2). rewrite E in E2. inversion E2; subst p2.
    rewrite (IH _ _ I1 V2 E i). destruct op as [o | o]; cbn in E1 |- *.
    + inversion E1; subst p1. cbn [plane_add plive].
      destruct V1 as [Hfresh _].
      destruct (mem_nat (oid o) (plive p)) eqn:Em.
      * apply mem_nat_In in Em. exfalso. apply Hfresh. apply (inv_live_seq p I). exact Em.
      * rewrite in_app_iff. cbn. tauto.
    + unfold plane_remove in E1. destruct V1 as [Hin Hl]. apply mem_nat_In in Hl as Hm.
      rewrite Hm in E1. inversion E1; subst p1. cbn [plive].
      rewrite remove_nat_In by apply (inv_live_nodup p I).
      (* an id removed now is never inserted later: ids are fresh *)
      assert (Hlater : ~ In (oid o) (map oid (inserted r))).
      { intro H. pose proof (inv_seq_nodup p' I2) as ND. rewrite Hseq in ND. cbn [pseq] in ND.
        rewrite map_app in ND. clear - ND H Hin.
        induction (pseq p) as [|y l IHl]; [contradiction|]. cbn in ND.
        inversion ND as [|? ? Hy ND']; subst. destruct Hin as [-> | Hin]; auto.
        apply Hy. apply in_or_app. right. exact H. }
      destruct (Nat.eq_dec (oid o) i) as [Ei | NE].
      * subst i. split; intros [A B]; exfalso; tauto.
      * assert (i <> oid o) by congruence. tauto.
Qed.

Theorem iter_after_ops pb ops :
  wf_bounds pb -> valid_ops (plane_init pb) ops ->
  exists p, plane_run (plane_init pb) ops = Some p /\
    plane_iter p = filter (fun o => negb (mem_nat (oid o) (removed ops))) (inserted ops) /\
    NoDup (map oid (plane_iter p)).
Proof.
  intros Hb V.
  destruct (Inv_run ops (plane_init pb) (Inv_init pb Hb) V) as (p & E & I).
  exists p. split; auto.
  pose proof (run_seq _ _ _ E) as Hseq. cbn in Hseq.
  pose proof (run_live _ _ _ (Inv_init pb Hb) V E) as Hlive. cbn in Hlive.
  unfold plane_iter. rewrite Hseq. split.
  - apply filter_ext_in. intros o Ho.
    destruct (mem_nat (oid o) (plive p)) eqn:E1, (mem_nat (oid o) (removed ops)) eqn:E2; cbn; auto.
    + apply mem_nat_In in E1, E2. apply Hlive in E1. tauto.
    + apply mem_nat_nIn in E1, E2. exfalso. apply E1. apply Hlive. split; auto.
      right. apply in_map. exact Ho.
  - pose proof (inv_seq_nodup p I) as ND. rewrite Hseq in ND.
    clear - ND. induction (inserted ops) as [|y l IH]; cbn; [constructor|].
    cbn in ND. inversion ND as [|? ? Hy ND']; subst.
    destruct (mem_nat (oid y) (plive p)); auto. cbn. constructor; auto.
    intro H. apply Hy. apply in_map_iff in H. destruct H as (x & Hx & Hin).
    apply filter_In in Hin. rewrite <- Hx. apply in_map. tauto.
Qed.
