(* C01: byte spellings of hexadecimal strings, names and integers read back as the value (on the byte automaton that
   C14 proves equal to the chunked parser for every buffer size). *)
From Coq Require Import ZArith List Bool Lia ZifyBool.
From PdfV Require Import Gen.LexClasses Model.Lexer Proofs.LexerProofs Proofs.SpellingProofs.
Import ListNotations.
Open Scope Z_scope.

Lemma hex_not_spc c : re_HEX c = true -> re_SPC c = false.
Proof. unfold re_HEX, re_SPC. lia. Qed.
Lemma hex_not_end c : re_HEX c = true -> re_END_HEX_STRING c = false.
Proof. unfold re_HEX, re_END_HEX_STRING. lia. Qed.
Lemma spc_not_end c : re_SPC c = true -> re_END_HEX_STRING c = false.
Proof. unfold re_SPC, re_END_HEX_STRING. lia. Qed.

(* ================= hexadecimal strings ================================================================================= *)
Inductive hpiece := HWs (c : Z) | HByte (h1 h2 : Z) (mid : list Z).
Definition hrender (p : hpiece) : list Z := match p with HWs c => [c] | HByte h1 h2 mid => h1 :: mid ++ [h2] end.
Definition hvalue (p : hpiece) : list Z := match p with HWs _ => [] | HByte h1 h2 _ => [16 * hexval h1 + hexval h2] end.
Definition hwf (p : hpiece) : Prop :=
  match p with
  | HWs c => re_SPC c = true
  | HByte h1 h2 mid => re_HEX h1 = true /\ re_HEX h2 = true /\ forallb re_SPC mid = true
  end.
Definition hdigits (p : hpiece) : list Z := match p with HWs _ => [] | HByte h1 h2 _ => [h1; h2] end.
Definition nbytes (ps : list hpiece) : nat := length (flat_map hvalue ps).

Lemma filter_spc_none mid : forallb re_SPC mid = true -> filter (fun c => negb (re_SPC c)) mid = [].
Proof.
  induction mid as [|c mid IH]; intros H; [reflexivity|]. cbn [forallb] in H. apply andb_true_iff in H. destruct H as [Hc H].
  cbn [filter]. rewrite Hc. cbn [negb]. auto.
Qed.
Lemma filter_hrender ps : Forall hwf ps -> filter (fun c => negb (re_SPC c)) (flat_map hrender ps) = flat_map hdigits ps.
Proof.
  induction ps as [|p ps IH]; intros H; [reflexivity|]. inversion H as [|? ? Hp Hps]; subst.
  cbn [flat_map]. rewrite filter_app, IH by exact Hps. f_equal.
  destruct p as [c|h1 h2 mid]; cbn [hrender hdigits hwf] in *.
  - cbn [filter]. rewrite Hp. reflexivity.
  - destruct Hp as (H1 & H2 & Hm). cbn [filter]. rewrite (hex_not_spc h1 H1). cbn [negb].
    rewrite filter_app, (filter_spc_none mid Hm). cbn [filter app]. rewrite (hex_not_spc h2 H2). reflexivity.
Qed.
Lemma hexpairs_digits : forall ps fuel, (nbytes ps < fuel)%nat -> hexpairs fuel (flat_map hdigits ps) = flat_map hvalue ps.
Proof.
  induction ps as [|p ps IH]; intros fuel Hf.
  - destruct fuel; reflexivity.
  - destruct p as [c|h1 h2 mid]; cbn [flat_map hdigits hvalue app].
    + apply IH. exact Hf.
    + unfold nbytes in Hf. cbn [flat_map hvalue app length] in Hf. destruct fuel as [|fuel]; [lia|].
      cbn [hexpairs]. f_equal. apply IH. unfold nbytes. lia.
Qed.
Lemma length_hdigits ps : length (flat_map hdigits ps) = (2 * nbytes ps)%nat.
Proof.
  unfold nbytes. induction ps as [|p ps IH]; [reflexivity|]. destruct p; cbn [flat_map hdigits hvalue app length]; lia.
Qed.
Lemma hexdecode_spelling ps : Forall hwf ps -> hexdecode (flat_map hrender ps) = flat_map hvalue ps.
Proof.
  intros H. unfold hexdecode. rewrite (filter_hrender ps H). apply hexpairs_digits. rewrite length_hdigits. lia.
Qed.
Lemma hrender_not_end ps : Forall hwf ps -> forallb (fun c => negb (re_END_HEX_STRING c)) (flat_map hrender ps) = true.
Proof.
  induction ps as [|p ps IH]; intros H; [reflexivity|]. inversion H as [|? ? Hp Hps]; subst.
  cbn [flat_map]. rewrite forallb_app, IH by exact Hps. rewrite andb_true_r.
  destruct p as [c|h1 h2 mid]; cbn [hrender hwf] in *.
  - cbn [forallb]. rewrite (spc_not_end c Hp). reflexivity.
  - destruct Hp as (H1 & H2 & Hm). cbn [forallb]. rewrite (hex_not_end h1 H1). cbn [negb andb].
    rewrite forallb_app. cbn [forallb]. rewrite (hex_not_end h2 H2). cbn [negb andb]. rewrite andb_true_r.
    apply forallb_forall. intros x Hx. rewrite forallb_forall in Hm. rewrite (spc_not_end x (Hm x Hx)). reflexivity.
Qed.

(* < body > from the main state, for a body without terminating bytes *)
Lemma hexstring_run st body : lmode st = MMain -> forallb (fun c => negb (re_END_HEX_STRING c)) body = true ->
  let fin := run st (60 :: body ++ [62]) in
  lmode fin = MWClose /\ toks fin = (apos st, TStr (hexdecode body)) :: toks st.
Proof.
  intros Hm Hb. cbv zeta. rewrite run_cons.
  assert (H0 : lmode (step st 60) = MWOpen /\ cur (step st 60) = [] /\ tpos (step st 60) = apos st /\ toks (step st 60) = toks st).
  { unfold step, step_core. rewrite Hm. unfold step_main, main_dispatch. cbn. auto. }
  destruct H0 as (M0 & C0 & T0 & K0). set (s0 := step st 60) in *. clearbody s0.
  destruct body as [|c body].
  - cbn [app run fold_left]. unfold step, step_core. rewrite M0. unfold step_wopen. cbn.
    unfold step_main, main_dispatch, end_hexstring. cbn. rewrite C0, T0, K0. auto.
  - cbn [forallb] in Hb. apply andb_true_iff in Hb. destruct Hb as [Hc Hb]. apply negb_true_iff in Hc.
    cbn [app]. rewrite run_cons, run_app.
    assert (H1 : lmode (step s0 c) = MHexString /\ cur (step s0 c) = [c] /\ tpos (step s0 c) = apos st /\ toks (step s0 c) = toks st).
    { unfold step, step_core. rewrite M0. unfold step_wopen.
      assert (E : c =? 60 = false) by (unfold re_END_HEX_STRING in Hc; lia). rewrite E.
      unfold step_hexstring. rewrite Hc. cbn. rewrite C0, T0, K0. auto. }
    destruct H1 as (M1 & C1 & T1 & K1). set (s1 := step s0 c) in *. clearbody s1.
    rewrite (run_accum MHexString _ accum_hexstring body s1 M1 Hb).
    cbn [run fold_left]. unfold step, step_core. cbn [lmode adv add_cur set_cur]. rewrite M1.
    unfold step_hexstring. cbn [re_END_HEX_STRING]. replace (re_END_HEX_STRING 62) with true by reflexivity.
    unfold step_main, main_dispatch, end_hexstring. cbn. rewrite C1, T1, K1. auto.
Qed.

Theorem hex_string_token st ps : lmode st = MMain -> Forall hwf ps ->
  let fin := run st (60 :: flat_map hrender ps ++ [62]) in
  lmode fin = MWClose /\ toks fin = (apos st, TStr (flat_map hvalue ps)) :: toks st.
Proof.
  intros Hm Hps. rewrite <- (hexdecode_spelling ps Hps). apply hexstring_run; [exact Hm|apply hrender_not_end; exact Hps].
Qed.

Theorem hex_string_lex pos ps : Forall hwf ps ->
  lex pos (60 :: flat_map hrender ps ++ [62]) = [(pos, TStr (flat_map hvalue ps))].
Proof.
  intros Hps. unfold lex, tokens_of. rewrite run_app.
  destruct (hex_string_token (init pos) ps eq_refl Hps) as [Hm Ht]. cbv zeta in *.
  set (fin := run (init pos) (60 :: flat_map hrender ps ++ [62])) in *. clearbody fin.
  cbn [run fold_left]. unfold step, step_core. rewrite Hm. unfold step_wclose. cbn.
  unfold step_main. cbn. rewrite Ht. reflexivity.
Qed.

(* every byte has the two-digit spelling, in either case *)
Definition hexdigit (upper : bool) (n : Z) : Z := if n <? 10 then 48 + n else if upper then 55 + n else 87 + n.
Definition hex2_good (up1 up2 : bool) (b : Z) : bool :=
  (16 * hexval (hexdigit up1 (b / 16)) + hexval (hexdigit up2 (b mod 16)) =? b)
  && re_HEX (hexdigit up1 (b / 16)) && re_HEX (hexdigit up2 (b mod 16)).
Lemma hex2_sweep : forallb (fun b => hex2_good true true b && hex2_good true false b && hex2_good false true b && hex2_good false false b)
                          (map Z.of_nat (seq 0 256)) = true.
Proof. vm_compute. reflexivity. Qed.
Lemma hex2_ok up1 up2 b : 0 <= b < 256 -> hex2_good up1 up2 b = true.
Proof.
  intros Hb. pose proof hex2_sweep as H. rewrite forallb_forall in H.
  assert (Hin : In b (map Z.of_nat (seq 0 256))).
  { apply in_map_iff. exists (Z.to_nat b). split; [lia|]. apply in_seq. lia. }
  apply H in Hin. apply andb_true_iff in Hin. destruct Hin as [Hin H4]. apply andb_true_iff in Hin. destruct Hin as [Hin H3].
  apply andb_true_iff in Hin. destruct Hin as [H1 H2]. destruct up1, up2; assumption.
Qed.
Theorem every_string_has_a_hex_spelling v : Forall (fun b => 0 <= b < 256) v ->
  exists ps, Forall hwf ps /\ flat_map hvalue ps = v.
Proof.
  intros Hv. exists (map (fun b => HByte (hexdigit true (b / 16)) (hexdigit false (b mod 16)) []) v).
  induction Hv as [|b v Hb Hv [IH1 IH2]]; [split; [constructor|reflexivity]|].
  pose proof (hex2_ok true false b Hb) as H. unfold hex2_good in H.
  apply andb_true_iff in H. destruct H as [H H2]. apply andb_true_iff in H. destruct H as [H0 H1].
  cbn [map flat_map hvalue app]. split.
  - constructor; [cbn [hwf forallb]; auto|exact IH1].
  - rewrite IH2. f_equal. lia.
Qed.

(* ================= names ============================================================================================== *)
Inductive npiece := NRaw (c : Z) | NHex (h1 h2 : Z).
Definition nrender (p : npiece) : list Z := match p with NRaw c => [c] | NHex h1 h2 => [35; h1; h2] end.
Definition nvalue (p : npiece) : list Z := match p with NRaw c => [c] | NHex h1 h2 => [16 * hexval h1 + hexval h2] end.
Definition nwf (p : npiece) : Prop :=
  match p with NRaw c => re_END_LITERAL c = false | NHex h1 h2 => re_HEX h1 = true /\ re_HEX h2 = true end.

Definition LNorm (f : Z * list (Z * token)) (st : lst) (acc : list Z) : Prop :=
  fr st = f /\ lmode st = MLiteral /\ cur st = acc.
Definition LHex (f : Z * list (Z * token)) (st : lst) (acc hs : list Z) : Prop :=
  fr st = f /\ lmode st = MLitHex /\ cur st = acc /\ hexb st = hs.

Lemma hexnum2 h1 h2 : hexnum [h1; h2] = 16 * hexval h1 + hexval h2.
Proof. unfold hexnum. cbn [fold_left]. lia. Qed.
Lemma hex_is_not_hash c : re_HEX c = true -> re_END_LITERAL c = false.
Proof. unfold re_HEX, re_END_LITERAL. lia. Qed.

Lemma l_raw f st acc c : LNorm f st acc -> re_END_LITERAL c = false -> LNorm f (step st c) (acc ++ [c]).
Proof.
  intros (Hf & Hm & Hc) He. unfold step, step_core. rewrite Hm. unfold step_literal. rewrite He.
  unfold LNorm, fr in *. cbn [adv add_cur set_cur lmode cur tpos toks]. rewrite Hc. auto.
Qed.
Lemma l_hash f st acc : LNorm f st acc -> LHex f (step st 35) acc [].
Proof.
  intros (Hf & Hm & Hc). unfold step, step_core. rewrite Hm. unfold step_literal. cbn.
  unfold LHex, fr in *. cbn [adv set_mode set_hex lmode cur tpos toks hexb]. auto.
Qed.
Lemma h_digit f st acc hs c : LHex f st acc hs -> (length hs < 2)%nat -> re_HEX c = true -> LHex f (step st c) acc (hs ++ [c]).
Proof.
  intros (Hf & Hm & Hc & Hh) Hl Hx. unfold step, step_core. rewrite Hm. unfold step_lithex. rewrite Hx, Hh.
  assert (E : len hs <? 2 = true) by (unfold len; lia). rewrite E. cbn [andb].
  unfold LHex, fr in *. cbn [adv set_hex lmode cur tpos toks hexb]. auto.
Qed.
Lemma h2_raw f st acc h1 h2 c : LHex f st acc [h1; h2] -> re_END_LITERAL c = false ->
  LNorm f (step st c) (acc ++ [16 * hexval h1 + hexval h2] ++ [c]).
Proof.
  intros (Hf & Hm & Hc & Hh) He. unfold step, step_core. rewrite Hm. unfold step_lithex. rewrite Hh.
  replace (len [h1; h2] <? 2) with false by reflexivity. rewrite andb_false_r.
  unfold end_lithex. rewrite Hh. cbn [nonempty]. unfold step_literal. rewrite He.
  unfold LNorm, fr in *. cbn [adv add_cur set_cur set_mode lmode cur tpos toks]. rewrite Hc, hexnum2, <- app_assoc. auto.
Qed.
Lemma h2_hash f st acc h1 h2 : LHex f st acc [h1; h2] -> LHex f (step st 35) (acc ++ [16 * hexval h1 + hexval h2]) [].
Proof.
  intros (Hf & Hm & Hc & Hh). unfold step, step_core. rewrite Hm. unfold step_lithex. rewrite Hh.
  replace (len [h1; h2] <? 2) with false by reflexivity. rewrite andb_false_r.
  unfold end_lithex. rewrite Hh. cbn [nonempty]. unfold step_literal.
  replace (re_END_LITERAL 35) with true by reflexivity. replace (35 =? 35) with true by reflexivity.
  unfold LHex, fr in *. cbn [adv add_cur set_cur set_mode set_hex lmode cur tpos toks hexb]. rewrite Hc, hexnum2. auto.
Qed.

(* the name is complete at a delimiter d (any END_LITERAL byte but '#'): the token is emitted and d is then read in the
   main state *)
Definition ndelim (d : Z) : Prop := re_END_LITERAL d = true /\ d <> 35.
Definition completed (f : Z * list (Z * token)) (st' : lst) (t : token) : Prop :=
  lmode st' = MMain /\ toks st' = (fst f, t) :: snd f.
Lemma l_end f st acc d : LNorm f st acc -> ndelim d ->
  exists st', completed f st' (TLit acc) /\ step st d = step st' d.
Proof.
  intros (Hf & Hm & Hc) [Hd H35]. exists (end_literal st). split.
  - unfold completed, end_literal, fr in *. subst f. cbn. rewrite Hc. auto.
  - unfold step at 1, step_core at 1. rewrite Hm. unfold step_literal. rewrite Hd.
    assert (E : d =? 35 = false) by lia. rewrite E. reflexivity.
Qed.
Lemma h2_end f st acc h1 h2 d : LHex f st acc [h1; h2] -> ndelim d ->
  exists st', completed f st' (TLit (acc ++ [16 * hexval h1 + hexval h2])) /\ step st d = step st' d.
Proof.
  intros (Hf & Hm & Hc & Hh) [Hd H35]. exists (end_literal (end_lithex st)). split.
  - unfold completed, end_literal, end_lithex, fr in *. subst f. rewrite Hh, hexnum2.
    cbn [nonempty lmode toks cur tpos set_mode emit add_cur set_cur fst snd]. rewrite Hc. auto.
  - unfold step at 1, step_core at 1. rewrite Hm. unfold step_lithex. rewrite Hh.
    replace (len [h1; h2] <? 2) with false by reflexivity. rewrite andb_false_r.
    unfold step_literal. assert (Hl : lmode (end_lithex st) = MLiteral) by reflexivity.
    rewrite Hd. assert (E : d =? 35 = false) by lia. rewrite E. reflexivity.
Qed.

Inductive npend := NNone | NPend (h1 h2 : Z).
Definition NInv f st a acc : Prop := match a with NNone => LNorm f st acc | NPend h1 h2 => LHex f st acc [h1; h2] end.
Definition nflush a : list Z := match a with NNone => [] | NPend h1 h2 => [16 * hexval h1 + hexval h2] end.
Definition nafter (p : npiece) : npend := match p with NRaw _ => NNone | NHex h1 h2 => NPend h1 h2 end.

Lemma npiece_step f st a acc p : NInv f st a acc -> nwf p ->
  exists acc', NInv f (run st (nrender p)) (nafter p) acc' /\ acc' ++ nflush (nafter p) = (acc ++ nflush a) ++ nvalue p.
Proof.
  intros HI Hwf. destruct p as [c|h1 h2]; cbn [nrender nvalue nwf nafter NInv nflush] in *.
  - cbn [run fold_left]. eexists. split; [|rewrite app_nil_r; reflexivity].
    destruct a as [|g1 g2]; cbn [NInv nflush] in *.
    + rewrite app_nil_r. apply l_raw; assumption.
    + rewrite <- app_assoc. apply h2_raw; assumption.
  - destruct Hwf as [H1 H2]. rewrite !run_cons. cbn [run fold_left].
    exists (acc ++ nflush a). split; [|reflexivity].
    change [h1; h2] with (([] ++ [h1]) ++ [h2]).
    apply h_digit; [apply h_digit; [|cbn; lia|exact H1]|cbn; lia|exact H2].
    destruct a as [|g1 g2]; cbn [NInv nflush] in *; [rewrite app_nil_r; apply l_hash; exact HI|apply h2_hash; exact HI].
Qed.
Lemma npieces_run f : forall ps st a acc, NInv f st a acc -> Forall nwf ps ->
  exists a' acc', NInv f (run st (flat_map nrender ps)) a' acc' /\ acc' ++ nflush a' = (acc ++ nflush a) ++ flat_map nvalue ps.
Proof.
  induction ps as [|p ps IH]; intros st a acc HI Hok.
  - exists a, acc. split; [exact HI|rewrite app_nil_r; reflexivity].
  - inversion Hok as [|? ? Hp Hps]; subst.
    destruct (npiece_step f st a acc p HI Hp) as (acc1 & HI1 & Hv1).
    cbn [flat_map]. rewrite run_app.
    destruct (IH _ _ _ HI1 Hps) as (a' & acc' & HI' & Hv').
    exists a', acc'. split; [exact HI'|]. rewrite Hv', Hv1, <- app_assoc. reflexivity.
Qed.

Lemma open_name st : lmode st = MMain -> LNorm (apos st, toks st) (step st 47) [].
Proof.
  intros Hm. unfold step, step_core. rewrite Hm. unfold step_main, main_dispatch. cbn.
  unfold LNorm, fr. cbn. auto.
Qed.

(* /pieces followed by a delimiter: exactly the name token is added (at the offset of the solidus), and the delimiter is
   then read between tokens *)
Theorem name_token st ps d : lmode st = MMain -> Forall nwf ps -> ndelim d ->
  exists st', lmode st' = MMain /\ toks st' = (apos st, TLit (flat_map nvalue ps)) :: toks st /\
              run st (47 :: flat_map nrender ps ++ [d]) = step st' d.
Proof.
  intros Hm Hps Hd. rewrite run_cons, run_app. cbn [run fold_left].
  destruct (npieces_run _ ps (step st 47) NNone [] (open_name st Hm) Hps) as (a' & acc' & HI & Hv).
  cbn [nflush app] in Hv. rewrite <- Hv.
  destruct a' as [|h1 h2]; cbn [NInv nflush] in *.
  - rewrite app_nil_r. destruct (l_end _ _ _ d HI Hd) as (st' & [Hc1 Hc2] & Hs). exists st'. cbn [fst snd] in *. auto.
  - destruct (h2_end _ _ _ _ _ d HI Hd) as (st' & [Hc1 Hc2] & Hs). exists st'. cbn [fst snd] in *. auto.
Qed.

Theorem name_lex pos ps : Forall nwf ps -> lex pos (47 :: flat_map nrender ps) = [(pos, TLit (flat_map nvalue ps))].
Proof.
  intros Hps. unfold lex, tokens_of.
  assert (Hd : ndelim 10) by (split; [reflexivity|lia]).
  destruct (name_token (init pos) ps 10 eq_refl Hps Hd) as (st' & Hm & Ht & Hr).
  change ((47 :: flat_map nrender ps) ++ [10]) with (47 :: flat_map nrender ps ++ [10]). rewrite Hr.
  unfold step, step_core. rewrite Hm. unfold step_main. cbn. rewrite Ht. reflexivity.
Qed.

(* every byte string is the value of a name spelling (all bytes as #xx) *)
Theorem every_name_has_a_spelling v : Forall (fun b => 0 <= b < 256) v ->
  exists ps, Forall nwf ps /\ flat_map nvalue ps = v.
Proof.
  intros Hv. exists (map (fun b => NHex (hexdigit true (b / 16)) (hexdigit true (b mod 16))) v).
  induction Hv as [|b v Hb Hv [IH1 IH2]]; [split; [constructor|reflexivity]|].
  pose proof (hex2_ok true true b Hb) as H. unfold hex2_good in H.
  apply andb_true_iff in H. destruct H as [H H2]. apply andb_true_iff in H. destruct H as [H0 H1].
  cbn [map flat_map nvalue app]. split.
  - constructor; [cbn [nwf]; auto|exact IH1].
  - rewrite IH2. f_equal. lia.
Qed.

(* ================= integers =========================================================================================== *)
Lemma digits_val_snoc ds d : digits_val (ds ++ [d]) = 10 * digits_val ds + (d - 48).
Proof. unfold digits_val. rewrite fold_left_app. reflexivity. Qed.
Lemma digits_val_zero ds : digits_val (48 :: ds) = digits_val ds.
Proof. reflexivity. Qed.
Lemma digit_not_end c : isdigit c = true -> re_END_NUMBER c = false.
Proof. unfold isdigit, re_END_NUMBER. lia. Qed.

Definition sign_bytes (s : option bool) : list Z := match s with None => [] | Some true => [45] | Some false => [43] end.
Definition sign_apply (s : option bool) (n : Z) : Z := match s with Some true => - n | _ => n end.

Lemma parse_int_spelling s ds : ds <> [] -> forallb isdigit ds = true ->
  parse_int (sign_bytes s ++ ds) = Some (sign_apply s (digits_val ds)).
Proof.
  intros Hne Hd. destruct s as [[|]|]; cbn [sign_bytes app sign_apply].
  - unfold parse_int. cbn. rewrite Hd. destruct ds; [congruence|reflexivity].
  - unfold parse_int. cbn. rewrite Hd. destruct ds; [congruence|reflexivity].
  - destruct ds as [|c ds]; [congruence|]. unfold parse_int. cbn [forallb] in Hd.
    pose proof Hd as Hd'. apply andb_true_iff in Hd'. destruct Hd' as [Hc _].
    assert (E1 : c =? 43 = false) by (unfold isdigit in Hc; lia).
    assert (E2 : c =? 45 = false) by (unfold isdigit in Hc; lia).
    rewrite E1, E2. cbn [forallb]. rewrite Hd. reflexivity.
Qed.

Definition idelim (d : Z) : Prop := re_END_NUMBER d = true /\ d <> 46.

Theorem integer_token st s ds d : lmode st = MMain -> ds <> [] -> forallb isdigit ds = true -> idelim d ->
  exists st', lmode st' = MMain /\ toks st' = (apos st, TInt (sign_apply s (digits_val ds))) :: toks st /\
              run st (sign_bytes s ++ ds ++ [d]) = step st' d.
Proof.
  intros Hm Hne Hd [He H46].
  assert (Hall : forallb (fun c => negb (re_END_NUMBER c)) ds = true).
  { apply forallb_forall. intros x Hx. rewrite forallb_forall in Hd. rewrite (digit_not_end x (Hd x Hx)). reflexivity. }
  set (body := sign_bytes s ++ ds).
  assert (Hbody : exists c rest, body = c :: rest /\ ((c =? 45) || (c =? 43) || isdigit c = true) /\
                                 forallb (fun c => negb (re_END_NUMBER c)) rest = true).
  { subst body. destruct s as [[|]|]; cbn [sign_bytes app].
    - exists 45, ds. auto.
    - exists 43, ds. auto.
    - destruct ds as [|c ds']; [congruence|]. exists c, ds'. cbn [forallb] in Hd, Hall.
      apply andb_true_iff in Hd. apply andb_true_iff in Hall. destruct Hd as [Hc _], Hall as [_ Hr].
      split; [reflexivity|]. split; [rewrite Hc; apply orb_true_r|exact Hr]. }
  destruct Hbody as (c & rest & Hb & Hc & Hrest).
  replace (sign_bytes s ++ ds ++ [d]) with (body ++ [d]) by (subst body; rewrite app_assoc; reflexivity).
  rewrite Hb. cbn [app]. rewrite run_cons, run_app.
  assert (H1 : lmode (step st c) = MNumber /\ cur (step st c) = [c] /\ tpos (step st c) = apos st /\ toks (step st c) = toks st).
  { unfold step, step_core. rewrite Hm. unfold step_main.
    assert (N : re_NONSPC c = true) by (unfold re_NONSPC, isdigit in *; lia). rewrite N.
    unfold main_dispatch.
    assert (E1 : c =? 37 = false) by (unfold isdigit in Hc; lia).
    assert (E2 : c =? 47 = false) by (unfold isdigit in Hc; lia).
    rewrite E1, E2, Hc. cbn. auto. }
  destruct H1 as (M1 & C1 & T1 & K1). set (s1 := step st c) in *. clearbody s1.
  rewrite (run_accum MNumber _ accum_number rest s1 M1 Hrest).
  set (s2 := adv (len rest) (add_cur rest s1)).
  assert (M2 : lmode s2 = MNumber) by (subst s2; cbn; exact M1).
  assert (C2 : cur s2 = body) by (subst s2; cbn; rewrite C1, Hb; reflexivity).
  exists (end_number s2). cbn [run fold_left]. split; [reflexivity|]. split.
  - unfold end_number. rewrite C2. subst body. rewrite (parse_int_spelling s ds Hne Hd).
    subst s2. cbn. rewrite T1, K1. reflexivity.
  - unfold step at 1, step_core at 1. rewrite M2. unfold step_number. rewrite He.
    assert (E : d =? 46 = false) by lia. rewrite E. reflexivity.
Qed.

Theorem integer_lex pos s ds : ds <> [] -> forallb isdigit ds = true ->
  lex pos (sign_bytes s ++ ds) = [(pos, TInt (sign_apply s (digits_val ds)))].
Proof.
  intros Hne Hd. unfold lex, tokens_of.
  assert (Hdl : idelim 10) by (split; [reflexivity|lia]).
  destruct (integer_token (init pos) s ds 10 eq_refl Hne Hd Hdl) as (st' & Hm & Ht & Hr).
  rewrite <- app_assoc, Hr.
  unfold step, step_core. rewrite Hm. unfold step_main. cbn. rewrite Ht. reflexivity.
Qed.

(* every integer has a decimal spelling, and leading zeros do not change it *)
Lemma nat_has_digits : forall n : nat, exists ds, ds <> [] /\ forallb isdigit ds = true /\ digits_val ds = Z.of_nat n.
Proof.
  intros n. induction n as [n IH] using lt_wf_ind.
  destruct (Nat.lt_ge_cases n 10) as [Hs|Hl].
  - exists [48 + Z.of_nat n]. split; [discriminate|]. split; [unfold isdigit; cbn [forallb]; lia|].
    unfold digits_val. cbn [fold_left]. lia.
  - destruct (IH (n / 10)%nat) as (ds & Hne & Hd & Hv); [apply Nat.div_lt; lia|].
    exists (ds ++ [48 + Z.of_nat (n mod 10)]). split; [destruct ds; discriminate|]. split.
    + rewrite forallb_app, Hd. cbn [forallb]. pose proof (Nat.mod_upper_bound n 10). unfold isdigit. lia.
    + rewrite digits_val_snoc, Hv. pose proof (Nat.div_mod_eq n 10). lia.
Qed.
Theorem every_integer_has_a_spelling z : exists s ds, ds <> [] /\ forallb isdigit ds = true /\ sign_apply s (digits_val ds) = z.
Proof.
  destruct (Z_lt_le_dec z 0) as [Hn|Hp].
  - destruct (nat_has_digits (Z.to_nat (- z))) as (ds & H1 & H2 & H3). exists (Some true), ds. cbn [sign_apply]. split; [exact H1|]. split; [exact H2|lia].
  - destruct (nat_has_digits (Z.to_nat z)) as (ds & H1 & H2 & H3). exists None, ds. cbn [sign_apply]. split; [exact H1|]. split; [exact H2|lia].
Qed.
