(* C03: ASCII85 -- the decoder (ascii85decode around the model of base64.a85decode) inverts
   every conforming encoding: full groups, the z shorthand, white space anywhere, a partial final
   group, the ~> end marker (optionally <~ at the start). *)
From Coq Require Import ZArith List Bool Lia.
From PdfV Require Import Model.Filters Proofs.FilterProofs.
Import ListNotations.
Open Scope Z_scope.

Ltac Zify.zify_post_hook ::= Z.to_euclidean_division_equations.

Definition val4 (b0 b1 b2 b3 : Z) : Z := ((b0 * 256 + b1) * 256 + b2) * 256 + b3.

(* base-85 digits, most significant first, as characters *)
Definition d4 (v : Z) : Z := 33 + v / 85 / 85 / 85 / 85.
Definition d3 (v : Z) : Z := 33 + (v / 85 / 85 / 85) mod 85.
Definition d2 (v : Z) : Z := 33 + (v / 85 / 85) mod 85.
Definition d1 (v : Z) : Z := 33 + (v / 85) mod 85.
Definition d0 (v : Z) : Z := 33 + v mod 85.

Lemma digits_value v : 0 <= v < 4294967296 ->
  acc5 [d4 v; d3 v; d2 v; d1 v; d0 v] = v.
Proof. intros H. unfold acc5, d4, d3, d2, d1, d0. cbn [fold_left]. lia. Qed.

Lemma digit_range v : 0 <= v < 4294967296 ->
  (33 <= d4 v <= 117) /\ (33 <= d3 v <= 117) /\ (33 <= d2 v <= 117) /\ (33 <= d1 v <= 117) /\ (33 <= d0 v <= 117).
Proof. intros H. unfold d4, d3, d2, d1, d0. lia. Qed.

Lemma pack4_val b0 b1 b2 b3 : byte b0 -> byte b1 -> byte b2 -> byte b3 ->
  pack4 (val4 b0 b1 b2 b3) = [b0; b1; b2; b3] /\ 0 <= val4 b0 b1 b2 b3 < 4294967296.
Proof.
  unfold byte, pack4, val4. intros H0 H1 H2 H3. split; [|lia].
  f_equal; [lia|]. f_equal; [lia|]. f_equal; [lia|]. f_equal. lia.
Qed.

(* partial final groups: the decoder pads the digits with 'u' (84) *)
Lemma partial1 b0 : byte b0 ->
  let v := val4 b0 0 0 0 in let v' := acc5 [d4 v; d3 v; 117; 117; 117] in
  v' < 4294967296 /\ firstn 1 (pack4 v') = [b0].
Proof.
  unfold byte, val4, acc5, pack4, d4, d3. cbn [fold_left firstn]. intros H. split; [lia|]. f_equal. lia.
Qed.
Lemma partial2 b0 b1 : byte b0 -> byte b1 ->
  let v := val4 b0 b1 0 0 in let v' := acc5 [d4 v; d3 v; d2 v; 117; 117] in
  v' < 4294967296 /\ firstn 2 (pack4 v') = [b0; b1].
Proof.
  unfold byte, val4, acc5, pack4, d4, d3, d2. cbn [fold_left firstn]. intros H0 H1. split; [lia|].
  f_equal; [lia|]. f_equal. lia.
Qed.
Lemma partial3 b0 b1 b2 : byte b0 -> byte b1 -> byte b2 ->
  let v := val4 b0 b1 b2 0 in let v' := acc5 [d4 v; d3 v; d2 v; d1 v; 117] in
  v' < 4294967296 /\ firstn 3 (pack4 v') = [b0; b1; b2].
Proof.
  unfold byte, val4, acc5, pack4, d4, d3, d2, d1. cbn [fold_left firstn]. intros H0 H1 H2. split; [lia|].
  f_equal; [lia|]. f_equal; [lia|]. f_equal. lia.
Qed.

(* ---------- the character loop ------------------------------------------------------------- *)
Definition is_digit85 (x : Z) : Prop := 33 <= x <= 117.

Lemma loop_ws c r dec curr : a85_ignore c = true -> a85_loop (c :: r) dec curr = a85_loop r dec curr.
Proof.
  intros H. cbn [a85_loop]. rewrite H.
  assert (E1 : ((33 <=? c) && (c <=? 117)) = false).
  { unfold a85_ignore in H. rewrite !orb_true_iff, !Z.eqb_eq in H.
    apply andb_false_iff. left. apply Z.leb_gt. lia. }
  assert (E2 : (c =? 122) = false).
  { unfold a85_ignore in H. rewrite !orb_true_iff, !Z.eqb_eq in H. apply Z.eqb_neq. lia. }
  rewrite E1, E2. reflexivity.
Qed.

Lemma loop_digit x r dec curr : is_digit85 x -> (length curr < 4)%nat ->
  a85_loop (x :: r) dec curr = a85_loop r dec (curr ++ [x]).
Proof.
  intros Hx Hl. cbn [a85_loop].
  assert (E1 : ((33 <=? x) && (x <=? 117)) = true) by (unfold is_digit85 in Hx; apply andb_true_iff; split; apply Z.leb_le; lia).
  rewrite E1. assert (E2 : (length (curr ++ [x]) =? 5)%nat = false).
  { apply Nat.eqb_neq. rewrite app_length. cbn [length]. lia. }
  rewrite E2. reflexivity.
Qed.

Lemma loop_digit5 x r dec curr : is_digit85 x -> length curr = 4%nat -> acc5 (curr ++ [x]) < 4294967296 ->
  a85_loop (x :: r) dec curr = a85_loop r (dec ++ pack4 (acc5 (curr ++ [x]))) [].
Proof.
  intros Hx Hl Ha. cbn [a85_loop].
  assert (E1 : ((33 <=? x) && (x <=? 117)) = true) by (unfold is_digit85 in Hx; apply andb_true_iff; split; apply Z.leb_le; lia).
  rewrite E1. assert (E2 : (length (curr ++ [x]) =? 5)%nat = true).
  { apply Nat.eqb_eq. rewrite app_length. cbn [length]. lia. }
  rewrite E2. apply Z.ltb_lt in Ha. rewrite Ha. reflexivity.
Qed.

Lemma loop_five a b c d e r dec :
  is_digit85 a -> is_digit85 b -> is_digit85 c -> is_digit85 d -> is_digit85 e ->
  acc5 [a; b; c; d; e] < 4294967296 ->
  a85_loop (a :: b :: c :: d :: e :: r) dec [] = a85_loop r (dec ++ pack4 (acc5 [a; b; c; d; e])) [].
Proof.
  intros Ha Hb Hc Hd He Hv.
  rewrite (loop_digit a) by (auto; cbn; lia). rewrite (loop_digit b) by (auto; cbn; lia).
  rewrite (loop_digit c) by (auto; cbn; lia). rewrite (loop_digit d) by (auto; cbn; lia).
  cbn [app]. rewrite (loop_digit5 e) by (auto; cbn [app]; auto). reflexivity.
Qed.

(* the digit stream with ignorable white space anywhere *)
Inductive Inter : list Z -> list Z -> Prop :=
| InterNil : Inter [] []
| InterWs : forall c ds t, a85_ignore c = true -> Inter ds t -> Inter ds (c :: t)
| InterD : forall x ds t, a85_ignore x = false -> Inter ds t -> Inter (x :: ds) (x :: t).

Lemma loop_inter ds t : Inter ds t -> forall s dec curr,
  a85_loop (t ++ s) dec curr = a85_loop (ds ++ s) dec curr.
Proof.
  induction 1 as [|c ds t Hc H IH|x ds t Hx H IH]; intros s dec curr.
  - reflexivity.
  - cbn [app]. rewrite loop_ws by exact Hc. apply IH.
  - cbn [app a85_loop]. rewrite Hx.
    destruct ((33 <=? x) && (x <=? 117)).
    + destruct (length (curr ++ [x]) =? 5)%nat; [destruct (acc5 (curr ++ [x]) <? 4294967296)|]; try reflexivity; apply IH.
    + destruct (x =? 122); [destruct curr; [apply IH|reflexivity]|reflexivity].
Qed.

Inductive item := IGroup (b0 b1 b2 b3 : Z) | IZero.
Definition item_ok (i : item) : Prop :=
  match i with IGroup b0 b1 b2 b3 => byte b0 /\ byte b1 /\ byte b2 /\ byte b3 | IZero => True end.
Definition item_digits (i : item) : list Z :=
  match i with
  | IGroup b0 b1 b2 b3 => let v := val4 b0 b1 b2 b3 in [d4 v; d3 v; d2 v; d1 v; d0 v]
  | IZero => [122]
  end.
Definition item_bytes (i : item) : list Z :=
  match i with IGroup b0 b1 b2 b3 => [b0; b1; b2; b3] | IZero => [0; 0; 0; 0] end.

Lemma loop_items items : Forall item_ok items -> forall s dec,
  a85_loop (flat_map item_digits items ++ s) dec [] = a85_loop s (dec ++ flat_map item_bytes items) [].
Proof.
  induction 1 as [|i r Hi Hr IH]; intros s dec.
  - cbn. rewrite app_nil_r. reflexivity.
  - cbn [flat_map]. rewrite <- app_assoc. destruct i as [b0 b1 b2 b3|].
    + destruct Hi as (H0 & H1 & H2 & H3). cbn [item_digits item_bytes app].
      destruct (pack4_val b0 b1 b2 b3 H0 H1 H2 H3) as [Hp Hv].
      destruct (digit_range _ Hv) as (R4 & R3 & R2 & R1 & R0).
      rewrite loop_five by (unfold is_digit85; auto; rewrite digits_value by exact Hv; lia).
      rewrite digits_value by exact Hv. rewrite Hp. rewrite IH. rewrite <- app_assoc. reflexivity.
    + cbn [item_digits item_bytes app a85_loop]. change ((33 <=? 122) && (122 <=? 117)) with false.
      cbn [Z.eqb Pos.eqb]. rewrite IH. rewrite <- app_assoc. reflexivity.
Qed.

(* the final, possibly partial, group *)
Inductive final := F0 | F1 (b0 : Z) | F2 (b0 b1 : Z) | F3 (b0 b1 b2 : Z).
Definition final_ok (f : final) : Prop :=
  match f with F0 => True | F1 a => byte a | F2 a b => byte a /\ byte b | F3 a b c => byte a /\ byte b /\ byte c end.
Definition final_digits (f : final) : list Z :=
  match f with
  | F0 => []
  | F1 a => let v := val4 a 0 0 0 in [d4 v; d3 v]
  | F2 a b => let v := val4 a b 0 0 in [d4 v; d3 v; d2 v]
  | F3 a b c => let v := val4 a b c 0 in [d4 v; d3 v; d2 v; d1 v]
  end.
Definition final_bytes (f : final) : list Z :=
  match f with F0 => [] | F1 a => [a] | F2 a b => [a; b] | F3 a b c => [a; b; c] end.

Definition finish (r : option (list Z * list Z)) : fres :=
  match r with
  | Some (decoded, curr) => FOk (firstn (length decoded - (4 - length curr)) decoded)
  | None => FErr EValue
  end.

Lemma firstn_app_drop {A} (a b : list A) k : (k <= length b)%nat ->
  firstn (length (a ++ b) - (length b - k)) (a ++ b) = a ++ firstn k b.
Proof.
  intros Hk. rewrite app_length. replace (length a + length b - (length b - k))%nat with (length a + k)%nat by lia.
  rewrite firstn_app. replace (length a + k - length a)%nat with k by lia.
  rewrite firstn_all2 by lia. reflexivity.
Qed.

Lemma loop_final f dec : final_ok f ->
  finish (a85_loop (final_digits f ++ [117; 117; 117; 117]) dec []) = FOk (dec ++ final_bytes f).
Proof.
  assert (Hu : is_digit85 117) by (unfold is_digit85; lia).
  destruct f as [|a|a b|a b c]; intros Hok; cbn [final_ok final_digits final_bytes app] in *.
  - rewrite !loop_digit by (auto; cbn; lia). cbn [app a85_loop finish length].
    rewrite Nat.sub_diag, Nat.sub_0_r, firstn_all, app_nil_r. reflexivity.
  - assert (Hv : 0 <= val4 a 0 0 0 < 4294967296) by (unfold byte, val4 in *; lia).
    destruct (digit_range _ Hv) as (R4 & R3 & _). destruct (partial1 a Hok) as [Hlt Hfirst].
    rewrite loop_five by (unfold is_digit85; auto). rewrite loop_digit by (auto; cbn; lia).
    cbn [app a85_loop finish length].
    match goal with |- context [pack4 ?v] => set (pk := pack4 v) in * end.
    change (4 - 1)%nat with (length pk - 1)%nat.
    rewrite firstn_app_drop by (cbn; lia). rewrite Hfirst. reflexivity.
  - destruct Hok as [Ha Hb].
    assert (Hv : 0 <= val4 a b 0 0 < 4294967296) by (unfold byte, val4 in *; lia).
    destruct (digit_range _ Hv) as (R4 & R3 & R2 & _). destruct (partial2 a b Ha Hb) as [Hlt Hfirst].
    rewrite loop_five by (unfold is_digit85; auto). rewrite !loop_digit by (auto; cbn; lia).
    cbn [app a85_loop finish length].
    match goal with |- context [pack4 ?v] => set (pk := pack4 v) in * end.
    change (4 - 2)%nat with (length pk - 2)%nat.
    rewrite firstn_app_drop by (cbn; lia). rewrite Hfirst. reflexivity.
  - destruct Hok as (Ha & Hb & Hc).
    assert (Hv : 0 <= val4 a b c 0 < 4294967296) by (unfold byte, val4 in *; lia).
    destruct (digit_range _ Hv) as (R4 & R3 & R2 & R1 & _). destruct (partial3 a b c Ha Hb Hc) as [Hlt Hfirst].
    rewrite loop_five by (unfold is_digit85; auto). rewrite !loop_digit by (auto; cbn; lia).
    cbn [app a85_loop finish length].
    match goal with |- context [pack4 ?v] => set (pk := pack4 v) in * end.
    change (4 - 3)%nat with (length pk - 3)%nat.
    rewrite firstn_app_drop by (cbn; lia). rewrite Hfirst. reflexivity.
Qed.

Lemma a85decode_finish b : a85decode b = finish (a85_loop (b ++ [117; 117; 117; 117]) [] []).
Proof. unfold a85decode, finish. destruct (a85_loop _ [] []) as [[d c]|]; reflexivity. Qed.

(* C03: the body of an ASCII85 encoding (full groups, z, partial final group, white space
   anywhere) decodes to exactly the data *)
Theorem a85_body : forall items f text,
  Forall item_ok items -> final_ok f ->
  Inter (flat_map item_digits items ++ final_digits f) text ->
  a85decode text = FOk (flat_map item_bytes items ++ final_bytes f).
Proof.
  intros items f text Hi Hf Hint. rewrite a85decode_finish.
  rewrite (loop_inter _ _ Hint). rewrite <- app_assoc. rewrite (loop_items items Hi). cbn [app].
  apply (loop_final f _ Hf).
Qed.

(* ---------- framing: ~> at the end, optionally <~ at the start -------------------------------- *)
Definition clean_start (body : list Z) : Prop :=
  match body with
  | [] => False
  | x :: r => is_ws x = false /\ x <> 126 /\
              (x = 60 -> match r with y :: _ => is_ws y = false /\ y <> 126 | [] => False end)
  end.
Definition clean_end (body : list Z) : Prop :=
  match rev body with [] => False | x :: _ => is_ws x = false end.

Lemma drop_ws_nonws x r : is_ws x = false -> drop_ws (x :: r) = x :: r.
Proof. intros H. cbn. rewrite H. reflexivity. Qed.

Lemma strip_start_clean body tail : clean_start body -> strip_start (body ++ tail) = body ++ tail.
Proof.
  destruct body as [|x r]; [contradiction|]. intros (Hws & H126 & H60).
  unfold strip_start. cbn [app]. rewrite (drop_ws_nonws x _ Hws).
  destruct (Z.eq_dec x 60) as [E|E].
  - subst x. destruct r as [|y r']; [destruct (H60 eq_refl)|]. destruct (H60 eq_refl) as [Hy Hy126].
    cbn [app]. rewrite (drop_ws_nonws y _ Hy).
    destruct y as [|p|p]; try reflexivity.
    repeat (destruct p as [p|p|]; try reflexivity). exfalso. apply Hy126. reflexivity.
  - assert (Hm : match x :: r ++ tail with 60 :: r0 => drop_ws r0 | _ => x :: r ++ tail end = x :: r ++ tail).
    { destruct x as [|p|p]; try reflexivity. repeat (destruct p as [p|p|]; try reflexivity). exfalso. apply E. reflexivity. }
    rewrite Hm.
    destruct x as [|p|p]; try reflexivity. repeat (destruct p as [p|p|]; try reflexivity). exfalso. apply H126. reflexivity.
Qed.

Lemma strip_start_framed body tail : strip_start (60 :: 126 :: body ++ tail) = drop_ws (body ++ tail).
Proof. reflexivity. Qed.

Lemma strip_end_tilde_gt body : clean_end body -> strip_end (body ++ [126; 62]) = body.
Proof.
  unfold clean_end, strip_end. intros H.
  replace (rev (body ++ [126; 62])) with (62 :: 126 :: rev body) by (rewrite rev_app_distr; reflexivity).
  assert (E1 : drop_ws (62 :: 126 :: rev body) = 62 :: 126 :: rev body) by (apply drop_ws_nonws; reflexivity).
  assert (E2 : drop_ws (126 :: rev body) = 126 :: rev body) by (apply drop_ws_nonws; reflexivity).
  cbv zeta. rewrite E1. cbv iota beta. rewrite E2. cbv iota beta.
  destruct (rev body) as [|x r] eqn:E; [contradiction|].
  rewrite (drop_ws_nonws x r H). rewrite <- E. apply rev_involutive.
Qed.

(* C03: an ASCII85 stream framed by ~> (and optionally <~) decodes to the data *)
Theorem a85_roundtrip : forall items f body,
  Forall item_ok items -> final_ok f ->
  Inter (flat_map item_digits items ++ final_digits f) body ->
  clean_start body -> clean_end body ->
  ascii85decode (body ++ [126; 62]) = FOk (flat_map item_bytes items ++ final_bytes f) /\
  ascii85decode (60 :: 126 :: body ++ [126; 62]) = FOk (flat_map item_bytes items ++ final_bytes f).
Proof.
  intros items f body Hi Hf Hint Hs He. split.
  - unfold ascii85decode. rewrite (strip_start_clean body _ Hs), (strip_end_tilde_gt body He).
    apply a85_body; assumption.
  - unfold ascii85decode. rewrite strip_start_framed.
    assert (Hd : drop_ws (body ++ [126; 62]) = body ++ [126; 62]).
    { destruct body as [|x r]; [contradiction|]. destruct Hs as (Hws & _). cbn [app]. apply drop_ws_nonws. exact Hws. }
    rewrite Hd, (strip_end_tilde_gt body He). apply a85_body; assumption.
Qed.
