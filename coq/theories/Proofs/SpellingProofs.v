(* C01: every conformant spelling of a literal string reads back as the string (byte level, on the automaton that
   C14 proves equal to the chunked parser for every buffer size). *)
From Coq Require Import ZArith List Bool Lia ZifyBool.
From PdfV Require Import Gen.LexClasses Model.Lexer Proofs.LexerProofs.
Import ListNotations.
Open Scope Z_scope.

(* ---------- the reader's states inside a literal string (n = nesting depth of parentheses) ------------------------------------ *)
Definition fr (st : lst) : Z * list (Z * token) := (tpos st, toks st).
Definition SNorm (f : Z * list (Z * token)) (n : Z) (st : lst) (acc : list Z) : Prop := fr st = f /\ lmode st = MString /\ cur st = acc /\ paren st = n.
Definition SEsc (f : Z * list (Z * token)) (n : Z) (st : lst) (acc : list Z) : Prop := fr st = f /\ lmode st = MString1 /\ cur st = acc /\ paren st = n /\ oct st = [].
Definition SOct (f : Z * list (Z * token)) (n : Z) (st : lst) (acc ds : list Z) : Prop :=
  fr st = f /\ lmode st = MString1 /\ cur st = acc /\ paren st = n /\ oct st = ds /\ ds <> [] /\ (length ds <= 3)%nat.
Definition SCR (f : Z * list (Z * token)) (n : Z) (st : lst) (acc : list Z) : Prop := fr st = f /\ lmode st = MStringCR /\ cur st = acc /\ paren st = n.

Definition octv (ds : list Z) : Z := Z.land (octnum ds) 255.
Definition plain (c : Z) : Prop := c <> 40 /\ c <> 41 /\ c <> 92.

Lemma plain_not_end c : plain c -> re_END_STRING c = false.
Proof. unfold plain, re_END_STRING. lia. Qed.
Lemma len_lt3 (ds : list Z) : (length ds < 3)%nat -> (len ds <? 3) = true.
Proof. unfold len. lia. Qed.
Lemma len_ge3 (ds : list Z) : (3 <= length ds)%nat -> (len ds <? 3) = false.
Proof. unfold len. lia. Qed.
Lemma nonempty_ne (ds : list Z) : ds <> [] -> nonempty ds = true.
Proof. destruct ds; [congruence|reflexivity]. Qed.

Ltac crunch Hm :=
  unfold step, step_core; rewrite Hm;
  unfold step_string1, step_stringcr; unfold step_string; unfold string_special, string1_escape, end_oct, escape_consumes.

(* --- from the normal state *)
Lemma n_plain f n st acc c : SNorm f n st acc -> plain c -> SNorm f n (step st c) (acc ++ [c]).
Proof.
  intros (Hf & Hm & Hc & Hp) Hpl. crunch Hm. rewrite (plain_not_end c Hpl).
  unfold SNorm, fr in *. cbn [adv add_cur set_cur lmode cur paren tpos toks]. rewrite Hc. auto.
Qed.
Lemma n_backslash f n st acc : SNorm f n st acc -> SEsc f n (step st 92) acc.
Proof.
  intros (Hf & Hm & Hc & Hp). crunch Hm. cbn.
  unfold SEsc, fr in *. cbn [adv set_mode set_oct lmode cur paren oct tpos toks]. auto.
Qed.

(* --- right after the backslash *)
Lemma e_table f n st acc c v : SEsc f n st acc -> lookup c ESC_STRING = Some v -> SNorm f n (step st c) (acc ++ [v]).
Proof.
  intros (Hf & Hm & Hc & Hp & Ho) Hl. crunch Hm. rewrite Ho.
  assert (Hoct : re_OCT_STRING c = false).
  { unfold ESC_STRING in Hl. cbn [lookup] in Hl. unfold re_OCT_STRING.
    repeat match type of Hl with (if ?c =? ?k then _ else _) = _ => destruct (c =? k) eqn:?; [lia|] end. discriminate. }
  rewrite Hoct. cbn [andb nonempty]. rewrite Hl.
  unfold SNorm, fr in *. cbn [adv set_mode add_cur set_cur lmode cur paren tpos toks]. rewrite Hc. auto.
Qed.
Lemma e_octal f n st acc c : SEsc f n st acc -> re_OCT_STRING c = true -> SOct f n (step st c) acc [c].
Proof.
  intros (Hf & Hm & Hc & Hp & Ho) Hoct. crunch Hm. rewrite Ho, Hoct. cbn [len length Z.of_nat Z.ltb Z.compare andb app].
  unfold SOct, fr in *. cbn [adv set_oct lmode cur paren oct length tpos toks]. repeat split; auto; try discriminate; lia.
Qed.
Lemma e_lf f n st acc : SEsc f n st acc -> SNorm f n (step st 10) acc.
Proof.
  intros (Hf & Hm & Hc & Hp & Ho). crunch Hm. rewrite Ho. cbn.
  unfold SNorm, fr in *. cbn [adv set_mode lmode cur paren tpos toks]. auto.
Qed.
Lemma e_cr f n st acc : SEsc f n st acc -> SCR f n (step st 13) acc.
Proof.
  intros (Hf & Hm & Hc & Hp & Ho). crunch Hm. rewrite Ho. cbn.
  unfold SCR, fr in *. cbn [adv set_mode lmode cur paren tpos toks]. auto.
Qed.
(* a backslash before a byte that starts no escape is ignored *)
Lemma e_other f n st acc c : SEsc f n st acc -> plain c -> re_OCT_STRING c = false -> lookup c ESC_STRING = None ->
  c <> 13 -> c <> 10 -> SNorm f n (step st c) (acc ++ [c]).
Proof.
  intros (Hf & Hm & Hc & Hp & Ho) Hpl Hoct Hl H13 H10. crunch Hm. rewrite Ho, Hoct, Hl. cbn [andb nonempty].
  assert (E : (c =? 13) || (c =? 10) = false) by lia. rewrite E.
  unfold step_core. cbn [lmode set_mode]. unfold step_string. rewrite (plain_not_end c Hpl).
  unfold SNorm, fr in *. cbn [adv add_cur set_cur set_mode lmode cur paren tpos toks]. rewrite Hc. auto.
Qed.

(* --- inside an octal escape *)
Lemma o_more f n st acc ds c : SOct f n st acc ds -> (length ds < 3)%nat -> re_OCT_STRING c = true -> SOct f n (step st c) acc (ds ++ [c]).
Proof.
  intros (Hf & Hm & Hc & Hp & Ho & Hne & Hl) Hlt Hoct. crunch Hm. rewrite Ho, Hoct, (len_lt3 ds Hlt). cbn [andb].
  unfold SOct, fr in *. cbn [adv set_oct lmode cur paren oct tpos toks]. rewrite app_length. cbn [length].
  repeat split; auto; [destruct ds; discriminate|lia].
Qed.
Lemma o_done_test ds c : (3 <= length ds)%nat \/ re_OCT_STRING c = false -> re_OCT_STRING c && (len ds <? 3) = false.
Proof. intros [H|H]; [rewrite (len_ge3 ds H); apply andb_false_r|rewrite H; reflexivity]. Qed.
Lemma o_plain f n st acc ds c : SOct f n st acc ds -> (3 <= length ds)%nat \/ re_OCT_STRING c = false -> plain c ->
  SNorm f n (step st c) (acc ++ [octv ds] ++ [c]).
Proof.
  intros (Hf & Hm & Hc & Hp & Ho & Hne & Hl) Hd Hpl. crunch Hm. rewrite Ho, (o_done_test ds c Hd), (nonempty_ne ds Hne).
  cbn [lmode set_mode add_cur set_cur]. rewrite (plain_not_end c Hpl).
  unfold SNorm, fr in *. cbn [adv add_cur set_cur set_mode lmode cur paren tpos toks]. rewrite Hc. unfold octv.
  rewrite <- app_assoc. auto.
Qed.
Lemma o_backslash f n st acc ds : SOct f n st acc ds -> SEsc f n (step st 92) (acc ++ [octv ds]).
Proof.
  intros (Hf & Hm & Hc & Hp & Ho & Hne & Hl). crunch Hm. rewrite Ho.
  assert (E : re_OCT_STRING 92 && (len ds <? 3) = false) by reflexivity. rewrite E, (nonempty_ne ds Hne).
  cbn [lmode set_mode add_cur set_cur]. cbn.
  unfold SEsc, fr in *. cbn [adv set_mode set_oct add_cur set_cur lmode cur paren oct tpos toks]. rewrite Hc. unfold octv. auto.
Qed.

(* --- after backslash CR *)
Lemma c_lf f n st acc : SCR f n st acc -> SNorm f n (step st 10) acc.
Proof.
  intros (Hf & Hm & Hc & Hp). crunch Hm. cbn.
  unfold SNorm, fr in *. cbn [adv set_mode lmode cur paren tpos toks]. auto.
Qed.
Lemma c_plain f n st acc c : SCR f n st acc -> c <> 10 -> plain c -> SNorm f n (step st c) (acc ++ [c]).
Proof.
  intros (Hf & Hm & Hc & Hp) H10 Hpl. crunch Hm. assert (E : c =? 10 = false) by lia. rewrite E.
  cbn [lmode set_mode]. rewrite (plain_not_end c Hpl).
  unfold SNorm, fr in *. cbn [adv add_cur set_cur set_mode lmode cur paren tpos toks]. rewrite Hc. auto.
Qed.
Lemma c_backslash f n st acc : SCR f n st acc -> SEsc f n (step st 92) acc.
Proof.
  intros (Hf & Hm & Hc & Hp). crunch Hm. cbn.
  unfold SEsc, fr in *. cbn [adv set_mode set_oct lmode cur paren oct tpos toks]. auto.
Qed.

(* --- nested parentheses: kept as written, the depth counted *)
Lemma end_string_40 : re_END_STRING 40 = true. Proof. reflexivity. Qed.
Lemma end_string_41 : re_END_STRING 41 = true. Proof. reflexivity. Qed.
Lemma n_open f n st acc : SNorm f n st acc -> SNorm f (n + 1) (step st 40) (acc ++ [40]).
Proof.
  intros (Hf & Hm & Hc & Hp). crunch Hm. rewrite end_string_40.
  replace (40 =? 92) with false by reflexivity. replace (40 =? 40) with true by reflexivity.
  unfold SNorm, fr in *. cbn [adv add_cur set_cur set_paren lmode cur paren tpos toks]. rewrite Hc, Hp. auto.
Qed.
Lemma n_close f n st acc : 2 <= n -> SNorm f n st acc -> SNorm f (n - 1) (step st 41) (acc ++ [41]).
Proof.
  intros Hn (Hf & Hm & Hc & Hp). crunch Hm. rewrite end_string_41.
  replace (41 =? 92) with false by reflexivity. replace (41 =? 40) with false by reflexivity.
  replace (41 =? 41) with true by reflexivity. assert (E : negb (paren st - 1 =? 0) = true) by lia. rewrite E. cbn [andb].
  unfold SNorm, fr in *. cbn [adv add_cur set_cur set_paren lmode cur paren tpos toks]. rewrite Hc, Hp. auto.
Qed.
Lemma o_open f n st acc ds : SOct f n st acc ds -> SNorm f (n + 1) (step st 40) (acc ++ [octv ds] ++ [40]).
Proof.
  intros (Hf & Hm & Hc & Hp & Ho & Hne & Hl). crunch Hm. rewrite Ho.
  assert (E : re_OCT_STRING 40 && (len ds <? 3) = false) by reflexivity. rewrite E, (nonempty_ne ds Hne).
  cbn [lmode set_mode add_cur set_cur]. rewrite end_string_40.
  replace (40 =? 92) with false by reflexivity. replace (40 =? 40) with true by reflexivity.
  unfold SNorm, fr in *. cbn [adv add_cur set_cur set_mode set_paren lmode cur paren tpos toks]. rewrite Hc, Hp. unfold octv.
  rewrite <- app_assoc. auto.
Qed.
Lemma o_close f n st acc ds : 2 <= n -> SOct f n st acc ds -> SNorm f (n - 1) (step st 41) (acc ++ [octv ds] ++ [41]).
Proof.
  intros Hn (Hf & Hm & Hc & Hp & Ho & Hne & Hl). crunch Hm. rewrite Ho.
  assert (E : re_OCT_STRING 41 && (len ds <? 3) = false) by reflexivity. rewrite E, (nonempty_ne ds Hne).
  cbn [lmode set_mode add_cur set_cur paren]. rewrite end_string_41.
  replace (41 =? 92) with false by reflexivity. replace (41 =? 40) with false by reflexivity.
  replace (41 =? 41) with true by reflexivity. assert (E2 : negb (paren st - 1 =? 0) = true) by lia. rewrite E2. cbn [andb].
  unfold SNorm, fr in *. cbn [adv add_cur set_cur set_mode set_paren lmode cur paren tpos toks]. rewrite Hc, Hp. unfold octv.
  rewrite <- app_assoc. auto.
Qed.
Lemma c_open f n st acc : SCR f n st acc -> SNorm f (n + 1) (step st 40) (acc ++ [40]).
Proof.
  intros (Hf & Hm & Hc & Hp). crunch Hm. replace (40 =? 10) with false by reflexivity.
  cbn [lmode set_mode]. rewrite end_string_40.
  replace (40 =? 92) with false by reflexivity. replace (40 =? 40) with true by reflexivity.
  unfold SNorm, fr in *. cbn [adv add_cur set_cur set_mode set_paren lmode cur paren tpos toks]. rewrite Hc, Hp. auto.
Qed.
Lemma c_close f n st acc : 2 <= n -> SCR f n st acc -> SNorm f (n - 1) (step st 41) (acc ++ [41]).
Proof.
  intros Hn (Hf & Hm & Hc & Hp). crunch Hm. replace (41 =? 10) with false by reflexivity.
  cbn [lmode set_mode paren]. rewrite end_string_41.
  replace (41 =? 92) with false by reflexivity. replace (41 =? 40) with false by reflexivity.
  replace (41 =? 41) with true by reflexivity. assert (E2 : negb (paren st - 1 =? 0) = true) by lia. rewrite E2. cbn [andb].
  unfold SNorm, fr in *. cbn [adv add_cur set_cur set_mode set_paren lmode cur paren tpos toks]. rewrite Hc, Hp. auto.
Qed.

(* --- the closing parenthesis: the string token is emitted with everything accumulated *)
Definition emitted (f : Z * list (Z * token)) (st' : lst) (v : list Z) : Prop :=
  lmode st' = MMain /\ toks st' = (fst f, TStr v) :: snd f.
Lemma close_norm f st acc : SNorm f 1 st acc -> emitted f (step st 41) acc.
Proof.
  intros (Hf & Hm & Hc & Hp). crunch Hm. cbn [re_END_STRING]. cbn. rewrite Hp. cbn.
  unfold emitted, fr in *. subst f. cbn [fst snd]. cbn [adv set_mode emit set_paren lmode toks cur tpos]. rewrite Hc. auto.
Qed.
Lemma close_oct f st acc ds : SOct f 1 st acc ds -> emitted f (step st 41) (acc ++ [octv ds]).
Proof.
  intros (Hf & Hm & Hc & Hp & Ho & Hne & Hl). crunch Hm. rewrite Ho.
  assert (E : re_OCT_STRING 41 && (len ds <? 3) = false) by reflexivity. rewrite E, (nonempty_ne ds Hne).
  cbn [lmode set_mode add_cur set_cur]. cbn. rewrite Hp. cbn.
  unfold emitted, fr in *. subst f. cbn [fst snd]. cbn [adv set_mode emit set_paren add_cur set_cur lmode toks cur tpos]. rewrite Hc. unfold octv. auto.
Qed.
Lemma close_cr f st acc : SCR f 1 st acc -> emitted f (step st 41) acc.
Proof.
  intros (Hf & Hm & Hc & Hp). crunch Hm. cbn. rewrite Hp. cbn.
  unfold emitted, fr in *. subst f. cbn [fst snd]. cbn [adv set_mode emit set_paren lmode toks cur tpos]. rewrite Hc. auto.
Qed.

(* ---------- spellings ------------------------------------------------------------------------------------------------ *)
(* the ways ISO 32000-1 7.3.4.2 lets one byte (or nothing) be written inside ( ) *)
Inductive piece :=
| PRaw (c : Z)                     (* the byte itself: not ( ) \ and not CR *)
| PEsc (c v : Z)                   (* \n \r \t \b \f \( \) \\ *)
| POct (ds : list Z)               (* \d, \dd, \ddd *)
| PCont (eol : list Z)             (* backslash + end of line: denotes nothing *)
| PIgn (c : Z)                     (* backslash before a byte that starts no escape: the byte itself *)
| POpen | PClose.                  (* unescaped parentheses, allowed when balanced: they denote themselves *)

Definition render (p : piece) : list Z :=
  match p with
  | PRaw c => [c] | PEsc c _ => [92; c] | POct ds => 92 :: ds | PCont eol => 92 :: eol | PIgn c => [92; c]
  | POpen => [40] | PClose => [41]
  end.
Definition pvalue (p : piece) : list Z :=
  match p with
  | PRaw c => [c] | PEsc _ v => [v] | POct ds => [octv ds] | PCont _ => [] | PIgn c => [c]
  | POpen => [40] | PClose => [41]
  end.
Definition wf_piece (p : piece) : Prop :=
  match p with
  | PRaw c => plain c /\ c <> 13
  | PEsc c v => lookup c ESC_STRING = Some v
  | POct ds => ds <> [] /\ (length ds <= 3)%nat /\ forallb re_OCT_STRING ds = true
  | PCont eol => eol = [10] \/ eol = [13] \/ eol = [13; 10]
  | PIgn c => plain c /\ re_OCT_STRING c = false /\ lookup c ESC_STRING = None /\ c <> 13 /\ c <> 10
  | POpen | PClose => True
  end.

(* what is still pending when a piece has been read *)
Inductive pend := ANone | AOct (ds : list Z) | ACR.
Definition Inv (f : Z * list (Z * token)) (n : Z) (st : lst) (a : pend) (acc : list Z) : Prop :=
  match a with ANone => SNorm f n st acc | AOct ds => SOct f n st acc ds | ACR => SCR f n st acc end.
Definition flushv (a : pend) : list Z := match a with AOct ds => [octv ds] | _ => [] end.

(* the two ambiguities a writer must avoid: a short octal escape followed by a raw digit, backslash-CR followed by a
   raw LF *)
Definition first_byte (p : piece) : Z := match p with PRaw c => c | POpen => 40 | PClose => 41 | _ => 92 end.
(* nesting depth after a piece *)
Definition dstep (n : Z) (p : piece) : Z := match p with POpen => n + 1 | PClose => n - 1 | _ => n end.
Definition compatible (a : pend) (p : piece) : Prop :=
  match a with
  | AOct ds => (3 <= length ds)%nat \/ re_OCT_STRING (first_byte p) = false
  | ACR => first_byte p <> 10
  | ANone => True
  end.

Lemma oct_run f n acc : forall ds st pre, SOct f n st acc pre -> (length pre + length ds <= 3)%nat ->
  forallb re_OCT_STRING ds = true -> SOct f n (run st ds) acc (pre ++ ds).
Proof.
  induction ds as [|d ds IH]; intros st pre H Hl Hf; [rewrite app_nil_r; exact H|].
  cbn [forallb] in Hf. apply andb_true_iff in Hf. destruct Hf as [Hd Hf]. cbn [length] in Hl.
  rewrite run_cons. replace (pre ++ d :: ds) with ((pre ++ [d]) ++ ds) by (rewrite <- app_assoc; reflexivity).
  apply IH; [apply o_more; [exact H|lia|exact Hd]|rewrite app_length; cbn [length]; lia|exact Hf].
Qed.

Definition pafter (p : piece) : pend := match p with POct ds => AOct ds | PCont [13] => ACR | _ => ANone end.
(* admissible piece sequences from pending state a at depth n: every piece well formed and compatible with what is
   pending, a closing parenthesis only inside an open one, and all parentheses closed at the end *)
Fixpoint seq_okd (a : pend) (n : Z) (ps : list piece) : Prop :=
  match ps with
  | [] => n = 1
  | p :: r => wf_piece p /\ compatible a p /\ (p = PClose -> 2 <= n) /\ seq_okd (pafter p) (dstep n p) r
  end.
Definition seq_ok (a : pend) (ps : list piece) : Prop := seq_okd a 1 ps.

(* the pending state after a piece is determined by the piece *)
Lemma pend_after f n st a acc p : Inv f n st a acc -> wf_piece p -> compatible a p -> (p = PClose -> 2 <= n) ->
  exists acc', Inv f (dstep n p) (run st (render p)) (pafter p) acc' /\
               acc' ++ flushv (pafter p) = (acc ++ flushv a) ++ pvalue p.
Proof.
  intros HI Hwf Hco Hcl. unfold pafter.
  destruct (Z.eq_dec (first_byte p) 92) as [Hb|Hb].
  - assert (Hr : render p = 92 :: tl (render p)) by (destruct p; cbn in *; try reflexivity; congruence).
    assert (HE : SEsc f n (step st 92) (acc ++ flushv a)).
    { destruct a as [|ds|]; cbn [Inv flushv] in *; [rewrite app_nil_r; apply n_backslash; exact HI
                                                    |apply o_backslash; exact HI|rewrite app_nil_r; apply c_backslash; exact HI]. }
    rewrite Hr, run_cons.
    destruct p as [c|c v|ds|eol|c| |]; cbn [render tl pvalue wf_piece first_byte dstep] in *; try (cbn in Hb; lia).
    + destruct Hwf as [[_ [_ H]] _]. congruence.
    + eexists. split; [rewrite run_cons; cbn [run fold_left]; apply e_table; eassumption|cbn [flushv]; rewrite !app_nil_r; reflexivity].
    + destruct Hwf as (Hne & Hl & Hf). destruct ds as [|d ds]; [congruence|].
      cbn [forallb] in Hf. apply andb_true_iff in Hf. destruct Hf as [Hd Hf]. cbn [length] in Hl.
      eexists. split; [rewrite run_cons; change (d :: ds) with ([d] ++ ds); apply oct_run; [apply e_octal; eassumption|cbn [length]; lia|exact Hf]|reflexivity].
    + destruct Hwf as [ -> | [ -> | -> ] ].
      * eexists. split; [rewrite run_cons; apply e_lf; exact HE|cbn [flushv]; rewrite !app_nil_r; reflexivity].
      * eexists. split; [rewrite run_cons; apply e_cr; exact HE|cbn [flushv]; rewrite !app_nil_r; reflexivity].
      * eexists. split; [rewrite !run_cons; apply c_lf; apply e_cr; exact HE|cbn [flushv]; rewrite !app_nil_r; reflexivity].
    + destruct Hwf as (Hpl & Ho & Hl & H13 & H10).
      eexists. split; [rewrite run_cons; apply e_other; eassumption|cbn [flushv]; rewrite !app_nil_r; reflexivity].
  - destruct p as [c|c v|ds|eol|c| |]; cbn [first_byte] in Hb; try congruence;
      cbn [render pvalue wf_piece first_byte dstep] in *.
    + destruct Hwf as [Hpl H13].
      eexists. split; [|cbn [flushv]; rewrite app_nil_r; reflexivity]. cbn [run fold_left Inv].
      destruct a as [|ds|]; cbn [Inv flushv compatible first_byte] in *.
      * rewrite app_nil_r. apply n_plain; assumption.
      * rewrite <- app_assoc. apply o_plain; assumption.
      * rewrite app_nil_r. apply c_plain; assumption.
    + eexists. split; [|cbn [flushv]; rewrite app_nil_r; reflexivity]. cbn [run fold_left Inv].
      destruct a as [|ds|]; cbn [Inv flushv] in *.
      * rewrite app_nil_r. apply n_open; assumption.
      * rewrite <- app_assoc. apply o_open; assumption.
      * rewrite app_nil_r. apply c_open; assumption.
    + specialize (Hcl eq_refl).
      eexists. split; [|cbn [flushv]; rewrite app_nil_r; reflexivity]. cbn [run fold_left Inv].
      destruct a as [|ds|]; cbn [Inv flushv] in *.
      * rewrite app_nil_r. apply n_close; assumption.
      * rewrite <- app_assoc. apply o_close; assumption.
      * rewrite app_nil_r. apply c_close; assumption.
Qed.

Lemma pieces_run f : forall ps n st a acc, Inv f n st a acc -> seq_okd a n ps ->
  exists a' acc', Inv f 1 (run st (flat_map render ps)) a' acc' /\ acc' ++ flushv a' = (acc ++ flushv a) ++ flat_map pvalue ps.
Proof.
  induction ps as [|p ps IH]; intros n st a acc HI Hok.
  - cbn [seq_okd] in Hok. subst n. exists a, acc. split; [exact HI|rewrite app_nil_r; reflexivity].
  - cbn [seq_okd] in Hok. destruct Hok as (Hwf & Hco & Hcl & Hrest).
    destruct (pend_after f n st a acc p HI Hwf Hco Hcl) as (acc1 & HI1 & Hv1).
    cbn [flat_map]. rewrite run_app.
    destruct (IH _ _ _ _ HI1 Hrest) as (a' & acc' & HI' & Hv').
    exists a', acc'. split; [exact HI'|]. rewrite Hv', Hv1, <- app_assoc. reflexivity.
Qed.

(* THE THEOREM: any sequence of admissible spellings of the bytes of a string (balanced unescaped parentheses included),
   written between parentheses, is read back as exactly the string: nothing is emitted before the closing parenthesis,
   and the token emitted there carries the concatenated values at the position of the opening parenthesis *)
Theorem literal_string_spelling f st ps : SNorm f 1 st [] -> seq_ok ANone ps ->
  emitted f (run st (flat_map render ps ++ [41])) (flat_map pvalue ps).
Proof.
  intros HS Hok. destruct (pieces_run f ps 1 st ANone [] HS Hok) as (a' & acc' & HI & Hv).
  cbn [flushv app] in Hv. rewrite <- Hv. rewrite run_app. cbn [run fold_left].
  destruct a' as [|ds|]; cbn [Inv flushv] in *.
  - rewrite app_nil_r. apply close_norm. exact HI.
  - apply close_oct. exact HI.
  - rewrite app_nil_r. apply close_cr. exact HI.
Qed.

(* entering the string: "(" from the main state records the token position *)
Lemma open_paren st : lmode st = MMain -> SNorm (apos st, toks st) 1 (step st 40) [].
Proof.
  intros Hm. unfold step, step_core. rewrite Hm. unfold step_main, main_dispatch. cbn.
  unfold SNorm, fr. cbn. auto.
Qed.

(* the whole token, from any main state: ( pieces ) adds exactly one token, the string, at the offset of "(" *)
Theorem literal_string_token st ps : lmode st = MMain -> seq_ok ANone ps ->
  let fin := run st (40 :: flat_map render ps ++ [41]) in
  lmode fin = MMain /\ toks fin = (apos st, TStr (flat_map pvalue ps)) :: toks st.
Proof.
  intros Hm Hok. cbv zeta. rewrite run_cons.
  exact (literal_string_spelling _ (step st 40) ps (open_paren st Hm) Hok).
Qed.

(* as a complete input: the lexer yields that one token *)
Theorem literal_string_lex pos ps : seq_ok ANone ps ->
  lex pos (40 :: flat_map render ps ++ [41]) = [(pos, TStr (flat_map pvalue ps))].
Proof.
  intros Hok. unfold lex, tokens_of. rewrite run_app.
  destruct (literal_string_token (init pos) ps eq_refl Hok) as [Hm Ht]. cbv zeta in *.
  set (fin := run (init pos) (40 :: flat_map render ps ++ [41])) in *.
  cbn [run fold_left]. unfold step, step_core. rewrite Hm. unfold step_main. cbn [re_NONSPC].
  replace (re_NONSPC 10) with false by reflexivity.
  cbn [adv toks]. rewrite Ht. reflexivity.
Qed.

(* every byte string has an admissible spelling (three-digit octal escapes), so the theorem is about all strings *)
Definition oct3 (b : Z) : list Z := [48 + b / 64; 48 + (b / 8) mod 8; 48 + b mod 8].
Definition oct3_good (b : Z) : bool := (octv (oct3 b) =? b) && forallb re_OCT_STRING (oct3 b).
Lemma oct3_sweep : forallb oct3_good (map Z.of_nat (seq 0 256)) = true.
Proof. vm_compute. reflexivity. Qed.
Lemma oct3_ok b : 0 <= b < 256 -> octv (oct3 b) = b /\ forallb re_OCT_STRING (oct3 b) = true.
Proof.
  intros Hb. pose proof oct3_sweep as H. rewrite forallb_forall in H.
  specialize (H b). assert (Hin : In b (map Z.of_nat (seq 0 256))).
  { apply in_map_iff. exists (Z.to_nat b). split; [lia|]. apply in_seq. lia. }
  apply H in Hin. unfold oct3_good in Hin. apply andb_true_iff in Hin. destruct Hin as [H1 H2]. split; [lia|exact H2].
Qed.
Lemma seq_ok_oct3 : forall v a, Forall (fun b => 0 <= b < 256) v ->
  (match a with AOct ds => (3 <= length ds)%nat | ACR => True | ANone => True end) ->
  seq_ok a (map (fun b => POct (oct3 b)) v) /\ flat_map pvalue (map (fun b => POct (oct3 b)) v) = v.
Proof.
  unfold seq_ok.
  induction v as [|b v IH]; intros a Hv Ha; [split; reflexivity|].
  inversion Hv as [|? ? Hb Hv']; subst. destruct (oct3_ok b Hb) as [Ho Hf].
  destruct (IH (AOct (oct3 b)) Hv') as [Hs Hval]; [cbn; lia|].
  cbn [map seq_okd flat_map pvalue pafter dstep]. split.
  - split; [cbn [wf_piece]; split; [discriminate|split; [cbn; lia|exact Hf]]|].
    split; [destruct a; cbn [compatible first_byte]; [exact I|left; exact Ha|discriminate]|].
    split; [discriminate|exact Hs].
  - rewrite Hval, Ho. reflexivity.
Qed.
Theorem every_string_has_a_spelling v : Forall (fun b => 0 <= b < 256) v ->
  exists ps, seq_ok ANone ps /\ flat_map pvalue ps = v.
Proof. intros Hv. exists (map (fun b => POct (oct3 b)) v). apply seq_ok_oct3; [exact Hv|exact I]. Qed.

(* non-vacuity: one spelling using every kind of piece, and the ambiguities the side condition rules out *)
Example spelling_example :
  let ps := [PRaw 65; PEsc 110 10; POct [48; 49]; PRaw 57; POct [49; 50; 51]; PRaw 52; PCont [13]; PRaw 66; PCont [13; 10];
             PIgn 113; PEsc 40 40; POct [55]; PCont [10]; POpen; PRaw 66; POpen; PClose; POct [55]; PClose] in
  seq_ok ANone ps /\ flat_map pvalue ps = [65; 10; 1; 57; 83; 52; 66; 113; 40; 7; 40; 66; 40; 41; 7; 41].
Proof. unfold seq_ok. cbn. repeat split; auto; try lia; try discriminate. Qed.
