(* C08 / C09: glyphs -> lines, sorting, numbering. *)
From Coq Require Import ZArith QArith List Bool Lia Permutation.
From PdfV Require Import Base.Num Gen.Geom Model.Plane Model.Layout.
Import ListNotations.

(* ---------- group_objects conserves the glyph sequence --------------------------------------------------- *)
Lemma line_glyphs_add p l g : line_glyphs (line_add p l g) = line_glyphs l ++ [g].
Proof.
  unfold line_glyphs, line_add. cbn [lelems]. rewrite !flat_map_app.
  destruct (needs_space p l g); cbn [flat_map app]; rewrite ?app_nil_r; reflexivity.
Qed.

Lemma line_glyphs_new o : line_glyphs (new_line o) = [].
Proof. reflexivity. Qed.

Lemma go_loop_glyphs p : forall rest obj0 cur,
  flat_map line_glyphs (go_loop p obj0 cur rest) =
    (match cur with Some l => line_glyphs l | None => [obj0] end) ++ rest.
Proof.
  induction rest as [|obj1 r IH]; intros obj0 cur.
  - cbn [go_loop]. destruct cur as [l|]; cbn [flat_map]; rewrite ?app_nil_r; [reflexivity|].
    rewrite line_glyphs_add, line_glyphs_new. reflexivity.
  - cbn [go_loop]. destruct cur as [l|].
    + destruct ((halign p (gbox obj0) (gbox obj1) && is_h l) || (valign p (gbox obj0) (gbox obj1) && negb (is_h l))).
      * rewrite IH. rewrite line_glyphs_add, <- app_assoc. reflexivity.
      * cbn [flat_map]. rewrite IH. reflexivity.
    + destruct (valign p (gbox obj0) (gbox obj1) && negb (halign p (gbox obj0) (gbox obj1))).
      * rewrite IH. rewrite !line_glyphs_add, line_glyphs_new, <- app_assoc. reflexivity.
      * destruct (halign p (gbox obj0) (gbox obj1) && negb (valign p (gbox obj0) (gbox obj1))).
        -- rewrite IH. rewrite !line_glyphs_add, line_glyphs_new, <- app_assoc. reflexivity.
        -- cbn [flat_map]. rewrite IH. rewrite line_glyphs_add, line_glyphs_new. reflexivity.
Qed.

(* the lines, read in order, contain exactly the input glyphs in their input order: nothing is lost, duplicated,
   altered or reordered, whatever the parameters and the boxes *)
Theorem group_objects_conserves p gs : flat_map line_glyphs (group_objects p gs) = gs.
Proof. destruct gs as [|g r]; [reflexivity|]. unfold group_objects. rewrite go_loop_glyphs. reflexivity. Qed.

(* ---------- a line's box is the union of its glyphs' ---------------------------------------------------------- *)
Definition glyphs_box (gs : list glyph) : option box :=
  fold_left (fun acc g => Some (union_box acc (gbox g))) gs None.
Definition wf_line (l : line) : Prop := lbox l = glyphs_box (line_glyphs l).

Lemma wf_new o : wf_line (new_line o).
Proof. reflexivity. Qed.
Lemma wf_add p l g : wf_line l -> wf_line (line_add p l g).
Proof.
  unfold wf_line. intros H. rewrite line_glyphs_add. unfold glyphs_box. rewrite fold_left_app. cbn [fold_left].
  fold (glyphs_box (line_glyphs l)). rewrite <- H. reflexivity.
Qed.

Lemma go_loop_wf p : forall rest obj0 cur, (match cur with Some l => wf_line l | None => True end) ->
  Forall wf_line (go_loop p obj0 cur rest).
Proof.
  induction rest as [|obj1 r IH]; intros obj0 cur Hc.
  - cbn [go_loop]. destruct cur as [l|]; constructor; auto. apply wf_add, wf_new.
  - cbn [go_loop]. destruct cur as [l|].
    + destruct ((halign p (gbox obj0) (gbox obj1) && is_h l) || (valign p (gbox obj0) (gbox obj1) && negb (is_h l))).
      * apply IH. apply wf_add. exact Hc.
      * constructor; [exact Hc|]. apply IH. exact I.
    + destruct (valign p (gbox obj0) (gbox obj1) && negb (halign p (gbox obj0) (gbox obj1))).
      * apply IH. apply wf_add, wf_add, wf_new.
      * destruct (halign p (gbox obj0) (gbox obj1) && negb (valign p (gbox obj0) (gbox obj1))).
        -- apply IH. apply wf_add, wf_add, wf_new.
        -- constructor; [apply wf_add, wf_new|]. apply IH. exact I.
Qed.

Theorem line_boxes_are_unions p gs : Forall wf_line (group_objects p gs).
Proof. destruct gs as [|g r]; [constructor|]. apply go_loop_wf. exact I. Qed.

(* every line has at least one glyph *)
Lemma go_loop_nonempty p : forall rest obj0 cur, (match cur with Some l => line_glyphs l <> [] | None => True end) ->
  Forall (fun l => line_glyphs l <> []) (go_loop p obj0 cur rest).
Proof.
  assert (A : forall l g, line_glyphs (line_add p l g) <> []).
  { intros l g. rewrite line_glyphs_add. destruct (line_glyphs l); discriminate. }
  induction rest as [|obj1 r IH]; intros obj0 cur Hc.
  - cbn [go_loop]. destruct cur as [l|]; constructor; auto.
  - cbn [go_loop]. destruct cur as [l|].
    + destruct ((halign p (gbox obj0) (gbox obj1) && is_h l) || (valign p (gbox obj0) (gbox obj1) && negb (is_h l))).
      * apply IH. apply A.
      * constructor; [exact Hc|]. apply IH. exact I.
    + destruct (valign p (gbox obj0) (gbox obj1) && negb (halign p (gbox obj0) (gbox obj1))); [apply IH, A|].
      destruct (halign p (gbox obj0) (gbox obj1) && negb (valign p (gbox obj0) (gbox obj1))); [apply IH, A|].
      constructor; [apply A|]. apply IH. exact I.
Qed.
Theorem lines_nonempty p gs : Forall (fun l => line_glyphs l <> []) (group_objects p gs).
Proof. destruct gs as [|g r]; [constructor|]. apply go_loop_nonempty. exact I. Qed.

(* the line break: exactly one, at the end *)
Theorem analyzed_line_ends_in_break l :
  lelems (line_analyze l) = lelems l ++ [EAnno [10%Z]] /\ line_glyphs (line_analyze l) = line_glyphs l.
Proof.
  split; [reflexivity|]. unfold line_glyphs, line_analyze. cbn [lelems]. rewrite flat_map_app. cbn. apply app_nil_r.
Qed.

(* the text of a line is the concatenation of its members' text (by definition), and analysing appends the break *)
Theorem analyzed_line_text l : line_text (line_analyze l) = line_text l ++ [10%Z].
Proof. unfold line_text, line_analyze. cbn [lelems]. rewrite flat_map_app. reflexivity. Qed.

(* ---------- stable sorts are permutations ------------------------------------------------------------------ *)
Lemma insert_by_perm {A} (key : A -> Q) x l : Permutation (insert_by key x l) (x :: l).
Proof.
  induction l as [|y r IH]; [reflexivity|]. cbn [insert_by]. destruct (Qle_bool (key x) (key y)); [reflexivity|].
  rewrite IH. apply perm_swap.
Qed.
Theorem sort_by_perm {A} (key : A -> Q) l : Permutation (sort_by key l) l.
Proof.
  induction l as [|x r IH]; [reflexivity|]. unfold sort_by. cbn [fold_right]. fold (sort_by key r).
  rewrite insert_by_perm. constructor. exact IH.
Qed.
Lemma insert_le_perm {A} (le : A -> A -> bool) x l : Permutation (insert_le le x l) (x :: l).
Proof.
  induction l as [|y r IH]; [reflexivity|]. cbn [insert_le]. destruct (le x y); [reflexivity|].
  rewrite IH. apply perm_swap.
Qed.
Theorem sort_le_perm {A} (le : A -> A -> bool) l : Permutation (sort_le le l) l.
Proof.
  induction l as [|x r IH]; [reflexivity|]. unfold sort_le. cbn [fold_right]. fold (sort_le le r).
  rewrite insert_le_perm. constructor. exact IH.
Qed.

(* sorted output: adjacent keys are in order (so lines in a box go top-to-bottom / right-to-left) *)
Fixpoint sorted_by {A} (key : A -> Q) (l : list A) : Prop :=
  match l with
  | [] => True
  | x :: r => match r with [] => True | y :: _ => (key x <= key y)%Q end /\ sorted_by key r
  end.
Lemma insert_by_sorted {A} (key : A -> Q) x l : sorted_by key l -> sorted_by key (insert_by key x l).
Proof.
  induction l as [|y r IH]; intros H; [cbn; auto|].
  cbn [insert_by]. destruct (Qle_bool (key x) (key y)) eqn:E.
  - cbn [sorted_by]. split; [apply Qle_bool_iff; exact E|exact H].
  - assert (Hyx : (key y <= key x)%Q).
    { apply Qlt_le_weak. apply Qnot_le_lt. intros Hle. apply Qle_bool_iff in Hle. congruence. }
    destruct H as [Hh Ht]. specialize (IH Ht).
    cbn [sorted_by]. split; [|exact IH].
    destruct r as [|z r']; cbn [insert_by]; [exact Hyx|].
    destruct (Qle_bool (key x) (key z)); [exact Hyx|exact Hh].
Qed.
Theorem sort_by_sorted {A} (key : A -> Q) l : sorted_by key (sort_by key l).
Proof.
  induction l as [|x r IH]; [exact I|]. unfold sort_by. cbn [fold_right]. fold (sort_by key r).
  apply insert_by_sorted. exact IH.
Qed.

(* sortedness for a total comparison: adjacent elements are in order *)
Fixpoint sorted_le {A} (le : A -> A -> bool) (l : list A) : Prop :=
  match l with
  | [] => True
  | x :: r => match r with [] => True | y :: _ => le x y = true end /\ sorted_le le r
  end.
Lemma insert_le_sorted {A} (le : A -> A -> bool) x l : (forall a b, le a b = false -> le b a = true) ->
  sorted_le le l -> sorted_le le (insert_le le x l).
Proof.
  intros Htot. induction l as [|y r IH]; intros H; [cbn; auto|].
  cbn [insert_le]. destruct (le x y) eqn:E.
  - cbn [sorted_le]. split; [exact E|exact H].
  - destruct H as [Hh Ht]. specialize (IH Ht). cbn [sorted_le]. split; [|exact IH].
    destruct r as [|z r']; cbn [insert_le]; [apply Htot; exact E|].
    destruct (le x z); [apply Htot; exact E|exact Hh].
Qed.
Theorem sort_le_sorted {A} (le : A -> A -> bool) l : (forall a b, le a b = false -> le b a = true) ->
  sorted_le le (sort_le le l).
Proof.
  intros Htot. induction l as [|x r IH]; [exact I|]. unfold sort_le. cbn [fold_right]. fold (sort_le le r).
  apply insert_le_sorted; assumption.
Qed.

Lemma pair_le_total a b : pair_le a b = false -> pair_le b a = true.
Proof.
  unfold pair_le. destruct (Qeq_bool (fst a) (fst b)) eqn:E.
  - assert (E' : Qeq_bool (fst b) (fst a) = true) by (apply Qeq_bool_iff; symmetry; apply Qeq_bool_iff; exact E).
    rewrite E'. intros H. apply Qle_bool_iff. apply Qleb_gt in H. apply Qlt_le_weak. exact H.
  - assert (E' : Qeq_bool (fst b) (fst a) = false).
    { destruct (Qeq_bool (fst b) (fst a)) eqn:E2; [|reflexivity]. apply Qeq_bool_iff in E2. symmetry in E2. apply Qeq_bool_iff in E2. congruence. }
    rewrite E'. intros H. apply Qle_bool_iff. apply Qleb_gt in H. apply Qlt_le_weak. exact H.
Qed.

(* the lines of a box come out ordered by decreasing top, then left to right (horizontal) / by decreasing right edge,
   then top to bottom (vertical), and are the box's lines, each once *)
Theorem box_lines_ordered lines b :
  Permutation (box_lines_sorted lines b) (blines b) /\
  sorted_le (fun m1 m2 => pair_le (line_key lines b m1) (line_key lines b m2)) (box_lines_sorted lines b).
Proof.
  split; [apply sort_le_perm|apply sort_le_sorted]. intros m1 m2. apply pair_le_total.
Qed.

(* ---------- numbering ---------------------------------------------------------------------------------------- *)
Lemma combine_seq_map {A B} (f : nat -> A -> B) (l : list A) : forall s,
  length (map (fun ib => f (fst ib) (snd ib)) (combine (seq s (length l)) l)) = length l.
Proof. intros s. rewrite map_length, combine_length, seq_length. apply Nat.min_id. Qed.

(* boxes_flow = None: the boxes are a permutation of group_textlines' boxes, numbered 0..n-1 in output order *)
Theorem flat_numbering rank p pb gs l : gs <> [] -> boxes_flow p = None -> analyze rank p pb gs = Some l ->
  map oindex (oboxes l) = map Z.of_nat (seq 0 (length (oboxes l))).
Proof.
  intros Hg Hb H. unfold analyze in H. destruct gs as [|g r]; [congruence|]. rewrite Hb in H.
  injection H as <-. cbn [oboxes].
  set (bs := sort_le flat_le _). clearbody bs.
  rewrite map_length, combine_length, seq_length, Nat.min_id.
  rewrite map_map. cbn [finish_box oindex].
  generalize 0%nat. induction bs as [|b bs IH]; intros s; [reflexivity|].
  cbn [length seq combine map fst]. f_equal. apply IH.
Qed.
