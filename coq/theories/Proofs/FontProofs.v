(* C06: simple fonts. *)
From Coq Require Import ZArith QArith List Bool Lia.
From PdfV Require Import Gen.FontTables Model.Fonts.
Import ListNotations.
Open Scope Z_scope.

(* ---------- strings ------------------------------------------------------------------------------ *)
Lemma str_eqb_eq a : forall b, str_eqb a b = true <-> a = b.
Proof.
  induction a as [|x a IH]; intros [|y b]; cbn [str_eqb]; split; intros H; try reflexivity; try discriminate.
  - apply andb_true_iff in H. destruct H as [H1 H2]. apply Z.eqb_eq in H1. apply IH in H2. subst. reflexivity.
  - injection H as -> ->. rewrite Z.eqb_refl. apply IH. reflexivity.
Qed.
Lemma str_eqb_refl a : str_eqb a a = true.
Proof. apply str_eqb_eq. reflexivity. Qed.

Lemma assoc_some {V} k (l : list (str * V)) v : assoc k l = Some v -> In (k, v) l.
Proof.
  induction l as [|[k' v'] l IH]; cbn [assoc]; [discriminate|].
  destruct (str_eqb k k') eqn:E.
  - intros H. injection H as ->. apply str_eqb_eq in E. subst. left. reflexivity.
  - intros H. right. apply IH. exact H.
Qed.

(* ---------- hexadecimal ---------------------------------------------------------------------------- *)
Lemma hexval_range c : is_hex c = true -> 0 <= hexval c < 16.
Proof.
  unfold is_hex, hexval. intros H.
  destruct ((48 <=? c) && (c <=? 57)) eqn:E1; [lia|].
  destruct ((97 <=? c) && (c <=? 102)) eqn:E2; [lia|].
  cbn [orb] in H. lia.
Qed.

Definition hexacc (acc : Z) (s : str) : Z := fold_left (fun a c => a * 16 + hexval c) s acc.
Lemma hexnum_acc s : hexnum s = hexacc 0 s.
Proof. reflexivity. Qed.

Lemma hexacc_bound : forall s acc, forallb is_hex s = true -> 0 <= acc ->
  acc * 16 ^ Z.of_nat (length s) <= hexacc acc s < (acc + 1) * 16 ^ Z.of_nat (length s).
Proof.
  induction s as [|c s IH]; intros acc Hh Ha.
  - cbn. lia.
  - cbn [forallb] in Hh. apply andb_true_iff in Hh. destruct Hh as [Hc Hs].
    pose proof (hexval_range c Hc) as Hr.
    cbn [hexacc fold_left length]. fold (hexacc (acc * 16 + hexval c) s).
    specialize (IH (acc * 16 + hexval c) Hs ltac:(lia)).
    rewrite Nat2Z.inj_succ, Z.pow_succ_r by lia.
    assert (0 < 16 ^ Z.of_nat (length s)) by (apply Z.pow_pos_nonneg; lia).
    nia.
Qed.

(* the value of a hexadecimal numeral lies in [0, 16^n) *)
Lemma hexnum_range s : forallb is_hex s = true -> 0 <= hexnum s < 16 ^ Z.of_nat (length s).
Proof. intros H. pose proof (hexacc_bound s 0 H ltac:(lia)). rewrite hexnum_acc. lia. Qed.

(* positional value, most significant digit first *)
Lemma hexnum_snoc s c : hexnum (s ++ [c]) = hexnum s * 16 + hexval c.
Proof. unfold hexnum. rewrite fold_left_app. reflexivity. Qed.
Lemma hexnum_4 a b c d : hexnum [a; b; c; d] = 4096 * hexval a + 256 * hexval b + 16 * hexval c + hexval d.
Proof. unfold hexnum. cbn [fold_left]. ring. Qed.

(* ---------- chunks ----------------------------------------------------------------------------------- *)
Lemma chunks4_concat : forall gs fuel, Forall (fun g => length g = 4%nat) gs ->
  (length (concat gs) <= fuel)%nat -> chunks4 fuel (concat gs) = gs.
Proof.
  induction gs as [|g gs IH]; intros fuel Hg Hf.
  - destruct fuel; reflexivity.
  - inversion Hg as [|? ? H4 Hr]; subst.
    destruct g as [|a [|b [|c [|d [|e g']]]]]; try discriminate.
    cbn [concat app] in *. cbn [length] in Hf.
    destruct fuel as [|f]; [lia|].
    cbn [chunks4 firstn skipn]. f_equal. apply IH; [exact Hr|lia].
Qed.

Lemma length_concat4 gs : Forall (fun g : str => length g = 4%nat) gs -> length (concat gs) = (4 * length gs)%nat.
Proof.
  induction 1 as [|g gs H4 Hr IH]; [reflexivity|]. cbn [concat length]. rewrite app_length, IH, H4. lia.
Qed.

Lemma forallb_concat {A} (p : A -> bool) gs : forallb p (concat gs) = forallb (forallb p) gs.
Proof. induction gs as [|g gs IH]; [reflexivity|]. cbn [concat forallb]. rewrite forallb_app, IH. reflexivity. Qed.

(* ---------- the uni / u forms --------------------------------------------------------------------- *)
Definition uni_form (name : str) : bool :=
  starts_with s_uni name && all_hex (skipn 3 name) && (Z.of_nat (length (skipn 3 name)) mod 4 =? 0).
Definition u_form (name : str) : bool :=
  starts_with s_u name && negb (starts_with s_uni name) && all_hex (skipn 1 name)
  && (4 <=? Z.of_nat (length (skipn 1 name))) && (Z.of_nat (length (skipn 1 name)) <=? 6).

(* table fact: no glyph list name has the uniXXXX or uXXXX shape, so the list never shadows the grammar *)
Lemma glyphlist_no_forms : forallb (fun e => negb (uni_form (fst e) || u_form (fst e))) GLYPHLIST = true.
Proof. vm_compute. reflexivity. Qed.

Lemma form_not_listed name : uni_form name || u_form name = true -> assoc name GLYPHLIST = None.
Proof.
  intros Hf. destruct (assoc name GLYPHLIST) as [v|] eqn:E; [|reflexivity].
  apply assoc_some in E. pose proof glyphlist_no_forms as H. rewrite forallb_forall in H.
  specialize (H _ E). cbn [fst] in H. rewrite Hf in H. discriminate.
Qed.

Lemma all_hex_not_uni d : all_hex d = true -> starts_with s_uni (117 :: d) = false.
Proof.
  unfold all_hex, starts_with. intros H. apply andb_true_iff in H. destruct H as [_ H].
  destruct (str_eqb s_uni (firstn (length s_uni) (117 :: d))) eqn:E; [|reflexivity].
  apply str_eqb_eq in E. destruct d as [|a d]; [discriminate|].
  cbn [s_uni length firstn] in E. injection E as E _. subst a. cbn [forallb] in H. discriminate.
Qed.

(* uni + 4k hexadecimal digits, k >= 1: the k code points, unless one of them is a surrogate *)
Theorem uni_names gs : gs <> [] -> Forall (fun g => length g = 4%nat /\ forallb is_hex g = true) gs ->
  n2u_component (s_uni ++ concat gs) =
    if existsb bad_unicode (map hexnum gs) then None else Some (map hexnum gs).
Proof.
  intros Hne Hg.
  assert (H4 : Forall (fun g : str => length g = 4%nat) gs) by (eapply Forall_impl; [|exact Hg]; intros g [A _]; exact A).
  assert (Hh : all_hex (concat gs) = true).
  { unfold all_hex. apply andb_true_iff. split.
    - destruct gs as [|g gs']; [congruence|]. inversion H4; subst. destruct g; [discriminate|reflexivity].
    - rewrite forallb_concat. apply forallb_forall. intros g Hin. rewrite Forall_forall in Hg. apply Hg. exact Hin. }
  assert (Hm : Z.of_nat (length (concat gs)) mod 4 =? 0 = true).
  { rewrite length_concat4 by exact H4. apply Z.eqb_eq. rewrite Nat2Z.inj_mul. rewrite Z.mul_comm. apply Z_mod_mult. }
  assert (Hs : starts_with s_uni (s_uni ++ concat gs) = true) by reflexivity.
  assert (Hk : skipn 3 (s_uni ++ concat gs) = concat gs) by reflexivity.
  unfold n2u_component.
  rewrite form_not_listed by (unfold uni_form; rewrite Hs, Hk, Hh, Hm; reflexivity).
  rewrite Hs, Hk, Hh, Hm. cbn [andb].
  rewrite chunks4_concat by (auto; lia). reflexivity.
Qed.

(* u + 4..6 hexadecimal digits: that code point, unless a surrogate or above 10FFFF *)
Theorem u_names d : forallb is_hex d = true -> (4 <= length d <= 6)%nat ->
  n2u_component (117 :: d) = if bad_unicode (hexnum d) then None else Some [hexnum d].
Proof.
  intros Hh Hl.
  assert (Ha : all_hex d = true).
  { unfold all_hex. rewrite Hh. destruct d; [cbn in Hl; lia|reflexivity]. }
  assert (Hs : starts_with s_u (117 :: d) = true) by reflexivity.
  assert (Hk : skipn 1 (117 :: d) = d) by reflexivity.
  assert (L1 : 4 <=? Z.of_nat (length d) = true) by (apply Z.leb_le; lia).
  assert (L2 : Z.of_nat (length d) <=? 6 = true) by (apply Z.leb_le; lia).
  unfold n2u_component.
  rewrite form_not_listed
    by (unfold u_form; rewrite Hs, Hk, Ha, L1, L2, (all_hex_not_uni d Ha), orb_true_r; reflexivity).
  rewrite (all_hex_not_uni d Ha), Hs, Hk, Ha, L1, L2. reflexivity.
Qed.

(* every other name outside the glyph list has no value *)
Theorem other_names name : assoc name GLYPHLIST = None -> uni_form name = false -> u_form name = false ->
  n2u_component name = None.
Proof.
  intros Hl Hu Hv. unfold n2u_component. rewrite Hl.
  unfold uni_form in Hu. unfold u_form in Hv.
  destruct (starts_with s_uni name) eqn:E1.
  - cbn [andb] in Hu. rewrite Hu. reflexivity.
  - destruct (starts_with s_u name) eqn:E2; [|reflexivity].
    cbn [andb negb] in Hv. rewrite Hv. reflexivity.
Qed.

Theorem listed_names name v : assoc name GLYPHLIST = Some v -> n2u_component name = Some v.
Proof. intros H. unfold n2u_component. rewrite H. reflexivity. Qed.

(* ---------- components and suffixes ----------------------------------------------------------------- *)
Definition free_of (sep : Z) (s : str) : bool := forallb (fun c => negb (c =? sep)) s.

Lemma split_on_free sep s : free_of sep s = true -> split_on sep s = [s].
Proof.
  induction s as [|c s IH]; intros H; [reflexivity|].
  cbn [free_of forallb] in H. apply andb_true_iff in H. destruct H as [Hc Hs]. apply negb_true_iff in Hc.
  cbn [split_on]. rewrite Hc. rewrite (IH Hs). reflexivity.
Qed.

Lemma split_on_app sep a b : free_of sep a = true -> split_on sep (a ++ sep :: b) = a :: split_on sep b.
Proof.
  induction a as [|c a IH]; intros H.
  - cbn [app split_on]. rewrite Z.eqb_refl. reflexivity.
  - cbn [free_of forallb] in H. apply andb_true_iff in H. destruct H as [Hc Hs]. apply negb_true_iff in Hc.
    cbn [app split_on]. rewrite Hc. rewrite (IH Hs). reflexivity.
Qed.

Fixpoint join (sep : Z) (l : list str) : str :=
  match l with
  | [] => []
  | [a] => a
  | a :: r => a ++ sep :: join sep r
  end.

Lemma split_join sep comps : comps <> [] -> Forall (fun c => free_of sep c = true) comps ->
  split_on sep (join sep comps) = comps.
Proof.
  induction comps as [|a r IH]; intros Hne Hf; [congruence|].
  inversion Hf as [|? ? Ha Hr]; subst.
  destruct r as [|b r'].
  - cbn [join]. apply split_on_free. exact Ha.
  - change (join sep (a :: b :: r')) with (a ++ sep :: join sep (b :: r')).
    rewrite split_on_app by exact Ha. rewrite IH; [reflexivity|discriminate|exact Hr].
Qed.

Lemma free_join sep x comps : x <> sep -> Forall (fun c => free_of x c = true) comps -> free_of x (join sep comps) = true.
Proof.
  intros Hx. induction comps as [|a r IH]; intros Hf; [reflexivity|].
  inversion Hf as [|? ? Ha Hr]; subst. destruct r as [|b r']; [exact Ha|].
  change (join sep (a :: b :: r')) with (a ++ sep :: join sep (b :: r')).
  unfold free_of. rewrite forallb_app. cbn [forallb]. fold (free_of x a). rewrite Ha.
  fold (free_of x (join sep (b :: r'))). rewrite (IH Hr).
  assert (sep =? x = false) by (apply Z.eqb_neq; congruence). rewrite H. reflexivity.
Qed.

(* a suffix that the algorithm drops: nothing, or a period and anything after it *)
Definition dot_suffix (s : str) : Prop := s = [] \/ exists t, s = 46 :: t.

Lemma before_dot_suffix n s : free_of 46 n = true -> dot_suffix s -> before_dot (n ++ s) = n.
Proof.
  intros Hn [-> | [t ->]]; unfold before_dot.
  - rewrite app_nil_r, split_on_free by exact Hn. reflexivity.
  - rewrite split_on_app by exact Hn. reflexivity.
Qed.

(* one component followed by a dot suffix *)
Theorem single_component comp s : free_of 46 comp = true -> free_of 95 comp = true -> dot_suffix s ->
  name2unicode (comp ++ s) = n2u_component comp.
Proof.
  intros Hd Hu Hs. unfold name2unicode. rewrite before_dot_suffix by assumption.
  rewrite split_on_free by exact Hu. reflexivity.
Qed.

(* two or more components joined by underscores, then a dot suffix: the concatenation of the components'
   values, and no value at all as soon as one component has none *)
Theorem compound_name comps s : (2 <= length comps)%nat ->
  Forall (fun c => free_of 46 c = true) comps -> Forall (fun c => free_of 95 c = true) comps -> dot_suffix s ->
  name2unicode (join 95 comps ++ s) = concat_opt (map n2u_component comps).
Proof.
  intros Hl Hd Hu Hs. unfold name2unicode.
  rewrite before_dot_suffix; [|apply free_join; [lia|exact Hd]|exact Hs].
  rewrite split_join; [|destruct comps; [cbn in Hl; lia|discriminate]|exact Hu].
  destruct comps as [|a [|b r]]; cbn [length] in Hl; try lia. reflexivity.
Qed.

Lemma concat_opt_all l vs : map Some vs = l -> concat_opt l = Some (concat vs).
Proof.
  intros <-. induction vs as [|v vs IH]; [reflexivity|]. cbn [map concat_opt concat]. rewrite IH. reflexivity.
Qed.
Lemma concat_opt_none l : In None l -> concat_opt l = None.
Proof.
  induction l as [|[s|] l IH]; intros H; [contradiction| |reflexivity].
  cbn [concat_opt]. destruct H as [H|H]; [discriminate|]. rewrite (IH H). reflexivity.
Qed.

(* ---------- precedence -------------------------------------------------------------------------------- *)
Theorem tounicode_wins f m code s : ftounicode f = Some m -> zassoc code m = Some s -> to_unichr f code = Some s.
Proof. intros H1 H2. unfold to_unichr. rewrite H1, H2. reflexivity. Qed.

Theorem tounicode_miss f m code : ftounicode f = Some m -> zassoc code m = None -> to_unichr f code = cid2unicode f code.
Proof. intros H1 H2. unfold to_unichr. rewrite H1, H2. reflexivity. Qed.

Theorem no_tounicode f code : ftounicode f = None -> to_unichr f code = cid2unicode f code.
Proof. intros H1. unfold to_unichr. rewrite H1. reflexivity. Qed.

Theorem placeholder f code : to_unichr f code = None ->
  char_text f code = [40; 99; 105; 100; 58] ++ decimal code ++ [41].
Proof. intros H. unfold char_text. rewrite H. reflexivity. Qed.

Theorem text_defined f code s : to_unichr f code = Some s -> char_text f code = s.
Proof. intros H. unfold char_text. rewrite H. reflexivity. Qed.

(* which code map: explicit /Encoding, else the embedded program's (Type 1 with a FontFile), else Standard *)
Theorem encoding_source f code :
  cid2unicode f code =
    match fenc f with
    | Some (nm, diff) => get_encoding nm diff code
    | None => match fkind_ f, fbuiltin f with
              | KType1, Some items => builtin_get items code None
              | _, _ => enc_base EStd code
              end
    end.
Proof.
  unfold cid2unicode. destruct (fenc f) as [[nm diff]|]; [reflexivity|].
  destruct (fkind_ f); [destruct (fbuiltin f)|]; reflexivity.
Qed.

(* ---------- Differences ----------------------------------------------------------------------------- *)
(* ISO 32000-1 Table 114: each integer sets the code, each name takes the current code and advances it *)
Fixpoint assignments (d : list ditem) (cid : Z) : list (Z * option str) :=
  match d with
  | [] => []
  | DInt z :: r => assignments r z
  | DName n :: r => (cid, n) :: assignments r (cid + 1)
  | DOther :: r => assignments r cid
  end.
Definition last_assigned (code : Z) (l : list (Z * option str)) (init : option (option str)) : option (option str) :=
  fold_left (fun acc e => if fst e =? code then Some (snd e) else acc) l init.

Lemma last_assigned_init code l init :
  last_assigned code l init = match last_assigned code l None with Some x => Some x | None => init end.
Proof.
  revert init. induction l as [|e l IH]; intros init; [reflexivity|].
  unfold last_assigned in *. cbn [fold_left]. rewrite IH. rewrite (IH (if fst e =? code then Some (snd e) else None)).
  destruct (fold_left _ l None); [reflexivity|]. destruct (fst e =? code); reflexivity.
Qed.

Lemma diff_loop_spec code : forall d cid o,
  ov_get (diff_loop d cid o) code =
    match last_assigned code (assignments d cid) None with
    | Some n => Some (name2unicode_obj n)
    | None => ov_get o code
    end.
Proof.
  induction d as [|[z|n|] d IH]; intros cid o; cbn [diff_loop assignments].
  - reflexivity.
  - apply IH.
  - rewrite IH. unfold last_assigned at 2. cbn [fold_left fst snd].
    fold (last_assigned code (assignments d (cid + 1)) (if cid =? code then Some n else None)).
    rewrite (last_assigned_init code _ (if cid =? code then Some n else None)).
    destruct (last_assigned code (assignments d (cid + 1)) None); [reflexivity|].
    cbn [ov_get]. destruct (cid =? code); reflexivity.
  - apply IH.
Qed.

(* the table: the value of the LAST name assigned to the code (no value if that name has none), and the base
   encoding's entry for every code the array does not assign *)
Theorem get_encoding_spec nm diff code :
  get_encoding nm diff code =
    match last_assigned code (assignments diff 0) None with
    | Some n => name2unicode_obj n
    | None => enc_base (sel_of_name nm) code
    end.
Proof.
  unfold get_encoding. rewrite diff_loop_spec. cbn [ov_get].
  destruct (last_assigned code (assignments diff 0) None); reflexivity.
Qed.

(* consecutive codes after an integer *)
Lemma assignments_names names c : assignments (map DName names) c = combine (map (fun i => c + Z.of_nat i) (seq 0 (length names))) names.
Proof.
  revert c. induction names as [|n names IH]; intros c; [reflexivity|].
  cbn [map assignments length seq combine]. rewrite Z.add_0_r. f_equal.
  rewrite IH. f_equal. rewrite <- seq_shift, map_map. apply map_ext. intros i. lia.
Qed.
Theorem differences_run k c names :
  assignments (DInt c :: map DName names) k = combine (map (fun i => c + Z.of_nat i) (seq 0 (length names))) names.
Proof. cbn [assignments]. apply assignments_names. Qed.

Theorem no_differences nm code : get_encoding nm [] code = enc_base (sel_of_name nm) code.
Proof. reflexivity. Qed.

(* ---------- widths --------------------------------------------------------------------------------------- *)
Theorem width_from_widths f l code w : fwidths f = Some l -> 0 <= code - ffirst f ->
  nth_error l (Z.to_nat (code - ffirst f)) = Some (WNum w) -> char_width f code = (w * hscale f)%Q.
Proof.
  intros Hw Hi Hn. unfold char_width, uses_std14, width_list. rewrite Hw.
  destruct (std14_metrics f); destruct (code - ffirst f <? 0) eqn:E; try lia; rewrite Hn; reflexivity.
Qed.

Theorem width_missing f l code : fwidths f = Some l ->
  (code - ffirst f < 0 \/ nth_error l (Z.to_nat (code - ffirst f)) = None \/ nth_error l (Z.to_nat (code - ffirst f)) = Some WBad) ->
  char_width f code = (match fdescriptor f with Some (mw, _) => mw | None => 0%Q end * hscale f)%Q.
Proof.
  intros Hw H. unfold char_width, fmissing, uses_std14, width_list. rewrite Hw.
  assert (U : match std14_metrics f with Some _ => false | None => false end = false) by (destruct (std14_metrics f); reflexivity).
  rewrite U.
  destruct (code - ffirst f <? 0) eqn:E; [reflexivity|].
  destruct H as [H|[H|H]]; [lia|rewrite H; reflexivity|rewrite H; reflexivity].
Qed.

(* standard-14 font without Widths: the AFM width of the code's character, 0 when it has none *)
Theorem width_std14 f n m code : fkind_ f = KType1 -> basefont f = Some n ->
  assoc (match assoc n FONT_ALIASES with Some t => t | None => n end) FONT_METRICS = Some m -> fwidths f = None ->
  char_width f code =
    match to_unichr f code with
    | Some s => match assoc s m with Some w => (inject_Z w * (1 # 1000))%Q | None => 0%Q end
    | None => 0%Q
    end.
Proof.
  intros Hk Hb Hm Hw. unfold char_width, uses_std14, std14_metrics, hscale. rewrite Hk, Hb, Hm, Hw. reflexivity.
Qed.

Theorem scale_type3 f : fkind_ f = KType3 -> hscale f = fmatrix_a f.
Proof. intros H. unfold hscale. rewrite H. reflexivity. Qed.
Theorem scale_type1 f : fkind_ f = KType1 -> hscale f = (1 # 1000)%Q.
Proof. intros H. unfold hscale. rewrite H. reflexivity. Qed.

(* ---------- table facts (finite, by computation) --------------------------------------------------------- *)
Definition is_some {A} (o : option A) : bool := match o with Some _ => true | None => false end.

(* every name used by the four base encodings has a Unicode value (the class body cannot raise) *)
Lemma encoding_rows_mapped : forallb (fun r => is_some (name2unicode (fst r))) ENCODING = true.
Proof. vm_compute. reflexivity. Qed.

(* no glyph list value contains a surrogate or a code point above 10FFFF *)
Lemma glyphlist_values_ok : forallb (fun e => negb (existsb bad_unicode (snd e))) GLYPHLIST = true.
Proof. vm_compute. reflexivity. Qed.

Lemma decimal_examples : decimal 0 = [48] /\ decimal 65 = [54; 53] /\ decimal 255 = [50; 53; 53] /\ decimal 1000 = [49; 48; 48; 48].
Proof. vm_compute. repeat split. Qed.
