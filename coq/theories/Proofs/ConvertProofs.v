(* C11: converters. *)
From Coq Require Import ZArith List Bool Lia.
From PdfV Require Import Model.Convert.
Import ListNotations.
Open Scope Z_scope.

(* ---------- escaping -------------------------------------------------------------------------------------------- *)
Lemma escape_app a b : escape (a ++ b) = escape a ++ escape b.
Proof. unfold escape. apply flat_map_app. Qed.

Lemma escape_char_cases c :
  (c = 38 /\ escape_char c = s_amp) \/ (c = 60 /\ escape_char c = s_lt) \/ (c = 62 /\ escape_char c = s_gt) \/
  (c = 34 /\ escape_char c = s_quot) \/ (c = 39 /\ escape_char c = s_apos) \/
  (c <> 38 /\ c <> 60 /\ c <> 62 /\ c <> 34 /\ c <> 39 /\ escape_char c = [c]).
Proof.
  unfold escape_char.
  destruct (c =? 38) eqn:E1; [apply Z.eqb_eq in E1; tauto|].
  destruct (c =? 60) eqn:E2; [apply Z.eqb_eq in E2; tauto|].
  destruct (c =? 62) eqn:E3; [apply Z.eqb_eq in E3; tauto|].
  destruct (c =? 34) eqn:E4; [apply Z.eqb_eq in E4; tauto|].
  destruct (c =? 39) eqn:E5; [apply Z.eqb_eq in E5; tauto|].
  apply Z.eqb_neq in E1, E2, E3, E4, E5. tauto.
Qed.

(* no markup character survives escaping: neither in character data nor inside a double-quoted attribute *)
Theorem escape_safe s : Forall (fun c => c <> 60 /\ c <> 62 /\ c <> 34 /\ c <> 39) (escape s).
Proof.
  induction s as [|c s IH]; [constructor|]. unfold escape. cbn [flat_map]. fold (escape s). apply Forall_app. split; [|exact IH].
  destruct (escape_char_cases c) as [[_ ->]|[[_ ->]|[[_ ->]|[[_ ->]|[[_ ->]|(A & B & C & D & E & ->)]]]]];
    repeat constructor; try lia; try assumption.
Qed.

(* a reader that decodes the five entities gets the original string back: for EVERY string *)
Theorem unescape_escape : forall s fuel, (length (escape s) <= fuel)%nat -> unescape fuel (escape s) = s.
Proof.
  induction s as [|c s IH]; intros fuel Hf.
  - destruct fuel; reflexivity.
  - unfold escape in *. cbn [flat_map] in *. fold (escape s) in *. rewrite app_length in Hf.
    destruct (escape_char_cases c) as [[-> E]|[[-> E]|[[-> E]|[[-> E]|[[-> E]|(A & B & C & D & F & E)]]]]]; rewrite E in *; cbn [length s_amp s_lt s_gt s_quot s_apos] in Hf.
    + destruct fuel as [|f]; [lia|]. cbn [s_amp app unescape starts Z.eqb Pos.eqb]. f_equal. apply IH. lia.
    + destruct fuel as [|f]; [lia|]. cbn [s_lt s_amp app unescape starts Z.eqb Pos.eqb]. f_equal. apply IH. lia.
    + destruct fuel as [|f]; [lia|]. cbn [s_gt s_lt s_amp app unescape starts Z.eqb Pos.eqb]. f_equal. apply IH. lia.
    + destruct fuel as [|f]; [lia|]. cbn [s_quot s_gt s_lt s_amp app unescape starts Z.eqb Pos.eqb]. f_equal. apply IH. lia.
    + destruct fuel as [|f]; [lia|]. cbn [s_apos s_quot s_gt s_lt s_amp app unescape starts Z.eqb Pos.eqb]. f_equal. apply IH. lia.
    + destruct fuel as [|f]; [lia|]. cbn [app unescape].
      assert (E38 : c =? 38 = false) by (apply Z.eqb_neq; exact A). rewrite E38. f_equal. apply IH. lia.
Qed.

(* strip_control *)
Theorem strip_control_clean s : Forall (fun c => is_control c = false) (strip_control s).
Proof.
  unfold strip_control. apply Forall_forall. intros c Hc. apply filter_In in Hc. destruct Hc as [_ H].
  apply negb_true_iff in H. exact H.
Qed.
Theorem strip_control_keeps s : Forall (fun c => is_control c = false) s -> strip_control s = s.
Proof.
  induction 1 as [|c s Hc Hs IH]; [reflexivity|]. unfold strip_control in *. cbn [filter]. rewrite Hc. cbn [negb]. f_equal. exact IH.
Qed.

(* ---------- text output = the tree's text, in order ---------------------------------------------------------- *)
Theorem text_of_pages p ps : text_output (p :: ps) = page_text p ++ text_output ps.
Proof. reflexivity. Qed.
Theorem text_of_page p : page_text p = flat_map item_text (pitems p) ++ [12].
Proof. reflexivity. Qed.
Theorem text_of_box b : item_text (IBox b) = flat_map line_text (tblines b) ++ [10].
Proof. reflexivity. Qed.
Theorem text_of_line l : item_text (ILine l) = flat_map elem_text (tlelems l).
Proof. reflexivity. Qed.
Theorem text_of_figure n bb kids : item_text (IFigure n bb kids) = flat_map item_text kids.
Proof. reflexivity. Qed.
Theorem text_items_app a b : flat_map item_text (a ++ b) = flat_map item_text a ++ flat_map item_text b.
Proof. apply flat_map_app. Qed.

(* ---------- induction over nested items / groups -------------------------------------------------------------- *)
Section ItemInd.
  Variable P : item -> Prop.
  Hypothesis Hbox : forall b, P (IBox b).
  Hypothesis Hline : forall l, P (ILine l).
  Hypothesis Hchar : forall c, P (IChar c).
  Hypothesis Hfig : forall n bb kids, Forall P kids -> P (IFigure n bb kids).
  Hypothesis Hshape : forall k lw bb pts, P (IShape k lw bb pts).
  Hypothesis Himage : forall w h, P (IImage w h).
  Fixpoint item_ind' (i : item) : P i :=
    match i with
    | IBox b => Hbox b
    | ILine l => Hline l
    | IChar c => Hchar c
    | IFigure n bb kids =>
        Hfig n bb kids ((fix go (l : list item) : Forall P l :=
                           match l with [] => Forall_nil P | x :: r => Forall_cons x (item_ind' x) (go r) end) kids)
    | IShape k lw bb pts => Hshape k lw bb pts
    | IImage w h => Himage w h
    end.
End ItemInd.
Section GroupInd.
  Variable P : gtree -> Prop.
  Hypothesis Hb : forall id bb, P (GBox id bb).
  Hypothesis Hg : forall bb kids, Forall P kids -> P (GGroup bb kids).
  Fixpoint gtree_ind' (g : gtree) : P g :=
    match g with
    | GBox id bb => Hb id bb
    | GGroup bb kids =>
        Hg bb kids ((fix go (l : list gtree) : Forall P l :=
                       match l with [] => Forall_nil P | x :: r => Forall_cons x (gtree_ind' x) (go r) end) kids)
    end.
End GroupInd.

(* ---------- the element structure is well nested -------------------------------------------------------------- *)
Fixpoint str_eqb (a b : str) : bool :=
  match a, b with [], [] => true | x :: a', y :: b' => (x =? y) && str_eqb a' b' | _, _ => false end.
Lemma str_eqb_refl a : str_eqb a a = true.
Proof. induction a as [|x a IH]; [reflexivity|]. cbn. rewrite Z.eqb_refl, IH. reflexivity. Qed.

(* run the tokens against a stack of open element names; None = mismatched or stray closing tag *)
Fixpoint nest (toks : list token) (stack : list str) : option (list str) :=
  match toks with
  | [] => Some stack
  | TOpen n _ :: r => nest r (n :: stack)
  | TClose n :: r => match stack with
                     | top :: st => if str_eqb n top then nest r st else None
                     | [] => None
                     end
  | _ :: r => nest r stack
  end.

Lemma nest_app a : forall b st st', nest a st = Some st' -> nest (a ++ b) st = nest b st'.
Proof.
  induction a as [|t a IH]; intros b st st' H.
  - cbn in H. injection H as <-. reflexivity.
  - destruct t as [n at_|n at_ sp|n|s|]; cbn [app nest] in *; try (apply IH; exact H).
    destruct st as [|top st0]; [discriminate|]. destruct (str_eqb n top); [apply IH; exact H|discriminate].
Qed.

Definition neutral (toks : list token) : Prop := forall st, nest toks st = Some st.

Lemma neutral_nil : neutral [].
Proof. intros st. reflexivity. Qed.
Lemma neutral_app a b : neutral a -> neutral b -> neutral (a ++ b).
Proof. intros Ha Hb st. rewrite (nest_app a b st st (Ha st)). apply Hb. Qed.
Lemma neutral_flat_map {A} (f : A -> list token) l : Forall (fun x => neutral (f x)) l -> neutral (flat_map f l).
Proof. induction 1 as [|x l Hx Hl IH]; [apply neutral_nil|]. cbn [flat_map]. apply neutral_app; assumption. Qed.
Lemma neutral_wrap n at_ body : neutral body -> neutral ([TOpen n at_; TNewline] ++ body ++ [TClose n; TNewline]).
Proof.
  intros Hb st. cbn [app nest]. rewrite (nest_app body [TClose n; TNewline] (n :: st) (n :: st) (Hb (n :: st))).
  cbn [nest]. rewrite str_eqb_refl. reflexivity.
Qed.

Lemma chr_neutral strip c : neutral (chr_tokens strip c).
Proof. intros st. cbn [chr_tokens nest]. rewrite str_eqb_refl. reflexivity. Qed.
Lemma elem_neutral strip e : neutral (elem_tokens strip e).
Proof. destruct e; [apply chr_neutral|]. intros st. cbn [elem_tokens nest]. rewrite str_eqb_refl. reflexivity. Qed.
Lemma line_neutral strip l : neutral (line_tokens strip l).
Proof.
  unfold line_tokens. apply (neutral_wrap n_textline). apply neutral_flat_map. apply Forall_forall. intros e _. apply elem_neutral.
Qed.
Lemma box_neutral strip b : neutral (box_tokens strip b).
Proof.
  unfold box_tokens. apply (neutral_wrap n_textbox). apply neutral_flat_map. apply Forall_forall. intros l _. apply line_neutral.
Qed.
Lemma item_neutral strip : forall i, neutral (item_tokens strip i).
Proof.
  apply item_ind'.
  - intros b. apply box_neutral.
  - intros l. apply line_neutral.
  - intros c. apply chr_neutral.
  - intros n bb kids IH. cbn [item_tokens]. apply (neutral_wrap n_figure). apply neutral_flat_map. exact IH.
  - intros k lw bb pts st. cbn [item_tokens]. destruct (k =? 0); [reflexivity|]. destruct (k =? 1); reflexivity.
  - intros w h st. reflexivity.
Qed.
Lemma group_neutral : forall g, neutral (group_tokens g).
Proof.
  apply gtree_ind'.
  - intros id bb st. reflexivity.
  - intros bb kids IH. cbn [group_tokens]. apply (neutral_wrap n_textgroup). apply neutral_flat_map. exact IH.
Qed.
Lemma page_neutral strip p : neutral (page_tokens strip p).
Proof.
  unfold page_tokens.
  set (A := flat_map (item_tokens strip) (pitems p)).
  set (B := match pgroups p with
            | Some gs => [TOpen n_layout []; TNewline] ++ flat_map group_tokens gs ++ [TClose n_layout; TNewline]
            | None => [] end).
  rewrite (app_assoc A B). apply (neutral_wrap n_page). subst A B.
  apply neutral_app.
  - apply neutral_flat_map. apply Forall_forall. intros i _. apply item_neutral.
  - destruct (pgroups p) as [gs|]; [|apply neutral_nil].
    apply (neutral_wrap n_layout). apply neutral_flat_map. apply Forall_forall. intros g _. apply group_neutral.
Qed.

(* every opened element is closed by the matching tag, in order, and nothing is left open: for EVERY document *)
Theorem xml_well_nested strip pages : nest (body_tokens strip pages) [] = Some [].
Proof.
  unfold body_tokens. apply (neutral_wrap n_pages).
  apply neutral_flat_map. apply Forall_forall. intros p _. apply page_neutral.
Qed.

(* ---------- faithful character data ------------------------------------------------------------------------------ *)
(* what a reader gets from the character data of a glyph's <text> element is the glyph's text *)
Theorem glyph_data_roundtrip c :
  unescape (length (xml_write_text false (ctext c))) (xml_write_text false (ctext c)) = ctext c.
Proof. unfold xml_write_text. apply unescape_escape. lia. Qed.
Theorem glyph_data_stripped c :
  unescape (length (xml_write_text true (ctext c))) (xml_write_text true (ctext c)) = strip_control (ctext c) /\
  Forall (fun ch => is_control ch = false) (strip_control (ctext c)).
Proof. split; [unfold xml_write_text; apply unescape_escape; lia|apply strip_control_clean]. Qed.
(* and the font name (and a figure's XObject name) comes back from its attribute value *)
Theorem name_attribute_roundtrip (name : str) :
  unescape (length (escape name)) (escape name) = name /\ Forall (fun c => c <> 60 /\ c <> 62 /\ c <> 34 /\ c <> 39) (escape name).
Proof. split; [apply unescape_escape; lia|apply escape_safe]. Qed.
