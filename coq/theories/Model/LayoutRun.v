(* Entry points evaluated by harness/c08.py and harness/c09.py *)
From Coq Require Import ZArith QArith List Bool.
From PdfV Require Import Base.CV Base.Num Gen.Geom Model.Plane Model.Layout.
Import ListNotations.
Open Scope Z_scope.

Definition cq (q : Q) : cv := let r := Qred q in CL [CZ (Qnum r); CZ (Zpos (Qden r))].
Definition cbox (b : box) : cv := let '(x0, y0, x1, y1) := b in CL [cq x0; cq y0; cq x1; cq y1].
Definition celem (e : elem) : cv :=
  match e with EChar g => CZ (Z.of_nat (gid g)) | EAnno t => CL (map CZ t) end.
Definition cori (o : orient) : cv := CZ (match o with OH => 0 | OV => 1 end).
Definition cline (l : line) : cv := CL [cori (lori l); cbox (the_box (lbox l)); CL (map celem (lelems l))].
Fixpoint ctree (t : tnode) : cv :=
  match t with
  | NBox i => CZ (Z.of_nat i)
  | NGroup _ tbrl a b => CL [cvb tbrl; ctree a; ctree b]
  end.

(* the first stage alone *)
Definition run_lines (x : laparams * list glyph) : cv := let '(p, gs) := x in CL (map cline (group_objects p gs)).

(* the whole analysis: (params, page box, glyphs) -> [boxes; empties; groups; ambiguous] ; -1 = out of fuel *)
Definition run_analyze (x : laparams * box * list glyph) : cv :=
  let '(p, pb, gs) := x in
  let '(x0, y0, x1, y1) := pb in
  match analyze Z.of_nat p (mkPlaneB x0 y0 x1 y1 50%Z) gs with
  | None => CZ (-1)
  | Some l =>
      CL [CL (map (fun b => CL [cori (oori b); CZ (oindex b); cbox (obbox b); CL (map cline (olines b))]) (oboxes l));
          CL (map cline (oempties l)); CL (map ctree (ogroups l)); cvb (oambiguous l)]
  end.
