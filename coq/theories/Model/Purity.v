(* Executable model of the process-wide and per-manager state through which one extraction could influence another
   (definitions only): the shared encoding tables behind EncodingDB.get_encoding (a heap of dictionaries with
   aliasing), caches of the form "look up, else compute and remember" (PDFDocument._cached_objs,
   PDFResourceManager._cached_fonts, CMapDB._cmap_cache/_umap_cache, PSSymbolTable.intern), and independent
   state machines run in an interleaved order (the page iterators of several documents).  The flags come from the
   source (Gen/Purity.v). *)
From Coq Require Import ZArith List Bool.
From PdfV Require Import Gen.Purity.
Import ListNotations.
Open Scope Z_scope.

(* ---------- dictionaries on a heap: get_encoding ------------------------------------------------------------ *)
Definition dict := list (Z * option Z).                    (* code -> value; None = popped *)
Definition heap := list dict.                              (* addresses are positions; 0..3 are the shared tables *)

Fixpoint dget (d : dict) (k : Z) : option Z :=
  match d with
  | [] => None
  | (k', v) :: r => if k =? k' then v else dget r k
  end.
Definition apply_diff (d : dict) (diff : list (Z * option Z)) : dict := rev diff ++ d.      (* later entries win *)

Fixpoint hset (h : heap) (a : nat) (d : dict) : heap :=
  match h, a with
  | [], _ => []
  | _ :: r, O => d :: r
  | x :: r, S a' => x :: hset r a' d
  end.

(* get_encoding(name, diff): returns the address of the table the font will use *)
Definition get_encoding (copy_first : bool) (h : heap) (sel : nat) (diff : list (Z * option Z)) : heap * nat :=
  match diff with
  | [] => (h, sel)                                         (* the shared table itself *)
  | _ =>
      if copy_first then (h ++ [apply_diff (nth sel h []) diff], length h)
      else (hset h sel (apply_diff (nth sel h []) diff), sel)
  end.

(* a history: fonts created one after the other; each remembers its table's address *)
Fixpoint run_fonts (copy_first : bool) (h : heap) (specs : list (nat * list (Z * option Z))) : heap * list nat :=
  match specs with
  | [] => (h, [])
  | (sel, diff) :: r =>
      let (h1, a) := get_encoding copy_first h sel diff in
      let (h2, rest) := run_fonts copy_first h1 r in (h2, a :: rest)
  end.
Definition font_lookup (h : heap) (a : nat) (code : Z) : option Z := dget (nth a h []) code.

(* ---------- caches ------------------------------------------------------------------------------------------------ *)
Section Cache.
  Variables (K V : Type) (keqb : K -> K -> bool) (compute : K -> V).
  Definition cache := list (K * V).
  Fixpoint cfind (c : cache) (k : K) : option V :=
    match c with
    | [] => None
    | (k', v) :: r => if keqb k k' then Some v else cfind r k
    end.
  (* `if key in cache: return cache[key]; v = compute(key); if caching: cache[key] = v; return v` *)
  Definition cget (caching : bool) (c : cache) (k : K) : cache * V :=
    match cfind c k with
    | Some v => (c, v)
    | None => let v := compute k in (if caching then (k, v) :: c else c, v)
    end.
  Fixpoint cruns (caching : bool) (c : cache) (ks : list K) : list V :=
    match ks with
    | [] => []
    | k :: r => let (c', v) := cget caching c k in v :: cruns caching c' r
    end.
End Cache.

(* ---------- independent machines, interleaved -------------------------------------------------------------------- *)
Section Interleave.
  Variables (S1 S2 O1 O2 : Type) (step1 : S1 -> S1 * O1) (step2 : S2 -> S2 * O2).
  (* a schedule: true = advance document 1, false = advance document 2 *)
  Fixpoint irun (sched : list bool) (s1 : S1) (s2 : S2) : list O1 * list O2 :=
    match sched with
    | [] => ([], [])
    | true :: r => let (s1', o) := step1 s1 in let (a, b) := irun r s1' s2 in (o :: a, b)
    | false :: r => let (s2', o) := step2 s2 in let (a, b) := irun r s1 s2' in (a, o :: b)
    end.
  Fixpoint run1 (n : nat) (s : S1) : list O1 :=
    match n with O => [] | S n' => let (s', o) := step1 s in o :: run1 n' s' end.
  Fixpoint run2 (n : nat) (s : S2) : list O2 :=
    match n with O => [] | S n' => let (s', o) := step2 s in o :: run2 n' s' end.
End Interleave.
