(* Executable model of the two places where a document-controlled name becomes a file name (definitions only):
   cmapdb.CMapDB._load_data and image.ImageWriter._create_unique_image_name, over a model of POSIX
   os.path.join / os.path.basename and of path resolution (normpath).  Strings are lists of code points. *)
From Coq Require Import ZArith List Bool.
Import ListNotations.
Open Scope Z_scope.

Definition str := list Z.
Definition SLASH : Z := 47.

Fixpoint str_eqb (a b : str) : bool :=
  match a, b with [], [] => true | x :: a', y :: b' => (x =? y) && str_eqb a' b' | _, _ => false end.

(* os.path.join(a, b) on POSIX: an absolute b replaces a; otherwise a, one separator, b *)
Definition is_abs (p : str) : bool := match p with c :: _ => c =? SLASH | [] => false end.
Definition ends_slash (p : str) : bool := match rev p with c :: _ => c =? SLASH | [] => false end.
Definition join (a b : str) : str :=
  if is_abs b then b else if ends_slash a || (match a with [] => true | _ => false end) then a ++ b else a ++ [SLASH] ++ b.

(* os.path.basename: everything after the last '/' *)
Fixpoint basename_go (p acc : str) : str :=
  match p with
  | [] => rev acc
  | c :: r => if c =? SLASH then basename_go r [] else basename_go r (c :: acc)
  end.
Definition basename (p : str) : str := basename_go p [].

(* components and resolution of "." and ".." (normpath of an absolute path) *)
Fixpoint split_go (p cur : str) : list str :=
  match p with
  | [] => [rev cur]
  | c :: r => if c =? SLASH then rev cur :: split_go r [] else split_go r (c :: cur)
  end.
Definition components (p : str) : list str := split_go p [].
Definition DOT : str := [46].
Definition DOTDOT : str := [46; 46].
Fixpoint resolve (comps : list str) (stack : list str) : list str :=        (* stack: innermost first *)
  match comps with
  | [] => rev stack
  | c :: r =>
      if (match c with [] => true | _ => false end) || str_eqb c DOT then resolve r stack
      else if str_eqb c DOTDOT then resolve r (tl stack)
      else resolve r (c :: stack)
  end.
Definition normpath (p : str) : list str := resolve (components p) [].

(* ---------- CMapDB._load_data ----------------------------------------------------------------------------------- *)
Definition s_pickle_gz : str := [46;112;105;99;107;108;101;46;103;122].          (* .pickle.gz *)
Definition remove_nul (s : str) : str := filter (fun c => negb (c =? 0)) s.
(* the candidate paths, one per resource directory; [] when the name is refused *)
Definition cmap_paths (dirs : list str) (name : str) : list str :=
  let filename := remove_nul name ++ s_pickle_gz in
  if str_eqb (basename filename) filename then map (fun d => join d filename) dirs else [].

(* ---------- ImageWriter._create_unique_image_name ------------------------------------------------------------ *)
Definition sanitize (name : str) : str := map (fun c => if (c =? 0) || (c =? SLASH) || (c =? 92) then 95 else c) name.
Definition image_path (outdir name ext : str) : str := join outdir (sanitize name ++ ext).
