(* Executable model of PDFLayoutAnalyzer.paint_path and the LTLine / LTRect / LTCurve
   constructors (definitions only).  Input: the EPath events of Model/Interp.v. *)
From Coq Require Import ZArith QArith List Bool.
From PdfV Require Import Base.Num Gen.Geom Model.Interp.
Import ListNotations.
Open Scope Q_scope.

Inductive letter := Lm | Ll | Lc | Lv | Ly | Lh.
Definition seg_letter (s : seg) : letter :=
  match s with SegM _ _ => Lm | SegL _ _ => Ll | SegC _ _ _ _ _ _ => Lc | SegV _ _ _ _ => Lv
             | SegY _ _ _ _ => Ly | SegH => Lh end.
Definition letter_eqb (a b : letter) : bool :=
  match a, b with Lm, Lm | Ll, Ll | Lc, Lc | Lv, Lv | Ly, Ly | Lh, Lh => true | _, _ => false end.
Definition is_m (s : seg) : bool := match s with SegM _ _ => true | _ => false end.

(* all operand pairs of a segment / its point position (last two operands) *)
Definition seg_operands (s : seg) : list (Q * Q) :=
  match s with
  | SegM x y | SegL x y => [(x, y)]
  | SegC x1 y1 x2 y2 x3 y3 => [(x1, y1); (x2, y2); (x3, y3)]
  | SegV x2 y2 x3 y3 => [(x2, y2); (x3, y3)]
  | SegY x1 y1 x3 y3 => [(x1, y1); (x3, y3)]
  | SegH => []
  end.
Definition seg_point (first : Q * Q) (s : seg) : Q * Q :=
  match s with SegH => first | _ => last (seg_operands s) (0, 0) end.

Inductive skind := KLine | KRect | KCurve.
Record shape := mkShape {
  skind_ : skind; spts : list (Q * Q);
  sstroke : bool; sfill : bool; sevenodd : bool;
  slinewidth : Q; sdash : option (operand * operand);
  sscolor : option color; sncolor : option color;
  soriginal : list (letter * list (Q * Q))
}.

Definition pt_eqb (a b : Q * Q) : bool := Qeq_bool (fst a) (fst b) && Qeq_bool (snd a) (snd b).

Fixpoint letters_eqb (a b : list letter) : bool :=
  match a, b with
  | [], [] => true
  | x :: a', y :: b' => letter_eqb x y && letters_eqb a' b'
  | _, _ => false
  end.

(* re.finditer(r"m[^m]+", shape): blocks m followed by at least one other operator *)
Fixpoint split_m (path : list seg) (cur : list seg) : list (list seg) :=
  match path with
  | [] => match cur with _ :: _ :: _ => [cur] | _ => [] end
  | s :: r =>
      if is_m s then
        (match cur with _ :: _ :: _ => [cur] | _ => [] end) ++ split_m r [s]
      else match cur with
           | [] => split_m r []                         (* before any m: not part of a match *)
           | _ => split_m r (cur ++ [s])
           end
  end.

(* one subpath with exactly one m, at its start *)
Definition paint_single (g : gstate) (stroke fill evenodd : bool) (c : M6) (path : list seg) : list shape :=
  match path with
  | [] => []
  | first :: _ =>
      let fp := seg_point (0, 0) first in
      let pts := map (fun s => mpt c (seg_point fp s)) path in
      let orig := map (fun s => (seg_letter s, map (mpt c) (seg_operands s))) path in
      let sh := map seg_letter path in
      let n := length sh in
      let drop := (3 <? n)%nat && letters_eqb (skipn (n - 2) sh) [Ll; Lh]
                  && pt_eqb (nth (n - 2) pts (0, 0)) (nth 0 pts (0, 0)) in
      let sh' := if drop then firstn (n - 2) sh ++ [Lh] else sh in
      let pts' := if drop then removelast pts else pts in
      let mk k p := [mkShape k p stroke fill evenodd (glinewidth g) (gdash g) (gscolor g) (gncolor g) orig] in
      if letters_eqb sh' [Lm; Ll; Lh] || letters_eqb sh' [Lm; Ll] then
        mk KLine [nth 0 pts' (0, 0); nth 1 pts' (0, 0)]
      else if letters_eqb sh' [Lm; Ll; Ll; Ll; Lh] || letters_eqb sh' [Lm; Ll; Ll; Ll; Ll] then
        let p0 := nth 0 pts' (0, 0) in let p1 := nth 1 pts' (0, 0) in
        let p2 := nth 2 pts' (0, 0) in let p3 := nth 3 pts' (0, 0) in let p4 := nth 4 pts' (0, 0) in
        let closed := pt_eqb p0 p4 in
        let square :=
          (Qeq_bool (fst p0) (fst p1) && Qeq_bool (snd p1) (snd p2) && Qeq_bool (fst p2) (fst p3) && Qeq_bool (snd p3) (snd p0))
          || (Qeq_bool (snd p0) (snd p1) && Qeq_bool (fst p1) (fst p2) && Qeq_bool (snd p2) (snd p3) && Qeq_bool (fst p3) (fst p0)) in
        if closed && square then
          (* LTRect with bbox = pts[0] + pts[2]: corners re-derived from the box *)
          mk KRect [(fst p0, snd p0); (fst p2, snd p0); (fst p2, snd p2); (fst p0, snd p2)]
        else mk KCurve pts'
      else mk KCurve pts'
  end.

Definition count_m (path : list seg) : nat := length (filter is_m path).

Definition paint_path (g : gstate) (stroke fill evenodd : bool) (c : M6) (path : list seg) : list shape :=
  match path with
  | [] => []
  | s :: _ =>
      if negb (is_m s) then []
      else if (1 <? count_m path)%nat then
        flat_map (paint_single g stroke fill evenodd c) (split_m path [])
      else paint_single g stroke fill evenodd c path
  end.

Definition shapes_of_event (e : event) : list shape :=
  match e with EPath g st fi eo path c => paint_path g st fi eo c path | _ => [] end.
