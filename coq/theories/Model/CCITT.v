(* Executable model of pdfminer.ccitt: BitParser's trie walk over the generated code tables,
   CCITTG4Parser's mode interpretation (_do_vertical / _do_pass / _do_horizontal with the
   _curpos = -1 start), _flush_line with EncodedByteAlign, and CCITTFaxDecoder.output_line
   (definitions only).  Pixels: 1 = white inside the decoder, as in the code. *)
From Coq Require Import ZArith List Bool.
From PdfV Require Import Gen.CCITTTables.
Import ListNotations.
Open Scope Z_scope.

(* ---------- the code trie ------------------------------------------------------------------------ *)
Fixpoint bits_eqb (a b : list bool) : bool :=
  match a, b with
  | [], [] => true
  | x :: a', y :: b' => Bool.eqb x y && bits_eqb a' b'
  | _, _ => false
  end.
Fixpoint is_prefix (p l : list bool) : bool :=
  match p, l with
  | [], _ => true
  | x :: p', y :: l' => Bool.eqb x y && is_prefix p' l'
  | _ :: _, [] => false
  end.

(* after reading the bits [acc] (in order) from the root of the trie of [table] *)
Inductive walk (A : Type) := WLeaf (v : A) | WNode | WNone.
Arguments WLeaf {A} v. Arguments WNode {A}. Arguments WNone {A}.
Definition trie_at {A} (table : list (A * list bool)) (acc : list bool) : walk A :=
  match find (fun e => bits_eqb (snd e) acc) table with
  | Some e => WLeaf (fst e)
  | None => if existsb (fun e => is_prefix acc (snd e)) table then WNode else WNone
  end.

(* ---------- lines --------------------------------------------------------------------------------- *)
Definition pix (l : list Z) (i : Z) : Z := nth (Z.to_nat i) l 1.
(* for x in range(a, b): line[x] = c   (0 <= a) *)
Fixpoint fill (l : list Z) (a b : Z) (c : Z) (i : Z) : list Z :=
  match l with
  | [] => []
  | p :: r => (if (a <=? i) && (i <? b) then c else p) :: fill r a b c (i + 1)
  end.

Inductive tabsel := TMode | TWhite | TBlack.
Inductive acceptor := AMode | AH1 | AH2.

Record g4 := mkG4 {
  gwidth : Z; galign : bool;
  refline : list Z; curline : list Z; gcurpos : Z; gcolor : Z;
  lines : list (list Z);              (* output lines, newest first *)
  gtab : tabsel; gacc : acceptor; gbits : list bool;   (* trie position = bits read since the last accept *)
  gn1 : Z; gn2 : Z
}.

Definition white_line (w : Z) : list Z := repeat 1 (Z.to_nat w).
Definition g4_init (w : Z) (align : bool) : g4 :=
  mkG4 w align (white_line w) (white_line w) (-1) 1 [] TMode AMode [] 0 0.

(* the search loops of _do_vertical / _do_pass: first changing element of the reference line at or
   after x1 whose left neighbour has colour [c] (b1), resp. the next one after it (b2) *)
Fixpoint find_b1 (fuel : nat) (ref : list Z) (c : Z) (x1 : Z) : Z :=
  match fuel with
  | O => x1
  | S f =>
      if x1 =? 0 then
        (if (c =? 1) && negb (pix ref x1 =? c) then x1 else find_b1 f ref c (x1 + 1))
      else if (x1 =? Z.of_nat (length ref)) || ((pix ref (x1 - 1) =? c) && negb (pix ref x1 =? c)) then x1
      else find_b1 f ref c (x1 + 1)
  end.
Fixpoint find_b2 (fuel : nat) (ref : list Z) (c : Z) (x1 : Z) : Z :=
  match fuel with
  | O => x1
  | S f =>
      if x1 =? 0 then
        (if (c =? 0) && (pix ref x1 =? c) then x1 else find_b2 f ref c (x1 + 1))
      else if (x1 =? Z.of_nat (length ref)) || (negb (pix ref (x1 - 1) =? c) && (pix ref x1 =? c)) then x1
      else find_b2 f ref c (x1 + 1)
  end.

Definition set_line (s : g4) (cl : list Z) (pos col : Z) : g4 :=
  mkG4 (gwidth s) (galign s) (refline s) cl pos col (lines s) (gtab s) (gacc s) (gbits s) (gn1 s) (gn2 s).

Definition do_vertical (s : g4) (dx : Z) : g4 :=
  let b1 := find_b1 (S (length (refline s))) (refline s) (gcolor s) (gcurpos s + 1) in
  let x0 := Z.max 0 (gcurpos s) in
  let x1 := Z.max 0 (Z.min (gwidth s) (b1 + dx)) in
  let cl := if x1 <? x0 then fill (curline s) x1 x0 (gcolor s) 0
            else if x0 <? x1 then fill (curline s) x0 x1 (gcolor s) 0 else curline s in
  set_line s cl x1 (1 - gcolor s).

(* `for x in range(self._curpos, x1): self._curline[x] = color` with _curpos = -1: index -1 is the
   last pixel (written with the current colour, white at the start of a line) *)
Definition do_pass (s : g4) : g4 :=
  let b1 := find_b1 (S (length (refline s))) (refline s) (gcolor s) (gcurpos s + 1) in
  let b2 := find_b2 (S (length (refline s))) (refline s) (gcolor s) b1 in
  let cl0 := if gcurpos s <? 0 then fill (curline s) (gwidth s - 1) (gwidth s) (gcolor s) 0 else curline s in
  set_line s (fill cl0 (Z.max 0 (gcurpos s)) b2 (gcolor s) 0) b2 (gcolor s).

Definition do_horizontal (s : g4) (n1 n2 : Z) : g4 :=
  let x0 := Z.max 0 (gcurpos s) in
  let w := Z.of_nat (length (curline s)) in
  let x1 := Z.min w (x0 + Z.max 0 n1) in
  let x2 := Z.min w (x1 + Z.max 0 n2) in
  set_line s (fill (fill (curline s) x0 x1 (gcolor s) 0) x1 x2 (1 - gcolor s) 0) x2 (gcolor s).

(* _flush_line: (state, ByteSkip raised?) *)
Definition flush_line (s : g4) : g4 * bool :=
  if gwidth s <=? gcurpos s then
    (mkG4 (gwidth s) (galign s) (curline s) (white_line (gwidth s)) (-1) 1 (curline s :: lines s)
          (gtab s) (gacc s) (gbits s) (gn1 s) (gn2 s), galign s)
  else (s, false).

Inductive bres := BCont (s : g4) | BSkip (s : g4) | BEOFB (s : g4) | BInvalid | BUnmodelled.

Definition goto (s : g4) (t : tabsel) (a : acceptor) (n1 n2 : Z) : g4 :=
  mkG4 (gwidth s) (galign s) (refline s) (curline s) (gcurpos s) (gcolor s) (lines s) t a [] n1 n2.
Definition set_color (s : g4) (c : Z) : g4 :=
  mkG4 (gwidth s) (galign s) (refline s) (curline s) (gcurpos s) c (lines s) (gtab s) (gacc s) (gbits s) (gn1 s) (gn2 s).
Definition colour_table (c : Z) : tabsel := if c =? 0 then TBlack else TWhite.   (* `if self._color: WHITE else BLACK` *)

Definition after_coding (s : g4) : bres :=
  let (s', skip) := flush_line s in
  if skip then BSkip (goto s' TMode AMode 0 0) else BCont (goto s' TMode AMode (gn1 s') (gn2 s')).

(* one bit *)
Definition parse_bit (s : g4) (b : bool) : bres :=
  let acc := gbits s ++ [b] in
  let s1 := mkG4 (gwidth s) (galign s) (refline s) (curline s) (gcurpos s) (gcolor s) (lines s)
                 (gtab s) (gacc s) acc (gn1 s) (gn2 s) in
  match gacc s with
  | AMode =>
      match trie_at MODE acc with
      | WNode => BCont s1
      | WNone => BInvalid                                   (* _parse_mode(None) *)
      | WLeaf MP => after_coding (do_pass s)
      | WLeaf MH => BCont (goto s (colour_table (gcolor s)) AH1 0 (gn2 s))
      | WLeaf MU => BUnmodelled
      | WLeaf ME => BEOFB s
      | WLeaf (MV d) => after_coding (do_vertical s d)
      | WLeaf (MX _) => BInvalid
      end
  | AH1 =>
      match trie_at (match gtab s with TBlack => BLACK | _ => WHITE end) acc with
      | WNode => BCont s1
      | WNone => BInvalid
      | WLeaf n =>
          let n1 := gn1 s + n in
          if n <? 64 then
            let s2 := set_color s (1 - gcolor s) in
            BCont (goto s2 (colour_table (gcolor s2)) AH2 n1 0)
          else BCont (goto s (colour_table (gcolor s)) AH1 n1 (gn2 s))
      end
  | AH2 =>
      match trie_at (match gtab s with TBlack => BLACK | _ => WHITE end) acc with
      | WNode => BCont s1
      | WNone => BInvalid
      | WLeaf n =>
          let n2 := gn2 s + n in
          if n <? 64 then
            let s2 := set_color s (1 - gcolor s) in
            after_coding (do_horizontal s2 (gn1 s) n2)
          else BCont (goto s (colour_table (gcolor s)) AH2 (gn1 s) n2)
      end
  end.

Definition bits_of_byte (byte : Z) : list bool :=
  map (fun m => negb (Z.land byte m =? 0)) [128; 64; 32; 16; 8; 4; 2; 1].

Inductive gres := GOk (s : g4) | GInvalid | GUnmodelled.

(* feedbytes *)
Fixpoint feed_bits (s : g4) (bits : list bool) : bres :=
  match bits with
  | [] => BCont s
  | b :: r => match parse_bit s b with
              | BCont s' => feed_bits s' r
              | other => other
              end
  end.
Fixpoint feedbytes (s : g4) (data : list Z) : gres :=
  match data with
  | [] => GOk s
  | byte :: r =>
      match feed_bits s (bits_of_byte byte) with
      | BCont s' => feedbytes s' r
      | BSkip s' => feedbytes s' r            (* rest of this byte skipped *)
      | BEOFB s' => GOk s'
      | BInvalid => GInvalid
      | BUnmodelled => GUnmodelled
      end
  end.

(* CCITTFaxDecoder.output_line *)
Fixpoint pack_bits (l : list Z) (acc : Z) (k : nat) : list Z :=
  match l with
  | [] => match k with O => [] | _ => [acc * 2 ^ (8 - Z.of_nat k)] end
  | b :: r => let acc' := acc * 2 + (if b =? 0 then 0 else 1) in
              match k with
              | 7%nat => acc' :: pack_bits r 0 0
              | _ => pack_bits r acc' (S k)
              end
  end.
Definition output_line (reversed : bool) (bits : list Z) : list Z :=
  pack_bits (if reversed then map (fun b => 1 - b) bits else bits) 0 0.

Inductive dres := DOk (d : list Z) | DInvalid | DUnmodelled.
Definition ccittfaxdecode (data : list Z) (cols : Z) (align reversed : bool) : dres :=
  match feedbytes (g4_init cols align) data with
  | GOk s => DOk (flat_map (output_line reversed) (rev (lines s)))
  | GInvalid => DInvalid
  | GUnmodelled => DUnmodelled
  end.
