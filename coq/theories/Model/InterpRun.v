(* Entry points evaluated by harness/c05.py and harness/c16.py *)
From Coq Require Import ZArith QArith List Bool.
From PdfV Require Import Base.CV Base.Num Gen.Geom Gen.TextOps Model.Interp Model.PathPaint.
Import ListNotations.
Open Scope Z_scope.

Definition cq (q : Q) : cv := let r := Qred q in CL [CZ (Qnum r); CZ (Zpos (Qden r))].
Definition cm6 (m : M6) : cv := let '(a, b, c, d, e, f) := m in CL (map cq [a; b; c; d; e; f]).
Definition cpt (p : Q * Q) : cv := CL [cq (fst p); cq (snd p)].
Definition ccolor (c : option color) : cv :=
  match c with
  | None => CL []
  | Some (CGray g) => CL [cq g]
  | Some (CRGB r g b) => CL [cq r; cq g; cq b]
  | Some (CCMYK c m y k) => CL [cq c; cq m; cq y; cq k]
  end.
Fixpoint coperand (v : operand) : cv :=
  match v with
  | ONum q => CL [CZ 0; cq q]
  | OName n => CL [CZ 1; CZ n]
  | OStr s => CL [CZ 2; CB s]
  | OArr l => CL [CZ 3; CL (map coperand l)]
  | OBool b => CL [CZ 5; cvb b]
  | OOther k => CL [CZ 4; CZ k]
  end.

Definition glyph_bbox (m : M6) (adv fontsize rise descent : Q) : cv :=
  let d := (descent * fontsize)%Q in
  let '(x0, y0, x1, y1) := apply_matrix_rect QOps m (0%Q, (d + rise)%Q, adv, (d + rise + fontsize)%Q) in
  let (a, b) := if Qle_bool x0 x1 then (x0, x1) else (x1, x0) in
  let (c, e) := if Qle_bool y0 y1 then (y0, y1) else (y1, y0) in
  CL [cq a; cq c; cq b; cq e].

Definition cletter (l : letter) : cv :=
  CZ (match l with Lm => 109 | Ll => 108 | Lc => 99 | Lv => 118 | Ly => 121 | Lh => 104 end).

Definition cshape (s : shape) : cv :=
  CL [CZ 1; CZ (match skind_ s with KLine => 0 | KRect => 1 | KCurve => 2 end);
      CL (map cpt (spts s)); cvb (sstroke s); cvb (sfill s); cvb (sevenodd s); cq (slinewidth s);
      match sdash s with None => CL [] | Some (a, p) => CL [coperand a; coperand p] end;
      ccolor (sscolor s); ccolor (sncolor s);
      CL (map (fun lp => CL [cletter (fst lp); CL (map cpt (snd lp))]) (soriginal s))].

Definition cevent (e : event) : list cv :=
  match e with
  | EGlyph cid m adv fontid fontsize rise descent nc =>
      [CL [CZ 0; CZ cid; cm6 m; cq adv; CZ fontid; ccolor nc; glyph_bbox m adv fontsize rise descent]]
  | EPath _ _ _ _ _ _ => map cshape (shapes_of_event e)
  | EBeginFig n m => [CL [CZ 2; CZ n; cm6 m]]
  | EEndFig n => [CL [CZ 3; CZ n]]
  end.

(* (page ctm, resources, program) -> every glyph, shape and figure bracket in order *)
Definition run_content (x : M6 * resources * list item) : cv :=
  let '(c, res, prog) := x in CL (flat_map cevent (run_page 6 c res prog)).

(* a font with a width table over codes 0..255 (missing entries: default width) *)
Definition font_of (id : Z) (widths : list (Z * Q)) (dw : Q) (descent : Q) : font :=
  mkFont id (fun cid => match assocZ cid widths with Some w => w | None => dw end) descent.
