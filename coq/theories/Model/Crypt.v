(* Executable model of the standard security handler (definitions only): arcfour.Arcfour, and
   pdfdocument.PDFStandardSecurityHandler / V4 / V5: key derivation, user and owner authentication, per-object
   keys, RC4 / AES-CBC decryption with padding removal, permission bits.
   The hash functions and the AES block cipher are PARAMETERS of the model (Section variables): the theorems hold
   for every choice of them; for the correspondence runs they are instantiated by lookup tables holding exactly the
   calls the implementation made (recorded by the harness around hashlib / cryptography). *)
From Coq Require Import ZArith List Bool.
Import ListNotations.
Open Scope Z_scope.

Definition bytes := list Z.

(* ---------- RC4 ---------------------------------------------------------------------------------------------- *)
Definition nthz (l : list Z) (i : Z) : Z := nth (Z.to_nat i) l 0.
Fixpoint set_nth (l : list Z) (i : nat) (v : Z) : list Z :=
  match l, i with
  | [], _ => []
  | _ :: r, O => v :: r
  | x :: r, S i' => x :: set_nth r i' v
  end.
Definition swap (s : list Z) (i j : Z) : list Z :=
  let a := nthz s i in let b := nthz s j in
  set_nth (set_nth s (Z.to_nat i) b) (Z.to_nat j) a.

Definition identity_perm : list Z := map Z.of_nat (seq 0 256).

(* key scheduling: for i in range(256): j = (j + s[i] + key[i % klen]) % 256; swap *)
Fixpoint ksa_go (key : bytes) (s : list Z) (j : Z) (i : Z) (n : nat) : list Z :=
  match n with
  | O => s
  | S n' =>
      let j' := (j + nthz s i + nthz key (i mod Z.of_nat (length key))) mod 256 in
      ksa_go key (swap s i j') j' (i + 1) n'
  end.
Definition ksa (key : bytes) : list Z := ksa_go key identity_perm 0 0 256.

(* the key stream *)
Fixpoint prga (s : list Z) (i j : Z) (n : nat) : bytes :=
  match n with
  | O => []
  | S n' =>
      let i' := (i + 1) mod 256 in
      let j' := (j + nthz s i') mod 256 in
      let s' := swap s i' j' in
      nthz s' ((nthz s' i' + nthz s' j') mod 256) :: prga s' i' j' n'
  end.
Fixpoint xor_bytes (a b : bytes) : bytes :=
  match a, b with
  | x :: a', y :: b' => Z.lxor x y :: xor_bytes a' b'
  | _, _ => []
  end.
Definition rc4 (key data : bytes) : bytes := xor_bytes data (prga (ksa key) 0 0 (length data)).

(* ---------- little-endian fields ---------------------------------------------------------------------------- *)
Definition le_bytes (v : Z) (n : nat) : bytes := map (fun k => (v / 256 ^ Z.of_nat k) mod 256) (seq 0 n).

Definition PADDING : bytes :=
  [40; 191; 78; 94; 78; 117; 138; 65; 100; 0; 78; 86; 255; 250; 1; 8;
   46; 46; 0; 182; 208; 104; 62; 128; 47; 12; 169; 254; 100; 83; 105; 122].
Definition pad32 (pw : bytes) : bytes := firstn 32 (pw ++ PADDING).

Fixpoint iter {A} (n : nat) (f : A -> A) (x : A) : A := match n with O => x | S n' => iter n' f (f x) end.

Definition xor_key (key : bytes) (i : Z) : bytes := map (fun c => Z.lxor c i) key.

Fixpoint bytes_eqb (a b : bytes) : bool :=
  match a, b with
  | [], [] => true
  | x :: a', y :: b' => (x =? y) && bytes_eqb a' b'
  | _, _ => false
  end.

(* ---------- revisions 2-4 ---------------------------------------------------------------------------------- *)
Section Handler.
  Variable md5 : bytes -> bytes.

  Record params := mkParams {
    revision : Z;                   (* R *)
    keylen : Z;                (* Length in bits (128 for V4) *)
    pval : Z;                  (* P as an unsigned 32-bit number *)
    oval : bytes; uval : bytes;
    docid0 : bytes;            (* first element of ID *)
    encmeta : bool             (* EncryptMetadata *)
  }.

  Definition nkey (pr : params) : nat := if revision pr <? 3 then 5%nat else Z.to_nat (keylen pr / 8).

  (* Algorithm 2 *)
  Definition compute_encryption_key (pr : params) (password : bytes) : bytes :=
    let h0 := md5 (pad32 password ++ oval pr ++ le_bytes (pval pr) 4 ++ docid0 pr ++
                   (if (4 <=? revision pr) && negb (encmeta pr) then [255; 255; 255; 255] else [])) in
    let n := nkey pr in
    let h := if 3 <=? revision pr then iter 50 (fun r => md5 (firstn n r)) h0 else h0 in
    firstn n h.

  (* RC4 with key xor i for i = first, first+1, ..., first+count-1 ascending *)
  Fixpoint rc4_rounds_up (key : bytes) (i : Z) (count : nat) (data : bytes) : bytes :=
    match count with
    | O => data
    | S c => rc4_rounds_up key (i + 1) c (rc4 (xor_key key i) data)
    end.
  (* ... and for i = last, last-1, ..., descending *)
  Fixpoint rc4_rounds_down (key : bytes) (i : Z) (count : nat) (data : bytes) : bytes :=
    match count with
    | O => data
    | S c => rc4_rounds_down key (i - 1) c (rc4 (xor_key key i) data)
    end.

  (* Algorithms 4 and 5 *)
  Definition compute_u (pr : params) (key : bytes) : bytes :=
    if revision pr =? 2 then rc4 key PADDING
    else
      let r := rc4_rounds_up key 1 19 (rc4 key (md5 (PADDING ++ docid0 pr))) in
      r ++ r.

  (* Algorithm 6 *)
  Definition verify_encryption_key (pr : params) (key : bytes) : bool :=
    let u := compute_u pr key in
    if revision pr =? 2 then bytes_eqb u (uval pr) else bytes_eqb (firstn 16 u) (firstn 16 (uval pr)).

  Definition authenticate_user (pr : params) (password : bytes) : option bytes :=
    let key := compute_encryption_key pr password in
    if verify_encryption_key pr key then Some key else None.

  (* Algorithm 7 *)
  Definition owner_key (pr : params) (password : bytes) : bytes :=
    let h0 := md5 (pad32 password) in
    let h := if 3 <=? revision pr then iter 50 md5 h0 else h0 in
    firstn (nkey pr) h.
  Definition owner_recover (pr : params) (password : bytes) : bytes :=
    let key := owner_key pr password in
    if revision pr =? 2 then rc4 key (oval pr) else rc4_rounds_down key 19 20 (oval pr).
  Definition authenticate_owner (pr : params) (password : bytes) : option bytes :=
    authenticate_user pr (owner_recover pr password).

  Definition authenticate (pr : params) (password : bytes) : option bytes :=
    match authenticate_user pr password with
    | Some k => Some k
    | None => authenticate_owner pr password
    end.

  (* Algorithm 1: per-object key *)
  Definition object_key (key : bytes) (objid genno : Z) (aes : bool) : bytes :=
    let k := key ++ le_bytes objid 3 ++ le_bytes genno 2 ++ (if aes then [115; 65; 108; 84] else []) in
    firstn (Nat.min (length (key ++ le_bytes objid 3 ++ le_bytes genno 2 ++ (if aes then [115; 65; 108; 84] else []))) 16) (md5 k).

  Definition decrypt_rc4 (key : bytes) (objid genno : Z) (data : bytes) : bytes :=
    rc4 (object_key key objid genno false) data.

  (* the writer's side (ISO 32000-1 Algorithm 3): the O entry from the two passwords *)
  Definition spec_compute_o (pr : params) (owner user : bytes) : bytes :=
    let key := owner_key pr owner in
    if revision pr =? 2 then rc4 key (pad32 user) else rc4_rounds_up key 0 20 (pad32 user).
End Handler.

(* ---------- AES-CBC with padding removal --------------------------------------------------------------------- *)
Fixpoint blocks16 (fuel : nat) (data : bytes) : list bytes :=
  match fuel, data with
  | _, [] => []
  | O, _ => []
  | S f, _ => firstn 16 data :: blocks16 f (skipn 16 data)
  end.

Section CBC.
  Variable block_dec : bytes -> bytes -> bytes.          (* key -> 16-byte block -> 16-byte block *)
  Variable block_enc : bytes -> bytes -> bytes.

  Fixpoint cbc_decrypt (key prev : bytes) (bs : list bytes) : list bytes :=
    match bs with
    | [] => []
    | c :: r => xor_bytes (block_dec key c) prev :: cbc_decrypt key c r
    end.
  Fixpoint cbc_encrypt (key prev : bytes) (bs : list bytes) : list bytes :=
    match bs with
    | [] => []
    | p :: r => let c := block_enc key (xor_bytes p prev) in c :: cbc_encrypt key c r
    end.
End CBC.

(* _unpad *)
Definition unpad (data : bytes) : bytes :=
  match rev data with
  | [] => data
  | n :: _ =>
      if (1 <=? n) && (n <=? 16) && bytes_eqb (skipn (length data - Z.to_nat n) data) (repeat n (Z.to_nat n))
      then firstn (length data - Z.to_nat n) data else data
  end.
(* PKCS#5 / RFC 8018 padding to a multiple of 16 *)
Definition pkcs_pad (data : bytes) : bytes :=
  let n := 16 - Z.of_nat (length data) mod 16 in data ++ repeat n (Z.to_nat n).

(* decrypt_aes128 / decrypt_aes256 given the CBC decryption of the body as an oracle: cbc : key -> iv -> ct -> pt *)
Definition decrypt_aes (cbc : bytes -> bytes -> bytes -> bytes) (key data : bytes) : bytes :=
  unpad (cbc key (firstn 16 data) (skipn 16 data)).

(* ---------- revisions 5 and 6 ---------------------------------------------------------------------------------- *)
Section Handler5.
  Variable pwhash : bytes -> bytes -> bytes -> bytes.     (* _password_hash(password, salt, vector or b"") *)
  Variable cbc0 : bytes -> bytes -> bytes.                (* AES-CBC decryption with a zero IV, no padding: key -> ct -> pt *)

  Record params5 := mkP5 { o5 : bytes; u5 : bytes; oe5 : bytes; ue5 : bytes }.

  Definition authenticate5 (pr : params5) (password : bytes) : option bytes :=
    let o_hash := firstn 32 (o5 pr) in let o_vs := firstn 8 (skipn 32 (o5 pr)) in let o_ks := skipn 40 (o5 pr) in
    let u_hash := firstn 32 (u5 pr) in let u_vs := firstn 8 (skipn 32 (u5 pr)) in let u_ks := skipn 40 (u5 pr) in
    if bytes_eqb (pwhash password o_vs (u5 pr)) o_hash then Some (cbc0 (pwhash password o_ks (u5 pr)) (oe5 pr))
    else if bytes_eqb (pwhash password u_vs []) u_hash then Some (cbc0 (pwhash password u_ks []) (ue5 pr))
    else None.
End Handler5.

(* ---------- permissions ----------------------------------------------------------------------------------------- *)
(* uint_value(P, 32) *)
Definition uint32 (p : Z) : Z := if 0 <? p then p else p + 4294967296.
Definition is_printable (p : Z) : bool := negb (Z.land p 4 =? 0).
Definition is_modifiable (p : Z) : bool := negb (Z.land p 8 =? 0).
Definition is_extractable (p : Z) : bool := negb (Z.land p 16 =? 0).

(* ---------- oracle tables for the correspondence runs ------------------------------------------------------------ *)
Fixpoint tbl_get (k : bytes) (t : list (bytes * bytes)) : bytes :=
  match t with
  | [] => [-1]                                        (* a call the implementation never made *)
  | (k', v) :: r => if bytes_eqb k k' then v else tbl_get k r
  end.
