(* Entry points evaluated by harness/c07.py *)
From Coq Require Import ZArith QArith List Bool.
From PdfV Require Import Base.CV Gen.FontTables Model.Fonts Model.Labels Model.CMaps Model.FontsRun.
Import ListNotations.
Open Scope Z_scope.

Definition run_decode (x : tdict * list Z) : cv := let '(t, code) := x in CL (map CZ (cmap_decode t code)).
Definition run_identity (x : bool * list Z) : cv :=
  let '(byte, code) := x in CL (map CZ (if byte then identity_byte_decode code else identity_decode code)).

(* ToUnicode sections, then lookups *)
Definition run_tounicode (x : list section * list Z) : cv :=
  let '(ss, cids) := x in
  match run_sections [] ss with
  | UOk m => CL (map (fun c => cvo cstr (umap_get m c)) cids)
  | UTypeError => CZ (-1) | UAssertion => CZ (-2) | UStructError => CZ (-3) | UKeyError => CZ (-4)
  end.

(* widths and displacements of a CID font at the given cids *)
Definition run_cidfont (x : cidfont * list Z) : cv :=
  let '(f, cids) := x in
  let w := cid_width f in let d := cid_disp f in
  CL [CL (map (fun c => cq (w c)) cids);
      CL (map (fun c => let '(vx, vy) := d c in CL [cvo cq vx; cq vy]) cids)].

(* TrueTypeFont.create_unicode_map over the bytes of a font program, then the text of the given glyphs *)
From PdfV Require Import Model.TrueType.
Definition run_ttf (x : list Z * list Z) : cv :=
  let '(f, gids) := x in
  match create_unicode_map f with
  | None => CZ (-1)
  | Some m => CL (map (fun g => cvo cstr (umap_get m g)) gids)
  end.
