(* Executable model of simple fonts (definitions only): encodingdb.name2unicode, EncodingDB.get_encoding,
   PDFSimpleFont.to_unichr with ToUnicode precedence, the Type 1 built-in encoding recovery, and
   PDFFont.char_width with the Widths/FirstChar, standard-14 and MissingWidth sources.
   Strings are lists of code points. *)
From Coq Require Import ZArith QArith List Bool.
From PdfV Require Import Gen.FontTables.
Import ListNotations.
Open Scope Z_scope.

Definition str := list Z.

Fixpoint str_eqb (a b : str) : bool :=
  match a, b with
  | [], [] => true
  | x :: a', y :: b' => (x =? y) && str_eqb a' b'
  | _, _ => false
  end.

Fixpoint assoc {V} (k : str) (l : list (str * V)) : option V :=
  match l with
  | [] => None
  | (k', v) :: r => if str_eqb k k' then Some v else assoc k r
  end.

(* ---------- str.split ------------------------------------------------------------------------- *)
(* s.split(sep) for a one-character separator: never empty *)
Fixpoint split_on (sep : Z) (s : str) : list str :=
  match s with
  | [] => [[]]
  | c :: r =>
      if c =? sep then [] :: split_on sep r
      else match split_on sep r with
           | h :: t => (c :: h) :: t
           | [] => [[c]]
           end
  end.
Definition before_dot (s : str) : str := hd [] (split_on 46 s).

(* ---------- hexadecimal ---------------------------------------------------------------------- *)
Definition is_hex (c : Z) : bool :=
  ((48 <=? c) && (c <=? 57)) || ((97 <=? c) && (c <=? 102)) || ((65 <=? c) && (c <=? 70)).
Definition hexval (c : Z) : Z :=
  if (48 <=? c) && (c <=? 57) then c - 48 else if (97 <=? c) && (c <=? 102) then c - 87 else c - 55.
Definition hexnum (s : str) : Z := fold_left (fun acc c => acc * 16 + hexval c) s 0.
(* HEXADECIMAL.fullmatch *)
Definition all_hex (s : str) : bool := negb (match s with [] => true | _ => false end) && forallb is_hex s.

Fixpoint chunks4 (fuel : nat) (s : str) : list str :=
  match fuel, s with
  | _, [] => []
  | O, _ => []
  | S f, _ => firstn 4 s :: chunks4 f (skipn 4 s)
  end.

Definition bad_unicode (v : Z) : bool := ((SURR_LO <? v) && (v <? SURR_HI)) || (UNI_MAX <? v).

Definition starts_with (p s : str) : bool := str_eqb p (firstn (length p) s).

Definition s_uni : str := [117; 110; 105].
Definition s_u : str := [117].

(* one component (no '.', no '_'): None = KeyError *)
Definition n2u_component (name : str) : option str :=
  match assoc name GLYPHLIST with
  | Some v => Some v
  | None =>
      if starts_with s_uni name then
        let d := skipn 3 name in
        if all_hex d && (Z.of_nat (length d) mod 4 =? 0) then
          let vals := map hexnum (chunks4 (length d) d) in
          if existsb bad_unicode vals then None else Some vals
        else None
      else if starts_with s_u name then
        let d := skipn 1 name in
        if all_hex d && (4 <=? Z.of_nat (length d)) && (Z.of_nat (length d) <=? 6) then
          let v := hexnum d in
          if bad_unicode v then None else Some [v]
        else None
      else None
  end.

Fixpoint concat_opt (l : list (option str)) : option str :=
  match l with
  | [] => Some []
  | None :: _ => None
  | Some s :: r => match concat_opt r with Some t => Some (s ++ t) | None => None end
  end.

(* name2unicode on a str name *)
Definition name2unicode (name : str) : option str :=
  let n := before_dot name in
  let comps := split_on 95 n in
  if (1 <? length comps)%nat then concat_opt (map n2u_component comps)
  else n2u_component n.

(* a name object: None = the literal's name is not a str (bytes that are not UTF-8) *)
Definition name2unicode_obj (name : option str) : option str :=
  match name with Some s => name2unicode s | None => None end.

(* ---------- encoding tables ------------------------------------------------------------------ *)
Inductive encsel := EStd | EMac | EWin | EPdf.
Definition row_code (sel : encsel) (r : option Z * option Z * option Z * option Z) : option Z :=
  match r with (s, m, w, p) => match sel with EStd => s | EMac => m | EWin => w | EPdf => p end end.

(* the class-body loop: later rows overwrite earlier ones; `if std:` skips None and 0 *)
Fixpoint enc_lookup (sel : encsel) (rows : list (str * (option Z * option Z * option Z * option Z))) (code : Z)
  (acc : option str) : option str :=
  match rows with
  | [] => acc
  | (nm, r) :: rest =>
      let acc' := match row_code sel r with
                  | Some c => if negb (c =? 0) && (c =? code) then name2unicode nm else acc
                  | None => acc
                  end in
      enc_lookup sel rest code acc'
  end.
Definition enc_base (sel : encsel) (code : Z) : option str := enc_lookup sel ENCODING code None.

Definition s_StandardEncoding : str := [83;116;97;110;100;97;114;100;69;110;99;111;100;105;110;103].
Definition s_MacRomanEncoding : str := [77;97;99;82;111;109;97;110;69;110;99;111;100;105;110;103].
Definition s_WinAnsiEncoding : str := [87;105;110;65;110;115;105;69;110;99;111;100;105;110;103].
Definition s_PDFDocEncoding : str := [80;68;70;68;111;99;69;110;99;111;100;105;110;103].
Definition sel_of_name (n : str) : encsel :=
  if str_eqb n s_MacRomanEncoding then EMac
  else if str_eqb n s_WinAnsiEncoding then EWin
  else if str_eqb n s_PDFDocEncoding then EPdf
  else EStd.                                   (* cls.encodings.get(name, cls.std2unicode) *)

(* Differences items *)
Inductive ditem := DInt (z : Z) | DName (n : option str) | DOther.

(* a code map: overlay entries (newest first; None = popped) over a base function *)
Definition overlay := list (Z * option str).
Fixpoint ov_get (o : overlay) (code : Z) : option (option str) :=
  match o with
  | [] => None
  | (c, v) :: r => if c =? code then Some v else ov_get r code
  end.

Fixpoint diff_loop (d : list ditem) (cid : Z) (o : overlay) : overlay :=
  match d with
  | [] => o
  | DInt z :: r => diff_loop r z o
  | DName n :: r => diff_loop r (cid + 1) ((cid, name2unicode_obj n) :: o)
  | DOther :: r => diff_loop r cid o
  end.

(* (the table is built once per font: the overlay does not depend on the code looked up) *)
Definition get_encoding (name : str) (diff : list ditem) : Z -> option str :=
  let o := diff_loop diff 0 [] in
  let sel := sel_of_name name in
  fun code =>
    match ov_get o code with
    | Some v => v
    | None => enc_base sel code
    end.

(* ---------- the built-in encoding of an embedded Type 1 program --------------------------------- *)
Inductive bitem := BStd | BPut (code : Z) (n : option str).
(* Type1FontHeaderParser: results in order; KeyError leaves the code as it was *)
Fixpoint builtin_get (items : list bitem) (code : Z) (acc : option str) : option str :=
  match items with
  | [] => acc
  | BStd :: r => builtin_get r code (match enc_base EStd code with Some v => Some v | None => acc end)
  | BPut c n :: r =>
      builtin_get r code (if c =? code then match name2unicode_obj n with Some v => Some v | None => acc end else acc)
  end.

(* ---------- fonts ------------------------------------------------------------------------------------ *)
Inductive wval := WNum (q : Q) | WBad.        (* a Widths element: number, or anything float() rejects *)
Inductive fkind := KType1 | KType3.          (* Type1 = Type1, MMType1, TrueType and unknown subtypes *)

Record font := mkFont {
  fkind_ : fkind;
  basefont : option str;                      (* BaseFont name (Type1 only) *)
  fenc : option (str * list ditem);           (* /Encoding: base name and Differences; None = absent *)
  ftounicode : option (list (Z * str));       (* ToUnicode map (first match wins = dict after parsing) *)
  fdescriptor : option (Q * option (list bitem));
                                              (* /FontDescriptor: MissingWidth (0 if absent) and, if it has a
                                                 FontFile, the put entries of the program's header *)
  fwidths : option (list wval);               (* /Widths *)
  ffirst : Z;                                 (* /FirstChar *)
  fmatrix_a : Q                               (* FontMatrix[0] (Type3) *)
}.

Fixpoint zassoc {V} (k : Z) (l : list (Z * V)) : option V :=
  match l with
  | [] => None
  | (k', v) :: r => if k =? k' then Some v else zassoc k r
  end.

Definition std14_metrics (f : font) : option (list (str * Z)) :=
  match fkind_ f, basefont f with
  | KType1, Some n => assoc (match assoc n FONT_ALIASES with Some t => t | None => n end) FONT_METRICS
  | _, _ => None
  end.
(* do the built-in metrics supply the widths (and the descriptor)? *)
Definition uses_std14 (f : font) : bool :=
  match std14_metrics f, fwidths f with Some _, None => true | _, _ => false end.

(* the descriptor in force: the built-in one (no MissingWidth, no FontFile) when the metrics are used,
   else the font's own, else an empty one *)
Definition fmissing (f : font) : Q :=
  if uses_std14 f then 0%Q else match fdescriptor f with Some (mw, _) => mw | None => 0%Q end.
Definition fbuiltin (f : font) : option (list bitem) :=
  if uses_std14 f then None else match fdescriptor f with Some (_, b) => b | None => None end.

Definition cid2unicode (f : font) : Z -> option str :=
  match fenc f with
  | Some (nm, diff) => get_encoding nm diff
  | None =>
      match fkind_ f, fbuiltin f with
      | KType1, Some items => fun code => builtin_get items code None
      | _, _ => fun code => enc_base EStd code
      end
  end.

(* PDFSimpleFont.to_unichr: None = PDFUnicodeNotDefined *)
Definition to_unichr (f : font) : Z -> option str :=
  let enc := cid2unicode f in
  fun code =>
    match ftounicode f with
    | Some m => match zassoc code m with Some s => Some s | None => enc code end
    | None => enc code
    end.

Fixpoint digits (fuel : nat) (n : Z) (acc : str) : str :=
  match fuel with
  | O => acc
  | S f => if n <? 10 then (48 + n) :: acc else digits f (n / 10) ((48 + n mod 10) :: acc)
  end.
Definition decimal (n : Z) : str :=
  if n <? 0 then 45 :: digits (Z.to_nat (Z.log2 (- n) + 2)) (- n) [] else digits (Z.to_nat (Z.log2 n + 2)) n [].
(* the text of the LTChar: handle_undefined_char gives "(cid:%d)" *)
Definition char_text (f : font) : Z -> str :=
  let tu := to_unichr f in
  fun code =>
    match tu code with
    | Some s => s
    | None => [40; 99; 105; 100; 58] ++ decimal code ++ [41]
    end.

Definition hscale (f : font) : Q := match fkind_ f with KType1 => 1 # 1000 | KType3 => fmatrix_a f end.

Definition width_list (f : font) : list wval :=
  match fwidths f with Some l => l | None => repeat (WNum 0) 256 end.

(* PDFFont.char_width *)
Definition char_width (f : font) : Z -> Q :=
  let tu := to_unichr f in
  fun code =>
    if uses_std14 f then
      match std14_metrics f, tu code with
      | Some m, Some s => match assoc s m with Some w => (inject_Z w * hscale f)%Q | None => 0%Q end
      | _, _ => 0%Q                                  (* the built-in descriptors have no MissingWidth *)
      end
    else
      let i := code - ffirst f in
      match (if i <? 0 then None else nth_error (width_list f) (Z.to_nat i)) with
      | Some (WNum w) => (w * hscale f)%Q
      | _ => (fmissing f * hscale f)%Q
      end.
