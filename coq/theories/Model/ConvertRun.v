(* Entry points evaluated by harness/c11.py *)
From Coq Require Import ZArith List Bool.
From PdfV Require Import Base.CV Model.Convert.
Import ListNotations.
Open Scope Z_scope.

Definition cstr (s : str) : cv := CL (map CZ s).
Definition run_text (pages : list page) : cv := cstr (text_output pages).
Definition run_xml (x : option str * bool * list page) : cv :=
  let '(codec, strip, pages) := x in cstr (xml_output codec strip pages).
Definition run_escape (s : str) : cv := cstr (escape s).
