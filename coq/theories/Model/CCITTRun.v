(* Entry points evaluated by harness/c19.py *)
From Coq Require Import ZArith List Bool.
From PdfV Require Import Base.CV Gen.CCITTTables Model.CCITT.
Import ListNotations.
Open Scope Z_scope.

Definition run_g4 (x : list Z * Z * bool * bool) : cv :=
  let '(data, cols, align, reversed) := x in
  match ccittfaxdecode data cols align reversed with
  | DOk d => CL [CZ 0; CB d]
  | DInvalid => CL [CZ 1]
  | DUnmodelled => CL [CZ 2]
  end.
