(* Executable model of PDFPage.create_pages.depth_first_search and PDFPage.get_pages'
   selection loop (definitions only).  The store maps object ids to page-tree nodes;
   inheritable attributes are abstract value identifiers. *)
From Coq Require Import ZArith List Bool.
Import ListNotations.
Open Scope Z_scope.

Inductive ntype := NPage | NPages | NOther.

(* the four inheritable attributes: Resources, MediaBox, CropBox, Rotate *)
Definition attrs := list (option Z).          (* always of length 4 in practice *)
Definition no_attrs : attrs := [None; None; None; None].

Record node := mkNode {
  ntyp : ntype;                 (* /Type: Page, Pages, anything else or absent *)
  nkids : option (list Z);      (* /Kids, object numbers of the children *)
  nattrs : attrs                (* the node's own inheritable attributes *)
}.
(* dict_value(None) = {} in non-STRICT mode: a missing object is an empty dictionary *)
Definition empty_node : node := mkNode NOther None no_attrs.

Definition store := list (Z * node).
Fixpoint lookup (st : store) (i : Z) : node :=
  match st with
  | [] => empty_node
  | (k, n) :: r => if k =? i then n else lookup r i
  end.

Fixpoint memz (i : Z) (l : list Z) : bool :=
  match l with [] => false | x :: r => (x =? i) || memz i r end.

(* for k, v in parent.items(): if k in INHERITABLE_ATTRS and k not in props: props[k] = v *)
Fixpoint inherit (own parent : attrs) : attrs :=
  match own, parent with
  | o :: own', p :: parent' => (match o with Some _ => o | None => p end) :: inherit own' parent'
  | _, _ => own
  end.

(* `for child in list_value(Kids): yield from depth_first_search(child, props, visited)` *)
Fixpoint kids_loop (rec : list Z -> Z -> attrs -> option (list (Z * attrs) * list Z))
         (props : attrs) (kids : list Z) (acc : list (Z * attrs)) (visited : list Z)
  : option (list (Z * attrs) * list Z) :=
  match kids with
  | [] => Some (acc, visited)
  | k :: r => match rec visited k props with
              | Some (ps, v') => kids_loop rec props r (acc ++ ps) v'
              | None => None
              end
  end.

(* depth_first_search(obj, parent, visited): pages yielded in order, and the visited set *)
Fixpoint dfs (fuel : nat) (st : store) (visited : list Z) (i : Z) (parent : attrs)
  : option (list (Z * attrs) * list Z) :=
  match fuel with
  | O => None
  | S f =>
      if memz i visited then Some ([], visited)
      else
        let nd := lookup st i in
        let props := inherit (nattrs nd) parent in
        match ntyp nd, nkids nd with
        | NPages, Some kids => kids_loop (dfs f st) props kids [] (i :: visited)
        | NPage, _ => Some ([(i, props)], i :: visited)
        | _, _ => Some ([], i :: visited)
        end
  end.

(* `if not pages:` fallback of create_pages: every object of the cross-reference table (in its
   order) that is a dictionary with /Type /Page, with its own attributes only *)
Definition fallback (st : store) : list (Z * attrs) :=
  map (fun kn => (fst kn, nattrs (snd kn)))
      (filter (fun kn => match ntyp (snd kn) with NPage => true | _ => false end) st).

Definition pages (st : store) (root : Z) (catalog : attrs) : option (list (Z * attrs)) :=
  match dfs (S (S (length st))) st [] root catalog with
  | Some ([], _) => Some (fallback st)
  | Some (ps, _) => Some ps
  | None => None
  end.

(* the loop of get_pages over enumerate(create_pages(doc)) *)
Fixpoint memn (i : nat) (l : list nat) : bool :=
  match l with [] => false | x :: r => Nat.eqb x i || memn i r end.

Fixpoint select {A} (ps : list A) (pageno : nat) (pagenos : list nat) (maxpages : nat) : list A :=
  match ps with
  | [] => []
  | p :: r =>
      (if (match pagenos with [] => true | _ => false end) || memn pageno pagenos then [p] else [])
      ++ (if negb (Nat.eqb maxpages 0) && Nat.leb maxpages (pageno + 1) then []
          else select r (S pageno) pagenos maxpages)
  end.

(* ---- specification: an honest tree ---------------------------------------------- *)
Inductive tree :=
| TPage (i : Z) (a : attrs)
| TPages (i : Z) (a : attrs) (kids : list tree).

Definition tid (t : tree) : Z := match t with TPage i _ => i | TPages i _ _ => i end.

(* preorder leaves, each with its own attribute or else the nearest ancestor's *)
Fixpoint spec_pages (t : tree) (inh : attrs) : list (Z * attrs) :=
  match t with
  | TPage i a => [(i, inherit a inh)]
  | TPages i a kids => flat_map (fun k => spec_pages k (inherit a inh)) kids
  end.

Fixpoint ids (t : tree) : list Z :=
  match t with
  | TPage i _ => [i]
  | TPages i _ kids => i :: flat_map ids kids
  end.

(* the store describes the tree: every node is stored under its id with its kids' ids *)
Fixpoint describes (st : store) (t : tree) : Prop :=
  match t with
  | TPage i a => ntyp (lookup st i) = NPage /\ nattrs (lookup st i) = a
  | TPages i a kids =>
      ntyp (lookup st i) = NPages /\ nkids (lookup st i) = Some (map tid kids) /\
      nattrs (lookup st i) = a /\
      (fix all (l : list tree) : Prop := match l with [] => True | k :: r => describes st k /\ all r end) kids
  end.

Fixpoint depth (t : tree) : nat :=
  match t with
  | TPage _ _ => 1
  | TPages _ _ kids => S (fold_right (fun k m => Nat.max (depth k) m) 0%nat kids)
  end.

Definition spec_select {A} (ps : list A) (pagenos : list nat) (maxpages : nat) : list A :=
  map snd (filter (fun ip => ((match pagenos with [] => true | _ => false end) || memn (fst ip) pagenos)
                             && (Nat.eqb maxpages 0 || Nat.ltb (fst ip) maxpages))
                  (combine (seq 0 (length ps)) ps)).
