(* Executable models for C17 (definitions only): number trees and page labels
   (data_structures.NumberTree, pdfdocument.PageLabels, utils.format_int_roman/alpha),
   name-tree lookup (PDFDocument.lookup_name), outlines (PDFDocument.get_outlines) and
   text strings (utils.decode_text). *)
From Coq Require Import ZArith List Bool.
From PdfV Require Import Gen.TextTables.
Import ListNotations.
Open Scope Z_scope.

(* ---------- number tree --------------------------------------------------------------- *)
Section NumberTree.
  Variable V : Type.
  Inductive numtree := NT (nums : list (Z * V)) (kids : list numtree).

  (* NumberTree._parse: the node's own Nums first, then the kids in order *)
  Fixpoint nt_parse (t : numtree) : list (Z * V) :=
    match t with NT nums kids => nums ++ flat_map nt_parse kids end.

  (* list.sort(key=lambda t: t[0]): stable *)
  (* stable insertion sort: insert from the right so that equal keys keep their order *)
  Definition stable_sort (l : list (Z * V)) : list (Z * V) :=
    fold_right (fun x acc =>
      (fix ins (x : Z * V) (l : list (Z * V)) : list (Z * V) :=
         match l with
         | [] => [x]
         | y :: r => if fst x <=? fst y then x :: y :: r else y :: ins x r
         end) x acc) [] l.
  Definition nt_values (t : numtree) : list (Z * V) := stable_sort (nt_parse t).
End NumberTree.
Arguments NT {V} nums kids. Arguments nt_parse {V} t. Arguments nt_values {V} t. Arguments stable_sort {V} l.

(* ---------- number formats -------------------------------------------------------------- *)
Fixpoint digits_go (fuel : nat) (n : Z) (acc : list Z) : list Z :=
  match fuel with
  | O => acc
  | S f => let acc' := (48 + n mod 10) :: acc in if n / 10 =? 0 then acc' else digits_go f (n / 10) acc'
  end.
(* str(value) *)
Definition decimal (z : Z) : list Z :=
  if z <? 0 then 45 :: digits_go (S (Z.to_nat (Z.log2 (- z)))) (- z) []
  else digits_go (S (Z.to_nat (Z.log2 z))) z [].

Definition rep (c : Z) (n : Z) : list Z := repeat c (Z.to_nat n).
Definition nthz (l : list Z) (i : nat) : Z := nth i l 0.

(* utils.format_int_roman: digit by digit from the least significant, inserting at the front;
   None = AssertionError (value outside 1..3999) *)
Fixpoint roman_go (fuel : nat) (value : Z) (index : nat) (result : list Z) : list Z :=
  match fuel with
  | O => result
  | S f =>
      if value =? 0 then result
      else
        let rem := value mod 10 in
        let value' := value / 10 in
        let result' :=
          if rem =? 9 then nthz ROMAN_ONES index :: nthz ROMAN_ONES (S index) :: result
          else if rem =? 4 then nthz ROMAN_ONES index :: nthz ROMAN_FIVES index :: result
          else if 5 <=? rem then nthz ROMAN_FIVES index :: rep (nthz ROMAN_ONES index) (rem - 5) ++ result
          else rep (nthz ROMAN_ONES index) rem ++ result in
        roman_go f value' (S index) result'
  end.
Definition format_int_roman (value : Z) : option (list Z) :=
  if (0 <? value) && (value <? 4000) then Some (roman_go 5 value 0 []) else None.

(* utils.format_int_alpha: bijective base 26 *)
Fixpoint alpha_go (fuel : nat) (value : Z) (acc : list Z) : list Z :=
  match fuel with
  | O => acc
  | S f => if value =? 0 then acc
           else alpha_go f ((value - 1) / 26) ((97 + (value - 1) mod 26) :: acc)
  end.
Definition format_int_alpha (value : Z) : option (list Z) :=
  if 0 <? value then Some (alpha_go (S (Z.to_nat (Z.log2 value))) value []) else None.

Definition upper (l : list Z) : list Z := map (fun c => if (97 <=? c) && (c <=? 122) then c - 32 else c) l.

Inductive style := SNone | SD | SR | Sr | SA | Sa | SOther.
Inductive lres := Label (s : list Z) | AssertErr.

(* PageLabels._format_page_label *)
Definition format_page_label (value : Z) (s : style) : lres :=
  match s with
  | SNone | SOther => Label []
  | SD => Label (decimal value)
  | SR => match format_int_roman value with Some r => Label (upper r) | None => AssertErr end
  | Sr => match format_int_roman value with Some r => Label r | None => AssertErr end
  | SA => match format_int_alpha value with Some r => Label (upper r) | None => AssertErr end
  | Sa => match format_int_alpha value with Some r => Label r | None => AssertErr end
  end.

Record labeldict := mkLD { lstyle : style; lprefix : list Z; lfirst : Z }.   (* S, decoded P, St *)
Definition empty_ld : labeldict := mkLD SNone [] 1.

Definition prefixed (p : list Z) (r : lres) : lres :=
  match r with Label s => Label (p ++ s) | AssertErr => AssertErr end.

(* PageLabels.labels: the k-th label the generator yields (k from 0) *)
Fixpoint label_at (ranges : list (Z * labeldict)) (k : Z) : option lres :=
  match ranges with
  | [] => None
  | (start, ld) :: rest =>
      match rest with
      | [] => Some (prefixed (lprefix ld) (format_page_label (lfirst ld + k) (lstyle ld)))
      | (end_, _) :: _ =>
          let len := Z.max 0 (end_ - start) in
          if k <? len then Some (prefixed (lprefix ld) (format_page_label (lfirst ld + k) (lstyle ld)))
          else label_at rest (k - len)
      end
  end.

(* `if len(ranges) == 0 or ranges[0][0] != 0: ranges.insert(0, (0, {}))` *)
Definition with_index0 (ranges : list (Z * labeldict)) : list (Z * labeldict) :=
  match ranges with
  | (0, _) :: _ => ranges
  | _ => (0, empty_ld) :: ranges
  end.

Definition page_label (t : numtree labeldict) (k : Z) : option lres :=
  label_at (with_index0 (nt_values t)) k.

(* ISO 32000-1 12.4.2: the range in force at page i is the last one starting at or before i *)
Fixpoint spec_range (ranges : list (Z * labeldict)) (i : Z) (cur : option (Z * labeldict)) : option (Z * labeldict) :=
  match ranges with
  | [] => cur
  | (start, ld) :: rest => if start <=? i then spec_range rest i (Some (start, ld)) else cur
  end.
Definition spec_label (ranges : list (Z * labeldict)) (i : Z) : option lres :=
  match spec_range ranges i None with
  | Some (start, ld) => Some (prefixed (lprefix ld) (format_page_label (lfirst ld + (i - start)) (lstyle ld)))
  | None => None
  end.

(* spec of roman numerals: the usual table *)
Definition roman_digit (d : Z) (one five ten : Z) : list Z :=
  if d =? 0 then [] else if d =? 1 then [one] else if d =? 2 then [one; one] else if d =? 3 then [one; one; one]
  else if d =? 4 then [one; five] else if d =? 5 then [five] else if d =? 6 then [five; one]
  else if d =? 7 then [five; one; one] else if d =? 8 then [five; one; one; one] else [one; ten].
Definition spec_roman (n : Z) : list Z :=
  rep 109 (n / 1000) ++ roman_digit ((n / 100) mod 10) 99 100 109
  ++ roman_digit ((n / 10) mod 10) 120 108 99 ++ roman_digit (n mod 10) 105 118 120.

(* ISO 12.4.2 letters: a..z, aa..zz, aaa..zzz: one letter repeated *)
Definition spec_alpha (n : Z) : list Z := rep (97 + (n - 1) mod 26) ((n - 1) / 26 + 1).

(* ---------- name tree ------------------------------------------------------------------- *)
Definition key := list Z.
Fixpoint key_ltb (a b : key) : bool :=       (* bytes < bytes *)
  match a, b with
  | [], [] => false
  | [], _ :: _ => true
  | _ :: _, [] => false
  | x :: a', y :: b' => if x <? y then true else if y <? x then false else key_ltb a' b'
  end.
Fixpoint key_eqb (a b : key) : bool :=
  match a, b with
  | [], [] => true
  | x :: a', y :: b' => (x =? y) && key_eqb a' b'
  | _, _ => false
  end.

Inductive nametree := NM (limits : option (key * key)) (names : option (list (key * Z))) (kids : option (list nametree)).
Inductive nres := Found (v : Z) | RetNone | KeyErr.

(* dict(choplist(2, objs))[key]: the last pair with that key *)
Fixpoint dict_get (k : key) (l : list (key * Z)) (cur : option Z) : option Z :=
  match l with
  | [] => cur
  | (k', v) :: r => dict_get k r (if key_eqb k' k then Some v else cur)
  end.

(* lookup(d) of PDFDocument.lookup_name; a value v is "falsy" when v = 0 *)
Fixpoint nm_lookup (k : key) (t : nametree) : nres :=
  match t with
  | NM limits names kids =>
      if match limits with Some (k1, k2) => key_ltb k k1 || key_ltb k2 k | None => false end then RetNone
      else match names with
           | Some l => match dict_get k l None with Some v => Found v | None => KeyErr end
           | None =>
               match kids with
               | Some ks =>
                   (fix go (ks : list nametree) : nres :=
                      match ks with
                      | [] => KeyErr
                      | c :: r => match nm_lookup k c with
                                  | Found v => if v =? 0 then go r else Found v
                                  | RetNone => go r
                                  | KeyErr => KeyErr
                                  end
                      end) ks
               | None => KeyErr
               end
           end
  end.

Fixpoint nm_entries (t : nametree) : list (key * Z) :=
  match t with
  | NM _ names kids =>
      match names with
      | Some l => l
      | None => match kids with Some ks => flat_map nm_entries ks | None => [] end
      end
  end.

(* ---------- outlines -------------------------------------------------------------------- *)
Record onode := mkO {
  otitle : option Z;        (* Title (an identifier for the string) *)
  oaction : bool;           (* "A" in entry or "Dest" in entry *)
  ofirst : option Z; olast : option Z; onext : option Z
}.
Definition ostore := list (Z * onode).
Definition empty_onode : onode := mkO None false None None None.
Fixpoint olookup (st : ostore) (i : Z) : onode :=
  match st with [] => empty_onode | (k, n) :: r => if k =? i then n else olookup r i end.

(* search(entry, level) *)
Fixpoint osearch (fuel : nat) (st : ostore) (i : Z) (level : Z) : option (list (Z * Z)) :=
  match fuel with
  | O => None
  | S f =>
      let e := olookup st i in
      let here := match otitle e with Some t => if oaction e then [(level, t)] else [] | None => [] end in
      let down := match ofirst e, olast e with
                  | Some c, Some _ => osearch f st c (level + 1)
                  | _, _ => Some []
                  end in
      let next := match onext e with Some n => osearch f st n level | None => Some [] end in
      match down, next with
      | Some d, Some n => Some (here ++ d ++ n)
      | _, _ => None
      end
  end.

Inductive otree := OT (id : Z) (title : Z) (action : bool) (children : list otree).
Definition oid (t : otree) : Z := match t with OT i _ _ _ => i end.
Fixpoint spec_outline (level : Z) (t : otree) : list (Z * Z) :=
  match t with
  | OT _ title action children =>
      (if action then [(level, title)] else []) ++ flat_map (spec_outline (level + 1)) children
  end.

(* ---------- text strings ---------------------------------------------------------------- *)
(* str(s[2:], "utf-16be", "ignore") as code points *)
Fixpoint utf16be (fuel : nat) (s : list Z) : list Z :=
  match fuel with
  | O => []
  | S f =>
      match s with
      | hi :: lo :: r =>
          let u := 256 * hi + lo in
          if (55296 <=? u) && (u <=? 56319) then         (* high surrogate *)
            match r with
            | hi2 :: lo2 :: r2 =>
                let u2 := 256 * hi2 + lo2 in
                if (56320 <=? u2) && (u2 <=? 57343) then (65536 + (u - 55296) * 1024 + (u2 - 56320)) :: utf16be f r2
                else utf16be f r                          (* unpaired: ignored, decoding resumes after it *)
            | _ => []                                     (* truncated pair at the end: ignored *)
            end
          else if (56320 <=? u) && (u <=? 57343) then utf16be f r   (* lone low surrogate: ignored *)
          else u :: utf16be f r
      | _ => []                                           (* odd trailing byte: ignored *)
      end
  end.

Definition decode_text (s : list Z) : list Z :=
  match s with
  | 254 :: 255 :: r => utf16be (S (length r)) r
  | _ => map (fun c => nth (Z.to_nat c) PDFDocEncoding 0) s
  end.
