(* Entry points evaluated by harness/c15.py *)
From Coq Require Import ZArith List Bool.
From PdfV Require Import Base.CV Model.Paths.
Import ListNotations.
Open Scope Z_scope.
Definition cs (s : str) : cv := CL (map CZ s).
Definition run_cmap_paths (x : list str * str) : cv := let '(dirs, name) := x in CL (map cs (cmap_paths dirs name)).
Definition run_image_path (x : str * str * str) : cv := let '(outdir, name, ext) := x in cs (image_path outdir name ext).
Definition run_normpath (p : str) : cv := CL (map cs (normpath p)).
