(* Entry points evaluated by harness/c02.py *)
From Coq Require Import ZArith List Bool.
From PdfV Require Import Base.CV Model.Xref.
Import ListNotations.
Open Scope Z_scope.

Definition canon_entry (e : option entry) : cv :=
  match e with
  | None => CL []
  | Some (EDirect p g) => CL [CZ 0; CZ p; CZ g]
  | Some (EInStm s i) => CL [CZ 1; CZ s; CZ i]
  end.

(* (ranges, w1, w2, w3, data, probes) -> get_pos per probe, then get_objids *)
Definition run_xrefstm (x : list (Z * Z) * Z * Z * Z * list Z * list Z) : cv :=
  let '(ranges, w1, w2, w3, data, probes) := x in
  let xs := mkXS ranges w1 w2 w3 data in
  CL [CL (map (fun n => canon_entry (xs_get_pos xs n)) probes); CL (map CZ (xs_get_objids xs))].

Definition canon_table (r : tres (list (Z * (Z * Z)))) : cv :=
  match r with
  | TOk t => CL [CZ 0; CL (map (fun kv => CL [CZ (fst kv); CZ (fst (snd kv)); CZ (snd (snd kv))]) t)]
  | TNoValidXRef => CL [CZ 1]
  | TUnmodelled => CL [CZ 2]
  end.
(* the lines after the `xref` line, already split by nextline *)
Definition run_table (lines : list (list Z)) : cv := canon_table (table_load (S (length lines)) lines []).

(* all lines nextline yields from a chunked input until PSEOF *)
Fixpoint all_lines (fuel : nat) (cur : list Z) (rest : list (list Z)) : list cv :=
  match fuel with
  | O => []
  | S f => match nextline cur rest with
           | Some (l, cur', rest') => CB l :: all_lines f cur' rest'
           | None => []
           end
  end.
Fixpoint chunk (fuel : nat) (b : nat) (d : list Z) : list (list Z) :=
  match fuel with
  | O => []
  | S f => match d with [] => [] | _ => firstn b d :: chunk f b (skipn b d) end
  end.
Definition run_nextlines (x : nat * list Z) : cv :=
  let '(b, d) := x in CL (all_lines (S (length d)) [] (chunk (length d) b d)).

Definition run_revlines (x : nat * list Z) : cv := CL (map CB (revreadlines (fst x) (snd x))).
Definition run_find_xref (x : nat * list Z) : cv :=
  match find_xref (fst x) (snd x) with FXPos p => CL [CZ p] | FXNoValid => CL [] end.

(* getobj over abstract sections: sections as (kind, payload) *)
Definition canon_gres (g : gres) : cv :=
  match g with
  | GFound (OPlain v) => CL [CZ 0; CZ v]
  | GFound (OStm n _) => CL [CZ 1; CZ n]
  | GNotFound => CL [CZ 2]
  | GOutOfFuel => CL [CZ 9]
  end.
Fixpoint content_of (l : list (Z * (Z * oval))) (pos : Z) : option (Z * oval) :=
  match l with [] => None | (p, x) :: r => if p =? pos then Some x else content_of r pos end.
Definition run_getobj (x : list section * list (Z * (Z * oval)) * list Z) : cv :=
  let '(secs, c, probes) := x in
  CL (map (fun n => canon_gres (getobj 5 secs (content_of c) n)) probes).
