(* Executable model of image export and inline image scanning (definitions only): image.BMPWriter,
   ImageWriter.export_image's choice of format, _save_bmp, _create_unique_image_name, and
   pdfinterp.PDFContentParser.get_inline_data.  [bmp_read] is the reader's side: a plain BMP decoder written from the
   file format, used to state that the exported file decodes to the stored samples. *)
From Coq Require Import ZArith List Bool.
Import ListNotations.
Open Scope Z_scope.

Definition bytes := list Z.

(* ---------- little-endian fields ---------------------------------------------------------------------------- *)
Definition le16 (v : Z) : bytes := [v mod 256; (v / 256) mod 256].
Definition le32 (v : Z) : bytes := [v mod 256; (v / 256) mod 256; (v / 65536) mod 256; (v / 16777216) mod 256].
Definition rd16 (b : bytes) : Z := match b with a :: c :: _ => a + 256 * c | _ => 0 end.
Definition rd32 (b : bytes) : Z := match b with a :: c :: d :: e :: _ => a + 256 * c + 65536 * d + 16777216 * e | _ => 0 end.

Definition align32 (x : Z) : Z := ((x + 3) / 4) * 4.

(* ---------- BMPWriter ------------------------------------------------------------------------------------------ *)
Definition ncols (bits : Z) : option Z :=
  if bits =? 1 then Some 2 else if bits =? 8 then Some 256 else if bits =? 24 then Some 0 else None.
Definition linesize (bits width : Z) : Z := align32 ((width * bits + 7) / 8).

Definition palette (bits : Z) : bytes :=
  if bits =? 1 then [0; 0; 0; 0; 255; 255; 255; 0]
  else if bits =? 8 then flat_map (fun i => [i; i; i; 0]) (map Z.of_nat (seq 0 256))
  else [].

Definition bmp_header (bits width height : Z) : option bytes :=
  match ncols bits with
  | None => None                                           (* PDFValueError *)
  | Some nc =>
      let datasize := linesize bits width * height in
      let headersize := 14 + 40 + nc * 4 in
      Some ([66; 77] ++ le32 (headersize + datasize) ++ le16 0 ++ le16 0 ++ le32 headersize
            ++ le32 40 ++ le32 width ++ le32 height ++ le16 1 ++ le16 bits ++ le32 0 ++ le32 datasize
            ++ le32 0 ++ le32 0 ++ le32 nc ++ le32 0
            ++ palette bits)
  end.

(* write_line: 24-bit rows are stored blue, green, red; every row is padded to [linesize] *)
Fixpoint swap_rgb (d : bytes) : bytes :=
  match d with
  | r :: g :: b :: rest => b :: g :: r :: swap_rgb rest
  | other => rev other                                     (* data[i:i+3][::-1] on a short tail *)
  end.
Definition pad_to (n : nat) (d : bytes) : bytes := d ++ repeat 0 (n - length d).
Definition bmp_row (bits width : Z) (d : bytes) : bytes :=
  pad_to (Z.to_nat (linesize bits width)) (if bits =? 24 then swap_rgb d else d).

(* _save_bmp: rows y = 0..height-1 are data[y*bpl : (y+1)*bpl]; row y is placed (y+1) rows before the end *)
Definition row_slices (data : bytes) (bpl : Z) (height : Z) : list bytes :=
  map (fun y => firstn (Z.to_nat bpl) (skipn (Z.to_nat (Z.of_nat y * bpl)) data)) (seq 0 (Z.to_nat height)).

Definition bmp_file (bits width height bpl : Z) (data : bytes) : option bytes :=
  match bmp_header bits width height with
  | None => None
  | Some h => Some (h ++ concat (rev (map (bmp_row bits width) (row_slices data bpl height))))
  end.

(* ---------- a BMP reader (BITMAPINFOHEADER, uncompressed, bottom-up) -------------------------------------- *)
Fixpoint take_rows (n : nat) (ls : nat) (d : bytes) : list bytes :=
  match n with
  | O => []
  | S n' => firstn ls d :: take_rows n' ls (skipn ls d)
  end.
Record image := mkImage { iwidth : Z; iheight : Z; ibits : Z; irows : list bytes }.   (* rows top to bottom *)

Definition bmp_read (f : bytes) : option image :=
  match f with
  | 66 :: 77 :: rest =>
      let off := rd32 (skipn 8 rest) in                    (* bfOffBits at byte 10 *)
      let width := rd32 (skipn 16 rest) in                 (* biWidth at byte 18 *)
      let height := rd32 (skipn 20 rest) in
      let bits := rd16 (skipn 26 rest) in
      let ls := Z.to_nat (linesize bits width) in
      let bpl := Z.to_nat ((width * bits + 7) / 8) in
      let body := skipn (Z.to_nat off) f in
      if Nat.ltb (length body) (ls * Z.to_nat height) then None
      else
        let stored := take_rows (Z.to_nat height) ls body in
        Some (mkImage width height bits
                (map (fun r => let d := firstn bpl r in if bits =? 24 then swap_rgb d else d) (rev stored)))
  | _ => None
  end.

(* ---------- ImageWriter.export_image: which writer -------------------------------------------------------- *)
Inductive fmt := FJpeg | FJp2 | FJbig2 | FBmp (bpl bits : Z) | FBytesPIL | FRaw.
Inductive filt := FlDCT | FlJPX | FlJBIG2 | FlFlate | FlOther.
Inductive cspace := CsGray | CsRGB | CsOther.

Definition choose_format (filters : list filt) (bits width : Z) (cs : cspace) : fmt :=
  match last (map Some filters) None with
  | Some FlDCT => FJpeg
  | Some FlJPX => FJp2
  | _ =>
      if existsb (fun f => match f with FlJBIG2 => true | _ => false end) filters then FJbig2
      else if bits =? 1 then FBmp ((width + 7) / 8) 1
      else if (bits =? 8) && (match cs with CsRGB => true | _ => false end) then FBmp (width * 3) 24
      else if (bits =? 8) && (match cs with CsGray => true | _ => false end) then FBmp width 8
      else match filters with [FlFlate] => FBytesPIL | _ => FRaw end
  end.

(* ---------- _create_unique_image_name ------------------------------------------------------------------------ *)
Fixpoint str_eqb (a b : bytes) : bool :=
  match a, b with [], [] => true | x :: a', y :: b' => (x =? y) && str_eqb a' b' | _, _ => false end.
Definition exists_in (existing : list bytes) (n : bytes) : bool := existsb (str_eqb n) existing.

Fixpoint digits (fuel : nat) (n : Z) (acc : bytes) : bytes :=
  match fuel with
  | O => acc
  | S f => if n <? 10 then (48 + n) :: acc else digits f (n / 10) ((48 + n mod 10) :: acc)
  end.
Definition decimal (n : Z) : bytes := digits (Z.to_nat (Z.log2 n + 2)) n [].

(* while os.path.exists(path): name = "%s.%d%s" % (image.name, img_index, ext) *)
Fixpoint unique_go (fuel : nat) (existing : list bytes) (base ext : bytes) (idx : Z) : option bytes :=
  match fuel with
  | O => None
  | S f =>
      let cand := base ++ [46] ++ decimal idx ++ ext in
      if exists_in existing cand then unique_go f existing base ext (idx + 1) else Some cand
  end.
Definition unique_name (existing : list bytes) (base ext : bytes) : option bytes :=
  if exists_in existing (base ++ ext) then unique_go (S (length existing)) existing base ext 0 else Some (base ++ ext).

(* ---------- get_inline_data --------------------------------------------------------------------------------- *)
Definition is_space (c : Z) : bool := (c =? 32) || ((9 <=? c) && (c <=? 13)).   (* bytes.isspace() *)

(* i = number of target bytes matched so far (target = "EI"); returns (data incl. terminator, rest) *)
Fixpoint scan (i : nat) (acc : bytes) (s : bytes) : bytes * bytes :=
  match s with
  | [] => (rev acc, [])                                    (* PSEOF in the implementation *)
  | c :: r =>
      match i with
      | O => if c =? 69 then scan 1 (c :: acc) r else scan 0 (c :: acc) r
      | 1%nat => if c =? 73 then scan 2 (c :: acc) r else scan 0 (c :: acc) r
      | _ => if is_space c then (rev (c :: acc), r) else scan 0 (c :: acc) r
      end
  end.
(* strip "EI" + the white-space byte, then one trailing end-of-line *)
Definition strip_eol (d : bytes) : bytes :=
  match rev d with
  | 10 :: 13 :: r => rev r
  | 10 :: r => rev r
  | 13 :: r => rev r
  | _ => d
  end.
Definition inline_data (s : bytes) : bytes * bytes :=
  let (d, rest) := scan 0 [] s in
  (strip_eol (firstn (length d - 3) d), rest).
