(* Executable model of the text and XML converters (definitions only): utils.enc (html.escape),
   converter.TextConverter.receive_layout, XMLConverter.receive_layout / write_text / write_header / close.
   Strings are lists of code points; numbers arrive already formatted (the harness formats the tree's floats with the
   same "%.3f" / "%d" conversions), so the model covers structure, order and escaping. *)
From Coq Require Import ZArith List Bool.
Import ListNotations.
Open Scope Z_scope.

Definition str := list Z.

(* ---------- html.escape(s, quote=True) ------------------------------------------------------------------------ *)
Definition s_amp : str := [38; 97; 109; 112; 59].            (* &amp; *)
Definition s_lt : str := [38; 108; 116; 59].                 (* &lt; *)
Definition s_gt : str := [38; 103; 116; 59].                 (* &gt; *)
Definition s_quot : str := [38; 113; 117; 111; 116; 59].     (* &quot; *)
Definition s_apos : str := [38; 35; 120; 50; 55; 59].        (* &#x27; *)
Definition escape_char (c : Z) : str :=
  if c =? 38 then s_amp else if c =? 60 then s_lt else if c =? 62 then s_gt
  else if c =? 34 then s_quot else if c =? 39 then s_apos else [c].
Definition escape (s : str) : str := flat_map escape_char s.

(* the reader's side: decoding the five entities (what any XML parser does with them) *)
Fixpoint starts (p s : str) : option str :=
  match p, s with
  | [], _ => Some s
  | x :: p', y :: s' => if x =? y then starts p' s' else None
  | _ :: _, [] => None
  end.
Fixpoint unescape (fuel : nat) (s : str) : str :=
  match fuel with
  | O => s
  | S f =>
      match s with
      | [] => []
      | c :: r =>
          if c =? 38 then
            match starts s_amp s with Some t => 38 :: unescape f t | None =>
            match starts s_lt s with Some t => 60 :: unescape f t | None =>
            match starts s_gt s with Some t => 62 :: unescape f t | None =>
            match starts s_quot s with Some t => 34 :: unescape f t | None =>
            match starts s_apos s with Some t => 39 :: unescape f t | None => c :: unescape f r
            end end end end end
          else c :: unescape f r
      end
  end.

(* XMLConverter.CONTROL = [\x00-\x08\x0b-\x0c\x0e-\x1f] *)
Definition is_control (c : Z) : bool :=
  ((0 <=? c) && (c <=? 8)) || ((11 <=? c) && (c <=? 12)) || ((14 <=? c) && (c <=? 31)).
Definition strip_control (s : str) : str := filter (fun c => negb (is_control c)) s.

(* ---------- the layout tree as the converters see it --------------------------------------------------------- *)
Record chr := mkChr { cfont : str; cbbox : str; ccs : str; cncolor : str; csize : str; ctext : str }.
Inductive lelem := LChar (c : chr) | LAnno (t : str).
Record tline := mkTLine { tlbbox : str; tlelems : list lelem }.
Record tbox := mkTBox { tbid : str; tbbbox : str; tbvertical : bool; tblines : list tline }.
Inductive gtree := GBox (id bbox : str) | GGroup (bbox : str) (kids : list gtree).

Inductive item :=
| IBox (b : tbox)
| ILine (l : tline)                                  (* an empty line, outside any box *)
| IChar (c : chr)                                    (* a glyph that was not analysed (inside a figure) *)
| IFigure (name : str) (bbox : str) (kids : list item)
| IShape (kind : Z) (linewidth bbox pts : str)       (* 0 line, 1 rect, 2 curve *)
| IImage (w h : str).

Record page := mkPage { pid : str; pbbox : str; protate : str; pitems : list item; pgroups : option (list gtree) }.

(* ---------- TextConverter ----------------------------------------------------------------------------------------- *)
Definition elem_text (e : lelem) : str := match e with LChar c => ctext c | LAnno t => t end.
Definition line_text (l : tline) : str := flat_map elem_text (tlelems l).
Definition box_text (b : tbox) : str := flat_map line_text (tblines b).

Fixpoint item_text (i : item) : str :=
  match i with
  | IBox b => box_text b ++ [10]                      (* one line break after each text box *)
  | ILine l => line_text l
  | IChar c => ctext c
  | IFigure _ _ kids => flat_map item_text kids
  | IShape _ _ _ _ => []
  | IImage _ _ => []
  end.
Definition page_text (p : page) : str := flat_map item_text (pitems p) ++ [12].     (* one form feed after each page *)
Definition text_output (pages : list page) : str := flat_map page_text pages.

(* ---------- XMLConverter --------------------------------------------------------------------------------------------- *)
Definition lit (s : list Z) : str := s.
Definition q : Z := 34.
Definition attr (name value : str) : str := [32] ++ name ++ [61; q] ++ value ++ [q].

(* names of elements and attributes *)
Definition n_pages : str := [112;97;103;101;115].
Definition n_page : str := [112;97;103;101].
Definition n_text : str := [116;101;120;116].
Definition n_textline : str := [116;101;120;116;108;105;110;101].
Definition n_textbox : str := [116;101;120;116;98;111;120].
Definition n_textgroup : str := [116;101;120;116;103;114;111;117;112].
Definition n_layout : str := [108;97;121;111;117;116].
Definition n_figure : str := [102;105;103;117;114;101].
Definition n_line : str := [108;105;110;101].
Definition n_rect : str := [114;101;99;116].
Definition n_curve : str := [99;117;114;118;101].
Definition n_image : str := [105;109;97;103;101].
Definition a_id : str := [105;100].
Definition a_bbox : str := [98;98;111;120].
Definition a_rotate : str := [114;111;116;97;116;101].
Definition a_font : str := [102;111;110;116].
Definition a_colourspace : str := [99;111;108;111;117;114;115;112;97;99;101].
Definition a_ncolour : str := [110;99;111;108;111;117;114].
Definition a_size : str := [115;105;122;101].
Definition a_wmode : str := [119;109;111;100;101].
Definition a_name : str := [110;97;109;101].
Definition a_linewidth : str := [108;105;110;101;119;105;100;116;104].
Definition a_pts : str := [112;116;115].
Definition a_width : str := [119;105;100;116;104].
Definition a_height : str := [104;101;105;103;104;116].
Definition v_vertical : str := [118;101;114;116;105;99;97;108].

(* tokens: the structure of the output; [TRaw] is character data written as is *)
Inductive token :=
| TOpen (name : str) (attrs : list (str * str))       (* <name a="v" ...>  attribute values already escaped *)
| TEmpty (name : str) (attrs : list (str * str)) (space_before_slash : bool)
| TClose (name : str)
| TData (s : str)                                     (* escaped character data *)
| TNewline.

Definition xml_write_text (strip : bool) (t : str) : str := escape (if strip then strip_control t else t).

Definition chr_tokens (strip : bool) (c : chr) : list token :=
  [TOpen n_text [(a_font, escape (cfont c)); (a_bbox, cbbox c); (a_colourspace, ccs c); (a_ncolour, cncolor c); (a_size, csize c)];
   TData (xml_write_text strip (ctext c)); TClose n_text; TNewline].
Definition elem_tokens (strip : bool) (e : lelem) : list token :=
  match e with
  | LChar c => chr_tokens strip c
  | LAnno t => [TOpen n_text []; TData t; TClose n_text; TNewline]       (* '<text>%s</text>\n' : not escaped *)
  end.
Definition line_tokens (strip : bool) (l : tline) : list token :=
  [TOpen n_textline [(a_bbox, tlbbox l)]; TNewline] ++ flat_map (elem_tokens strip) (tlelems l) ++ [TClose n_textline; TNewline].
Definition box_tokens (strip : bool) (b : tbox) : list token :=
  [TOpen n_textbox ([(a_id, tbid b); (a_bbox, tbbbox b)] ++ (if tbvertical b then [(a_wmode, v_vertical)] else [])); TNewline]
  ++ flat_map (line_tokens strip) (tblines b) ++ [TClose n_textbox; TNewline].

Fixpoint item_tokens (strip : bool) (i : item) : list token :=
  match i with
  | IBox b => box_tokens strip b
  | ILine l => line_tokens strip l
  | IChar c => chr_tokens strip c
  | IFigure name bbox kids =>
      [TOpen n_figure [(a_name, escape name); (a_bbox, bbox)]; TNewline]
      ++ flat_map (item_tokens strip) kids ++ [TClose n_figure; TNewline]
  | IShape k lw bbox pts =>
      if k =? 0 then [TEmpty n_line [(a_linewidth, lw); (a_bbox, bbox)] true; TNewline]
      else if k =? 1 then [TEmpty n_rect [(a_linewidth, lw); (a_bbox, bbox)] true; TNewline]
      else [TEmpty n_curve [(a_linewidth, lw); (a_bbox, bbox); (a_pts, pts)] false; TNewline]
  | IImage w h => [TEmpty n_image [(a_width, w); (a_height, h)] true; TNewline]
  end.

Fixpoint group_tokens (g : gtree) : list token :=
  match g with
  | GBox id bbox => [TEmpty n_textbox [(a_id, id); (a_bbox, bbox)] true; TNewline]
  | GGroup bbox kids => [TOpen n_textgroup [(a_bbox, bbox)]; TNewline] ++ flat_map group_tokens kids ++ [TClose n_textgroup; TNewline]
  end.

Definition page_tokens (strip : bool) (p : page) : list token :=
  [TOpen n_page [(a_id, pid p); (a_bbox, pbbox p); (a_rotate, protate p)]; TNewline]
  ++ flat_map (item_tokens strip) (pitems p)
  ++ (match pgroups p with
      | Some gs => [TOpen n_layout []; TNewline] ++ flat_map group_tokens gs ++ [TClose n_layout; TNewline]
      | None => []
      end)
  ++ [TClose n_page; TNewline].

Definition body_tokens (strip : bool) (pages : list page) : list token :=
  [TOpen n_pages []; TNewline] ++ flat_map (page_tokens strip) pages ++ [TClose n_pages; TNewline].

Definition print_attrs (attrs : list (str * str)) : str := flat_map (fun nv => attr (fst nv) (snd nv)) attrs.
Definition print_token (t : token) : str :=
  match t with
  | TOpen n a => [60] ++ n ++ print_attrs a ++ [62]
  | TEmpty n a sp => [60] ++ n ++ print_attrs a ++ (if sp then [32] else []) ++ [47; 62]
  | TClose n => [60; 47] ++ n ++ [62]
  | TData s => s
  | TNewline => [10]
  end.

(* '<?xml version="1.0" encoding="%s" ?>\n' or '<?xml version="1.0" ?>\n' *)
Definition xml_decl (codec : option str) : str :=
  [60;63;120;109;108;32;118;101;114;115;105;111;110;61;34;49;46;48;34]
  ++ (match codec with Some c => [32;101;110;99;111;100;105;110;103;61;34] ++ c ++ [34] | None => [] end)
  ++ [32;63;62;10].

Definition xml_output (codec : option str) (strip : bool) (pages : list page) : str :=
  xml_decl codec ++ flat_map print_token (body_tokens strip pages).
