(* Executable model of the object layer: PSStackParser.nextobject with the
   do_keyword/flush overrides of PDFParser and PDFStreamParser, run over the token
   list produced by the lexer model (definitions only). *)
From Coq Require Import ZArith QArith List Bool.
From PdfV Require Import Gen.LexClasses Model.Lexer.
Import ListNotations.
Open Scope Z_scope.

Inductive value :=
| VNull
| VBool (b : bool)
| VInt (z : Z)
| VReal (sp : list Z)                    (* the spelling; value = float(spelling) *)
| VName (n : list Z)
| VStr (s : list Z)
| VArr (l : list value)                  (* arrays and { } procedures: both Python lists *)
| VDict (d : list (list Z * value))      (* insertion order, as a Python dict *)
| VRef (n : Z)                           (* PDFObjRef: the generation number is discarded *)
| VKw (k : list Z).

Inductive flavour := PStream | PPdf.      (* PDFStreamParser | PDFParser *)
Inductive ctype := CTa | CTd | CTp.
Definition ctype_eqb (a b : ctype) : bool :=
  match a, b with CTa, CTa | CTd, CTd | CTp, CTp => true | _, _ => false end.

Record pst := mkP {
  ctx : list (option ctype * list value);   (* self.context, top first *)
  curtype : option ctype;
  curstack : list value;
  results : list value
}.
Definition pinit : pst := mkP [] None [] [].

Inductive outcome (A : Type) :=
| Ok (a : A)
| ErrSyntax        (* PSSyntaxError: odd number of objects between << and >> *)
| ErrValue         (* ValueError: R with fewer than two operands in PDFStreamParser *)
| Unmodelled.      (* outside the modelled fragment (stream keyword, non-name dict key, ...) *)
Arguments Ok {A} a. Arguments ErrSyntax {A}. Arguments ErrValue {A}. Arguments Unmodelled {A}.

Definition push (v : value) (s : pst) : pst := mkP (ctx s) (curtype s) (curstack s ++ [v]) (results s).
Definition start_type (t : ctype) (s : pst) : pst := mkP ((curtype s, curstack s) :: ctx s) (Some t) [] (results s).

(* pop(n): objs = curstack[-n:]; curstack[-n:] = [] *)
Definition lastn {A} (n : nat) (l : list A) : list A := skipn (length l - n) l.
Definition droplast {A} (n : nat) (l : list A) : list A := firstn (length l - n) l.

Fixpoint dict_set (k : list Z) (v : value) (d : list (list Z * value)) : list (list Z * value) :=
  match d with
  | [] => [(k, v)]
  | (k', v') :: r => if bytes_eqb k' k then (k', v) :: r else (k', v') :: dict_set k v r
  end.
Definition is_null (v : value) : bool := match v with VNull => true | _ => false end.
(* {literal_name(k): v for (k, v) in pairs if v is not None} *)
Definition dict_build (pairs : list (list Z * value)) : list (list Z * value) :=
  fold_left (fun acc kv => if is_null (snd kv) then acc else dict_set (fst kv) (snd kv) acc) pairs [].

(* choplist(2, objs) with literal_name on the keys *)
Fixpoint chop_pairs (fuel : nat) (objs : list value) : option (list (list Z * value)) :=
  match fuel with
  | O => Some []
  | S f => match objs with
           | [] => Some []
           | [_] => Some []          (* unreachable: the length is checked to be even first *)
           | VName k :: v :: r => match chop_pairs f r with Some ps => Some ((k, v) :: ps) | None => None end
           | _ :: _ :: _ => None     (* literal_name of a non-literal: str(x), not modelled *)
           end
  end.

Definition kw_eqb (k : list Z) (s : list Z) : bool := bytes_eqb k s.
Definition K_R := [82]. Definition K_null := [110; 117; 108; 108].
Definition K_obj := [111; 98; 106]. Definition K_endobj := [101; 110; 100; 111; 98; 106].
Definition K_stream := [115; 116; 114; 101; 97; 109]. Definition K_xref := [120; 114; 101; 102].
Definition K_startxref := [115; 116; 97; 114; 116; 120; 114; 101; 102].

(* safe_int on the object-number operand of R *)
Inductive sint := SI (z : Z) | SNone | SUnmodelled.
Definition safe_int (v : value) : sint :=
  match v with
  | VInt z => SI z
  | VBool b => SI (if b then 1 else 0)
  | VReal _ | VStr _ => SUnmodelled         (* int(float) / int(bytes) *)
  | _ => SNone
  end.

Definition do_R (s : pst) : outcome pst :=
  let st := curstack s in
  match safe_int (nth (length st - 2) st VNull) with
  | SI z => Ok (push (VRef z) (mkP (ctx s) (curtype s) (droplast 2 st) (results s)))
  | SNone => Ok (mkP (ctx s) (curtype s) (droplast 2 st) (results s))
  | SUnmodelled => Unmodelled
  end.

Definition add_results_pop (n : nat) (s : pst) : pst :=
  mkP (ctx s) (curtype s) (droplast n (curstack s)) (results s ++ lastn n (curstack s)).

Definition do_keyword (fl : flavour) (k : list Z) (s : pst) : outcome pst :=
  match fl with
  | PStream =>
      if kw_eqb k K_R then (if (2 <=? length (curstack s))%nat then do_R s else ErrValue)
      else if kw_eqb k K_null then Ok (push VNull s)
      else if kw_eqb k K_obj || kw_eqb k K_endobj then Ok s
      else Ok (push (VKw k) s)
  | PPdf =>
      if kw_eqb k K_xref || kw_eqb k K_startxref then Ok (add_results_pop 1 s)
      else if kw_eqb k K_endobj then Ok (add_results_pop 4 s)
      else if kw_eqb k K_null then Ok (push VNull s)
      else if kw_eqb k K_R then (if (2 <=? length (curstack s))%nat then do_R s else Ok s)
      else if kw_eqb k K_stream then Unmodelled
      else Ok (push (VKw k) s)
  end.

(* end_type(t): PSTypeError (swallowed unless STRICT) when the open context is of another type *)
Definition end_type (t : ctype) (s : pst) : option (list value * pst) :=
  match curtype s with
  | Some t' => if ctype_eqb t t' then
                 match ctx s with
                 | (ct, stk) :: r => Some (curstack s, mkP r ct stk (results s))
                 | [] => None
                 end
               else None
  | None => None
  end.

Definition tok_step (fl : flavour) (s : pst) (t : token) : outcome pst :=
  match t with
  | TInt z => Ok (push (VInt z) s)
  | TReal sp => Ok (push (VReal sp) s)
  | TBool b => Ok (push (VBool b) s)
  | TLit n => Ok (push (VName n) s)
  | TStr b => Ok (push (VStr b) s)
  | TKw k =>
      if kw_eqb k [91] then Ok (start_type CTa s)
      else if kw_eqb k [93] then
        Ok (match end_type CTa s with Some (objs, s') => push (VArr objs) s' | None => s end)
      else if kw_eqb k [60; 60] then Ok (start_type CTd s)
      else if kw_eqb k [62; 62] then
        match end_type CTd s with
        | Some (objs, s') =>
            if Nat.even (length objs) then
              match chop_pairs (length objs) objs with
              | Some ps => Ok (push (VDict (dict_build ps)) s')
              | None => Unmodelled
              end
            else ErrSyntax
        | None => Ok s
        end
      else if kw_eqb k [123] then Ok (start_type CTp s)
      else if kw_eqb k [125] then
        Ok (match end_type CTp s with Some (objs, s') => push (VArr objs) s' | None => s end)
      else do_keyword fl k s
  end.

(* `if self.context: continue else: self.flush()` *)
Definition after_token (fl : flavour) (s : pst) : pst :=
  match ctx s, fl with
  | [], PStream => mkP [] (curtype s) [] (results s ++ curstack s)
  | _, _ => s
  end.

Fixpoint run_toks (fl : flavour) (s : pst) (ts : list token) : outcome pst :=
  match ts with
  | [] => Ok s
  | t :: r => match tok_step fl s t with
              | Ok s' => run_toks fl (after_token fl s') r
              | ErrSyntax => ErrSyntax | ErrValue => ErrValue | Unmodelled => Unmodelled
              end
  end.

(* every object nextobject() returns until PSEOF *)
Definition parse_all (fl : flavour) (ts : list token) : outcome (list value) :=
  match run_toks fl pinit ts with
  | Ok s => Ok (results s)
  | ErrSyntax => ErrSyntax | ErrValue => ErrValue | Unmodelled => Unmodelled
  end.

Definition parse_bytes (fl : flavour) (data : list Z) : outcome (list value) :=
  parse_all fl (map snd (lex 0 data)).

(* ---- the token-level printer (the inverse the theorems are about) ----------------- *)
Fixpoint tprint (v : value) : list token :=
  match v with
  | VNull => [TKw K_null]
  | VBool b => [TBool b]
  | VInt z => [TInt z]
  | VReal sp => [TReal sp]
  | VName n => [TLit n]
  | VStr s => [TStr s]
  | VArr l => TKw [91] :: flat_map tprint l ++ [TKw [93]]
  | VDict d => TKw [60; 60] :: flat_map (fun kv => TLit (fst kv) :: tprint (snd kv)) d ++ [TKw [62; 62]]
  | VRef n => [TInt n; TInt 0; TKw K_R]
  | VKw k => [TKw k]
  end.

(* what a value denotes once written and read back: null-valued dictionary entries are
   absent (ISO 32000-1 7.3.7) and a repeated key keeps its last value *)
Fixpoint norm (v : value) : value :=
  match v with
  | VArr l => VArr (map norm l)
  | VDict d => VDict (dict_build (map (fun kv => match kv with (k, x) => (k, norm x) end) d))
  | _ => v
  end.

(* exact value of a real spelling [+-]?d*.d* as a reduced fraction (harness compares
   it with Fraction(float) on spellings whose value is dyadic) *)
Definition real_value (sp : list Z) : Q :=
  let neg := match sp with 45 :: _ => true | _ => false end in
  let body := filter (fun c => isdigit c || (c =? 46)) sp in
  let (ip, fp) := span isdigit body in
  let fd := filter isdigit fp in
  let num := digits_val ip * 10 ^ (Z.of_nat (length fd)) + digits_val fd in
  Qred ((if neg then - num else num) # (Z.to_pos (10 ^ (Z.of_nat (length fd))))).
