(* Entry points evaluated by the correspondence harness (harness/c14.py, c01.py). *)
From Coq Require Import ZArith List Bool.
From PdfV Require Import Base.CV Gen.LexClasses Model.Lexer.
Import ListNotations.
Open Scope Z_scope.

Definition canon_token (t : token) : cv :=
  match t with
  | TInt z => CL [CZ 0; CZ z]
  | TReal b => CL [CZ 1; CB b]
  | TBool b => CL [CZ 2; cvb b]
  | TKw b => CL [CZ 3; CB b]
  | TLit b => CL [CZ 4; CB b]
  | TStr b => CL [CZ 5; CB b]
  end.
Definition canon_ptok (pt : Z * token) : cv := CL [CZ (fst pt); canon_token (snd pt)].
Definition canon_toks (o : option (list (Z * token))) : cv :=
  match o with None => CZ (-1) | Some l => CL (map canon_ptok l) end.

(* (bufsiz, data) -> tokens through the chunk layer *)
Definition run_tokenize (x : nat * list Z) : cv := canon_toks (tokenize (fst x) 0 (snd x)).
(* data -> tokens through the byte automaton *)
Definition run_lex (d : list Z) : cv := canon_toks (Some (lex 0 d)).
