(* Entry points evaluated by harness/c01.py *)
From Coq Require Import ZArith QArith List Bool.
From PdfV Require Import Base.CV Gen.LexClasses Model.Lexer Model.StackParser.
Import ListNotations.
Open Scope Z_scope.

Fixpoint canon_value (v : value) : cv :=
  match v with
  | VNull => CL [CZ 0]
  | VBool b => CL [CZ 1; cvb b]
  | VInt z => CL [CZ 2; CZ z]
  | VReal sp => let q := real_value sp in CL [CZ 3; CZ (Qnum q); CZ (Zpos (Qden q))]
  | VName n => CL [CZ 4; CB n]
  | VStr s => CL [CZ 5; CB s]
  | VArr l => CL [CZ 6; CL (map canon_value l)]
  | VDict d => CL [CZ 7; CL (map (fun kv => match kv with (k, x) => CL [CB k; canon_value x] end) d)]
  | VRef n => CL [CZ 8; CZ n]
  | VKw k => CL [CZ 9; CB k]
  end.

Definition canon_outcome (o : outcome (list value)) : cv :=
  match o with
  | Ok l => CL [CZ 0; CL (map canon_value l)]
  | ErrSyntax => CL [CZ 1]
  | ErrValue => CL [CZ 2]
  | Unmodelled => CL [CZ 3]
  end.

Definition run_parse_stream (d : list Z) : cv := canon_outcome (parse_bytes PStream d).
Definition run_parse_pdf (d : list Z) : cv := canon_outcome (parse_bytes PPdf d).
