(* Entry points evaluated by harness/c17.py *)
From Coq Require Import ZArith List Bool.
From PdfV Require Import Base.CV Gen.TextTables Model.Labels.
Import ListNotations.
Open Scope Z_scope.

(* the first n labels, stopping at the first AssertionError *)
Fixpoint labels_upto (t : numtree labeldict) (n : nat) (k : Z) : list cv :=
  match n with
  | O => []
  | S m => match page_label t k with
           | Some (Label s) => CL (map CZ s) :: labels_upto t m (k + 1)
           | Some AssertErr => [CZ (-1)]
           | None => [CZ (-2)]
           end
  end.
Definition run_labels (x : numtree labeldict * nat) : cv := CL (labels_upto (fst x) (snd x) 0).

Definition canon_nres (r : nres) : cv :=
  match r with Found v => CL [CZ v] | RetNone => CZ (-1) | KeyErr => CZ (-2) end.
Definition run_lookup (x : nametree * list key) : cv :=
  CL (map (fun k => canon_nres (nm_lookup k (fst x))) (snd x)).

Definition run_outline (x : ostore * Z) : cv :=
  match osearch (S (S (length (fst x)))) (fst x) (snd x) 0 with
  | Some l => CL (map (fun p => CL [CZ (fst p); CZ (snd p)]) l)
  | None => CZ (-1)
  end.

Definition run_decode (s : list Z) : cv := CL (map CZ (decode_text s)).

Definition run_roman (n : Z) : cv :=
  match format_int_roman n with Some r => CB r | None => CZ (-1) end.
Definition run_alpha (n : Z) : cv :=
  match format_int_alpha n with Some r => CB r | None => CZ (-1) end.
