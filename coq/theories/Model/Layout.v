(* Executable model of pdfminer.layout's analysis over Q (definitions only): LTComponent's overlap/distance
   helpers, LTTextLineHorizontal/Vertical.add (word spacing), LTLayoutContainer.group_objects, find_neighbors,
   group_textlines, group_textboxes (the heap is modelled by extracting the minimum entry), the analyze passes
   (line breaks, stable sorts, IndexAssigner) and LTLayoutContainer.analyze.  The spatial index is Model/Plane.v. *)
From Coq Require Import ZArith QArith List Bool.
From PdfV Require Import Base.Num Gen.Geom Model.Plane.
Import ListNotations.
Open Scope Q_scope.

(* ---------- boxes -------------------------------------------------------------------------------------------- *)
Definition bx0 (b : box) : Q := let '(x0, _, _, _) := b in x0.
Definition by0 (b : box) : Q := let '(_, y0, _, _) := b in y0.
Definition bx1 (b : box) : Q := let '(_, _, x1, _) := b in x1.
Definition by1 (b : box) : Q := let '(_, _, _, y1) := b in y1.
Definition width (b : box) : Q := bx1 b - bx0 b.
Definition height (b : box) : Q := by1 b - by0 b.

(* Python's two-argument min / max and abs *)
Definition qmin (a b : Q) : Q := if Qltb b a then b else a.
Definition qmax (a b : Q) : Q := if Qltb a b then b else a.
Definition qabs (a : Q) : Q := if Qltb a 0 then - a else a.

Definition is_hoverlap (s o : box) : bool := Qle_bool (bx0 o) (bx1 s) && Qle_bool (bx0 s) (bx1 o).
Definition hgap (s o : box) : Q := qmin (qabs (bx0 s - bx1 o)) (qabs (bx1 s - bx0 o)).
Definition hdistance (s o : box) : Q := if is_hoverlap s o then 0 else hgap s o.
Definition hoverlap (s o : box) : Q := if is_hoverlap s o then hgap s o else 0.
Definition is_voverlap (s o : box) : bool := Qle_bool (by0 o) (by1 s) && Qle_bool (by0 s) (by1 o).
Definition vgap (s o : box) : Q := qmin (qabs (by0 s - by1 o)) (qabs (by1 s - by0 o)).
Definition vdistance (s o : box) : Q := if is_voverlap s o then 0 else vgap s o.
Definition voverlap (s o : box) : Q := if is_voverlap s o then vgap s o else 0.

Definition box_empty (b : box) : bool := Qle_bool (width b) 0 || Qle_bool (height b) 0.
Definition union_box (b : option box) (o : box) : box :=
  match b with
  | None => o                                              (* min(+INF, x) = x *)
  | Some c => (qmin (bx0 c) (bx0 o), qmin (by0 c) (by0 o), qmax (bx1 c) (bx1 o), qmax (by1 c) (by1 o))
  end.

Record laparams := mkLA {
  line_overlap : Q; char_margin : Q; line_margin : Q; word_margin : Q;
  boxes_flow : option Q; detect_vertical : bool
}.

(* ---------- glyphs and lines ------------------------------------------------------------------------------ *)
Record glyph := mkG { gid : nat; gbox : box; gtext : list Z }.
Inductive elem := EChar (g : glyph) | EAnno (t : list Z).
Inductive orient := OH | OV.
Record line := mkLine { lori : orient; lelems : list elem; lbox : option box; llast : option Q }.

Definition new_line (o : orient) : line := mkLine o [] None None.
Definition nonzero (q : Q) : bool := negb (Qeq_bool q 0).

(* LTTextLineHorizontal.add / LTTextLineVertical.add *)
Definition needs_space (p : laparams) (l : line) (g : glyph) : bool :=
  let b := gbox g in
  let margin := word_margin p * qmax (width b) (height b) in
  nonzero (word_margin p) &&
  match lori l, llast l with
  | OH, Some x1 => Qltb x1 (bx0 b - margin)
  | OV, Some y0 => Qltb (by1 b + margin) y0
  | _, None => false                                       (* +INF < ... / ... < -INF *)
  end.
Definition line_add (p : laparams) (l : line) (g : glyph) : line :=
  mkLine (lori l)
         (lelems l ++ (if needs_space p l g then [EAnno [32%Z]] else []) ++ [EChar g])
         (Some (union_box (lbox l) (gbox g)))
         (Some (match lori l with OH => bx1 (gbox g) | OV => by0 (gbox g) end)).

Definition halign (p : laparams) (a b : box) : bool :=
  is_voverlap a b && Qltb (qmin (height a) (height b) * line_overlap p) (voverlap a b)
  && Qltb (hdistance a b) (qmax (width a) (width b) * char_margin p).
Definition valign (p : laparams) (a b : box) : bool :=
  detect_vertical p && is_hoverlap a b && Qltb (qmin (width a) (width b) * line_overlap p) (hoverlap a b)
  && Qltb (vdistance a b) (qmax (height a) (height b) * char_margin p).

Definition is_h (l : line) : bool := match lori l with OH => true | OV => false end.

(* LTLayoutContainer.group_objects *)
Fixpoint go_loop (p : laparams) (obj0 : glyph) (cur : option line) (rest : list glyph) : list line :=
  match rest with
  | [] => match cur with Some l => [l] | None => [line_add p (new_line OH) obj0] end
  | obj1 :: r =>
      let h := halign p (gbox obj0) (gbox obj1) in
      let v := valign p (gbox obj0) (gbox obj1) in
      match cur with
      | Some l =>
          if (h && is_h l) || (v && negb (is_h l)) then go_loop p obj1 (Some (line_add p l obj1)) r
          else l :: go_loop p obj1 None r
      | None =>
          if v && negb h then go_loop p obj1 (Some (line_add p (line_add p (new_line OV) obj0) obj1)) r
          else if h && negb v then go_loop p obj1 (Some (line_add p (line_add p (new_line OH) obj0) obj1)) r
          else line_add p (new_line OH) obj0 :: go_loop p obj1 None r
      end
  end.
Definition group_objects (p : laparams) (gs : list glyph) : list line :=
  match gs with [] => [] | g :: r => go_loop p g None r end.

Definition elem_text (e : elem) : list Z := match e with EChar g => gtext g | EAnno t => t end.
Definition line_text (l : line) : list Z := flat_map elem_text (lelems l).
Definition line_glyphs (l : line) : list glyph :=
  flat_map (fun e => match e with EChar g => [g] | EAnno _ => [] end) (lelems l).
Definition the_box (b : option box) : box := match b with Some x => x | None => (0, 0, 0, 0) end.

(* str.isspace: non-empty and every character is white space *)
Definition is_ws (c : Z) : bool :=
  ((9 <=? c) && (c <=? 13))%Z || ((28 <=? c) && (c <=? 32))%Z || (c =? 133)%Z || (c =? 160)%Z || (c =? 5760)%Z
  || ((8192 <=? c) && (c <=? 8202))%Z || (c =? 8232)%Z || (c =? 8233)%Z || (c =? 8239)%Z || (c =? 8287)%Z || (c =? 12288)%Z.
Definition isspace (t : list Z) : bool := match t with [] => false | _ => forallb is_ws t end.
Definition line_empty (l : line) : bool := box_empty (the_box (lbox l)) || isspace (line_text l).

(* ---------- lines -> boxes ---------------------------------------------------------------------------------- *)
Definition qle_abs (a tol : Q) : bool := Qle_bool (qabs a) tol.

(* find_neighbors: [lines] indexed by position; the plane holds obj i with the box of line i *)
Definition neighbors (p : laparams) (pl : plane) (lines : list line) (i : nat) : list nat :=
  match nth_error lines i with
  | None => []
  | Some l =>
      let b := the_box (lbox l) in
      match lori l with
      | OH =>
          let d := line_margin p * height b in
          let cands := plane_find pl (bx0 b, by0 b - d, bx1 b, by1 b + d) in
          flat_map (fun o =>
            match nth_error lines (oid o) with
            | Some l2 =>
                let c := the_box (lbox l2) in
                if is_h l2 && qle_abs (height c - height b) d &&
                   (qle_abs (bx0 c - bx0 b) d || qle_abs (bx1 c - bx1 b) d
                    || qle_abs ((bx0 c + bx1 c) / 2 - (bx0 b + bx1 b) / 2) d)
                then [oid o] else []
            | None => []
            end) cands
      | OV =>
          let d := line_margin p * width b in
          let cands := plane_find pl (bx0 b - d, by0 b, bx1 b + d, by1 b) in
          flat_map (fun o =>
            match nth_error lines (oid o) with
            | Some l2 =>
                let c := the_box (lbox l2) in
                if negb (is_h l2) && qle_abs (width c - width b) d &&
                   (qle_abs (by0 c - by0 b) d || qle_abs (by1 c - by1 b) d
                    || qle_abs ((by0 c + by1 c) / 2 - (by0 b + by1 b) / 2) d)
                then [oid o] else []
            | None => []
            end) cands
      end
  end.

Fixpoint nassoc {V} (k : nat) (l : list (nat * V)) : option V :=
  match l with
  | [] => None
  | (k', v) :: r => if Nat.eqb k k' then Some v else nassoc k r
  end.
Fixpoint nremove {V} (k : nat) (l : list (nat * V)) : list (nat * V) :=
  match l with
  | [] => []
  | (k', v) :: r => if Nat.eqb k k' then nremove k r else (k', v) :: nremove k r
  end.
Fixpoint uniq (l : list nat) (seen : list nat) : list nat :=
  match l with
  | [] => []
  | x :: r => if mem_nat x seen then uniq r seen else x :: uniq r (x :: seen)
  end.

(* the dictionary line -> box and the table of box objects (box id -> members in add order) *)
Record gtstate := mkGT { assign : list (nat * nat); boxtab : list (nat * list nat); nextbox : nat }.

(* for obj1 in neighbors: members.append(obj1); if obj1 in boxes: members.extend(boxes.pop(obj1)) *)
Fixpoint collect (nbs : list nat) (asg : list (nat * nat)) (tab : list (nat * list nat)) (members : list nat)
  : list nat * list (nat * nat) :=
  match nbs with
  | [] => (members, asg)
  | n :: r =>
      match nassoc n asg with
      | Some b => collect r (nremove n asg) tab (members ++ [n] ++ match nassoc b tab with Some ms => ms | None => [] end)
      | None => collect r asg tab (members ++ [n])
      end
  end.

Definition gt_step (nb : nat -> list nat) (st : gtstate) (i : nat) : gtstate :=
  let '(members, asg) := collect (nb i) (assign st) (boxtab st) [i] in
  let ms := uniq members [] in
  let b := nextbox st in
  mkGT (fold_left (fun a m => (m, b) :: nremove m a) ms asg) ((b, ms) :: boxtab st) (S b).

Definition gt_run (nb : nat -> list nat) (n : nat) : gtstate :=
  fold_left (gt_step nb) (seq 0 n) (mkGT [] [] O).

Record tbox := mkBox { bori : orient; blines : list nat; bbbox : box }.

Definition lines_box (lines : list line) (ms : list nat) : option box :=
  fold_left (fun acc m => match nth_error lines m with
                          | Some l => Some (union_box acc (the_box (lbox l)))
                          | None => acc end) ms None.

(* the final loop of group_textlines: the distinct boxes in the order of their first line ... *)
Fixpoint yield_ids (st : gtstate) (todo : list nat) (done : list nat) : list nat :=
  match todo with
  | [] => []
  | i :: r =>
      match nassoc i (assign st) with
      | None => yield_ids st r done
      | Some b => if mem_nat b done then yield_ids st r done else b :: yield_ids st r (b :: done)
      end
  end.
Definition members_of (st : gtstate) (b : nat) : list nat :=
  match nassoc b (boxtab st) with Some m => m | None => [] end.
(* ... empty ones dropped; a box is of the kind of the line that created it, its first member *)
Definition gt_yield (lines : list line) (st : gtstate) (todo : list nat) : list tbox :=
  flat_map (fun b =>
    let ms := members_of st b in
    let bb := the_box (lines_box lines ms) in
    let ori := match ms with m :: _ => match nth_error lines m with Some l => lori l | None => OH end | [] => OH end in
    if box_empty bb then [] else [mkBox ori ms bb]) (yield_ids st todo []).

Definition line_objs (lines : list line) : list obj :=
  map (fun il => mkObj (fst il) (the_box (lbox (snd il)))) (combine (seq 0 (length lines)) lines).
Definition make_plane (pb : @PlaneB Q) (objs : list obj) : plane := fold_left plane_add objs (plane_init pb).

Definition group_textlines (p : laparams) (pb : @PlaneB Q) (lines : list line) : list tbox :=
  let pl := make_plane pb (line_objs lines) in
  let st := gt_run (neighbors p pl lines) (length lines) in
  gt_yield lines st (seq 0 (length lines)).

(* ---------- boxes -> groups ---------------------------------------------------------------------------------- *)
Inductive tnode := NBox (i : nat) | NGroup (id : nat) (tbrl : bool) (a b : tnode).
Definition node_id (t : tnode) : nat := match t with NBox i => i | NGroup id _ _ _ => id end.

Record nodeinfo := mkNI { ntree : tnode; nbox : box; nvert : bool }.   (* nvert: LTTextBoxVertical / LTTextGroupTBRL *)

Definition dist (a b : box) : Q :=
  let x0 := qmin (bx0 a) (bx0 b) in let y0 := qmin (by0 a) (by0 b) in
  let x1 := qmax (bx1 a) (bx1 b) in let y1 := qmax (by1 a) (by1 b) in
  (x1 - x0) * (y1 - y0) - width a * height a - width b * height b.

Record entry := mkE { eskip : bool; ed : Q; ea : nat; eb : nat }.

(* tuple comparison (skip, d, id1, id2); [rank] stands for Python's id() of the objects *)
Definition entry_lt (rank : nat -> Z) (x y : entry) : bool :=
  if Bool.eqb (eskip x) (eskip y) then
    if Qeq_bool (ed x) (ed y) then
      if (rank (ea x) =? rank (ea y))%Z then (rank (eb x) <? rank (eb y))%Z else (rank (ea x) <? rank (ea y))%Z
    else Qltb (ed x) (ed y)
  else negb (eskip x).

Fixpoint min_entry (rank : nat -> Z) (cur : entry) (l : list entry) : entry :=
  match l with
  | [] => cur
  | e :: r => min_entry rank (if entry_lt rank e cur then e else cur) r
  end.
Definition entry_same (x y : entry) : bool :=
  Bool.eqb (eskip x) (eskip y) && Qeq_bool (ed x) (ed y) && Nat.eqb (ea x) (ea y) && Nat.eqb (eb x) (eb y).
Fixpoint remove_entry (x : entry) (l : list entry) : list entry :=
  match l with
  | [] => []
  | e :: r => if entry_same e x then r else e :: remove_entry x r
  end.
(* another entry with the same (skip, d): the pop order then depends on memory addresses *)
Definition tie (x : entry) (l : list entry) : bool :=
  existsb (fun e => Bool.eqb (eskip e) (eskip x) && Qeq_bool (ed e) (ed x) && negb (entry_same e x)) l.

Record gbstate := mkGB {
  nodes : list (nat * nodeinfo);     (* every object created so far *)
  live : list nat;                   (* the plane's live objects, insertion order *)
  gplane : plane;
  dists : list entry;
  gdone : list nat;
  nextid : nat;
  ambiguous : bool
}.

Definition info (st : gbstate) (i : nat) : nodeinfo :=
  match nassoc i (nodes st) with Some n => n | None => mkNI (NBox i) (0, 0, 0, 0) false end.

Definition isany (st : gbstate) (a b : nat) : bool :=
  let ba := nbox (info st a) in let bb := nbox (info st b) in
  let q := (qmin (bx0 ba) (bx0 bb), qmin (by0 ba) (by0 bb), qmax (bx1 ba) (bx1 bb), qmax (by1 ba) (by1 bb)) in
  existsb (fun o => negb (Nat.eqb (oid o) a) && negb (Nat.eqb (oid o) b)) (plane_find (gplane st) q).

Definition remove_live (i : nat) (l : list nat) : list nat := filter (fun j => negb (Nat.eqb j i)) l.

(* one iteration of `while len(dists) > 0` *)
Definition gb_step (rank : nat -> Z) (st : gbstate) : gbstate :=
  match dists st with
  | [] => st
  | e0 :: r =>
      let e := min_entry rank e0 r in
      let rest := remove_entry e (dists st) in
      let amb := ambiguous st || tie e rest in
      if mem_nat (ea e) (gdone st) || mem_nat (eb e) (gdone st) then
        mkGB (nodes st) (live st) (gplane st) rest (gdone st) (nextid st) (ambiguous st)
      else if negb (eskip e) && isany st (ea e) (eb e) then
        mkGB (nodes st) (live st) (gplane st) (mkE true (ed e) (ea e) (eb e) :: rest) (gdone st) (nextid st) amb
      else
        let ia := info st (ea e) in let ib := info st (eb e) in
        let vert := nvert ia || nvert ib in
        let gb := union_box (Some (nbox ia)) (nbox ib) in
        let g := nextid st in
        let gi := mkNI (NGroup g vert (ntree ia) (ntree ib)) gb vert in
        let pl1 := match plane_remove (gplane st) (mkObj (ea e) (nbox ia)) with Some q => q | None => gplane st end in
        let pl2 := match plane_remove pl1 (mkObj (eb e) (nbox ib)) with Some q => q | None => pl1 end in
        let live' := remove_live (eb e) (remove_live (ea e) (live st)) in
        let nodes' := (g, gi) :: nodes st in
        let pushed := map (fun o => mkE false (dist gb (nbox (info st o))) g o) live' in
        mkGB nodes' (live' ++ [g]) (plane_add pl2 (mkObj g gb)) (rest ++ pushed) (ea e :: eb e :: gdone st) (S g) amb
  end.

Fixpoint gb_loop (rank : nat -> Z) (fuel : nat) (st : gbstate) : option gbstate :=
  match dists st with
  | [] => Some st
  | _ => match fuel with
         | O => None
         | S f => gb_loop rank f (gb_step rank st)
         end
  end.

Fixpoint pairs_from (i : nat) (bi : box) (rest : list (nat * box)) : list entry :=
  match rest with
  | [] => []
  | (j, bj) :: r => mkE false (dist bi bj) i j :: pairs_from i bi r
  end.
Fixpoint all_pairs (l : list (nat * box)) : list entry :=
  match l with
  | [] => []
  | (i, bi) :: r => pairs_from i bi r ++ all_pairs r
  end.

Definition gb_init (pb : @PlaneB Q) (boxes : list tbox) : gbstate :=
  let ibs := combine (seq 0 (length boxes)) boxes in
  let objs := map (fun ib => mkObj (fst ib) (bbbox (snd ib))) ibs in
  mkGB (map (fun ib => (fst ib, mkNI (NBox (fst ib)) (bbbox (snd ib)) (match bori (snd ib) with OV => true | OH => false end))) ibs)
       (map fst ibs) (make_plane pb objs)
       (all_pairs (map (fun ib => (fst ib, bbbox (snd ib))) ibs)) [] (length boxes) false.

(* enough for every run (Proofs/LayoutGroupProofs.v: a measure bounded by 4n^2+n decreases at every iteration) *)
Definition gb_fuel (n : nat) : nat := (4 * (n * n) + n + 1)%nat.

Definition group_textboxes (rank : nat -> Z) (pb : @PlaneB Q) (boxes : list tbox) : option (list tnode * bool) :=
  match gb_loop rank (gb_fuel (length boxes)) (gb_init pb boxes) with
  | Some st => Some (map (fun i => ntree (info st i)) (live st), ambiguous st)
  | None => None
  end.

(* ---------- analyze: sorting and numbering ----------------------------------------------------------------- *)
(* list.sort(key=...) is stable: insertion from the right keeps equal keys in order *)
Fixpoint insert_by {A} (key : A -> Q) (x : A) (l : list A) : list A :=
  match l with
  | [] => [x]
  | y :: r => if Qle_bool (key x) (key y) then x :: l else y :: insert_by key x r
  end.
Definition sort_by {A} (key : A -> Q) (l : list A) : list A := fold_right (insert_by key) [] l.

Definition line_analyze (l : line) : line := mkLine (lori l) (lelems l ++ [EAnno [10%Z]]) (lbox l) (llast l).

(* sorting by a tuple key: (a1, a2) <= (b1, b2) *)
Definition pair_le (a b : Q * Q) : bool :=
  if Qeq_bool (fst a) (fst b) then Qle_bool (snd a) (snd b) else Qle_bool (fst a) (fst b).
Fixpoint insert_le {A} (le : A -> A -> bool) (x : A) (l : list A) : list A :=
  match l with
  | [] => [x]
  | y :: r => if le x y then x :: l else y :: insert_le le x r
  end.
Definition sort_le {A} (le : A -> A -> bool) (l : list A) : list A := fold_right (insert_le le) [] l.

(* LTTextBoxHorizontal/Vertical.analyze: lines get their line break, then sort by (-y1, x0) / (-x1, -y1) *)
Definition line_key (lines : list line) (b : tbox) (m : nat) : Q * Q :=
  match nth_error lines m with
  | Some l => let bb := the_box (lbox l) in
              match bori b with OH => (- by1 bb, bx0 bb) | OV => (- bx1 bb, - by1 bb) end
  | None => (0, 0)
  end.
Definition box_lines_sorted (lines : list line) (b : tbox) : list nat :=
  sort_le (fun m1 m2 => pair_le (line_key lines b m1) (line_key lines b m2)) (blines b).

Fixpoint tree_box (boxes : list tbox) (t : tnode) : box :=
  match t with
  | NBox i => match nth_error boxes i with Some b => bbbox b | None => (0, 0, 0, 0) end
  | NGroup _ _ a b => union_box (Some (tree_box boxes a)) (tree_box boxes b)
  end.

(* LTTextGroupLRTB / TBRL .analyze: children analysed first, then the two children ordered by the key *)
Definition group_key (bf : Q) (tbrl : bool) (b : box) : Q :=
  if tbrl then - (1 + bf) * (bx0 b + bx1 b) - (1 - bf) * by1 b
  else (1 - bf) * bx0 b - (1 + bf) * (by0 b + by1 b).

(* IndexAssigner over the analysed tree: the boxes in depth-first order of the SORTED groups *)
Fixpoint tree_order (bf : Q) (boxes : list tbox) (t : tnode) : list nat :=
  match t with
  | NBox i => [i]
  | NGroup _ tbrl a b =>
      let ka := group_key bf tbrl (tree_box boxes a) in
      let kb := group_key bf tbrl (tree_box boxes b) in
      if Qle_bool ka kb then tree_order bf boxes a ++ tree_order bf boxes b
      else tree_order bf boxes b ++ tree_order bf boxes a
  end.

(* boxes_flow = None: sort by (0, -x1, -y0) for vertical boxes, (1, -y0, x0) for horizontal ones *)
Definition flat_le (a b : tbox) : bool :=
  match bori a, bori b with
  | OV, OH => true
  | OH, OV => false
  | OV, OV => let ka := - bx1 (bbbox a) in let kb := - bx1 (bbbox b) in
              if Qeq_bool ka kb then Qle_bool (- by0 (bbbox a)) (- by0 (bbbox b)) else Qle_bool ka kb
  | OH, OH => let ka := - by0 (bbbox a) in let kb := - by0 (bbbox b) in
              if Qeq_bool ka kb then Qle_bool (bx0 (bbbox a)) (bx0 (bbbox b)) else Qle_bool ka kb
  end.

(* ---------- LTLayoutContainer.analyze on the glyphs of a container ----------------------------------------- *)
Record outbox := mkOut { oori : orient; oindex : Z; obbox : box; olines : list line }.
Record layout := mkLayout {
  oboxes : list outbox;              (* the text boxes in output order *)
  oempties : list line;              (* empty lines, appended after the other objects *)
  ogroups : list tnode;              (* self.groups (boxes named by their position in group_textlines' output) *)
  oambiguous : bool
}.

Definition finish_box (lines : list line) (idx : Z) (b : tbox) : outbox :=
  mkOut (bori b) idx (bbbox b)
        (flat_map (fun m => match nth_error lines m with Some l => [line_analyze l] | None => [] end)
                  (box_lines_sorted lines b)).

Definition analyze (rank : nat -> Z) (p : laparams) (pb : @PlaneB Q) (gs : list glyph) : option layout :=
  match gs with
  | [] => Some (mkLayout [] [] [] false)
  | _ =>
      let all := group_objects p gs in
      let empties := filter line_empty all in
      let lines := filter (fun l => negb (line_empty l)) all in
      let boxes := group_textlines p pb lines in
      match boxes_flow p with
      | None =>
          let sorted := sort_le flat_le boxes in
          Some (mkLayout (map (fun ib => finish_box lines (Z.of_nat (fst ib)) (snd ib)) (combine (seq 0 (length sorted)) sorted))
                         (map line_analyze empties) [] false)
      | Some bf =>
          match group_textboxes rank pb boxes with
          | None => None
          | Some (groups, amb) =>
              let order := flat_map (tree_order bf boxes) groups in
              Some (mkLayout
                      (flat_map (fun ik => match nth_error boxes (snd ik) with
                                           | Some b => [finish_box lines (Z.of_nat (fst ik)) b]
                                           | None => [] end) (combine (seq 0 (length order)) order))
                      (map line_analyze empties) groups amb)
          end
      end
  end.
