(* Executable model of pdfminer.psparser.PSBaseParser's tokenizer (definitions
   only).  Two layers:
   - the CHUNK layer mirrors the code: one function [p_<mode>] per
     [_parse_<mode>] method, working on the unread suffix [s[i:]] of the current
     buffer and returning how many bytes it consumed (0 = "return i"), the
     [feed] loop of nexttoken and [tokenize], which chops the data into
     BUFSIZ-sized buffers and feeds the extra b"\n" at EOF;
   - the BYTE layer is an automaton [step] that consumes exactly one byte and
     re-dispatches a delimiter the chunk layer would have left unread.
   Proofs/LexerProofs.v shows that feeding any chunking of the data through the
   chunk layer ends in the state [fold_left step data]; everything else is
   proved about the automaton.
   The character classes re_* and ESC_STRING are generated from psparser.py. *)
From Coq Require Import ZArith List Bool.
From PdfV Require Import Gen.LexClasses.
Import ListNotations.
Open Scope Z_scope.

Inductive mode :=
  MMain | MComment | MLiteral | MLitHex | MNumber | MFloat | MKeyword
| MString | MString1 | MStringCR | MWOpen | MWClose | MHexString.

Inductive token :=
  TInt (z : Z) | TReal (b : list Z) | TBool (b : bool)
| TKw (b : list Z) | TLit (b : list Z) | TStr (b : list Z).

Record lst := mkL {
  lmode : mode;            (* self._parse1 *)
  cur : list Z;            (* self._curtoken *)
  tpos : Z;                (* self._curtokenpos *)
  paren : Z;               (* self.paren *)
  oct : list Z;            (* self.oct *)
  hexb : list Z;           (* self.hex *)
  toks : list (Z * token); (* self._tokens, newest first *)
  apos : Z                 (* bufpos + charpos: absolute position of the next unread byte *)
}.

Definition set_mode m s := mkL m (cur s) (tpos s) (paren s) (oct s) (hexb s) (toks s) (apos s).
Definition set_cur c s := mkL (lmode s) c (tpos s) (paren s) (oct s) (hexb s) (toks s) (apos s).
Definition add_cur c s := set_cur (cur s ++ c) s.
Definition set_tpos p s := mkL (lmode s) (cur s) p (paren s) (oct s) (hexb s) (toks s) (apos s).
Definition set_paren p s := mkL (lmode s) (cur s) (tpos s) p (oct s) (hexb s) (toks s) (apos s).
Definition set_oct o s := mkL (lmode s) (cur s) (tpos s) (paren s) o (hexb s) (toks s) (apos s).
Definition set_hex h s := mkL (lmode s) (cur s) (tpos s) (paren s) (oct s) h (toks s) (apos s).
Definition emit t s := mkL (lmode s) (cur s) (tpos s) (paren s) (oct s) (hexb s) ((tpos s, t) :: toks s) (apos s).
Definition adv n s := mkL (lmode s) (cur s) (tpos s) (paren s) (oct s) (hexb s) (toks s) (apos s + n).

(* seek(pos).  The code resets _curtokenpos to 0; the field is dead until _parse_main
   overwrites it (no token is added in the main state before that), so the model starts
   it at pos, which makes the initial state a plain shift of [init 0]. *)
Definition init (pos : Z) : lst := mkL MMain [] pos 0 [] [] [] pos.

(* Python builtins on one byte *)
Definition isdigit (c : Z) : bool := (48 <=? c) && (c <=? 57).
Definition isalpha (c : Z) : bool := ((65 <=? c) && (c <=? 90)) || ((97 <=? c) && (c <=? 122)).

Fixpoint span (p : Z -> bool) (s : list Z) : list Z * list Z :=
  match s with
  | [] => ([], [])
  | c :: r => if p c then let (a, b) := span p r in (c :: a, b) else ([], s)
  end.

Definition nonempty {A} (l : list A) : bool := match l with [] => false | _ => true end.
Definition len (l : list Z) : Z := Z.of_nat (length l).

(* int(b"[+-]?[0-9]+"): ValueError (None) when there is no digit *)
Definition digits_val (ds : list Z) : Z := fold_left (fun a d => 10 * a + (d - 48)) ds 0.
Definition parse_int (t : list Z) : option Z :=
  match t with
  | [] => None
  | c :: ds =>
      if c =? 43 then (if nonempty ds && forallb isdigit ds then Some (digits_val ds) else None)
      else if c =? 45 then (if nonempty ds && forallb isdigit ds then Some (- digits_val ds) else None)
      else if forallb isdigit t then Some (digits_val t) else None
  end.
(* float(b"[+-]?[0-9]*\.[0-9]*"): ValueError when there is no digit; the value is
   carried as its spelling (the harness applies float() to it) *)
Definition parse_float (t : list Z) : option (list Z) :=
  if existsb isdigit t then Some t else None.

Definition hexval (c : Z) : Z :=
  if isdigit c then c - 48 else if (97 <=? c) && (c <=? 102) then c - 87 else c - 55.
(* int(self.hex, 16) for one or two digits; int(self.oct, 8) for one to three *)
Definition hexnum (h : list Z) : Z := fold_left (fun a d => 16 * a + hexval d) h 0.
Definition octnum (o : list Z) : Z := fold_left (fun a d => 8 * a + (d - 48)) o 0.

(* HEX_PAIR.sub(..., SPC.sub(b"", curtoken)) on a token of hex digits and white space *)
Fixpoint hexpairs (fuel : nat) (h : list Z) : list Z :=
  match fuel with
  | O => []
  | S f => match h with
           | [] => []
           | [a] => [hexval a]
           | a :: b :: r => (16 * hexval a + hexval b) :: hexpairs f r
           end
  end.
Definition hexdecode (t : list Z) : list Z :=
  let h := filter (fun c => negb (re_SPC c)) t in hexpairs (S (length h)) h.

Fixpoint lookup (k : Z) (l : list (Z * Z)) : option Z :=
  match l with
  | [] => None
  | (a, b) :: r => if a =? k then Some b else lookup k r
  end.

Definition bytes_eqb (a b : list Z) : bool :=
  (fix go a b := match a, b with
                 | [], [] => true
                 | x :: a', y :: b' => (x =? y) && go a' b'
                 | _, _ => false
                 end) a b.
Definition kw_true : list Z := [116; 114; 117; 101].
Definition kw_false : list Z := [102; 97; 108; 115; 101].
Definition keyword_token (t : list Z) : token :=
  if bytes_eqb t kw_true then TBool true
  else if bytes_eqb t kw_false then TBool false else TKw t.

(* ---- the per-byte decisions shared by both layers ------------------------------- *)

(* _parse_main on the first non-white-space byte c, _curtokenpos already set *)
Definition main_dispatch (st : lst) (c : Z) : lst :=
  if c =? 37 then set_mode MComment (set_cur [37] st)
  else if c =? 47 then set_mode MLiteral (set_cur [] st)
  else if (c =? 45) || (c =? 43) || isdigit c then set_mode MNumber (set_cur [c] st)
  else if c =? 46 then set_mode MFloat (set_cur [c] st)
  else if isalpha c then set_mode MKeyword (set_cur [c] st)
  else if c =? 40 then set_mode MString (set_paren 1 (set_cur [] st))
  else if c =? 60 then set_mode MWOpen (set_cur [] st)
  else if c =? 62 then set_mode MWClose (set_cur [] st)
  else if c =? 0 then st
  else emit (TKw [c]) st.

Definition end_literal (st : lst) : lst := set_mode MMain (emit (TLit (cur st)) st).
Definition end_lithex (st : lst) : lst :=
  set_mode MLiteral (if nonempty (hexb st) then add_cur [hexnum (hexb st)] st else st).
Definition end_number (st : lst) : lst :=
  set_mode MMain (match parse_int (cur st) with Some z => emit (TInt z) st | None => st end).
Definition end_float (st : lst) : lst :=
  set_mode MMain (match parse_float (cur st) with Some b => emit (TReal b) st | None => st end).
Definition end_keyword (st : lst) : lst := set_mode MMain (emit (keyword_token (cur st)) st).
Definition end_hexstring (st : lst) : lst := set_mode MMain (emit (TStr (hexdecode (cur st))) st).
Definition end_oct (st : lst) : lst :=
  set_mode MString (add_cur [Z.land (octnum (oct st)) 255] st).

(* _parse_string on the END_STRING byte c (always consumed) *)
Definition string_special (st : lst) (c : Z) : lst :=
  if c =? 92 then set_mode MString1 (set_oct [] st)
  else if c =? 40 then add_cur [c] (set_paren (paren st + 1) st)
  else if (c =? 41) && negb (paren st - 1 =? 0) then add_cur [c] (set_paren (paren st - 1) st)
  else let st1 := if c =? 41 then set_paren (paren st - 1) st else st in
       set_mode MMain (emit (TStr (cur st1)) st1).

(* _parse_string_1 once the octal branches are excluded (always consumes c) *)
Definition string1_escape (st : lst) (c : Z) : lst :=
  match lookup c ESC_STRING with
  | Some v => set_mode MString (add_cur [v] st)
  | None => if c =? 13 then set_mode MStringCR st else set_mode MString st
  end.

(* the bytes _parse_string_1 consumes after the backslash: the escapes of ESC_STRING, CR and LF (line continuation);
   before any other byte the backslash alone is dropped and the byte is read again as an ordinary string byte *)
Definition escape_consumes (c : Z) : bool :=
  match lookup c ESC_STRING with Some _ => true | None => (c =? 13) || (c =? 10) end.

(* ---- CHUNK layer: (bytes consumed, new state), apos not yet advanced ------------ *)
Definition nat_len (l : list Z) : nat := length l.

Definition p_main (st : lst) (s : list Z) : nat * lst :=
  let (a, r) := span (fun c => negb (re_NONSPC c)) s in
  match r with
  | [] => (length s, st)
  | c :: _ => (S (length a), main_dispatch (set_tpos (apos st + len a) st) c)
  end.

Definition p_comment (st : lst) (s : list Z) : nat * lst :=
  let (a, r) := span (fun c => negb (re_EOL c)) s in
  match r with
  | [] => (length s, add_cur s st)
  | _ :: _ => (length a, set_mode MMain (add_cur a st))
  end.

Definition p_literal (st : lst) (s : list Z) : nat * lst :=
  let (a, r) := span (fun c => negb (re_END_LITERAL c)) s in
  match r with
  | [] => (length s, add_cur s st)
  | c :: _ => if c =? 35 then (S (length a), set_mode MLitHex (set_hex [] (add_cur a st)))
              else (length a, end_literal (add_cur a st))
  end.

Definition p_lithex (st : lst) (s : list Z) : nat * lst :=
  match s with
  | [] => (O, st)
  | c :: _ => if re_HEX c && (len (hexb st) <? 2) then (1%nat, set_hex (hexb st ++ [c]) st)
              else (O, end_lithex st)
  end.

Definition p_number (st : lst) (s : list Z) : nat * lst :=
  let (a, r) := span (fun c => negb (re_END_NUMBER c)) s in
  match r with
  | [] => (length s, add_cur s st)
  | c :: _ => if c =? 46 then (S (length a), set_mode MFloat (add_cur [c] (add_cur a st)))
              else (length a, end_number (add_cur a st))
  end.

Definition p_float (st : lst) (s : list Z) : nat * lst :=
  let (a, r) := span (fun c => negb (re_END_NUMBER c)) s in
  match r with
  | [] => (length s, add_cur s st)
  | _ :: _ => (length a, end_float (add_cur a st))
  end.

Definition p_keyword (st : lst) (s : list Z) : nat * lst :=
  let (a, r) := span (fun c => negb (re_END_KEYWORD c)) s in
  match r with
  | [] => (length s, add_cur s st)
  | _ :: _ => (length a, end_keyword (add_cur a st))
  end.

Definition p_string (st : lst) (s : list Z) : nat * lst :=
  let (a, r) := span (fun c => negb (re_END_STRING c)) s in
  match r with
  | [] => (length s, add_cur s st)
  | c :: _ => (S (length a), string_special (add_cur a st) c)
  end.

Definition p_string1 (st : lst) (s : list Z) : nat * lst :=
  match s with
  | [] => (O, st)
  | c :: _ => if re_OCT_STRING c && (len (oct st) <? 3) then (1%nat, set_oct (oct st ++ [c]) st)
              else if nonempty (oct st) then (O, end_oct st)
              else if escape_consumes c then (1%nat, string1_escape st c)
              else (O, set_mode MString st)
  end.

Definition p_stringcr (st : lst) (s : list Z) : nat * lst :=
  match s with
  | [] => (O, st)
  | c :: _ => if c =? 10 then (1%nat, set_mode MString st) else (O, set_mode MString st)
  end.

Definition p_wopen (st : lst) (s : list Z) : nat * lst :=
  match s with
  | [] => (O, st)
  | c :: _ => if c =? 60 then (1%nat, set_mode MMain (emit (TKw [60; 60]) st))
              else (O, set_mode MHexString st)
  end.

Definition p_wclose (st : lst) (s : list Z) : nat * lst :=
  match s with
  | [] => (O, st)
  | c :: _ => if c =? 62 then (1%nat, set_mode MMain (emit (TKw [62; 62]) st))
              else (O, set_mode MMain st)
  end.

Definition p_hexstring (st : lst) (s : list Z) : nat * lst :=
  let (a, r) := span (fun c => negb (re_END_HEX_STRING c)) s in
  match r with
  | [] => (length s, add_cur s st)
  | _ :: _ => (length a, end_hexstring (add_cur a st))
  end.

(* self.charpos = self._parse1(self.buf, self.charpos) *)
Definition parse1 (st : lst) (s : list Z) : nat * lst :=
  let '(n, st') :=
    match lmode st with
    | MMain => p_main st s | MComment => p_comment st s | MLiteral => p_literal st s
    | MLitHex => p_lithex st s | MNumber => p_number st s | MFloat => p_float st s
    | MKeyword => p_keyword st s | MString => p_string st s | MString1 => p_string1 st s
    | MStringCR => p_stringcr st s | MWOpen => p_wopen st s | MWClose => p_wclose st s
    | MHexString => p_hexstring st s
    end in
  (n, adv (Z.of_nat n) st').

(* the while loop of nexttoken over one buffer, run to the end of the buffer *)
Fixpoint feed (fuel : nat) (st : lst) (s : list Z) : option lst :=
  match s with
  | [] => Some st
  | _ :: _ => match fuel with
              | O => None
              | S f => let (n, st') := parse1 st s in feed f st' (skipn n s)
              end
  end.

Definition feed_fuel (s : list Z) : nat := 3 * length s + 3.

(* fp.read(BUFSIZ) until it returns b"" *)
Fixpoint chunks (fuel : nat) (bufsiz : nat) (data : list Z) : list (list Z) :=
  match fuel with
  | O => []
  | S f => match data with
           | [] => []
           | _ => firstn bufsiz data :: chunks f bufsiz (skipn bufsiz data)
           end
  end.

Fixpoint feed_chunks (st : lst) (cs : list (list Z)) : option lst :=
  match cs with
  | [] => Some st
  | c :: r => match feed (feed_fuel c) st c with
              | Some st' => feed_chunks st' r
              | None => None
              end
  end.

(* PSEOF from fillbuf: the current state is run on b"\n" until the byte is consumed, then eof *)
Definition flush (st : lst) : option lst := feed (feed_fuel [10]) st [10].

Definition tokens_of (st : lst) : list (Z * token) := rev (toks st).

(* all tokens nexttoken() yields before PSEOF, reading from absolute offset pos *)
Definition tokenize (bufsiz : nat) (pos : Z) (data : list Z) : option (list (Z * token)) :=
  match feed_chunks (init pos) (chunks (length data) bufsiz data) with
  | Some st => match flush st with Some st' => Some (tokens_of st') | None => None end
  | None => None
  end.

(* ---- BYTE layer ---------------------------------------------------------------- *)
Definition step_main (st : lst) (c : Z) : lst :=
  if re_NONSPC c then main_dispatch (set_tpos (apos st) st) c else st.

Definition step_comment (st : lst) (c : Z) : lst :=
  if re_EOL c then step_main (set_mode MMain st) c else add_cur [c] st.

Definition step_literal (st : lst) (c : Z) : lst :=
  if re_END_LITERAL c then
    (if c =? 35 then set_mode MLitHex (set_hex [] st) else step_main (end_literal st) c)
  else add_cur [c] st.

Definition step_lithex (st : lst) (c : Z) : lst :=
  if re_HEX c && (len (hexb st) <? 2) then set_hex (hexb st ++ [c]) st
  else step_literal (end_lithex st) c.

Definition step_number (st : lst) (c : Z) : lst :=
  if re_END_NUMBER c then
    (if c =? 46 then set_mode MFloat (add_cur [c] st) else step_main (end_number st) c)
  else add_cur [c] st.

Definition step_float (st : lst) (c : Z) : lst :=
  if re_END_NUMBER c then step_main (end_float st) c else add_cur [c] st.

Definition step_keyword (st : lst) (c : Z) : lst :=
  if re_END_KEYWORD c then step_main (end_keyword st) c else add_cur [c] st.

Definition step_string (st : lst) (c : Z) : lst :=
  if re_END_STRING c then string_special st c else add_cur [c] st.

Definition step_string1 (st : lst) (c : Z) : lst :=
  if re_OCT_STRING c && (len (oct st) <? 3) then set_oct (oct st ++ [c]) st
  else if nonempty (oct st) then step_string (end_oct st) c
  else if escape_consumes c then string1_escape st c
  else step_string (set_mode MString st) c.

Definition step_stringcr (st : lst) (c : Z) : lst :=
  if c =? 10 then set_mode MString st else step_string (set_mode MString st) c.

Definition step_hexstring (st : lst) (c : Z) : lst :=
  if re_END_HEX_STRING c then step_main (end_hexstring st) c else add_cur [c] st.

Definition step_wopen (st : lst) (c : Z) : lst :=
  if c =? 60 then set_mode MMain (emit (TKw [60; 60]) st)
  else step_hexstring (set_mode MHexString st) c.

Definition step_wclose (st : lst) (c : Z) : lst :=
  if c =? 62 then set_mode MMain (emit (TKw [62; 62]) st)
  else step_main (set_mode MMain st) c.

Definition step_core (st : lst) (c : Z) : lst :=
  match lmode st with
  | MMain => step_main st c | MComment => step_comment st c | MLiteral => step_literal st c
  | MLitHex => step_lithex st c | MNumber => step_number st c | MFloat => step_float st c
  | MKeyword => step_keyword st c | MString => step_string st c | MString1 => step_string1 st c
  | MStringCR => step_stringcr st c | MWOpen => step_wopen st c | MWClose => step_wclose st c
  | MHexString => step_hexstring st c
  end.

Definition step (st : lst) (c : Z) : lst := adv 1 (step_core st c).
Definition run (st : lst) (s : list Z) : lst := fold_left step s st.

(* the automaton's account of the whole tokenization *)
Definition lex (pos : Z) (data : list Z) : list (Z * token) :=
  tokens_of (run (init pos) (data ++ [10])).
