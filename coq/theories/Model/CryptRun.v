(* Entry points evaluated by harness/c10.py.  Hash / cipher oracles are tables of the calls the implementation made. *)
From Coq Require Import ZArith List Bool.
From PdfV Require Import Base.CV Model.Crypt.
Import ListNotations.
Open Scope Z_scope.

Definition table := list (bytes * bytes).
Definition cob (o : option bytes) : cv := cvo CB o.

Definition run_rc4 (x : bytes * bytes) : cv := let '(k, d) := x in CB (rc4 k d).

(* revisions 2-4: (md5 table, (R, Length, P, O, U, ID0, EncryptMetadata), password) *)
Definition run_auth (x : table * (Z * Z * Z * bytes * bytes * bytes * bool) * bytes) : cv :=
  let '(t, (r, len, p, o, u, id0, em), pw) := x in
  cob (authenticate (fun d => tbl_get d t) (mkParams r len (uint32 p) o u id0 em) pw).

(* per-object decryption: (md5 table, cbc table, method 0=RC4 1=AESV2 2=AESV3, file key, objid, genno, data) *)
Definition run_objdec (x : table * table * Z * bytes * Z * Z * bytes) : cv :=
  let '(t, ct, m, key, objid, genno, data) := x in
  let md5 := fun d => tbl_get d t in
  let cbc := fun k iv c => tbl_get (k ++ [-1] ++ iv ++ [-1] ++ c) ct in
  CB (if m =? 0 then decrypt_rc4 md5 key objid genno data
      else if m =? 1 then decrypt_aes cbc (object_key md5 key objid genno true) data
      else decrypt_aes cbc key data).

(* revisions 5 / 6: (password-hash table, zero-IV CBC table, (O, U, OE, UE), password bytes) *)
Definition run_auth5 (x : table * table * (bytes * bytes * bytes * bytes) * bytes) : cv :=
  let '(ht, ct, (o, u, oe, ue), pw) := x in
  cob (authenticate5 (fun p s v => tbl_get (p ++ [-1] ++ s ++ [-1] ++ v) ht)
                     (fun k c => tbl_get (k ++ [-1] ++ c) ct) (mkP5 o u oe ue) pw).

Definition run_perms (p : Z) : cv :=
  let q := uint32 p in CL [cvb (is_printable q); cvb (is_modifiable q); cvb (is_extractable q)].
