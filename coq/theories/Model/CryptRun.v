(* Entry points evaluated by harness/c10.py.  Hash / cipher oracles are tables of the calls the implementation made. *)
From Coq Require Import ZArith List Bool.
From PdfV Require Import Base.CV Model.Crypt.
Import ListNotations.
Open Scope Z_scope.

Definition table := list (bytes * bytes).
Definition cob (o : option bytes) : cv := cvo CB o.

Definition run_rc4 (x : bytes * bytes) : cv := let '(k, d) := x in CB (rc4 k d).

(* revisions 2-4: (md5 table, (R, Length, P, O, U, ID0, EncryptMetadata), password) *)
Definition run_auth (x : table * (Z * Z * Z * bytes * bytes * bytes * bool) * bytes) : cv :=
  let '(t, (r, len, p, o, u, id0, em), pw) := x in
  cob (authenticate (fun d => tbl_get d t) (mkParams r len (uint32 p) o u id0 em) pw).

(* per-object decryption: (md5 table, cbc table, method 0=RC4 1=AESV2 2=AESV3, file key, objid, genno, data) *)
Definition run_objdec (x : table * table * Z * bytes * Z * Z * bytes) : cv :=
  let '(t, ct, m, key, objid, genno, data) := x in
  let md5 := fun d => tbl_get d t in
  let cbc := fun k iv c => tbl_get (k ++ [-1] ++ iv ++ [-1] ++ c) ct in
  CB (if m =? 0 then decrypt_rc4 md5 key objid genno data
      else if m =? 1 then decrypt_aes cbc (object_key md5 key objid genno true) data
      else decrypt_aes cbc key data).

(* revisions 5 / 6: (password-hash table, zero-IV CBC table, (O, U, OE, UE), password bytes) *)
Definition run_auth5 (x : table * table * (bytes * bytes * bytes * bytes) * bytes) : cv :=
  let '(ht, ct, (o, u, oe, ue), pw) := x in
  cob (authenticate5 (fun p s v => tbl_get (p ++ [-1] ++ s ++ [-1] ++ v) ht)
                     (fun k c => tbl_get (k ++ [-1] ++ c) ct) (mkP5 o u oe ue) pw).

Definition run_perms (p : Z) : cv :=
  let q := uint32 p in CL [cvb (is_printable q); cvb (is_modifiable q); cvb (is_extractable q)].

(* revision-6 password hash (Algorithm 2.B): (AES table, SHA-256 / -384 / -512 tables, password, salt, vector).
   The 64-fold AES-CBC output E is represented by a surrogate: its first 16 bytes, then the call's key material, then
   its last byte -- everything the algorithm reads from E except through the hash, and the hash tables are keyed by the
   same surrogate.  Answers [K[:32]; rounds]. *)
From PdfV Require Import Model.CryptR6.
Definition run_r6 (x : table * (table * table * table) * (bytes * bytes * bytes)) : cv :=
  let '(et, (t256, t384, t512), (pw, salt, vec)) := x in
  let aes := fun k iv blk =>
    let key := k ++ [-1] ++ iv ++ [-1] ++ blk in
    let v := tbl_get key et in firstn 16 v ++ key ++ skipn 16 v in
  match r6_password_rounds (fun d => tbl_get d t256) (fun d => tbl_get d t384) (fun d => tbl_get d t512) aes pw salt vec with
  | Some (k, n) => CL [CB k; CZ n]
  | None => CZ (-1)
  end.
