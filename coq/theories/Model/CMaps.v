(* Executable model of composite-font decoding (definitions only): cmapdb.CMap.decode over the code trie,
   IdentityCMap / IdentityCMapByte, CMapParser's bfchar / bfrange / cidchar / cidrange sections on their operand
   lists with FileUnicodeMap.add_cid2unichr, pdffont.get_widths / get_widths2, and PDFCIDFont's width and
   displacement lookup. *)
From Coq Require Import ZArith QArith List Bool.
From PdfV Require Import Gen.FontTables Model.Fonts Model.Labels.
Import ListNotations.
Open Scope Z_scope.

(* ---------- the code trie: dict int -> (int | dict) ------------------------------------------------------ *)
Inductive trie := TLeaf (cid : Z) | TNode (kids : list (Z * trie)).
Definition tdict := list (Z * trie).

Fixpoint tlookup (i : Z) (d : tdict) : option trie :=
  match d with
  | [] => None
  | (k, t) :: r => if k =? i then Some t else tlookup i r
  end.

(* CMap.decode: a byte without an entry, or the byte that completes a code, sends the walk back to the root *)
Fixpoint decode_go (root d : tdict) (code : list Z) : list Z :=
  match code with
  | [] => []
  | i :: r =>
      match tlookup i d with
      | Some (TLeaf x) => x :: decode_go root root r
      | Some (TNode d') => decode_go root d' r
      | None => decode_go root root r
      end
  end.
Definition cmap_decode (root : tdict) (code : list Z) : list Z := decode_go root root code.

(* IdentityCMap.decode: struct.unpack(">%dH" % (len // 2), code): big-endian pairs.
   an odd trailing byte is dropped *)
Fixpoint pairs_be (code : list Z) : list Z :=
  match code with
  | hi :: lo :: r => (256 * hi + lo) :: pairs_be r
  | _ => []
  end.
Definition identity_decode (code : list Z) : list Z := pairs_be code.
Definition identity_byte_decode (code : list Z) : list Z := code.

(* ---------- ToUnicode sections ---------------------------------------------------------------------------- *)
Inductive tobj := TBytes (b : list Z) | TInt (z : Z) | TName (n : option str) | TList (l : list tobj) | TOther.

Definition nunpack (s : list Z) : Z := fold_left (fun a c => a * 256 + c) s 0.

(* struct.pack(">L", v)[-vlen:] for 0 <= v < 2^32, vlen <= 4; None = struct.error *)
Definition be4 (v : Z) : list Z := [v / 16777216 mod 256; v / 65536 mod 256; v / 256 mod 256; v mod 256].
Definition pack_tail (v : Z) (vlen : nat) : option (list Z) :=
  if (0 <=? v) && (v <? 4294967296) then Some (match vlen with O => be4 v | _ => skipn (4 - vlen) (be4 v) end)
  else None.                                  (* s[-0:] is the whole string *)

Definition lastn {A} (n : nat) (l : list A) : list A := skipn (length l - n) l.
Definition butlastn {A} (n : nat) (l : list A) : list A := firstn (length l - n) l.

(* the map under construction: newest first *)
Definition umap := list (Z * str).
Inductive ures := UOk (m : umap) | UTypeError | UAssertion | UStructError | UKeyError.

Definition umap_get (m : umap) (cid : Z) : option str := zassoc cid m.

(* FileUnicodeMap.add_cid2unichr *)
Definition add_cid2unichr (m : umap) (cid : Z) (code : tobj) : ures :=
  let put (u : str) :=
    if str_eqb u [160] && (match umap_get m cid with Some [32] => true | _ => false end) then UOk m
    else UOk ((cid, u) :: m) in
  match code with
  | TName (Some n) => match name2unicode n with Some u => put u | None => UKeyError end
  | TName None => UTypeError                     (* a name that is not text: PDFTypeError *)
  | TBytes b => put (utf16be (S (length b)) b)
  | TInt z => if (0 <=? z) && (z <=? 1114111) then put [z] else UStructError   (* chr() ValueError *)
  | _ => UTypeError
  end.

(* choplist(n, objs): complete groups only *)
Fixpoint chop2 {A} (l : list A) : list (A * A) :=
  match l with a :: b :: r => (a, b) :: chop2 r | _ => [] end.
Fixpoint chop3 {A} (l : list A) : list (A * A * A) :=
  match l with a :: b :: c :: r => (a, b, c) :: chop3 r | _ => [] end.

Definition bind (r : ures) (f : umap -> ures) : ures := match r with UOk m => f m | e => e end.

(* CMapParser.MAX_RANGE = 65536: no range is expanded beyond that many codes *)
Definition MAX_RANGE : nat := Z.to_nat 65536.

(* endbfchar *)
Fixpoint bfchar (m : umap) (ps : list (tobj * tobj)) : ures :=
  match ps with
  | [] => UOk m
  | (TBytes c, TBytes u) :: r => bind (add_cid2unichr m (nunpack c) (TBytes u)) (fun m' => bfchar m' r)
  | _ :: r => bfchar m r
  end.

(* for i in range(n): add(start + i, prefix + pack(base + i)[-vlen:]) *)
Fixpoint range_incr (m : umap) (start : Z) (prefix : list Z) (base : Z) (vlen : nat) (i : Z) (n : nat) : ures :=
  match n with
  | O => UOk m
  | S n' =>
      match pack_tail (base + i) vlen with
      | Some t => bind (add_cid2unichr m (start + i) (TBytes (prefix ++ t)))
                       (fun m' => range_incr m' start prefix base vlen (i + 1) n')
      | None => UOk m                            (* beyond 32 bits: the rest of this range is dropped *)
      end
  end.

(* for cid, v in zip(range(start, end + 1), code) *)
Fixpoint range_array (m : umap) (cid : Z) (n : nat) (vs : list tobj) : ures :=
  match n, vs with
  | S n', v :: r => bind (add_cid2unichr m cid v) (fun m' => range_array m' (cid + 1) n' r)
  | _, _ => UOk m
  end.

(* endbfrange *)
Fixpoint bfrange (m : umap) (ts : list (tobj * tobj * tobj)) : ures :=
  match ts with
  | [] => UOk m
  | (TBytes s, TBytes e, code) :: r =>
      if negb (length s =? length e)%nat then bfrange m r
      else
        let start := nunpack s in let end_ := nunpack e in
        let n := Z.to_nat (end_ - start + 1) in
        match code with
        | TList vs => bind (range_array m start n vs) (fun m' => bfrange m' r)
        | TBytes c =>
            bind (range_incr m start (butlastn 4 c) (nunpack (lastn 4 c)) (length (lastn 4 c)) 0 (Nat.min n MAX_RANGE))
                 (fun m' => bfrange m' r)
        | _ => bfrange m r                       (* neither a string nor an array: the entry is skipped *)
        end
  | _ :: r => bfrange m r
  end.

(* endcidchar: (cid, code) with code bytes, cid int *)
Fixpoint cidchar (m : umap) (ps : list (tobj * tobj)) : ures :=
  match ps with
  | [] => UOk m
  | (TInt cid, TBytes u) :: r => bind (add_cid2unichr m cid (TBytes u)) (fun m' => cidchar m' r)
  | _ :: r => cidchar m r
  end.

(* endcidrange on a unicode map: cid + i -> the code bytes themselves read as UTF-16BE *)
Fixpoint cidrange_incr (m : umap) (cid : Z) (prefix : list Z) (start : Z) (vlen : nat) (i : Z) (n : nat) : ures :=
  match n with
  | O => UOk m
  | S n' =>
      match pack_tail (start + i) vlen with
      | Some t => bind (add_cid2unichr m (cid + i) (TBytes (prefix ++ t)))
                       (fun m' => cidrange_incr m' cid prefix start vlen (i + 1) n')
      | None => UStructError
      end
  end.
Fixpoint zs_eq (a b : list Z) : bool :=
  match a, b with [], [] => true | x :: a', y :: b' => (x =? y) && zs_eq a' b' | _, _ => false end.
Fixpoint cidrange (m : umap) (ts : list (tobj * tobj * tobj)) : ures :=
  match ts with
  | [] => UOk m
  | (TBytes s, TBytes e, TInt cid) :: r =>
      if negb (length s =? length e)%nat || negb (zs_eq (butlastn 4 s) (butlastn 4 e)) then cidrange m r
      else
        let start := nunpack (lastn 4 s) in let end_ := nunpack (lastn 4 e) in
        bind (cidrange_incr m cid (butlastn 4 s) start (length (lastn 4 s)) 0 (Nat.min (Z.to_nat (end_ - start + 1)) MAX_RANGE))
             (fun m' => cidrange m' r)
  | _ :: r => cidrange m r
  end.

Inductive section := SBfChar (objs : list tobj) | SBfRange (objs : list tobj) | SCidChar (objs : list tobj)
                   | SCidRange (objs : list tobj).
Fixpoint run_sections (m : umap) (ss : list section) : ures :=
  match ss with
  | [] => UOk m
  | SBfChar o :: r => bind (bfchar m (chop2 o)) (fun m' => run_sections m' r)
  | SBfRange o :: r => bind (bfrange m (chop3 o)) (fun m' => run_sections m' r)
  | SCidChar o :: r => bind (cidchar m (chop2 o)) (fun m' => run_sections m' r)
  | SCidRange o :: r => bind (cidrange m (chop3 o)) (fun m' => run_sections m' r)
  end.

(* ---------- W / W2 arrays -------------------------------------------------------------------------------------- *)
Inductive witem := WN (q : Q) (isint : bool) | WL (l : list witem) | WX.
Definition wmap := list (Z * option Q).          (* newest first; None = an entry float() rejects *)
Definition qint (q : Q) : Z := Qnum q / Zpos (Qden q).
Definition integral (q : Q) : bool := (Qnum q mod Zpos (Qden q) =? 0).

Fixpoint set_run (m : wmap) (c : Z) (ws : list witem) : wmap :=
  match ws with
  | [] => m
  | WN w _ :: r => set_run ((c, Some w) :: m) (c + 1) r
  | _ :: r => set_run ((c, None) :: m) (c + 1) r
  end.
Fixpoint set_range (m : wmap) (c : Z) (n : nat) (w : Q) : wmap :=
  match n with O => m | S n' => set_range ((c, Some w) :: m) (c + 1) n' w end.

(* get_widths: r collects numbers; a list uses r[-1] as its first code; three numbers make a range *)
Fixpoint get_widths (m : wmap) (r : list (Q * bool)) (seq : list witem) : wmap :=
  match seq with
  | [] => m
  | WL l :: rest =>
      match rev r with
      | (c, _) :: _ => get_widths (if integral c then set_run m (qint c) l else m) [] rest
      | [] => get_widths m r rest
      end
  | WN q i :: rest =>
      match r with
      | [(c1, i1); (c2, i2)] =>
          if i1 && i2 then
            (* range(max(char1, 0), min(char2, 65535) + 1) *)
            let lo := Z.max (qint c1) 0 in let hi := Z.min (qint c2) 65535 in
            get_widths (set_range m lo (Z.to_nat (hi - lo + 1)) q) [] rest
          else get_widths m [] rest
      | _ => get_widths m (r ++ [(q, i)]) rest
      end
  | WX :: rest => get_widths m r rest
  end.

Definition wlookup (m : wmap) (cid : Z) : option Q := match zassoc cid m with Some (Some w) => Some w | _ => None end.

(* get_widths2: (w, (vx, vy)) per cid *)
Definition w2map := list (Z * (Q * (Q * Q))).
Fixpoint set_run2 (m : w2map) (c : Z) (ws : list witem) : w2map :=
  match ws with
  | WN w _ :: WN vx _ :: WN vy _ :: r => set_run2 ((c, (w, (vx, vy))) :: m) (c + 1) r
  | _ => m
  end.
Fixpoint set_range2 (m : w2map) (c : Z) (n : nat) (v : Q * (Q * Q)) : w2map :=
  match n with O => m | S n' => set_range2 ((c, v) :: m) (c + 1) n' v end.
Fixpoint get_widths2 (m : w2map) (r : list Q) (seq : list witem) : w2map :=
  match seq with
  | [] => m
  | WL l :: rest =>
      match rev r with
      | c :: _ => get_widths2 (set_run2 m (qint c) l) [] rest
      | [] => get_widths2 m r rest
      end
  | WN q _ :: rest =>
      match r with
      | [c1; c2; w; vx] =>
          let lo := Z.max (qint c1) 0 in let hi := Z.min (qint c2) 65535 in
          get_widths2 (set_range2 m lo (Z.to_nat (hi - lo + 1)) (w, (vx, q))) [] rest
      | _ => get_widths2 m (r ++ [q]) rest
      end
  | WX :: rest => get_widths2 m r rest
  end.

(* ---------- the CID font ----------------------------------------------------------------------------------------- *)
Record cidfont := mkCID {
  cvertical : bool;
  cw : list witem;  cdw : Q;                       (* W, DW (1000 if absent) *)
  cw2 : list witem; cdw2 : Q * Q                   (* W2, DW2 = [vy w] ([880 -1000] if absent) *)
}.

(* char_width * 1000 (the font scale 0.001 is applied by the caller) *)
Definition cid_width (f : cidfont) : Z -> Q :=
  if cvertical f then
    let m := get_widths2 [] [] (cw2 f) in
    fun cid => match zassoc cid m with Some (w, _) => w | None => snd (cdw2 f) end
  else
    let m := get_widths [] [] (cw f) in
    fun cid => match wlookup m cid with Some w => w | None => cdw f end.

(* char_disp for a vertical font: (vx or None, vy) *)
Definition cid_disp (f : cidfont) : Z -> option Q * Q :=
  let m := get_widths2 [] [] (cw2 f) in
  fun cid => match zassoc cid m with Some (_, (vx, vy)) => (Some vx, vy) | None => (None, fst (cdw2 f)) end.
