(* Executable model of PDFStandardSecurityHandlerV5._r6_password (ISO 32000-2 Algorithm 2.B, the revision-6 password
   hash), definitions only.  The primitives are section variables: the three SHA-2 functions and the AES-128-CBC
   encryption (no padding) of the 64-fold repetition of a block, so that the theorems hold for every function in their
   place.  The loop `while round_no < 64 or last_byte_val > round_no - 32` runs on explicit fuel; the proofs show that
   289 units are never used up. *)
From Coq Require Import ZArith List Bool.
From PdfV Require Import Model.Crypt.
Import ListNotations.
Open Scope Z_scope.

(* _bytes_mod_3: sum(b % 3 for b in input_bytes) % 3 *)
Definition bytes_mod_3 (l : bytes) : Z := fold_left (fun a b => a + b mod 3) l 0 mod 3.

Section R6.
  Variable sha256 sha384 sha512 : bytes -> bytes.
  (* _aes_cbc_encrypt(key, iv, block * 64) *)
  Variable aes_rep : bytes -> bytes -> bytes -> bytes.

  (* one round: the next K and the last byte of E; e[len(e) - 1] of an empty e would be an IndexError: AES-CBC output
     is as long as its input, which holds at least the 32 bytes of K sixty-four times *)
  Definition r6_round (pw vec k : bytes) : bytes * Z :=
    let e := aes_rep (firstn 16 k) (firstn 16 (skipn 16 k)) (pw ++ k ++ vec) in
    let sel := bytes_mod_3 (firstn 16 e) in
    let h := if sel =? 0 then sha256 else if sel =? 1 then sha384 else sha512 in
    (h e, last e 0).

  (* returns K[:32] and the number of rounds executed *)
  Fixpoint r6_loop (fuel : nat) (pw vec k : bytes) (round_no last_byte : Z) : option (bytes * Z) :=
    match fuel with
    | O => None
    | S f =>
        if (round_no <? 64) || (round_no - 32 <? last_byte) then
          let '(k', l') := r6_round pw vec k in r6_loop f pw vec k' (round_no + 1) l'
        else Some (firstn 32 k, round_no)
    end.

  Definition r6_fuel : nat := 300.
  Definition r6_password_rounds (pw salt vec : bytes) : option (bytes * Z) :=
    r6_loop r6_fuel pw vec (sha256 (pw ++ salt ++ vec)) 0 0.
  Definition r6_password (pw salt vec : bytes) : option bytes :=
    match r6_password_rounds pw salt vec with Some (k, _) => Some k | None => None end.
End R6.
