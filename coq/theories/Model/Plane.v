(* Executable model of pdfminer.utils.Plane over Q (definitions only).
   The clamp and the cell-range arithmetic are the translator-generated
   Plane_getrange_clip and drange; the loops, the grid dictionary, the object
   set and find's dedup/overlap filter mirror the Python methods. *)
From Coq Require Import ZArith QArith List Bool.
From PdfV Require Import Base.Num Gen.Geom.
Import ListNotations.

Definition box := (Q * Q * Q * Q)%type.
Record obj := mkObj { oid : nat; obox : box }.

Definition cell := (Z * Z)%type.
Definition cell_eqb (a b : cell) : bool := Z.eqb (fst a) (fst b) && Z.eqb (snd a) (snd b).

Record plane := mkPlane {
  pbounds : @PlaneB Q;
  pseq : list obj;              (* _seq : insertion order *)
  plive : list nat;             (* _objs : set of live objects (by identity) *)
  pgrid : cell -> list obj      (* _grid : missing key = empty list *)
}.

Definition plane_init (b : @PlaneB Q) : plane := mkPlane b [] [] (fun _ => []).

(* range(a, b) *)
Definition zrange (a b : Z) : list Z :=
  map (fun i => (a + Z.of_nat i)%Z) (seq 0 (Z.to_nat (b - a))).

(* Plane._getrange: grid_y outer loop, grid_x inner loop *)
Definition getrange (pb : @PlaneB Q) (b : box) : list cell :=
  let '(x0, y0, x1, y1) := Plane_getrange_clip QOps pb b in
  let '(ya, yb) := drange QOps y0 y1 (PlaneB_gridsize pb) in
  let '(xa, xb) := drange QOps x0 x1 (PlaneB_gridsize pb) in
  flat_map (fun gy => map (fun gx => (gx, gy)) (zrange xa xb)) (zrange ya yb).

Definition mem_cell (k : cell) (ks : list cell) : bool := existsb (cell_eqb k) ks.
Definition mem_nat (n : nat) (l : list nat) : bool := existsb (Nat.eqb n) l.

(* list.remove(x): drop the first occurrence (objects compare by identity) *)
Fixpoint remove_first (i : nat) (l : list obj) : list obj :=
  match l with
  | [] => []
  | o :: r => if Nat.eqb (oid o) i then r else o :: remove_first i r
  end.

Fixpoint remove_nat (i : nat) (l : list nat) : list nat :=
  match l with
  | [] => []
  | j :: r => if Nat.eqb j i then r else j :: remove_nat i r
  end.

Definition plane_add (p : plane) (o : obj) : plane :=
  let ks := getrange (pbounds p) (obox o) in
  mkPlane (pbounds p) (pseq p ++ [o])
          (if mem_nat (oid o) (plive p) then plive p else plive p ++ [oid o])
          (fun k => if mem_cell k ks then pgrid p k ++ [o] else pgrid p k).

(* Plane.remove: KeyError (None) when the object is not live *)
Definition plane_remove (p : plane) (o : obj) : option plane :=
  if mem_nat (oid o) (plive p) then
    let ks := getrange (pbounds p) (obox o) in
    Some (mkPlane (pbounds p) (pseq p) (remove_nat (oid o) (plive p))
                  (fun k => if mem_cell k ks then remove_first (oid o) (pgrid p k) else pgrid p k))
  else None.

(* the test find() applies to each candidate *)
Definition no_overlap (ob qb : box) : bool :=
  let '(ox0, oy0, ox1, oy1) := ob in
  let '(x0, y0, x1, y1) := qb in
  Qle_bool ox1 x0 || Qle_bool x1 ox0 || Qle_bool oy1 y0 || Qle_bool y1 oy0.

Fixpoint find_scan (qb : box) (cands : list obj) (done : list nat) : list obj :=
  match cands with
  | [] => []
  | o :: r =>
      if mem_nat (oid o) done then find_scan qb r done
      else if no_overlap (obox o) qb then find_scan qb r (oid o :: done)
      else o :: find_scan qb r (oid o :: done)
  end.

Definition plane_find (p : plane) (qb : box) : list obj :=
  find_scan qb (flat_map (pgrid p) (getrange (pbounds p) qb)) [].

Definition plane_iter (p : plane) : list obj :=
  filter (fun o => mem_nat (oid o) (plive p)) (pseq p).

Definition plane_len (p : plane) : nat := length (plive p).

(* operation sequences *)
Inductive pop := PAdd (o : obj) | PRemove (o : obj).

Definition plane_step (p : plane) (op : pop) : option plane :=
  match op with
  | PAdd o => Some (plane_add p o)
  | PRemove o => plane_remove p o
  end.

Fixpoint plane_run (p : plane) (ops : list pop) : option plane :=
  match ops with
  | [] => Some p
  | op :: r => match plane_step p op with Some p' => plane_run p' r | None => None end
  end.
