(* Executable model of the content-stream interpreter over exact rationals (definitions only):
   PDFPageInterpreter.execute and its do_* methods for the graphics-state, colour, path and text
   operators, PDFTextDevice.render_string(_horizontal), PDFLayoutAnalyzer.render_char /
   paint_path / begin_figure.  The arithmetic of Td/TD/T*, render_string's parameters, LTChar.adv
   and the matrix helpers is regenerated from source (Gen/TextOps.v, Gen/Geom.v). *)
From Coq Require Import ZArith QArith List Bool.
From PdfV Require Import Base.Num Gen.Geom Gen.TextOps.
Import ListNotations.
Open Scope Q_scope.

Definition M6 := (Q * Q * Q * Q * Q * Q)%type.
Definition ident : M6 := (1, 0, 0, 1, 0, 0).
Definition mmul (a b : M6) : M6 := mult_matrix QOps a b.
Definition mpt (m : M6) (p : Q * Q) : Q * Q := apply_matrix_pt QOps m p.

(* ---------- operands and programs ------------------------------------------------------------ *)
Inductive operand :=
| ONum (q : Q)
| OName (n : Z)
| OStr (s : list Z)
| OArr (l : list operand)
| OBool (b : bool)              (* float(True) = 1.0: booleans count as numbers *)
| OOther (k : Z).               (* dictionaries, ...: never numbers; `null` is a keyword in content streams *)

Inductive opname :=
| Kq | KQ | Kcm | Kw | Kd | KJ | Kj | KM | Kri | Ki | Kgs
| Km | Kl | Kc | Kv | Ky | Kh | Kre
| KS | Ks | Kf | KF | Kfstar | KB | KBstar | Kb | Kbstar | Kn | KW | KWstar
| KCS | Kcs | KG | Kg | KRG | Krg | KK | Kk | KSCN | Kscn | KSC | Ksc | Ksh
| KBT | KET | KTc | KTw | KTz | KTL | KTf | KTr | KTs | KTd | KTD | KTm | KTstar
| KTJ | KTj | Kquote | Kdquote | KDo
| Kunknown.                     (* no do_ method: operands stay on the stack *)

Inductive item := IOpnd (v : operand) | IOp (k : opname).

(* func.__code__.co_argcount - 1 *)
Definition nargs (k : opname) : nat :=
  match k with
  | Kcm | Kc | KTm => 6
  | Kre | Kv | Ky | KK | Kk => 4
  | KRG | Krg | Kdquote => 3
  | Kd | Km | Kl | KTf | KTd | KTD => 2
  | Kw | KJ | Kj | KM | Kri | Ki | Kgs | KCS | Kcs | KG | Kg | Ksh
  | KTc | KTw | KTz | KTL | KTr | KTs | KTJ | KTj | Kquote | KDo => 1
  | _ => 0
  end%nat.

(* ---------- state --------------------------------------------------------------------------------- *)
Inductive color := CGray (g : Q) | CRGB (r g b : Q) | CCMYK (c m y k : Q).

Record font := mkFont { fid : Z; fwidth : Z -> Q; fdescent : Q }.   (* char_width(cid), get_descent() *)

Record tstate := mkTS {
  tfont : option font; tfontsize : Q; tcharspace : Q; twordspace : Q; tscaling : Q;
  tleading : Q; trender : Z; trise : Q; tmatrix : M6; tlinematrix : Q * Q }.
Definition ts_init : tstate := mkTS None 0 0 0 100 0 0 0 ident (0, 0).

Record gstate := mkGS { glinewidth : Q; gdash : option (operand * operand);
                        gscolor : option color; gncolor : option color }.
Definition gs_init : gstate := mkGS 0 None None None.

Inductive seg :=
| SegM (x y : Q) | SegL (x y : Q) | SegC (x1 y1 x2 y2 x3 y3 : Q)
| SegV (x2 y2 x3 y3 : Q) | SegY (x1 y1 x3 y3 : Q) | SegH.

(* resources: fonts, colour spaces (name -> number of components), XObjects *)
Inductive xobj :=
| XForm (matrix : M6) (own : option resources) (body : list item)
| XOtherObj
with resources :=
| Res (fonts : list (Z * font)) (cspaces : list (Z * Z)) (xobjs : list (Z * xobj)).

Definition res_fonts (r : resources) := match r with Res f _ _ => f end.
Definition res_cs (r : resources) := match r with Res _ c _ => c end.
Definition res_xobjs (r : resources) := match r with Res _ _ x => x end.

Inductive event :=
| EGlyph (cid : Z) (m : M6) (adv : Q) (fontid : Z) (fontsize : Q) (rise : Q) (descent : Q) (ncolor : option color)
| EPath (gs : gstate) (stroke fill evenodd : bool) (path : list seg) (devctm : M6)
| EBeginFig (name : Z) (m : M6)
| EEndFig (name : Z).

Record istate := mkI {
  ctm : M6; devctm : M6; ts : tstate; gs : gstate;
  gstack : list (M6 * tstate * gstate);
  curpath : list seg; argstack : list operand;
  scs : Z; ncs : Z;                       (* number of components of the current colour spaces *)
  out : list event                        (* newest first *)
}.

(* predefined colour-space names: 1 DeviceGray, 2 DeviceRGB, 3 DeviceCMYK (ids chosen by the harness);
   init_state: scs = ncs = first entry of csmap = DeviceGray *)
Definition predefined_cs : list (Z * Z) := [(1%Z, 1%Z); (2%Z, 3%Z); (3%Z, 4%Z)].

Definition init_state (c : M6) (o : list event) : istate :=
  mkI c c ts_init gs_init [] [] [] 1 1 o.

Fixpoint assocZ {A} (k : Z) (l : list (Z * A)) : option A :=
  match l with [] => None | (k', v) :: r => if Z.eqb k' k then Some v else assocZ k r end.

(* ---------- helpers --------------------------------------------------------------------------------- *)
(* safe_float: numbers only (strings are assumed non-numeric) *)
Definition sfloat (v : operand) : option Q :=
  match v with ONum q => Some q | OBool b => Some (if b then 1 else 0) | _ => None end.

Fixpoint all_floats (l : list operand) : option (list Q) :=
  match l with
  | [] => Some []
  | v :: r => match sfloat v, all_floats r with Some q, Some t => Some (q :: t) | _, _ => None end
  end.

(* self.pop(n) *)
Definition lastn {A} (n : nat) (l : list A) : list A := skipn (length l - n) l.
Definition droplast {A} (n : nat) (l : list A) : list A := firstn (length l - n) l.

Definition set_ts (s : istate) (t : tstate) : istate :=
  mkI (ctm s) (devctm s) t (gs s) (gstack s) (curpath s) (argstack s) (scs s) (ncs s) (out s).
Definition set_gs (s : istate) (g : gstate) : istate :=
  mkI (ctm s) (devctm s) (ts s) g (gstack s) (curpath s) (argstack s) (scs s) (ncs s) (out s).
Definition set_path (s : istate) (p : list seg) : istate :=
  mkI (ctm s) (devctm s) (ts s) (gs s) (gstack s) p (argstack s) (scs s) (ncs s) (out s).
Definition set_args (s : istate) (a : list operand) : istate :=
  mkI (ctm s) (devctm s) (ts s) (gs s) (gstack s) (curpath s) a (scs s) (ncs s) (out s).
Definition set_out (s : istate) (o : list event) : istate :=
  mkI (ctm s) (devctm s) (ts s) (gs s) (gstack s) (curpath s) (argstack s) (scs s) (ncs s) o.
Definition set_scs (s : istate) (n : Z) : istate :=
  mkI (ctm s) (devctm s) (ts s) (gs s) (gstack s) (curpath s) (argstack s) n (ncs s) (out s).
Definition set_ncs (s : istate) (n : Z) : istate :=
  mkI (ctm s) (devctm s) (ts s) (gs s) (gstack s) (curpath s) (argstack s) (scs s) n (out s).
Definition set_ctm (s : istate) (c : M6) : istate :=       (* self.ctm = ...; self.device.set_ctm(self.ctm) *)
  mkI c c (ts s) (gs s) (gstack s) (curpath s) (argstack s) (scs s) (ncs s) (out s).

Definition with_tmatrix (t : tstate) (m : M6) (lm : Q * Q) : tstate :=
  mkTS (tfont t) (tfontsize t) (tcharspace t) (twordspace t) (tscaling t) (tleading t) (trender t) (trise t) m lm.

Definition color_of (qs : list Q) : option color :=
  match qs with
  | [g] => Some (CGray g)
  | [r; g; b] => Some (CRGB r g b)
  | [c; m; y; k] => Some (CCMYK c m y k)
  | _ => None
  end.

(* ---------- showing text ------------------------------------------------------------------------------- *)
(* the inner loop over the character codes of one string (single-byte, horizontal font) *)
Fixpoint show_cids (f : font) (fontsize scaling charspace wordspace rise : Q) (matrix : M6)
         (nc : option color) (cids : list Z) (x y : Q) (o : list event) : Q * list event :=
  match cids with
  | [] => (x, o)
  | cid :: r =>
      let adv := ltchar_adv QOps (fwidth f cid) fontsize scaling in
      let ev := EGlyph cid (translate_matrix QOps matrix (x, y)) adv (fid f) fontsize rise (fdescent f) nc in
      let x1 := x + adv + charspace in
      let x2 := if Z.eqb cid 32 && negb (Qeq_bool wordspace 0) then x1 + wordspace else x1 in
      show_cids f fontsize scaling charspace wordspace rise matrix nc r x2 y (ev :: o)
  end.

(* render_string_horizontal over the elements of the TJ array *)
Fixpoint show_seq (f : font) (fontsize scaling charspace wordspace rise dxscale : Q) (matrix : M6)
         (nc : option color) (seq : list operand) (x y : Q) (o : list event) : Q * list event :=
  match seq with
  | [] => (x, o)
  | ONum q :: r => show_seq f fontsize scaling charspace wordspace rise dxscale matrix nc r (x - q * dxscale) y o
  | OStr s :: r =>
      let (x', o') := show_cids f fontsize scaling charspace wordspace rise matrix nc s x y o in
      show_seq f fontsize scaling charspace wordspace rise dxscale matrix nc r x' y o'
  | _ :: r => show_seq f fontsize scaling charspace wordspace rise dxscale matrix nc r x y o   (* warning *)
  end.

(* do_TJ *)
Definition do_TJ (s : istate) (seq : operand) : istate :=
  match tfont (ts s), seq with
  | Some f, OArr l =>
      let t := ts s in
      let '(matrix, scaling, charspace, wordspace, dxscale) :=
        render_params QOps (tmatrix t) (devctm s) (tscaling t) (tcharspace t) (twordspace t) (tfontsize t) in
      let (x', o') := show_seq f (tfontsize t) scaling charspace wordspace (trise t) dxscale matrix
                               (gncolor (gs s)) l (fst (tlinematrix t)) (snd (tlinematrix t)) (out s) in
      set_out (set_ts s (with_tmatrix t (tmatrix t) (x', snd (tlinematrix t)))) o'
  | _, _ => s
  end.

Definition do_Tstar (s : istate) : istate :=
  let t := ts s in set_ts s (with_tmatrix t (do_T_a_matrix QOps (tleading t) (tmatrix t)) (0, 0)).

(* ---------- operators with operands ----------------------------------------------------------------------- *)
Definition set_color (stroking : bool) (s : istate) (c : color) (ncomp : Z) : istate :=
  let g := gs s in
  if stroking then set_scs (set_gs s (mkGS (glinewidth g) (gdash g) (Some c) (gncolor g))) ncomp
  else set_ncs (set_gs s (mkGS (glinewidth g) (gdash g) (gscolor g) (Some c))) ncomp.

(* SCN/scn/SC/sc: pops as many operands as the current colour space has components *)
Definition do_setcolor (stroking : bool) (s : istate) : istate :=
  let n := if stroking then scs s else ncs s in
  if (Z.eqb n 1 || Z.eqb n 3 || Z.eqb n 4)%bool then
    let k := Z.to_nat n in
    let vals := lastn k (argstack s) in
    let s1 := set_args s (droplast k (argstack s)) in
    if Nat.eqb (length vals) k then
      match all_floats vals with
      | Some qs => match color_of qs with
                   | Some c => let g := gs s1 in
                               if stroking then set_gs s1 (mkGS (glinewidth g) (gdash g) (Some c) (gncolor g))
                               else set_gs s1 (mkGS (glinewidth g) (gdash g) (gscolor g) (Some c))
                   | None => s1
                   end
      | None => s1
      end
    else s1
  else s.

(* do_h: closing a subpath that is already closed does nothing (ISO 32000-1 8.5.2.1) *)
Definition ends_closed (p : list seg) : bool := match rev p with SegH :: _ => true | _ => false end.
Definition close_path (p : list seg) : list seg := if ends_closed p then p else p ++ [SegH].

Section Exec.
  Variable res : resources.                           (* init_resources of this interpreter *)
  Variable run_form : M6 -> resources -> list item -> list event -> list event.   (* nested interpreter *)

  Definition csmap (n : Z) : option Z :=
    match assocZ n (res_cs res) with Some k => Some k | None => assocZ n predefined_cs end.

  (* the method body, given exactly nargs operands *)
  Definition apply_op (k : opname) (args : list operand) (s : istate) : istate :=
    match k, args with
    | Kq, [] => mkI (ctm s) (devctm s) (ts s) (gs s) ((ctm s, ts s, gs s) :: gstack s)
                    (curpath s) (argstack s) (scs s) (ncs s) (out s)
    | KQ, [] => match gstack s with
                | (c, t, g) :: r => mkI c c t g r (curpath s) (argstack s) (scs s) (ncs s) (out s)
                | [] => s
                end
    | Kcm, _ => match all_floats args with
                | Some [a; b; c; d; e; f] => set_ctm s (mmul (a, b, c, d, e, f) (ctm s))
                | _ => s
                end
    | Kw, [v] => match sfloat v with
                 | Some q => set_gs s (mkGS q (gdash (gs s)) (gscolor (gs s)) (gncolor (gs s)))
                 | None => s
                 end
    | Kd, [a; p] => set_gs s (mkGS (glinewidth (gs s)) (Some (a, p)) (gscolor (gs s)) (gncolor (gs s)))
    | Km, _ => match all_floats args with Some [x; y] => set_path s (curpath s ++ [SegM x y]) | _ => s end
    | Kl, _ => match all_floats args with Some [x; y] => set_path s (curpath s ++ [SegL x y]) | _ => s end
    | Kc, _ => match all_floats args with
               | Some [x1; y1; x2; y2; x3; y3] => set_path s (curpath s ++ [SegC x1 y1 x2 y2 x3 y3]) | _ => s end
    | Kv, _ => match all_floats args with
               | Some [x2; y2; x3; y3] => set_path s (curpath s ++ [SegV x2 y2 x3 y3]) | _ => s end
    | Ky, _ => match all_floats args with
               | Some [x1; y1; x3; y3] => set_path s (curpath s ++ [SegY x1 y1 x3 y3]) | _ => s end
    | Kh, [] => set_path s (close_path (curpath s))
    | Kre, _ => match all_floats args with
                | Some [x; y; w; h] =>
                    set_path s (curpath s ++ [SegM x y; SegL (x + w) y; SegL (x + w) (y + h); SegL x (y + h); SegH])
                | _ => s
                end
    | KS, [] => set_path (set_out s (EPath (gs s) true false false (curpath s) (devctm s) :: out s)) []
    | Ks, [] => set_path (set_out s (EPath (gs s) true false false (close_path (curpath s)) (devctm s) :: out s)) []
    | Kf, [] => set_path (set_out s (EPath (gs s) false true false (curpath s) (devctm s) :: out s)) []
    | Kfstar, [] => set_path (set_out s (EPath (gs s) false true true (curpath s) (devctm s) :: out s)) []
    | KB, [] => set_path (set_out s (EPath (gs s) true true false (curpath s) (devctm s) :: out s)) []
    | KBstar, [] => set_path (set_out s (EPath (gs s) true true true (curpath s) (devctm s) :: out s)) []
    | Kb, [] => set_path (set_out s (EPath (gs s) true true false (close_path (curpath s)) (devctm s) :: out s)) []
    | Kbstar, [] => set_path (set_out s (EPath (gs s) true true true (close_path (curpath s)) (devctm s) :: out s)) []
    | Kn, [] => set_path s []
    | KCS, [OName n] => match csmap n with Some c => set_scs s c | None => s end
    | Kcs, [OName n] => match csmap n with Some c => set_ncs s c | None => s end
    | KG, [v] => match sfloat v with Some g => set_color true s (CGray g) 1 | None => s end
    | Kg, [v] => match sfloat v with Some g => set_color false s (CGray g) 1 | None => s end
    | KRG, _ => match all_floats args with Some [r; g; b] => set_color true s (CRGB r g b) 3 | _ => s end
    | Krg, _ => match all_floats args with Some [r; g; b] => set_color false s (CRGB r g b) 3 | _ => s end
    | KK, _ => match all_floats args with Some [c; m; y; k] => set_color true s (CCMYK c m y k) 4 | _ => s end
    | Kk, _ => match all_floats args with Some [c; m; y; k] => set_color false s (CCMYK c m y k) 4 | _ => s end
    | KSCN, [] | KSC, [] => do_setcolor true s
    | Kscn, [] | Ksc, [] => do_setcolor false s
    | KBT, [] => set_ts s (with_tmatrix (ts s) ident (0, 0))
    | KTc, [v] => match sfloat v with
                  | Some q => let t := ts s in
                              set_ts s (mkTS (tfont t) (tfontsize t) q (twordspace t) (tscaling t) (tleading t)
                                             (trender t) (trise t) (tmatrix t) (tlinematrix t))
                  | None => s end
    | KTw, [v] => match sfloat v with
                  | Some q => let t := ts s in
                              set_ts s (mkTS (tfont t) (tfontsize t) (tcharspace t) q (tscaling t) (tleading t)
                                             (trender t) (trise t) (tmatrix t) (tlinematrix t))
                  | None => s end
    | KTz, [v] => match sfloat v with
                  | Some q => let t := ts s in
                              set_ts s (mkTS (tfont t) (tfontsize t) (tcharspace t) (twordspace t) q (tleading t)
                                             (trender t) (trise t) (tmatrix t) (tlinematrix t))
                  | None => s end
    | KTL, [v] => match sfloat v with
                  | Some q => let t := ts s in
                              set_ts s (mkTS (tfont t) (tfontsize t) (tcharspace t) (twordspace t) (tscaling t) (- q)
                                             (trender t) (trise t) (tmatrix t) (tlinematrix t))
                  | None => s end
    | KTs, [v] => match sfloat v with
                  | Some q => let t := ts s in
                              set_ts s (mkTS (tfont t) (tfontsize t) (tcharspace t) (twordspace t) (tscaling t) (tleading t)
                                             (trender t) q (tmatrix t) (tlinematrix t))
                  | None => s end
    | KTf, [OName n; sz] =>
        (* unknown font names get the resource manager's default font: not modelled, see harness *)
        match assocZ n (res_fonts res) with
        | Some f => let t := ts s in
                    let fs := match sfloat sz with Some q => q | None => tfontsize t end in
                    set_ts s (mkTS (Some f) fs (tcharspace t) (twordspace t) (tscaling t) (tleading t)
                                   (trender t) (trise t) (tmatrix t) (tlinematrix t))
        | None => s
        end
    | KTd, [a; b] => let t := ts s in
                     match sfloat a, sfloat b with
                     | Some tx, Some ty => set_ts s (with_tmatrix t (do_Td_matrix QOps tx ty (tmatrix t)) (0, 0))
                     | _, _ => s
                     end
    | KTD, [a; b] => let t := ts s in
                     match sfloat a, sfloat b with
                     | Some tx, Some ty =>
                         set_ts s (mkTS (tfont t) (tfontsize t) (tcharspace t) (twordspace t) (tscaling t) ty
                                        (trender t) (trise t) (do_TD_matrix QOps tx ty (tmatrix t)) (0, 0))
                     | _, _ => s
                     end
    | KTm, _ => match all_floats args with
                | Some [a; b; c; d; e; f] => set_ts s (with_tmatrix (ts s) (a, b, c, d, e, f) (0, 0))
                | _ => s
                end
    | KTstar, [] => do_Tstar s
    | KTJ, [v] => do_TJ s v
    | KTj, [v] => do_TJ s (OArr [v])
    | Kquote, [v] => do_TJ (do_Tstar s) (OArr [v])
    | Kdquote, [aw; ac; v] =>
        let t := ts s in
        let t1 := match sfloat aw with
                  | Some q => mkTS (tfont t) (tfontsize t) (tcharspace t) q (tscaling t) (tleading t)
                                   (trender t) (trise t) (tmatrix t) (tlinematrix t)
                  | None => t end in
        let t2 := match sfloat ac with
                  | Some q => mkTS (tfont t1) (tfontsize t1) q (twordspace t1) (tscaling t1) (tleading t1)
                                   (trender t1) (trise t1) (tmatrix t1) (tlinematrix t1)
                  | None => t1 end in
        do_TJ (do_Tstar (set_ts s t2)) (OArr [v])
    | KDo, [OName n] =>
        match assocZ n (res_xobjs res) with
        | Some (XForm matrix own body) =>
            let r := match own with Some r' => r' | None => res end in
            let o1 := EBeginFig n (mmul matrix (devctm s)) :: out s in
            let o2 := run_form (mmul matrix (ctm s)) r body o1 in
            (* device.set_ctm(self.ctm) after the form *)
            mkI (ctm s) (ctm s) (ts s) (gs s) (gstack s) (curpath s) (argstack s) (scs s) (ncs s) (EEndFig n :: o2)
        | _ => s
        end
    | _, _ => s                  (* J j M ri i gs sh F W W* ET and ill-typed names: no modelled effect *)
    end.

  (* one item of execute() *)
  Definition step (s : istate) (it : item) : istate :=
    match it with
    | IOpnd v => set_args s (argstack s ++ [v])
    | IOp Kunknown => s
    | IOp k =>
        let n := nargs k in
        match n with
        | O => apply_op k [] s
        | _ => let args := lastn n (argstack s) in
               let s1 := set_args s (droplast n (argstack s)) in
               if Nat.eqb (length args) n then apply_op k args s1 else s1
        end
    end.

  Definition run_items (s : istate) (prog : list item) : istate := fold_left step prog s.
End Exec.

(* render_contents: a fresh interpreter state; forms nest with explicit fuel *)
Fixpoint render (fuel : nat) (c : M6) (res : resources) (prog : list item) (o : list event) : list event :=
  match fuel with
  | O => o
  | S f => out (run_items res (render f) (init_state c o) prog)
  end.

Definition run_page (fuel : nat) (c : M6) (res : resources) (prog : list item) : list event :=
  rev (render fuel c res prog []).
