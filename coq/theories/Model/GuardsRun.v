(* Entry points evaluated by harness/c13.py *)
From Coq Require Import ZArith List Bool.
From PdfV Require Import Base.CV Model.Guards.
Import ListNotations.
Open Scope Z_scope.

Fixpoint zassoc {V} (k : Z) (l : list (Z * V)) : option V :=
  match l with [] => None | (k', v) :: r => if k =? k' then Some v else zassoc k r end.

(* (store as an association list, starting object) -> the resolved integer, -7 = default, -99 = not an integer *)
Definition run_resolve (x : list (Z * obj) * Z) : cv :=
  let '(st, start) := x in
  match resolve1 (fun i => zassoc i st) (OVal (-7)) (ORef start) with
  | OVal v => CZ v
  | ORef _ => CZ (-99)
  end.

(* (edges of the form graph, recursion budget) -> the forms drawn, in order, starting from form 0 *)
Definition run_descend (x : list (Z * list Z) * nat) : cv :=
  let '(edges, fuel) := x in
  match descend (fun n => match zassoc n edges with Some l => l | None => [] end) fuel [] 0 with
  | Some l => CL (map CZ l)
  | None => CZ (-1)
  end.

(* (links between cross-reference sections, start offset) -> the sections read, in order *)
Definition run_xread (x : list (Z * list Z) * Z) : cv :=
  let '(edges, start) := x in
  match xread (fun n => match zassoc n edges with Some l => l | None => [] end) (S (length edges)) [] start with
  | Some (_, o) => CL (map CZ o)
  | None => CZ (-1)
  end.
