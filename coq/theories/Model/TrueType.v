(* Executable model of pdffont.TrueTypeFont (definitions only): the table directory read by __init__ and
   _create_unicode_map over the bytes of an embedded font program -- cmap header, subtable records, the platform /
   encoding filter, subtable formats 0, 2 and 4 (delta and range-offset segments), unknown formats skipped, a read
   past the end of the program (struct.error, reported as CMapNotFound) -- and the inversion of the character ->
   glyph dictionary into FileUnicodeMap.cid2unichr.  The file object is a byte list with an explicit position. *)
From Coq Require Import ZArith List Bool.
From PdfV Require Import Model.Fonts Model.CMaps.
Import ListNotations.
Open Scope Z_scope.

(* fp.seek(pos); fp.read(n) with the exact-length demand of struct.unpack: None = struct.error *)
Definition take_at (f : list Z) (pos : Z) (n : nat) : option (list Z) :=
  if pos <? 0 then None
  else if Z.of_nat (length f) <? pos then (match n with O => Some [] | _ => None end)   (* no unary number of file size *)
  else let r := firstn n (skipn (Z.to_nat pos) f) in
       if Nat.eqb (length r) n then Some r else None.

Definition s16 (v : Z) : Z := if v <? 32768 then v else v - 65536.
Definition u16_at (f : list Z) (pos : Z) : option Z :=
  match take_at f pos 2 with Some [a; b] => Some (256 * a + b) | _ => None end.
Definition u16s_at (f : list Z) (pos : Z) (n : nat) : option (list Z) :=
  match take_at f pos (2 * n) with Some bs => Some (pairs_be bs) | None => None end.
Definition u32_of (b : list Z) : Z := nunpack b.

(* a Python dict int -> int: insertion order, an update keeps the key's place *)
Definition zdict := list (Z * Z).
Fixpoint dset (k v : Z) (d : zdict) : zdict :=
  match d with
  | [] => [(k, v)]
  | (k', v') :: r => if k =? k' then (k, v) :: r else (k', v') :: dset k v r
  end.
Definition dget (d : zdict) (k : Z) : option Z := zassoc k d.

Fixpoint zseq (start : Z) (n : nat) : list Z :=
  match n with O => [] | S m => start :: zseq (start + 1) m end.
(* range(a, b) *)
Definition pyrange (a b : Z) : list Z := zseq a (Z.to_nat (b - a)).

(* ---------- __init__: the table directory ---------------------------------------------------------------- *)
(* entries are read while sixteen bytes are there; the dictionary keeps the last entry of a tag *)
Fixpoint dir_entries (f : list Z) (pos : Z) (n : nat) : list (list Z * (Z * Z)) :=
  match n with
  | O => []
  | S m =>
      match take_at f pos 16 with
      | Some e => (firstn 4 e, (u32_of (firstn 4 (skipn 8 e)), u32_of (skipn 12 e))) :: dir_entries f (pos + 16) m
      | None => []
      end
  end.
Definition tag_cmap : list Z := [99; 109; 97; 112].
Fixpoint last_tag (tag : list Z) (es : list (list Z * (Z * Z))) (acc : option (Z * Z)) : option (Z * Z) :=
  match es with
  | [] => acc
  | (t, v) :: r => last_tag tag r (if str_eqb t tag then Some v else acc)
  end.
Definition cmap_table (f : list Z) : option (Z * Z) :=
  match u16_at f 4, take_at f 4 8 with
  | Some ntables, Some _ => last_tag tag_cmap (dir_entries f 12 (Z.to_nat ntables)) None
  | _, _ => None
  end.

(* ---------- subtable formats ------------------------------------------------------------------------------ *)
(* format 0: char2gid.update(enumerate(256 bytes)) *)
Fixpoint update_enum (i : Z) (vals : list Z) (d : zdict) : zdict :=
  match vals with [] => d | v :: r => update_enum (i + 1) r (dset i v d) end.

(* format 4, a segment without idRangeOffset *)
Definition seg_delta (sc ec idd : Z) (d : zdict) : zdict :=
  fold_left (fun d c => dset c ((c + idd) mod 65536) d) (pyrange sc (ec + 1)) d.
(* format 4, a segment with idRangeOffset: glyph indices read one after the other from the given position *)
Definition glyph_of (b idd : Z) : Z := if b =? 0 then 0 else (b + idd) mod 65536.
Fixpoint seg_glyphs (cs : list Z) (gl : list Z) (idd : Z) (d : zdict) : zdict :=
  match cs, gl with
  | c :: cs', b :: gl' => seg_glyphs cs' gl' idd (dset c (glyph_of b idd) d)
  | _, _ => d
  end.
Definition seg_range (f : list Z) (at_ : Z) (sc ec idd : Z) (d : zdict) : option zdict :=
  let cs := pyrange sc (ec + 1) in
  match u16s_at f at_ (length cs) with
  | Some gl => Some (seg_glyphs cs gl idd d)
  | None => None
  end.

Fixpoint fmt4_segs (f : list Z) (pos : Z) (i : Z) (ecs scs idds idrs : list Z) (d : zdict) : option zdict :=
  match ecs, scs, idds, idrs with
  | ec :: ecs', sc :: scs', idd :: idds', idr :: idrs' =>
      let d' := if idr =? 0 then Some (seg_delta sc ec (s16 idd) d)
                else seg_range f (pos + 2 * i + idr) sc ec (s16 idd) d in
      match d' with
      | Some d1 => fmt4_segs f pos (i + 1) ecs' scs' idds' idrs' d1
      | None => None
      end
  | _, _, _, _ => Some d                       (* zip stops at the shortest *)
  end.

(* the subtable body starts at p (after the six bytes format, length, language) *)
Definition fmt4 (f : list Z) (p : Z) (d : zdict) : option zdict :=
  match u16_at f p, take_at f p 8 with
  | Some sc2, Some _ =>
      let n := Z.to_nat (sc2 / 2) in
      let w := 2 * Z.of_nat n in
      match u16s_at f (p + 8) n, u16s_at f (p + 8 + w + 2) n, u16s_at f (p + 8 + 2 * w + 2) n,
            u16s_at f (p + 8 + 3 * w + 2) n with
      | Some ecs, Some scs, Some idds, Some idrs => fmt4_segs f (p + 8 + 3 * w + 2) 0 ecs scs idds idrs d
      | _, _, _, _ => None
      end
  | _, _ => None
  end.

(* format 2 *)
Fixpoint set_nth (n : nat) (v : Z) (l : list Z) : list Z :=
  match l, n with
  | [], _ => []
  | _ :: r, O => v :: r
  | x :: r, S m => x :: set_nth m v r
  end.
Fixpoint firstbytes_go (i : Z) (keys : list Z) (fb : list Z) : list Z :=
  match keys with [] => fb | k :: r => firstbytes_go (i + 1) r (set_nth (Z.to_nat (k / 8)) i fb) end.
Definition zmax_list (l : list Z) : Z := fold_left Z.max l 0.
(* headers: (index, firstcode, entcount, delta, position of the glyph array) *)
Fixpoint fmt2_hdrs (f : list Z) (pos : Z) (i : Z) (n : nat) : option (list (Z * Z * Z * Z * Z)) :=
  match n with
  | O => Some []
  | S m =>
      match u16s_at f pos 4 with
      | Some [fc; cnt; dl; off] =>
          match fmt2_hdrs f (pos + 8) (i + 1) m with
          | Some r => Some ((i, fc, cnt, s16 dl, pos + 8 - 2 + off) :: r)
          | None => None
          end
      | _ => None
      end
  end.
Fixpoint fmt2_put (first : Z) (delta : Z) (gl : list Z) (d : zdict) : zdict :=
  match gl with
  | [] => d
  | g :: r => fmt2_put (first + 1) delta r (dset first (if g =? 0 then 0 else g + delta) d)
  end.
Fixpoint fmt2_apply (f : list Z) (fb : list Z) (hs : list (Z * Z * Z * Z * Z)) (d : zdict) : option zdict :=
  match hs with
  | [] => Some d
  | (i, fc, cnt, dl, pos) :: r =>
      if cnt =? 0 then fmt2_apply f fb r d
      else match u16s_at f pos (Z.to_nat cnt) with
           | Some gl => fmt2_apply f fb r (fmt2_put (fc + 256 * nth (Z.to_nat i) fb 0) dl gl d)
           | None => None
           end
  end.
Definition fmt2 (f : list Z) (p : Z) (d : zdict) : option zdict :=
  match u16s_at f p 256 with
  | Some keys =>
      let fb := firstbytes_go 0 keys (repeat 0 (Z.to_nat 8192)) in
      match fmt2_hdrs f (p + 512) 0 (Z.to_nat (zmax_list keys / 8 + 1)) with
      | Some hs => fmt2_apply f fb hs d
      | None => None
      end
  | None => None
  end.

(* ---------- the subtable loop ----------------------------------------------------------------------------- *)
Definition unicode_subtable (pid eid : Z) : bool :=
  (pid =? 0) || ((pid =? 3) && ((eid =? 1) || (eid =? 10))).

Fixpoint subtable_records (f : list Z) (pos : Z) (n : nat) : option (list (Z * Z * Z)) :=
  match n with
  | O => Some []
  | S m =>
      match take_at f pos 8 with
      | Some e =>
          match subtable_records f (pos + 8) m with
          | Some r => Some ((256 * nth 0 e 0 + nth 1 e 0, 256 * nth 2 e 0 + nth 3 e 0, u32_of (skipn 4 e)) :: r)
          | None => None
          end
      | None => None
      end
  end.

Fixpoint subtables (f : list Z) (base : Z) (recs : list (Z * Z * Z)) (d : zdict) : option zdict :=
  match recs with
  | [] => Some d
  | (pid, eid, off) :: r =>
      if negb (unicode_subtable pid eid) then subtables f base r d
      else
        let p := base + off in
        match u16s_at f p 3 with
        | Some (fmt :: _) =>
            let d' :=
              if fmt =? 0 then match take_at f (p + 6) 256 with Some vals => Some (update_enum 0 vals d) | None => None end
              else if fmt =? 2 then fmt2 f (p + 6) d
              else if fmt =? 4 then fmt4 f (p + 6) d
              else Some d in
            match d' with Some d1 => subtables f base r d1 | None => None end
        | _ => None
        end
  end.

(* char2gid of the whole program; None = CMapNotFound (missing table, truncated table, no mapping at all) *)
Definition char2gid (f : list Z) : option zdict :=
  match cmap_table f with
  | None => None
  | Some (base, _) =>
      match u16s_at f base 2 with
      | Some [_; nsub] =>
          match subtable_records f (base + 4) (Z.to_nat nsub) with
          | Some recs =>
              match subtables f base recs [] with
              | Some [] => None
              | Some d => Some d
              | None => None
              end
          | None => None
          end
      | _ => None
      end
  end.

(* unicode_map.add_cid2unichr(gid, char) for every item in dictionary order; chr(char) is a one-character text *)
Definition invert_step (m : umap) (e : Z * Z) : umap :=
  let '(c, g) := e in
  if (c =? 160) && (match umap_get m g with Some [32] => true | _ => false end) then m else (g, [c]) :: m.
Definition invert (d : zdict) : umap := fold_left invert_step d [].

Definition create_unicode_map (f : list Z) : option umap :=
  match char2gid f with Some d => Some (invert d) | None => None end.
