(* Entry points evaluated by harness/c04.py *)
From Coq Require Import ZArith QArith List Bool.
From PdfV Require Import Base.CV Base.Num Gen.Geom Gen.PageGeom Model.PageTree.
Import ListNotations.
Open Scope Z_scope.

Definition cq (q : Q) : cv := let r := Qred q in CL [CZ (Qnum r); CZ (Zpos (Qden r))].
Definition copt (o : option Z) : cv := match o with None => CL [] | Some z => CL [CZ z] end.

Definition canon_page (p : Z * attrs) : cv :=
  let a := snd p in
  CL [CZ (fst p); copt (nth 0 a None); copt (nth 1 a None); copt (nth 2 a None);
      CZ (rotate_norm QOps (match nth 3 a None with Some r => r | None => 0 end))].

Definition run_pages (x : store * Z * attrs) : cv :=
  let '(st, root, cat) := x in
  match pages st root cat with
  | Some ps => CL (map canon_page ps)
  | None => CZ (-1)
  end.

Definition run_select (x : list Z * list nat * nat) : cv :=
  let '(ids, pagenos, maxpages) := x in CL (map CZ (select ids 0 pagenos maxpages)).

Definition run_ctm (x : Q * Q * Q * Q * Z) : cv :=
  let '(x0, y0, x1, y1, rot) := x in
  let rn := rotate_norm QOps rot in
  let page := mkPageRec (x0, y0, x1, y1) rn in
  let ctm := process_page_ctm QOps 0 page in
  let '(a, b, c, d, e, f) := ctm in
  let '(b0, b1, b2, b3) := begin_page_box QOps 0 page ctm in
  CL [CL (map cq [a; b; c; d; e; f]); CL [cq (inject_Z b0); cq (inject_Z b1); cq b2; cq b3]; CZ rn].
