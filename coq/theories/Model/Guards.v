(* Executable model of the guards that keep work bounded on damaged input (definitions only):
   pdftypes.resolve1 (reference chains with a hop limit), the path-guarded descents of
   PDFPageInterpreter.do_Do (forms), data_structures.NumberTree._parse and PDFDocument.lookup_name (trees), and the
   range limits of CMapParser / get_widths. *)
From Coq Require Import ZArith List Bool.
Import ListNotations.
Open Scope Z_scope.

(* ---------- resolve1 ---------------------------------------------------------------------------------------------- *)
Inductive obj := ORef (id : Z) | OVal (v : Z).
Definition store := Z -> option obj.                       (* getobj; None = PDFObjectNotFound -> default *)
Definition MAX_REFERENCE_CHAIN : nat := 100.

(* while isinstance(x, PDFObjRef): if hops >= MAX: return default; x = x.resolve(default); hops += 1 *)
Fixpoint resolve_go (st : store) (default : obj) (fuel : nat) (x : obj) : obj :=
  match x with
  | OVal _ => x
  | ORef id =>
      match fuel with
      | O => default
      | S f => resolve_go st default f (match st id with Some y => y | None => default end)
      end
  end.
Definition resolve1 (st : store) (default : obj) (x : obj) : obj := resolve_go st default MAX_REFERENCE_CHAIN x.

(* ---------- path-guarded descent ---------------------------------------------------------------------------------- *)
(* node ids; [kids] is the document-controlled successor relation (Kids of a tree node, forms drawn by a form) *)
Fixpoint mem (x : Z) (l : list Z) : bool := match l with [] => false | y :: r => (x =? y) || mem x r end.

(* returns the nodes visited in order; None = recursion deeper than the fuel (RecursionError) *)
Fixpoint descend (kids : Z -> list Z) (fuel : nat) (path : list Z) (n : Z) : option (list Z) :=
  if mem n path then Some []                                (* already being processed: skipped *)
  else match fuel with
       | O => None
       | S f =>
           option_map (cons n)
             ((fix go (ks : list Z) : option (list Z) :=
                 match ks with
                 | [] => Some []
                 | k :: r => match descend kids f (n :: path) k, go r with
                             | Some a, Some b => Some (a ++ b)
                             | _, _ => None
                             end
                 end) (kids n))
       end.

(* ---------- range limits ----------------------------------------------------------------------------------------- *)
Definition MAX_RANGE : Z := 65536.
Definition cmap_range_steps (start end_ : Z) : Z := Z.max 0 (Z.min (end_ - start + 1) MAX_RANGE).
Definition width_range_steps (c1 c2 : Z) : Z := Z.max 0 (Z.min c2 65535 - Z.max c1 0 + 1).

(* ---------- globally guarded chains: PDFDocument.read_xref_from --------------------------------------------------- *)
(* [links off] = the offsets the section at [off] sends the reader to, in the order they are followed (/XRefStm, then
   /Prev).  A section already read is not read again.  Returns (visited set, sections read in order); None = recursion
   deeper than the fuel. *)
Fixpoint xread (links : Z -> list Z) (fuel : nat) (visited : list Z) (start : Z) : option (list Z * list Z) :=
  if mem start visited then Some (visited, [])
  else match fuel with
       | O => None
       | S f =>
           match (fix go (ks : list Z) (vis : list Z) : option (list Z * list Z) :=
                    match ks with
                    | [] => Some (vis, [])
                    | k :: r => match xread links f vis k with
                                | Some (vis1, o1) => match go r vis1 with
                                                     | Some (vis2, o2) => Some (vis2, o1 ++ o2)
                                                     | None => None
                                                     end
                                | None => None
                                end
                    end) (links start) (start :: visited) with
           | Some (vis', o) => Some (vis', start :: o)
           | None => None
           end
       end.
